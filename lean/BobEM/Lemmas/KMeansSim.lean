import BobEM.Lemmas.KMeansDescent
import BobEM.Lemmas.Loop

/-! k-means training under a similarity of the feature space (C15): a map `φ` that multiplies all
squared distances by one positive constant and commutes with arithmetic means carries a whole
`KMeansMachine.fit` — assignments, centroid updates, kept centroids of empty clusters, the reported
criterion and the iteration at which the relative stopping test fires — to the fit of the mapped
problem.  Uniform scalings with a shift and orthogonal maps are such maps; so are their composites. -/

open Finset BobEM

variable {K D : ℕ}

/-- what k-means needs of a change of coordinates -/
structure KSim (D : ℕ) where
  φ : (Fin D → ℝ) → (Fin D → ℝ)
  σ : ℝ
  σpos : 0 < σ
  dist : ∀ x c, sqDist (φ x) (φ c) = σ * sqDist x c
  mean : ∀ (l : List (Fin D → ℝ)), l ≠ [] → ∀ j,
    (l.map fun x => φ x j).sum / (l.length : ℝ) = φ (fun i => (l.map fun x => x i).sum / (l.length : ℝ)) j

namespace KSim
variable (T : KSim D)

/-- assignments are unchanged (ties are broken by index on both sides) -/
theorem assign_eq (cent : Fin (K+1) → Fin D → ℝ) (x : Fin D → ℝ) :
    assign (fun k => T.φ (cent k)) (T.φ x) = assign cent x := by
  unfold assign argminFin
  simp only [T.dist]
  congr 1
  funext best i
  simp only [mul_lt_mul_iff_right₀ T.σpos]

theorem sum_filter {β : Type} (l : List β) (p : β → Prop) [DecidablePred p] (f : β → ℝ) :
    (l.map fun x => if p x then f x else 0).sum = ((l.filter fun x => p x).map f).sum := by
  induction l with
  | nil => simp
  | cons x l ih => by_cases h : p x <;> simp [List.filter_cons, h, ih]

theorem filter_map_sim (cent : Fin (K+1) → Fin D → ℝ) (xs : List (Fin D → ℝ)) (k : Fin (K+1)) :
    (xs.map T.φ).filter (fun y => assign (fun k => T.φ (cent k)) y = k)
      = (xs.filter fun x => assign cent x = k).map T.φ := by
  induction xs with
  | nil => rfl
  | cons x xs ih =>
    by_cases h : assign cent x = k <;> simp [List.filter_cons, T.assign_eq, h, ih]

/-- the E-step statistics of the mapped problem -/
theorem kEStep_sim (cent : Fin (K+1) → Fin D → ℝ) (xs : List (Fin D → ℝ)) :
    (kEStep (fun k => T.φ (cent k)) (xs.map T.φ)).n = (kEStep cent xs).n
      ∧ (kEStep (fun k => T.φ (cent k)) (xs.map T.φ)).dist = T.σ * (kEStep cent xs).dist
      ∧ ∀ k j, (kEStep (fun k => T.φ (cent k)) (xs.map T.φ)).sums k j
          = (((xs.filter fun x => assign cent x = k).map fun x => T.φ x j)).sum := by
  refine ⟨?_, ?_, ?_⟩
  · funext k
    simp only [kEStep, List.countP_map, Function.comp_def, T.assign_eq]
  · simp only [kEStep, lsum_eq, List.map_map, Function.comp_def, T.assign_eq, T.dist, List.sum_map_mul_left]
  · intro k j
    simp only [kEStep, lsum_eq]
    rw [sum_filter (xs.map T.φ) (fun y => assign (fun k => T.φ (cent k)) y = k) (fun y => y j), T.filter_map_sim,
      List.map_map]
    rfl

/-- the centroids of one iteration on a single block, in filter form -/
theorem kIter_cent (cent : Fin (K+1) → Fin D → ℝ) (xs : List (Fin D → ℝ)) (k : Fin (K+1)) :
    (kIter [xs] cent).1 k
      = if (xs.filter fun x => assign cent x = k) = [] then cent k
        else fun j => ((xs.filter fun x => assign cent x = k).map fun x => x j).sum
          / ((xs.filter fun x => assign cent x = k).length : ℝ) := by
  funext j
  unfold kIter
  rw [kEStep_blocks]
  simp only [List.flatten_cons, List.flatten_nil, List.append_nil, kMStep, kEStep, lsum_eq, Transc.ofNat]
  rw [List.countP_eq_length_filter]
  by_cases h : (xs.filter fun x => assign cent x = k) = []
  · simp [h]
  · have hl : (xs.filter fun x => assign cent x = k).length ≠ 0 := by simpa [List.length_eq_zero_iff] using h
    simp only [hl, h, if_false]
    rw [sum_filter xs (fun x => assign cent x = k) (fun x => x j)]

/-- **one iteration is equivariant**: new centroids are the images of the new centroids, the criterion is
multiplied by `σ` -/
theorem kIter_sim (blocks : List (List (Fin D → ℝ))) (cent : Fin (K+1) → Fin D → ℝ) :
    kIter (blocks.map fun b => b.map T.φ) (fun k => T.φ (cent k))
      = ((fun k => T.φ ((kIter blocks cent).1 k)), T.σ * (kIter blocks cent).2) := by
  have hchunk : ∀ (c : Fin (K+1) → Fin D → ℝ) (bl : List (List (Fin D → ℝ))), kIter bl c = kIter [bl.flatten] c := by
    intro c bl
    unfold kIter
    rw [kEStep_blocks, kEStep_blocks]; simp
  rw [hchunk, hchunk cent blocks]
  have hflat : (blocks.map fun b => b.map T.φ).flatten = blocks.flatten.map T.φ := by rw [List.map_flatten]
  rw [hflat]
  set xs := blocks.flatten
  obtain ⟨hn, hd, hs⟩ := T.kEStep_sim cent xs
  apply Prod.ext
  · funext k
    show (kIter [xs.map T.φ] fun k => T.φ (cent k)).1 k = T.φ ((kIter [xs] cent).1 k)
    rw [kIter_cent, kIter_cent, T.filter_map_sim]
    by_cases h : (xs.filter fun x => assign cent x = k) = []
    · simp [h]
    · simp only [h, List.map_eq_nil_iff, if_false, List.length_map, List.map_map, Function.comp_def]
      funext j
      exact T.mean _ h j
  · show (kIter [xs.map T.φ] fun k => T.φ (cent k)).2 = T.σ * (kIter [xs] cent).2
    unfold kIter
    rw [kEStep_blocks, kEStep_blocks]
    simp only [List.flatten_cons, List.flatten_nil, List.append_nil, kMStep, hd, List.length_map]
    ring
end KSim

/-- a loop whose step and stopping test commute with a change of representation performs the same number
of iterations and ends in the image of the end state -/
theorem emLoop_sim {S S' α : Type} (f : S → S × α) (f' : S' → S' × α) (stop stop' : α → α → Bool)
    (Φ : S → S') (g : α → α) (hstep : ∀ s, f' (Φ s) = (Φ (f s).1, g (f s).2))
    (hstop : ∀ p c, stop' (g p) (g c) = stop p c) (fuel step : ℕ) (prev : α) (s : S) :
    emLoop f' stop' fuel step (g prev) (Φ s) = (Φ (emLoop f stop fuel step prev s).1, (emLoop f stop fuel step prev s).2) := by
  induction fuel generalizing step prev s with
  | zero => rfl
  | succ fuel ih =>
    unfold emLoop
    simp only [hstep, hstop]
    by_cases h : (step + 1 > 1 && stop prev (f s).2) = true
    · simp only [h, if_true]
    · simp only [h, Bool.false_eq_true, if_false]
      exact ih (step + 1) (f s).2 (f s).1

/-- the same under an invariant of the states (the step commutes only on states satisfying it) -/
theorem emLoop_sim_inv {S S' α : Type} (f : S → S × α) (f' : S' → S' × α) (stop stop' : α → α → Bool)
    (Φ : S → S') (g : α → α) (Inv : S → Prop) (hinv : ∀ s, Inv s → Inv (f s).1)
    (hstep : ∀ s, Inv s → f' (Φ s) = (Φ (f s).1, g (f s).2))
    (hstop : ∀ p c, stop' (g p) (g c) = stop p c) (fuel step : ℕ) (prev : α) (s : S) (hs : Inv s) :
    emLoop f' stop' fuel step (g prev) (Φ s) = (Φ (emLoop f stop fuel step prev s).1, (emLoop f stop fuel step prev s).2) := by
  induction fuel generalizing step prev s with
  | zero => rfl
  | succ fuel ih =>
    unfold emLoop
    simp only [hstep s hs, hstop]
    by_cases h : (step + 1 > 1 && stop prev (f s).2) = true
    · simp only [h, if_true]
    · simp only [h, Bool.false_eq_true, if_false]
      exact ih (step + 1) (f s).2 (f s).1 (hinv s hs)

/-- **a whole `KMeansMachine.fit` is equivariant** under every `KSim`: same number of iterations, final
centroids mapped, for every chunking, threshold and iteration limit -/
theorem kFit_sim (T : KSim D) (thr : Option ℝ) (fuel : ℕ) (c0 : ℝ) (cent0 : Fin (K+1) → Fin D → ℝ)
    (blocks : List (List (Fin D → ℝ))) :
    kFit thr fuel (T.σ * c0) (fun k => T.φ (cent0 k)) (blocks.map fun b => b.map T.φ)
      = ((fun k => T.φ ((kFit thr fuel c0 cent0 blocks).1 k)), (kFit thr fuel c0 cent0 blocks).2) := by
  unfold kFit
  have hstop : ∀ p c, convStop thr (T.σ * p) (T.σ * c) = convStop thr p c := by
    intro p c
    have hσ : T.σ ≠ 0 := T.σpos.ne'
    have : (T.σ * p - T.σ * c) / (T.σ * p) = (p - c) / p := by rw [← mul_sub, mul_div_mul_left _ _ hσ]
    cases thr with
    | none => rfl
    | some t =>
      have e : relChange (T.σ * p) (T.σ * c) = relChange p c := by unfold relChange; rw [this]
      unfold convStop
      rw [e]
  exact emLoop_sim (kIter blocks) (kIter (blocks.map fun b => b.map T.φ)) (convStop thr) (convStop thr)
    (fun cent k => T.φ (cent k)) (fun c => T.σ * c) (fun cent => T.kIter_sim blocks cent) hstop fuel 0 c0 cent0
#print axioms kFit_sim

/-! ### the two generators: uniform scale with shift, and orthogonal maps -/

/-- `x ↦ s x + t` with one scale `s ≠ 0` for all features -/
noncomputable def KSim.scaleShift (s : ℝ) (hs : s ≠ 0) (t : Fin D → ℝ) : KSim D where
  φ := fun x d => s * x d + t d
  σ := s * s
  σpos := mul_self_pos.mpr hs
  dist := by
    intro x c
    simp only [sqDist_eq, Finset.mul_sum]
    exact Finset.sum_congr rfl fun d _ => by ring
  mean := by
    intro l hl j
    have hlen : (l.length : ℝ) ≠ 0 := by
      have := List.length_pos_of_ne_nil hl
      positivity
    have : (l.map fun x => s * x j + t j).sum = s * (l.map fun x => x j).sum + l.length * t j := by
      induction l with
      | nil => simp
      | cons x l ih =>
        by_cases hl' : l = []
        · subst hl'; simp
        · have hlen' : ((l.length : ℕ) : ℝ) ≠ 0 := by
            have := List.length_pos_of_ne_nil hl'
            positivity
          simp only [List.map_cons, List.sum_cons, List.length_cons, Nat.cast_add, Nat.cast_one, ih hl' hlen']
          ring
    rw [this]
    field_simp

/-- an orthogonal map `x ↦ Q x` -/
noncomputable def KSim.rotation (Q : Matrix (Fin D) (Fin D) ℝ) (hQ : Q.transpose * Q = 1) : KSim D where
  φ := Q.mulVec
  σ := 1
  σpos := one_pos
  dist := by
    intro x c
    rw [one_mul]
    simp only [sqDist_eq]
    have h : ∀ v : Fin D → ℝ, ∑ j, (Q.mulVec v) j * (Q.mulVec v) j = ∑ j, v j * v j := by
      intro v
      have : (Q.mulVec v) ⬝ᵥ (Q.mulVec v) = v ⬝ᵥ v := by
        rw [Matrix.dotProduct_mulVec, Matrix.vecMul_mulVec, hQ, Matrix.vecMul_one]
      simpa [dotProduct] using this
    have hsub : ∀ j, (Q.mulVec x) j - (Q.mulVec c) j = (Q.mulVec (x - c)) j := by
      intro j; rw [Matrix.mulVec_sub]; rfl
    simp only [hsub, h]
    simp [Pi.sub_apply]
  mean := by
    have hsum : ∀ (l : List (Fin D → ℝ)) (j : Fin D),
        (l.map fun x => Q.mulVec x j).sum = Q.mulVec (fun i => (l.map fun x => x i).sum) j := by
      intro l j
      induction l with
      | nil => simp [Matrix.mulVec, dotProduct]
      | cons x l ih =>
        simp only [List.map_cons, List.sum_cons, ih]
        have : (fun i => x i + (l.map fun x => x i).sum) = x + fun i => (l.map fun x => x i).sum := rfl
        rw [this, Matrix.mulVec_add]
        rfl
    intro l _ j
    rw [hsum]
    have : (fun i => (l.map fun x => x i).sum / (l.length : ℝ)) = ((l.length : ℝ)⁻¹) • fun i => (l.map fun x => x i).sum := by
      funext i; simp [div_eq_inv_mul]
    rw [this, Matrix.mulVec_smul]
    simp [div_eq_inv_mul]
