import BobEM.Lemmas.LinGauss

/-! Maximisation of one block of a linear-Gaussian log-posterior (used for the enrolment updates,
C07): with loading rows `a k`, counts `n k ≥ 0`, variances `s k > 0`, centred data `g k` and fixed
offsets `r k`, the function
`θ ↦ −½ θ·θ + Σ_k [ g_k (a_k·θ + r_k) − ½ n_k (a_k·θ + r_k)² ] / s_k`
is maximised at `θ* = (I + Σ_k (n_k/s_k) a_k a_kᵀ)⁻¹ Σ_k ((g_k − n_k r_k)/s_k) a_k`. -/

open Matrix Finset

variable {ρ κ : Type} [Fintype ρ] [DecidableEq ρ] [Fintype κ]

noncomputable def blockObj (a : κ → ρ → ℝ) (n g r s : κ → ℝ) (θ : ρ → ℝ) : ℝ :=
  -(1/2 : ℝ) * (θ ⬝ᵥ θ)
    + ∑ k, (g k * (a k ⬝ᵥ θ + r k) - (1/2 : ℝ) * (n k * ((a k ⬝ᵥ θ + r k) * (a k ⬝ᵥ θ + r k)))) / s k

/-- precision and linear term of the block -/
noncomputable def blockP (a : κ → ρ → ℝ) (n s : κ → ℝ) : Matrix ρ ρ ℝ := Pmat (ι := Unit) (fun _ => n) s a ()
noncomputable def blockB (a : κ → ρ → ℝ) (n g r s : κ → ℝ) : ρ → ℝ := bvec (ι := Unit) (fun _ k => g k - n k * r k) s a ()

theorem blockObj_expand (a : κ → ρ → ℝ) (n g r s : κ → ℝ) (θ : ρ → ℝ) :
    blockObj a n g r s θ
      = blockObj a n g r s 0 + (blockB a n g r s ⬝ᵥ θ - (1/2 : ℝ) * (θ ⬝ᵥ (blockP a n s *ᵥ θ))) := by
  unfold blockObj blockB blockP bvec Pmat
  rw [dot_sum_smul, quad_one_add_sum]
  simp only [dotProduct_zero, add_zero, zero_add, mul_zero]
  have : ∀ k, (g k * (a k ⬝ᵥ θ + r k) - 1 / 2 * (n k * ((a k ⬝ᵥ θ + r k) * (a k ⬝ᵥ θ + r k)))) / s k
      = (g k * r k - 1 / 2 * (n k * (r k * r k))) / s k + (g k - n k * r k) / s k * (a k ⬝ᵥ θ)
        - 1 / 2 * (n k / s k * ((a k ⬝ᵥ θ) * (a k ⬝ᵥ θ))) := by
    intro k; ring
  simp only [this, Finset.sum_add_distrib, Finset.sum_sub_distrib, ← Finset.mul_sum]
  ring

/-- the block update is the maximiser -/
theorem block_max (a : κ → ρ → ℝ) (n g r s : κ → ℝ) (hn : ∀ k, 0 ≤ n k) (hs : ∀ k, 0 < s k) (θ : ρ → ℝ) :
    blockObj a n g r s θ ≤ blockObj a n g r s ((blockP a n s)⁻¹ *ᵥ blockB a n g r s) := by
  have hP : (blockP a n s).PosDef := Pmat_posDef (ι := Unit) (fun _ => n) s (fun _ k => hn k) hs a ()
  rw [blockObj_expand a n g r s θ, blockObj_expand a n g r s ((blockP a n s)⁻¹ *ᵥ blockB a n g r s), quad_max_eq hP]
  have := quad_max hP (blockB a n g r s) θ
  linarith
#print axioms block_max
