import BobEM.Model.Loop
import Mathlib.Tactic
open BobEM

variable {S α : Type} (stepf : S → S × α) (stop : α → α → Bool) (s0 : S) (c0 : α)

/-- the stopping test fires at iteration j (j ≥ 2) -/
def stopsAt (j : Nat) : Prop :=
  2 ≤ j ∧ stop (traj stepf s0 c0 (j-1)).2 (traj stepf s0 c0 j).2 = true

theorem emLoop_from (fuel step : Nat) :
    ∃ k, step ≤ k ∧ k ≤ step + fuel ∧
      emLoop stepf stop fuel step (traj stepf s0 c0 step).2 (traj stepf s0 c0 step).1
        = ((traj stepf s0 c0 k).1, k) ∧
      (∀ j, step < j → j < k → ¬ stopsAt stepf stop s0 c0 j) ∧
      (k = step + fuel ∨ (step < k ∧ stopsAt stepf stop s0 c0 k)) := by
  induction fuel generalizing step with
  | zero => exact ⟨step, le_refl _, by omega, rfl, fun j h1 h2 => by omega, Or.inl rfl⟩
  | succ fuel ih =>
    unfold emLoop
    by_cases hstop : (step + 1 > 1 && stop (traj stepf s0 c0 step).2 (stepf (traj stepf s0 c0 step).1).2) = true
    · refine ⟨step + 1, by omega, by omega, ?_, fun j h1 h2 => by omega, Or.inr ⟨by omega, ?_⟩⟩
      · simp only [hstop, if_true]; rfl
      · simp only [Bool.and_eq_true, decide_eq_true_eq] at hstop
        exact ⟨by omega, by simpa [traj] using hstop.2⟩
    · obtain ⟨k, hk1, hk2, heq, hno, hend⟩ := ih (step + 1)
      refine ⟨k, by omega, by omega, ?_, ?_, ?_⟩
      · simp only [hstop, Bool.false_eq_true, if_false]
        simpa [traj] using heq
      · intro j h1 h2
        by_cases hj : j = step + 1
        · subst hj
          intro ⟨h2', hs⟩
          apply hstop
          simp only [Bool.and_eq_true, decide_eq_true_eq]
          exact ⟨by omega, by simpa [traj] using hs⟩
        · exact hno j (by omega) h2
      · rcases hend with h | ⟨h1, h2⟩
        · left; omega
        · right; exact ⟨by omega, h2⟩

/-- C03/C06 stopping rule: started from iteration 0, the loop performs k iterations with
k ≤ max, never having met the stopping test at an earlier iteration ≥ 2, and either k = max or
the test fires at k; it returns the k-th iterate. -/
theorem emLoop_spec (maxSteps : Nat) :
    ∃ k, k ≤ maxSteps ∧
      emLoop stepf stop maxSteps 0 c0 s0 = ((traj stepf s0 c0 k).1, k) ∧
      (∀ j, j < k → ¬ stopsAt stepf stop s0 c0 j) ∧
      (k = maxSteps ∨ stopsAt stepf stop s0 c0 k) := by
  obtain ⟨k, _, hk2, heq, hno, hend⟩ := emLoop_from stepf stop s0 c0 maxSteps 0
  refine ⟨k, by omega, by simpa [traj] using heq, ?_, ?_⟩
  · intro j hj
    by_cases h0 : j = 0
    · subst h0; intro ⟨h, _⟩; omega
    · exact hno j (by omega) hj
  · rcases hend with h | ⟨_, h⟩
    · left; omega
    · right; exact h
#print axioms emLoop_spec
