import Mathlib.Analysis.SpecialFunctions.Log.Deriv
import Mathlib.Analysis.SpecialFunctions.ExpDeriv
import Mathlib.Analysis.Calculus.Deriv.Add
import Mathlib.Tactic

open Finset

/-- derivative of log-sum-exp along a curve: softmax-weighted sum of the derivatives -/
theorem hasDerivAt_lse {κ : Type} [Fintype κ] [Nonempty κ] (a : κ → ℝ → ℝ) (a' : κ → ℝ) (t : ℝ)
    (ha : ∀ c, HasDerivAt (a c) (a' c) t) :
    HasDerivAt (fun ε => Real.log (∑ c, Real.exp (a c ε)))
      (∑ c, Real.exp (a c t) / (∑ k, Real.exp (a k t)) * a' c) t := by
  have hpos : 0 < ∑ c, Real.exp (a c t) := Finset.sum_pos (fun c _ => Real.exp_pos _) Finset.univ_nonempty
  have hsum : HasDerivAt (fun ε => ∑ c, Real.exp (a c ε)) (∑ c, Real.exp (a c t) * a' c) t :=
    HasDerivAt.fun_sum fun c _ => (ha c).exp
  have := hsum.log hpos.ne'
  convert this using 1
  rw [Finset.sum_div]
  exact Finset.sum_congr rfl fun c _ => by ring

/-- the per-component exponent as a function of the interpolation parameter -/
theorem hasDerivAt_component (lw g x μ δ v : ℝ) :
    HasDerivAt (fun ε : ℝ => lw + (-(1/2 : ℝ)) * (g + (x - (μ + ε * δ)) * (x - (μ + ε * δ)) / v))
      (δ * (x - μ) / v) 0 := by
  have h1 : HasDerivAt (fun ε : ℝ => x - (μ + ε * δ)) (-δ) 0 := by
    have := ((hasDerivAt_id (0:ℝ)).mul_const δ).const_add μ
    simpa using this.const_sub x
  have h2 := (h1.fun_mul h1).div_const v
  have h3 := ((h2.const_add g).const_mul (-(1/2 : ℝ))).const_add lw
  refine h3.congr_deriv ?_
  ring
#print axioms hasDerivAt_lse
