import BobEM.Lemmas.EnrollAscent
import BobEM.Lemmas.JointMax

/-! The joint mode of the enrolment posterior (C07): `FA.logPost` is one strictly concave quadratic
in the flattened latent vector `(y, x_1 … x_H, z)`; a latent state left unchanged by the three block
updates is its unique global maximiser. -/

open Matrix Finset BobEM BobEM.FA

variable {C D rU rV : ℕ}

/-- index of the flattened latent vector for `H` sessions -/
abbrev JIdx (C D rU rV H : ℕ) := Fin rV ⊕ ((Fin H × Fin rU) ⊕ (Fin C × Fin D))
/-- one row per (session, component, feature) -/
abbrev JRow (C D H : ℕ) := Fin H × (Fin C × Fin D)

/-- joint design: row `(h, c, d)` is `[V_cd | U_cd in the columns of session h | D_cd in column (c, d)]` -/
noncomputable def jA (M : Model C D rU rV ℝ) (H : ℕ) : JRow C D H → JIdx C D rU rV H → ℝ := fun k j =>
  match j with
  | .inl a => M.V k.2.1 k.2.2 a
  | .inr (.inl hu) => if hu.1 = k.1 then M.U k.2.1 k.2.2 hu.2 else 0
  | .inr (.inr cd) => if cd = k.2 then M.Dd k.2.1 k.2.2 else 0

/-- the flattened latent vector -/
def flat {H : ℕ} (y : Fin rV → ℝ) (X : Fin H → Fin rU → ℝ) (z : Fin C → Fin D → ℝ) : JIdx C D rU rV H → ℝ := fun j =>
  match j with
  | .inl a => y a
  | .inr (.inl hu) => X hu.1 hu.2
  | .inr (.inr cd) => z cd.1 cd.2

theorem jA_dot_flat (M : Model C D rU rV ℝ) {H : ℕ} (y : Fin rV → ℝ) (X : Fin H → Fin rU → ℝ) (z : Fin C → Fin D → ℝ)
    (k : JRow C D H) :
    jA M H k ⬝ᵥ flat y X z = offset M y (X k.1) z k.2.1 k.2.2 := by
  obtain ⟨h, c, d⟩ := k
  simp only [dotProduct, Fintype.sum_sum_type, jA, flat, offset, apply, sumFin_eq, Fintype.sum_prod_type]
  have e1 : (∑ x : Fin H, ∑ u : Fin rU, (if x = h then M.U c d u else 0) * X x u) = ∑ u, M.U c d u * X h u := by
    rw [Finset.sum_eq_single h]
    · simp
    · intro b _ hb; simp [hb]
    · simp
  have e2 : (∑ x : Fin C, ∑ e : Fin D, (if (x, e) = (c, d) then M.Dd c d else 0) * z x e) = M.Dd c d * z c d := by
    rw [Finset.sum_eq_single c]
    · rw [Finset.sum_eq_single d]
      · simp
      · intro b _ hb; simp [hb]
      · simp
    · intro b _ hb
      apply Finset.sum_eq_zero
      intro e _
      simp [hb]
    · simp
  rw [e1, e2]
  ring

theorem flat_dot_flat {H : ℕ} (y : Fin rV → ℝ) (X : Fin H → Fin rU → ℝ) (z : Fin C → Fin D → ℝ) :
    flat (C := C) (D := D) y X z ⬝ᵥ flat y X z
      = (∑ a, y a * y a) + (∑ h, ∑ u, X h u * X h u) + ∑ c, ∑ d, z c d * z c d := by
  simp only [dotProduct, Fintype.sum_sum_type, flat, Fintype.sum_prod_type]
  ring

theorem zip_ofFn {β γ : Type} {H : ℕ} (S : Fin H → β) (X : Fin H → γ) :
    (List.ofFn S).zip (List.ofFn X) = List.ofFn fun h => (S h, X h) := by
  apply List.ext_getElem
  · simp
  · intro i h1 h2
    simp

/-- **`logPost` is the joint block objective** of the flattened latent vector -/
theorem logPost_joint (M : Model C D rU rV ℝ) {H : ℕ} (S : Fin H → St C D ℝ) (y : Fin rV → ℝ) (X : Fin H → Fin rU → ℝ)
    (z : Fin C → Fin D → ℝ) :
    logPost M (List.ofFn S) ⟨y, List.ofFn X, z⟩
      = blockObj (jA M H) (fun k => (S k.1).n k.2.1) (fun k => (S k.1).f k.2.1 k.2.2 - (S k.1).n k.2.1 * M.m k.2.1 k.2.2)
          (fun _ => 0) (fun k => M.s k.2.1 k.2.2) (flat y X z) := by
  unfold logPost blockObj
  simp only [lsum_eq, sumFin_eq, zip_ofFn, List.map_ofFn, List.sum_ofFn, Function.comp_def, flat_dot_flat, jA_dot_flat,
    add_zero, sessionTerm, Fintype.sum_prod_type]
  ring

/-! ### a fixed point of the sweep is the unique joint maximiser -/

theorem list_eq_ofFn {β : Type} (l : List β) {H : ℕ} (h : l.length = H) :
    l = List.ofFn fun i : Fin H => l[i.val]'(by omega) := by
  apply List.ext_getElem
  · simp [h]
  · intro i h1 h2
    simp

/-- **fixed point ⇒ mode**: if each of the three block updates returns the block it was given, then
no latent state has a higher joint log-posterior, and any state with the same value is that state. -/
theorem fixed_point_is_mode (M : Model C D rU rV ℝ) (sts : List (St C D ℝ)) (l : Lat C D rU rV ℝ)
    (hlen : l.xs.length = sts.length)
    (hn : ∀ st ∈ sts, ∀ c, 0 ≤ st.n c) (hs : ∀ c d, 0 < M.s c d)
    (hy : updateY M sts l.xs l.z = l.y) (hx : (sts.map fun st => latentX M st l.y l.z) = l.xs)
    (hz : updateZ M sts l.xs l.y = l.z)
    (l' : Lat C D rU rV ℝ) (hlen' : l'.xs.length = sts.length) :
    logPost M sts l' ≤ logPost M sts l ∧ (logPost M sts l' = logPost M sts l → l' = l) := by
  obtain ⟨y, xs, z⟩ := l
  obtain ⟨y', xs', z'⟩ := l'
  simp only at hlen hy hx hz hlen'
  set H := sts.length with hH
  let S : Fin H → St C D ℝ := fun h => sts[h.val]
  let X : Fin H → Fin rU → ℝ := fun h => xs[h.val]'(by omega)
  let X' : Fin H → Fin rU → ℝ := fun h => xs'[h.val]'(by omega)
  have eS : sts = List.ofFn S := list_eq_ofFn sts rfl
  have eX : xs = List.ofFn X := list_eq_ofFn xs hlen
  have eX' : xs' = List.ofFn X' := list_eq_ofFn xs' hlen'
  have hnS : ∀ k : JRow C D H, 0 ≤ (S k.1).n k.2.1 := fun k => hn _ (List.getElem_mem _) _
  have hsS : ∀ k : JRow C D H, 0 < M.s k.2.1 k.2.2 := fun k => hs _ _
  -- the objective at an arbitrary latent state given as functions
  have obj : ∀ (v : Fin rV → ℝ) (W : Fin H → Fin rU → ℝ) (w : Fin C → Fin D → ℝ),
      logPost M sts ⟨v, List.ofFn W, w⟩
        = blockObj (jA M H) (fun k => (S k.1).n k.2.1) (fun k => (S k.1).f k.2.1 k.2.2 - (S k.1).n k.2.1 * M.m k.2.1 k.2.2)
            (fun _ => 0) (fun k => M.s k.2.1 k.2.2) (flat v W w) := by
    intro v W w
    conv_lhs => rw [eS]
    exact logPost_joint M S v W w
  have hnAcc : ∀ c, 0 ≤ nAcc sts c := nAcc_nonneg sts hn
  set θ := flat (C := C) (D := D) y X z with hθ
  -- block directions
  let δ₁ : JIdx C D rU rV H → ℝ := flat (fun a => y' a - y a) (fun _ _ => 0) (fun _ _ => 0)
  let δ₂ : JIdx C D rU rV H → ℝ := flat (fun _ => 0) (fun h u => X' h u - X h u) (fun _ _ => 0)
  let δ₃ : JIdx C D rU rV H → ℝ := flat (fun _ => 0) (fun _ _ => 0) (fun c d => z' c d - z c d)
  have hsplit : flat (C := C) (D := D) y' X' z' = θ + (δ₁ + δ₂ + δ₃) := by
    funext j
    rcases j with a | hu | cd <;> simp [θ, δ₁, δ₂, δ₃, flat]
  have base : logPost M sts ⟨y, xs, z⟩ = blockObj (jA M H) (fun k => (S k.1).n k.2.1)
      (fun k => (S k.1).f k.2.1 k.2.2 - (S k.1).n k.2.1 * M.m k.2.1 k.2.2) (fun _ => 0) (fun k => M.s k.2.1 k.2.2) θ := by
    conv_lhs => rw [eX]
    exact obj y X z
  have s₁ := stationary_of_dir_max (jA M H) _ _ (fun _ => 0) _ hnS hsS θ δ₁ (by
    intro t
    have e : θ + t • δ₁ = flat (C := C) (D := D) (fun a => y a + t * (y' a - y a)) X z := by
      funext j
      rcases j with a | hu | cd <;> simp [θ, δ₁, flat]
    rw [e, ← obj, ← base, ← eX]
    have := y_update_ascent M sts (fun a => y a + t * (y' a - y a)) xs z hlen hn hs
    rwa [hy] at this)
  have s₂ := stationary_of_dir_max (jA M H) _ _ (fun _ => 0) _ hnS hsS θ δ₂ (by
    intro t
    have e : θ + t • δ₂ = flat (C := C) (D := D) y (fun h u => X h u + t * (X' h u - X h u)) z := by
      funext j
      rcases j with a | hu | cd <;> simp [θ, δ₂, flat]
    rw [e, ← obj, ← base]
    have := x_sweep_ascent M sts y z (List.ofFn fun h u => X h u + t * (X' h u - X h u)) (by simp [hH]) hn hs
    rwa [hx] at this)
  have s₃ := stationary_of_dir_max (jA M H) _ _ (fun _ => 0) _ hnS hsS θ δ₃ (by
    intro t
    have e : θ + t • δ₃ = flat (C := C) (D := D) y X (fun c d => z c d + t * (z' c d - z c d)) := by
      funext j
      rcases j with a | hu | cd <;> simp [θ, δ₃, flat]
    rw [e, ← obj, ← base, ← eX]
    have := z_update_ascent M sts y xs (fun c d => z c d + t * (z' c d - z c d)) hlen hnAcc hs
    rwa [hz] at this)
  have J := joint_le_of_stationary (jA M H) _ _ (fun _ => 0) _ hnS hsS θ (flat y' X' z') δ₁ δ₂ δ₃ hsplit s₁ s₂ s₃
  have top : logPost M sts ⟨y', xs', z'⟩ = blockObj (jA M H) (fun k => (S k.1).n k.2.1)
      (fun k => (S k.1).f k.2.1 k.2.2 - (S k.1).n k.2.1 * M.m k.2.1 k.2.2) (fun _ => 0) (fun k => M.s k.2.1 k.2.2)
      (flat y' X' z') := by
    conv_lhs => rw [eX']
    exact obj y' X' z'
  rw [top, base]
  refine ⟨J.1, fun heq => ?_⟩
  have hf := J.2 heq
  have hyy : y' = y := by
    funext a
    have := congrFun hf (.inl a)
    simpa [θ, flat] using this
  have hXX : X' = X := by
    funext h u
    have := congrFun hf (.inr (.inl (h, u)))
    simpa [θ, flat] using this
  have hzz : z' = z := by
    funext c d
    have := congrFun hf (.inr (.inr (c, d)))
    simpa [θ, flat] using this
  rw [eX', eX, hyy, hXX, hzz]
#print axioms fixed_point_is_mode

/-- a fixed point of the whole sweep is a fixed point of each block update -/
theorem sweep_fixed_blocks (M : Model C D rU rV ℝ) (sts : List (St C D ℝ)) (l : Lat C D rU rV ℝ)
    (h : sweep M sts l = l) :
    l.xs.length = sts.length ∧ updateY M sts l.xs l.z = l.y ∧ (sts.map fun st => latentX M st l.y l.z) = l.xs
      ∧ updateZ M sts l.xs l.y = l.z := by
  obtain ⟨y, xs, z⟩ := l
  simp only [sweep, Lat.mk.injEq] at h
  obtain ⟨h1, h2, h3⟩ := h
  simp only
  rw [h1] at h2
  rw [h1, h2] at h3
  refine ⟨by rw [← h2]; simp, h1, h2, h3⟩

/-- **a mode exists**: some latent state maximises the joint log-posterior over all states with one
channel factor per session -/
theorem mode_exists (M : Model C D rU rV ℝ) (sts : List (St C D ℝ))
    (hn : ∀ st ∈ sts, ∀ c, 0 ≤ st.n c) (hs : ∀ c d, 0 < M.s c d) :
    ∃ m : Lat C D rU rV ℝ, m.xs.length = sts.length ∧
      ∀ l' : Lat C D rU rV ℝ, l'.xs.length = sts.length →
        logPost M sts l' ≤ logPost M sts m ∧ (logPost M sts l' = logPost M sts m → l' = m) := by
  set H := sts.length with hH
  let S : Fin H → St C D ℝ := fun h => sts[h.val]
  have eS : sts = List.ofFn S := list_eq_ofFn sts rfl
  have hnS : ∀ k : JRow C D H, 0 ≤ (S k.1).n k.2.1 := fun k => hn _ (List.getElem_mem _) _
  have hsS : ∀ k : JRow C D H, 0 < M.s k.2.1 k.2.2 := fun k => hs _ _
  set θ := (blockP (jA M H) (fun k => (S k.1).n k.2.1) (fun k => M.s k.2.1 k.2.2))⁻¹ *ᵥ
      blockB (jA M H) (fun k => (S k.1).n k.2.1) (fun k => (S k.1).f k.2.1 k.2.2 - (S k.1).n k.2.1 * M.m k.2.1 k.2.2)
        (fun _ => 0) (fun k => M.s k.2.1 k.2.2) with hθ
  have hflat : flat (C := C) (D := D) (fun a => θ (.inl a)) (fun h u => θ (.inr (.inl (h, u)))) (fun c d => θ (.inr (.inr (c, d)))) = θ := by
    funext j
    rcases j with a | hu | cd <;> simp [flat]
  refine ⟨⟨fun a => θ (.inl a), List.ofFn fun h u => θ (.inr (.inl (h, u))), fun c d => θ (.inr (.inr (c, d)))⟩, by simp [hH], ?_⟩
  intro l' hlen'
  obtain ⟨y', xs', z'⟩ := l'
  simp only at hlen'
  let X' : Fin H → Fin rU → ℝ := fun h => xs'[h.val]'(by omega)
  have eX' : xs' = List.ofFn X' := list_eq_ofFn xs' hlen'
  have top : logPost M sts ⟨y', xs', z'⟩ = blockObj (jA M H) (fun k => (S k.1).n k.2.1)
      (fun k => (S k.1).f k.2.1 k.2.2 - (S k.1).n k.2.1 * M.m k.2.1 k.2.2) (fun _ => 0) (fun k => M.s k.2.1 k.2.2)
      (flat y' X' z') := by
    conv_lhs => rw [eX', eS]
    exact logPost_joint M S y' X' z'
  have base : logPost M sts ⟨fun a => θ (.inl a), List.ofFn fun h u => θ (.inr (.inl (h, u))), fun c d => θ (.inr (.inr (c, d)))⟩
      = blockObj (jA M H) (fun k => (S k.1).n k.2.1)
      (fun k => (S k.1).f k.2.1 k.2.2 - (S k.1).n k.2.1 * M.m k.2.1 k.2.2) (fun _ => 0) (fun k => M.s k.2.1 k.2.2) θ := by
    conv_lhs => rw [eS]
    rw [logPost_joint, hflat]
  rw [top, base]
  have hgrad : blockB (jA M H) (fun k => (S k.1).n k.2.1) (fun k => (S k.1).f k.2.1 k.2.2 - (S k.1).n k.2.1 * M.m k.2.1 k.2.2)
        (fun _ => 0) (fun k => M.s k.2.1 k.2.2) - blockP (jA M H) (fun k => (S k.1).n k.2.1) (fun k => M.s k.2.1 k.2.2) *ᵥ θ = 0 := by
    rw [hθ, posDef_mul_inv_mulVec (blockP_posDef _ _ _ hnS hsS), sub_self]
  have J := joint_le_of_stationary (jA M H) _ _ (fun _ => 0) _ hnS hsS θ (flat y' X' z') (flat y' X' z' - θ) 0 0
    (by simp) (by rw [hgrad]; simp) (by simp) (by simp)
  refine ⟨J.1, fun heq => ?_⟩
  have hf := J.2 heq
  have hyy : y' = fun a => θ (.inl a) := by
    funext a
    have := congrFun hf (.inl a)
    simpa [flat] using this
  have hXX : X' = fun h u => θ (.inr (.inl (h, u))) := by
    funext h u
    have := congrFun hf (.inr (.inl (h, u)))
    simpa [flat] using this
  have hzz : z' = fun c d => θ (.inr (.inr (c, d))) := by
    funext c d
    have := congrFun hf (.inr (.inr (c, d)))
    simpa [flat] using this
  rw [eX', hyy, hXX, hzz]
#print axioms mode_exists

/-- the joint log-posterior along the enrolment iterations converges (monotone and bounded by the mode's value) -/
theorem posterior_converges (M : Model C D rU rV ℝ) (sts : List (St C D ℝ))
    (hn : ∀ st ∈ sts, ∀ c, 0 ≤ st.n c) (hs : ∀ c d, 0 < M.s c d) :
    ∃ L : ℝ, Filter.Tendsto (fun k => logPost M sts (enroll M sts k)) Filter.atTop (nhds L)
      ∧ ∀ k, logPost M sts (enroll M sts k) ≤ L := by
  obtain ⟨m, _, hm⟩ := mode_exists M sts hn hs
  have hmono : Monotone fun k => logPost M sts (enroll M sts k) :=
    monotone_nat_of_le_succ fun k => enroll_monotone M sts k hn hs
  have hbdd : BddAbove (Set.range fun k => logPost M sts (enroll M sts k)) :=
    ⟨logPost M sts m, by rintro _ ⟨k, rfl⟩; exact (hm _ (enroll_xs_length M sts k)).1⟩
  exact ⟨_, tendsto_atTop_ciSup hmono hbdd, fun k => le_ciSup hbdd k⟩
#print axioms posterior_converges
