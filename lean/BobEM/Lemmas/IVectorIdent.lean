import BobEM.Model.IVector
import BobEM.Lemmas.FATrainIdent
import BobEM.Lemmas.LinGaussSigma

/-! Identification of the i-vector extractor (`Model/IVector.lean`) with the abstract linear-Gaussian
model: rows = (component, feature), items = training statistics, loading rows = rows of `T`. -/

open Matrix Finset BobEM BobEM.IV

variable {C D R : ℕ}

def rowsT (T : Fin C → Fin D → Fin R → ℝ) : Fin C × Fin D → Fin R → ℝ := fun k a => T k.1 k.2 a
def sigmaK (sigma : Fin C → Fin D → ℝ) : Fin C × Fin D → ℝ := fun k => sigma k.1 k.2

theorem precision_eq_Pmat (m : Machine C D R ℝ) (n : Fin C → ℝ) :
    (Matrix.of (precision m n) : Matrix (Fin R) (Fin R) ℝ)
      = Pmat (ι := Unit) (fun _ k => n k.1) (sigmaK m.sigma) (rowsT m.T) () := by
  ext a b
  simp only [Pmat, Matrix.of_apply, Matrix.add_apply, Matrix.one_apply, precision, FA.eye, sumFin_eq,
    Matrix.sum_apply, Matrix.smul_apply, vecMulVec_apply, rowsT, sigmaK, smul_eq_mul, Fintype.sum_prod_type]
  congr 1
  refine Finset.sum_congr rfl fun c _ => ?_
  rw [Finset.mul_sum]
  exact Finset.sum_congr rfl fun d _ => by ring

theorem rhs_eq_bvec (m : Machine C D R ℝ) (st : GStat C D ℝ) :
    rhs m st = bvec (ι := Unit) (fun _ k => st.f k.1 k.2 - st.n k.1 * m.ubmMeans k.1 k.2) (sigmaK m.sigma) (rowsT m.T) () := by
  funext a
  simp only [rhs, bvec, sumFin_eq, Finset.sum_apply, Pi.smul_apply, rowsT, sigmaK, smul_eq_mul, Fintype.sum_prod_type]
  exact Finset.sum_congr rfl fun c _ => Finset.sum_congr rfl fun d _ => by ring

theorem precision_posDef (m : Machine C D R ℝ) (n : Fin C → ℝ) (hn : ∀ c, 0 ≤ n c) (hs : ∀ c d, 0 < m.sigma c d) :
    (Matrix.of (precision m n) : Matrix (Fin R) (Fin R) ℝ).PosDef := by
  have := Pmat_posDef (ι := Unit) (fun _ k => n k.1) (sigmaK m.sigma) (fun _ k => hn k.1) (fun k => hs k.1 k.2) (rowsT m.T) ()
  rwa [← precision_eq_Pmat] at this

theorem project_eq_postMean (m : Machine C D R ℝ) (st : GStat C D ℝ) :
    project m st = postMean (ι := Unit) (fun _ k => st.n k.1)
      (fun _ k => st.f k.1 k.2 - st.n k.1 * m.ubmMeans k.1 k.2) (sigmaK m.sigma) (rowsT m.T) () := by
  unfold project postMean
  simp only [LinAlg.inv]
  rw [precision_eq_Pmat, rhs_eq_bvec]
  funext a
  simp only [FA.mulVec, sumFin_eq, Matrix.mulVec, dotProduct]

/-! E-step accumulators are sums over the statistics -/
theorem stats_add_assoc (a b c : IV.Stats C D R ℝ) : (a.add b).add c = a.add (b.add c) := by
  simp [IV.Stats.add, add_assoc]
theorem stats_zero_add (a : IV.Stats C D R ℝ) : IV.Stats.zero.add a = a := by simp [IV.Stats.add, IV.Stats.zero]
theorem stats_add_zero (a : IV.Stats C D R ℝ) : a.add IV.Stats.zero = a := by simp [IV.Stats.add, IV.Stats.zero]

theorem eStep_fold (m : Machine C D R ℝ) (acc : IV.Stats C D R ℝ) (l : List (GStat C D ℝ)) :
    l.foldl (fun acc st => acc.add (contrib m st)) acc = acc.add (IV.eStep m l) := by
  induction l generalizing acc with
  | nil => simp [IV.eStep, stats_add_zero]
  | cons x l ih =>
    simp only [List.foldl_cons, IV.eStep]
    rw [ih, ih (IV.Stats.zero.add (contrib m x)), stats_zero_add, stats_add_assoc]

theorem eStep_append (m : Machine C D R ℝ) (xs ys : List (GStat C D ℝ)) :
    IV.eStep m (xs ++ ys) = (IV.eStep m xs).add (IV.eStep m ys) := by
  unfold IV.eStep
  rw [List.foldl_append, eStep_fold]
  rfl

theorem eStep_partition (m : Machine C D R ℝ) (parts : List (List (GStat C D ℝ))) :
    (parts.map (IV.eStep m)).foldl IV.Stats.add IV.Stats.zero = IV.eStep m parts.flatten := by
  have gen : ∀ (acc : IV.Stats C D R ℝ) (bl : List (List (GStat C D ℝ))),
      (bl.map (IV.eStep m)).foldl IV.Stats.add acc = acc.add (IV.eStep m bl.flatten) := by
    intro acc bl
    induction bl generalizing acc with
    | nil => simp [IV.eStep, stats_add_zero]
    | cons b bl ih =>
      simp only [List.map_cons, List.foldl_cons, List.flatten_cons]
      rw [ih, eStep_append, stats_add_assoc]
  rw [gen, stats_zero_add]

theorem eStep_single (m : Machine C D R ℝ) (x : GStat C D ℝ) : IV.eStep m [x] = contrib m x := by
  simp [IV.eStep, stats_zero_add]
theorem eStep_cons (m : Machine C D R ℝ) (x : GStat C D ℝ) (l : List (GStat C D ℝ)) :
    IV.eStep m (x :: l) = (contrib m x).add (IV.eStep m l) := by
  rw [← List.singleton_append, eStep_append, eStep_single]

theorem eStep_nsw2 (m : Machine C D R ℝ) (l : List (GStat C D ℝ)) (c : Fin C) (t u : Fin R) :
    (IV.eStep m l).nsw2 c t u = (l.map fun st => (contrib m st).nsw2 c t u).sum := by
  induction l with
  | nil => simp [IV.eStep, IV.Stats.zero]
  | cons x l ih => rw [eStep_cons]; simp [IV.Stats.add, ih]
theorem eStep_fsw (m : Machine C D R ℝ) (l : List (GStat C D ℝ)) (c : Fin C) (d : Fin D) (t : Fin R) :
    (IV.eStep m l).fsw c d t = (l.map fun st => (contrib m st).fsw c d t).sum := by
  induction l with
  | nil => simp [IV.eStep, IV.Stats.zero]
  | cons x l ih => rw [eStep_cons]; simp [IV.Stats.add, ih]
theorem eStep_nij (m : Machine C D R ℝ) (l : List (GStat C D ℝ)) (c : Fin C) :
    (IV.eStep m l).nij c = (l.map fun st => st.n c).sum := by
  induction l with
  | nil => simp [IV.eStep, IV.Stats.zero]
  | cons x l ih => rw [eStep_cons]; simp [IV.Stats.add, ih, contrib]

section EM
variable (m : Machine C D R ℝ) (sts : List (GStat C D ℝ))
noncomputable def NI : Fin sts.length → Fin C × Fin D → ℝ := fun i k => sts[i].n k.1
noncomputable def FI : Fin sts.length → Fin C × Fin D → ℝ := fun i k => sts[i].f k.1 k.2 - sts[i].n k.1 * m.ubmMeans k.1 k.2

theorem postMeanI_item (i : Fin sts.length) :
    postMean (NI sts) (FI m sts) (sigmaK m.sigma) (rowsT m.T) i = project m sts[i.val] := by
  rw [project_eq_postMean]
  simp [postMean, Pmat, bvec, NI, FI]
theorem postCovI_item (i : Fin sts.length) :
    postCov (NI sts) (sigmaK m.sigma) (rowsT m.T) i = (Matrix.of (precision m sts[i.val].n))⁻¹ := by
  unfold postCov
  congr 1
  rw [precision_eq_Pmat]
  simp [Pmat, NI]

theorem ivA1_eq (c : Fin C) (d : Fin D) :
    (Matrix.of ((IV.eStep m sts).nsw2 c) : Matrix (Fin R) (Fin R) ℝ)
      = accA1 (NI sts) (FI m sts) (sigmaK m.sigma) (rowsT m.T) (c, d) := by
  ext a b
  simp only [Matrix.of_apply, eStep_nsw2, accA1, Matrix.sum_apply, Matrix.smul_apply, Matrix.add_apply,
    vecMulVec_apply, smul_eq_mul]
  rw [← Fin.sum_univ_fun_getElem sts (fun st => (contrib m st).nsw2 c a b)]
  refine Finset.sum_congr rfl fun i _ => ?_
  simp only [contrib, LinAlg.inv, NI, Fin.getElem_fin, postMeanI_item, postCovI_item, project]
theorem ivA2_eq (c : Fin C) (d : Fin D) :
    (IV.eStep m sts).fsw c d = accA2 (NI sts) (FI m sts) (sigmaK m.sigma) (rowsT m.T) (c, d) := by
  funext a
  simp only [eStep_fsw, accA2, Finset.sum_apply, Pi.smul_apply, smul_eq_mul]
  rw [← Fin.sum_univ_fun_getElem sts (fun st => (contrib m st).fsw c d a)]
  refine Finset.sum_congr rfl fun i _ => ?_
  simp only [contrib, LinAlg.inv, FI, Fin.getElem_fin, postMeanI_item, project]

theorem anyNonzero_of_pos (A : Fin R → Fin R → ℝ) (a : Fin R) (h : A a a ≠ 0) : anyNonzero A = true := by
  simp only [anyNonzero, List.any_eq_true, List.mem_finRange, true_and]
  exact ⟨a, a, by simp [Transc.isZero, h]⟩

/-- the `T` update of the code is the abstract EM step -/
theorem mStep_T_eq_emStep (upd : Bool) (floor : ℝ)
    (hA1 : ∀ k, (accA1 (NI sts) (FI m sts) (sigmaK m.sigma) (rowsT m.T) k).PosDef) :
    rowsT (mStep m (IV.eStep m sts) upd floor).T = emStep (NI sts) (FI m sts) (sigmaK m.sigma) (rowsT m.T) := by
  funext k a
  obtain ⟨c, d⟩ := k
  have hPD := hA1 (c, d)
  rw [← ivA1_eq m sts c d] at hPD
  have hdiag : (IV.eStep m sts).nsw2 c a a ≠ 0 := by
    have := hPD.diag_pos (i := a)
    simpa using this.ne'
  have hany := anyNonzero_of_pos _ a hdiag
  have hsymm : (Matrix.of fun x y => (IV.eStep m sts).nsw2 c y x : Matrix (Fin R) (Fin R) ℝ) = Matrix.of ((IV.eStep m sts).nsw2 c) := by
    have hs : (Matrix.of ((IV.eStep m sts).nsw2 c))ᵀ = Matrix.of ((IV.eStep m sts).nsw2 c) := by
      have := hPD.isHermitian
      rwa [Matrix.IsHermitian, Matrix.conjTranspose_eq_transpose_of_trivial] at this
    rw [← hs]; rfl
  simp only [rowsT, mStep, hany, if_true, LinAlg.inv, emStep, sumFin_eq, Matrix.mulVec, dotProduct]
  rw [hsymm, ivA1_eq m sts c d, ivA2_eq m sts c d]

/-- marginal likelihood of the training statistics for fixed covariances (up to constants) -/
noncomputable def margI (T : Fin C → Fin D → Fin R → ℝ) : ℝ :=
  marg (NI sts) (FI m sts) (sigmaK m.sigma) (rowsT T)

theorem iv_em_monotone_fixed_sigma (floor : ℝ)
    (hn : ∀ st ∈ sts, ∀ c, 0 ≤ st.n c) (hs : ∀ c d, 0 < m.sigma c d)
    (hpos : ∀ c, ∃ i : Fin sts.length, 0 < sts[i].n c) :
    margI m sts m.T ≤ margI m sts (mStep m (IV.eStep m sts) false floor).T := by
  have hN : ∀ i k, 0 ≤ NI sts i k := fun i k => hn _ (List.getElem_mem _) k.1
  have hσ : ∀ k, 0 < sigmaK m.sigma k := fun k => hs k.1 k.2
  have hA1 : ∀ k, (accA1 (NI sts) (FI m sts) (sigmaK m.sigma) (rowsT m.T) k).PosDef := by
    intro k
    obtain ⟨j, hj⟩ := hpos k.1
    exact accA1_posDef _ _ _ _ hN hσ k j hj
  unfold margI
  rw [mStep_T_eq_emStep m sts false floor hA1]
  exact linGaussEM_monotone _ _ _ hN hσ _ hA1
end EM
#print axioms iv_em_monotone_fixed_sigma

section SigmaEM
variable (m : Machine C D R ℝ) (sts : List (GStat C D ℝ))

/-- accumulated centred second-order statistics of row `(c, d)` -/
noncomputable def SI : Fin C × Fin D → ℝ := fun k => (IV.eStep m sts).snorm k.1 k.2

/-- full marginal likelihood of the training statistics, covariances included (up to constants) -/
noncomputable def margIS (T : Fin C → Fin D → Fin R → ℝ) (sigma : Fin C → Fin D → ℝ) : ℝ :=
  margS (NI sts) (FI m sts) (SI m sts) (sigmaK sigma) (rowsT T)

theorem mStep_sigma_eq_sigmaStep (floor : ℝ)
    (hA1 : ∀ k, (accA1 (NI sts) (FI m sts) (sigmaK m.sigma) (rowsT m.T) k).PosDef)
    (hNtot : ∀ k : Fin C × Fin D, 0 < ∑ i, NI sts i k) :
    sigmaK (mStep m (IV.eStep m sts) true floor).sigma
      = sigmaStep (NI sts) (FI m sts) (SI m sts) (fun _ => floor) (sigmaK m.sigma) (rowsT m.T) := by
  funext k
  obtain ⟨c, d⟩ := k
  have hT := mStep_T_eq_emStep m sts true floor hA1
  have hX : ∀ t, (mStep m (IV.eStep m sts) true floor).T c d t
      = emStep (NI sts) (FI m sts) (sigmaK m.sigma) (rowsT m.T) (c, d) t := by
    intro t; have := congrFun (congrFun hT (c, d)) t; simpa [rowsT] using this
  have hnij : (IV.eStep m sts).nij c = ∑ i, NI sts i (c, d) := by
    rw [eStep_nij, ← Fin.sum_univ_fun_getElem sts (fun st => st.n c)]
    simp [NI]
  have hnz : Transc.isZero ((IV.eStep m sts).nij c) = false := by
    have := hNtot (c, d)
    rw [← hnij] at this
    simp [Transc.isZero, this.ne']
  have hXdef : ∀ t, (mStep m (IV.eStep m sts) true floor).T c d t
      = (if anyNonzero ((IV.eStep m sts).nsw2 c) then
          sumFin R fun u => LinAlg.inv R (fun a b => (IV.eStep m sts).nsw2 c b a) t u * (IV.eStep m sts).fsw c d u else 0) := by
    intro t; rfl
  simp only [sigmaK, mStep, if_true, hnz, Bool.false_eq_true, if_false, sigmaStep, resid, SI, sumFin_eq]
  have hdot : (∑ t, (IV.eStep m sts).fsw c d t *
        (if anyNonzero ((IV.eStep m sts).nsw2 c) then
          sumFin R fun u => LinAlg.inv R (fun a b => (IV.eStep m sts).nsw2 c b a) t u * (IV.eStep m sts).fsw c d u else 0))
      = emStep (NI sts) (FI m sts) (sigmaK m.sigma) (rowsT m.T) (c, d) ⬝ᵥ accA2 (NI sts) (FI m sts) (sigmaK m.sigma) (rowsT m.T) (c, d) := by
    simp only [dotProduct, ← ivA2_eq m sts c d]
    refine Finset.sum_congr rfl fun t _ => ?_
    rw [← hXdef t, hX t, ivA2_eq m sts c d]; ring
  simp only [sumFin_eq] at hdot
  rw [hdot, hnij]
  rw [max_def]
  split_ifs with h1 h2 h2
  · exact absurd h2 (not_le.mpr h1)
  · rfl
  · rfl
  · exact absurd (not_lt.mp h1) h2

/-- **i-vector EM with covariance update** never decreases the full marginal likelihood -/
theorem iv_em_monotone_update_sigma (floor : ℝ) (hfl : 0 < floor)
    (hn : ∀ st ∈ sts, ∀ c, 0 ≤ st.n c) (hs : ∀ c d, floor ≤ m.sigma c d)
    (hpos : ∀ c, ∃ i : Fin sts.length, 0 < sts[i].n c) :
    margIS m sts m.T m.sigma
      ≤ margIS m sts (mStep m (IV.eStep m sts) true floor).T (mStep m (IV.eStep m sts) true floor).sigma := by
  have hN : ∀ i k, 0 ≤ NI sts i k := fun i k => hn _ (List.getElem_mem _) k.1
  have hσ : ∀ k, 0 < sigmaK m.sigma k := fun k => lt_of_lt_of_le hfl (hs k.1 k.2)
  have hNtot : ∀ k : Fin C × Fin D, 0 < ∑ i, NI sts i k := by
    intro k
    obtain ⟨j, hj⟩ := hpos k.1
    exact lt_of_lt_of_le hj (Finset.single_le_sum (f := fun i => NI sts i k) (fun i _ => hN i k) (Finset.mem_univ j))
  have hA1 : ∀ k, (accA1 (NI sts) (FI m sts) (sigmaK m.sigma) (rowsT m.T) k).PosDef := by
    intro k
    obtain ⟨j, hj⟩ := hpos k.1
    exact accA1_posDef _ _ _ _ hN hσ k j hj
  unfold margIS
  rw [mStep_T_eq_emStep m sts true floor hA1, mStep_sigma_eq_sigmaStep m sts floor hA1 hNtot]
  exact linGaussEM_sigma_monotone _ _ _ _ hN _ hσ _ hA1 hNtot (fun _ => hfl) (fun k => hs k.1 k.2)
end SigmaEM
#print axioms iv_em_monotone_update_sigma
