import BobEM.Model.FATrain
import BobEM.Lemmas.FAIdent

/-! Identification of the JFA training phases (`Model/FATrain.lean`) with the abstract
linear-Gaussian EM step of `Lemmas/LinGauss.lean`. -/

open Matrix Finset BobEM BobEM.FA

variable {C D rU rV : ℕ}

/-- variances as a function of the abstract row index -/
def sigmaOf (M : Model C D rU rV ℝ) : Fin C × Fin D → ℝ := fun k => M.s k.1 k.2

/-- the precision matrix of a block (concrete form) is symmetric positive definite -/
theorem idPlus_posDef {r : ℕ} (M : Model C D rU rV ℝ) (L : Fin C → Fin D → Fin r → ℝ) (n : Fin C → ℝ)
    (hn : ∀ c, 0 ≤ n c) (hs : ∀ c d, 0 < M.s c d) :
    (Matrix.of fun a b => eye r a b + prodN M L n a b : Matrix (Fin r) (Fin r) ℝ).PosDef := by
  have := Pmat_posDef (ι := Unit) (fun _ k => n k.1) (fun k : Fin C × Fin D => M.s k.1 k.2)
    (fun _ k => hn k.1) (fun k => hs k.1 k.2) (rowsOf L) ()
  rwa [← idPlus_eq_Pmat] at this

theorem inv_symm_of_posDef {r : ℕ} {P : Matrix (Fin r) (Fin r) ℝ} (hP : P.PosDef) (a b : Fin r) :
    P⁻¹ a b = P⁻¹ b a := by
  have hs : Pᵀ = P := by
    have := hP.isHermitian
    rwa [Matrix.IsHermitian, Matrix.conjTranspose_eq_transpose_of_trivial] at this
  have h : (P⁻¹)ᵀ = P⁻¹ := by rw [Matrix.transpose_nonsing_inv, hs]
  have := congrFun (congrFun h b) a
  simpa [Matrix.transpose_apply] using this

theorem uxTerm_zeros (M : Model C D rU rV ℝ) (sts : List (St C D ℝ)) (c : Fin C) (d : Fin D) :
    uxTerm M sts (zerosX (rU := rU) sts.length) c d = 0 := by
  unfold uxTerm zerosX
  rw [lsum_eq]
  apply List.sum_eq_zero
  intro v hv
  obtain ⟨⟨s, x⟩, hmem, rfl⟩ := List.mem_map.mp hv
  have hx : x = fun _ => 0 := by
    have := List.of_mem_zip hmem
    exact List.eq_of_mem_replicate this.2
  simp [hx, apply, sumFin_eq]

/-- `update_y` from zero `x`, `z` is the abstract posterior mean of the speaker factor -/
theorem updateY_zeros_eq_postMean (M : Model C D rU rV ℝ) (sts : List (St C D ℝ))
    (hn : ∀ c, 0 ≤ nAcc sts c) (hs : ∀ c d, 0 < M.s c d) :
    updateY M sts (zerosX (rU := rU) sts.length) zeroZ
      = postMean (ι := Unit) (fun _ k => nAcc sts k.1)
          (fun _ k => fAcc sts k.1 k.2 - nAcc sts k.1 * M.m k.1 k.2) (sigmaOf M) (rowsOf M.V) () := by
  have hP := idPlus_posDef M M.V (nAcc sts) hn hs
  have hfn : (fun c d => fAcc sts c d - nAcc sts c * (M.m c d + 1 * (M.Dd c d * zeroZ c d))
        - uxTerm M sts (zerosX (rU := rU) sts.length) c d)
      = fun c d => fAcc sts c d - nAcc sts c * M.m c d := by
    funext c d; rw [uxTerm_zeros]; simp [zeroZ]
  unfold updateY updateYG postMean idPlusInv sigmaOf
  simp only [LinAlg.inv, hfn]
  rw [← idPlus_eq_Pmat, projT_eq_bvec]
  funext a
  simp only [BobEM.FA.vecMul, sumFin_eq, Matrix.mulVec, dotProduct]
  refine Finset.sum_congr rfl fun b _ => ?_
  rw [mul_comm]; congr 1
  exact inv_symm_of_posDef hP b a

theorem accSum_a1 {r : ℕ} (l : List (Acc C D r ℝ)) (c : Fin C) (a b : Fin r) :
    (Acc.sum l).a1 c a b = (l.map fun x => x.a1 c a b).sum := by
  cases l with
  | nil => simp [Acc.sum, Acc.zero]
  | cons x rest =>
    simp only [Acc.sum, List.map_cons, List.sum_cons]
    induction rest generalizing x with
    | nil => simp
    | cons y rest ih => simp only [List.foldl_cons, ih, Acc.add, List.map_cons, List.sum_cons]; ring
theorem accSum_a2 {r : ℕ} (l : List (Acc C D r ℝ)) (c : Fin C) (d : Fin D) (a : Fin r) :
    (Acc.sum l).a2 c d a = (l.map fun x => x.a2 c d a).sum := by
  cases l with
  | nil => simp [Acc.sum, Acc.zero]
  | cons x rest =>
    simp only [Acc.sum, List.map_cons, List.sum_cons]
    induction rest generalizing x with
    | nil => simp
    | cons y rest ih => simp only [List.foldl_cons, ih, Acc.add, List.map_cons, List.sum_cons]; ring

/-! ### V phase -/
section VPhase
variable (M : Model C D rU rV ℝ) (classes : List (List (St C D ℝ)))

/-- items = classes; counts and centred first-order statistics of class `i` at row `(c, d)` -/
noncomputable def NV : Fin classes.length → Fin C × Fin D → ℝ := fun i k => nAcc classes[i] k.1
noncomputable def FV : Fin classes.length → Fin C × Fin D → ℝ :=
  fun i k => fAcc classes[i] k.1 k.2 - nAcc classes[i] k.1 * M.m k.1 k.2

/-- the V-phase marginal likelihood of the training statistics (up to constants) -/
noncomputable def margV (V : Fin C → Fin D → Fin rV → ℝ) : ℝ :=
  marg (NV classes) (FV M classes) (sigmaOf M) (rowsOf V)

theorem postMean_item (V : Fin C → Fin D → Fin rV → ℝ) (i : Fin classes.length) :
    postMean (NV classes) (FV M classes) (sigmaOf M) (rowsOf V) i
      = postMean (ι := Unit) (fun _ k => nAcc classes[i] k.1)
          (fun _ k => fAcc classes[i] k.1 k.2 - nAcc classes[i] k.1 * M.m k.1 k.2) (sigmaOf M) (rowsOf V) () := by
  simp [postMean, Pmat, bvec, NV, FV]

theorem postCov_item (V : Fin C → Fin D → Fin rV → ℝ) (i : Fin classes.length) :
    postCov (NV classes) (sigmaOf M) (rowsOf V) i
      = (Matrix.of fun a b => eye rV a b + prodN { M with V := V } V (nAcc classes[i]) a b)⁻¹ := by
  unfold postCov
  congr 1
  have := idPlus_eq_Pmat { M with V := V } V (nAcc classes[i])
  rw [this]
  simp [Pmat, NV, sigmaOf]

theorem postCov_item' (i : Fin classes.length) :
    postCov (NV classes) (sigmaOf M) (rowsOf M.V) i
      = (Matrix.of fun a b => eye rV a b + prodN M M.V (nAcc classes[i.val]) a b)⁻¹ := by
  unfold postCov
  congr 1
  rw [idPlus_eq_Pmat M M.V (nAcc classes[i.val])]
  simp [Pmat, NV, sigmaOf]
end VPhase

section VStep
variable (M : Model C D rU rV ℝ) (classes : List (List (St C D ℝ)))
variable (hn : ∀ sts ∈ classes, ∀ c, 0 ≤ nAcc sts c) (hs : ∀ c d, 0 < M.s c d)
include hn hs

theorem eStepV_y (i : Fin classes.length) :
    updateY M classes[i] (zerosX (rU := rU) classes[i].length) zeroZ
      = postMean (NV classes) (FV M classes) (sigmaOf M) (rowsOf M.V) i := by
  rw [postMean_item, updateY_zeros_eq_postMean M classes[i] (hn _ (List.getElem_mem _)) hs]

theorem accV_a1_eq (c : Fin C) (d : Fin D) :
    (Matrix.of ((Acc.sum (classes.map (eStepV M))).a1 c) : Matrix (Fin rV) (Fin rV) ℝ)
      = accA1 (NV classes) (FV M classes) (sigmaOf M) (rowsOf M.V) (c, d) := by
  ext a b
  simp only [Matrix.of_apply, accSum_a1, List.map_map, Function.comp_def, accA1, Matrix.sum_apply, Matrix.smul_apply, Matrix.add_apply,
    vecMulVec_apply, smul_eq_mul]
  rw [← Fin.sum_univ_fun_getElem classes (fun sts => (eStepV M sts).a1 c a b)]
  refine Finset.sum_congr rfl fun i _ => ?_
  have hy := eStepV_y M classes hn hs i
  have hc := postCov_item' M classes i
  simp only [Fin.getElem_fin] at hy
  simp only [eStepV, idPlusInv, LinAlg.inv, NV, Fin.getElem_fin]
  rw [hy, hc]

theorem accV_a2_eq (c : Fin C) (d : Fin D) :
    (Acc.sum (classes.map (eStepV M))).a2 c d
      = accA2 (NV classes) (FV M classes) (sigmaOf M) (rowsOf M.V) (c, d) := by
  funext a
  simp only [accSum_a2, List.map_map, Function.comp_def, accA2, Finset.sum_apply, Pi.smul_apply, smul_eq_mul]
  rw [← Fin.sum_univ_fun_getElem classes (fun sts => (eStepV M sts).a2 c d a)]
  refine Finset.sum_congr rfl fun i _ => ?_
  have hy := eStepV_y M classes hn hs i
  simp only [Fin.getElem_fin] at hy
  simp only [eStepV, fnY, FV, Fin.getElem_fin]
  rw [hy, uxTerm_zeros]
  simp [zeroZ]

/-- **one V iteration of the code is the abstract EM step** (rows = supervector entries, items =
classes), provided the accumulated `A1` of every row is positive definite -/
theorem stepV_eq_emStep
    (hA1 : ∀ k, (accA1 (NV classes) (FV M classes) (sigmaOf M) (rowsOf M.V) k).PosDef) :
    rowsOf (stepV M classes).V = emStep (NV classes) (FV M classes) (sigmaOf M) (rowsOf M.V) := by
  funext k a
  obtain ⟨c, d⟩ := k
  simp only [rowsOf, stepV, solveLoading, LinAlg.inv, emStep, sumFin_eq, Matrix.mulVec, dotProduct]
  rw [accV_a1_eq M classes hn hs c d, accV_a2_eq M classes hn hs c d]
  refine Finset.sum_congr rfl fun b _ => ?_
  rw [mul_comm]; congr 1
  exact inv_symm_of_posDef (hA1 (c, d)) b a
end VStep

/-- a non-negative combination of positive-definite matrices with one positive coefficient is
positive definite -/
theorem posDef_sum_smul {ι ρ : Type} [Fintype ι] [Fintype ρ] [DecidableEq ρ] (c : ι → ℝ) (A : ι → Matrix ρ ρ ℝ)
    (hA : ∀ i, (A i).PosDef) (hc : ∀ i, 0 ≤ c i) (j : ι) (hj : 0 < c j) :
    (∑ i, c i • A i).PosDef := by
  classical
  rw [← Finset.add_sum_erase Finset.univ (fun i => c i • A i) (Finset.mem_univ j)]
  apply Matrix.PosDef.add_posSemidef
  · exact (hA j).smul hj
  · apply Matrix.posSemidef_sum
    intro i _
    exact (hA i).posSemidef.smul (hc i)

/-- the accumulated `A1` of a row is positive definite as soon as some item has a positive count there -/
theorem accA1_posDef {ι κ ρ : Type} [Fintype ι] [Fintype κ] [Fintype ρ] [DecidableEq ρ]
    (N f : ι → κ → ℝ) (σ : κ → ℝ) (Θ : κ → ρ → ℝ)
    (hN : ∀ i k, 0 ≤ N i k) (hσ : ∀ k, 0 < σ k) (k : κ) (j : ι) (hj : 0 < N j k) :
    (accA1 N f σ Θ k).PosDef := by
  unfold accA1
  apply posDef_sum_smul (fun i => N i k) _ _ (fun i => hN i k) j hj
  intro i
  apply Matrix.PosDef.add_posSemidef
  · exact (Pmat_posDef N σ hN hσ Θ i).inv
  · have h := Matrix.posSemidef_vecMulVec_self_star (postMean N f σ Θ i)
    rwa [star_trivial] at h

/-- **V phase**: one E-step / M-step pair never decreases the V-phase marginal likelihood -/
theorem V_phase_monotone (M : Model C D rU rV ℝ) (classes : List (List (St C D ℝ)))
    (hn : ∀ sts ∈ classes, ∀ c, 0 ≤ nAcc sts c) (hs : ∀ c d, 0 < M.s c d)
    (hpos : ∀ c, ∃ i : Fin classes.length, 0 < nAcc classes[i] c) :
    margV M classes M.V ≤ margV M classes (stepV M classes).V := by
  have hN : ∀ i k, 0 ≤ NV classes i k := fun i k => hn _ (List.getElem_mem _) k.1
  have hσ : ∀ k, 0 < sigmaOf M k := fun k => hs k.1 k.2
  have hA1 : ∀ k, (accA1 (NV classes) (FV M classes) (sigmaOf M) (rowsOf M.V) k).PosDef := by
    intro k
    obtain ⟨j, hj⟩ := hpos k.1
    exact accA1_posDef _ _ _ _ hN hσ k j hj
  unfold margV
  rw [stepV_eq_emStep M classes hn hs hA1]
  exact linGaussEM_monotone _ _ _ hN hσ _ hA1
#print axioms V_phase_monotone

/-! ### U phase: items = sessions -/
section UPhase
variable (M : Model C D rU rV ℝ)

/-- every session paired with its class's speaker factor, in training order -/
def sessionsOf (classes : List (List (St C D ℝ))) (ys : List (Fin rV → ℝ)) : List (St C D ℝ × (Fin rV → ℝ)) :=
  (classes.zip ys).flatMap fun p => p.1.map fun st => (st, p.2)

variable (sess : List (St C D ℝ × (Fin rV → ℝ)))
noncomputable def NU : Fin sess.length → Fin C × Fin D → ℝ := fun i k => sess[i].1.n k.1
noncomputable def FU : Fin sess.length → Fin C × Fin D → ℝ := fun i k => fnX M sess[i].1 sess[i].2 zeroZ k.1 k.2
/-- the U-phase marginal likelihood (speaker factors fixed at their point estimates) -/
noncomputable def margU (U : Fin C → Fin D → Fin rU → ℝ) : ℝ :=
  marg (NU sess) (FU M sess) (sigmaOf M) (rowsOf U)

theorem latentX_eq_postMean (st : St C D ℝ) (y : Fin rV → ℝ) :
    latentX M st y zeroZ
      = postMean (ι := Unit) (fun _ k => st.n k.1) (fun _ k => fnX M st y zeroZ k.1 k.2) (sigmaOf M) (rowsOf M.U) () := by
  unfold latentX postMean idPlusInv sigmaOf
  simp only [LinAlg.inv]
  rw [idPlus_eq_Pmat, projT_eq_bvec]
  funext a
  simp only [BobEM.FA.mulVec, sumFin_eq, Matrix.mulVec, dotProduct, fnX]

theorem postMeanU_item (i : Fin sess.length) :
    postMean (NU sess) (FU M sess) (sigmaOf M) (rowsOf M.U) i = latentX M sess[i.val].1 sess[i.val].2 zeroZ := by
  rw [latentX_eq_postMean]
  simp [postMean, Pmat, bvec, NU, FU]

theorem postCovU_item (i : Fin sess.length) :
    postCov (NU sess) (sigmaOf M) (rowsOf M.U) i
      = (Matrix.of fun a b => eye rU a b + prodN M M.U sess[i.val].1.n a b)⁻¹ := by
  unfold postCov
  congr 1
  rw [idPlus_eq_Pmat M M.U sess[i.val].1.n]
  simp [Pmat, NU, sigmaOf]

theorem sum_flatMap_map {β γ : Type} (l : List β) (g : β → List γ) (h : γ → ℝ) :
    (l.map fun x => ((g x).map h).sum).sum = ((l.flatMap g).map h).sum := by
  induction l with
  | nil => simp
  | cons x l ih => simp [List.flatMap_cons, ih]

/-- the accumulators of a whole U iteration are sums over all sessions -/
theorem accU_total_a1 (classes : List (List (St C D ℝ))) (ys : List (Fin rV → ℝ)) (c : Fin C) (a b : Fin rU) :
    (Acc.sum ((classes.zip ys).map fun p => eStepU M p.1 p.2)).a1 c a b
      = ((sessionsOf classes ys).map fun q => (sessAccU M q.1 q.2 zeroZ).a1 c a b).sum := by
  simp only [accSum_a1, List.map_map, Function.comp_def, eStepU, sessionsOf]
  rw [← sum_flatMap_map (classes.zip ys) (fun p => p.1.map fun st => (st, p.2)) (fun q => (sessAccU M q.1 q.2 zeroZ).a1 c a b)]
  simp only [List.map_map, Function.comp_def]
theorem accU_total_a2 (classes : List (List (St C D ℝ))) (ys : List (Fin rV → ℝ)) (c : Fin C) (d : Fin D) (a : Fin rU) :
    (Acc.sum ((classes.zip ys).map fun p => eStepU M p.1 p.2)).a2 c d a
      = ((sessionsOf classes ys).map fun q => (sessAccU M q.1 q.2 zeroZ).a2 c d a).sum := by
  simp only [accSum_a2, List.map_map, Function.comp_def, eStepU, sessionsOf]
  rw [← sum_flatMap_map (classes.zip ys) (fun p => p.1.map fun st => (st, p.2)) (fun q => (sessAccU M q.1 q.2 zeroZ).a2 c d a)]
  simp only [List.map_map, Function.comp_def]

theorem stepU_eq_emStep (classes : List (List (St C D ℝ))) (ys : List (Fin rV → ℝ))
    (hA1 : ∀ k, (accA1 (NU (sessionsOf classes ys)) (FU M (sessionsOf classes ys)) (sigmaOf M) (rowsOf M.U) k).PosDef) :
    rowsOf (stepU M classes ys).U
      = emStep (NU (sessionsOf classes ys)) (FU M (sessionsOf classes ys)) (sigmaOf M) (rowsOf M.U) := by
  set sess := sessionsOf classes ys with hsess
  have h1 : ∀ c d, (Matrix.of ((Acc.sum ((classes.zip ys).map fun p => eStepU M p.1 p.2)).a1 c) : Matrix (Fin rU) (Fin rU) ℝ)
      = accA1 (NU sess) (FU M sess) (sigmaOf M) (rowsOf M.U) (c, d) := by
    intro c d
    ext a b
    simp only [Matrix.of_apply, accU_total_a1, accA1, Matrix.sum_apply, Matrix.smul_apply, Matrix.add_apply,
      vecMulVec_apply, smul_eq_mul]
    rw [← hsess, ← Fin.sum_univ_fun_getElem sess (fun q => (sessAccU M q.1 q.2 zeroZ).a1 c a b)]
    refine Finset.sum_congr rfl fun i _ => ?_
    simp only [sessAccU, idPlusInv, LinAlg.inv, NU, Fin.getElem_fin, postMeanU_item, postCovU_item]
  have h2 : ∀ c d, (Acc.sum ((classes.zip ys).map fun p => eStepU M p.1 p.2)).a2 c d
      = accA2 (NU sess) (FU M sess) (sigmaOf M) (rowsOf M.U) (c, d) := by
    intro c d
    funext a
    simp only [accU_total_a2, accA2, Finset.sum_apply, Pi.smul_apply, smul_eq_mul]
    rw [← hsess, ← Fin.sum_univ_fun_getElem sess (fun q => (sessAccU M q.1 q.2 zeroZ).a2 c d a)]
    refine Finset.sum_congr rfl fun i _ => ?_
    simp only [sessAccU, FU, Fin.getElem_fin, postMeanU_item]
  funext k a
  obtain ⟨c, d⟩ := k
  have hstep : (stepU M classes ys).U = solveLoading (Acc.sum ((classes.zip ys).map fun p => eStepU M p.1 p.2)) := rfl
  simp only [rowsOf, hstep, solveLoading, LinAlg.inv, emStep, sumFin_eq, Matrix.mulVec, dotProduct]
  rw [h1 c d, h2 c d]
  refine Finset.sum_congr rfl fun b _ => ?_
  rw [mul_comm]; congr 1
  exact inv_symm_of_posDef (hA1 (c, d)) b a

/-- **U phase**: one E-step / M-step pair never decreases the U-phase marginal likelihood -/
theorem U_phase_monotone (classes : List (List (St C D ℝ))) (ys : List (Fin rV → ℝ))
    (hn : ∀ q ∈ sessionsOf classes ys, ∀ c, 0 ≤ q.1.n c) (hs : ∀ c d, 0 < M.s c d)
    (hpos : ∀ c, ∃ i : Fin (sessionsOf classes ys).length, 0 < (sessionsOf classes ys)[i].1.n c) :
    margU M (sessionsOf classes ys) M.U ≤ margU M (sessionsOf classes ys) (stepU M classes ys).U := by
  have hN : ∀ i k, 0 ≤ NU (sessionsOf classes ys) i k := fun i k => hn _ (List.getElem_mem _) k.1
  have hσ : ∀ k, 0 < sigmaOf M k := fun k => hs k.1 k.2
  have hA1 : ∀ k, (accA1 (NU (sessionsOf classes ys)) (FU M (sessionsOf classes ys)) (sigmaOf M) (rowsOf M.U) k).PosDef := by
    intro k
    obtain ⟨j, hj⟩ := hpos k.1
    exact accA1_posDef _ _ _ _ hN hσ k j hj
  unfold margU
  rw [stepU_eq_emStep M classes ys hA1]
  exact linGaussEM_monotone _ _ _ hN hσ _ hA1
end UPhase
#print axioms U_phase_monotone

/-! ### D phase: one independent one-dimensional problem per supervector entry -/
section DPhase
variable (M : Model C D rU rV ℝ)

theorem inv_unit (A : Matrix Unit Unit ℝ) : A⁻¹ () () = (A () ())⁻¹ := by
  simp [Matrix.inv_def, Matrix.det_unique, Matrix.adjugate_subsingleton, Ring.inverse_eq_inv']

theorem accDSum_a1 (l : List (AccD C D ℝ)) (c : Fin C) (d : Fin D) :
    (AccD.sum l).a1 c d = (l.map fun x => x.a1 c d).sum := by
  cases l with
  | nil => simp [AccD.sum]
  | cons x rest =>
    simp only [AccD.sum, List.map_cons, List.sum_cons]
    induction rest generalizing x with
    | nil => simp
    | cons y rest ih => simp only [List.foldl_cons, ih, AccD.add, List.map_cons, List.sum_cons]; ring
theorem accDSum_a2 (l : List (AccD C D ℝ)) (c : Fin C) (d : Fin D) :
    (AccD.sum l).a2 c d = (l.map fun x => x.a2 c d).sum := by
  cases l with
  | nil => simp [AccD.sum]
  | cons x rest =>
    simp only [AccD.sum, List.map_cons, List.sum_cons]
    induction rest generalizing x with
    | nil => simp
    | cons y rest ih => simp only [List.foldl_cons, ih, AccD.add, List.map_cons, List.sum_cons]; ring

/-- the items of the D phase: every class with its fixed channel factors and speaker factor -/
abbrev DItem (C D rU rV : ℕ) := (List (St C D ℝ) × List (Fin rU → ℝ)) × (Fin rV → ℝ)

variable (items : List (DItem C D rU rV))
noncomputable def ND (c : Fin C) : Fin items.length → Unit → ℝ := fun i _ => nAcc items[i].1.1 c
noncomputable def FD (c : Fin C) (d : Fin D) : Fin items.length → Unit → ℝ :=
  fun i _ => fnZ M items[i].1.1 items[i].1.2 items[i].2 c d
/-- the D-phase marginal likelihood: a sum over supervector entries of one-dimensional marginals -/
noncomputable def margD (Dd : Fin C → Fin D → ℝ) : ℝ :=
  ∑ c, ∑ d, marg (ρ := Unit) (ND items c) (FD M items c d) (fun _ => M.s c d) (fun _ _ => Dd c d)

theorem stepD_entry (c : Fin C) (d : Fin D) (hs : 0 < M.s c d) (hn : ∀ q ∈ items, 0 ≤ nAcc q.1.1 c) :
    (AccD.sum (items.map fun q => eStepD M q.1.1 q.1.2 q.2)).a2 c d / (AccD.sum (items.map fun q => eStepD M q.1.1 q.1.2 q.2)).a1 c d
      = emStep (ρ := Unit) (ND items c) (FD M items c d) (fun _ => M.s c d) (fun _ _ => M.Dd c d) () () := by
  have hz : ∀ i : Fin items.length,
      postMean (ρ := Unit) (ND items c) (FD M items c d) (fun _ => M.s c d) (fun _ _ => M.Dd c d) i ()
        = updateZ M items[i.val].1.1 items[i.val].1.2 items[i.val].2 c d := by
    intro i
    simp only [postMean, Matrix.mulVec, dotProduct, Finset.univ_unique, Finset.sum_singleton, inv_unit, Pmat, bvec,
      Matrix.add_apply, Matrix.one_apply_eq, Matrix.sum_apply, Matrix.smul_apply, vecMulVec_apply, smul_eq_mul,
      Finset.sum_apply, Pi.smul_apply, updateZ, ND, FD, fnZ, Fin.getElem_fin, PUnit.default_eq_unit]
    field_simp
  have hc : ∀ i : Fin items.length,
      postCov (ρ := Unit) (ND items c) (fun _ => M.s c d) (fun _ _ => M.Dd c d) i () ()
        = 1 / (1 + M.Dd c d / M.s c d * M.Dd c d * nAcc items[i.val].1.1 c) := by
    intro i
    simp only [postCov, inv_unit, Pmat, Matrix.add_apply, Matrix.one_apply_eq, Matrix.sum_apply, Matrix.smul_apply,
      vecMulVec_apply, smul_eq_mul, Finset.univ_unique, Finset.sum_singleton, ND, Fin.getElem_fin, PUnit.default_eq_unit]
    field_simp
  simp only [emStep, Matrix.mulVec, dotProduct, Finset.univ_unique, Finset.sum_singleton, inv_unit, accA1, accA2,
    Matrix.sum_apply, Matrix.smul_apply, Matrix.add_apply, vecMulVec_apply, smul_eq_mul, Finset.sum_apply, Pi.smul_apply,
    PUnit.default_eq_unit, hz, hc]
  rw [accDSum_a1, accDSum_a2]
  simp only [List.map_map, Function.comp_def]
  rw [← Fin.sum_univ_fun_getElem items (fun q => (eStepD M q.1.1 q.1.2 q.2).a1 c d),
    ← Fin.sum_univ_fun_getElem items (fun q => (eStepD M q.1.1 q.1.2 q.2).a2 c d), div_eq_inv_mul]
  congr 1
  · congr 1
    refine Finset.sum_congr rfl fun i _ => ?_
    simp only [eStepD, ND, Fin.getElem_fin]; ring
end DPhase

section DPhase2
variable (M : Model C D rU rV ℝ) (items : List (DItem C D rU rV))

/-- the D iteration written on the item list -/
noncomputable def stepDItems : Fin C → Fin D → ℝ := fun c d =>
  (AccD.sum (items.map fun q => eStepD M q.1.1 q.1.2 q.2)).a2 c d / (AccD.sum (items.map fun q => eStepD M q.1.1 q.1.2 q.2)).a1 c d

theorem stepD_eq_items (classes : List (List (St C D ℝ))) (xss : List (List (Fin rU → ℝ))) (ys : List (Fin rV → ℝ)) :
    (stepD M classes xss ys).Dd = stepDItems M ((classes.zip xss).zip ys) := rfl

/-- **D phase**: one E-step / M-step pair never decreases the D-phase marginal likelihood -/
theorem D_phase_monotone (hs : ∀ c d, 0 < M.s c d) (hn : ∀ q ∈ items, ∀ c, 0 ≤ nAcc q.1.1 c)
    (hpos : ∀ c, ∃ i : Fin items.length, 0 < nAcc items[i].1.1 c) :
    margD M items M.Dd ≤ margD M items (stepDItems M items) := by
  unfold margD
  refine Finset.sum_le_sum fun c _ => Finset.sum_le_sum fun d _ => ?_
  have hN : ∀ (i : Fin items.length) (k : Unit), 0 ≤ ND items c i k := fun i _ => hn _ (List.getElem_mem _) c
  have hσ : ∀ _k : Unit, 0 < M.s c d := fun _ => hs c d
  have hA1 : ∀ k : Unit, (accA1 (ρ := Unit) (ND items c) (FD M items c d) (fun _ => M.s c d) (fun _ _ => M.Dd c d) k).PosDef := by
    intro k
    obtain ⟨j, hj⟩ := hpos c
    exact accA1_posDef _ _ _ _ hN hσ k j hj
  have hstep : (fun (_ : Unit) (_ : Unit) => stepDItems M items c d)
      = emStep (ρ := Unit) (ND items c) (FD M items c d) (fun _ => M.s c d) (fun _ _ => M.Dd c d) := by
    funext k a
    exact stepD_entry M items c d (hs c d) (fun q hq => hn q hq c)
  rw [hstep]
  exact linGaussEM_monotone _ _ _ hN hσ _ hA1
end DPhase2
#print axioms D_phase_monotone
