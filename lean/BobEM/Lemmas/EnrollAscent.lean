import BobEM.Lemmas.FABlocks
import BobEM.Lemmas.BlockMax
import BobEM.Lemmas.FATrainIdent

/-! Enrolment (C07) as block-coordinate ascent on the joint log-posterior `FA.logPost`:
every block update of a sweep maximises `logPost` in its block. -/

open Matrix Finset BobEM BobEM.FA

variable {C D rU rV : ℕ}

/-- data term of one session plus the prior of its channel factor -/
noncomputable def sessionObj (M : Model C D rU rV ℝ) (st : St C D ℝ) (y : Fin rV → ℝ) (z : Fin C → Fin D → ℝ)
    (x : Fin rU → ℝ) : ℝ :=
  -(1/2 : ℝ) * (∑ a, x a * x a) + sessionTerm M st (offset M y x z)

theorem apply_eq_dot {r : ℕ} (L : Fin C → Fin D → Fin r → ℝ) (x : Fin r → ℝ) (c : Fin C) (d : Fin D) :
    apply L x c d = rowsOf L (c, d) ⬝ᵥ x := by
  simp [apply, sumFin_eq, rowsOf, dotProduct]

/-- the session objective is a block objective in `x` -/
theorem sessionObj_eq_blockObj (M : Model C D rU rV ℝ) (st : St C D ℝ) (y : Fin rV → ℝ) (z : Fin C → Fin D → ℝ)
    (x : Fin rU → ℝ) :
    sessionObj M st y z x
      = blockObj (rowsOf M.U) (fun k => st.n k.1) (fun k => st.f k.1 k.2 - st.n k.1 * M.m k.1 k.2)
          (fun k => apply M.V y k.1 k.2 + M.Dd k.1 k.2 * z k.1 k.2) (sigmaOf M) x := by
  unfold sessionObj blockObj sessionTerm offset sigmaOf
  simp only [sumFin_eq, Fintype.sum_prod_type, apply_eq_dot, dotProduct]
  congr 1
  refine Finset.sum_congr rfl fun c _ => Finset.sum_congr rfl fun d _ => ?_
  simp only [rowsOf, dotProduct]
  ring

/-- each channel-factor update maximises its session objective -/
theorem latentX_maximises (M : Model C D rU rV ℝ) (st : St C D ℝ) (y : Fin rV → ℝ) (z : Fin C → Fin D → ℝ)
    (hn : ∀ c, 0 ≤ st.n c) (hs : ∀ c d, 0 < M.s c d) (x : Fin rU → ℝ) :
    sessionObj M st y z x ≤ sessionObj M st y z (latentX M st y z) := by
  rw [sessionObj_eq_blockObj, sessionObj_eq_blockObj]
  have hx : latentX M st y z
      = (blockP (rowsOf M.U) (fun k => st.n k.1) (sigmaOf M))⁻¹ *ᵥ
          blockB (rowsOf M.U) (fun k => st.n k.1) (fun k => st.f k.1 k.2 - st.n k.1 * M.m k.1 k.2)
            (fun k => apply M.V y k.1 k.2 + M.Dd k.1 k.2 * z k.1 k.2) (sigmaOf M) := by
    unfold blockP blockB sigmaOf
    rw [← idPlus_eq_Pmat M M.U st.n]
    have hb : bvec (ι := Unit) (fun _ (k : Fin C × Fin D) => st.f k.1 k.2 - st.n k.1 * M.m k.1 k.2
          - st.n k.1 * (apply M.V y k.1 k.2 + M.Dd k.1 k.2 * z k.1 k.2)) (fun k => M.s k.1 k.2) (rowsOf M.U) ()
        = projT M M.U (fun c d => st.f c d - st.n c * (M.m c d + M.Dd c d * z c d) - st.n c * apply M.V y c d) := by
      rw [projT_eq_bvec]
      congr 1
      funext _ k; ring
    rw [hb]
    funext a
    simp only [latentX, idPlusInv, LinAlg.inv, BobEM.FA.mulVec, sumFin_eq, Matrix.mulVec, dotProduct]
  rw [hx]
  exact block_max _ _ _ _ _ (fun (k : Fin C × Fin D) => hn k.1) (fun (k : Fin C × Fin D) => hs k.1 k.2) x

/-- `logPost` as prior terms of `y`, `z` plus the session objectives (latent lists aligned) -/
theorem logPost_sessions (M : Model C D rU rV ℝ) (sts : List (St C D ℝ)) (l : Lat C D rU rV ℝ)
    (hlen : l.xs.length = sts.length) :
    logPost M sts l
      = -(1/2 : ℝ) * (∑ a, l.y a * l.y a) - (1/2 : ℝ) * (∑ c, ∑ d, l.z c d * l.z c d)
        + ((sts.zip l.xs).map fun p => sessionObj M p.1 l.y l.z p.2).sum := by
  have hsnd : l.xs = (sts.zip l.xs).map Prod.snd := (List.map_snd_zip (by omega)).symm
  have hx : (l.xs.map fun x => ∑ a, x a * x a).sum = ((sts.zip l.xs).map fun p => ∑ a, p.2 a * p.2 a).sum := by
    conv_lhs => rw [hsnd]
    simp [List.map_map, Function.comp_def]
  have hsum : ∀ (L : List (St C D ℝ × (Fin rU → ℝ))),
      (L.map fun p => sessionObj M p.1 l.y l.z p.2).sum
        = -(1/2 : ℝ) * (L.map fun p => ∑ a, p.2 a * p.2 a).sum + (L.map fun p => sessionTerm M p.1 (offset M l.y p.2 l.z)).sum := by
    intro L
    simp only [sessionObj, List.sum_map_add, List.sum_map_mul_left]
  unfold logPost
  simp only [lsum_eq, sumFin_eq, hx, hsum]
  ring

/-- **x sweep**: replacing every channel factor by its update does not decrease `logPost` -/
theorem x_sweep_ascent (M : Model C D rU rV ℝ) (sts : List (St C D ℝ)) (y : Fin rV → ℝ) (z : Fin C → Fin D → ℝ)
    (xs : List (Fin rU → ℝ)) (hlen : xs.length = sts.length)
    (hn : ∀ st ∈ sts, ∀ c, 0 ≤ st.n c) (hs : ∀ c d, 0 < M.s c d) :
    logPost M sts ⟨y, xs, z⟩ ≤ logPost M sts ⟨y, sts.map fun st => latentX M st y z, z⟩ := by
  rw [logPost_sessions M sts ⟨y, xs, z⟩ hlen, logPost_sessions M sts ⟨y, _, z⟩ (by simp)]
  simp only
  have key : ∀ (S : List (St C D ℝ)) (X : List (Fin rU → ℝ)), X.length = S.length → (∀ st ∈ S, ∀ c, 0 ≤ st.n c) →
      ((S.zip X).map fun p => sessionObj M p.1 y z p.2).sum
        ≤ ((S.zip (S.map fun st => latentX M st y z)).map fun p => sessionObj M p.1 y z p.2).sum := by
    intro S
    induction S with
    | nil => intro X _ _; simp
    | cons s S ih =>
      intro X hX hS
      cases X with
      | nil => simp at hX
      | cons x X =>
        simp only [List.zip_cons_cons, List.map_cons, List.sum_cons]
        have h1 := latentX_maximises M s y z (hS s (by simp)) hs x
        have h2 := ih X (by simpa using hX) (fun st hst => hS st (by simp [hst]))
        linarith
  have := key sts xs hlen hn
  linarith
#print axioms x_sweep_ascent

/-! ### the residual-offset block -/

theorem list_sum_finset_sum {β ι : Type} [Fintype ι] (L : List β) (t : β → ι → ℝ) :
    (L.map fun p => ∑ i, t p i).sum = ∑ i, (L.map fun p => t p i).sum := by
  induction L with
  | nil => simp
  | cons p L ih => simp only [List.map_cons, List.sum_cons, ih, Finset.sum_add_distrib]

/-- a scalar block: quadratic expansion of the per-entry objective in `ζ` -/
theorem scalar_block {β : Type} (L : List β) (g n r : β → ℝ) (δ s ζ : ℝ) :
    (L.map fun q => (g q * (r q + δ * ζ) - (1/2 : ℝ) * (n q * ((r q + δ * ζ) * (r q + δ * ζ)))) / s).sum
      = (L.map fun q => (g q * r q - (1/2 : ℝ) * (n q * (r q * r q))) / s).sum
        + (δ / s * (L.map fun q => g q - n q * r q).sum) * ζ - (1/2 : ℝ) * (δ * δ / s * (L.map n).sum) * (ζ * ζ) := by
  induction L with
  | nil => simp
  | cons q L ih => simp only [List.map_cons, List.sum_cons, ih]; ring

theorem scalar_quad_max (b p ζ : ℝ) (hp : 0 < p) :
    b * ζ - (1/2 : ℝ) * p * (ζ * ζ) ≤ b * (b / p) - (1/2 : ℝ) * p * ((b / p) * (b / p)) := by
  have h : b * (b / p) - (1/2 : ℝ) * p * ((b / p) * (b / p)) - (b * ζ - (1/2 : ℝ) * p * (ζ * ζ))
      = (1/2 : ℝ) * p * ((ζ - b / p) * (ζ - b / p)) := by
    field_simp; ring
  have h2 : 0 ≤ (1/2 : ℝ) * p * ((ζ - b / p) * (ζ - b / p)) :=
    mul_nonneg (mul_nonneg (by norm_num) hp.le) (mul_self_nonneg _)
  linarith

/-- per-entry objective of the offset `z_cd` (sessions and the other factors fixed) -/
noncomputable def zObj (M : Model C D rU rV ℝ) (L : List (St C D ℝ × (Fin rU → ℝ))) (y : Fin rV → ℝ)
    (c : Fin C) (d : Fin D) (ζ : ℝ) : ℝ :=
  -(1/2 : ℝ) * (ζ * ζ)
    + (L.map fun p => ((p.1.f c d - p.1.n c * M.m c d) * (apply M.V y c d + apply M.U p.2 c d + M.Dd c d * ζ)
        - (1/2 : ℝ) * (p.1.n c * ((apply M.V y c d + apply M.U p.2 c d + M.Dd c d * ζ)
            * (apply M.V y c d + apply M.U p.2 c d + M.Dd c d * ζ)))) / M.s c d).sum

theorem logPost_entries (M : Model C D rU rV ℝ) (sts : List (St C D ℝ)) (l : Lat C D rU rV ℝ) :
    logPost M sts l
      = -(1/2 : ℝ) * (∑ a, l.y a * l.y a) - (1/2 : ℝ) * (l.xs.map fun x => ∑ a, x a * x a).sum
        + ∑ c, ∑ d, zObj M (sts.zip l.xs) l.y c d (l.z c d) := by
  unfold logPost zObj sessionTerm offset
  simp only [lsum_eq, sumFin_eq]
  rw [list_sum_finset_sum]
  simp only [list_sum_finset_sum, Finset.sum_add_distrib, ← Finset.mul_sum]
  ring

theorem zip_sum_fst {β γ : Type} (S : List β) (X : List γ) (h : S.length ≤ X.length) (f : β → ℝ) :
    ((S.zip X).map fun p => f p.1).sum = (S.map f).sum := by
  have : (S.zip X).map (fun p => f p.1) = ((S.zip X).map Prod.fst).map f := by simp [List.map_map, Function.comp_def]
  rw [this, List.map_fst_zip h]

/-- **z update**: the residual-offset update does not decrease `logPost` -/
theorem z_update_ascent (M : Model C D rU rV ℝ) (sts : List (St C D ℝ)) (y : Fin rV → ℝ) (xs : List (Fin rU → ℝ))
    (z : Fin C → Fin D → ℝ) (hlen : xs.length = sts.length)
    (hn : ∀ c, 0 ≤ nAcc sts c) (hs : ∀ c d, 0 < M.s c d) :
    logPost M sts ⟨y, xs, z⟩ ≤ logPost M sts ⟨y, xs, updateZ M sts xs y⟩ := by
  rw [logPost_entries, logPost_entries]
  simp only
  have key : ∀ c d, zObj M (sts.zip xs) y c d (z c d) ≤ zObj M (sts.zip xs) y c d (updateZ M sts xs y c d) := by
    intro c d
    set L := sts.zip xs with hL
    have hexp : ∀ ζ, zObj M L y c d ζ
        = (L.map fun q => ((q.1.f c d - q.1.n c * M.m c d) * (apply M.V y c d + apply M.U q.2 c d)
              - (1/2 : ℝ) * (q.1.n c * ((apply M.V y c d + apply M.U q.2 c d) * (apply M.V y c d + apply M.U q.2 c d)))) / M.s c d).sum
          + (M.Dd c d / M.s c d * (L.map fun q => (q.1.f c d - q.1.n c * M.m c d) - q.1.n c * (apply M.V y c d + apply M.U q.2 c d)).sum) * ζ
          - (1/2 : ℝ) * (1 + M.Dd c d * M.Dd c d / M.s c d * (L.map fun q => q.1.n c).sum) * (ζ * ζ) := by
      intro ζ
      unfold zObj
      rw [scalar_block L (fun q => q.1.f c d - q.1.n c * M.m c d) (fun q => q.1.n c)
        (fun q => apply M.V y c d + apply M.U q.2 c d) (M.Dd c d) (M.s c d) ζ]
      ring
    have hN : (L.map fun q => q.1.n c).sum = nAcc sts c := by
      rw [hL, zip_sum_fst sts xs (by omega) (fun s => s.n c)]; simp [nAcc, lsum_eq]
    have hB : (L.map fun q => (q.1.f c d - q.1.n c * M.m c d) - q.1.n c * (apply M.V y c d + apply M.U q.2 c d)).sum
        = fAcc sts c d - nAcc sts c * (M.m c d + apply M.V y c d) - uxTerm M sts xs c d := by
      have h1 : ∀ (S : List (St C D ℝ × (Fin rU → ℝ))),
          (S.map fun q => (q.1.f c d - q.1.n c * M.m c d) - q.1.n c * (apply M.V y c d + apply M.U q.2 c d)).sum
            = (S.map fun q => q.1.f c d).sum - (S.map fun q => q.1.n c).sum * (M.m c d + apply M.V y c d)
              - (S.map fun q => q.1.n c * apply M.U q.2 c d).sum := by
        intro S
        induction S with
        | nil => simp
        | cons q S ih => simp only [List.map_cons, List.sum_cons, ih]; ring
      rw [h1 L, hN, hL, zip_sum_fst sts xs (by omega) (fun s => s.f c d)]
      simp only [fAcc, uxTerm, lsum_eq]
    set p := 1 + M.Dd c d * M.Dd c d / M.s c d * nAcc sts c with hp
    have hppos : 0 < p := by
      have : 0 ≤ M.Dd c d * M.Dd c d / M.s c d * nAcc sts c :=
        mul_nonneg (div_nonneg (mul_self_nonneg _) (hs c d).le) (hn c)
      linarith
    set b := M.Dd c d / M.s c d * (fAcc sts c d - nAcc sts c * (M.m c d + apply M.V y c d) - uxTerm M sts xs c d) with hb
    have hz : updateZ M sts xs y c d = b / p := by
      simp only [updateZ, hb, hp]
      field_simp
    rw [hexp, hexp, hN, hB, hz]
    have := scalar_quad_max b p (z c d) hppos
    linarith
  have := Finset.sum_le_sum (s := Finset.univ) fun c _ => Finset.sum_le_sum (s := Finset.univ) fun d _ => key c d
  linarith
#print axioms z_update_ascent

/-! ### the speaker-factor block -/

theorem updateY_eq (M : Model C D rU rV ℝ) (sts : List (St C D ℝ)) (xs : List (Fin rU → ℝ)) (z : Fin C → Fin D → ℝ)
    (hn : ∀ c, 0 ≤ nAcc sts c) (hs : ∀ c d, 0 < M.s c d) :
    updateY M sts xs z = (faPrecision M M.V (nAcc sts))⁻¹ *ᵥ
      projT M M.V (fun c d => fAcc sts c d - nAcc sts c * (M.m c d + 1 * (M.Dd c d * z c d)) - uxTerm M sts xs c d) := by
  have hP := faPrecision_posDef M M.V (nAcc sts) hn hs
  funext a
  simp only [updateY, updateYG, idPlusInv, LinAlg.inv, BobEM.FA.vecMul, sumFin_eq, Matrix.mulVec, dotProduct]
  refine Finset.sum_congr rfl fun b _ => ?_
  rw [mul_comm]; congr 1
  exact inv_symm_of_posDef hP b a

section YBlock
variable (M : Model C D rU rV ℝ) (L : List (St C D ℝ × (Fin rU → ℝ))) (z : Fin C → Fin D → ℝ)

/-- rows of the `y` block: one per (session, component, feature) -/
abbrev YRow (C D : ℕ) (H : ℕ) := Fin H × (Fin C × Fin D)

noncomputable def yA : YRow C D L.length → Fin rV → ℝ := fun ik => rowsOf M.V ik.2
noncomputable def yN : YRow C D L.length → ℝ := fun ik => L[ik.1].1.n ik.2.1
noncomputable def yG : YRow C D L.length → ℝ := fun ik => L[ik.1].1.f ik.2.1 ik.2.2 - L[ik.1].1.n ik.2.1 * M.m ik.2.1 ik.2.2
noncomputable def yR : YRow C D L.length → ℝ := fun ik => apply M.U L[ik.1].2 ik.2.1 ik.2.2 + M.Dd ik.2.1 ik.2.2 * z ik.2.1 ik.2.2
noncomputable def yS : YRow C D L.length → ℝ := fun ik => M.s ik.2.1 ik.2.2

/-- objective of the `y` block -/
noncomputable def yObj (y : Fin rV → ℝ) : ℝ :=
  -(1/2 : ℝ) * (∑ a, y a * y a) + (L.map fun p => sessionTerm M p.1 (offset M y p.2 z)).sum

theorem yObj_eq_blockObj (y : Fin rV → ℝ) :
    yObj M L z y = blockObj (yA M L) (yN L) (yG M L) (yR M L z) (yS M L) y := by
  unfold yObj blockObj
  rw [← Fin.sum_univ_fun_getElem L (fun p => sessionTerm M p.1 (offset M y p.2 z))]
  simp only [Fintype.sum_prod_type, sessionTerm, offset, sumFin_eq, apply_eq_dot, yA, yN, yG, yR, yS, dotProduct, Fin.getElem_fin]
  congr 1
  refine Finset.sum_congr rfl fun i _ => Finset.sum_congr rfl fun c _ => Finset.sum_congr rfl fun d _ => ?_
  simp only [rowsOf, dotProduct]
  ring
end YBlock

theorem fin_sum_zip_fst (sts : List (St C D ℝ)) (xs : List (Fin rU → ℝ)) (h : sts.length ≤ xs.length) (f : St C D ℝ → ℝ) :
    ∑ i : Fin (sts.zip xs).length, f (sts.zip xs)[i.val].1 = (sts.map f).sum := by
  have := Fin.sum_univ_fun_getElem (sts.zip xs) (fun p => f p.1)
  rw [this, zip_sum_fst sts xs h f]

theorem blockP_y (M : Model C D rU rV ℝ) (sts : List (St C D ℝ)) (xs : List (Fin rU → ℝ)) (h : sts.length ≤ xs.length) :
    blockP (yA M (sts.zip xs)) (yN (sts.zip xs)) (yS M (sts.zip xs)) = faPrecision M M.V (nAcc sts) := by
  unfold blockP Pmat faPrecision
  rw [idPlus_eq_Pmat M M.V (nAcc sts)]
  unfold Pmat
  congr 1
  simp only [Fintype.sum_prod_type, yA, yN, yS]
  rw [Finset.sum_comm]
  refine Finset.sum_congr rfl fun c _ => ?_
  rw [Finset.sum_comm]
  refine Finset.sum_congr rfl fun d _ => ?_
  rw [← Finset.sum_smul, ← Finset.sum_div]
  congr 2
  simp only [Fin.getElem_fin]
  rw [fin_sum_zip_fst sts xs h (fun s => s.n c)]
  simp [nAcc, lsum_eq]

theorem blockB_y (M : Model C D rU rV ℝ) (sts : List (St C D ℝ)) (xs : List (Fin rU → ℝ)) (z : Fin C → Fin D → ℝ)
    (h : sts.length ≤ xs.length) :
    blockB (yA M (sts.zip xs)) (yN (sts.zip xs)) (yG M (sts.zip xs)) (yR M (sts.zip xs) z) (yS M (sts.zip xs))
      = projT M M.V (fun c d => fAcc sts c d - nAcc sts c * (M.m c d + 1 * (M.Dd c d * z c d)) - uxTerm M sts xs c d) := by
  rw [projT_eq_bvec]
  unfold blockB bvec
  simp only [Fintype.sum_prod_type, yA, yN, yG, yR, yS]
  rw [Finset.sum_comm]
  refine Finset.sum_congr rfl fun c _ => ?_
  rw [Finset.sum_comm]
  refine Finset.sum_congr rfl fun d _ => ?_
  rw [← Finset.sum_smul, ← Finset.sum_div]
  congr 2
  simp only [Fin.getElem_fin]
  have h1 : ∀ i : Fin (sts.zip xs).length,
      (sts.zip xs)[i.val].1.f c d - (sts.zip xs)[i.val].1.n c * M.m c d
        - (sts.zip xs)[i.val].1.n c * (apply M.U (sts.zip xs)[i.val].2 c d + M.Dd c d * z c d)
      = (fun p : St C D ℝ × (Fin rU → ℝ) => p.1.f c d - p.1.n c * (M.m c d + M.Dd c d * z c d) - p.1.n c * apply M.U p.2 c d) (sts.zip xs)[i.val] := by
    intro i; ring
  rw [Finset.sum_congr rfl fun i _ => h1 i]
  have hsum := Fin.sum_univ_fun_getElem (sts.zip xs)
    (fun p : St C D ℝ × (Fin rU → ℝ) => p.1.f c d - p.1.n c * (M.m c d + M.Dd c d * z c d) - p.1.n c * apply M.U p.2 c d)
  rw [hsum]
  have h2 : ∀ (S : List (St C D ℝ × (Fin rU → ℝ))),
      (S.map fun p => p.1.f c d - p.1.n c * (M.m c d + M.Dd c d * z c d) - p.1.n c * apply M.U p.2 c d).sum
        = (S.map fun p => p.1.f c d).sum - (S.map fun p => p.1.n c).sum * (M.m c d + M.Dd c d * z c d)
          - (S.map fun p => p.1.n c * apply M.U p.2 c d).sum := by
    intro S
    induction S with
    | nil => simp
    | cons q S ih => simp only [List.map_cons, List.sum_cons, ih]; ring
  rw [h2, zip_sum_fst sts xs h (fun s => s.f c d), zip_sum_fst sts xs h (fun s => s.n c)]
  simp only [fAcc, nAcc, uxTerm, lsum_eq, one_mul]

/-- **y update**: the speaker-factor update does not decrease `logPost` -/
theorem y_update_ascent (M : Model C D rU rV ℝ) (sts : List (St C D ℝ)) (y : Fin rV → ℝ) (xs : List (Fin rU → ℝ))
    (z : Fin C → Fin D → ℝ) (hlen : xs.length = sts.length)
    (hn : ∀ st ∈ sts, ∀ c, 0 ≤ st.n c) (hs : ∀ c d, 0 < M.s c d) :
    logPost M sts ⟨y, xs, z⟩ ≤ logPost M sts ⟨updateY M sts xs z, xs, z⟩ := by
  have hnacc : ∀ c, 0 ≤ nAcc sts c := by
    intro c; simp only [nAcc, lsum_eq]
    exact List.sum_nonneg (by intro v hv; obtain ⟨s, hs', rfl⟩ := List.mem_map.mp hv; exact hn s hs' c)
  have hdecomp : ∀ y' : Fin rV → ℝ, logPost M sts ⟨y', xs, z⟩
      = yObj M (sts.zip xs) z y' - (1/2 : ℝ) * (xs.map fun x => ∑ a, x a * x a).sum - (1/2 : ℝ) * (∑ c, ∑ d, z c d * z c d) := by
    intro y'
    unfold logPost yObj
    simp only [lsum_eq, sumFin_eq]
    ring
  rw [hdecomp, hdecomp, yObj_eq_blockObj, yObj_eq_blockObj]
  have hmax := block_max (yA M (sts.zip xs)) (yN (sts.zip xs)) (yG M (sts.zip xs)) (yR M (sts.zip xs) z) (yS M (sts.zip xs))
    (fun ik => hn _ (List.of_mem_zip (List.getElem_mem _)).1 ik.2.1) (fun ik => hs ik.2.1 ik.2.2) y
  rw [blockP_y M sts xs (by omega), blockB_y M sts xs z (by omega), ← updateY_eq M sts xs z hnacc hs] at hmax
  linarith
#print axioms y_update_ascent

/-! ### sweeps and enrolment -/

theorem enroll_xs_length (M : Model C D rU rV ℝ) (sts : List (St C D ℝ)) (k : ℕ) :
    (enroll M sts k).xs.length = sts.length := by
  cases k with
  | zero => simp [enroll, Lat.zero]
  | succ k => simp [enroll, sweep]

theorem nAcc_nonneg (sts : List (St C D ℝ)) (hn : ∀ st ∈ sts, ∀ c, 0 ≤ st.n c) (c : Fin C) : 0 ≤ nAcc sts c := by
  simp only [nAcc, lsum_eq]
  exact List.sum_nonneg (by intro v hv; obtain ⟨s, hs', rfl⟩ := List.mem_map.mp hv; exact hn s hs' c)

/-- one enrolment iteration (y, then every x_h, then z) never decreases the joint log-posterior -/
theorem sweep_ascent (M : Model C D rU rV ℝ) (sts : List (St C D ℝ)) (l : Lat C D rU rV ℝ)
    (hlen : l.xs.length = sts.length) (hn : ∀ st ∈ sts, ∀ c, 0 ≤ st.n c) (hs : ∀ c d, 0 < M.s c d) :
    logPost M sts l ≤ logPost M sts (sweep M sts l) := by
  obtain ⟨y, xs, z⟩ := l
  simp only at hlen
  have h1 := y_update_ascent M sts y xs z hlen hn hs
  have h2 := x_sweep_ascent M sts (updateY M sts xs z) z xs hlen hn hs
  have h3 := z_update_ascent M sts (updateY M sts xs z) (sts.map fun st => latentX M st (updateY M sts xs z) z) z (by simp)
    (nAcc_nonneg sts hn) hs
  exact le_trans h1 (le_trans h2 h3)

theorem enroll_monotone (M : Model C D rU rV ℝ) (sts : List (St C D ℝ)) (k : ℕ)
    (hn : ∀ st ∈ sts, ∀ c, 0 ≤ st.n c) (hs : ∀ c d, 0 < M.s c d) :
    logPost M sts (enroll M sts k) ≤ logPost M sts (enroll M sts (k + 1)) :=
  sweep_ascent M sts (enroll M sts k) (enroll_xs_length M sts k) hn hs
#print axioms enroll_monotone
