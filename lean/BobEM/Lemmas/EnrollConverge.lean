import BobEM.Lemmas.EnrollMode
import BobEM.Lemmas.GaussSeidel

/-! Enrolment converges to the joint mode (C07): one enrolment iteration is three exact block
maximisations of the joint objective, so the gap to the mode contracts geometrically, and with
`P ⪰ I` so does the squared distance of the latent factors to the mode. -/

open Matrix Finset BobEM BobEM.FA

variable {C D rU rV : ℕ}

/-- squared Euclidean distance between two latent states (sessions paired in order) -/
noncomputable def latDist2 (l l' : Lat C D rU rV ℝ) : ℝ :=
  (∑ a, (l.y a - l'.y a) * (l.y a - l'.y a))
    + ((l.xs.zip l'.xs).map fun p => ∑ u, (p.1 u - p.2 u) * (p.1 u - p.2 u)).sum
    + ∑ c, ∑ d, (l.z c d - l'.z c d) * (l.z c d - l'.z c d)

theorem flat_sub {H : ℕ} (y y' : Fin rV → ℝ) (X X' : Fin H → Fin rU → ℝ) (z z' : Fin C → Fin D → ℝ) :
    flat (C := C) (D := D) y X z - flat y' X' z' = flat (fun a => y a - y' a) (fun h u => X h u - X' h u) (fun c d => z c d - z' c d) := by
  funext j
  rcases j with a | hu | cd <;> simp [flat]

theorem latDist2_flat {H : ℕ} (y y' : Fin rV → ℝ) (X X' : Fin H → Fin rU → ℝ) (z z' : Fin C → Fin D → ℝ) :
    latDist2 (C := C) (D := D) ⟨y, List.ofFn X, z⟩ ⟨y', List.ofFn X', z'⟩
      = (flat (C := C) (D := D) y X z - flat y' X' z') ⬝ᵥ (flat y X z - flat y' X' z') := by
  rw [flat_sub, flat_dot_flat]
  simp only [latDist2, zip_ofFn, List.map_ofFn, List.sum_ofFn, Function.comp_def]

/-- the three stages of one sweep in flattened coordinates, and the contraction of the gap -/
theorem sweep_contracts (M : Model C D rU rV ℝ) (sts : List (St C D ℝ)) (m : Lat C D rU rV ℝ)
    (hmlen : m.xs.length = sts.length)
    (hn : ∀ st ∈ sts, ∀ c, 0 ≤ st.n c) (hs : ∀ c d, 0 < M.s c d) :
    ∃ q : ℝ, 0 ≤ q ∧ q < 1 ∧ ∀ l : Lat C D rU rV ℝ, l.xs.length = sts.length →
      logPost M sts m - logPost M sts (sweep M sts l) ≤ q * (logPost M sts m - logPost M sts l) := by
  set H := sts.length with hH
  let S : Fin H → St C D ℝ := fun h => sts[h.val]
  have eS : sts = List.ofFn S := list_eq_ofFn sts rfl
  have hnS : ∀ k : JRow C D H, 0 ≤ (S k.1).n k.2.1 := fun k => hn _ (List.getElem_mem _) _
  have hsS : ∀ k : JRow C D H, 0 < M.s k.2.1 k.2.2 := fun k => hs _ _
  have hnAcc : ∀ c, 0 ≤ nAcc sts c := nAcc_nonneg sts hn
  set P := blockP (jA M H) (fun k => (S k.1).n k.2.1) (fun k => M.s k.2.1 k.2.2) with hP
  have hF := frob2_nonneg P
  have hK : 0 < 6 * frob2 P + 1 := by linarith
  refine ⟨1 - 1 / (6 * frob2 P + 1), ?_, ?_, ?_⟩
  · have : 1 / (6 * frob2 P + 1) ≤ 1 := by rw [div_le_one hK]; linarith
    linarith
  · have : 0 < 1 / (6 * frob2 P + 1) := by positivity
    linarith
  intro l hlen
  obtain ⟨y, xs, z⟩ := l
  obtain ⟨ym, xsm, zm⟩ := m
  simp only at hlen hmlen
  let X : Fin H → Fin rU → ℝ := fun h => xs[h.val]'(by omega)
  let Xm : Fin H → Fin rU → ℝ := fun h => xsm[h.val]'(by omega)
  have eX : xs = List.ofFn X := list_eq_ofFn xs hlen
  have eXm : xsm = List.ofFn Xm := list_eq_ofFn xsm hmlen
  have obj : ∀ (v : Fin rV → ℝ) (W : Fin H → Fin rU → ℝ) (w : Fin C → Fin D → ℝ),
      logPost M sts ⟨v, List.ofFn W, w⟩
        = blockObj (jA M H) (fun k => (S k.1).n k.2.1) (fun k => (S k.1).f k.2.1 k.2.2 - (S k.1).n k.2.1 * M.m k.2.1 k.2.2)
            (fun _ => 0) (fun k => M.s k.2.1 k.2.2) (flat v W w) := by
    intro v W w
    conv_lhs => rw [eS]
    exact logPost_joint M S v W w
  -- the stages
  set y1 := updateY M sts xs z with hy1
  let X1 : Fin H → Fin rU → ℝ := fun h => latentX M (S h) y1 z
  have eX1 : (sts.map fun st => latentX M st y1 z) = List.ofFn X1 := by
    conv_lhs => rw [eS]
    rw [List.map_ofFn]
    rfl
  set z1 := updateZ M sts (sts.map fun st => latentX M st y1 z) y1 with hz1
  have hsweep : sweep M sts ⟨y, xs, z⟩ = ⟨y1, List.ofFn X1, z1⟩ := by
    simp only [sweep, ← eX1, hz1, hy1]
  set θ₀ := flat (C := C) (D := D) y X z with hθ₀
  let Δ₁ : JIdx C D rU rV H → ℝ := flat (fun a => y1 a - y a) (fun _ _ => 0) (fun _ _ => 0)
  let Δ₂ : JIdx C D rU rV H → ℝ := flat (fun _ => 0) (fun h u => X1 h u - X h u) (fun _ _ => 0)
  let Δ₃ : JIdx C D rU rV H → ℝ := flat (fun _ => 0) (fun _ _ => 0) (fun c d => z1 c d - z c d)
  have t1 : θ₀ + Δ₁ = flat (C := C) (D := D) y1 X z := by
    funext j; rcases j with a | hu | cd <;> simp [θ₀, Δ₁, flat]
  have t2 : θ₀ + Δ₁ + Δ₂ = flat (C := C) (D := D) y1 X1 z := by
    rw [t1]; funext j; rcases j with a | hu | cd <;> simp [Δ₂, flat]
  have t3 : θ₀ + Δ₁ + Δ₂ + Δ₃ = flat (C := C) (D := D) y1 X1 z1 := by
    rw [t2]; funext j; rcases j with a | hu | cd <;> simp [Δ₃, flat]
  have hg1 : ∀ i, bGrad (jA M H) (fun k => (S k.1).n k.2.1) (fun k => (S k.1).f k.2.1 k.2.2 - (S k.1).n k.2.1 * M.m k.2.1 k.2.2)
      (fun _ => 0) (fun k => M.s k.2.1 k.2.2) (θ₀ + Δ₁) (.inl i) = 0 := by
    intro i
    apply grad_zero_of_coord_max _ _ _ _ _ hnS hsS
    intro t
    have e : θ₀ + Δ₁ + t • Pi.single (Sum.inl i) 1
        = flat (C := C) (D := D) (fun a => y1 a + t * (if a = i then 1 else 0)) X z := by
      rw [t1]; funext j
      rcases j with a | hu | cd <;> simp [flat, Pi.single_apply]
    rw [e, t1, ← obj, ← obj, ← eX]
    exact y_update_ascent M sts _ xs z hlen hn hs
  have hg2 : ∀ j, bGrad (jA M H) (fun k => (S k.1).n k.2.1) (fun k => (S k.1).f k.2.1 k.2.2 - (S k.1).n k.2.1 * M.m k.2.1 k.2.2)
      (fun _ => 0) (fun k => M.s k.2.1 k.2.2) (θ₀ + Δ₁ + Δ₂) (.inr (.inl j)) = 0 := by
    intro i
    apply grad_zero_of_coord_max _ _ _ _ _ hnS hsS
    intro t
    have e : θ₀ + Δ₁ + Δ₂ + t • Pi.single (Sum.inr (Sum.inl i)) 1
        = flat (C := C) (D := D) y1 (fun h u => X1 h u + t * (if (h, u) = i then 1 else 0)) z := by
      rw [t2]; funext j
      rcases j with a | hu | cd <;> simp [flat, Pi.single_apply]
    rw [e, t2, ← obj, ← obj, ← eX1]
    exact x_sweep_ascent M sts y1 z _ (by simp [hH]) hn hs
  have hg3 : ∀ k, bGrad (jA M H) (fun k => (S k.1).n k.2.1) (fun k => (S k.1).f k.2.1 k.2.2 - (S k.1).n k.2.1 * M.m k.2.1 k.2.2)
      (fun _ => 0) (fun k => M.s k.2.1 k.2.2) (θ₀ + Δ₁ + Δ₂ + Δ₃) (.inr (.inr k)) = 0 := by
    intro i
    apply grad_zero_of_coord_max _ _ _ _ _ hnS hsS
    intro t
    have e : θ₀ + Δ₁ + Δ₂ + Δ₃ + t • Pi.single (Sum.inr (Sum.inr i)) 1
        = flat (C := C) (D := D) y1 X1 (fun c d => z1 c d + t * (if (c, d) = i then 1 else 0)) := by
      rw [t3]; funext j
      rcases j with a | hu | cd <;> simp [flat, Pi.single_apply]
    rw [e, t3, ← obj, ← obj, ← eX1]
    exact z_update_ascent M sts y1 _ _ (by simp) hnAcc hs
  have G := gs3_contraction (jA M H) (fun k => (S k.1).n k.2.1) (fun k => (S k.1).f k.2.1 k.2.2 - (S k.1).n k.2.1 * M.m k.2.1 k.2.2)
    (fun _ => 0) (fun k => M.s k.2.1 k.2.2) hnS hsS (flat ym Xm zm) θ₀ Δ₁ Δ₂ Δ₃
    (by intro j; rcases j with hu | cd <;> simp [Δ₁, flat])
    ⟨by intro i; simp [Δ₂, flat], by intro k; simp [Δ₂, flat]⟩
    ⟨by intro i; simp [Δ₃, flat], by intro k; simp [Δ₃, flat]⟩
    hg1 hg2 hg3
  rw [t3, ← obj, ← obj, hθ₀, ← obj, ← eXm, ← eX, ← hsweep] at G
  exact G
#print axioms sweep_contracts

/-- the squared distance to the mode is at most twice the log-posterior gap (`P ⪰ I`) -/
theorem dist_le_logPost_gap (M : Model C D rU rV ℝ) (sts : List (St C D ℝ)) (m : Lat C D rU rV ℝ)
    (hmlen : m.xs.length = sts.length)
    (hn : ∀ st ∈ sts, ∀ c, 0 ≤ st.n c) (hs : ∀ c d, 0 < M.s c d)
    (hmax : ∀ l' : Lat C D rU rV ℝ, l'.xs.length = sts.length → logPost M sts l' ≤ logPost M sts m)
    (l : Lat C D rU rV ℝ) (hlen : l.xs.length = sts.length) :
    latDist2 l m ≤ 2 * (logPost M sts m - logPost M sts l) := by
  set H := sts.length with hH
  let S : Fin H → St C D ℝ := fun h => sts[h.val]
  have eS : sts = List.ofFn S := list_eq_ofFn sts rfl
  have hnS : ∀ k : JRow C D H, 0 ≤ (S k.1).n k.2.1 := fun k => hn _ (List.getElem_mem _) _
  have hsS : ∀ k : JRow C D H, 0 < M.s k.2.1 k.2.2 := fun k => hs _ _
  obtain ⟨y, xs, z⟩ := l
  obtain ⟨ym, xsm, zm⟩ := m
  simp only at hlen hmlen
  let X : Fin H → Fin rU → ℝ := fun h => xs[h.val]'(by omega)
  let Xm : Fin H → Fin rU → ℝ := fun h => xsm[h.val]'(by omega)
  have eX : xs = List.ofFn X := list_eq_ofFn xs hlen
  have eXm : xsm = List.ofFn Xm := list_eq_ofFn xsm hmlen
  have obj : ∀ (v : Fin rV → ℝ) (W : Fin H → Fin rU → ℝ) (w : Fin C → Fin D → ℝ),
      logPost M sts ⟨v, List.ofFn W, w⟩
        = blockObj (jA M H) (fun k => (S k.1).n k.2.1) (fun k => (S k.1).f k.2.1 k.2.2 - (S k.1).n k.2.1 * M.m k.2.1 k.2.2)
            (fun _ => 0) (fun k => M.s k.2.1 k.2.2) (flat v W w) := by
    intro v W w
    conv_lhs => rw [eS]
    exact logPost_joint M S v W w
  have hg : bGrad (jA M H) (fun k => (S k.1).n k.2.1) (fun k => (S k.1).f k.2.1 k.2.2 - (S k.1).n k.2.1 * M.m k.2.1 k.2.2)
      (fun _ => 0) (fun k => M.s k.2.1 k.2.2) (flat ym Xm zm) = 0 := by
    apply grad_zero_of_global_max _ _ _ _ _ hnS hsS
    intro θ'
    have hflat : flat (C := C) (D := D) (fun a => θ' (.inl a)) (fun h u => θ' (.inr (.inl (h, u)))) (fun c d => θ' (.inr (.inr (c, d)))) = θ' := by
      funext j
      rcases j with a | hu | cd <;> simp [flat]
    rw [← hflat, ← obj, ← obj, ← eXm]
    exact hmax _ (by simp [hH])
  have := dist_le_gap (jA M H) (fun k => (S k.1).n k.2.1) (fun k => (S k.1).f k.2.1 k.2.2 - (S k.1).n k.2.1 * M.m k.2.1 k.2.2)
      (fun _ => 0) (fun k => M.s k.2.1 k.2.2) hnS hsS (flat ym Xm zm) (flat y X z) hg
  rw [← obj, ← obj, ← eX, ← eXm] at this
  conv_lhs => rw [eX, eXm]
  rw [latDist2_flat]
  exact this

/-- **enrolment converges to the joint mode, geometrically**: the log-posterior gap and the squared
distance of the latent factors to the mode are bounded by `q^k` times the initial gap, `q < 1` -/
theorem enroll_converges (M : Model C D rU rV ℝ) (sts : List (St C D ℝ))
    (hn : ∀ st ∈ sts, ∀ c, 0 ≤ st.n c) (hs : ∀ c d, 0 < M.s c d) :
    ∃ m : Lat C D rU rV ℝ, m.xs.length = sts.length ∧
      (∀ l' : Lat C D rU rV ℝ, l'.xs.length = sts.length →
        logPost M sts l' ≤ logPost M sts m ∧ (logPost M sts l' = logPost M sts m → l' = m)) ∧
      ∃ q : ℝ, 0 ≤ q ∧ q < 1 ∧ ∀ k,
        logPost M sts m - logPost M sts (enroll M sts k) ≤ q ^ k * (logPost M sts m - logPost M sts (enroll M sts 0)) ∧
        latDist2 (enroll M sts k) m ≤ 2 * (q ^ k * (logPost M sts m - logPost M sts (enroll M sts 0))) := by
  obtain ⟨m, hmlen, hm⟩ := mode_exists M sts hn hs
  obtain ⟨q, hq0, hq1, hq⟩ := sweep_contracts M sts m hmlen hn hs
  refine ⟨m, hmlen, hm, q, hq0, hq1, ?_⟩
  have gap : ∀ k, logPost M sts m - logPost M sts (enroll M sts k)
      ≤ q ^ k * (logPost M sts m - logPost M sts (enroll M sts 0)) := by
    intro k
    induction k with
    | zero => simp
    | succ k ih =>
      have h1 := hq (enroll M sts k) (enroll_xs_length M sts k)
      have h2 := mul_le_mul_of_nonneg_left ih hq0
      calc logPost M sts m - logPost M sts (enroll M sts (k + 1))
          ≤ q * (logPost M sts m - logPost M sts (enroll M sts k)) := h1
        _ ≤ q * (q ^ k * (logPost M sts m - logPost M sts (enroll M sts 0))) := h2
        _ = q ^ (k + 1) * (logPost M sts m - logPost M sts (enroll M sts 0)) := by ring
  intro k
  refine ⟨gap k, ?_⟩
  have := dist_le_logPost_gap M sts m hmlen hn hs (fun l' hl' => (hm l' hl').1) (enroll M sts k) (enroll_xs_length M sts k)
  linarith [gap k]

/-- in the limit: the latent factors tend to the mode -/
theorem enroll_tendsto_mode (M : Model C D rU rV ℝ) (sts : List (St C D ℝ))
    (hn : ∀ st ∈ sts, ∀ c, 0 ≤ st.n c) (hs : ∀ c d, 0 < M.s c d) :
    ∃ m : Lat C D rU rV ℝ, m.xs.length = sts.length ∧
      (∀ l' : Lat C D rU rV ℝ, l'.xs.length = sts.length → logPost M sts l' ≤ logPost M sts m) ∧
      Filter.Tendsto (fun k => latDist2 (enroll M sts k) m) Filter.atTop (nhds 0) ∧
      Filter.Tendsto (fun k => logPost M sts (enroll M sts k)) Filter.atTop (nhds (logPost M sts m)) := by
  obtain ⟨m, hmlen, hm, q, hq0, hq1, hk⟩ := enroll_converges M sts hn hs
  refine ⟨m, hmlen, fun l' hl' => (hm l' hl').1, ?_, ?_⟩
  · have hpow : Filter.Tendsto (fun k : ℕ => 2 * (q ^ k * (logPost M sts m - logPost M sts (enroll M sts 0)))) Filter.atTop (nhds 0) := by
      have := (tendsto_pow_atTop_nhds_zero_of_lt_one hq0 hq1).mul_const (logPost M sts m - logPost M sts (enroll M sts 0))
      have := this.const_mul 2
      simpa using this
    refine tendsto_of_tendsto_of_tendsto_of_le_of_le tendsto_const_nhds hpow (fun k => ?_) (fun k => (hk k).2)
    simp only [latDist2]
    have p1 : 0 ≤ ∑ a, ((enroll M sts k).y a - m.y a) * ((enroll M sts k).y a - m.y a) :=
      Finset.sum_nonneg fun _ _ => mul_self_nonneg _
    have p2 : 0 ≤ (((enroll M sts k).xs.zip m.xs).map fun p => ∑ u, (p.1 u - p.2 u) * (p.1 u - p.2 u)).sum := by
      apply List.sum_nonneg
      intro x hx
      simp only [List.mem_map] at hx
      obtain ⟨p, _, rfl⟩ := hx
      exact Finset.sum_nonneg fun _ _ => mul_self_nonneg _
    have p3 : 0 ≤ ∑ c, ∑ d, ((enroll M sts k).z c d - m.z c d) * ((enroll M sts k).z c d - m.z c d) :=
      Finset.sum_nonneg fun _ _ => Finset.sum_nonneg fun _ _ => mul_self_nonneg _
    linarith
  · have hpow : Filter.Tendsto (fun k : ℕ => q ^ k * (logPost M sts m - logPost M sts (enroll M sts 0))) Filter.atTop (nhds 0) := by
      have := (tendsto_pow_atTop_nhds_zero_of_lt_one hq0 hq1).mul_const (logPost M sts m - logPost M sts (enroll M sts 0))
      simpa using this
    have hgap : Filter.Tendsto (fun k => logPost M sts m - logPost M sts (enroll M sts k)) Filter.atTop (nhds 0) := by
      refine tendsto_of_tendsto_of_tendsto_of_le_of_le tendsto_const_nhds hpow (fun k => ?_) (fun k => (hk k).1)
      have := (hm (enroll M sts k) (enroll_xs_length M sts k)).1
      simp only; linarith
    have := (tendsto_const_nhds (x := logPost M sts m)).sub hgap
    simpa using this
#print axioms enroll_converges
#print axioms enroll_tendsto_mode
