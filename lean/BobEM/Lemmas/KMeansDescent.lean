import BobEM.Lemmas.KMeans
import BobEM.Lemmas.Real
import Mathlib.Tactic

/-! Lemmas for C06 / C20: additivity of the k-means statistics, the weighted-least-squares
decomposition on lists, and Lloyd descent. -/

open Finset BobEM

variable {K D : ℕ}

/-- indicator sums are counts -/
theorem sum_indicator_eq_countP {β : Type} (l : List β) (p : β → Prop) [DecidablePred p] :
    (l.map fun x => if p x then (1 : ℝ) else 0).sum = (l.countP p : ℝ) := by
  induction l with
  | nil => simp
  | cons x l ih =>
    simp only [List.map_cons, List.sum_cons, ih, List.countP_cons]
    by_cases h : p x <;> simp [h]; ring

/-- a sum over a list of a function of the assigned cluster, split by cluster -/
theorem sum_by_cluster {β : Type} (l : List β) (a : β → Fin (K+1)) (g : β → Fin (K+1) → ℝ) :
    (l.map fun x => g x (a x)).sum = ∑ k, (l.map fun x => if a x = k then g x k else 0).sum := by
  induction l with
  | nil => simp
  | cons x l ih =>
    simp only [List.map_cons, List.sum_cons, ih, Finset.sum_add_distrib]
    congr 1
    rw [Finset.sum_ite_eq]; simp

/-- second-order expansion of a weighted sum of squares on a list -/
theorem wsq_expand {β : Type} (l : List β) (w x : β → ℝ) (m : ℝ) :
    (l.map fun b => w b * ((x b - m) * (x b - m))).sum
      = (l.map fun b => w b * (x b * x b)).sum - 2 * m * (l.map fun b => w b * x b).sum
        + m * m * (l.map w).sum := by
  induction l with
  | nil => simp
  | cons b l ih => simp only [List.map_cons, List.sum_cons, ih]; ring

/-- weighted least squares: the weighted mean minimises the weighted sum of squares -/
theorem wsq_mean_le {β : Type} (l : List β) (w x : β → ℝ) (m : ℝ) (hW : 0 < (l.map w).sum) :
    (l.map fun b => w b * ((x b - (l.map fun b => w b * x b).sum / (l.map w).sum)
        * (x b - (l.map fun b => w b * x b).sum / (l.map w).sum))).sum
      ≤ (l.map fun b => w b * ((x b - m) * (x b - m))).sum := by
  rw [wsq_expand, wsq_expand]
  set W := (l.map w).sum
  set S1 := (l.map fun b => w b * x b).sum
  have h : (-2 * (S1 / W) * S1 + S1 / W * (S1 / W) * W) - (-2 * m * S1 + m * m * W)
      = -(W * ((m - S1 / W) * (m - S1 / W))) := by
    field_simp; ring
  have h2 : 0 ≤ W * ((m - S1 / W) * (m - S1 / W)) := mul_nonneg hW.le (mul_self_nonneg _)
  linarith

theorem sqDist_eq {D : ℕ} (x c : Fin D → ℝ) : sqDist x c = ∑ j, (x j - c j) * (x j - c j) := by
  unfold sqDist; rw [sumFin_eq]

theorem sqDist_nonneg {D : ℕ} (x c : Fin D → ℝ) : 0 ≤ sqDist x c := by
  rw [sqDist_eq]; exact Finset.sum_nonneg fun j _ => mul_self_nonneg _

theorem sqDistDask_eq {D : ℕ} (x c : Fin D → ℝ) : sqDistDask x c = sqDist x c := by
  unfold sqDistDask sqDist; congr 1; funext j; ring

/-- the assigned centroid is a nearest one -/
theorem assign_le (cent : Fin (K+1) → Fin D → ℝ) (x : Fin D → ℝ) (k : Fin (K+1)) :
    sqDist x (cent (assign cent x)) ≤ sqDist x (cent k) :=
  argminFin_le K (fun k => sqDist x (cent k)) k

theorem kEStep_append (cent : Fin (K+1) → Fin D → ℝ) (xs ys : List (Fin D → ℝ)) :
    kEStep cent (xs ++ ys) = (kEStep cent xs).add (kEStep cent ys) := by
  unfold kEStep KStats.add
  simp only [lsum_eq, List.map_append, List.sum_append, List.countP_append]

theorem kEStep_nil (cent : Fin (K+1) → Fin D → ℝ) : kEStep cent ([] : List (Fin D → ℝ)) = KStats.zero := by
  simp [kEStep, KStats.zero, lsum_eq]

theorem kEStep_blocks (cent : Fin (K+1) → Fin D → ℝ) (blocks : List (List (Fin D → ℝ))) :
    (blocks.map (kEStep cent)).foldl KStats.add KStats.zero = kEStep cent blocks.flatten := by
  have hz : ∀ s : KStats (K+1) D ℝ, KStats.zero.add s = s := by intro s; simp [KStats.add, KStats.zero]
  have hz' : ∀ s : KStats (K+1) D ℝ, s.add KStats.zero = s := by intro s; simp [KStats.add, KStats.zero]
  have hassoc : ∀ a b c : KStats (K+1) D ℝ, (a.add b).add c = a.add (b.add c) := by
    intro a b c; simp [KStats.add, add_assoc]
  have gen : ∀ (acc : KStats (K+1) D ℝ) (bl : List (List (Fin D → ℝ))),
      (bl.map (kEStep cent)).foldl KStats.add acc = acc.add (kEStep cent bl.flatten) := by
    intro acc bl
    induction bl generalizing acc with
    | nil => simp [kEStep_nil, hz']
    | cons b bl ih =>
      simp only [List.map_cons, List.foldl_cons, List.flatten_cons]
      rw [ih, kEStep_append, hassoc]
  rw [gen, hz]

/-- total within-cluster squared distance for a fixed assignment `a` and centroids `c` -/
noncomputable def wcss (a : (Fin D → ℝ) → Fin (K+1)) (c : Fin (K+1) → Fin D → ℝ) (xs : List (Fin D → ℝ)) : ℝ :=
  (xs.map fun x => sqDist x (c (a x))).sum

theorem wcss_split (a : (Fin D → ℝ) → Fin (K+1)) (c : Fin (K+1) → Fin D → ℝ) (xs : List (Fin D → ℝ)) :
    wcss a c xs = ∑ k, ∑ j, (xs.map fun x => (if a x = k then (1:ℝ) else 0) * ((x j - c k j) * (x j - c k j))).sum := by
  unfold wcss
  rw [sum_by_cluster xs a (fun x k => sqDist x (c k))]
  refine Finset.sum_congr rfl fun k _ => ?_
  have : ∀ x : Fin D → ℝ, (if a x = k then sqDist x (c k) else 0)
      = ∑ j, (if a x = k then (1:ℝ) else 0) * ((x j - c k j) * (x j - c k j)) := by
    intro x; rw [sqDist_eq]; split_ifs <;> simp
  simp only [this]
  induction xs with
  | nil => simp
  | cons x xs ih => simp only [List.map_cons, List.sum_cons, ih, Finset.sum_add_distrib]

/-- the mean step cannot increase the within-cluster sum for the assignment it was computed from
(an empty cluster keeps its centroid and contributes nothing) -/
theorem mean_step_le (cent : Fin (K+1) → Fin D → ℝ) (xs : List (Fin D → ℝ)) :
    wcss (assign cent) (kMStep cent (kEStep cent xs) xs.length).1 xs ≤ wcss (assign cent) cent xs := by
  rw [wcss_split, wcss_split]
  refine Finset.sum_le_sum fun k _ => Finset.sum_le_sum fun j _ => ?_
  simp only [kMStep, kEStep]
  by_cases hk : (xs.countP fun x => assign cent x = k) = 0
  · simp [hk]
  · simp only [hk, if_false, lsum_eq, Transc.ofNat]
    have hW : (xs.map fun x => if assign cent x = k then (1:ℝ) else 0).sum
        = ((xs.countP fun x => assign cent x = k : ℕ) : ℝ) := sum_indicator_eq_countP xs _
    have hS : (xs.map fun x => if assign cent x = k then x j else 0)
        = xs.map fun x => (if assign cent x = k then (1:ℝ) else 0) * x j := by
      apply List.map_congr_left; intro x _; split_ifs <;> simp
    have hpos : 0 < (xs.map fun x => if assign cent x = k then (1:ℝ) else 0).sum := by
      rw [hW]; exact_mod_cast Nat.pos_of_ne_zero hk
    have := wsq_mean_le xs (fun x => if assign cent x = k then (1:ℝ) else 0) (fun x => x j) (cent k j) hpos
    rw [hW] at this
    rw [hS]
    exact this

/-- **Lloyd descent** on the un-normalised distortion -/
theorem lloyd_descent (cent : Fin (K+1) → Fin D → ℝ) (xs : List (Fin D → ℝ)) :
    let cent' := (kMStep cent (kEStep cent xs) xs.length).1
    wcss (assign cent') cent' xs ≤ wcss (assign cent) cent xs := by
  intro cent'
  refine le_trans ?_ (mean_step_le cent xs)
  unfold wcss
  apply List.sum_le_sum
  intro x _
  exact assign_le cent' x (assign cent x)
#print axioms lloyd_descent

/-- `np.argmin` returns the *first* minimiser: every earlier index is strictly worse -/
theorem argminFin_first (K : Nat) (d : Fin (K+1) → ℝ) (k : Fin (K+1)) (hk : k < argminFin K d) :
    d (argminFin K d) < d k := by
  unfold argminFin at hk ⊢
  suffices h : ∀ m (hm : m ≤ K),
      let best := Fin.foldl m (fun best (i : Fin m) =>
            if d ⟨i.val+1, by omega⟩ < d best then ⟨i.val+1, by omega⟩ else best) (0 : Fin (K+1))
      best.val ≤ m ∧ ∀ j : Fin (K+1), j < best → d best < d j by
    exact (h K (le_refl K)).2 k hk
  intro m
  induction m with
  | zero =>
    intro _
    simp only [Fin.foldl_zero]
    exact ⟨le_refl _, fun j hj => absurd hj (by simp [Fin.lt_def])⟩
  | succ m ih =>
    intro hm
    rw [Fin.foldl_succ_last]
    simp only [Fin.val_last, Fin.val_castSucc]
    have ihm := ih (by omega)
    set best := Fin.foldl m (fun best (i : Fin m) =>
            if d ⟨i.val+1, by omega⟩ < d best then ⟨i.val+1, by omega⟩ else best) (0 : Fin (K+1)) with hbest
    have hle : ∀ j : Fin (K+1), j.val ≤ m → d best ≤ d j := by
      intro j hj
      have := argminFin_le_aux m (by omega) d j hj
      exact this
    by_cases hlt : d ⟨m+1, by omega⟩ < d best
    · simp only [hlt, if_true]
      refine ⟨le_refl _, fun j hj => ?_⟩
      have hj' : j.val ≤ m := by simp [Fin.lt_def] at hj; omega
      exact lt_of_lt_of_le hlt (hle j hj')
    · simp only [hlt, if_false]
      exact ⟨by have := ihm.1; omega, ihm.2⟩

/-- variance computed from deviations about any point `c` equals the variance about the mean -/
theorem wsum_shift {β : Type} (l : List β) (w x : β → ℝ) (c : ℝ) :
    (l.map fun b => w b * (x b - c)).sum = (l.map fun b => w b * x b).sum - c * (l.map w).sum := by
  induction l with
  | nil => simp
  | cons b l ih => simp only [List.map_cons, List.sum_cons, ih]; ring

theorem var_shift_invariant {β : Type} (l : List β) (w x : β → ℝ) (c : ℝ) (hW : (l.map w).sum ≠ 0) :
    (l.map fun b => w b * ((x b - c) * (x b - c))).sum / (l.map w).sum
        - ((l.map fun b => w b * (x b - c)).sum / (l.map w).sum) * ((l.map fun b => w b * (x b - c)).sum / (l.map w).sum)
      = (l.map fun b => w b * ((x b - (l.map fun b => w b * x b).sum / (l.map w).sum)
            * (x b - (l.map fun b => w b * x b).sum / (l.map w).sum))).sum / (l.map w).sum := by
  rw [wsq_expand, wsq_expand, wsum_shift]
  field_simp
  ring
