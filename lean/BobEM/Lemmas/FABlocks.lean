import BobEM.Lemmas.FAIdent

/-!
Block updates of ISV / JFA enrolment (helper file for C07)

Model: `BobEM.FA.updateY`, `latentX`, `updateZ`, `sweep`, `enroll`, `logPost`
(`factor_analysis.py: update_y / _compute_fn_y_i / _compute_id_plus_vprod_i, compute_latent_x,
update_z, ISVMachine.enroll, JFAMachine.enroll`).  ISV is the case `rV = 0`.
`updateY` conditions on `m + D z` (repair of D7).
-/

open Matrix Finset BobEM BobEM.FA

variable {C D rU rV : ℕ}

/-- posterior precision of a block with loading `L` and counts `n` -/
noncomputable def faPrecision {r : ℕ} (M : Model C D rU rV ℝ) (L : Fin C → Fin D → Fin r → ℝ) (n : Fin C → ℝ) :
    Matrix (Fin r) (Fin r) ℝ := Matrix.of fun a b => eye r a b + prodN M L n a b

theorem faPrecision_posDef {r : ℕ} (M : Model C D rU rV ℝ) (L : Fin C → Fin D → Fin r → ℝ) (n : Fin C → ℝ)
    (hn : ∀ c, 0 ≤ n c) (hs : ∀ c d, 0 < M.s c d) : (faPrecision M L n).PosDef := by
  have := Pmat_posDef (ι := Unit) (fun _ k => n k.1) (fun k : Fin C × Fin D => M.s k.1 k.2)
    (fun _ k => hn k.1) (fun k => hs k.1 k.2) (rowsOf L) ()
  rwa [← idPlus_eq_Pmat] at this

theorem faPrecision_symm {r : ℕ} (M : Model C D rU rV ℝ) (L : Fin C → Fin D → Fin r → ℝ) (n : Fin C → ℝ)
    (hn : ∀ c, 0 ≤ n c) (hs : ∀ c d, 0 < M.s c d) : (faPrecision M L n)ᵀ = faPrecision M L n := by
  have := (faPrecision_posDef M L n hn hs).isHermitian
  rwa [Matrix.IsHermitian, Matrix.conjTranspose_eq_transpose_of_trivial] at this

/-- the speaker-factor update solves `(I + Vᵀ Σ⁻¹ N V) y = Vᵀ Σ⁻¹ (F − N (m + D z) − Σ_h N_h U x_h)` -/
theorem y_solves_normal_equations (M : Model C D rU rV ℝ) (sts : List (St C D ℝ)) (xs : List (Fin rU → ℝ))
    (z : Fin C → Fin D → ℝ) (hn : ∀ c, 0 ≤ nAcc sts c) (hs : ∀ c d, 0 < M.s c d) :
    faPrecision M M.V (nAcc sts) *ᵥ updateY M sts xs z
      = projT M M.V (fun c d => fAcc sts c d - nAcc sts c * (M.m c d + 1 * (M.Dd c d * z c d)) - uxTerm M sts xs c d) := by
  have hP := faPrecision_posDef M M.V (nAcc sts) hn hs
  have hsym := faPrecision_symm M M.V (nAcc sts) hn hs
  have hy : updateY M sts xs z = (faPrecision M M.V (nAcc sts))⁻¹ *ᵥ
      projT M M.V (fun c d => fAcc sts c d - nAcc sts c * (M.m c d + 1 * (M.Dd c d * z c d)) - uxTerm M sts xs c d) := by
    have hinv : ((faPrecision M M.V (nAcc sts))⁻¹)ᵀ = (faPrecision M M.V (nAcc sts))⁻¹ := by
      rw [Matrix.transpose_nonsing_inv, hsym]
    funext a
    simp only [updateY, updateYG, idPlusInv, LinAlg.inv, BobEM.FA.vecMul, sumFin_eq, Matrix.mulVec, dotProduct]
    have : ∀ b, ((faPrecision M M.V (nAcc sts))⁻¹) b a = ((faPrecision M M.V (nAcc sts))⁻¹) a b := by
      intro b; have := congrFun (congrFun hinv a) b; simpa [Matrix.transpose_apply] using this
    refine Finset.sum_congr rfl fun b _ => ?_
    rw [mul_comm]; congr 1; exact this b
  rw [hy]; exact posDef_mul_inv_mulVec hP _

/-- each channel-factor update solves `(I + Uᵀ Σ⁻¹ N_h U) x = Uᵀ Σ⁻¹ (F_h − N_h (m + D z + V y))` -/
theorem x_solves_normal_equations (M : Model C D rU rV ℝ) (st : St C D ℝ) (y : Fin rV → ℝ)
    (z : Fin C → Fin D → ℝ) (hn : ∀ c, 0 ≤ st.n c) (hs : ∀ c d, 0 < M.s c d) :
    faPrecision M M.U st.n *ᵥ latentX M st y z
      = projT M M.U (fun c d => st.f c d - st.n c * (M.m c d + M.Dd c d * z c d) - st.n c * apply M.V y c d) := by
  have hP := faPrecision_posDef M M.U st.n hn hs
  have hx : latentX M st y z = (faPrecision M M.U st.n)⁻¹ *ᵥ
      projT M M.U (fun c d => st.f c d - st.n c * (M.m c d + M.Dd c d * z c d) - st.n c * apply M.V y c d) := by
    funext a
    simp only [latentX, idPlusInv, LinAlg.inv, BobEM.FA.mulVec, sumFin_eq, Matrix.mulVec, dotProduct, faPrecision]
  rw [hx]; exact posDef_mul_inv_mulVec hP _

/-- the residual-offset update is the solution of the diagonal system
`(1 + D² N / σ) z = (D / σ)(F − N (m + V y) − Σ_h N_h U x_h)` -/
theorem z_closed_form (M : Model C D rU rV ℝ) (sts : List (St C D ℝ)) (xs : List (Fin rU → ℝ))
    (y : Fin rV → ℝ) (c : Fin C) (d : Fin D) (hn : 0 ≤ nAcc sts c) (hs : 0 < M.s c d) :
    (1 + M.Dd c d / M.s c d * M.Dd c d * nAcc sts c) * updateZ M sts xs y c d
      = M.Dd c d / M.s c d * (fAcc sts c d - nAcc sts c * (M.m c d + apply M.V y c d) - uxTerm M sts xs c d) := by
  have hpos : 0 < 1 + M.Dd c d / M.s c d * M.Dd c d * nAcc sts c := by
    have : 0 ≤ M.Dd c d / M.s c d * M.Dd c d * nAcc sts c := by
      have h1 : 0 ≤ M.Dd c d / M.s c d * M.Dd c d := by
        rw [div_mul_eq_mul_div]; exact div_nonneg (mul_self_nonneg _) hs.le
      exact mul_nonneg h1 hn
    linarith
  simp only [updateZ]
  field_simp

/-- the executed (materialised) enrolment computes the specification's iterates -/
theorem enroll_exec_eq_spec (M : Model C D rU rV ℝ) (sts : List (St C D ℝ)) (k : ℕ) :
    (enrollV M sts k).ofV = enroll M sts k := by
  have e1 : ∀ {n : ℕ} (f : Fin n → ℝ) (i : Fin n), (Vector.ofFn f)[i] = f i := by
    intro n f i; simp
  have e2 : ∀ {n m : ℕ} (f : Fin n → Fin m → ℝ) (c : Fin n) (d : Fin m),
      (Vector.ofFn fun c => Vector.ofFn (f c))[c][d] = f c d := by
    intro n m f c d; simp
  induction k with
  | zero =>
    simp only [enrollV, enroll, Lat.toV, LatV.ofV, Lat.zero, List.map_map, Function.comp_def, e1, e2, List.map_replicate]
  | succ k ih =>
    simp only [enrollV, enroll, sweepV, sweep, ← ih]
    simp only [LatV.ofV, List.map_map, Function.comp_def, e1, e2]
