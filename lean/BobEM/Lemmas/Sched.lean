import Mathlib.Data.List.Perm.Basic
import Mathlib.Data.List.Pairwise
import Mathlib.Tactic

/-! Determinacy of task-graph execution: all linear extensions agree when dependency-unordered
tasks commute. -/

variable {ι σ : Type}

/-- run the tasks of `l` in list order on the store -/
def exec (run : ι → σ → σ) (l : List ι) (s : σ) : σ := l.foldl (fun s i => run i s) s

theorem exec_append (run : ι → σ → σ) (l1 l2 : List ι) (s : σ) :
    exec run (l1 ++ l2) s = exec run l2 (exec run l1 s) := by
  unfold exec; rw [List.foldl_append]

theorem commute_through (run : ι → σ → σ) (a : ι) (pre : List ι)
    (h : ∀ p ∈ pre, ∀ s, run a (run p s) = run p (run a s)) (s : σ) :
    run a (exec run pre s) = exec run pre (run a s) := by
  induction pre generalizing s with
  | nil => rfl
  | cons p pre ih =>
    have hp := h p (by simp)
    have := ih (fun q hq => h q (by simp [hq])) (run p s)
    simp only [exec, List.foldl_cons] at this ⊢
    rw [this, hp]

/-- `dep i j`: task i must run before task j (already transitively closed).
A schedule is a list in execution order in which no task runs before one it depends on. -/
theorem linear_extensions_agree (run : ι → σ → σ) (dep : ι → ι → Prop)
    (hcomm : ∀ i j, i ≠ j → ¬ dep i j → ¬ dep j i → ∀ s, run i (run j s) = run j (run i s)) :
    ∀ (l1 l2 : List ι), l1.Perm l2 → l1.Nodup →
      l1.Pairwise (fun a b => ¬ dep b a) → l2.Pairwise (fun a b => ¬ dep b a) →
      ∀ s, exec run l1 s = exec run l2 s := by
  intro l1
  induction l1 with
  | nil => intro l2 hp _ _ _ s; rw [List.nil_perm.mp hp]
  | cons a t1 ih =>
    intro l2 hp hnd h1 h2 s
    have ha : a ∈ l2 := hp.subset (by simp)
    obtain ⟨pre, post, rfl⟩ := List.append_of_mem ha
    have hp' : t1.Perm (pre ++ post) := by
      have := hp.trans List.perm_middle
      exact List.Perm.cons_inv this
    have hnd2 : (pre ++ a :: post).Nodup := hp.nodup_iff.mp hnd
    have hcm : ∀ p ∈ pre, ∀ s, run a (run p s) = run p (run a s) := by
      intro p hpm
      have hne : a ≠ p := by
        intro h; subst h
        have := List.nodup_append.mp hnd2
        exact this.2.2 a hpm a (by simp) rfl
      have hpt : p ∈ t1 := by
        have : p ∈ a :: t1 := hp.symm.subset (by simp [hpm])
        rcases List.mem_cons.mp this with h | h
        · exact absurd h.symm hne
        · exact h
      have h1' : ¬ dep p a := (List.pairwise_cons.mp h1).1 p hpt
      have h2' : ¬ dep a p := by
        have := List.pairwise_append.mp h2
        exact this.2.2 p hpm a (by simp)
      exact hcomm a p hne h2' h1'
    have e2 : exec run (pre ++ a :: post) s = exec run (pre ++ post) (run a s) := by
      rw [exec_append, exec_append]
      show exec run post (run a (exec run pre s)) = _
      rw [commute_through run a pre hcm]
    rw [e2]
    show exec run t1 (run a s) = _
    apply ih (pre ++ post) hp' (List.nodup_cons.mp hnd).2 (List.pairwise_cons.mp h1).2
    have := List.pairwise_append.mp h2
    refine List.pairwise_append.mpr ⟨this.1, (List.pairwise_cons.mp this.2.1).2, ?_⟩
    intro x hx y hy
    exact this.2.2 x hx y (by simp [hy])
#print axioms linear_extensions_agree

/-! Bernstein's conditions: a task reads `reads`, overwrites `writes` with values that depend only
on what it reads. -/
section Bernstein
variable {Loc Val : Type}

structure RWTask (Loc Val : Type) where
  reads : Set Loc
  writes : Set Loc
  f : (Loc → Val) → Loc → Val
  frame : ∀ s s' : Loc → Val, (∀ l ∈ reads, s l = s' l) → ∀ l ∈ writes, f s l = f s' l

open Classical in
noncomputable def RWTask.run (t : RWTask Loc Val) (s : Loc → Val) : Loc → Val :=
  fun l => if l ∈ t.writes then t.f s l else s l

theorem RWTask.run_of_not_mem (t : RWTask Loc Val) (s : Loc → Val) {l : Loc} (h : l ∉ t.writes) :
    t.run s l = s l := by simp [RWTask.run, h]

theorem bernstein_commute (t u : RWTask Loc Val)
    (hww : Disjoint t.writes u.writes) (htr : Disjoint t.writes u.reads)
    (hur : Disjoint u.writes t.reads) (s : Loc → Val) :
    t.run (u.run s) = u.run (t.run s) := by
  funext l
  have hu_same : ∀ l ∈ t.reads, u.run s l = s l := fun l hl =>
    u.run_of_not_mem s (fun h => (Set.disjoint_left.mp hur) h hl)
  have ht_same : ∀ l ∈ u.reads, t.run s l = s l := fun l hl =>
    t.run_of_not_mem s (fun h => (Set.disjoint_left.mp htr) h hl)
  by_cases ht : l ∈ t.writes
  · have hnu : l ∉ u.writes := fun h => (Set.disjoint_left.mp hww) ht h
    rw [u.run_of_not_mem _ hnu]
    simp only [RWTask.run, ht, if_true]
    exact t.frame _ _ hu_same l ht
  · rw [t.run_of_not_mem _ ht]
    by_cases hu : l ∈ u.writes
    · simp only [RWTask.run, hu, if_true]
      exact (u.frame _ _ ht_same l hu).symm
    · rw [u.run_of_not_mem _ hu, u.run_of_not_mem _ hu, t.run_of_not_mem _ ht]
end Bernstein
#print axioms bernstein_commute
