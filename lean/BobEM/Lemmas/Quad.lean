import Mathlib.Analysis.Matrix.Order
import Mathlib.Analysis.Matrix.PosDef
import Mathlib.LinearAlgebra.Matrix.NonsingularInverse
import Mathlib.Analysis.SpecialFunctions.Log.Basic
import Mathlib.Tactic

open Matrix Finset

variable {ρ : Type} [Fintype ρ] [DecidableEq ρ]

theorem posDef_mul_inv_mulVec {P : Matrix ρ ρ ℝ} (hP : P.PosDef) (b : ρ → ℝ) :
    P *ᵥ (P⁻¹ *ᵥ b) = b := by
  have hu : IsUnit P.det := (Matrix.isUnit_iff_isUnit_det P).mp hP.isUnit
  rw [Matrix.mulVec_mulVec, Matrix.mul_nonsing_inv P hu, Matrix.one_mulVec]

theorem symm_dot {P : Matrix ρ ρ ℝ} (hP : P.PosDef) (x y : ρ → ℝ) :
    x ⬝ᵥ (P *ᵥ y) = (P *ᵥ x) ⬝ᵥ y := by
  have hs : Pᵀ = P := by
    have := hP.isHermitian
    rw [Matrix.IsHermitian, Matrix.conjTranspose_eq_transpose_of_trivial] at this
    exact this
  rw [Matrix.dotProduct_mulVec, ← Matrix.mulVec_transpose, hs]

/-- a concave quadratic is maximised where its gradient vanishes -/
theorem quad_max {P : Matrix ρ ρ ℝ} (hP : P.PosDef) (b y : ρ → ℝ) :
    b ⬝ᵥ y - (1/2) * (y ⬝ᵥ (P *ᵥ y)) ≤ (1/2) * (b ⬝ᵥ (P⁻¹ *ᵥ b)) := by
  set z := P⁻¹ *ᵥ b with hz
  have hPz : P *ᵥ z = b := posDef_mul_inv_mulVec hP b
  have hnn : 0 ≤ (y - z) ⬝ᵥ (P *ᵥ (y - z)) := by
    have := hP.posSemidef.dotProduct_mulVec_nonneg (y - z)
    simpa using this
  rw [Matrix.mulVec_sub, dotProduct_sub, sub_dotProduct, sub_dotProduct, hPz] at hnn
  have h1 : z ⬝ᵥ (P *ᵥ y) = b ⬝ᵥ y := by rw [symm_dot hP, hPz]
  have h2 : y ⬝ᵥ b = b ⬝ᵥ y := dotProduct_comm _ _
  have h3 : z ⬝ᵥ b = b ⬝ᵥ z := dotProduct_comm _ _
  rw [h1, h2, h3] at hnn
  linarith

theorem quad_max_eq {P : Matrix ρ ρ ℝ} (hP : P.PosDef) (b : ρ → ℝ) :
    b ⬝ᵥ (P⁻¹ *ᵥ b) - (1/2) * ((P⁻¹ *ᵥ b) ⬝ᵥ (P *ᵥ (P⁻¹ *ᵥ b))) = (1/2) * (b ⬝ᵥ (P⁻¹ *ᵥ b)) := by
  rw [posDef_mul_inv_mulVec hP, dotProduct_comm (P⁻¹ *ᵥ b) b]; ring
