import BobEM.Model.KMeans
import Mathlib.Algebra.Order.Field.Basic
import Mathlib.Data.Real.Basic
import Mathlib.Tactic
open BobEM

/-- the fold invariant: the running best is ≤ every element seen so far -/
theorem argminFin_le_aux {K : Nat} : ∀ m (hm : m ≤ K) (d : Fin (K+1) → ℝ),
      ∀ j : Fin (K+1), j.val ≤ m →
        d (Fin.foldl m (fun best (i : Fin m) =>
            if d ⟨i.val+1, by omega⟩ < d best then ⟨i.val+1, by omega⟩ else best) 0) ≤ d j := by
  intro m hm d
  revert hm
  induction m with
  | zero =>
    intro _ j hj
    have : j = 0 := Fin.ext (by simpa using hj)
    simp [Fin.foldl_zero, this]
  | succ m ih =>
    intro hm j hj
    rw [Fin.foldl_succ_last]
    simp only [Fin.val_last, Fin.val_castSucc]
    set best := Fin.foldl m (fun best (i : Fin m) =>
            if d ⟨i.val+1, by omega⟩ < d best then ⟨i.val+1, by omega⟩ else best) 0 with hbest
    have ihm := ih (by omega)
    by_cases hlt : d ⟨m+1, by omega⟩ < d best
    · simp only [hlt, if_true]
      rcases Nat.lt_or_ge j.val (m+1) with h | h
      · exact le_trans hlt.le (ihm j (by omega))
      · have : j = ⟨m+1, by omega⟩ := Fin.ext (by simp; omega)
        rw [this]
    · simp only [hlt, if_false]
      rcases Nat.lt_or_ge j.val (m+1) with h | h
      · exact ihm j (by omega)
      · have : j = ⟨m+1, by omega⟩ := Fin.ext (by simp; omega)
        rw [this]; exact not_lt.mp hlt

theorem argminFin_le (K : Nat) (d : Fin (K+1) → ℝ) (k : Fin (K+1)) :
    d (argminFin K d) ≤ d k := by
  unfold argminFin
  exact argminFin_le_aux K (le_refl K) d k (by omega)
#print axioms argminFin_le
