import BobEM.Model.Gmm
import Mathlib.Analysis.SpecialFunctions.Log.Basic
import Mathlib.Algebra.BigOperators.Fin
import Mathlib.Tactic

noncomputable instance : Transc ℝ := ⟨Real.exp, Real.log, Real.sqrt, Real.pi, fun n => (n : ℝ), fun x => decide (x = 0)⟩

open Finset BobEM

theorem sumFin_eq (n : Nat) (f : Fin n → ℝ) : sumFin n f = ∑ i, f i := by
  unfold sumFin
  induction n with
  | zero => simp [Fin.foldl_zero]
  | succ k ih => rw [Fin.foldl_succ_last, Fin.sum_univ_castSucc, ← ih]

theorem lsum_eq (l : List ℝ) : lsum l = l.sum := by
  unfold lsum
  rw [List.sum_eq_foldl]

theorem absv_eq (a : ℝ) : absv a = |a| := by
  unfold absv; split_ifs with h
  · exact (abs_of_neg h).symm
  · exact (abs_of_nonneg (not_lt.mp h)).symm

theorem logaddexp_eq (a b : ℝ) : logaddexp a b = Real.log (Real.exp a + Real.exp b) := by
  unfold logaddexp
  simp only [Transc.exp, Transc.log, absv_eq]
  rcases le_total a b with h | h
  · rw [max_eq_right h, abs_of_nonpos (sub_nonpos.mpr h)]
    have : Real.exp a + Real.exp b = Real.exp b * (1 + Real.exp (-(-(a - b)))) := by
      rw [mul_add, mul_one, ← Real.exp_add]; ring_nf
    rw [this, Real.log_mul (Real.exp_pos _).ne' (by positivity), Real.log_exp]
  · rw [max_eq_left h, abs_of_nonneg (sub_nonneg.mpr h)]
    have : Real.exp a + Real.exp b = Real.exp a * (1 + Real.exp (-(a - b))) := by
      rw [mul_add, mul_one, ← Real.exp_add]; ring_nf
    rw [this, Real.log_mul (Real.exp_pos _).ne' (by positivity), Real.log_exp]

theorem logaddexpReduce_eq (C : Nat) (a : Fin (C+1) → ℝ) :
    logaddexpReduce C a = Real.log (∑ c, Real.exp (a c)) := by
  unfold logaddexpReduce
  induction C with
  | zero => simp [Fin.foldl_zero]
  | succ k ih =>
    rw [Fin.foldl_succ_last]
    have := ih (fun i => a i.castSucc)
    simp only [Fin.succ_castSucc] at this ⊢
    rw [show (a 0) = a (Fin.castSucc 0) from rfl, this, logaddexp_eq, Real.exp_log, Fin.sum_univ_castSucc (n := k+1)]
    · rfl
    · exact Finset.sum_pos (fun c _ => Real.exp_pos _) Finset.univ_nonempty
