import BobEM.Model.Tree
import Mathlib.Algebra.BigOperators.Group.List.Basic
import Mathlib.Tactic

open BobEM
variable {M : Type} [AddCommMonoid M]

theorem sum_zipWith_add : ∀ (a b : List M), a.length ≤ b.length →
    (List.zipWith (· + ·) a b).sum = a.sum + (b.take a.length).sum
  | [], b, _ => by simp
  | x :: a, [], h => by simp at h
  | x :: a, y :: b, h => by
    simp only [List.zipWith_cons_cons, List.sum_cons, List.length_cons, List.take_succ_cons]
    rw [sum_zipWith_add a b (by simpa using h)]
    abel

theorem treeLevel_sum (l : List M) : (treeLevel (· + ·) l).sum = l.sum := by
  unfold treeLevel
  simp only [List.sum_append]
  have hlen : (l.take (l.length / 2)).length = l.length / 2 := by
    rw [List.length_take]; omega
  rw [sum_zipWith_add _ _ (by rw [hlen, List.length_drop]; omega), hlen]
  conv_rhs => rw [← List.take_append_drop (l.length / 2) l,
    ← List.take_append_drop (l.length / 2) (l.drop (l.length / 2))]
  simp only [List.sum_append, List.drop_drop]
  rw [show l.length / 2 + l.length / 2 = 2 * (l.length / 2) by ring]
  abel

theorem treeLevel_length (l : List M) : (treeLevel (· + ·) l).length = (l.length + 1) / 2 := by
  unfold treeLevel
  simp only [List.length_append, List.length_zipWith, List.length_take, List.length_drop]
  omega

/-- every element enters the reduction exactly once: the result is the singleton of the total -/
theorem treeReduce_eq_sum : ∀ (fuel : Nat) (l : List M), l ≠ [] → l.length ≤ fuel + 1 →
    treeReduce (· + ·) fuel l = [l.sum]
  | 0, l, hne, hl => by
    have : l.length = 1 := by
      have := List.length_pos_of_ne_nil hne; omega
    obtain ⟨x, rfl⟩ := List.length_eq_one_iff.mp this
    simp [treeReduce]
  | fuel+1, l, hne, hl => by
    unfold treeReduce
    split_ifs with h
    · have hne' : treeLevel (· + ·) l ≠ [] := by
        intro h0; have := treeLevel_length l; rw [h0] at this; simp at this; omega
      rw [treeReduce_eq_sum fuel _ hne' (by rw [treeLevel_length]; omega), treeLevel_sum]
    · have : l.length = 1 := by
        have := List.length_pos_of_ne_nil hne; omega
      obtain ⟨x, rfl⟩ := List.length_eq_one_iff.mp this
      simp
#print axioms treeReduce_eq_sum

/-- a fixed number of levels: what is left is `⌈n / 2^levels⌉` partial sums whose total is the total -/
theorem treeReduce_levels : ∀ (fuel : Nat) (l : List M), l ≠ [] →
    (treeReduce (· + ·) fuel l).length = (l.length + 2 ^ fuel - 1) / 2 ^ fuel ∧ (treeReduce (· + ·) fuel l).sum = l.sum
  | 0, l, _ => by simp [treeReduce]
  | fuel+1, l, hne => by
    have hpos := List.length_pos_of_ne_nil hne
    have ha : 0 < 2 ^ fuel := Nat.pos_of_ne_zero (by positivity)
    unfold treeReduce
    split_ifs with h
    · have hne' : treeLevel (· + ·) l ≠ [] := by
        intro h0; have := treeLevel_length l; rw [h0] at this; simp at this; omega
      obtain ⟨h1, h2⟩ := treeReduce_levels fuel _ hne'
      refine ⟨?_, by rw [h2, treeLevel_sum]⟩
      rw [h1, treeLevel_length, pow_succ]
      have : (l.length + 1) / 2 + 2 ^ fuel - 1 = (l.length + 2 ^ fuel * 2 - 1) / 2 := by omega
      rw [this, Nat.div_div_eq_div_mul, Nat.mul_comm 2 (2 ^ fuel)]
    · have h1 : l.length = 1 := by omega
      refine ⟨?_, rfl⟩
      rw [h1]
      have : 1 + 2 ^ (fuel + 1) - 1 = 2 ^ (fuel + 1) := by omega
      rw [this, Nat.div_self (Nat.pos_of_ne_zero (by positivity))]

/-- the reduction ends with a single total exactly when there are enough levels: `n ≤ 2^levels` -/
theorem treeReduce_single_iff (fuel : Nat) (l : List M) (hne : l ≠ []) :
    (treeReduce (· + ·) fuel l).length = 1 ↔ l.length ≤ 2 ^ fuel := by
  rw [(treeReduce_levels fuel l hne).1]
  have hpos := List.length_pos_of_ne_nil hne
  have ha : 0 < 2 ^ fuel := Nat.pos_of_ne_zero (by positivity)
  constructor
  · intro h
    by_contra hc
    push_neg at hc
    have : 2 ≤ (l.length + 2 ^ fuel - 1) / 2 ^ fuel := by
      rw [Nat.le_div_iff_mul_le ha]; omega
    omega
  · intro h
    apply Nat.div_eq_of_lt_le
    · omega
    · omega
