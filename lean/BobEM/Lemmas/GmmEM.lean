import BobEM.Lemmas.Real

open Finset BobEM

variable {C D : ℕ}

/-- EM lower bound (from the first probe), Fintype version -/
theorem em_lower_bound {κ : Type} [Fintype κ] [Nonempty κ] (a b : κ → ℝ) :
    ∑ c, Real.exp (a c - Real.log (∑ c, Real.exp (a c))) * (b c - a c)
      ≤ Real.log (∑ c, Real.exp (b c)) - Real.log (∑ c, Real.exp (a c)) := by
  set la := Real.log (∑ c, Real.exp (a c)) with hla
  have hA : 0 < ∑ c, Real.exp (a c) := Finset.sum_pos (fun c _ => Real.exp_pos _) Finset.univ_nonempty
  have hB : 0 < ∑ c, Real.exp (b c) := Finset.sum_pos (fun c _ => Real.exp_pos _) Finset.univ_nonempty
  set r : κ → ℝ := fun c => Real.exp (a c - la) with hr
  have hrsum : ∑ c, r c = 1 := by
    simp only [hr, Real.exp_sub, ← Finset.sum_div]
    rw [hla, Real.exp_log hA]; exact div_self hA.ne'
  set Dm := ∑ c, r c * (b c - a c) with hD
  have key : 1 ≤ ∑ c, r c * Real.exp ((b c - a c) - Dm) := by
    calc (1:ℝ) = ∑ c, r c * ((b c - a c) - Dm + 1) := by
          have : ∀ c, r c * ((b c - a c) - Dm + 1) = r c * (b c - a c) - Dm * r c + r c := by intro c; ring
          simp only [this, Finset.sum_add_distrib, Finset.sum_sub_distrib, ← Finset.mul_sum, hrsum, ← hD]; ring
      _ ≤ ∑ c, r c * Real.exp ((b c - a c) - Dm) := by
          apply Finset.sum_le_sum; intro c _
          exact mul_le_mul_of_nonneg_left (Real.add_one_le_exp _) (Real.exp_pos _).le
  have eq2 : ∑ c, r c * Real.exp ((b c - a c) - Dm) = (∑ c, Real.exp (b c)) / (∑ c, Real.exp (a c)) * Real.exp (-Dm) := by
    have : ∀ c, r c * Real.exp ((b c - a c) - Dm) = Real.exp (b c) * (Real.exp (-la) * Real.exp (-Dm)) := by
      intro c; simp only [hr, ← Real.exp_add]; congr 1; ring
    simp only [this, ← Finset.sum_mul]
    rw [Real.exp_neg la, hla, Real.exp_log hA]; ring
  rw [eq2] at key
  have : Real.exp Dm ≤ (∑ c, Real.exp (b c)) / (∑ c, Real.exp (a c)) := by
    have h := mul_le_mul_of_nonneg_right key (Real.exp_pos Dm).le
    rw [one_mul, mul_assoc, ← Real.exp_add] at h; simpa using h
  have h3 := Real.log_le_log (Real.exp_pos _) this
  rw [Real.log_exp, Real.log_div hB.ne' hA.ne'] at h3
  exact h3

/-- responsibility of component c for sample x -/
noncomputable def resp (p : Params (C+1) D ℝ) (x : Fin D → ℝ) (c : Fin (C+1)) : ℝ :=
  Real.exp (lwl p x c - logLik p x)

theorem logLik_eq (p : Params (C+1) D ℝ) (x : Fin D → ℝ) :
    logLik p x = Real.log (∑ c, Real.exp (lwl p x c)) := logaddexpReduce_eq C _

/-- per-sample EM bound for the GMM model -/
theorem gmm_sample_bound (p p' : Params (C+1) D ℝ) (x : Fin D → ℝ) :
    ∑ c, resp p x c * (lwl p' x c - lwl p x c) ≤ logLik p' x - logLik p x := by
  unfold resp
  rw [logLik_eq p, logLik_eq p']
  exact em_lower_bound (lwl p x) (lwl p' x)

theorem resp_sum_one (p : Params (C+1) D ℝ) (x : Fin D → ℝ) : ∑ c, resp p x c = 1 := by
  unfold resp; rw [logLik_eq]
  have hA : 0 < ∑ c, Real.exp (lwl p x c) := Finset.sum_pos (fun c _ => Real.exp_pos _) Finset.univ_nonempty
  simp only [Real.exp_sub, ← Finset.sum_div, Real.exp_log hA]
  exact div_self hA.ne'

theorem resp_pos (p : Params (C+1) D ℝ) (x : Fin D → ℝ) (c) : 0 < resp p x c := Real.exp_pos _

section Q
variable {ι : Type} [Fintype ι]

noncomputable def Nst (p : Params (C+1) D ℝ) (X : ι → Fin D → ℝ) (c : Fin (C+1)) : ℝ :=
  ∑ i, resp p (X i) c
noncomputable def Fst (p : Params (C+1) D ℝ) (X : ι → Fin D → ℝ) (c : Fin (C+1)) (d : Fin D) : ℝ :=
  ∑ i, resp p (X i) c * X i d
noncomputable def Sst (p : Params (C+1) D ℝ) (X : ι → Fin D → ℝ) (c : Fin (C+1)) (d : Fin D) : ℝ :=
  ∑ i, resp p (X i) c * X i d * X i d
/-- responsibility-weighted sum of squared deviations from `m` -/
noncomputable def Sq (p : Params (C+1) D ℝ) (X : ι → Fin D → ℝ) (c : Fin (C+1)) (d : Fin D) (m : ℝ) : ℝ :=
  Sst p X c d - 2 * m * Fst p X c d + m * m * Nst p X c

theorem Sq_eq (p : Params (C+1) D ℝ) (X : ι → Fin D → ℝ) (c d m) :
    Sq p X c d m = ∑ i, resp p (X i) c * ((X i d - m) * (X i d - m)) := by
  unfold Sq Sst Fst Nst
  rw [Finset.mul_sum, Finset.mul_sum, ← Finset.sum_sub_distrib, ← Finset.sum_add_distrib]
  exact Finset.sum_congr rfl fun i _ => by ring

theorem lwl_diff (p p' : Params (C+1) D ℝ) (x : Fin D → ℝ) (c : Fin (C+1)) :
    lwl p' x c - lwl p x c =
      (Real.log (p'.weights c) - Real.log (p.weights c)) +
      ∑ d, (-(1/2 : ℝ)) * ((Real.log (p'.variances c d) - Real.log (p.variances c d)) +
        ((x d - p'.means c d) * (x d - p'.means c d) / p'.variances c d
          - (x d - p.means c d) * (x d - p.means c d) / p.variances c d)) := by
  unfold lwl gNorm
  simp only [sumFin_eq, Transc.log]
  rw [← Finset.mul_sum, Finset.sum_add_distrib, Finset.sum_sub_distrib, Finset.sum_sub_distrib]
  ring

theorem Q_expand (p p' : Params (C+1) D ℝ) (X : ι → Fin D → ℝ) :
    ∑ i, ∑ c, resp p (X i) c * (lwl p' (X i) c - lwl p (X i) c) =
    ∑ c, (Nst p X c * (Real.log (p'.weights c) - Real.log (p.weights c))
      + ∑ d, (-(1/2 : ℝ)) * (Nst p X c * (Real.log (p'.variances c d) - Real.log (p.variances c d))
          + (Sq p X c d (p'.means c d) / p'.variances c d - Sq p X c d (p.means c d) / p.variances c d))) := by
  rw [Finset.sum_comm]
  refine Finset.sum_congr rfl fun c _ => ?_
  have h1 : ∀ i, resp p (X i) c * (lwl p' (X i) c - lwl p (X i) c) =
      resp p (X i) c * (Real.log (p'.weights c) - Real.log (p.weights c)) +
      ∑ d, resp p (X i) c * ((-(1/2 : ℝ)) * ((Real.log (p'.variances c d) - Real.log (p.variances c d)) +
        ((X i d - p'.means c d) * (X i d - p'.means c d) / p'.variances c d
          - (X i d - p.means c d) * (X i d - p.means c d) / p.variances c d))) := by
    intro i; rw [lwl_diff, mul_add, Finset.mul_sum]
  simp only [h1, Finset.sum_add_distrib]
  congr 1
  · unfold Nst; rw [Finset.sum_mul]
  · rw [Finset.sum_comm (s := Finset.univ) (t := Finset.univ)]
    refine Finset.sum_congr rfl fun d _ => ?_
    rw [Sq_eq, Sq_eq, Finset.sum_div, Finset.sum_div]
    unfold Nst
    rw [Finset.sum_mul, ← Finset.sum_sub_distrib, ← Finset.sum_add_distrib, Finset.mul_sum]
    exact Finset.sum_congr rfl fun i _ => by ring

end Q

section MStep
variable {ι : Type} [Fintype ι] [Nonempty ι]

theorem Nst_pos (p : Params (C+1) D ℝ) (X : ι → Fin D → ℝ) (c) : 0 < Nst p X c :=
  Finset.sum_pos (fun i _ => resp_pos p (X i) c) Finset.univ_nonempty

theorem Nst_sum (p : Params (C+1) D ℝ) (X : ι → Fin D → ℝ) :
    ∑ c, Nst p X c = Fintype.card ι := by
  unfold Nst; rw [Finset.sum_comm]; simp [resp_sum_one]

/-- weighted least squares decomposition -/
theorem Sq_decomp (p : Params (C+1) D ℝ) (X : ι → Fin D → ℝ) (c d) (m : ℝ) :
    Sq p X c d m = Sq p X c d (Fst p X c d / Nst p X c)
      + Nst p X c * ((Fst p X c d / Nst p X c - m) * (Fst p X c d / Nst p X c - m)) := by
  have hN := (Nst_pos p X c).ne'
  unfold Sq; field_simp; ring

theorem Sq_mean_le (p : Params (C+1) D ℝ) (X : ι → Fin D → ℝ) (c d) (m : ℝ) :
    Sq p X c d (Fst p X c d / Nst p X c) ≤ Sq p X c d m := by
  rw [Sq_decomp p X c d m]
  have := mul_nonneg (Nst_pos p X c).le (mul_self_nonneg (Fst p X c d / Nst p X c - m))
  linarith

/-- Gibbs: the ML weights maximise Σ N_c log w_c over sub-probability weights -/
theorem weights_gain (p : Params (C+1) D ℝ) (X : ι → Fin D → ℝ)
    (hw : ∀ c, 0 < p.weights c) (hsum : ∑ c, p.weights c ≤ 1) :
    0 ≤ ∑ c, Nst p X c * (Real.log (Nst p X c / Fintype.card ι) - Real.log (p.weights c)) := by
  have hT : (0:ℝ) < Fintype.card ι := by exact_mod_cast Fintype.card_pos
  have key : ∀ c, Nst p X c * (Real.log (p.weights c) - Real.log (Nst p X c / Fintype.card ι))
      ≤ Fintype.card ι * p.weights c - Nst p X c := by
    intro c
    have hN := Nst_pos p X c
    have hq : 0 < Nst p X c / Fintype.card ι := div_pos hN hT
    have h := Real.log_le_sub_one_of_pos (div_pos (hw c) hq)
    rw [Real.log_div (hw c).ne' hq.ne'] at h
    have h2 := mul_le_mul_of_nonneg_left h hN.le
    have : Nst p X c * (p.weights c / (Nst p X c / Fintype.card ι) - 1)
        = Fintype.card ι * p.weights c - Nst p X c := by field_simp
    linarith
  have hs := Finset.sum_le_sum (fun c (_ : c ∈ Finset.univ) => key c)
  rw [Finset.sum_sub_distrib, ← Finset.mul_sum, Nst_sum] at hs
  have : ∑ c, Nst p X c * (Real.log (Nst p X c / Fintype.card ι) - Real.log (p.weights c))
      = - ∑ c, Nst p X c * (Real.log (p.weights c) - Real.log (Nst p X c / Fintype.card ι)) := by
    rw [← Finset.sum_neg_distrib]; exact Finset.sum_congr rfl fun c _ => by ring
  rw [this]
  have : (Fintype.card ι : ℝ) * ∑ c, p.weights c ≤ Fintype.card ι := by nlinarith
  linarith

/-- Gaussian part: per (c,d) gain is non-negative when v' = Sq(μ')/N (variances updated)
    and Sq(μ') ≤ Sq(μ) -/
theorem gauss_gain_var {N v v' sq sq' : ℝ} (hN : 0 < N) (hv : 0 < v) (hv' : 0 < v')
    (hsq' : sq' = N * v') (hle : sq' ≤ sq) :
    0 ≤ (-(1/2 : ℝ)) * (N * (Real.log v' - Real.log v) + (sq' / v' - sq / v)) := by
  have h1 : sq' / v' = N := by rw [hsq']; field_simp
  have h2 : N * (v' / v) ≤ sq / v := by
    rw [mul_div_assoc', ← hsq']
    exact div_le_div_of_nonneg_right hle hv.le
  have h3 := Real.log_le_sub_one_of_pos (div_pos hv' hv)
  rw [Real.log_div hv'.ne' hv.ne'] at h3
  have h4 := mul_le_mul_of_nonneg_left h3 hN.le
  rw [h1]; nlinarith

theorem gauss_gain_novar {N v sq sq' : ℝ} (hv : 0 < v) (hle : sq' ≤ sq) :
    0 ≤ (-(1/2 : ℝ)) * (N * (Real.log v - Real.log v) + (sq' / v - sq / v)) := by
  have : sq' / v ≤ sq / v := div_le_div_of_nonneg_right hle hv.le
  simp only [sub_self, mul_zero, zero_add]; linarith

end MStep

section Main
variable {ι : Type} [Fintype ι] [Nonempty ι]

noncomputable def stOf (p : Params (C+1) D ℝ) (X : ι → Fin D → ℝ) : Stats (C+1) D ℝ :=
  { n := Nst p X, sumPx := Fst p X, sumPxx := Sst p X, ll := ∑ i, logLik p (X i), t := Fintype.card ι }

theorem ml_em_monotone_fin (cfg : MlCfg (C+1) D ℝ) (p : Params (C+1) D ℝ) (X : ι → Fin D → ℝ)
    (hw : ∀ c, 0 < p.weights c) (hsum : ∑ c, p.weights c ≤ 1) (hv : ∀ c d, 0 < p.variances c d)
    (hcount : ∀ c, cfg.countThr ≤ Nst p X c)
    (hfl : cfg.updVars = true → ∀ c d, cfg.varFloor c d ≤ mlRawVar cfg p (stOf p X) c d)
    (hfl0 : cfg.updVars = true → ∀ c d, 0 < mlRawVar cfg p (stOf p X) c d) :
    ∑ i, logLik p (X i) ≤ ∑ i, logLik (mlMStep cfg p (stOf p X) (Fintype.card ι)) (X i) := by
  set p' := mlMStep cfg p (stOf p X) (Fintype.card ι) with hp'
  have hb : ∑ i, ∑ c, resp p (X i) c * (lwl p' (X i) c - lwl p (X i) c)
      ≤ ∑ i, (logLik p' (X i) - logLik p (X i)) :=
    Finset.sum_le_sum fun i _ => gmm_sample_bound p p' (X i)
  rw [Q_expand, Finset.sum_sub_distrib] at hb
  suffices h : 0 ≤ ∑ c, (Nst p X c * (Real.log (p'.weights c) - Real.log (p.weights c))
      + ∑ d, (-(1/2 : ℝ)) * (Nst p X c * (Real.log (p'.variances c d) - Real.log (p.variances c d))
          + (Sq p X c d (p'.means c d) / p'.variances c d - Sq p X c d (p.means c d) / p.variances c d))) by
    linarith
  have htn : ∀ c, max (Nst p X c) cfg.countThr = Nst p X c := fun c => max_eq_left (hcount c)
  -- means
  have hmeans : ∀ c d, Sq p X c d (p'.means c d) ≤ Sq p X c d (p.means c d) := by
    intro c d
    simp only [hp', mlMStep, mlMeans, stOf]
    split_ifs
    · simp only [htn, if_neg (not_lt.mpr (hcount c))]; exact Sq_mean_le p X c d _
    · exact le_refl _
  rw [Finset.sum_add_distrib]
  apply add_nonneg
  · -- weights
    by_cases huw : cfg.updWeights = true
    · have : ∀ c, p'.weights c = Nst p X c / Fintype.card ι := by
        intro c; simp only [hp', mlMStep, huw, if_true, stOf, htn]
      simp only [this]; exact weights_gain p X hw hsum
    · have : p'.weights = p.weights := by simp only [hp', mlMStep, huw]; rfl
      simp [this]
  · apply Finset.sum_nonneg; intro c _; apply Finset.sum_nonneg; intro d _
    by_cases huv : cfg.updVars = true
    · have hraw : p'.variances c d = mlRawVar cfg p (stOf p X) c d := by
        simp only [hp', mlMStep, huv, if_true]
        have hc : ¬ (stOf p X).n c < cfg.countThr := not_lt.mpr (hcount c)
        rw [if_neg hc]; exact max_eq_right (hfl huv c d)
      have hpos := hfl0 huv c d
      have hsq : Sq p X c d (p'.means c d) = Nst p X c * mlRawVar cfg p (stOf p X) c d := by
        have hN := (Nst_pos p X c).ne'
        have hm : p'.means c d = mlMeans cfg p (stOf p X) c d := by simp only [hp', mlMStep]
        rw [hm]; unfold mlRawVar Sq
        simp only [stOf, htn]; field_simp; ring
      rw [hraw]
      exact gauss_gain_var (Nst_pos p X c) (hv c d) hpos hsq (hmeans c d)
    · have : p'.variances = p.variances := by simp only [hp', mlMStep, huv]; rfl
      rw [this]
      exact gauss_gain_novar (hv c d) (hmeans c d)

end Main
#print axioms ml_em_monotone_fin

section Lists

theorem eStep_eq_stOf (p : Params (C+1) D ℝ) (xs : List (Fin D → ℝ)) :
    eStep p xs = stOf p (fun i : Fin xs.length => xs[i.1]) := by
  unfold eStep stOf Nst Fst Sst resp
  simp only [lsum_eq, Transc.exp]
  congr 1
  · funext c; exact (Fin.sum_univ_fun_getElem xs (fun x => Real.exp (lwl p x c - logLik p x))).symm
  · funext c d; exact (Fin.sum_univ_fun_getElem xs (fun x => Real.exp (lwl p x c - logLik p x) * x d)).symm
  · funext c d; exact (Fin.sum_univ_fun_getElem xs (fun x => Real.exp (lwl p x c - logLik p x) * x d * x d)).symm
  · exact (Fin.sum_univ_fun_getElem xs (logLik p)).symm
  · simp

/-- C03 (likelihood part): one ML EM iteration never decreases the total (hence average)
log-likelihood, for every combination of the three update switches, as long as no count
floor or variance floor is active. -/
theorem C03_ml_em_monotone (cfg : MlCfg (C+1) D ℝ) (p : Params (C+1) D ℝ)
    (xs : List (Fin D → ℝ)) (hne : xs ≠ [])
    (hw : ∀ c, 0 < p.weights c) (hsum : ∑ c, p.weights c ≤ 1) (hv : ∀ c d, 0 < p.variances c d)
    (hcount : ∀ c, cfg.countThr ≤ (eStep p xs).n c)
    (hfl : cfg.updVars = true → ∀ c d, cfg.varFloor c d ≤ mlRawVar cfg p (eStep p xs) c d)
    (hfl0 : cfg.updVars = true → ∀ c d, 0 < mlRawVar cfg p (eStep p xs) c d) :
    lsum (xs.map (logLik p))
      ≤ lsum (xs.map (logLik (mlMStep cfg p (eStep p xs) (xs.length : ℝ)))) := by
  haveI : Nonempty (Fin xs.length) := ⟨⟨0, List.length_pos_of_ne_nil hne⟩⟩
  rw [eStep_eq_stOf] at hcount hfl hfl0 ⊢
  have h := ml_em_monotone_fin cfg p (fun i : Fin xs.length => xs[i.1]) hw hsum hv hcount hfl hfl0
  simp only [Fintype.card_fin] at h
  rw [lsum_eq, lsum_eq, ← Fin.sum_univ_fun_getElem xs (logLik p), ← Fin.sum_univ_fun_getElem xs]
  exact h

end Lists
#print axioms C03_ml_em_monotone
