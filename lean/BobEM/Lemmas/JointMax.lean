import BobEM.Lemmas.BlockMax

/-! Joint maximisation of a linear-Gaussian log-posterior from block-wise stationarity (C07):
a point at which no move inside any of a family of direction sets increases `blockObj`, the
direction sets spanning every displacement, is the unique global maximiser. -/

open Matrix Finset

variable {ρ κ : Type} [Fintype ρ] [DecidableEq ρ] [Fintype κ]

theorem blockP_posDef (a : κ → ρ → ℝ) (n s : κ → ℝ) (hn : ∀ k, 0 ≤ n k) (hs : ∀ k, 0 < s k) : (blockP a n s).PosDef :=
  Pmat_posDef (ι := Unit) (fun _ => n) s (fun _ k => hn k) hs a ()

/-- second-order expansion of the objective around any point -/
theorem blockObj_add (a : κ → ρ → ℝ) (n g r s : κ → ℝ) (hn : ∀ k, 0 ≤ n k) (hs : ∀ k, 0 < s k) (θ δ : ρ → ℝ) :
    blockObj a n g r s (θ + δ)
      = blockObj a n g r s θ + (blockB a n g r s - blockP a n s *ᵥ θ) ⬝ᵥ δ
          - (1/2 : ℝ) * (δ ⬝ᵥ (blockP a n s *ᵥ δ)) := by
  have hP := blockP_posDef a n s hn hs
  have hsym : θ ⬝ᵥ (blockP a n s *ᵥ δ) = δ ⬝ᵥ (blockP a n s *ᵥ θ) := by
    rw [symm_dot hP, dotProduct_comm]
  rw [blockObj_expand a n g r s (θ + δ), blockObj_expand a n g r s θ]
  simp only [dotProduct_add, add_dotProduct, Matrix.mulVec_add, sub_dotProduct]
  rw [dotProduct_comm (blockP a n s *ᵥ θ) δ]
  linarith [hsym]

/-- a direction along which the objective never increases is orthogonal to the gradient -/
theorem stationary_of_dir_max (a : κ → ρ → ℝ) (n g r s : κ → ℝ) (hn : ∀ k, 0 ≤ n k) (hs : ∀ k, 0 < s k) (θ δ : ρ → ℝ)
    (h : ∀ t : ℝ, blockObj a n g r s (θ + t • δ) ≤ blockObj a n g r s θ) :
    (blockB a n g r s - blockP a n s *ᵥ θ) ⬝ᵥ δ = 0 := by
  set L := (blockB a n g r s - blockP a n s *ᵥ θ) ⬝ᵥ δ with hL
  set Q := δ ⬝ᵥ (blockP a n s *ᵥ δ) with hQ
  have hQ0 : 0 ≤ Q := by
    have := (blockP_posDef a n s hn hs).posSemidef.dotProduct_mulVec_nonneg δ
    simpa using this
  have key : ∀ t : ℝ, t * L - (1/2) * (t * t * Q) ≤ 0 := by
    intro t
    have := h t
    rw [blockObj_add a n g r s hn hs θ (t • δ)] at this
    simp only [dotProduct_smul, Matrix.mulVec_smul, smul_dotProduct, smul_eq_mul] at this
    nlinarith [this]
  have h1 := key (L / (Q + 1))
  have hq : 0 < Q + 1 := by linarith
  have : L / (Q + 1) * L - 1 / 2 * (L / (Q + 1) * (L / (Q + 1)) * Q) = L * L * (Q + 2) / (2 * (Q + 1) * (Q + 1)) := by
    field_simp; ring
  rw [this] at h1
  have hpos : 0 < 2 * (Q + 1) * (Q + 1) := by positivity
  have h2 : L * L * (Q + 2) ≤ 0 := by
    by_contra hc
    push Not at hc
    have := div_pos hc hpos
    linarith
  have h3 : L * L ≤ 0 := by
    by_contra hc
    push Not at hc
    have : 0 < L * L * (Q + 2) := mul_pos hc (by linarith)
    linarith
  have : L * L = 0 := le_antisymm h3 (mul_self_nonneg L)
  exact mul_self_eq_zero.mp this

/-- **joint maximum from three stationary blocks**: if the displacement to any other point splits
into three directions, each orthogonal to the gradient at `θ`, then `θ` is at least as good, with
a gap of half the precision-weighted squared distance. -/
theorem joint_max_of_stationary (a : κ → ρ → ℝ) (n g r s : κ → ℝ) (hn : ∀ k, 0 ≤ n k) (hs : ∀ k, 0 < s k)
    (θ θ' δ₁ δ₂ δ₃ : ρ → ℝ) (hsplit : θ' = θ + (δ₁ + δ₂ + δ₃))
    (h₁ : (blockB a n g r s - blockP a n s *ᵥ θ) ⬝ᵥ δ₁ = 0)
    (h₂ : (blockB a n g r s - blockP a n s *ᵥ θ) ⬝ᵥ δ₂ = 0)
    (h₃ : (blockB a n g r s - blockP a n s *ᵥ θ) ⬝ᵥ δ₃ = 0) :
    blockObj a n g r s θ'
      = blockObj a n g r s θ - (1/2 : ℝ) * ((θ' - θ) ⬝ᵥ (blockP a n s *ᵥ (θ' - θ))) := by
  have hd : θ' - θ = δ₁ + δ₂ + δ₃ := by rw [hsplit]; simp
  rw [hsplit, blockObj_add a n g r s hn hs θ (δ₁ + δ₂ + δ₃)]
  simp only [dotProduct_add, h₁, h₂, h₃, add_zero]
  congr 2; simp

theorem joint_le_of_stationary (a : κ → ρ → ℝ) (n g r s : κ → ℝ) (hn : ∀ k, 0 ≤ n k) (hs : ∀ k, 0 < s k)
    (θ θ' δ₁ δ₂ δ₃ : ρ → ℝ) (hsplit : θ' = θ + (δ₁ + δ₂ + δ₃))
    (h₁ : (blockB a n g r s - blockP a n s *ᵥ θ) ⬝ᵥ δ₁ = 0)
    (h₂ : (blockB a n g r s - blockP a n s *ᵥ θ) ⬝ᵥ δ₂ = 0)
    (h₃ : (blockB a n g r s - blockP a n s *ᵥ θ) ⬝ᵥ δ₃ = 0) :
    blockObj a n g r s θ' ≤ blockObj a n g r s θ ∧ (blockObj a n g r s θ' = blockObj a n g r s θ → θ' = θ) := by
  have hP := blockP_posDef a n s hn hs
  have e := joint_max_of_stationary a n g r s hn hs θ θ' δ₁ δ₂ δ₃ hsplit h₁ h₂ h₃
  have hnn : 0 ≤ (θ' - θ) ⬝ᵥ (blockP a n s *ᵥ (θ' - θ)) := by
    have := hP.posSemidef.dotProduct_mulVec_nonneg (θ' - θ)
    simpa using this
  refine ⟨by linarith, fun heq => ?_⟩
  have hz : (θ' - θ) ⬝ᵥ (blockP a n s *ᵥ (θ' - θ)) = 0 := by linarith
  by_contra hne
  have hne' : θ' - θ ≠ 0 := sub_ne_zero.mpr hne
  have := hP.dotProduct_mulVec_pos hne'
  simp only [star_trivial] at this
  linarith
#print axioms joint_le_of_stationary
