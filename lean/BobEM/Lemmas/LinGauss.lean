import BobEM.Lemmas.Quad
import BobEM.Lemmas.LogDet

open Matrix Finset
open scoped MatrixOrder Matrix.Norms.L2Operator

variable {ρ : Type} [Fintype ρ] [DecidableEq ρ]

/-- marginal log-likelihood contribution of one item (up to parameter-free constants) -/
noncomputable def margItem (P : Matrix ρ ρ ℝ) (b : ρ → ℝ) : ℝ :=
  (1/2) * (b ⬝ᵥ (P⁻¹ *ᵥ b)) - (1/2) * Real.log P.det

/-- variational lower bound for one item, with posterior mean `μ` and covariance `S` -/
noncomputable def lowerItem (P : Matrix ρ ρ ℝ) (b μ : ρ → ℝ) (S : Matrix ρ ρ ℝ) : ℝ :=
  b ⬝ᵥ μ - (1/2) * (μ ⬝ᵥ (P *ᵥ μ)) - (1/2) * (P * S).trace + (1/2) * Real.log S.det
    + (Fintype.card ρ : ℝ) / 2

theorem item_bound {P S : Matrix ρ ρ ℝ} (hP : P.PosDef) (hS : S.PosDef) (b μ : ρ → ℝ) :
    lowerItem P b μ S ≤ margItem P b := by
  unfold lowerItem margItem
  have h1 := quad_max hP b μ
  have h2 := logdet_mul_le hP hS
  linarith

theorem item_eq {P0 : Matrix ρ ρ ℝ} (hP0 : P0.PosDef) (b0 : ρ → ℝ) :
    lowerItem P0 b0 (P0⁻¹ *ᵥ b0) P0⁻¹ = margItem P0 b0 := by
  unfold lowerItem margItem
  have hu : IsUnit P0.det := (Matrix.isUnit_iff_isUnit_det P0).mp hP0.isUnit
  have h1 := quad_max_eq hP0 b0
  have h2 : (P0 * P0⁻¹).trace = Fintype.card ρ := by
    rw [Matrix.mul_nonsing_inv P0 hu, Matrix.trace_one]
  have h3 : Real.log (P0⁻¹).det = - Real.log P0.det := by
    rw [Matrix.det_nonsing_inv, Ring.inverse_eq_inv', Real.log_inv]
  rw [h2, h3]; linarith

section Structured
variable {ι κ : Type} [Fintype ι] [Fintype κ]
variable (N f : ι → κ → ℝ) (σ : κ → ℝ)

/-- posterior precision of item i: `I + Σ_k (N_ik/σ_k) θ_k θ_kᵀ` -/
noncomputable def Pmat (Θ : κ → ρ → ℝ) (i : ι) : Matrix ρ ρ ℝ :=
  1 + ∑ k, (N i k / σ k) • vecMulVec (Θ k) (Θ k)

/-- linear term of item i: `Σ_k (f_ik/σ_k) θ_k` -/
noncomputable def bvec (Θ : κ → ρ → ℝ) (i : ι) : ρ → ℝ :=
  ∑ k, (f i k / σ k) • Θ k

/-- the training objective: marginal likelihood of all items -/
noncomputable def marg (Θ : κ → ρ → ℝ) : ℝ := ∑ i, margItem (Pmat N σ Θ i) (bvec f σ Θ i)

theorem vecMulVec_quad (a x : ρ → ℝ) : x ⬝ᵥ (vecMulVec a a *ᵥ x) = (a ⬝ᵥ x) * (a ⬝ᵥ x) := by
  simp only [dotProduct, mulVec, vecMulVec_apply]
  rw [Finset.sum_mul_sum]
  refine Finset.sum_congr rfl fun i _ => ?_
  rw [Finset.mul_sum]
  refine Finset.sum_congr rfl fun j _ => ?_
  ring

theorem Pmat_posDef (hN : ∀ i k, 0 ≤ N i k) (hσ : ∀ k, 0 < σ k) (Θ : κ → ρ → ℝ) (i : ι) :
    (Pmat N σ Θ i).PosDef := by
  unfold Pmat
  apply Matrix.PosDef.add_posSemidef Matrix.PosDef.one
  apply Matrix.posSemidef_sum
  intro k _
  have h := Matrix.posSemidef_vecMulVec_self_star (Θ k)
  rw [star_trivial] at h
  exact h.smul (div_nonneg (hN i k) (hσ k).le)
end Structured

section Expand
variable {κ : Type} [Fintype κ]

theorem dot_sum_smul (c : κ → ℝ) (v : κ → ρ → ℝ) (x : ρ → ℝ) :
    (∑ k, c k • v k) ⬝ᵥ x = ∑ k, c k * (v k ⬝ᵥ x) := by
  simp only [dotProduct, Finset.sum_apply, Pi.smul_apply, smul_eq_mul, Finset.sum_mul, Finset.mul_sum]
  rw [Finset.sum_comm]
  exact Finset.sum_congr rfl fun k _ => Finset.sum_congr rfl fun j _ => by ring

theorem quad_one_add_sum (c : κ → ℝ) (v : κ → ρ → ℝ) (x : ρ → ℝ) :
    x ⬝ᵥ ((1 + ∑ k, c k • vecMulVec (v k) (v k)) *ᵥ x)
      = x ⬝ᵥ x + ∑ k, c k * ((v k ⬝ᵥ x) * (v k ⬝ᵥ x)) := by
  rw [Matrix.add_mulVec, Matrix.one_mulVec, dotProduct_add, Matrix.sum_mulVec, dotProduct_sum]
  congr 1
  refine Finset.sum_congr rfl fun k _ => ?_
  rw [Matrix.smul_mulVec, dotProduct_smul, vecMulVec_quad, smul_eq_mul]

theorem trace_vecMulVec_mul (a : ρ → ℝ) (S : Matrix ρ ρ ℝ) :
    (vecMulVec a a * S).trace = a ⬝ᵥ (S *ᵥ a) := by
  simp only [Matrix.trace, Matrix.diag, Matrix.mul_apply, vecMulVec_apply, dotProduct, mulVec]
  rw [Finset.sum_comm]
  refine Finset.sum_congr rfl fun i _ => ?_
  rw [Finset.mul_sum]
  exact Finset.sum_congr rfl fun j _ => by ring

theorem trace_one_add_sum_mul (c : κ → ℝ) (v : κ → ρ → ℝ) (S : Matrix ρ ρ ℝ) :
    ((1 + ∑ k, c k • vecMulVec (v k) (v k)) * S).trace
      = S.trace + ∑ k, c k * (v k ⬝ᵥ (S *ᵥ v k)) := by
  rw [Matrix.add_mul, Matrix.one_mul, Matrix.trace_add, Matrix.sum_mul, Matrix.trace_sum]
  congr 1
  refine Finset.sum_congr rfl fun k _ => ?_
  rw [Matrix.smul_mul, Matrix.trace_smul, trace_vecMulVec_mul, smul_eq_mul]
end Expand

section Main
variable {ι κ : Type} [Fintype ι] [Fintype κ]
variable (N f : ι → κ → ℝ) (σ : κ → ℝ)

/-- expected complete-data objective of one row, given accumulators `a`, `A` -/
noncomputable def rowQ (a : ρ → ℝ) (A : Matrix ρ ρ ℝ) (θ : ρ → ℝ) : ℝ :=
  θ ⬝ᵥ a - (1/2) * (θ ⬝ᵥ (A *ᵥ θ))

/-- per item and row summand shared by both expansions -/
noncomputable def cell (Θ : κ → ρ → ℝ) (μ : ρ → ℝ) (S : Matrix ρ ρ ℝ) (n fv : ℝ) (k : κ) : ℝ :=
  fv * (Θ k ⬝ᵥ μ) - (1/2) * n * (Θ k ⬝ᵥ (S *ᵥ Θ k) + (Θ k ⬝ᵥ μ) * (Θ k ⬝ᵥ μ))

theorem lowerItem_row (Θ : κ → ρ → ℝ) (i : ι) (μ : ρ → ℝ) (S : Matrix ρ ρ ℝ) :
    lowerItem (Pmat N σ Θ i) (bvec f σ Θ i) μ S =
      ∑ k, (1 / σ k) * cell Θ μ S (N i k) (f i k) k
      + (-(1/2) * (μ ⬝ᵥ μ) - (1/2) * S.trace + (1/2) * Real.log S.det + (Fintype.card ρ : ℝ) / 2) := by
  unfold lowerItem Pmat bvec cell
  rw [dot_sum_smul, quad_one_add_sum, trace_one_add_sum_mul]
  have : ∀ k, (1 / σ k) * (f i k * (Θ k ⬝ᵥ μ) - (1/2) * N i k * (Θ k ⬝ᵥ (S *ᵥ Θ k) + (Θ k ⬝ᵥ μ) * (Θ k ⬝ᵥ μ)))
      = f i k / σ k * (Θ k ⬝ᵥ μ) - (1/2) * (N i k / σ k * ((Θ k ⬝ᵥ μ) * (Θ k ⬝ᵥ μ)))
        - (1/2) * (N i k / σ k * (Θ k ⬝ᵥ (S *ᵥ Θ k))) := by intro k; ring
  simp only [this, Finset.sum_sub_distrib, ← Finset.mul_sum]
  ring

theorem rowQ_sum (μ : ι → ρ → ℝ) (S : ι → Matrix ρ ρ ℝ) (Θ : κ → ρ → ℝ) (k : κ) :
    rowQ (∑ i, f i k • μ i) (∑ i, N i k • (S i + vecMulVec (μ i) (μ i))) (Θ k)
      = ∑ i, cell Θ (μ i) (S i) (N i k) (f i k) k := by
  unfold rowQ cell
  rw [dotProduct_sum, Matrix.sum_mulVec, dotProduct_sum, Finset.mul_sum, ← Finset.sum_sub_distrib]
  refine Finset.sum_congr rfl fun i _ => ?_
  rw [dotProduct_smul, Matrix.smul_mulVec, dotProduct_smul, Matrix.add_mulVec, dotProduct_add,
    vecMulVec_quad, dotProduct_comm (μ i) (Θ k)]
  simp only [smul_eq_mul]; ring

theorem lower_expand (Θ : κ → ρ → ℝ) (μ : ι → ρ → ℝ) (S : ι → Matrix ρ ρ ℝ) :
    ∑ i, lowerItem (Pmat N σ Θ i) (bvec f σ Θ i) (μ i) (S i) =
      ∑ k, (1 / σ k) * rowQ (∑ i, f i k • μ i) (∑ i, N i k • (S i + vecMulVec (μ i) (μ i))) (Θ k)
      + ∑ i, (-(1/2) * (μ i ⬝ᵥ μ i) - (1/2) * (S i).trace + (1/2) * Real.log (S i).det
              + (Fintype.card ρ : ℝ) / 2) := by
  simp only [lowerItem_row, Finset.sum_add_distrib, rowQ_sum, Finset.mul_sum]
  rw [Finset.sum_comm]

end Main

section EM
variable {ι κ : Type} [Fintype ι] [Fintype κ]
variable (N f : ι → κ → ℝ) (σ : κ → ℝ)

noncomputable def postMean (Θ0 : κ → ρ → ℝ) (i : ι) : ρ → ℝ :=
  (Pmat N σ Θ0 i)⁻¹ *ᵥ bvec f σ Θ0 i
noncomputable def postCov (Θ0 : κ → ρ → ℝ) (i : ι) : Matrix ρ ρ ℝ := (Pmat N σ Θ0 i)⁻¹
/-- accumulator `A1_k = Σ_i N_ik E[w wᵀ]` -/
noncomputable def accA1 (Θ0 : κ → ρ → ℝ) (k : κ) : Matrix ρ ρ ℝ :=
  ∑ i, N i k • (postCov N σ Θ0 i + vecMulVec (postMean N f σ Θ0 i) (postMean N f σ Θ0 i))
/-- accumulator `A2_k = Σ_i f_ik E[w]` -/
noncomputable def accA2 (Θ0 : κ → ρ → ℝ) (k : κ) : ρ → ℝ :=
  ∑ i, f i k • postMean N f σ Θ0 i
/-- the M-step: every row solves its normal equations -/
noncomputable def emStep (Θ0 : κ → ρ → ℝ) : κ → ρ → ℝ :=
  fun k => (accA1 N f σ Θ0 k)⁻¹ *ᵥ accA2 N f σ Θ0 k

theorem rowQ_le {a : ρ → ℝ} {A : Matrix ρ ρ ℝ} (hA : A.PosDef) (θ : ρ → ℝ) :
    rowQ a A θ ≤ rowQ a A (A⁻¹ *ᵥ a) := by
  unfold rowQ
  have h1 := quad_max hA a θ
  have h2 := quad_max_eq hA a
  rw [dotProduct_comm θ a, dotProduct_comm (A⁻¹ *ᵥ a) a]
  linarith

/-- Exact EM for a linear-Gaussian model with fixed noise never decreases the marginal
likelihood (any latent dimension). -/
theorem linGaussEM_monotone (hN : ∀ i k, 0 ≤ N i k) (hσ : ∀ k, 0 < σ k) (Θ0 : κ → ρ → ℝ)
    (hA1 : ∀ k, (accA1 N f σ Θ0 k).PosDef) :
    marg N f σ Θ0 ≤ marg N f σ (emStep N f σ Θ0) := by
  have hP0 := fun i => Pmat_posDef N σ hN hσ Θ0 i
  have hP1 := fun i => Pmat_posDef N σ hN hσ (emStep N f σ Θ0) i
  have hS := fun i => (hP0 i).inv
  calc marg N f σ Θ0
      = ∑ i, lowerItem (Pmat N σ Θ0 i) (bvec f σ Θ0 i) (postMean N f σ Θ0 i) (postCov N σ Θ0 i) := by
        unfold marg postMean postCov
        exact Finset.sum_congr rfl fun i _ => (item_eq (hP0 i) _).symm
    _ ≤ ∑ i, lowerItem (Pmat N σ (emStep N f σ Θ0) i) (bvec f σ (emStep N f σ Θ0) i)
          (postMean N f σ Θ0 i) (postCov N σ Θ0 i) := by
        rw [lower_expand, lower_expand]
        have hk : ∀ k ∈ (Finset.univ : Finset κ),
            1 / σ k * rowQ (∑ i, f i k • postMean N f σ Θ0 i)
              (∑ i, N i k • (postCov N σ Θ0 i + vecMulVec (postMean N f σ Θ0 i) (postMean N f σ Θ0 i))) (Θ0 k)
            ≤ 1 / σ k * rowQ (∑ i, f i k • postMean N f σ Θ0 i)
              (∑ i, N i k • (postCov N σ Θ0 i + vecMulVec (postMean N f σ Θ0 i) (postMean N f σ Θ0 i)))
              (emStep N f σ Θ0 k) := by
          intro k _
          apply mul_le_mul_of_nonneg_left _ (by have := hσ k; positivity)
          exact rowQ_le (hA1 k) (Θ0 k)
        have := Finset.sum_le_sum hk
        linarith
    _ ≤ marg N f σ (emStep N f σ Θ0) := by
        unfold marg
        exact Finset.sum_le_sum fun i _ => item_bound (hP1 i) (hS i) _ _
end EM
#print axioms linGaussEM_monotone
