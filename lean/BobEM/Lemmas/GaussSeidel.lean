import BobEM.Lemmas.JointMax

/-! Linear convergence of three-block exact coordinate ascent on `blockObj` (C07).
With `P = I + Σ (n/s) a aᵀ ⪰ I`, one sweep of three exact block maximisations contracts the gap to
the maximum by the factor `1 − 1/(6‖P‖_F² + 1)`; no compactness argument is needed. -/

open Matrix Finset

variable {ρ κ : Type} [Fintype ρ] [DecidableEq ρ] [Fintype κ]

/-- squared Frobenius norm -/
noncomputable def frob2 (P : Matrix ρ ρ ℝ) : ℝ := ∑ i, ∑ j, P i j * P i j

theorem frob2_nonneg (P : Matrix ρ ρ ℝ) : 0 ≤ frob2 P :=
  Finset.sum_nonneg fun _ _ => Finset.sum_nonneg fun _ _ => mul_self_nonneg _

theorem mulVec_sq_le (P : Matrix ρ ρ ℝ) (v : ρ → ℝ) : (P *ᵥ v) ⬝ᵥ (P *ᵥ v) ≤ frob2 P * (v ⬝ᵥ v) := by
  unfold frob2
  simp only [dotProduct, Matrix.mulVec]
  rw [Finset.sum_mul]
  refine Finset.sum_le_sum fun i _ => ?_
  have := Finset.sum_mul_sq_le_sq_mul_sq Finset.univ (fun j => P i j) v
  simp only [pow_two] at this
  exact this

theorem dot_add_sq_le (u v : ρ → ℝ) : (u + v) ⬝ᵥ (u + v) ≤ 2 * (u ⬝ᵥ u) + 2 * (v ⬝ᵥ v) := by
  simp only [dotProduct, Pi.add_apply, Finset.mul_sum, ← Finset.sum_add_distrib]
  refine Finset.sum_le_sum fun i _ => ?_
  nlinarith [sq_nonneg (u i - v i)]

theorem dot_add3_sq_le (u v w : ρ → ℝ) :
    (u + v + w) ⬝ᵥ (u + v + w) ≤ 3 * (u ⬝ᵥ u) + 3 * (v ⬝ᵥ v) + 3 * (w ⬝ᵥ w) := by
  simp only [dotProduct, Pi.add_apply, Finset.mul_sum, ← Finset.sum_add_distrib]
  refine Finset.sum_le_sum fun i _ => ?_
  nlinarith [sq_nonneg (u i - v i), sq_nonneg (u i - w i), sq_nonneg (v i - w i)]

section
variable (a : κ → ρ → ℝ) (n g r s : κ → ℝ)

/-- gradient of the block objective -/
noncomputable def bGrad (θ : ρ → ℝ) : ρ → ℝ := blockB a n g r s - blockP a n s *ᵥ θ

theorem bGrad_add (θ δ : ρ → ℝ) : bGrad a n g r s (θ + δ) = bGrad a n g r s θ - blockP a n s *ᵥ δ := by
  unfold bGrad; rw [Matrix.mulVec_add]; abel

/-- `P ⪰ I` -/
theorem blockP_ge_one (hn : ∀ k, 0 ≤ n k) (hs : ∀ k, 0 < s k) (v : ρ → ℝ) : v ⬝ᵥ v ≤ v ⬝ᵥ (blockP a n s *ᵥ v) := by
  unfold blockP Pmat
  rw [quad_one_add_sum]
  have : 0 ≤ ∑ k, n k / s k * ((a k ⬝ᵥ v) * (a k ⬝ᵥ v)) :=
    Finset.sum_nonneg fun k _ => mul_nonneg (div_nonneg (hn k) (hs k).le) (mul_self_nonneg _)
  linarith

/-- the gap to any other point is at most half the squared gradient -/
theorem gap_le_grad (hn : ∀ k, 0 ≤ n k) (hs : ∀ k, 0 < s k) (θ θ' : ρ → ℝ) :
    blockObj a n g r s θ' - blockObj a n g r s θ ≤ (1/2 : ℝ) * (bGrad a n g r s θ ⬝ᵥ bGrad a n g r s θ) := by
  have e : θ' = θ + (θ' - θ) := by simp
  rw [e, blockObj_add a n g r s hn hs θ (θ' - θ)]
  set d := θ' - θ
  have h1 := blockP_ge_one a n s hn hs d
  have h2 : 0 ≤ (bGrad a n g r s θ - d) ⬝ᵥ (bGrad a n g r s θ - d) := by
    simp only [dotProduct]; exact Finset.sum_nonneg fun i _ => mul_self_nonneg _
  simp only [sub_dotProduct, dotProduct_sub] at h2
  have h3 : d ⬝ᵥ bGrad a n g r s θ = bGrad a n g r s θ ⬝ᵥ d := dotProduct_comm _ _
  change blockObj a n g r s θ + bGrad a n g r s θ ⬝ᵥ d - 1 / 2 * (d ⬝ᵥ (blockP a n s *ᵥ d)) - blockObj a n g r s θ ≤ _
  linarith

/-- gain of an exact block step: at least half the squared step -/
theorem exact_step_gain (hn : ∀ k, 0 ≤ n k) (hs : ∀ k, 0 < s k) (θ Δ : ρ → ℝ)
    (h : bGrad a n g r s (θ + Δ) ⬝ᵥ Δ = 0) :
    (1/2 : ℝ) * (Δ ⬝ᵥ Δ) ≤ blockObj a n g r s (θ + Δ) - blockObj a n g r s θ := by
  have e : θ = (θ + Δ) + (-Δ) := by simp
  have := blockObj_add a n g r s hn hs (θ + Δ) (-Δ)
  rw [← e] at this
  simp only [dotProduct_neg, Matrix.mulVec_neg, neg_dotProduct, neg_neg] at this
  have h' : (blockB a n g r s - blockP a n s *ᵥ (θ + Δ)) ⬝ᵥ Δ = 0 := h
  have h1 := blockP_ge_one a n s hn hs Δ
  rw [this, h']
  linarith

/-- squared distance to a point with vanishing gradient is at most twice the gap -/
theorem dist_le_gap (hn : ∀ k, 0 ≤ n k) (hs : ∀ k, 0 < s k) (θs θ : ρ → ℝ) (h0 : bGrad a n g r s θs = 0) :
    (θ - θs) ⬝ᵥ (θ - θs) ≤ 2 * (blockObj a n g r s θs - blockObj a n g r s θ) := by
  have e : θ = θs + (θ - θs) := by simp
  have := blockObj_add a n g r s hn hs θs (θ - θs)
  rw [← e] at this
  have h' : (blockB a n g r s - blockP a n s *ᵥ θs) = 0 := h0
  rw [h', zero_dotProduct] at this
  have h1 := blockP_ge_one a n s hn hs (θ - θs)
  linarith
end

/-! ### three blocks -/
section
variable {α β γ : Type} [Fintype α] [Fintype β] [Fintype γ] [DecidableEq α] [DecidableEq β] [DecidableEq γ]
variable (a : κ → (α ⊕ (β ⊕ γ)) → ℝ) (n g r s : κ → ℝ)

theorem dot_sum3 (u v : (α ⊕ (β ⊕ γ)) → ℝ) :
    u ⬝ᵥ v = (∑ i, u (.inl i) * v (.inl i)) + (∑ j, u (.inr (.inl j)) * v (.inr (.inl j)))
      + ∑ k, u (.inr (.inr k)) * v (.inr (.inr k)) := by
  simp only [dotProduct, Fintype.sum_sum_type]; ring

/-- **one sweep of three exact block maximisations contracts the gap** -/
theorem gs3_contraction (hn : ∀ k, 0 ≤ n k) (hs : ∀ k, 0 < s k)
    (θs θ₀ Δ₁ Δ₂ Δ₃ : (α ⊕ (β ⊕ γ)) → ℝ)
    (hs1 : ∀ j, Δ₁ (.inr j) = 0) (hs2 : (∀ i, Δ₂ (.inl i) = 0) ∧ ∀ k, Δ₂ (.inr (.inr k)) = 0)
    (hs3 : (∀ i, Δ₃ (.inl i) = 0) ∧ ∀ j, Δ₃ (.inr (.inl j)) = 0)
    (hg1 : ∀ i, bGrad a n g r s (θ₀ + Δ₁) (.inl i) = 0)
    (hg2 : ∀ j, bGrad a n g r s (θ₀ + Δ₁ + Δ₂) (.inr (.inl j)) = 0)
    (hg3 : ∀ k, bGrad a n g r s (θ₀ + Δ₁ + Δ₂ + Δ₃) (.inr (.inr k)) = 0) :
    blockObj a n g r s θs - blockObj a n g r s (θ₀ + Δ₁ + Δ₂ + Δ₃)
      ≤ (1 - 1 / (6 * frob2 (blockP a n s) + 1)) * (blockObj a n g r s θs - blockObj a n g r s θ₀) := by
  set P := blockP a n s with hP
  set F := frob2 P with hF
  have hF0 : 0 ≤ F := frob2_nonneg P
  set f := blockObj a n g r s with hf
  -- gains of the three steps
  have o1 : bGrad a n g r s (θ₀ + Δ₁) ⬝ᵥ Δ₁ = 0 := by
    rw [dot_sum3]; simp [hg1, hs1]
  have o2 : bGrad a n g r s (θ₀ + Δ₁ + Δ₂) ⬝ᵥ Δ₂ = 0 := by
    rw [dot_sum3]; simp [hg2, hs2.1, hs2.2]
  have o3 : bGrad a n g r s (θ₀ + Δ₁ + Δ₂ + Δ₃) ⬝ᵥ Δ₃ = 0 := by
    rw [dot_sum3]; simp [hg3, hs3.1, hs3.2]
  have g1 := exact_step_gain a n g r s hn hs θ₀ Δ₁ o1
  have g2 := exact_step_gain a n g r s hn hs (θ₀ + Δ₁) Δ₂ o2
  have g3 := exact_step_gain a n g r s hn hs (θ₀ + Δ₁ + Δ₂) Δ₃ o3
  -- the gradient at the start in terms of the steps
  have e1 : ∀ i, bGrad a n g r s θ₀ (.inl i) = (P *ᵥ Δ₁) (.inl i) := by
    intro i
    have := congrFun (bGrad_add a n g r s θ₀ Δ₁) (.inl i)
    rw [hg1 i] at this
    simp only [Pi.sub_apply] at this
    linarith
  have e2 : ∀ j, bGrad a n g r s θ₀ (.inr (.inl j)) = (P *ᵥ (Δ₁ + Δ₂)) (.inr (.inl j)) := by
    intro j
    have := congrFun (bGrad_add a n g r s θ₀ (Δ₁ + Δ₂)) (.inr (.inl j))
    rw [← add_assoc, hg2 j] at this
    simp only [Pi.sub_apply] at this
    linarith
  have e3 : ∀ k, bGrad a n g r s θ₀ (.inr (.inr k)) = (P *ᵥ (Δ₁ + Δ₂ + Δ₃)) (.inr (.inr k)) := by
    intro k
    have := congrFun (bGrad_add a n g r s θ₀ (Δ₁ + Δ₂ + Δ₃)) (.inr (.inr k))
    rw [← add_assoc, ← add_assoc, hg3 k] at this
    simp only [Pi.sub_apply] at this
    linarith
  have part : ∀ (w : (α ⊕ (β ⊕ γ)) → ℝ),
      (∑ i, w (.inl i) * w (.inl i)) ≤ w ⬝ᵥ w ∧ (∑ j, w (.inr (.inl j)) * w (.inr (.inl j))) ≤ w ⬝ᵥ w
        ∧ (∑ k, w (.inr (.inr k)) * w (.inr (.inr k))) ≤ w ⬝ᵥ w := by
    intro w
    rw [dot_sum3]
    have p1 : 0 ≤ ∑ i, w (.inl i) * w (.inl i) := Finset.sum_nonneg fun _ _ => mul_self_nonneg _
    have p2 : 0 ≤ ∑ j, w (.inr (.inl j)) * w (.inr (.inl j)) := Finset.sum_nonneg fun _ _ => mul_self_nonneg _
    have p3 : 0 ≤ ∑ k, w (.inr (.inr k)) * w (.inr (.inr k)) := Finset.sum_nonneg fun _ _ => mul_self_nonneg _
    refine ⟨by linarith, by linarith, by linarith⟩
  have gsq : bGrad a n g r s θ₀ ⬝ᵥ bGrad a n g r s θ₀
      ≤ 6 * F * (Δ₁ ⬝ᵥ Δ₁ + Δ₂ ⬝ᵥ Δ₂ + Δ₃ ⬝ᵥ Δ₃) := by
    rw [dot_sum3]
    simp only [e1, e2, e3]
    have b1 := (part (P *ᵥ Δ₁)).1
    have b2 := (part (P *ᵥ (Δ₁ + Δ₂))).2.1
    have b3 := (part (P *ᵥ (Δ₁ + Δ₂ + Δ₃))).2.2
    have c1 := mulVec_sq_le P Δ₁
    have c2 := mulVec_sq_le P (Δ₁ + Δ₂)
    have c3 := mulVec_sq_le P (Δ₁ + Δ₂ + Δ₃)
    have d2 := dot_add_sq_le Δ₁ Δ₂
    have d3 := dot_add3_sq_le Δ₁ Δ₂ Δ₃
    have n1 : 0 ≤ Δ₁ ⬝ᵥ Δ₁ := by simp only [dotProduct]; exact Finset.sum_nonneg fun _ _ => mul_self_nonneg _
    have n2 : 0 ≤ Δ₂ ⬝ᵥ Δ₂ := by simp only [dotProduct]; exact Finset.sum_nonneg fun _ _ => mul_self_nonneg _
    have n3 : 0 ≤ Δ₃ ⬝ᵥ Δ₃ := by simp only [dotProduct]; exact Finset.sum_nonneg fun _ _ => mul_self_nonneg _
    have m2 := mul_le_mul_of_nonneg_left d2 hF0
    have m3 := mul_le_mul_of_nonneg_left d3 hF0
    nlinarith [mul_nonneg hF0 n1, mul_nonneg hF0 n2, mul_nonneg hF0 n3]
  have gap := gap_le_grad a n g r s hn hs θ₀ θs
  -- E₀ ≤ 6F (E₀ − E₃) and E₀ − E₃ ≥ 0
  set E0 := f θs - f θ₀ with hE0
  set E3 := f θs - f (θ₀ + Δ₁ + Δ₂ + Δ₃) with hE3
  have gain : (1/2 : ℝ) * (Δ₁ ⬝ᵥ Δ₁ + Δ₂ ⬝ᵥ Δ₂ + Δ₃ ⬝ᵥ Δ₃) ≤ E0 - E3 := by
    simp only [hE0, hE3]; linarith
  have hD : 0 ≤ E0 - E3 := by
    have n1 : 0 ≤ Δ₁ ⬝ᵥ Δ₁ := by simp only [dotProduct]; exact Finset.sum_nonneg fun _ _ => mul_self_nonneg _
    have n2 : 0 ≤ Δ₂ ⬝ᵥ Δ₂ := by simp only [dotProduct]; exact Finset.sum_nonneg fun _ _ => mul_self_nonneg _
    have n3 : 0 ≤ Δ₃ ⬝ᵥ Δ₃ := by simp only [dotProduct]; exact Finset.sum_nonneg fun _ _ => mul_self_nonneg _
    linarith
  have key : E0 ≤ (6 * F + 1) * (E0 - E3) := by
    have h1 : E0 ≤ (1/2 : ℝ) * (6 * F * (Δ₁ ⬝ᵥ Δ₁ + Δ₂ ⬝ᵥ Δ₂ + Δ₃ ⬝ᵥ Δ₃)) := by
      simp only [hE0]; linarith
    have h2 : (1/2 : ℝ) * (6 * F * (Δ₁ ⬝ᵥ Δ₁ + Δ₂ ⬝ᵥ Δ₂ + Δ₃ ⬝ᵥ Δ₃)) ≤ 6 * F * (E0 - E3) := by
      have := mul_le_mul_of_nonneg_left gain (by positivity : (0:ℝ) ≤ 6 * F)
      linarith
    nlinarith
  have hK : 0 < 6 * F + 1 := by linarith
  have : E3 ≤ (1 - 1 / (6 * F + 1)) * E0 := by
    have h1 : E0 / (6 * F + 1) ≤ E0 - E3 := by
      rw [div_le_iff₀ hK]; linarith
    have h2 : (1 - 1 / (6 * F + 1)) * E0 = E0 - E0 / (6 * F + 1) := by field_simp
    rw [h2]; linarith
  exact this
#print axioms gs3_contraction
end

section
variable (a : κ → ρ → ℝ) (n g r s : κ → ℝ)
/-- a coordinate along which the objective cannot be improved has zero gradient -/
theorem grad_zero_of_coord_max (hn : ∀ k, 0 ≤ n k) (hs : ∀ k, 0 < s k) (θ : ρ → ℝ) (j : ρ)
    (h : ∀ t : ℝ, blockObj a n g r s (θ + t • Pi.single j 1) ≤ blockObj a n g r s θ) :
    bGrad a n g r s θ j = 0 := by
  have := stationary_of_dir_max a n g r s hn hs θ (Pi.single j 1) h
  simpa [bGrad] using this

/-- a global maximiser has zero gradient -/
theorem grad_zero_of_global_max (hn : ∀ k, 0 ≤ n k) (hs : ∀ k, 0 < s k) (θ : ρ → ℝ)
    (h : ∀ θ', blockObj a n g r s θ' ≤ blockObj a n g r s θ) : bGrad a n g r s θ = 0 := by
  funext j
  exact grad_zero_of_coord_max a n g r s hn hs θ j fun t => h _
end
