import BobEM.Lemmas.Real
import Mathlib.LinearAlgebra.Matrix.NonsingularInverse

/-- over ℝ the external inverse is Mathlib's matrix inverse -/
noncomputable instance : LinAlg ℝ := ⟨fun n A => ((Matrix.of A)⁻¹ : Matrix (Fin n) (Fin n) ℝ)⟩
