import BobEM.Lemmas.LinGauss

open Matrix Finset
open scoped MatrixOrder Matrix.Norms.L2Operator

variable {ρ : Type} [Fintype ρ] [DecidableEq ρ]
variable {ι κ : Type} [Fintype ι] [Fintype κ]

/-- noise-dependent part of the log-likelihood of row k: `−½ Ntot log σ − ½ s/σ` -/
noncomputable def noiseTerm (Ntot s σ : ℝ) : ℝ := -(1/2) * Ntot * Real.log σ - (1/2) * s / σ

/-- full objective when the diagonal noise σ is a parameter too -/
noncomputable def margS (N f : ι → κ → ℝ) (s : κ → ℝ) (σ : κ → ℝ) (Θ : κ → ρ → ℝ) : ℝ :=
  marg N f σ Θ + ∑ k, noiseTerm (∑ i, N i k) (s k) (σ k)

/-- `h(σ) = −e/(2σ) − (n/2) log σ` is maximal at `e/n` and decreasing to its right -/
theorem noise_profile {e n a b : ℝ} (hn : 0 < n) (ha : 0 < a) (hab : a ≤ b) (hea : e ≤ n * a) :
    -(1/2) * n * Real.log b - (1/2) * e / b ≤ -(1/2) * n * Real.log a - (1/2) * e / a := by
  have hb : 0 < b := lt_of_lt_of_le ha hab
  have hlog : 1 - a / b ≤ Real.log b - Real.log a := by
    have := Real.log_le_sub_one_of_pos (div_pos ha hb)
    rw [Real.log_div ha.ne' hb.ne'] at this
    linarith
  have key : 0 ≤ (b - a) / (2 * b) * (n - e / a) := by
    apply mul_nonneg (div_nonneg (by linarith) (by positivity))
    rw [sub_nonneg, div_le_iff₀ ha]; linarith
  have expand : (b - a) / (2 * b) * (n - e / a)
      = (1/2) * n * (1 - a / b) + (1/2) * e / b - (1/2) * e / a := by
    field_simp; ring
  have hm := mul_le_mul_of_nonneg_left hlog (by positivity : (0:ℝ) ≤ (1/2) * n)
  have hm' : (1/2) * n * (Real.log b - Real.log a) = (1/2) * n * Real.log b - (1/2) * n * Real.log a := by ring
  rw [expand] at key
  rw [hm'] at hm
  linarith

theorem noise_opt {e n σ : ℝ} (hn : 0 < n) (he : 0 < e) (hσ : 0 < σ) :
    -(1/2) * n * Real.log σ - (1/2) * e / σ ≤ -(1/2) * n * Real.log (e / n) - (1/2) * e / (e / n) := by
  have h := Real.log_le_sub_one_of_pos (div_pos (div_pos he hn) hσ)
  rw [Real.log_div (div_pos he hn).ne' hσ.ne'] at h
  have e1 : (1/2) * e / (e / n) = (1/2) * n := by field_simp
  have e2 : (1/2) * e / σ = (1/2) * n * (e / n / σ) := by field_simp
  have hm := mul_le_mul_of_nonneg_left h (by positivity : (0:ℝ) ≤ (1/2) * n)
  have hm1 : (1/2) * n * (Real.log (e / n) - Real.log σ)
      = (1/2) * n * Real.log (e / n) - (1/2) * n * Real.log σ := by ring
  have hm2 : (1/2) * n * (e / n / σ - 1) = (1/2) * n * (e / n / σ) - (1/2) * n := by ring
  rw [hm1, hm2] at hm
  rw [e1, e2]
  linarith

section SigmaEM
variable (N f : ι → κ → ℝ) (s floor : κ → ℝ)

/-- residual of row k after the T update: `e_k = s_k − θ¹_k · a2_k` -/
noncomputable def resid (σ0 : κ → ℝ) (Θ0 : κ → ρ → ℝ) (k : κ) : ℝ :=
  s k - emStep N f σ0 Θ0 k ⬝ᵥ accA2 N f σ0 Θ0 k

/-- ivector.py m_step with update_sigma: `σ¹_k = max(floor_k, e_k / N_k)` -/
noncomputable def sigmaStep (σ0 : κ → ℝ) (Θ0 : κ → ρ → ℝ) : κ → ℝ :=
  fun k => max (floor k) (resid N f s σ0 Θ0 k / ∑ i, N i k)

theorem rowQ_opt {a : ρ → ℝ} {A : Matrix ρ ρ ℝ} (hA : A.PosDef) :
    rowQ a A (A⁻¹ *ᵥ a) = (1/2) * ((A⁻¹ *ᵥ a) ⬝ᵥ a) := by
  unfold rowQ
  rw [posDef_mul_inv_mulVec hA]; ring

/-- EM with joint update of the loading matrix and the diagonal noise (with a floor) never
decreases the full marginal likelihood. -/
theorem linGaussEM_sigma_monotone (hN : ∀ i k, 0 ≤ N i k) (σ0 : κ → ℝ) (hσ0 : ∀ k, 0 < σ0 k)
    (Θ0 : κ → ρ → ℝ) (hA1 : ∀ k, (accA1 N f σ0 Θ0 k).PosDef)
    (hNtot : ∀ k, 0 < ∑ i, N i k) (hfl : ∀ k, 0 < floor k) (hσ0f : ∀ k, floor k ≤ σ0 k) :
    margS N f s σ0 Θ0 ≤ margS N f s (sigmaStep N f s floor σ0 Θ0) (emStep N f σ0 Θ0) := by
  set Θ1 := emStep N f σ0 Θ0 with hΘ1
  set σ1 := sigmaStep N f s floor σ0 Θ0 with hσ1
  have hσ1pos : ∀ k, 0 < σ1 k := fun k => lt_of_lt_of_le (hfl k) (le_max_left _ _)
  have hP0 := fun i => Pmat_posDef N σ0 hN hσ0 Θ0 i
  have hP1 := fun i => Pmat_posDef N σ1 hN hσ1pos Θ1 i
  have hS := fun i => (hP0 i).inv
  -- lower bound at the new parameters, tight at the old ones
  have hold : marg N f σ0 Θ0
      = ∑ i, lowerItem (Pmat N σ0 Θ0 i) (bvec f σ0 Θ0 i) (postMean N f σ0 Θ0 i) (postCov N σ0 Θ0 i) := by
    unfold marg postMean postCov
    exact Finset.sum_congr rfl fun i _ => (item_eq (hP0 i) _).symm
  have hnew : ∑ i, lowerItem (Pmat N σ1 Θ1 i) (bvec f σ1 Θ1 i) (postMean N f σ0 Θ0 i) (postCov N σ0 Θ0 i)
      ≤ marg N f σ1 Θ1 := by
    unfold marg
    exact Finset.sum_le_sum fun i _ => item_bound (hP1 i) (hS i) _ _
  rw [lower_expand] at hnew
  unfold margS
  rw [hold, lower_expand]
  -- per-row comparison
  have hrow : ∀ k ∈ (Finset.univ : Finset κ),
      1 / σ0 k * rowQ (∑ i, f i k • postMean N f σ0 Θ0 i)
          (∑ i, N i k • (postCov N σ0 Θ0 i + vecMulVec (postMean N f σ0 Θ0 i) (postMean N f σ0 Θ0 i))) (Θ0 k)
        + noiseTerm (∑ i, N i k) (s k) (σ0 k)
      ≤ 1 / σ1 k * rowQ (∑ i, f i k • postMean N f σ0 Θ0 i)
          (∑ i, N i k • (postCov N σ0 Θ0 i + vecMulVec (postMean N f σ0 Θ0 i) (postMean N f σ0 Θ0 i))) (Θ1 k)
        + noiseTerm (∑ i, N i k) (s k) (σ1 k) := by
    intro k _
    have hq := rowQ_le (a := accA2 N f σ0 Θ0 k) (hA1 k) (Θ0 k)
    have hq1 := rowQ_opt (a := accA2 N f σ0 Θ0 k) (hA1 k)
    change rowQ (accA2 N f σ0 Θ0 k) (accA1 N f σ0 Θ0 k) (Θ0 k)
      ≤ rowQ (accA2 N f σ0 Θ0 k) (accA1 N f σ0 Θ0 k) (Θ1 k) at hq
    change rowQ (accA2 N f σ0 Θ0 k) (accA1 N f σ0 Θ0 k) (Θ1 k)
      = (1/2) * (Θ1 k ⬝ᵥ accA2 N f σ0 Θ0 k) at hq1
    change 1 / σ0 k * rowQ (accA2 N f σ0 Θ0 k) (accA1 N f σ0 Θ0 k) (Θ0 k) + _
      ≤ 1 / σ1 k * rowQ (accA2 N f σ0 Θ0 k) (accA1 N f σ0 Θ0 k) (Θ1 k) + _
    set q0 := rowQ (accA2 N f σ0 Θ0 k) (accA1 N f σ0 Θ0 k) (Θ0 k)
    set q1 := rowQ (accA2 N f σ0 Θ0 k) (accA1 N f σ0 Θ0 k) (Θ1 k)
    set e := resid N f s σ0 Θ0 k with he
    have he' : e = s k - 2 * q1 := by rw [he, resid, hq1]; ring
    have h0 : 1 / σ0 k * q0 ≤ 1 / σ0 k * q1 :=
      mul_le_mul_of_nonneg_left hq (by have := hσ0 k; positivity)
    -- profile in σ at fixed q1
    have hprof : -(1/2) * (∑ i, N i k) * Real.log (σ0 k) - (1/2) * e / σ0 k
        ≤ -(1/2) * (∑ i, N i k) * Real.log (σ1 k) - (1/2) * e / σ1 k := by
      by_cases hc : floor k ≤ e / ∑ i, N i k
      · have hs1 : σ1 k = e / ∑ i, N i k := by
          simp only [hσ1, sigmaStep]; exact max_eq_right hc
        have hepos : 0 < e := by
          have := lt_of_lt_of_le (hfl k) hc
          exact (div_pos_iff_of_pos_right (hNtot k)).mp this
        rw [hs1]; exact noise_opt (hNtot k) hepos (hσ0 k)
      · have hs1 : σ1 k = floor k := by
          simp only [hσ1, sigmaStep]; exact max_eq_left (le_of_lt (not_le.mp hc))
        rw [hs1]
        apply noise_profile (hNtot k) (hfl k) (hσ0f k)
        have := (div_lt_iff₀ (hNtot k)).mp (not_le.mp hc)
        linarith
    unfold noiseTerm
    have e0 : 1 / 2 * e / σ0 k = 1 / 2 * s k / σ0 k - 1 / σ0 k * q1 := by
      have := hσ0 k
      rw [he']; field_simp
    have e1 : 1 / 2 * e / σ1 k = 1 / 2 * s k / σ1 k - 1 / σ1 k * q1 := by
      have := hσ1pos k
      rw [he']; field_simp
    rw [e0, e1] at hprof
    linarith
  have hsum := Finset.sum_le_sum hrow
  simp only [Finset.sum_add_distrib] at hsum
  linarith
end SigmaEM
#print axioms linGaussEM_sigma_monotone
