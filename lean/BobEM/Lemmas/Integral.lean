import Mathlib.Probability.Distributions.Gaussian.Real
import Mathlib.MeasureTheory.Integral.Pi
import Mathlib.MeasureTheory.Constructions.Pi
import Mathlib.Tactic

open MeasureTheory ProbabilityTheory Finset
open scoped NNReal

variable {C D : ℕ}

/-- the diagonal-Gaussian mixture density integrates to one over ℝ^D -/
theorem mixture_integral_one (w : Fin C → ℝ) (μ : Fin C → Fin D → ℝ) (v : Fin C → Fin D → ℝ≥0)
    (hv : ∀ c d, v c d ≠ 0) (hw : ∑ c, w c = 1) :
    ∫ x : Fin D → ℝ, ∑ c, w c * ∏ d, gaussianPDFReal (μ c d) (v c d) (x d) = 1 := by
  have hint : ∀ c, Integrable (fun x : Fin D → ℝ => w c * ∏ d, gaussianPDFReal (μ c d) (v c d) (x d)) := by
    intro c
    apply Integrable.const_mul
    exact Integrable.fintype_prod (μ := fun _ => (volume : Measure ℝ))
      (f := fun d x => gaussianPDFReal (μ c d) (v c d) x) (fun d => integrable_gaussianPDFReal _ _)
  rw [integral_finset_sum _ (fun c _ => hint c)]
  have : ∀ c, ∫ x : Fin D → ℝ, w c * ∏ d, gaussianPDFReal (μ c d) (v c d) (x d) = w c := by
    intro c
    rw [integral_const_mul]
    have := integral_fintype_prod_eq_prod (𝕜 := ℝ) (μ := fun _ : Fin D => (volume : Measure ℝ))
      (fun d x => gaussianPDFReal (μ c d) (v c d) x)
    rw [volume_pi, this]
    simp [integral_gaussianPDFReal_eq_one _ (hv c _)]
  simp only [this, hw]
#print axioms mixture_integral_one
