import BobEM.Lemmas.GmmEM

/-! MAP EM with means-only relevance adaptation never decreases the relevance-penalised
likelihood (C05): the M-step blend `(F + r μ⁰)/(N + r)` minimises
`Σ_i γ_ic (x_i − m)² + r (m − μ⁰)²`, i.e. maximises the EM auxiliary function plus the log of the
Gaussian prior `N(μ⁰, σ/r)` on the mean. -/

open Finset BobEM

variable {C D : ℕ}

/-- relevance penalty: minus the log of the prior `N(μ⁰_cd, σ_cd / r)` on every mean, up to a constant -/
noncomputable def mapPenalty (r : ℝ) (ubm p : Params (C+1) D ℝ) : ℝ :=
  (r / 2) * ∑ c, ∑ d, (p.means c d - ubm.means c d) * (p.means c d - ubm.means c d) / p.variances c d

section Fin
variable {ι : Type} [Fintype ι] [Nonempty ι]

/-- the penalised weighted least squares problem is solved by the relevance blend -/
theorem penalised_ls (p : Params (C+1) D ℝ) (X : ι → Fin D → ℝ) (c d) (r μ0 m : ℝ) (hr : 0 ≤ r) :
    Sq p X c d ((Fst p X c d + r * μ0) / (Nst p X c + r))
        + r * (((Fst p X c d + r * μ0) / (Nst p X c + r) - μ0) * ((Fst p X c d + r * μ0) / (Nst p X c + r) - μ0))
      ≤ Sq p X c d m + r * ((m - μ0) * (m - μ0)) := by
  have hN := Nst_pos p X c
  have hNr : 0 < Nst p X c + r := by linarith
  set N := Nst p X c
  set F := Fst p X c d
  have key : ∀ t : ℝ, Sq p X c d t + r * ((t - μ0) * (t - μ0))
      = (N + r) * ((t - (F + r * μ0) / (N + r)) * (t - (F + r * μ0) / (N + r)))
        + (Sst p X c d + r * μ0 * μ0 - (F + r * μ0) * (F + r * μ0) / (N + r)) := by
    intro t
    unfold Sq
    field_simp
    ring
  rw [key, key m]
  have : 0 ≤ (N + r) * ((m - (F + r * μ0) / (N + r)) * (m - (F + r * μ0) / (N + r))) :=
    mul_nonneg hNr.le (mul_self_nonneg _)
  simp only [sub_self, mul_zero, zero_add]
  linarith

/-- one MAP iteration (means only, relevance factor `r`) does not decrease
`Σ_i log p(x_i) − penalty` -/
theorem map_means_monotone_fin (cfg : MapCfg (C+1) D ℝ) (ubm p : Params (C+1) D ℝ) (X : ι → Fin D → ℝ) (sq : ℝ → ℝ)
    (hm : cfg.updMeans = true) (hv' : cfg.updVars = false) (hw' : cfg.updWeights = false) (hre : cfg.reynolds = true)
    (hr : 0 ≤ cfg.relevance)
    (hv : ∀ c d, 0 < p.variances c d)
    (hcount : ∀ c, cfg.countThr ≤ Nst p X c) :
    (∑ i, logLik p (X i)) - mapPenalty cfg.relevance ubm p
      ≤ (∑ i, logLik (mapMStepG sq cfg ubm p (stOf p X) (Fintype.card ι)) (X i))
          - mapPenalty cfg.relevance ubm (mapMStepG sq cfg ubm p (stOf p X) (Fintype.card ι)) := by
  set p' := mapMStepG sq cfg ubm p (stOf p X) (Fintype.card ι) with hp'
  have hb : ∑ i, ∑ c, resp p (X i) c * (lwl p' (X i) c - lwl p (X i) c)
      ≤ ∑ i, (logLik p' (X i) - logLik p (X i)) :=
    Finset.sum_le_sum fun i _ => gmm_sample_bound p p' (X i)
  rw [Q_expand, Finset.sum_sub_distrib] at hb
  have hW : p'.weights = p.weights := by simp only [hp', mapMStepG, mapWeights, hw']; rfl
  have hV : p'.variances = p.variances := by simp only [hp', mapMStepG, hv']; rfl
  have hM : ∀ c d, p'.means c d = (Fst p X c d + cfg.relevance * ubm.means c d) / (Nst p X c + cfg.relevance) := by
    intro c d
    have hN := Nst_pos p X c
    have hNr : 0 < Nst p X c + cfg.relevance := by linarith
    simp only [hp', mapMStepG, mapMeans, hm, if_true, mapAlpha, hre, stOf, not_lt.mpr (hcount c), if_false]
    field_simp
    ring
  simp only [hW, hV, sub_self, mul_zero, zero_add] at hb
  -- the remaining Q terms plus the penalty difference are non-negative
  have hpen : mapPenalty cfg.relevance ubm p' - mapPenalty cfg.relevance ubm p
      = (cfg.relevance / 2) * ∑ c, ∑ d, ((p'.means c d - ubm.means c d) * (p'.means c d - ubm.means c d)
          - (p.means c d - ubm.means c d) * (p.means c d - ubm.means c d)) / p.variances c d := by
    unfold mapPenalty
    rw [hV, ← mul_sub, ← Finset.sum_sub_distrib]
    congr 1
    refine Finset.sum_congr rfl fun c _ => ?_
    rw [← Finset.sum_sub_distrib]
    exact Finset.sum_congr rfl fun d _ => by ring
  have hterm : ∀ c d, (-(1/2 : ℝ)) * (Sq p X c d (p'.means c d) / p.variances c d - Sq p X c d (p.means c d) / p.variances c d)
      - (cfg.relevance / 2) * (((p'.means c d - ubm.means c d) * (p'.means c d - ubm.means c d)
          - (p.means c d - ubm.means c d) * (p.means c d - ubm.means c d)) / p.variances c d) ≥ 0 := by
    intro c d
    have h := penalised_ls p X c d cfg.relevance (ubm.means c d) (p.means c d) hr
    rw [← hM c d] at h
    have hpos := hv c d
    have e : (-(1/2 : ℝ)) * (Sq p X c d (p'.means c d) / p.variances c d - Sq p X c d (p.means c d) / p.variances c d)
        - (cfg.relevance / 2) * (((p'.means c d - ubm.means c d) * (p'.means c d - ubm.means c d)
            - (p.means c d - ubm.means c d) * (p.means c d - ubm.means c d)) / p.variances c d)
        = (1/2) * ((Sq p X c d (p.means c d) + cfg.relevance * ((p.means c d - ubm.means c d) * (p.means c d - ubm.means c d)))
            - (Sq p X c d (p'.means c d) + cfg.relevance * ((p'.means c d - ubm.means c d) * (p'.means c d - ubm.means c d))))
          / p.variances c d := by
      field_simp; ring
    rw [e]
    apply div_nonneg _ hpos.le
    linarith
  have hsum : 0 ≤ ∑ c, ∑ d, ((-(1/2 : ℝ)) * (Sq p X c d (p'.means c d) / p.variances c d - Sq p X c d (p.means c d) / p.variances c d)
      - (cfg.relevance / 2) * (((p'.means c d - ubm.means c d) * (p'.means c d - ubm.means c d)
          - (p.means c d - ubm.means c d) * (p.means c d - ubm.means c d)) / p.variances c d)) :=
    Finset.sum_nonneg fun c _ => Finset.sum_nonneg fun d _ => hterm c d
  simp only [Finset.sum_sub_distrib, ← Finset.mul_sum] at hsum
  rw [← hpen] at hsum
  simp only [← Finset.mul_sum, Finset.sum_sub_distrib] at hb
  linarith
#print axioms map_means_monotone_fin
end Fin

/-- list form (the model's `eStep` over a non-empty data set) -/
theorem map_means_monotone (cfg : MapCfg (C+1) D ℝ) (ubm p : Params (C+1) D ℝ) (xs : List (Fin D → ℝ)) (hne : xs ≠ [])
    (sq : ℝ → ℝ)
    (hm : cfg.updMeans = true) (hv' : cfg.updVars = false) (hw' : cfg.updWeights = false) (hre : cfg.reynolds = true)
    (hr : 0 ≤ cfg.relevance)
    (hv : ∀ c d, 0 < p.variances c d)
    (hcount : ∀ c, cfg.countThr ≤ (eStep p xs).n c) :
    lsum (xs.map (logLik p)) - mapPenalty cfg.relevance ubm p
      ≤ lsum (xs.map (logLik (mapMStepG sq cfg ubm p (eStep p xs) (xs.length : ℝ))))
          - mapPenalty cfg.relevance ubm (mapMStepG sq cfg ubm p (eStep p xs) (xs.length : ℝ)) := by
  have : Nonempty (Fin xs.length) := ⟨⟨0, List.length_pos_of_ne_nil hne⟩⟩
  rw [eStep_eq_stOf] at hcount ⊢
  have h := map_means_monotone_fin cfg ubm p (fun i : Fin xs.length => xs[i.1]) sq hm hv' hw' hre hr hv hcount
  simp only [Fintype.card_fin] at h
  rw [lsum_eq, lsum_eq, ← Fin.sum_univ_fun_getElem xs (logLik p), ← Fin.sum_univ_fun_getElem xs]
  exact h
#print axioms map_means_monotone
