import BobEM.Model.FA
import BobEM.Lemmas.RealLinAlg
import BobEM.Lemmas.LinGauss

/-! Identification of the concrete FA kernel (sums over components and features, `LinAlg.inv`)
with the abstract linear-Gaussian model (rows κ = Fin C × Fin D, Mathlib's matrix inverse). -/

open Matrix Finset BobEM BobEM.FA


variable {C D rU rV : ℕ}

/-- abstract rows of a loading -/
def rowsOf {r : ℕ} (L : Fin C → Fin D → Fin r → ℝ) : Fin C × Fin D → Fin r → ℝ := fun k a => L k.1 k.2 a

theorem idPlus_eq_Pmat {r : ℕ} (M : Model C D rU rV ℝ) (L : Fin C → Fin D → Fin r → ℝ) (n : Fin C → ℝ) :
    (Matrix.of fun a b => eye r a b + prodN M L n a b)
      = Pmat (ι := Unit) (fun _ k => n k.1) (fun k => M.s k.1 k.2) (rowsOf L) () := by
  ext a b
  simp only [Pmat, Matrix.of_apply, Matrix.add_apply, Matrix.one_apply, eye, prodN, sumFin_eq,
    Matrix.sum_apply, Matrix.smul_apply, vecMulVec_apply, rowsOf, smul_eq_mul, Fintype.sum_prod_type]
  congr 1
  refine Finset.sum_congr rfl fun c _ => ?_
  rw [Finset.mul_sum]
  exact Finset.sum_congr rfl fun d _ => by ring

theorem projT_eq_bvec {r : ℕ} (M : Model C D rU rV ℝ) (L : Fin C → Fin D → Fin r → ℝ)
    (g : Fin C → Fin D → ℝ) :
    projT M L g = bvec (ι := Unit) (fun _ k => g k.1 k.2) (fun k => M.s k.1 k.2) (rowsOf L) () := by
  funext a
  simp only [projT, bvec, sumFin_eq, Finset.sum_apply, Pi.smul_apply, rowsOf, smul_eq_mul,
    Fintype.sum_prod_type]
  exact Finset.sum_congr rfl fun c _ => Finset.sum_congr rfl fun d _ => by ring

/-- `estimate_x` is the posterior mean of the abstract model for the pooled statistics -/
theorem estimateX_eq_postMean (M : Model C D rU rV ℝ) (sts : List (St C D ℝ)) :
    estimateX M sts =
      postMean (ι := Unit) (fun _ k => nAcc sts k.1)
        (fun _ k => fAcc sts k.1 k.2 - M.m k.1 k.2 * nAcc sts k.1)
        (fun k => M.s k.1 k.2) (rowsOf M.U) () := by
  unfold estimateX postMean idPlusInv
  simp only [LinAlg.inv]
  rw [idPlus_eq_Pmat, projT_eq_bvec]
  funext a
  simp only [BobEM.FA.mulVec, sumFin_eq, Matrix.mulVec, dotProduct]
#print axioms estimateX_eq_postMean
