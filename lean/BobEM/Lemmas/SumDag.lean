import BobEM.Model.Sched
import Mathlib.Algebra.BigOperators.Group.Finset.Basic
import Mathlib.Algebra.BigOperators.Group.List.Basic
import Mathlib.Tactic

/-! A reduction DAG delivers `Σ_w (number of paths to w) • (result of w)`, whatever its shape. -/

open BobEM.Sched

variable {M : Type} [AddCommMonoid M]

/-- the value a task delivers when every non-worker task adds up the values of its dependencies -/
def dagVal (deps : ℕ → List ℕ) (isW : ℕ → Bool) (leaf : ℕ → M) : ℕ → ℕ → M
  | 0, _ => 0
  | fuel+1, t => if isW t then leaf t else ((deps t).map (dagVal deps isW leaf fuel)).sum

theorem list_sum_map_finset_sum {ι : Type} (l : List ℕ) (W : Finset ι) (f : ℕ → ι → M) :
    (l.map fun d => ∑ w ∈ W, f d w).sum = ∑ w ∈ W, (l.map fun d => f d w).sum := by
  induction l with
  | nil => simp
  | cons a l ih => simp [ih, Finset.sum_add_distrib]

theorem list_sum_map_nsmul (l : List ℕ) (c : ℕ → ℕ) (x : M) :
    (l.map fun d => c d • x).sum = (l.map c).sum • x := by
  induction l with
  | nil => simp
  | cons a l ih => simp [ih, add_nsmul]

/-- **the value of a reduction DAG**: for every fuel, the value of task `t` is the sum over the workers
of the number of paths from `t` to the worker times the worker's result -/
theorem dagVal_eq_sum_paths (deps : ℕ → List ℕ) (isW : ℕ → Bool) (leaf : ℕ → M) (W : Finset ℕ)
    (hW : ∀ t, isW t = true ↔ t ∈ W) (fuel t : ℕ) :
    dagVal deps isW leaf fuel t = ∑ w ∈ W, pathCountF deps isW fuel w t • leaf w := by
  induction fuel generalizing t with
  | zero => simp [dagVal, pathCountF]
  | succ fuel ih =>
    by_cases ht : isW t = true
    · have htW := (hW t).mp ht
      simp only [dagVal, pathCountF, ht, if_true]
      rw [Finset.sum_eq_single t]
      · simp
      · intro w _ hne; simp [hne]
      · intro h; exact absurd htW h
    · simp only [dagVal, pathCountF, ht, Bool.false_eq_true, if_false]
      have : (deps t).map (dagVal deps isW leaf fuel) = (deps t).map fun d => ∑ w ∈ W, pathCountF deps isW fuel w d • leaf w := by
        apply List.map_congr_left; intro d _; exact ih d
      rw [this, list_sum_map_finset_sum]
      apply Finset.sum_congr rfl; intro w _
      exact list_sum_map_nsmul (deps t) (fun d => pathCountF deps isW fuel w d) (leaf w)

/-- fuel beyond the rank of a task changes nothing (acyclic graph: `rank` decreases along dependencies) -/
theorem dagVal_fuel_stable (deps : ℕ → List ℕ) (isW : ℕ → Bool) (leaf : ℕ → M) (rank : ℕ → ℕ)
    (hr : ∀ t, ∀ d ∈ deps t, rank d < rank t) (t : ℕ) :
    ∀ fuel fuel', rank t < fuel → rank t < fuel' → dagVal deps isW leaf fuel t = dagVal deps isW leaf fuel' t := by
  induction h : rank t using Nat.strong_induction_on generalizing t with
  | _ n ih =>
    intro fuel fuel' h1 h2
    obtain ⟨f, rfl⟩ : ∃ f, fuel = f + 1 := ⟨fuel - 1, by omega⟩
    obtain ⟨f', rfl⟩ : ∃ f', fuel' = f' + 1 := ⟨fuel' - 1, by omega⟩
    simp only [dagVal]
    split
    · rfl
    · congr 1
      apply List.map_congr_left; intro d hd
      have := hr t d hd
      exact ih (rank d) (by omega) d rfl f f' (by omega) (by omega)

/-- **exactly once, for any reduction shape**: in an acyclic graph in which every worker is reached
from task `t` along exactly one path, `t` receives exactly the sum of the workers' results — each
once, none dropped, none twice — however the additions are grouped (flat list, pairwise tree, 8-ary
tree, uneven levels) -/
theorem dagVal_exactly_once (deps : ℕ → List ℕ) (isW : ℕ → Bool) (leaf : ℕ → M) (W : Finset ℕ)
    (hW : ∀ t, isW t = true ↔ t ∈ W) (rank : ℕ → ℕ) (hr : ∀ t, ∀ d ∈ deps t, rank d < rank t)
    (t fuel : ℕ) (hf : rank t < fuel) (hone : ∀ w ∈ W, pathCountF deps isW fuel w t = 1)
    (fuel' : ℕ) (hf' : rank t < fuel') :
    dagVal deps isW leaf fuel' t = ∑ w ∈ W, leaf w := by
  rw [dagVal_fuel_stable deps isW leaf rank hr t fuel' fuel hf' hf, dagVal_eq_sum_paths deps isW leaf W hW]
  apply Finset.sum_congr rfl; intro w hw; rw [hone w hw, one_smul]

/-- a dropped worker is visible: if some worker has no path to `t`, its result is absent from the value
(the value does not change when that worker's result is replaced by anything else) -/
theorem dagVal_dropped_worker_ignored (deps : ℕ → List ℕ) (isW : ℕ → Bool) (leaf leaf' : ℕ → M) (W : Finset ℕ)
    (hW : ∀ t, isW t = true ↔ t ∈ W) (fuel t w0 : ℕ) (h0 : pathCountF deps isW fuel w0 t = 0)
    (hsame : ∀ w, w ≠ w0 → leaf w = leaf' w) :
    dagVal deps isW leaf fuel t = dagVal deps isW leaf' fuel t := by
  rw [dagVal_eq_sum_paths deps isW leaf W hW, dagVal_eq_sum_paths deps isW leaf' W hW]
  apply Finset.sum_congr rfl; intro w _
  by_cases h : w = w0
  · subst h; simp [h0]
  · rw [hsame w h]

/-! ### From the executable checks to the hypotheses above -/

/-- rank of a task id in a dependency-ordered task list: position + 1 for tasks, 0 for anything else
(graph literals, keys of other collections) -/
def rankOf (g : List TaskEff) (t : ℕ) : ℕ := if g.any (fun x => x.id == t) then posOf g t + 1 else 0

theorem posOf_lt_length (g : List TaskEff) (t : ℕ) (h : g.any (fun x => x.id == t) = true) : posOf g t < g.length := by
  unfold posOf
  rcases hfi : g.findIdx? (fun x => x.id == t) with _ | i
  · rw [List.findIdx?_eq_none_iff] at hfi
    obtain ⟨x, hx, hxt⟩ := List.any_eq_true.mp h
    have := hfi x hx; simp_all
  · have := (List.findIdx?_eq_some_iff_findIdx_eq.mp hfi).1
    rw [hfi]; simpa using this

theorem rankOf_le (g : List TaskEff) (t : ℕ) : rankOf g t ≤ g.length := by
  unfold rankOf; split
  · rename_i h; have := posOf_lt_length g t h; omega
  · omega

theorem topoOrdered_rank (g : List TaskEff) (h : topoOrdered g = true) :
    ∀ t, ∀ d ∈ depsOf g t, rankOf g d < rankOf g t := by
  intro t d hd
  unfold depsOf at hd
  rcases hf : g.find? (fun x => x.id == t) with _ | x
  · rw [hf] at hd; simp at hd
  · rw [hf] at hd
    have hxg : x ∈ g := List.mem_of_find?_eq_some hf
    have hxt : (x.id == t) = true := by simpa using List.find?_some hf
    have hxt' : x.id = t := by simpa using hxt
    have htask : g.any (fun y => y.id == t) = true := List.any_eq_true.mpr ⟨x, hxg, hxt⟩
    have := (List.all_eq_true.mp h) x hxg
    have hdd := (List.all_eq_true.mp this) d hd
    unfold rankOf
    rw [htask]; simp only [if_true]
    rw [hxt'] at hdd
    by_cases hdt : g.any (fun y => y.id == d) = true
    · rw [hdt] at hdd ⊢; simp at hdd ⊢; omega
    · simp only [hdt]; simp

/-- **soundness of the executable exactly-once check**: a recorded graph that is in dependency order
and passes `exactlyOnce` delivers to its final task exactly the sum of the workers' results, if every
task between them adds up its dependencies -/
theorem exactlyOnce_sound (g : List TaskEff) (final : ℕ) (workers : List ℕ) (leaf : ℕ → M)
    (ht : topoOrdered g = true) (he : exactlyOnce g final workers = true) (fuel : ℕ) (hf : g.length < fuel) :
    dagVal (depsOf g) (fun x => workers.contains x) leaf fuel final = ∑ w ∈ workers.toFinset, leaf w := by
  apply dagVal_exactly_once (depsOf g) (fun x => workers.contains x) leaf workers.toFinset
    (by intro t; simp) (rankOf g) (topoOrdered_rank g ht) final (g.length + 1)
    (by have := rankOf_le g final; omega)
  · intro w hw
    have hw' : w ∈ workers := by simpa using hw
    have := (List.all_eq_true.mp he) w hw'
    simpa [pathCount] using this
  · have := rankOf_le g final; omega

#print axioms exactlyOnce_sound
