import BobEM.Lemmas.Sched

/-! Worker isolation: tasks run on private copies of the graph literals (the shared objects as of
submission) and only their results travel back; the caller then copies the returned fields into
its own objects. Shape of every trainer's graph: readers that do not write shared locations,
then one writer that also returns what it wrote. -/

variable {Loc Val : Type}

open Classical in
/-- what an isolated task sees: shared locations as of submission, everything else live -/
noncomputable def view (Sh : Set Loc) (s0 s : Loc → Val) : Loc → Val :=
  fun l => if l ∈ Sh then s0 l else s l

open Classical in
/-- isolated execution of one task: computed on the view, only non-shared writes persist -/
noncomputable def RWTask.runIso (t : RWTask Loc Val) (Sh : Set Loc) (s0 s : Loc → Val) : Loc → Val :=
  fun l => if l ∈ t.writes ∧ l ∉ Sh then t.f (view Sh s0 s) l else s l

open Classical in
/-- the caller assigns the returned fields (`ret l` is the result slot holding field `l`) -/
noncomputable def copyBack (F : Set Loc) (ret : Loc → Loc) (s : Loc → Val) : Loc → Val :=
  fun l => if l ∈ F then s (ret l) else s l

/-- a task that writes no shared location and runs while shared locations still hold their
submission values behaves identically in both modes -/
theorem runIso_eq_run_of_reader (t : RWTask Loc Val) (Sh : Set Loc) (s0 s : Loc → Val)
    (hw : Disjoint t.writes Sh) (hs : ∀ l ∈ Sh, s l = s0 l) :
    t.runIso Sh s0 s = t.run s := by
  have hv : view Sh s0 s = s := by
    funext l; unfold view; split_ifs with h
    · exact (hs l h).symm
    · rfl
  funext l
  unfold RWTask.runIso RWTask.run
  rw [hv]
  by_cases h : l ∈ t.writes
  · have : l ∉ Sh := fun h' => (Set.disjoint_left.mp hw) h h'
    simp [h, this]
  · simp [h]

theorem run_preserves_shared (t : RWTask Loc Val) (Sh : Set Loc) (s0 s : Loc → Val)
    (hw : Disjoint t.writes Sh) (hs : ∀ l ∈ Sh, s l = s0 l) : ∀ l ∈ Sh, t.run s l = s0 l := by
  intro l hl
  rw [t.run_of_not_mem s (fun h => (Set.disjoint_left.mp hw) h hl)]
  exact hs l hl

/-- readers, in any fixed order, give the same store in both modes -/
theorem readers_iso_eq (Sh : Set Loc) (s0 : Loc → Val) :
    ∀ (rs : List (RWTask Loc Val)) (s : Loc → Val),
      (∀ t ∈ rs, Disjoint t.writes Sh) → (∀ l ∈ Sh, s l = s0 l) →
      rs.foldl (fun s t => t.runIso Sh s0 s) s = rs.foldl (fun s t => t.run s) s ∧
      ∀ l ∈ Sh, rs.foldl (fun s t => t.run s) s l = s0 l := by
  intro rs
  induction rs with
  | nil => intro s _ hs; exact ⟨rfl, hs⟩
  | cons t rs ih =>
    intro s hw hs
    simp only [List.foldl_cons]
    rw [runIso_eq_run_of_reader t Sh s0 s (hw t (by simp)) hs]
    exact ih (t.run s) (fun u hu => hw u (by simp [hu]))
      (run_preserves_shared t Sh s0 s (hw t (by simp)) hs)

/-- **isolated = shared** for readers followed by one writer whose shared writes are all copied
back from (non-shared) result slots. Both modes end with the caller's copy-back, as the code
does (`setattr(self, attr, getattr(new_machine, attr))`, `self._U = compute(...)`). -/
theorem isolated_eq_shared (Sh F : Set Loc) (ret : Loc → Loc) (s0 : Loc → Val)
    (rs : List (RWTask Loc Val)) (w : RWTask Loc Val)
    (hr : ∀ t ∈ rs, Disjoint t.writes Sh)
    (hF : ∀ l, l ∈ w.writes → l ∈ Sh → l ∈ F)            -- copy-back is complete
    (hFw : ∀ l ∈ F, l ∈ w.writes ∧ l ∈ Sh ∧ ret l ∈ w.writes ∧ ret l ∉ Sh) :
    copyBack F ret (w.runIso Sh s0 (rs.foldl (fun s t => t.runIso Sh s0 s) s0))
      = copyBack F ret (w.run (rs.foldl (fun s t => t.run s) s0)) := by
  obtain ⟨heq, hsh⟩ := readers_iso_eq Sh s0 rs s0 hr (fun _ _ => rfl)
  rw [heq]
  set s := rs.foldl (fun s t => t.run s) s0 with hs
  have hv : view Sh s0 s = s := by
    funext l; unfold view; split_ifs with h
    · exact (hsh l h).symm
    · rfl
  funext l
  unfold copyBack
  by_cases hl : l ∈ F
  · obtain ⟨_, _, hrw, hrs⟩ := hFw l hl
    simp only [hl, if_true]
    unfold RWTask.runIso RWTask.run
    simp [hrw, hrs, hv]
  · simp only [hl, if_false]
    unfold RWTask.runIso RWTask.run
    by_cases hw : l ∈ w.writes
    · have hnsh : l ∉ Sh := fun h => hl (hF l hw h)
      simp [hw, hnsh, hv]
    · simp [hw]
#print axioms isolated_eq_shared
