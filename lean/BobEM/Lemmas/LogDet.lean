import Mathlib.Analysis.Matrix.Order
import Mathlib.Analysis.Matrix.PosDef
import Mathlib.Analysis.SpecialFunctions.Log.Basic
import Mathlib.Tactic

open Matrix Finset
open scoped MatrixOrder Matrix.Norms.L2Operator

variable {n : Type} [Fintype n] [DecidableEq n]

theorem logdet_le_trace_sub {M : Matrix n n ℝ} (hM : M.PosDef) :
    Real.log M.det ≤ M.trace - Fintype.card n := by
  have hH := hM.isHermitian
  rw [hH.det_eq_prod_eigenvalues, hH.trace_eq_sum_eigenvalues]
  simp only [RCLike.ofReal_real_eq_id, id]
  rw [Real.log_prod (fun i _ => (hM.eigenvalues_pos i).ne')]
  have : (Fintype.card n : ℝ) = ∑ _i : n, (1:ℝ) := by simp
  rw [this, ← Finset.sum_sub_distrib]
  exact Finset.sum_le_sum fun i _ => Real.log_le_sub_one_of_pos (hM.eigenvalues_pos i)

theorem logdet_mul_le {P S : Matrix n n ℝ} (hP : P.PosDef) (hS : S.PosDef) :
    Real.log P.det + Real.log S.det ≤ (P * S).trace - Fintype.card n := by
  obtain ⟨y, hy, rfl⟩ := CStarAlgebra.isStrictlyPositive_iff_eq_star_mul_self.mp hS.isStrictlyPositive
  have hyu : IsUnit y.det := (Matrix.isUnit_iff_isUnit_det y).mp hy
  have hyd : y.det ≠ 0 := hyu.ne_zero
  have hM : (y * P * yᴴ).PosDef := by
    apply hP.mul_mul_conjTranspose_same
    exact Matrix.vecMul_injective_of_isUnit hy
  have h := logdet_le_trace_sub hM
  rw [det_mul, det_mul, det_conjTranspose] at h
  rw [star_eq_conjTranspose, det_mul, det_conjTranspose]
  simp only [star_trivial] at h ⊢
  have hPd := hP.det_pos
  rw [Real.log_mul (mul_ne_zero hyd hPd.ne') hyd, Real.log_mul hyd hPd.ne'] at h
  rw [Real.log_mul hyd hyd]
  have ht : (y * P * yᴴ).trace = (P * (yᴴ * y)).trace := by
    rw [Matrix.mul_assoc, Matrix.trace_mul_comm, Matrix.mul_assoc]
  rw [← ht]; linarith
#print axioms logdet_mul_le
