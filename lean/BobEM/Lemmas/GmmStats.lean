import BobEM.Lemmas.GmmEM

open Finset BobEM
variable {C D : ℕ}


theorem C02_additive (p : Params (C+1) D ℝ) (xs ys : List (Fin D → ℝ)) :
    eStep p (xs ++ ys) = (eStep p xs).add (eStep p ys) := by
  unfold eStep Stats.add
  simp only [lsum_eq, List.map_append, List.sum_append, List.length_append]

theorem C02_any_partition (p : Params (C+1) D ℝ) (blocks : List (List (Fin D → ℝ))) :
    eStep p blocks.flatten = (blocks.map (eStep p)).foldl Stats.add Stats.zero := by
  have hz : ∀ s : Stats (C+1) D ℝ, Stats.zero.add s = s := by
    intro s; simp [Stats.add, Stats.zero]
  have hz' : ∀ s : Stats (C+1) D ℝ, s.add Stats.zero = s := by
    intro s; simp [Stats.add, Stats.zero]
  have hassoc : ∀ a b c : Stats (C+1) D ℝ, (a.add b).add c = a.add (b.add c) := by
    intro a b c; simp [Stats.add, add_assoc]
  have hnil : eStep p ([] : List (Fin D → ℝ)) = Stats.zero := by
    simp [eStep, Stats.zero, lsum_eq]
  have gen : ∀ (acc : Stats (C+1) D ℝ) (bl : List (List (Fin D → ℝ))),
      (bl.map (eStep p)).foldl Stats.add acc = acc.add (eStep p bl.flatten) := by
    intro acc bl
    induction bl generalizing acc with
    | nil => simp [hnil, hz']
    | cons b bl ih =>
      simp only [List.map_cons, List.foldl_cons, List.flatten_cons]
      rw [ih, C02_additive, hassoc]
  rw [gen, hz]

/-- responsibilities are non-negative and add up to the number of samples -/
theorem C02_resp_simplex (p : Params (C+1) D ℝ) (xs : List (Fin D → ℝ)) :
    (∀ c, 0 ≤ (eStep p xs).n c) ∧ ∑ c, (eStep p xs).n c = xs.length := by
  rw [eStep_eq_stOf]
  constructor
  · intro c
    show 0 ≤ ∑ i : Fin xs.length, resp p xs[i.1] c
    exact Finset.sum_nonneg fun i _ => (resp_pos p _ c).le
  · show ∑ c, ∑ i : Fin xs.length, resp p xs[i.1] c = xs.length
    rw [Finset.sum_comm]; simp [resp_sum_one]
#print axioms C02_any_partition
#print axioms C02_resp_simplex
