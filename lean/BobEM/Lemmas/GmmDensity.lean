import BobEM.Lemmas.Real
import Mathlib.Probability.Distributions.Gaussian.Real

open Finset BobEM ProbabilityTheory
open scoped NNReal

variable {C D : ℕ}

theorem log_gaussianPDFReal (μ x : ℝ) (v : ℝ≥0) (hv : v ≠ 0) :
    Real.log (gaussianPDFReal μ v x)
      = -(1/2 : ℝ) * (Real.log (2 * Real.pi) + Real.log v + (x - μ) * (x - μ) / v) := by
  have hv' : (0:ℝ) < v := by exact_mod_cast pos_iff_ne_zero.mpr hv
  unfold gaussianPDFReal
  have h2pi : (0:ℝ) < 2 * Real.pi := by positivity
  rw [Real.log_mul (by positivity) (Real.exp_pos _).ne', Real.log_exp, Real.log_inv,
    Real.log_sqrt (by positivity), Real.log_mul h2pi.ne' hv'.ne']
  field_simp
  ring

/-- `exp (lwl p x c)` is the weighted component density -/
theorem exp_lwl_eq (p : Params C D ℝ) (x : Fin D → ℝ)
    (v : Fin C → Fin D → ℝ≥0) (hvne : ∀ c d, v c d ≠ 0) (hv : ∀ c d, p.variances c d = v c d)
    (hw : ∀ c, 0 < p.weights c) (c : Fin C) :
    Real.exp (lwl p x c) = p.weights c * ∏ d, gaussianPDFReal (p.means c d) (v c d) (x d) := by
  have hpos : ∀ d, 0 < gaussianPDFReal (p.means c d) (v c d) (x d) :=
    fun d => gaussianPDFReal_pos _ _ _ (hvne c d)
  have hprod : 0 < ∏ d, gaussianPDFReal (p.means c d) (v c d) (x d) :=
    Finset.prod_pos fun d _ => hpos d
  rw [← Real.exp_log (mul_pos (hw c) hprod), Real.log_mul (hw c).ne' hprod.ne',
    Real.log_prod (fun d _ => (hpos d).ne')]
  congr 1
  unfold lwl gNorm
  simp only [sumFin_eq, Transc.log, Transc.pi, hv]
  simp only [log_gaussianPDFReal _ _ _ (hvne c _)]
  rw [← Finset.mul_sum, Finset.sum_add_distrib, Finset.sum_add_distrib]

/-- C01: the model's log-likelihood is the log of the mixture of products of Mathlib's normal
densities (weights and variances positive). -/
theorem C01_loglik_eq_log_mixture (p : Params (C+1) D ℝ) (x : Fin D → ℝ)
    (v : Fin (C+1) → Fin D → ℝ≥0) (hvne : ∀ c d, v c d ≠ 0) (hv : ∀ c d, p.variances c d = v c d)
    (hw : ∀ c, 0 < p.weights c) :
    logLik p x = Real.log (∑ c, p.weights c * ∏ d, gaussianPDFReal (p.means c d) (v c d) (x d)) := by
  rw [logLik, logaddexpReduce_eq]
  congr 1
  exact Finset.sum_congr rfl fun c _ => exp_lwl_eq p x v hvne hv hw c
