import BobEM.Lemmas.FATrainIdent

/-! ISV / JFA training is invariant under reordering the classes and the sessions inside each class
(C16): every quantity a training step takes from the data is a sum over classes of a function of
the class, and each such function takes from its sessions only sums over sessions. -/

open BobEM BobEM.FA

variable {C D rU rV : ℕ}

/-! ### generic: zipping a list with an image of itself, sums of accumulators under permutation -/

theorem zip_map_self {β γ : Type} (l : List β) (g : β → γ) : l.zip (l.map g) = l.map fun s => (s, g s) := by
  induction l with
  | nil => rfl
  | cons s l ih => simp [ih]

theorem Acc_ext {r : ℕ} {x y : Acc C D r ℝ} (h1 : ∀ c a b, x.a1 c a b = y.a1 c a b) (h2 : ∀ c d a, x.a2 c d a = y.a2 c d a) :
    x = y := by
  cases x; cases y
  simp only [Acc.mk.injEq]
  exact ⟨funext fun c => funext fun a => funext fun b => h1 c a b, funext fun c => funext fun d => funext fun a => h2 c d a⟩

theorem AccD_ext {x y : AccD C D ℝ} (h1 : ∀ c d, x.a1 c d = y.a1 c d) (h2 : ∀ c d, x.a2 c d = y.a2 c d) : x = y := by
  cases x; cases y
  simp only [AccD.mk.injEq]
  exact ⟨funext fun c => funext fun d => h1 c d, funext fun c => funext fun d => h2 c d⟩

theorem Acc_sum_perm {r : ℕ} {l l' : List (Acc C D r ℝ)} (h : l.Perm l') : Acc.sum l = Acc.sum l' := by
  apply Acc_ext
  · intro c a b
    rw [accSum_a1, accSum_a1]
    exact (h.map _).sum_eq
  · intro c d a
    rw [accSum_a2, accSum_a2]
    exact (h.map _).sum_eq

theorem AccD_sum_perm {l l' : List (AccD C D ℝ)} (h : l.Perm l') : AccD.sum l = AccD.sum l' := by
  apply AccD_ext
  · intro c d
    rw [accDSum_a1, accDSum_a1]
    exact (h.map _).sum_eq
  · intro c d
    rw [accDSum_a2, accDSum_a2]
    exact (h.map _).sum_eq

/-! ### the per-class quantities depend on the sessions only through permutation-invariant sums -/

theorem nAcc_perm {sts sts' : List (St C D ℝ)} (h : sts.Perm sts') : nAcc sts = nAcc sts' := by
  funext c; simp only [nAcc, lsum_eq]; exact (h.map _).sum_eq
theorem fAcc_perm {sts sts' : List (St C D ℝ)} (h : sts.Perm sts') : fAcc sts = fAcc sts' := by
  funext c d; simp only [fAcc, lsum_eq]; exact (h.map _).sum_eq

theorem uxTerm_zeros_fun (M : Model C D rU rV ℝ) (sts : List (St C D ℝ)) :
    uxTerm M sts (zerosX (rU := rU) sts.length) = fun _ _ => 0 := by
  funext c d; exact uxTerm_zeros M sts c d

/-- `Σ_h N_h U x_h` with `x_h` a function of the session: a sum over sessions -/
theorem uxTerm_map (M : Model C D rU rV ℝ) (sts : List (St C D ℝ)) (g : St C D ℝ → Fin rU → ℝ) (c : Fin C) (d : Fin D) :
    uxTerm M sts (sts.map g) c d = (sts.map fun s => s.n c * apply M.U (g s) c d).sum := by
  simp only [uxTerm, lsum_eq, zip_map_self, List.map_map, Function.comp_def]

theorem uxTerm_map_perm (M : Model C D rU rV ℝ) {sts sts' : List (St C D ℝ)} (h : sts.Perm sts') (g : St C D ℝ → Fin rU → ℝ) :
    uxTerm M sts (sts.map g) = uxTerm M sts' (sts'.map g) := by
  funext c d; rw [uxTerm_map, uxTerm_map]; exact (h.map _).sum_eq

theorem updateY_zeros_perm (M : Model C D rU rV ℝ) {sts sts' : List (St C D ℝ)} (h : sts.Perm sts') (z : Fin C → Fin D → ℝ) :
    updateY M sts (zerosX sts.length) z = updateY M sts' (zerosX sts'.length) z := by
  simp only [updateY, updateYG, uxTerm_zeros_fun, nAcc_perm h, fAcc_perm h]

theorem eStepV_perm (M : Model C D rU rV ℝ) {sts sts' : List (St C D ℝ)} (h : sts.Perm sts') : eStepV M sts = eStepV M sts' := by
  simp only [eStepV, fnY, updateY_zeros_perm M h, uxTerm_zeros_fun, nAcc_perm h, fAcc_perm h]

theorem eStepU_perm (M : Model C D rU rV ℝ) {sts sts' : List (St C D ℝ)} (h : sts.Perm sts') (y : Fin rV → ℝ) :
    eStepU M sts y = eStepU M sts' y := by
  simp only [eStepU]; exact Acc_sum_perm (h.map _)

theorem updateZ_map_perm (M : Model C D rU rV ℝ) {sts sts' : List (St C D ℝ)} (h : sts.Perm sts') (g : St C D ℝ → Fin rU → ℝ)
    (y : Fin rV → ℝ) : updateZ M sts (sts.map g) y = updateZ M sts' (sts'.map g) y := by
  funext c d
  simp only [updateZ]
  rw [uxTerm_map_perm M h g, nAcc_perm h, fAcc_perm h]

theorem eStepD_map_perm (M : Model C D rU rV ℝ) {sts sts' : List (St C D ℝ)} (h : sts.Perm sts') (g : St C D ℝ → Fin rU → ℝ)
    (y : Fin rV → ℝ) : eStepD M sts (sts.map g) y = eStepD M sts' (sts'.map g) y := by
  simp only [eStepD, fnZ]
  rw [updateZ_map_perm M h g, uxTerm_map_perm M h g, nAcc_perm h, fAcc_perm h]

theorem eStepIsv_perm (M : Model C D rU rV ℝ) {sts sts' : List (St C D ℝ)} (h : sts.Perm sts') : eStepIsv M sts = eStepIsv M sts' := by
  simp only [eStepIsv, zip_map_self, List.map_map, Function.comp_def]
  rw [updateZ_map_perm M h]
  exact Acc_sum_perm (h.map _)

/-! ### training steps as sums over classes of functions of the class -/

theorem stepU_classfn (M : Model C D rU rV ℝ) (classes : List (List (St C D ℝ))) (gY : List (St C D ℝ) → Fin rV → ℝ) :
    stepU M classes (classes.map gY)
      = { M with U := solveLoading (Acc.sum (classes.map fun sts => eStepU M sts (gY sts))) } := by
  simp only [stepU, zip_map_self, List.map_map, Function.comp_def]

theorem finalizeU_classfn (M : Model C D rU rV ℝ) (classes : List (List (St C D ℝ))) (gY : List (St C D ℝ) → Fin rV → ℝ) :
    finalizeU M classes (classes.map gY) = classes.map fun sts => sts.map fun st => latentX M st (gY sts) zeroZ := by
  simp only [finalizeU, zip_map_self, List.map_map, Function.comp_def]

theorem stepD_classfn (M : Model C D rU rV ℝ) (classes : List (List (St C D ℝ))) (gY : List (St C D ℝ) → Fin rV → ℝ)
    (gX : List (St C D ℝ) → List (Fin rU → ℝ)) :
    stepD M classes (classes.map gX) (classes.map gY)
      = { M with Dd := fun c d =>
            (AccD.sum (classes.map fun sts => eStepD M sts (gX sts) (gY sts))).a2 c d
              / (AccD.sum (classes.map fun sts => eStepD M sts (gX sts) (gY sts))).a1 c d } := by
  have : ((classes.zip (classes.map gX)).zip (classes.map gY)) = classes.map fun sts => ((sts, gX sts), gY sts) := by
    rw [zip_map_self]
    induction classes with
    | nil => rfl
    | cons s l ih => simp [ih]
  simp only [stepD, this, List.map_map, Function.comp_def]

/-- the class-function form of `jfaFit` -/
noncomputable def vecFn {n : ℕ} (f : Fin n → ℝ) : Fin n → ℝ := let v := Vector.ofFn f; fun i => v[i]

theorem jfaFit_classfn (M0 : Model C D rU rV ℝ) (classes : List (List (St C D ℝ))) (k : ℕ) :
    jfaFit M0 classes k =
      (let M1 := iter (fun M => materialize (stepV M classes)) k (materialize M0)
       let gY : List (St C D ℝ) → Fin rV → ℝ := fun sts => vecFn (updateY M1 sts (zerosX (rU := rU) sts.length) zeroZ)
       let M2 := iter (fun M => materialize { M with U := solveLoading (Acc.sum (classes.map fun sts => eStepU M sts (gY sts))) }) k M1
       let gX : List (St C D ℝ) → List (Fin rU → ℝ) := fun sts => sts.map fun st => vecFn (latentX M2 st (gY sts) zeroZ)
       iter (fun M => materialize { M with Dd := fun c d =>
            (AccD.sum (classes.map fun sts => eStepD M sts (gX sts) (gY sts))).a2 c d
              / (AccD.sum (classes.map fun sts => eStepD M sts (gX sts) (gY sts))).a1 c d }) k M2) := by
  simp only [jfaFit, finalizeV, List.map_map, Function.comp_def]
  have hy : (classes.map fun sts => (let v := Vector.ofFn (updateY (iter (fun M => materialize (stepV M classes)) k (materialize M0)) sts (zerosX (rU := rU) sts.length) zeroZ); fun i => v[i]))
      = classes.map fun sts => vecFn (updateY (iter (fun M => materialize (stepV M classes)) k (materialize M0)) sts (zerosX (rU := rU) sts.length) zeroZ) := rfl
  simp only [hy, stepU_classfn, finalizeU_classfn, List.map_map, Function.comp_def]
  have hx : ∀ (M2 : Model C D rU rV ℝ) (gY : List (St C D ℝ) → Fin rV → ℝ),
      (classes.map fun sts => (sts.map fun st => latentX M2 st (gY sts) zeroZ).map fun x => (let v := Vector.ofFn x; fun i => v[i]))
        = classes.map fun sts => sts.map fun st => vecFn (latentX M2 st (gY sts) zeroZ) := by
    intro M2 gY
    simp only [List.map_map, Function.comp_def]
    rfl
  simp only [stepD_classfn]
  rfl

/-! ### reordering the classes and the sessions inside the classes -/

/-- the same labelled sessions: classes in another order, sessions of each class in another order -/
def SameSessions (cl cl' : List (List (St C D ℝ))) : Prop :=
  ∃ mid, List.Forall₂ List.Perm cl mid ∧ mid.Perm cl'

theorem map_eq_of_forall₂_perm {β : Type} {cl mid : List (List (St C D ℝ))} (h : List.Forall₂ List.Perm cl mid)
    (F : List (St C D ℝ) → β) (hF : ∀ s s', s.Perm s' → F s = F s') : cl.map F = mid.map F := by
  induction h with
  | nil => rfl
  | cons hab _ ih => simp only [List.map_cons, hF _ _ hab, ih]

theorem accSum_same {r : ℕ} {cl cl' : List (List (St C D ℝ))} (h : SameSessions cl cl')
    (F : List (St C D ℝ) → Acc C D r ℝ) (hF : ∀ s s', s.Perm s' → F s = F s') :
    Acc.sum (cl.map F) = Acc.sum (cl'.map F) := by
  obtain ⟨mid, h1, h2⟩ := h
  rw [map_eq_of_forall₂_perm h1 F hF]
  exact Acc_sum_perm (h2.map F)

theorem accDSum_same {cl cl' : List (List (St C D ℝ))} (h : SameSessions cl cl')
    (F : List (St C D ℝ) → AccD C D ℝ) (hF : ∀ s s', s.Perm s' → F s = F s') :
    AccD.sum (cl.map F) = AccD.sum (cl'.map F) := by
  obtain ⟨mid, h1, h2⟩ := h
  rw [map_eq_of_forall₂_perm h1 F hF]
  exact AccD_sum_perm (h2.map F)

theorem stepV_same (M : Model C D rU rV ℝ) {cl cl' : List (List (St C D ℝ))} (h : SameSessions cl cl') :
    stepV M cl = stepV M cl' := by
  simp only [stepV]
  rw [accSum_same h (eStepV M) fun s s' hs => eStepV_perm M hs]

theorem stepIsv_same (M : Model C D rU rV ℝ) {cl cl' : List (List (St C D ℝ))} (h : SameSessions cl cl') :
    stepIsv M cl = stepIsv M cl' := by
  simp only [stepIsv]
  rw [accSum_same h (eStepIsv M) fun s s' hs => eStepIsv_perm M hs]

/-- **ISV training does not depend on the order of the classes or of the sessions inside them** -/
theorem isvFit_same (M0 : Model C D rU rV ℝ) {cl cl' : List (List (St C D ℝ))} (h : SameSessions cl cl') (k : ℕ) :
    isvFit M0 cl k = isvFit M0 cl' k := by
  simp only [isvFit]
  have : (fun M : Model C D rU rV ℝ => materialize (stepIsv M cl)) = fun M => materialize (stepIsv M cl') :=
    funext fun M => by rw [stepIsv_same M h]
  rw [this]

/-- **JFA training (all three phases) does not depend on the order of the classes or of the sessions** -/
theorem jfaFit_same (M0 : Model C D rU rV ℝ) {cl cl' : List (List (St C D ℝ))} (h : SameSessions cl cl') (k : ℕ) :
    jfaFit M0 cl k = jfaFit M0 cl' k := by
  rw [jfaFit_classfn, jfaFit_classfn]
  have hV : (fun M : Model C D rU rV ℝ => materialize (stepV M cl)) = fun M => materialize (stepV M cl') :=
    funext fun M => by rw [stepV_same M h]
  simp only [hV]
  set M1 := iter (fun M => materialize (stepV M cl')) k (materialize M0) with hM1
  have hgY : ∀ s s' : List (St C D ℝ), s.Perm s' →
      vecFn (updateY M1 s (zerosX (rU := rU) s.length) zeroZ) = vecFn (updateY M1 s' (zerosX (rU := rU) s'.length) zeroZ) :=
    fun s s' hs => by rw [updateY_zeros_perm M1 hs]
  have hU : (fun M : Model C D rU rV ℝ => materialize { M with U := solveLoading (Acc.sum (cl.map fun sts =>
        eStepU M sts (vecFn (updateY M1 sts (zerosX (rU := rU) sts.length) zeroZ)))) })
      = fun M => materialize { M with U := solveLoading (Acc.sum (cl'.map fun sts =>
        eStepU M sts (vecFn (updateY M1 sts (zerosX (rU := rU) sts.length) zeroZ)))) } := by
    funext M
    rw [accSum_same h (fun sts => eStepU M sts (vecFn (updateY M1 sts (zerosX (rU := rU) sts.length) zeroZ)))
      fun s s' hs => by rw [hgY s s' hs]; exact eStepU_perm M hs _]
  simp only [hU]
  set M2 := iter (fun M : Model C D rU rV ℝ => materialize { M with U := solveLoading (Acc.sum (cl'.map fun sts =>
        eStepU M sts (vecFn (updateY M1 sts (zerosX (rU := rU) sts.length) zeroZ)))) }) k M1 with hM2
  have hD : ∀ M : Model C D rU rV ℝ,
      AccD.sum (cl.map fun sts => eStepD M sts (sts.map fun st => vecFn (latentX M2 st (vecFn (updateY M1 sts (zerosX (rU := rU) sts.length) zeroZ)) zeroZ))
          (vecFn (updateY M1 sts (zerosX (rU := rU) sts.length) zeroZ)))
        = AccD.sum (cl'.map fun sts => eStepD M sts (sts.map fun st => vecFn (latentX M2 st (vecFn (updateY M1 sts (zerosX (rU := rU) sts.length) zeroZ)) zeroZ))
          (vecFn (updateY M1 sts (zerosX (rU := rU) sts.length) zeroZ))) := by
    intro M
    apply accDSum_same h
    intro s s' hs
    rw [hgY s s' hs]
    exact eStepD_map_perm M hs _ _
  simp only [hD]
#print axioms jfaFit_same
#print axioms isvFit_same
