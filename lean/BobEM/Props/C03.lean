import BobEM.Lemmas.GmmEM
import BobEM.Lemmas.Loop
import BobEM.Props.C02

/-!
# C03 — GMM ML training never decreases the likelihood and stops by its stated rule

Model: `BobEM.eStep`, `BobEM.mlMStep` (`gmm.py: ml_gmm_m_step`, count floor `clip(n, thr)`, three
switches, variance floor through the setter), `BobEM.gmmMlIter`, `BobEM.gmmMlFit` = `BobEM.emLoop`
(`GMMMachine.fit`).
-/

open Finset BobEM

variable {C D : ℕ}

/-- One ML EM iteration never decreases the total (hence the average) training log-likelihood, for
every combination of the three update switches, as long as no count floor and no variance floor is
active (the hypotheses state exactly the tests the code performs). -/
theorem C03_ml_em_monotone' (cfg : MlCfg (C+1) D ℝ) (p : Params (C+1) D ℝ)
    (xs : List (Fin D → ℝ)) (hne : xs ≠ [])
    (hw : ∀ c, 0 < p.weights c) (hsum : ∑ c, p.weights c ≤ 1) (hv : ∀ c d, 0 < p.variances c d)
    (hcount : ∀ c, cfg.countThr ≤ (eStep p xs).n c)
    (hfl : cfg.updVars = true → ∀ c d, cfg.varFloor c d ≤ mlRawVar cfg p (eStep p xs) c d)
    (hfl0 : cfg.updVars = true → ∀ c d, 0 < mlRawVar cfg p (eStep p xs) c d) :
    lsum (xs.map (logLik p))
      ≤ lsum (xs.map (logLik (mlMStep cfg p (eStep p xs) (xs.length : ℝ)))) :=
  C03_ml_em_monotone cfg p xs hne hw hsum hv hcount hfl hfl0

/-- the same statement about the iteration of `fit` itself -/
theorem C03_fit_iter_monotone (cfg : MlCfg (C+1) D ℝ) (p : Params (C+1) D ℝ)
    (xs : List (Fin D → ℝ)) (hne : xs ≠ [])
    (hw : ∀ c, 0 < p.weights c) (hsum : ∑ c, p.weights c ≤ 1) (hv : ∀ c d, 0 < p.variances c d)
    (hcount : ∀ c, cfg.countThr ≤ (eStep p xs).n c)
    (hfl : cfg.updVars = true → ∀ c d, cfg.varFloor c d ≤ mlRawVar cfg p (eStep p xs) c d)
    (hfl0 : cfg.updVars = true → ∀ c d, 0 < mlRawVar cfg p (eStep p xs) c d) :
    (eStep p xs).ll ≤ (eStep (gmmMlIter cfg xs p).1 xs).ll := by
  have h := C03_ml_em_monotone cfg p xs hne hw hsum hv hcount hfl hfl0
  simpa [gmmMlIter, eStep, Transc.ofNat] using h

/-- The variance formula of the pinned commit (`sum_pxx/n − means²` with the machine's current
means) is the maximiser only if the means were just updated: it differs from the correct
estimate by exactly `2 μ (μ − m̂)` (defect D4; the likelihood decrease is replayed on the code). -/
theorem C03_old_variance_formula (cfg : MlCfg C D ℝ) (p : Params C D ℝ) (st : Stats C D ℝ) (c : Fin C) (d : Fin D) :
    mlRawVarOld cfg p st c d
      = mlRawVar cfg p st c d
        - 2 * mlMeans cfg p st c d
            * (mlMeans cfg p st c d - st.sumPx c d / max (st.n c) cfg.countThr) := by
  unfold mlRawVarOld mlRawVar; ring

theorem C03_old_eq_new_when_means_updated (cfg : MlCfg C D ℝ) (p : Params C D ℝ) (st : Stats C D ℝ)
    (h : cfg.updMeans = true) (c : Fin C) (d : Fin D) (hc : ¬ st.n c < cfg.countThr) :
    mlRawVarOld cfg p st c d = mlRawVar cfg p st c d := by
  rw [C03_old_variance_formula]; simp [mlMeans, h, hc]

/-- criterion reported at iteration `j ≥ 1` of `fit` -/
noncomputable def gmmCrit (cfg : MlCfg (C+1) D ℝ) (xs : List (Fin D → ℝ)) (p0 : Params (C+1) D ℝ) (j : ℕ) : ℝ :=
  (traj (gmmMlIter cfg xs) p0 0 j).2

/-- **Stopping rule.**  `fit` performs `k ≤ max` iterations and returns the `k`-th iterate; at no
earlier iteration `j ≥ 2` was the relative change `|(L_{j-1} − L_j)/L_{j-1}|` at or below the
threshold; and either `k = max` or (`k ≥ 2` and the relative change at `k` is at or below it). -/
theorem C03_stop_rule (cfg : MlCfg (C+1) D ℝ) (thr : Option ℝ) (maxSteps : ℕ)
    (p0 : Params (C+1) D ℝ) (xs : List (Fin D → ℝ)) :
    ∃ k, k ≤ maxSteps ∧
      gmmMlFit cfg thr maxSteps p0 xs = ((traj (gmmMlIter cfg xs) p0 0 k).1, k) ∧
      (∀ j t, 2 ≤ j → j < k → thr = some t →
          t < relChange (gmmCrit cfg xs p0 (j-1)) (gmmCrit cfg xs p0 j)) ∧
      (k = maxSteps ∨ (2 ≤ k ∧ ∃ t, thr = some t ∧
          relChange (gmmCrit cfg xs p0 (k-1)) (gmmCrit cfg xs p0 k) ≤ t)) := by
  obtain ⟨k, hk, heq, hno, hend⟩ := emLoop_spec (gmmMlIter cfg xs) (convStop thr) p0 0 maxSteps
  refine ⟨k, hk, heq, ?_, ?_⟩
  · intro j t h2 hjk hthr
    have := hno j hjk
    by_contra hle
    apply this
    refine ⟨h2, ?_⟩
    simp only [convStop, hthr, decide_eq_true_eq]
    exact not_lt.mp hle
  · rcases hend with h | ⟨h2, hs⟩
    · exact Or.inl h
    · right
      refine ⟨h2, ?_⟩
      cases hthr : thr with
      | none => simp [convStop, hthr] at hs
      | some t =>
        refine ⟨t, rfl, ?_⟩
        simpa [convStop, hthr, gmmCrit] using hs

/-- without a threshold exactly `max` iterations are performed -/
theorem C03_no_threshold (cfg : MlCfg (C+1) D ℝ) (maxSteps : ℕ) (p0 : Params (C+1) D ℝ) (xs : List (Fin D → ℝ)) :
    (gmmMlFit cfg none maxSteps p0 xs).2 = maxSteps := by
  obtain ⟨k, _, heq, _, hend⟩ := C03_stop_rule cfg none maxSteps p0 xs
  rw [heq]
  rcases hend with h | ⟨_, t, ht, _⟩
  · exact h
  · cases ht

/-- the loop replayed on a recorded criterion sequence obeys the same rule (this is the function
the correspondence executes on the implementation's observed trajectory) -/
theorem C03_stopIndex_spec (thr : Option ℝ) (maxSteps : ℕ) (crit : Array ℝ) :
    stopIndex thr maxSteps crit ≤ maxSteps := by
  obtain ⟨k, hk, heq, _, _⟩ := emLoop_spec (fun (i : ℕ) => (i + 1, crit.getD i 0)) (convStop thr) 0 0 maxSteps
  unfold stopIndex; rw [heq]; exact hk

/-- non-vacuity of the monotonicity hypotheses: one component, one feature, two distinct samples,
all three switches on, floors at zero count / tiny variance -/
example : ∃ (_cfg : MlCfg 1 1 ℝ) (p : Params 1 1 ℝ) (xs : List (Fin 1 → ℝ)), xs ≠ [] ∧
    (∀ c, 0 < p.weights c) ∧ ∑ c, p.weights c ≤ 1 ∧ (∀ c d, 0 < p.variances c d) := by
  refine ⟨⟨true, true, true, 0, fun _ _ => 0⟩, ⟨fun _ => 1, fun _ _ => 0, fun _ _ => 1⟩,
    [fun _ => 1, fun _ => -1], by simp, by intro c; norm_num, by simp, by intro c d; norm_num⟩


/-- moment matching: after one ML M-step that updates weights and means with no count floor active,
the mixture mean `Σ_c w_c μ_c` is the sample mean; if the variances are updated too and no variance
floor clamps, the mixture's second moment `Σ_c w_c (σ_c + μ_c²)` is the sample's second moment. A
wrong M-step formula (a count used twice, a statistic of another component, a missing square) breaks
one of the two identities even when training still converges to nearly the same fixed point. -/
theorem C03_mstep_matches_moments (cfg : MlCfg (C+1) D ℝ) (p : Params (C+1) D ℝ) (xs : List (Fin D → ℝ))
    (hm : cfg.updMeans = true) (hw : cfg.updWeights = true)
    (hthr : 0 < cfg.countThr) (hcount : ∀ c, cfg.countThr ≤ (eStep p xs).n c) :
    (∀ d, ∑ c, (mlMStep cfg p (eStep p xs) (xs.length : ℝ)).weights c
              * (mlMStep cfg p (eStep p xs) (xs.length : ℝ)).means c d
          = (xs.map fun x => x d).sum / xs.length) ∧
    (cfg.updVars = true → (∀ c d, cfg.varFloor c d ≤ mlRawVar cfg p (eStep p xs) c d) →
      ∀ d, ∑ c, (mlMStep cfg p (eStep p xs) (xs.length : ℝ)).weights c
              * ((mlMStep cfg p (eStep p xs) (xs.length : ℝ)).variances c d
                 + (mlMStep cfg p (eStep p xs) (xs.length : ℝ)).means c d
                   * (mlMStep cfg p (eStep p xs) (xs.length : ℝ)).means c d)
          = (xs.map fun x => x d * x d).sum / xs.length) := by
  have hn : ∀ c, max ((eStep p xs).n c) cfg.countThr = (eStep p xs).n c := fun c => max_eq_left (hcount c)
  have hlt : ∀ c, ¬ ((eStep p xs).n c < cfg.countThr) := fun c => not_lt.mpr (hcount c)
  have hpos : ∀ c, (eStep p xs).n c ≠ 0 := fun c => (lt_of_lt_of_le hthr (hcount c)).ne'
  obtain ⟨h1, h2⟩ := C02_moments_sum_to_data p xs
  constructor
  · intro d
    rw [← h1 d, Finset.sum_div]
    refine Finset.sum_congr rfl fun c _ => ?_
    simp only [mlMStep, mlMeans, hm, hw, if_true, hn, hlt, if_false]
    have := hpos c
    field_simp
  · intro hv hfl d
    rw [← h2 d, Finset.sum_div]
    refine Finset.sum_congr rfl fun c _ => ?_
    have hraw : mlRawVar cfg p (eStep p xs) c d
        = (eStep p xs).sumPxx c d / (eStep p xs).n c
          - (eStep p xs).sumPx c d / (eStep p xs).n c * ((eStep p xs).sumPx c d / (eStep p xs).n c) := by
      simp only [mlRawVar, mlMeans, hm, if_true, hn, hlt, if_false]; ring
    have hmax := max_eq_right (hfl c d)
    rw [hraw] at hmax
    simp only [mlMStep, hv, hw, if_true, hlt, if_false, hmax, hraw]
    simp only [mlMeans, hm, if_true, hn, hlt, if_false]
    have := hpos c
    field_simp
    ring

/-- the same training configuration with the per-component variance floors renumbered -/
def BobEM.MlCfg.relabel {C D : ℕ} (cfg : MlCfg C D ℝ) (σ : Equiv.Perm (Fin C)) : MlCfg C D ℝ :=
  { cfg with varFloor := fun c => cfg.varFloor (σ c) }

/-- the same mixture with its components numbered differently -/
def BobEM.Params.relabel' {C D : ℕ} (p : Params C D ℝ) (σ : Equiv.Perm (Fin C)) : Params C D ℝ :=
  { weights := fun c => p.weights (σ c), means := fun c => p.means (σ c), variances := fun c => p.variances (σ c) }

/-- ML training does not depend on how the components are numbered: one iteration from the relabelled
model (floors relabelled alike) gives the relabelled result and the same criterion, for all switch
combinations, with count and variance floors active or not (iterating the statement gives the same
for any number of iterations, since the criterion, on which the stopping test runs, is unchanged) -/
theorem C03_iteration_relabel_equivariant (cfg : MlCfg (C+1) D ℝ) (p : Params (C+1) D ℝ)
    (σ : Equiv.Perm (Fin (C+1))) (xs : List (Fin D → ℝ)) :
    gmmMlIter (cfg.relabel σ) xs (p.relabel' σ) = (((gmmMlIter cfg xs p).1).relabel' σ, (gmmMlIter cfg xs p).2) := by
  have hl : ∀ y c, lwl (p.relabel' σ) y c = lwl p y (σ c) := fun _ _ => rfl
  have hL : ∀ y, logLik (p.relabel' σ) y = logLik p y := by
    intro y
    rw [logLik_eq, logLik_eq]
    simp only [hl]
    rw [Equiv.sum_comp σ fun c => Real.exp (lwl p y c)]
  have hst : eStep (p.relabel' σ) xs
      = { n := fun c => (eStep p xs).n (σ c), sumPx := fun c => (eStep p xs).sumPx (σ c),
          sumPxx := fun c => (eStep p xs).sumPxx (σ c), ll := (eStep p xs).ll, t := (eStep p xs).t } := by
    simp only [eStep, hl, hL, funext hL]
  simp only [gmmMlIter, hst]
  refine Prod.ext ?_ rfl
  obtain ⟨um, uv, uw, thr, fl⟩ := cfg
  cases um <;> cases uv <;> cases uw <;>
    simp [mlMStep, mlMeans, mlRawVar, MlCfg.relabel, Params.relabel']
  all_goals (try constructor)
  all_goals (funext c d; congr)
