import BobEM.Lemmas.EnrollAscent
import BobEM.Lemmas.EnrollMode
import BobEM.Lemmas.EnrollConverge

/-!
# C07 — ISV and JFA enrolment climbs to the joint posterior mode of the latent factors

Model: `BobEM.FA.updateY`, `latentX`, `updateZ`, `sweep`, `enroll`, `logPost`
(`factor_analysis.py: update_y / _compute_fn_y_i / _compute_id_plus_vprod_i, compute_latent_x,
update_z, ISVMachine.enroll, JFAMachine.enroll`).  ISV is the case `rV = 0`.
`updateY` conditions on `m + D z` (repair of D7).  `logPost` is the joint log-posterior of the
enrolment data and the latent factors under `mean = m + V y + U x_h + D z`, standard-normal priors and
the UBM's diagonal covariances, written in terms of the enrolment statistics.
-/

open Matrix Finset BobEM BobEM.FA

variable {C D rU rV : ℕ}

/-- the speaker-factor update solves `(I + Vᵀ Σ⁻¹ N V) y = Vᵀ Σ⁻¹ (F − N (m + D z) − Σ_h N_h U x_h)` -/
theorem C07_y_solves_normal_equations (M : Model C D rU rV ℝ) (sts : List (St C D ℝ)) (xs : List (Fin rU → ℝ))
    (z : Fin C → Fin D → ℝ) (hn : ∀ c, 0 ≤ nAcc sts c) (hs : ∀ c d, 0 < M.s c d) :
    faPrecision M M.V (nAcc sts) *ᵥ updateY M sts xs z
      = projT M M.V (fun c d => fAcc sts c d - nAcc sts c * (M.m c d + 1 * (M.Dd c d * z c d)) - uxTerm M sts xs c d) :=
  y_solves_normal_equations M sts xs z hn hs

/-- each channel-factor update solves `(I + Uᵀ Σ⁻¹ N_h U) x = Uᵀ Σ⁻¹ (F_h − N_h (m + D z + V y))` -/
theorem C07_x_solves_normal_equations (M : Model C D rU rV ℝ) (st : St C D ℝ) (y : Fin rV → ℝ)
    (z : Fin C → Fin D → ℝ) (hn : ∀ c, 0 ≤ st.n c) (hs : ∀ c d, 0 < M.s c d) :
    faPrecision M M.U st.n *ᵥ latentX M st y z
      = projT M M.U (fun c d => st.f c d - st.n c * (M.m c d + M.Dd c d * z c d) - st.n c * apply M.V y c d) :=
  x_solves_normal_equations M st y z hn hs

/-- the residual-offset update solves the diagonal system -/
theorem C07_z_closed_form (M : Model C D rU rV ℝ) (sts : List (St C D ℝ)) (xs : List (Fin rU → ℝ))
    (y : Fin rV → ℝ) (c : Fin C) (d : Fin D) (hn : 0 ≤ nAcc sts c) (hs : 0 < M.s c d) :
    (1 + M.Dd c d / M.s c d * M.Dd c d * nAcc sts c) * updateZ M sts xs y c d
      = M.Dd c d / M.s c d * (fAcc sts c d - nAcc sts c * (M.m c d + apply M.V y c d) - uxTerm M sts xs c d) :=
  z_closed_form M sts xs y c d hn hs

/-- **the y update is the block maximiser**: no other value of the speaker factor gives a higher
joint log-posterior with the channel factors and the offset fixed -/
theorem C07_block_is_argmax_y (M : Model C D rU rV ℝ) (sts : List (St C D ℝ)) (y' : Fin rV → ℝ) (xs : List (Fin rU → ℝ))
    (z : Fin C → Fin D → ℝ) (hlen : xs.length = sts.length)
    (hn : ∀ st ∈ sts, ∀ c, 0 ≤ st.n c) (hs : ∀ c d, 0 < M.s c d) :
    logPost M sts ⟨y', xs, z⟩ ≤ logPost M sts ⟨updateY M sts xs z, xs, z⟩ :=
  y_update_ascent M sts y' xs z hlen hn hs

/-- **the x updates are the block maximisers** (all sessions at once: they are independent given y, z) -/
theorem C07_block_is_argmax_x (M : Model C D rU rV ℝ) (sts : List (St C D ℝ)) (y : Fin rV → ℝ) (z : Fin C → Fin D → ℝ)
    (xs' : List (Fin rU → ℝ)) (hlen : xs'.length = sts.length)
    (hn : ∀ st ∈ sts, ∀ c, 0 ≤ st.n c) (hs : ∀ c d, 0 < M.s c d) :
    logPost M sts ⟨y, xs', z⟩ ≤ logPost M sts ⟨y, sts.map fun st => latentX M st y z, z⟩ :=
  x_sweep_ascent M sts y z xs' hlen hn hs

/-- **the z update is the block maximiser** -/
theorem C07_block_is_argmax_z (M : Model C D rU rV ℝ) (sts : List (St C D ℝ)) (y : Fin rV → ℝ) (xs : List (Fin rU → ℝ))
    (z' : Fin C → Fin D → ℝ) (hlen : xs.length = sts.length)
    (hn : ∀ c, 0 ≤ nAcc sts c) (hs : ∀ c d, 0 < M.s c d) :
    logPost M sts ⟨y, xs, z'⟩ ≤ logPost M sts ⟨y, xs, updateZ M sts xs y⟩ :=
  z_update_ascent M sts y xs z' hlen hn hs

/-- **enrolment is monotone**: the joint log-posterior after `k + 1` iterations is at least that after
`k`, for ISV (`rV = 0`) and JFA, any number of sessions, fractional counts -/
theorem C07_enroll_monotone (M : Model C D rU rV ℝ) (sts : List (St C D ℝ)) (k : ℕ)
    (hn : ∀ st ∈ sts, ∀ c, 0 ≤ st.n c) (hs : ∀ c d, 0 < M.s c d) :
    logPost M sts (enroll M sts k) ≤ logPost M sts (enroll M sts (k + 1)) :=
  enroll_monotone M sts k hn hs

/-- hence the posterior of `k` iterations is non-decreasing in `k` -/
theorem C07_enroll_monotone_le (M : Model C D rU rV ℝ) (sts : List (St C D ℝ)) (j k : ℕ) (hjk : j ≤ k)
    (hn : ∀ st ∈ sts, ∀ c, 0 ≤ st.n c) (hs : ∀ c d, 0 < M.s c d) :
    logPost M sts (enroll M sts j) ≤ logPost M sts (enroll M sts k) := by
  induction k with
  | zero => simp at hjk; subst hjk; exact le_refl _
  | succ k ih =>
    rcases Nat.lt_or_ge j (k + 1) with h | h
    · exact le_trans (ih (by omega)) (C07_enroll_monotone M sts k hn hs)
    · have : j = k + 1 := by omega
      subst this; exact le_refl _

/-- **the joint mode exists and is unique**: one latent state (with one channel factor per session)
has a joint log-posterior at least that of every other, and strictly larger than that of any
different one.  (`logPost` is a strictly concave quadratic of the flattened latent vector:
`logPost_joint`.) -/
theorem C07_mode_exists_unique (M : Model C D rU rV ℝ) (sts : List (St C D ℝ))
    (hn : ∀ st ∈ sts, ∀ c, 0 ≤ st.n c) (hs : ∀ c d, 0 < M.s c d) :
    ∃ m : Lat C D rU rV ℝ, m.xs.length = sts.length ∧
      ∀ l' : Lat C D rU rV ℝ, l'.xs.length = sts.length →
        logPost M sts l' ≤ logPost M sts m ∧ (logPost M sts l' = logPost M sts m → l' = m) :=
  mode_exists M sts hn hs

/-- **a fixed point of the enrolment iteration is the joint mode**: if one more iteration returns
the same latent state, no state has a higher joint log-posterior and any state with the same value
is that state.  So enrolment cannot stall anywhere but at the mode. -/
theorem C07_fixed_point_is_mode (M : Model C D rU rV ℝ) (sts : List (St C D ℝ)) (l : Lat C D rU rV ℝ)
    (hfix : sweep M sts l = l)
    (hn : ∀ st ∈ sts, ∀ c, 0 ≤ st.n c) (hs : ∀ c d, 0 < M.s c d)
    (l' : Lat C D rU rV ℝ) (hlen' : l'.xs.length = sts.length) :
    logPost M sts l' ≤ logPost M sts l ∧ (logPost M sts l' = logPost M sts l → l' = l) := by
  obtain ⟨hlen, hy, hx, hz⟩ := sweep_fixed_blocks M sts l hfix
  exact fixed_point_is_mode M sts l hlen hn hs hy hx hz l' hlen'

/-- conversely the mode is a fixed point of the iteration (an iteration never decreases `logPost`
and the mode is the only state with the maximal value) -/
theorem C07_mode_is_fixed_point (M : Model C D rU rV ℝ) (sts : List (St C D ℝ)) (m : Lat C D rU rV ℝ)
    (hlen : m.xs.length = sts.length)
    (hn : ∀ st ∈ sts, ∀ c, 0 ≤ st.n c) (hs : ∀ c d, 0 < M.s c d)
    (hmax : ∀ l' : Lat C D rU rV ℝ, l'.xs.length = sts.length →
        logPost M sts l' ≤ logPost M sts m ∧ (logPost M sts l' = logPost M sts m → l' = m)) :
    sweep M sts m = m := by
  have hl : (sweep M sts m).xs.length = sts.length := by simp [sweep]
  have h1 := (hmax _ hl).1
  have h2 := sweep_ascent M sts m hlen hn hs
  exact (hmax _ hl).2 (le_antisymm h1 h2)

/-- **the joint log-posterior along the iterations converges**, from below, to a value not above the mode's -/
theorem C07_posterior_converges (M : Model C D rU rV ℝ) (sts : List (St C D ℝ))
    (hn : ∀ st ∈ sts, ∀ c, 0 ≤ st.n c) (hs : ∀ c d, 0 < M.s c d) :
    ∃ L : ℝ, Filter.Tendsto (fun k => logPost M sts (enroll M sts k)) Filter.atTop (nhds L)
      ∧ ∀ k, logPost M sts (enroll M sts k) ≤ L :=
  posterior_converges M sts hn hs

/-- **enrolment climbs to the joint mode, geometrically**: there are the (unique) mode `m` and a rate
`q < 1` (`q = 1 − 1/(6‖P‖_F² + 1)` for the joint precision `P`) such that after `k` iterations the
log-posterior gap to the mode is at most `q^k` times the initial gap and the squared Euclidean
distance of the latent factors `(y, x_1 … x_H, z)` to the mode at most twice that.
ISV (`rV = 0`) and JFA, any number of sessions, fractional counts. -/
theorem C07_enroll_converges_to_mode (M : Model C D rU rV ℝ) (sts : List (St C D ℝ))
    (hn : ∀ st ∈ sts, ∀ c, 0 ≤ st.n c) (hs : ∀ c d, 0 < M.s c d) :
    ∃ m : Lat C D rU rV ℝ, m.xs.length = sts.length ∧
      (∀ l' : Lat C D rU rV ℝ, l'.xs.length = sts.length →
        logPost M sts l' ≤ logPost M sts m ∧ (logPost M sts l' = logPost M sts m → l' = m)) ∧
      ∃ q : ℝ, 0 ≤ q ∧ q < 1 ∧ ∀ k,
        logPost M sts m - logPost M sts (enroll M sts k) ≤ q ^ k * (logPost M sts m - logPost M sts (enroll M sts 0)) ∧
        latDist2 (enroll M sts k) m ≤ 2 * (q ^ k * (logPost M sts m - logPost M sts (enroll M sts 0))) :=
  enroll_converges M sts hn hs

/-- in the limit the latent factors and the log-posterior tend to the mode and its value -/
theorem C07_enroll_tendsto_mode (M : Model C D rU rV ℝ) (sts : List (St C D ℝ))
    (hn : ∀ st ∈ sts, ∀ c, 0 ≤ st.n c) (hs : ∀ c d, 0 < M.s c d) :
    ∃ m : Lat C D rU rV ℝ, m.xs.length = sts.length ∧
      (∀ l' : Lat C D rU rV ℝ, l'.xs.length = sts.length → logPost M sts l' ≤ logPost M sts m) ∧
      Filter.Tendsto (fun k => latDist2 (enroll M sts k) m) Filter.atTop (nhds 0) ∧
      Filter.Tendsto (fun k => logPost M sts (enroll M sts k)) Filter.atTop (nhds (logPost M sts m)) :=
  enroll_tendsto_mode M sts hn hs

/-- the executed (materialised) enrolment computes the specification's iterates -/
theorem C07_exec_eq_spec (M : Model C D rU rV ℝ) (sts : List (St C D ℝ)) (k : ℕ) :
    (enrollV M sts k).ofV = enroll M sts k :=
  enroll_exec_eq_spec M sts k

/-- non-vacuity: one component, one feature, JFA ranks one, two sessions with positive counts -/
example : ∃ (M : Model 1 1 1 1 ℝ) (sts : List (St 1 1 ℝ)), (∀ st ∈ sts, ∀ c, 0 ≤ st.n c) ∧ (∀ c d, 0 < M.s c d) ∧ sts.length = 2 :=
  ⟨⟨fun _ _ => 0, fun _ _ => 1, fun _ _ _ => 1, fun _ _ _ => 1, fun _ _ => 1⟩, [⟨fun _ => 2, fun _ _ => 1, 2⟩, ⟨fun _ => 1, fun _ _ => -1, 1⟩],
    by intro st h c; simp at h; rcases h with rfl | rfl <;> norm_num, by intro c d; norm_num, rfl⟩
