import BobEM.Lemmas.FAIdent

/-!
# C11 — ISV/JFA scores are channel-compensated linear scores, same via every entry point

Model: `BobEM.FA.estimateX`, `estimateUx`, `pooled`, `clientMean`, `score`, `scoreUsingArray`,
`enrollUsingArray`, `transform` (`factor_analysis.py: estimate_x, estimate_ux, ISVMachine.score /
JFAMachine.score, score_using_array, enroll_using_array, ISVMachine.transform`).
ISV is the case `rV = 0`.
-/

open Matrix Finset BobEM BobEM.FA

variable {C D rU rV : ℕ}

/-- the score **is** the frame-normalised linear score of the client mean `m + V y + D z` against
the pooled probe statistics, with the UBM means shifted by the probe's own channel offset `U x̂` -/
theorem C11_score_is_linear_score (M : Model C D rU rV ℝ) (y : Fin rV → ℝ) (z : Fin C → Fin D → ℝ)
    (sts : List (St C D ℝ)) (eps : ℝ) :
    score M y z sts eps
      = linearScore M.m M.s (fun c d => M.m c d + (apply M.V y c d + M.Dd c d * z c d))
          ⟨(pooled sts).n, (pooled sts).f, (pooled sts).t⟩ (apply M.U (estimateX M sts)) true eps := by
  have h : (fun c d => apply M.V y c d + M.Dd c d * z c d + M.m c d)
      = fun c d => M.m c d + (apply M.V y c d + M.Dd c d * z c d) := by funext c d; ring
  unfold score clientMean estimateUx
  simp only [h]

/-- `x̂` is the posterior mean of the channel factor given the pooled statistics: the solution of
`(I + Uᵀ Σ⁻¹ N U) x = Uᵀ Σ⁻¹ (F − N m)` -/
theorem C11_x_solves_system (M : Model C D rU rV ℝ) (sts : List (St C D ℝ))
    (hn : ∀ c, 0 ≤ nAcc sts c) (hs : ∀ c d, 0 < M.s c d) (a : Fin rU) :
    ∑ b, (eye rU a b + prodN M M.U (nAcc sts) a b) * estimateX M sts b
      = projT M M.U (fun c d => fAcc sts c d - M.m c d * nAcc sts c) a := by
  have hP := Pmat_posDef (ι := Unit) (fun _ k => nAcc sts k.1) (fun k : Fin C × Fin D => M.s k.1 k.2)
      (fun _ k => hn k.1) (fun k => hs k.1 k.2) (rowsOf M.U) ()
  have h := posDef_mul_inv_mulVec hP
    (bvec (ι := Unit) (fun _ k => fAcc sts k.1 k.2 - M.m k.1 k.2 * nAcc sts k.1) (fun k : Fin C × Fin D => M.s k.1 k.2) (rowsOf M.U) ())
  rw [estimateX_eq_postMean, projT_eq_bvec]
  have := congrFun h a
  simp only [postMean] at this ⊢
  rw [← this, ← idPlus_eq_Pmat]
  simp [Matrix.mulVec, dotProduct]

/-- and it is the maximiser of the probe's channel-factor log-posterior
`bᵀx − ½ xᵀ(I + Uᵀ Σ⁻¹ N U)x` -/
theorem C11_x_is_posterior_mode (M : Model C D rU rV ℝ) (sts : List (St C D ℝ))
    (hn : ∀ c, 0 ≤ nAcc sts c) (hs : ∀ c d, 0 < M.s c d) (x : Fin rU → ℝ) :
    let P : Matrix (Fin rU) (Fin rU) ℝ := Matrix.of fun a b => eye rU a b + prodN M M.U (nAcc sts) a b
    let b := projT M M.U (fun c d => fAcc sts c d - M.m c d * nAcc sts c)
    b ⬝ᵥ x - (1/2) * (x ⬝ᵥ (P *ᵥ x))
      ≤ b ⬝ᵥ estimateX M sts - (1/2) * (estimateX M sts ⬝ᵥ (P *ᵥ estimateX M sts)) := by
  intro P b
  have hP : P.PosDef := by
    have := Pmat_posDef (ι := Unit) (fun _ k => nAcc sts k.1) (fun k : Fin C × Fin D => M.s k.1 k.2)
      (fun _ k => hn k.1) (fun k => hs k.1 k.2) (rowsOf M.U) ()
    rwa [← idPlus_eq_Pmat] at this
  have hx : estimateX M sts = P⁻¹ *ᵥ b := by
    funext a
    simp only [estimateX, idPlusInv, LinAlg.inv, BobEM.FA.mulVec, sumFin_eq, Matrix.mulVec, dotProduct, P, b]
  rw [hx, quad_max_eq hP b]
  exact quad_max hP b x

theorem pooled_n (s : St C D ℝ) (rest : List (St C D ℝ)) (c : Fin C) :
    (rest.foldl St.add s).n c = s.n c + (rest.map fun r => r.n c).sum := by
  induction rest generalizing s with
  | nil => simp
  | cons r rest ih => simp only [List.foldl_cons, ih, St.add, List.map_cons, List.sum_cons]; ring
theorem pooled_f (s : St C D ℝ) (rest : List (St C D ℝ)) (c : Fin C) (d : Fin D) :
    (rest.foldl St.add s).f c d = s.f c d + (rest.map fun r => r.f c d).sum := by
  induction rest generalizing s with
  | nil => simp
  | cons r rest ih => simp only [List.foldl_cons, ih, St.add, List.map_cons, List.sum_cons]; ring

/-- **Pooling**: scoring a probe given as several statistics equals scoring their sum -/
theorem C11_pooling (M : Model C D rU rV ℝ) (y : Fin rV → ℝ) (z : Fin C → Fin D → ℝ)
    (sts : List (St C D ℝ)) (hne : sts ≠ []) (eps : ℝ) :
    score M y z sts eps = score M y z [pooled sts] eps := by
  obtain ⟨s, rest, rfl⟩ := List.exists_cons_of_ne_nil hne
  have hn : nAcc (s :: rest) = nAcc [pooled (s :: rest)] := by
    funext c; simp [nAcc, lsum_eq, pooled, pooled_n]
  have hf : fAcc (s :: rest) = fAcc [pooled (s :: rest)] := by
    funext c d; simp [fAcc, lsum_eq, pooled, pooled_f]
  have hx : estimateX M (s :: rest) = estimateX M [pooled (s :: rest)] := by
    unfold estimateX; rw [hn, hf]
  unfold score estimateUx
  rw [hx]
  rfl

/-- the array-level entry points are the statistics-level ones on the UBM statistics of the arrays -/
theorem C11_entry_points {β : Type} (acc : β → St C D ℝ) (M : Model C D rU rV ℝ) (y : Fin rV → ℝ)
    (z : Fin C → Fin D → ℝ) (datas : List β) (X : β) (k : ℕ) (eps : ℝ) :
    scoreUsingArray acc M y z datas eps = score M y z (datas.map acc) eps ∧
    enrollUsingArray acc M X k = enroll M [acc X] k ∧
    transform acc M X = apply M.U (estimateX M [acc X]) :=
  ⟨rfl, rfl, rfl⟩

/-- non-vacuity: one component, one feature, rank-one U -/
example : ∃ (M : Model 1 1 1 0 ℝ) (sts : List (St 1 1 ℝ)), (∀ c, 0 ≤ nAcc sts c) ∧ (∀ c d, 0 < M.s c d) ∧ sts ≠ [] :=
  ⟨⟨fun _ _ => 0, fun _ _ => 1, fun _ _ _ => 1, fun _ _ i => i.elim0, fun _ _ => 1⟩, [⟨fun _ => 2, fun _ _ => 1, 2⟩],
    by intro c; simp [nAcc, lsum_eq], by intro c d; norm_num, by simp⟩
