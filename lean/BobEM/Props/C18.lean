import BobEM.Model.Hdf5
import Mathlib.Data.Real.Basic
import Mathlib.Tactic

/-!
# C18 — Saving and loading a GMM or its statistics preserves them exactly

Model: `BobEM.H5.save / fromFile / load`, `saveStats / statsFromFile / loadStats`, `legacyEncode /
fromLegacy` (`gmm.py: GMMMachine.save, from_hdf5, load; GMMStats.save, from_hdf5, load`).
Values are copied, never recomputed, so "bit-identical" is equality in the model; that the real
HDF5 layer returns the bytes it was given is checked by the correspondence.
-/

open BobEM.H5

variable {C D : ℕ}

/-- a reachable machine: a known trainer, a MAP machine holds its UBM, variances respect the floors -/
structure WellFormed (m : Machine C D ℝ) : Prop where
  trainer : m.trainer = "ml" ∨ m.trainer = "map"
  ubm : m.trainer = "map" → m.ubm.isSome
  floors : ∀ c d, m.thresholds.bc c d ≤ m.variances c d

private theorem clamp_id (m : Machine C D ℝ) (h : WellFormed m) :
    (fun c d => max (m.thresholds.bc c d) (m.variances c d)) = m.variances := by
  funext c d; exact max_eq_right (h.floors c d)

/-- **Round trip**: reading back what was written gives the same machine — weights, means,
variances, floors, trainer kind, iteration limit and threshold (including "not set"), the three
update switches — when the machine's own UBM is offered. -/
theorem C18_machine_roundtrip (m : Machine C D ℝ) (h : WellFormed m) :
    fromFile (save m) m.ubm = .ok m := by
  obtain ⟨tr, cv, ms, w, mu, v, th, um, uv, uw, ub⟩ := m
  have hcl := clamp_id _ h
  have htr := h.trainer
  have hub := h.ubm
  simp only at hcl htr hub
  rcases htr with rfl | rfl
  · cases cv <;> cases ms <;>
      simp [save, fromFile, getBytes, getBool, getVec, getMat, getThr, getOptFloat, getOptInt, File.get?,
        List.find?, hcl]
  · have hu := hub rfl
    cases ub with
    | none => simp at hu
    | some u =>
      cases cv <;> cases ms <;>
        simp [save, fromFile, getBytes, getBool, getVec, getMat, getThr, getOptFloat, getOptInt, File.get?,
          List.find?, hcl]

/-- a MAP machine cannot be read without offering a UBM -/
theorem C18_map_needs_ubm (m : Machine C D ℝ) (h : m.trainer = "map") :
    fromFile (save m) none = .error .needsUbm := by
  obtain ⟨tr, cv, ms, w, mu, v, th, um, uv, uw, ub⟩ := m
  simp only at h; subst h
  cases cv <;> cases ms <;>
    simp [save, fromFile, getBytes, File.get?, List.find?]

/-- saving the machine that was read back writes the same file -/
theorem C18_resave (m : Machine C D ℝ) (h : WellFormed m) (m' : Machine C D ℝ)
    (hl : fromFile (save m) m.ubm = .ok m') : save m' = save m := by
  rw [C18_machine_roundtrip m h] at hl
  cases hl; rfl

/-- any number of save/load round trips -/
theorem C18_many_roundtrips (m : Machine C D ℝ) (h : WellFormed m) (n : ℕ) :
    Nat.iterate (fun r : Except Err (Machine C D ℝ) => r.bind fun x => fromFile (save x) x.ubm) n (Except.ok m)
      = Except.ok m := by
  induction n with
  | zero => rfl
  | succ n ih =>
    rw [Function.iterate_succ_apply', ih]
    exact C18_machine_roundtrip m h

/-- `load` replaces every attribute of the receiver, whatever its shape; it offers its own UBM -/
theorem C18_load_replaces_state {C' D' : ℕ} (self : Machine C' D' ℝ) (m : Machine C D ℝ) (h : WellFormed m)
    (hu : self.ubm = m.ubm) : load self (save m) = .ok m := by
  unfold load; rw [hu]; exact C18_machine_roundtrip m h

theorem C18_stats_roundtrip (s : StatsRec C D ℝ) : statsFromFile (saveStats s) = .ok s := by
  obtain ⟨ll, t, n, px, pxx⟩ := s
  simp [saveStats, statsFromFile, getVec, getMat, File.get?, List.find?]

/-- loading statistics into a container of another shape resizes and overwrites it -/
theorem C18_stats_load_resizes {C' D' : ℕ} (self : StatsRec C' D' ℝ) (s : StatsRec C D ℝ) :
    loadStats self (saveStats s) = .ok s := C18_stats_roundtrip s

/-- the legacy reader yields the same Gaussians as the current reader on the current encoding -/
theorem C18_legacy_equiv (m : Machine C D ℝ) (h : WellFormed m) (ubm : Option ℕ) (thr : ℝ) (steps : ℕ) :
    let l := fromLegacy (legacyEncode m) ubm thr steps
    l.weights = m.weights ∧ l.means = m.means ∧ l.variances = m.variances ∧ l.thresholds.bc = m.thresholds.bc := by
  refine ⟨rfl, rfl, ?_, rfl⟩
  funext c d
  exact max_eq_right (h.floors c d)

/-- non-vacuity: a MAP machine with "no limit" settings is well formed and round-trips -/
example : fromFile (save (⟨"map", none, none, fun _ => 1, fun _ _ => 0, fun _ _ => 1, .scalar (1/2), true, true, false, some 7⟩ :
    Machine 1 1 ℝ)) (some 7) = .ok ⟨"map", none, none, fun _ => 1, fun _ _ => 0, fun _ _ => 1, .scalar (1/2), true, true, false, some 7⟩ :=
  C18_machine_roundtrip _ ⟨Or.inr rfl, fun _ => rfl, fun _ _ => by simp [Thr.bc]; norm_num⟩
