import BobEM.Model.Rng
import BobEM.Props.C02
import BobEM.Props.C14
import BobEM.Lemmas.KMeansDescent
import BobEM.Lemmas.FAPerm
import BobEM.Lemmas.IVectorIdent

/-!
# C16 — A trained model is a function of the labelled sample multiset and the seed only

Model: `BobEM.Rng` (which generator a trainer draws from), and the training kernels of C02/C03/C06/C14
for the sample-order and class-renaming clauses.
-/

open BobEM BobEM.Rng Finset

/-- **History independence**: a fit with an integer `random_state` whose trainer reseeds the global
generator or uses a private one (or uses no randomness) has the same provenance after *any* two
histories of global seedings, global draws and earlier fits -/
theorem C16_history_independent (g₁ g₂ : G) (h₁ h₂ : List Op) (f : Fit) (s : ℕ)
    (hrs : f.randomState = some s) (hsrc : f.source ≠ .globalAsIs) :
    (runFit (h₁.foldl step g₁) f).1 = (runFit (h₂.foldl step g₂) f).1 := by
  unfold runFit
  cases hs : f.source <;> simp_all

/-- …whereas a trainer that draws from the global generator as it finds it (no `random_state`:
the i-vector extractor) does depend on the history — the clause is stated for seeded trainers only -/
theorem C16_global_as_is_depends : ∃ (g₁ g₂ : G) (f : Fit), f.source = .globalAsIs ∧ (runFit g₁ f).1 ≠ (runFit g₂ f).1 :=
  ⟨⟨some 1, 0⟩, ⟨some 2, 0⟩, ⟨0, 0, 0, none, .globalAsIs, 1⟩, rfl, by decide⟩

variable {C D K : ℕ}

/-- GMM ML training from explicit initial parameters: every iterate, the reported criterion and the
number of iterations are invariant under any permutation of the training samples -/
theorem C16_gmm_sample_order (cfg : MlCfg (C+1) D ℝ) (thr : Option ℝ) (fuel : ℕ) (p0 : Params (C+1) D ℝ)
    {xs ys : List (Fin D → ℝ)} (h : xs.Perm ys) :
    gmmMlFit cfg thr fuel p0 xs = gmmMlFit cfg thr fuel p0 ys := by
  have hstep : gmmMlIter cfg xs = gmmMlIter cfg ys := by
    funext p; simp only [gmmMlIter, C02_perm p h]
  unfold gmmMlFit; rw [hstep]

theorem kEStep_perm (cent : Fin (K+1) → Fin D → ℝ) {xs ys : List (Fin D → ℝ)} (h : xs.Perm ys) :
    kEStep cent xs = kEStep cent ys := by
  unfold kEStep
  simp only [lsum_eq]
  congr 1
  · funext k; exact h.countP_eq _
  · funext k j; exact (h.map _).sum_eq
  · exact (h.map _).sum_eq

/-- k-means training from explicit initial centroids is invariant under permutations of the samples
(for any chunking of either order) -/
theorem C16_kmeans_sample_order (thr : Option ℝ) (fuel : ℕ) (c0 : ℝ) (cent0 : Fin (K+1) → Fin D → ℝ)
    (b₁ b₂ : List (List (Fin D → ℝ))) (h : b₁.flatten.Perm b₂.flatten) :
    kFit thr fuel c0 cent0 b₁ = kFit thr fuel c0 cent0 b₂ := by
  have hstep : kIter (K := K) b₁ = kIter b₂ := by
    funext cent
    unfold kIter
    rw [kEStep_blocks, kEStep_blocks, kEStep_perm cent h, h.length_eq]
  unfold kFit; rw [hstep]

/-- the MAP and ML M-steps see the data only through the statistics, which are order-invariant -/
theorem C16_stats_sample_order (p : Params (C+1) D ℝ) {xs ys : List (Fin D → ℝ)} (h : xs.Perm ys) :
    eStep p xs = eStep p ys := C02_perm p h

/-- WCCN: permuting the samples together with their labels leaves the fit unchanged -/
theorem C16_wccn_sample_order {N : ℕ} (chol : (n : ℕ) → (Fin n → Fin n → ℝ) → Fin n → Fin n → ℝ)
    (X : Fin N → Fin D → ℝ) (y : Fin N → ℤ) (classes : List ℤ) (σ : Equiv.Perm (Fin N)) :
    Lin.wccnFit chol (fun n => X (σ n)) (fun n => y (σ n)) classes = Lin.wccnFit chol X y classes := by
  have hcount : ∀ l, Lin.classCount (fun n => y (σ n)) l = Lin.classCount y l := by
    intro l
    simp only [Lin.classCount]
    have : ((List.finRange N).map σ).Perm (List.finRange N) := by
      apply (List.perm_ext_iff_of_nodup ?_ (List.nodup_finRange N)).mpr
      · intro a; simp only [List.mem_map, List.mem_finRange, true_and, iff_true]; exact ⟨σ.symm a, by simp⟩
      · exact (List.nodup_finRange N).map σ.injective
    have h1 := this.countP_eq (fun n => decide (y n = l))
    rw [List.countP_map] at h1
    simpa [Function.comp_def] using h1
  have hmean : ∀ l, Lin.classMean (fun n => X (σ n)) (fun n => y (σ n)) l = Lin.classMean X y l := by
    intro l; funext d
    simp only [Lin.classMean, hcount, sumFin_eq]
    congr 1
    exact Equiv.sum_comp σ (fun n => if y n = l then X n d else 0)
  have hsc : ∀ l, Lin.classScatter (fun n => X (σ n)) (fun n => y (σ n)) l = Lin.classScatter X y l := by
    intro l; funext a b
    simp only [Lin.classScatter, hmean, sumFin_eq]
    exact Equiv.sum_comp σ (fun n => if y n = l then (X n a - Lin.classMean X y l a) * (X n b - Lin.classMean X y l b) else 0)
  have hS : Lin.scaledScatter (fun n => X (σ n)) (fun n => y (σ n)) classes = Lin.scaledScatter X y classes := by
    funext a b; simp only [Lin.scaledScatter, Lin.withinScatter, hsc]
  simp only [Lin.wccnFit, hS]

/-- WCCN: renaming the classes by any injective map (in particular any permutation of the ids) and
enumerating them in any order leaves the fit unchanged -/
theorem C16_wccn_class_renaming {N : ℕ} (chol : (n : ℕ) → (Fin n → Fin n → ℝ) → Fin n → Fin n → ℝ)
    (X : Fin N → Fin D → ℝ) (y : Fin N → ℤ) (classes classes' : List ℤ) (f : ℤ → ℤ) (hf : Function.Injective f)
    (hperm : classes'.Perm (classes.map f)) :
    Lin.wccnFit chol X (fun n => f (y n)) classes' = Lin.wccnFit chol X y classes :=
  C14_wccn_label_invariance chol X y classes classes' f hf hperm


/-! ### ISV / JFA training: order of the classes (= renaming the ids) and of the sessions inside a class -/

open BobEM.FA in
/-- **ISV training** gives the same U whether the classes are enumerated in another order (class ids
renamed by a permutation) and the sessions of each class arrive in another order -/
theorem C16_isv_sample_order_and_renaming {C D rU rV : ℕ} (M0 : Model C D rU rV ℝ) (cl cl' : List (List (St C D ℝ)))
    (h : SameSessions cl cl') (k : ℕ) : isvFit M0 cl k = isvFit M0 cl' k :=
  isvFit_same M0 h k

open BobEM.FA in
/-- **JFA training** (V, then U, then D, `k` iterations each): same statement -/
theorem C16_jfa_sample_order_and_renaming {C D rU rV : ℕ} (M0 : Model C D rU rV ℝ) (cl cl' : List (List (St C D ℝ)))
    (h : SameSessions cl cl') (k : ℕ) : jfaFit M0 cl k = jfaFit M0 cl' k :=
  jfaFit_same M0 h k

open BobEM.FA in
/-- non-vacuity: swapping two classes and the two sessions of one of them is a `SameSessions` pair -/
example (a b c : St 1 1 ℝ) : SameSessions [[a, b], [c]] [[c], [b, a]] :=
  ⟨[[b, a], [c]], List.Forall₂.cons (List.Perm.swap b a []) (List.Forall₂.cons (List.Perm.refl _) List.Forall₂.nil),
    List.Perm.swap [c] [b, a] []⟩


/-! ### i-vector training: order of the training statistics and their partitioning -/

section IVOrder
open BobEM.IV
variable {C D R : ℕ}

theorem iv_eStep_snorm (m : IV.Machine C D R ℝ) (l : List (IV.GStat C D ℝ)) (c : Fin C) (d : Fin D) :
    (IV.eStep m l).snorm c d = (l.map fun st => (IV.contrib m st).snorm c d).sum := by
  induction l with
  | nil => simp [IV.eStep, IV.Stats.zero]
  | cons x l ih => rw [eStep_cons]; simp [IV.Stats.add, ih]

/-- the E-step accumulators do not depend on the order of the statistics -/
theorem iv_eStep_perm (m : IV.Machine C D R ℝ) (l l' : List (IV.GStat C D ℝ)) (h : l.Perm l') :
    IV.eStep m l = IV.eStep m l' := by
  have ext : ∀ a b : IV.Stats C D R ℝ, a.nsw2 = b.nsw2 → a.fsw = b.fsw → a.snorm = b.snorm → a.nij = b.nij → a = b := by
    intro a b h1 h2 h3 h4; cases a; cases b; simp_all
  apply ext
  · funext c t u; rw [eStep_nsw2, eStep_nsw2]; exact (h.map _).sum_eq
  · funext c d t; rw [eStep_fsw, eStep_fsw]; exact (h.map _).sum_eq
  · funext c d; rw [iv_eStep_snorm, iv_eStep_snorm]; exact (h.map _).sum_eq
  · funext c; rw [eStep_nij, eStep_nij]; exact (h.map _).sum_eq

/-- **i-vector training** gives the same extractor for the same multiset of training statistics, in
whatever order they arrive and however they are split into partitions (with or without the covariance
update, any floor, any number of iterations) -/
theorem C16_ivector_sample_order (m0 : IV.Machine C D R ℝ) (parts parts' : List (List (IV.GStat C D ℝ)))
    (h : parts.flatten.Perm parts'.flatten) (updateSigma : Bool) (floor : ℝ) (k : ℕ) :
    IV.fit m0 parts updateSigma floor k = IV.fit m0 parts' updateSigma floor k := by
  induction k with
  | zero => rfl
  | succ k ih =>
    simp only [IV.fit, IV.iterate, ih]
    rw [eStep_partition, eStep_partition, iv_eStep_perm _ _ _ h]
end IVOrder


/-! ### MAP training and whitening: order of the samples -/

/-- **MAP training** sees the data only through order-invariant statistics: every iterate, and hence
whatever loop is run on them, is the same for any order of the samples -/
theorem C16_gmm_map_sample_order {C D : ℕ} (sq : ℝ → ℝ) (cfg : MapCfg (C+1) D ℝ) (ubm p0 : Params (C+1) D ℝ)
    {xs ys : List (Fin D → ℝ)} (h : xs.Perm ys) (c0 : ℝ) (k : ℕ) :
    traj (gmmMapIter sq cfg ubm xs) p0 c0 k = traj (gmmMapIter sq cfg ubm ys) p0 c0 k := by
  have hstep : gmmMapIter sq cfg ubm xs = gmmMapIter sq cfg ubm ys := by
    funext p; simp only [gmmMapIter, C02_perm p h]
  rw [hstep]

/-- **Whitening**: permuting the rows leaves the fit unchanged -/
theorem C16_whitening_sample_order {N D : ℕ} (chol : (n : ℕ) → (Fin n → Fin n → ℝ) → Fin n → Fin n → ℝ)
    (X : Fin N → Fin D → ℝ) (σ : Equiv.Perm (Fin N)) :
    Lin.whitenFit chol (fun n => X (σ n)) = Lin.whitenFit chol X := by
  have hmean : Lin.colMean (fun n => X (σ n)) = Lin.colMean X := by
    funext d
    simp only [Lin.colMean, sumFin_eq]
    rw [Equiv.sum_comp σ (fun n => X n d)]
  have hcov : Lin.covMat (fun n => X (σ n)) = Lin.covMat X := by
    funext a b
    simp only [Lin.covMat, hmean, sumFin_eq]
    rw [Equiv.sum_comp σ (fun n => (X n a - Lin.colMean X a) * (X n b - Lin.colMean X b))]
  simp only [Lin.whitenFit, hmean, hcov]
