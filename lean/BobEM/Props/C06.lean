import BobEM.Lemmas.KMeansDescent
import BobEM.Lemmas.Loop

/-!
# C06 — K-means training descends the true distortion and stops by its stated rule

Model: `BobEM.assign`, `kEStep`, `kMStep`, `kIter`, `kFit` (`kmeans.py: e_step, m_step,
KMeansMachine.fit`).  The E-step returns the **sum** of minimum distances (D1 repair) and a
cluster without samples keeps its centroid (D2 repair).
-/

open Finset BobEM

variable {K D : ℕ}

/-- distortion × N of centroids `c` on data `xs`: Σ_x min_k ‖x − c_k‖² -/
theorem C06_dist_is_sum_of_min (cent : Fin (K+1) → Fin D → ℝ) (xs : List (Fin D → ℝ)) :
    (kEStep cent xs).dist = (xs.map fun x => sqDist x (cent (assign cent x))).sum ∧
    ∀ x k, sqDist x (cent (assign cent x)) ≤ sqDist x (cent k) :=
  ⟨by simp [kEStep, lsum_eq], fun x k => assign_le cent x k⟩

/-- **Descent**: one iteration leaves the (sum, hence mean) squared distance to the nearest
centroid equal or lower.  With the D2 rule this holds even if a cluster is empty. -/
theorem C06_lloyd_descent (cent : Fin (K+1) → Fin D → ℝ) (xs : List (Fin D → ℝ)) :
    (kEStep (kIter [xs] cent).1 xs).dist ≤ (kEStep cent xs).dist := by
  have h := lloyd_descent cent xs
  simp only [wcss] at h
  simpa [kIter, kEStep, lsum_eq, KStats.add, KStats.zero] using h

/-- every returned centroid is the arithmetic mean of the samples nearest to its predecessor -/
theorem C06_centroid_is_mean (cent : Fin (K+1) → Fin D → ℝ) (xs : List (Fin D → ℝ)) (k : Fin (K+1)) (j : Fin D)
    (hne : (xs.countP fun x => assign cent x = k) ≠ 0) :
    (kIter [xs] cent).1 k j
      = ((xs.filter fun x => assign cent x = k).map fun x => x j).sum
          / ((xs.filter fun x => assign cent x = k).length : ℝ) := by
  have hsum : ∀ l : List (Fin D → ℝ), (l.map fun x => if assign cent x = k then x j else 0).sum
      = ((l.filter fun x => assign cent x = k).map fun x => x j).sum := by
    intro l
    induction l with
    | nil => simp
    | cons x l ih =>
      by_cases h : assign cent x = k <;> simp [List.filter_cons, h, ih]
  unfold kIter
  rw [kEStep_blocks]
  simp only [List.flatten_cons, List.flatten_nil, List.append_nil, kMStep, kEStep, hne, if_false, lsum_eq,
    Transc.ofNat, hsum]
  rw [List.countP_eq_length_filter]

/-- additivity of the E-step statistics over row blocks -/
theorem C06_estep_additive (cent : Fin (K+1) → Fin D → ℝ) (xs ys : List (Fin D → ℝ)) :
    kEStep cent (xs ++ ys) = (kEStep cent xs).add (kEStep cent ys) := kEStep_append cent xs ys

/-- an iteration on any list of row blocks equals the iteration on the whole array -/
theorem C06_chunking_independent (cent : Fin (K+1) → Fin D → ℝ) (blocks : List (List (Fin D → ℝ))) :
    kIter blocks cent = kIter [blocks.flatten] cent := by
  unfold kIter
  rw [kEStep_blocks, kEStep_blocks]; simp

/-- the reported criterion is the mean squared distance to the nearest of the centroids entering
the iteration, for every chunking -/
theorem C06_criterion_is_distortion (cent : Fin (K+1) → Fin D → ℝ) (blocks : List (List (Fin D → ℝ))) :
    (kIter blocks cent).2
      = (blocks.flatten.map fun x => sqDist x (cent (assign cent x))).sum / (blocks.flatten.length : ℝ) := by
  unfold kIter
  rw [kEStep_blocks]
  simp [kMStep, kEStep, lsum_eq, Transc.ofNat]

/-- the criterion of the pinned commit on a single block is the distortion divided by N once more (D1) -/
theorem C06_old_criterion_single_block (cent : Fin (K+1) → Fin D → ℝ) (xs : List (Fin D → ℝ)) :
    kCritOld cent [xs] = (kIter [xs] cent).2 / (xs.length : ℝ) := by
  simp [kCritOld, kIter, kMStep, KStats.add, KStats.zero, lsum_eq, Transc.ofNat]

/-- **Stopping rule** (same loop as the GMM) -/
theorem C06_stop_rule (thr : Option ℝ) (maxIter : ℕ) (c0 : ℝ) (cent0 : Fin (K+1) → Fin D → ℝ)
    (blocks : List (List (Fin D → ℝ))) :
    ∃ k, k ≤ maxIter ∧
      kFit thr maxIter c0 cent0 blocks = ((traj (kIter blocks) cent0 c0 k).1, k) ∧
      (∀ j t, 2 ≤ j → j < k → thr = some t →
          t < relChange (traj (kIter blocks) cent0 c0 (j-1)).2 (traj (kIter blocks) cent0 c0 j).2) ∧
      (k = maxIter ∨ (2 ≤ k ∧ ∃ t, thr = some t ∧
          relChange (traj (kIter blocks) cent0 c0 (k-1)).2 (traj (kIter blocks) cent0 c0 k).2 ≤ t)) := by
  obtain ⟨k, hk, heq, hno, hend⟩ := emLoop_spec (kIter blocks) (convStop thr) cent0 c0 maxIter
  refine ⟨k, hk, heq, ?_, ?_⟩
  · intro j t h2 hjk hthr
    by_contra hle
    apply hno j hjk
    refine ⟨h2, ?_⟩
    simp only [convStop, hthr, decide_eq_true_eq]
    exact not_lt.mp hle
  · rcases hend with h | ⟨h2, hs⟩
    · exact Or.inl h
    · right
      refine ⟨h2, ?_⟩
      cases hthr : thr with
      | none => simp [convStop, hthr] at hs
      | some t => exact ⟨t, rfl, by simpa [convStop, hthr] using hs⟩


/-- **every sample is counted exactly once — ties included**: the E-step's counts add up to the number
of samples, whatever the data (a sample exactly equidistant from two centroids goes to the first of
them, in the counts and in the sums alike: both are defined through the same `assign`) -/
theorem C06_counts_partition (cent : Fin (K+1) → Fin D → ℝ) (xs : List (Fin D → ℝ)) :
    ∑ k, (kEStep cent xs).n k = xs.length := by
  simp only [kEStep]
  induction xs with
  | nil => simp
  | cons x xs ih =>
    simp only [List.countP_cons, Finset.sum_add_distrib, ih, List.length_cons]
    congr 1
    rw [Finset.sum_eq_single (assign cent x)]
    · simp
    · intro k _ hk; simp [Ne.symm hk]
    · intro h; exact absurd (Finset.mem_univ _) h

/-- and the per-cluster sums add up to the sum of all samples (no sample enters two clusters' sums) -/
theorem C06_sums_partition (cent : Fin (K+1) → Fin D → ℝ) (xs : List (Fin D → ℝ)) (j : Fin D) :
    ∑ k, (kEStep cent xs).sums k j = (xs.map fun x => x j).sum := by
  simp only [kEStep, lsum_eq]
  induction xs with
  | nil => simp
  | cons x xs ih =>
    simp only [List.map_cons, List.sum_cons, Finset.sum_add_distrib, ih]
    congr 1
    rw [Finset.sum_eq_single (assign cent x)]
    · simp
    · intro k _ hk; simp [Ne.symm hk]
    · intro h; exact absurd (Finset.mem_univ _) h

theorem flatten_filter_nonempty {β : Type} (blocks : List (List β)) :
    (blocks.filter fun b => !b.isEmpty).flatten = blocks.flatten := by
  induction blocks with
  | nil => rfl
  | cons b bs ih =>
    cases b with
    | nil => simpa [List.filter_cons] using ih
    | cons x xs => simp [List.filter_cons, ih]

/-- zero-row blocks (what filtering or concatenating Dask arrays leaves in a chunking) change nothing:
the iteration on a list of blocks equals the iteration on the same list with its empty blocks removed,
wherever they stand -/
theorem C06_zero_row_blocks_irrelevant (cent : Fin (K+1) → Fin D → ℝ) (blocks : List (List (Fin D → ℝ))) :
    kIter blocks cent = kIter (blocks.filter fun b => !b.isEmpty) cent := by
  rw [C06_chunking_independent cent blocks, C06_chunking_independent cent (blocks.filter _), flatten_filter_nonempty]
