import BobEM.Lemmas.GmmStats
import BobEM.Lemmas.GmmDensity
import BobEM.Lemmas.GmmEM

/-!
# C02 — GMM statistics are responsibility-weighted moments, additive over any split

Model: `BobEM.eStep` (`gmm.py: e_step`), `BobEM.Stats.add` (`GMMStats.__add__/__iadd__`),
`BobEM.RawStats.add?` (the declared-shape check), the `functools.reduce(operator.iadd, …)` of
`m_step` = `List.foldl Stats.add`.
-/

open Finset BobEM ProbabilityTheory
open scoped NNReal

variable {C D : ℕ}

/-- the statistics are the sample count, the sums of responsibilities, the responsibility-weighted
first and second moments and the total log-likelihood -/
theorem C02_stats_are_moments (p : Params (C+1) D ℝ) (xs : List (Fin D → ℝ)) :
    (eStep p xs).t = xs.length ∧
    (∀ c, (eStep p xs).n c = (xs.map fun x => resp p x c).sum) ∧
    (∀ c d, (eStep p xs).sumPx c d = (xs.map fun x => resp p x c * x d).sum) ∧
    (∀ c d, (eStep p xs).sumPxx c d = (xs.map fun x => resp p x c * (x d * x d)).sum) ∧
    (eStep p xs).ll = (xs.map (logLik p)).sum := by
  refine ⟨rfl, fun c => ?_, fun c d => ?_, fun c d => ?_, ?_⟩ <;>
    simp only [eStep, lsum_eq, resp, Transc.exp, mul_assoc]

/-- the responsibility is the Bayes posterior `w_c N_c(x) / Σ_k w_k N_k(x)` -/
theorem C02_resp_is_posterior (p : Params (C+1) D ℝ) (x : Fin D → ℝ)
    (v : Fin (C+1) → Fin D → ℝ≥0) (hvne : ∀ c d, v c d ≠ 0) (hv : ∀ c d, p.variances c d = v c d)
    (hw : ∀ c, 0 < p.weights c) (c : Fin (C+1)) :
    resp p x c = (p.weights c * ∏ d, gaussianPDFReal (p.means c d) (v c d) (x d))
      / ∑ k, p.weights k * ∏ d, gaussianPDFReal (p.means k d) (v k d) (x d) := by
  have hpos : 0 < ∑ k, p.weights k * ∏ d, gaussianPDFReal (p.means k d) (v k d) (x d) :=
    Finset.sum_pos (fun k _ => mul_pos (hw k) (Finset.prod_pos fun d _ => gaussianPDFReal_pos _ _ _ (hvne k d)))
      Finset.univ_nonempty
  unfold resp
  rw [Real.exp_sub, exp_lwl_eq p x v hvne hv hw c, C01_loglik_eq_log_mixture p x v hvne hv hw, Real.exp_log hpos]

/-- responsibilities are non-negative and add up to the number of samples -/
theorem C02_resp_simplex' (p : Params (C+1) D ℝ) (xs : List (Fin D → ℝ)) :
    (∀ c, 0 ≤ (eStep p xs).n c) ∧ ∑ c, (eStep p xs).n c = xs.length :=
  C02_resp_simplex p xs

/-- `+` / `+=` of the statistics of two row blocks is the statistics of their concatenation -/
theorem C02_additive' (p : Params (C+1) D ℝ) (xs ys : List (Fin D → ℝ)) :
    eStep p (xs ++ ys) = (eStep p xs).add (eStep p ys) := C02_additive p xs ys

/-- every split of the rows into consecutive blocks (any number, any sizes, empty blocks allowed),
accumulated per block and folded with `+=` from a fresh container, gives the statistics of the whole -/
theorem C02_any_partition' (p : Params (C+1) D ℝ) (blocks : List (List (Fin D → ℝ))) :
    eStep p blocks.flatten = (blocks.map (eStep p)).foldl Stats.add Stats.zero :=
  C02_any_partition p blocks

/-- the statistics do not depend on the order of the rows … -/
theorem C02_perm (p : Params (C+1) D ℝ) {xs ys : List (Fin D → ℝ)} (h : xs.Perm ys) :
    eStep p xs = eStep p ys := by
  unfold eStep
  simp only [lsum_eq]
  have hl := h.length_eq
  congr 1
  · funext c; exact (h.map _).sum_eq
  · funext c d; exact (h.map _).sum_eq
  · funext c d; exact (h.map _).sum_eq
  · exact (h.map _).sum_eq

/-- … hence any arrangement of the rows into blocks (arbitrary, not only consecutive) adds up to
the statistics of the whole data set -/
theorem C02_any_arrangement (p : Params (C+1) D ℝ) (xs : List (Fin D → ℝ))
    (blocks : List (List (Fin D → ℝ))) (h : blocks.flatten.Perm xs) :
    (blocks.map (eStep p)).foldl Stats.add Stats.zero = eStep p xs := by
  rw [← C02_any_partition, C02_perm p h]

/-- addition is refused exactly when the declared shapes differ; otherwise every field is the sum -/
theorem C02_add_refuses_mismatch (a b : RawStats ℝ) :
    (a.add? b = none ↔ (a.nG, a.nF) ≠ (b.nG, b.nF)) ∧
    (∀ s, a.add? b = some s → s.ll = a.ll + b.ll ∧ s.t = a.t + b.t ∧
        s.n = Array.zipWith (· + ·) a.n b.n ∧ s.nG = a.nG ∧ s.nF = a.nF) := by
  unfold RawStats.add?
  constructor
  · by_cases h : a.nG ≠ b.nG ∨ a.nF ≠ b.nF
    · simp only [h, if_true, ne_eq, Prod.mk.injEq, not_and_or]
    · simp only [h, if_false]
      push Not at h
      simp [h.1, h.2]
  · intro s hs
    by_cases h : a.nG ≠ b.nG ∨ a.nF ≠ b.nF
    · simp [h] at hs
    · simp only [h, if_false, Option.some.injEq] at hs
      subst hs; exact ⟨rfl, rfl, rfl, rfl, rfl⟩

/-- responsibilities only distribute a sample over the components, they never create or lose mass:
for any per-sample quantity `f`, the responsibility-weighted sums over all components add up to the
plain sum of `f` over the samples -/
theorem C02_weighted_sums_conserve (p : Params (C+1) D ℝ) (xs : List (Fin D → ℝ)) (f : (Fin D → ℝ) → ℝ) :
    ∑ c, (xs.map fun x => resp p x c * f x).sum = (xs.map f).sum := by
  induction xs with
  | nil => simp
  | cons x xs ih =>
    simp only [List.map_cons, List.sum_cons, Finset.sum_add_distrib, ih, ← Finset.sum_mul, resp_sum_one, one_mul]

/-- conservation laws of the accumulated statistics: summed over the components, the first-order
statistics are the column sums of the data and the second-order statistics the column sums of
squares, whatever the machine — a statistic that drops, duplicates or re-weights a sample breaks one
of them -/
theorem C02_moments_sum_to_data (p : Params (C+1) D ℝ) (xs : List (Fin D → ℝ)) :
    (∀ d, ∑ c, (eStep p xs).sumPx c d = (xs.map fun x => x d).sum) ∧
    (∀ d, ∑ c, (eStep p xs).sumPxx c d = (xs.map fun x => x d * x d).sum) := by
  obtain ⟨-, -, h1, h2, -⟩ := C02_stats_are_moments p xs
  refine ⟨fun d => ?_, fun d => ?_⟩
  · simp only [h1]; exact C02_weighted_sums_conserve p xs fun x => x d
  · simp only [h2]; exact C02_weighted_sums_conserve p xs fun x => x d * x d

/-- non-vacuity of the split theorem: three blocks, one of them empty -/
example (p : Params 2 1 ℝ) (a b c : Fin 1 → ℝ) :
    eStep p [a, b, c] = (([[a], [], [b, c]] : List (List (Fin 1 → ℝ))).map (eStep p)).foldl Stats.add Stats.zero :=
  C02_any_partition p [[a], [], [b, c]]
