import BobEM.Model.LinearScoring
import BobEM.Lemmas.GmmEM
import BobEM.Lemmas.Deriv

/-!
# C08 — Linear scoring is the exact first-order log-likelihood ratio around the UBM

Model: `BobEM.linearScore`, `BobEM.linearScoring` with the argument normalisation of
`linear_scoring.py` (machines vs arrays, 2-D vs 3-D means, MAP machine ↦ its prior, single statistic
↦ list, scalar / shared / per-test offsets, the `|t| ≤ ε` guard).
-/

open Finset BobEM

variable {C D : ℕ}

/-- the closed formula of one entry -/
theorem C08_formula (um uv model : Fin C → Fin D → ℝ) (st : LStat C D ℝ) (off : Fin C → Fin D → ℝ) (eps : ℝ) :
    linearScore um uv model st off false eps
        = ∑ c, ∑ d, (model c d - um c d) / uv c d * (st.sumPx c d - st.n c * (um c d + off c d)) ∧
    (eps < |st.t| → linearScore um uv model st off true eps
        = (∑ c, ∑ d, (model c d - um c d) / uv c d * (st.sumPx c d - st.n c * (um c d + off c d))) / st.t) ∧
    (|st.t| ≤ eps → linearScore um uv model st off true eps = 0) := by
  refine ⟨by simp [linearScore, sumFin_eq], fun h => ?_, fun h => ?_⟩
  · simp only [linearScore, sumFin_eq, if_true, absv_eq, not_le.mpr h, if_false]
    rw [Finset.sum_div]; refine Finset.sum_congr rfl fun c _ => ?_
    rw [Finset.sum_div]; refine Finset.sum_congr rfl fun d _ => ?_
    ring
  · simp [linearScore, sumFin_eq, absv_eq, h]

/-- zero for the UBM itself -/
theorem C08_zero_for_ubm (um uv : Fin C → Fin D → ℝ) (st : LStat C D ℝ) (off : Fin C → Fin D → ℝ) (norm : Bool) (eps : ℝ) :
    linearScore um uv um st off norm eps = 0 := by
  simp [linearScore, sumFin_eq]

/-- linear in the model offset -/
theorem C08_linear_in_offset (um uv δ₁ δ₂ : Fin C → Fin D → ℝ) (a b : ℝ) (st : LStat C D ℝ)
    (off : Fin C → Fin D → ℝ) (norm : Bool) (eps : ℝ) :
    linearScore um uv (fun c d => um c d + (a * δ₁ c d + b * δ₂ c d)) st off norm eps
      = a * linearScore um uv (fun c d => um c d + δ₁ c d) st off norm eps
        + b * linearScore um uv (fun c d => um c d + δ₂ c d) st off norm eps := by
  simp only [linearScore, sumFin_eq, Finset.mul_sum, ← Finset.sum_add_distrib]
  refine Finset.sum_congr rfl fun c _ => Finset.sum_congr rfl fun d _ => ?_
  ring

/-- additive over test statistics (un-normalised, same offset) -/
theorem C08_additive_in_stats (um uv model : Fin C → Fin D → ℝ) (s₁ s₂ : LStat C D ℝ)
    (off : Fin C → Fin D → ℝ) (eps : ℝ) :
    linearScore um uv model ⟨fun c => s₁.n c + s₂.n c, fun c d => s₁.sumPx c d + s₂.sumPx c d, s₁.t + s₂.t⟩ off false eps
      = linearScore um uv model s₁ off false eps + linearScore um uv model s₂ off false eps := by
  simp only [linearScore, sumFin_eq, ← Finset.sum_add_distrib]
  refine Finset.sum_congr rfl fun c _ => Finset.sum_congr rfl fun d _ => ?_
  simp only [Bool.false_eq_true, if_false]; ring

/-- shape: one row per model, one column per test statistic -/
theorem C08_shape (models : ModelsArg C D ℝ) (ubm : UbmArg C D ℝ) (tests : StatsArg C D ℝ) (offs : OffArg C D ℝ)
    (norm : Bool) (eps : ℝ) :
    (linearScoring models ubm tests offs norm eps).length = models.means.length ∧
    ∀ row ∈ linearScoring models ubm tests offs norm eps, row.length = tests.list.length := by
  refine ⟨by simp [linearScoring], fun row h => ?_⟩
  simp only [linearScoring, List.mem_map] at h
  obtain ⟨m, _, rfl⟩ := h
  simp

/-- machines and their mean arrays are interchangeable; a 2-D array is a single model -/
theorem C08_machine_eq_array (l : List (Params C D ℝ)) (ubm : UbmArg C D ℝ) (tests : StatsArg C D ℝ)
    (offs : OffArg C D ℝ) (norm : Bool) (eps : ℝ) :
    linearScoring (.machines l) ubm tests offs norm eps = linearScoring (.array3 (l.map (·.means))) ubm tests offs norm eps ∧
    ∀ m, linearScoring (.array2 m) ubm tests offs norm eps = linearScoring (.array3 [m]) ubm tests offs norm eps :=
  ⟨rfl, fun _ => rfl⟩

/-- a MAP machine passed as UBM stands for its prior; a single statistic is a one-element list -/
theorem C08_map_machine_eq_prior (models : ModelsArg C D ℝ) (adapted prior : Params C D ℝ) (tests : StatsArg C D ℝ)
    (offs : OffArg C D ℝ) (norm : Bool) (eps : ℝ) :
    linearScoring models (.map adapted prior) tests offs norm eps = linearScoring models (.ml prior) tests offs norm eps ∧
    ∀ s, linearScoring models (.ml prior) (.one s) offs norm eps = linearScoring models (.ml prior) (.many [s]) offs norm eps :=
  ⟨rfl, fun _ => rfl⟩

/-! ### the score is a derivative -/

theorem hasDerivAt_list_sum {β : Type} (l : List β) (f : β → ℝ → ℝ) (f' : β → ℝ) (t : ℝ)
    (h : ∀ b ∈ l, HasDerivAt (f b) (f' b) t) :
    HasDerivAt (fun ε => (l.map fun b => f b ε).sum) (l.map f').sum t := by
  induction l with
  | nil => simpa using hasDerivAt_const t (0:ℝ)
  | cons b l ih =>
    simp only [List.map_cons, List.sum_cons]
    exact (h b (by simp)).add (ih fun b' hb' => h b' (by simp [hb']))

/-- the UBM with its means moved towards the model by `ε` -/
noncomputable def moved (p : Params C D ℝ) (model : Fin C → Fin D → ℝ) (ε : ℝ) : Params C D ℝ :=
  { p with means := fun c d => p.means c d + ε * (model c d - p.means c d) }

theorem hasDerivAt_lwl_moved (p : Params C D ℝ) (model : Fin C → Fin D → ℝ) (x : Fin D → ℝ) (c : Fin C) :
    HasDerivAt (fun ε => lwl (moved p model ε) x c)
      (∑ d, (model c d - p.means c d) * (x d - p.means c d) / p.variances c d) 0 := by
  unfold lwl moved gNorm
  simp only [sumFin_eq]
  have hd : ∀ d, HasDerivAt (fun ε : ℝ => (x d - (p.means c d + ε * (model c d - p.means c d)))
      * (x d - (p.means c d + ε * (model c d - p.means c d))) / p.variances c d)
      (-2 * ((model c d - p.means c d) * (x d - p.means c d) / p.variances c d)) 0 := by
    intro d
    have h1 : HasDerivAt (fun ε : ℝ => x d - (p.means c d + ε * (model c d - p.means c d)))
        (-(model c d - p.means c d)) 0 := by
      have := ((hasDerivAt_id (0:ℝ)).mul_const (model c d - p.means c d)).const_add (p.means c d)
      simpa using this.const_sub (x d)
    have h2 := (h1.fun_mul h1).div_const (p.variances c d)
    refine h2.congr_deriv ?_
    ring
  have hs := HasDerivAt.fun_sum (u := Finset.univ) fun d _ => hd d
  have h3 := ((hs.const_add (∑ _x : Fin D, Transc.log (2 * Transc.pi) + ∑ d, Transc.log (p.variances c d))).const_mul
    (-(1/2 : ℝ))).const_add (Transc.log (p.weights c))
  refine h3.congr_deriv ?_
  rw [← Finset.mul_sum]; ring

theorem score_regroup (p : Params (C+1) D ℝ) (model : Fin (C+1) → Fin D → ℝ) (xs : List (Fin D → ℝ)) :
    (xs.map fun x => ∑ c, resp p x c * ∑ d, (model c d - p.means c d) * (x d - p.means c d) / p.variances c d).sum
      = ∑ c, ∑ d, (model c d - p.means c d) / p.variances c d
          * ((xs.map fun x => resp p x c * x d).sum - (xs.map fun x => resp p x c).sum * (p.means c d + 0)) := by
  induction xs with
  | nil => simp
  | cons x xs ih =>
    simp only [List.map_cons, List.sum_cons, ih]
    rw [← Finset.sum_add_distrib]
    refine Finset.sum_congr rfl fun c _ => ?_
    rw [Finset.mul_sum, ← Finset.sum_add_distrib]
    refine Finset.sum_congr rfl fun d _ => ?_
    ring

/-- **The linear score is the derivative at zero** of the data's UBM log-likelihood as the UBM
means are moved towards the model, where `F`, `N` are the UBM statistics of the data. -/
theorem C08_is_derivative (p : Params (C+1) D ℝ) (model : Fin (C+1) → Fin D → ℝ) (xs : List (Fin D → ℝ)) (eps : ℝ) :
    HasDerivAt (fun ε => lsum (xs.map (logLik (moved p model ε))))
      (linearScore p.means p.variances model
        ⟨(eStep p xs).n, (eStep p xs).sumPx, (xs.length : ℝ)⟩ (fun _ _ => 0) false eps) 0 := by
  have hx : ∀ x : Fin D → ℝ, HasDerivAt (fun ε => logLik (moved p model ε) x)
      (∑ c, resp p x c * ∑ d, (model c d - p.means c d) * (x d - p.means c d) / p.variances c d) 0 := by
    intro x
    have h := hasDerivAt_lse (fun c ε => lwl (moved p model ε) x c)
      (fun c => ∑ d, (model c d - p.means c d) * (x d - p.means c d) / p.variances c d) 0
      (fun c => hasDerivAt_lwl_moved p model x c)
    have h0 : moved p model 0 = p := by simp [moved]
    simp only [logLik, logaddexpReduce_eq]
    refine h.congr_deriv ?_
    refine Finset.sum_congr rfl fun c _ => ?_
    congr 1
    rw [h0, resp, Real.exp_sub, logLik_eq, Real.exp_log]
    exact Finset.sum_pos (fun k _ => Real.exp_pos _) Finset.univ_nonempty
  have hsum := hasDerivAt_list_sum xs (fun x ε => logLik (moved p model ε) x) _ 0 (fun x _ => hx x)
  simp only [lsum_eq]
  refine hsum.congr_deriv ?_
  rw [(C08_formula p.means p.variances model _ (fun _ _ => 0) eps).1, score_regroup]
  simp only [eStep, lsum_eq, resp, Transc.exp]

/-- **a Gaussian the test statistics never visited does not enter the score**: if `N_c = 0` and `F_c = 0`
for a component, the score does not depend on the model mean or on the channel offset of that
component — its term is exactly `0`, with or without frame normalisation (no `0/0`: nothing is divided
by a count) -/
theorem C08_unvisited_component_irrelevant (um uv model model' : Fin C → Fin D → ℝ) (st : LStat C D ℝ)
    (off off' : Fin C → Fin D → ℝ) (norm : Bool) (eps : ℝ) (c0 : Fin C)
    (hn : st.n c0 = 0) (hf : ∀ d, st.sumPx c0 d = 0)
    (hm : ∀ c, c ≠ c0 → model' c = model c) (ho : ∀ c, c ≠ c0 → off' c = off c) :
    linearScore um uv model' st off' norm eps = linearScore um uv model st off norm eps := by
  simp only [linearScore, sumFin_eq]
  refine Finset.sum_congr rfl fun c _ => ?_
  by_cases hc : c = c0
  · subst hc
    refine Finset.sum_congr rfl fun d _ => ?_
    simp [hn, hf d]
  · rw [hm c hc, ho c hc]

/-- a scalar channel offset is the array filled with that number (the default `0` included): the three
ways of giving offsets denote functions, and equal functions give equal scores -/
theorem C08_scalar_offset_is_constant_array (models : ModelsArg C D ℝ) (ubm : UbmArg C D ℝ) (tests : StatsArg C D ℝ)
    (x : ℝ) (norm : Bool) (eps : ℝ) :
    linearScoring models ubm tests (.scalar x) norm eps = linearScoring models ubm tests (.shared fun _ _ => x) norm eps := by
  simp [linearScoring, OffArg.get]

/-- the score is a sum over the components, hence does not depend on how they are numbered: UBM,
model, statistics and offsets relabelled together give the same score (raw or normalised) -/
theorem C08_component_order_irrelevant (um uv model : Fin C → Fin D → ℝ) (st : LStat C D ℝ)
    (off : Fin C → Fin D → ℝ) (norm : Bool) (eps : ℝ) (σ : Equiv.Perm (Fin C)) :
    linearScore (fun c => um (σ c)) (fun c => uv (σ c)) (fun c => model (σ c))
        { st with n := fun c => st.n (σ c), sumPx := fun c => st.sumPx (σ c) } (fun c => off (σ c)) norm eps
      = linearScore um uv model st off norm eps := by
  simp only [linearScore, sumFin_eq]
  exact Equiv.sum_comp σ fun c => ∑ d, (model c d - um c d) / uv c d *
    (if norm = true then (if absv st.t ≤ eps then 0 else (st.sumPx c d - st.n c * (um c d + off c d)) / st.t)
     else st.sumPx c d - st.n c * (um c d + off c d))
