import BobEM.Model.GmmState
import BobEM.Lemmas.Real

/-!
# C17 — A GMM's likelihood reflects its current visible parameters, whatever its history

Model: `BobEM.GState` with the setters of `gmm.py` (`weights`, `means`, `variances`,
`variance_thresholds`), M-steps as setter sequences, `clone` for deepcopy / pickle / HDF5 round
trips; `GState.logLik?` computes the likelihood **from the caches**.
-/

open BobEM

variable {C D : ℕ}

/-- no stale cache, no variance below its current floor -/
def Coherent (s : GState C D ℝ) : Prop :=
  (s.logWeights = fun c => Real.log (s.weights c)) ∧
  (∀ v, s.variances = some v → s.gNorms = some (gNormOf v) ∧ ∀ c d, s.thresholds c d ≤ v c d) ∧
  (s.variances = none → s.gNorms = none)

theorem C17_coherent_init (w : Fin C → ℝ) (thr : ℝ) : Coherent (GState.init (D := D) w thr) :=
  ⟨rfl, fun v h => by simp [GState.init] at h, fun _ => rfl⟩

theorem coherent_setWeights {s : GState C D ℝ} (h : Coherent s) (w : Fin C → ℝ) : Coherent (s.setWeights w) :=
  ⟨rfl, h.2.1, h.2.2⟩
theorem coherent_setMeans {s : GState C D ℝ} (h : Coherent s) (m : Fin C → Fin D → ℝ) : Coherent (s.setMeans m) :=
  ⟨h.1, h.2.1, h.2.2⟩
theorem coherent_setVariances {s : GState C D ℝ} (h : Coherent s) (v : Fin C → Fin D → ℝ) :
    Coherent (s.setVariances v) := by
  refine ⟨h.1, fun v' hv' => ?_, fun hn => by simp [GState.setVariances] at hn⟩
  simp only [GState.setVariances, Option.some.injEq] at hv'
  subst hv'
  exact ⟨rfl, fun c d => le_max_left _ _⟩
theorem coherent_setThresholds {s : GState C D ℝ} (h : Coherent s) (t : Fin C → Fin D → ℝ) :
    Coherent (s.setThresholds t) := by
  unfold GState.setThresholds
  cases hv : s.variances with
  | none =>
    refine ⟨h.1, fun v' hv' => ?_, fun _ => h.2.2 hv⟩
    simp [hv] at hv'
  | some v =>
    simp only
    refine ⟨h.1, fun v' hv' => ?_, fun hn => by simp [GState.setVariances] at hn⟩
    simp only [GState.setVariances, Option.some.injEq] at hv'
    subst hv'
    exact ⟨rfl, fun c d => le_max_left _ _⟩

/-- the invariant is preserved by every public operation … -/
theorem C17_coherent_step {s : GState C D ℝ} (h : Coherent s) (op : GOp C D ℝ) : Coherent (s.step op) := by
  cases op with
  | setWeights w => exact coherent_setWeights h w
  | setMeans m => exact coherent_setMeans h m
  | setVariances v => exact coherent_setVariances h v
  | setThresholds t => exact coherent_setThresholds h t
  | clone => exact h
  | mStep a =>
    simp only [GState.step]
    have h1 : Coherent (s.assignW a.weights) := by
      cases hw : a.weights with
      | none => exact h
      | some w => exact coherent_setWeights h w
    have h2 : Coherent ((s.assignW a.weights).assignM a.means) := by
      cases hm : a.means with
      | none => exact h1
      | some m => exact coherent_setMeans h1 _
    unfold GState.assignV
    split
    · exact coherent_setVariances h2 _
    · exact h2

/-- … hence holds after any finite sequence of operations from a fresh machine -/
theorem C17_coherent_invariant (w : Fin C → ℝ) (thr : ℝ) (ops : List (GOp C D ℝ)) :
    Coherent ((GState.init (D := D) w thr).run ops) := by
  unfold GState.run
  have : ∀ (s : GState C D ℝ), Coherent s → Coherent (ops.foldl GState.step s) := by
    induction ops with
    | nil => intro s h; exact h
    | cons op ops ih => intro s h; exact ih _ (C17_coherent_step h op)
  exact this _ (C17_coherent_init w thr)

/-- **Refinement**: in every coherent (= every reachable) state the likelihood computed from the
caches is the likelihood of the visible parameters -/
theorem C17_refines_fresh {s : GState (C+1) D ℝ} (h : Coherent s) (x : Fin D → ℝ) :
    s.logLik? x = s.params?.map fun p => logLik p x := by
  unfold GState.logLik? GState.params?
  cases hm : s.means with
  | none => rfl
  | some m =>
    cases hv : s.variances with
    | none => rfl
    | some v =>
      obtain ⟨hg, _⟩ := h.2.1 v hv
      simp only [hg, Option.map_some, Option.some.injEq, logLik]
      congr 1
      funext c
      simp [lwlCached, lwl, gNorm, gNormOf, h.1, Transc.log]

/-- variances are never below the current floors -/
theorem C17_variances_ge_floors (w : Fin C → ℝ) (thr : ℝ) (ops : List (GOp C D ℝ)) (v : Fin C → Fin D → ℝ)
    (hv : ((GState.init (D := D) w thr).run ops).variances = some v) (c : Fin C) (d : Fin D) :
    ((GState.init (D := D) w thr).run ops).thresholds c d ≤ v c d :=
  ((C17_coherent_invariant w thr ops).2.1 v hv).2 c d

/-- a reachable state with means and variances set **is** the state of a freshly built machine given
the same floors, weights, means and variances (so every later computation agrees too) -/
theorem C17_equals_fresh {s : GState C D ℝ} (h : Coherent s) (m v : Fin C → Fin D → ℝ)
    (hm : s.means = some m) (hv : s.variances = some v) (thr0 : ℝ) :
    ((((GState.init (D := D) s.weights thr0).setThresholds s.thresholds).setMeans m).setVariances v) = s := by
  obtain ⟨hg, hfl⟩ := h.2.1 v hv
  have hmax : (fun c d => max (s.thresholds c d) (v c d)) = v := by
    funext c d; exact max_eq_right (hfl c d)
  cases s with
  | mk w lw ms vs th gn =>
    simp only at hm hv hg hfl hmax
    have hlw := h.1
    simp only at hlw
    subst hm hv hg hlw
    simp [GState.init, GState.setThresholds, GState.setMeans, GState.setVariances, hmax, Transc.log]

/-- the executed (materialised) state machine computes the same states as the specification -/
theorem fun2_vec2 {n m : ℕ} (f : Fin n → Fin m → ℝ) : fun2 (vec2 f) = f := by
  funext i j; simp [fun2, vec2]
theorem fun1_vec1 {n : ℕ} (f : Fin n → ℝ) : fun1 (vec1 f) = f := by
  funext i; simp [fun1, vec1]
theorem ofV_toV (s : GState C D ℝ) : s.toV.ofV = s := by
  cases s with
  | mk w lw ms vs th gn =>
    simp only [GState.toV, GStateV.ofV, fun1_vec1, fun2_vec2, Option.map_map]
    congr 1
    · cases ms <;> simp [fun2_vec2]
    · cases vs <;> simp [fun2_vec2]
    · cases gn <;> simp [fun1_vec1]

theorem C17_exec_eq_spec (s : GState C D ℝ) (ops : List (GOp C D ℝ)) :
    (s.toV.run ops).ofV = s.run ops := by
  unfold GStateV.run GState.run
  induction ops generalizing s with
  | nil => exact ofV_toV s
  | cons op ops ih =>
    simp only [List.foldl_cons, GStateV.step, ofV_toV]
    exact ih _

/-- non-vacuity: lowering then raising a floor and re-assigning variances keeps the invariant and
ends above the floor -/
example : Coherent ((GState.init (C := 1) (D := 1) (fun _ => 1) 0).run
    [.setMeans (fun _ _ => 0), .setVariances (fun _ _ => 1), .setThresholds (fun _ _ => 2), .setThresholds (fun _ _ => 1/2)]) :=
  C17_coherent_invariant _ _ _
