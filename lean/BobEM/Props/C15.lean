import BobEM.Props.C01
import BobEM.Props.C05
import BobEM.Props.C08
import BobEM.Props.C11
import BobEM.Lemmas.KMeansDescent
import BobEM.Lemmas.KMeansSim
import BobEM.Model.IVector
import BobEM.Lemmas.FATrainIdent
import BobEM.Lemmas.IVectorIdent

/-!
# C15 — Training is equivariant, scoring invariant, under affine feature rescaling/shift

The feature map is `x_d ↦ a_d x_d + b_d` with `a_d ≠ 0`; parameters are transformed accordingly:
means `a μ + b`, variances and floors `a² v`, statistics `F ↦ a F + b N`, `S ↦ a² S + 2ab F + b² N`,
subspace rows and offsets `a ·`.
-/

open Finset BobEM Matrix

variable {C D : ℕ}

/-- transformed sample / parameters / statistics -/
def affX (a b : Fin D → ℝ) (x : Fin D → ℝ) : Fin D → ℝ := fun d => a d * x d + b d
def affP (a b : Fin D → ℝ) (p : Params C D ℝ) : Params C D ℝ :=
  { weights := p.weights, means := fun c d => a d * p.means c d + b d, variances := fun c d => a d * a d * p.variances c d }
def affS (a b : Fin D → ℝ) (s : Stats C D ℝ) (K : ℝ) : Stats C D ℝ :=
  { n := s.n, sumPx := fun c d => a d * s.sumPx c d + b d * s.n c,
    sumPxx := fun c d => a d * a d * s.sumPxx c d + 2 * a d * b d * s.sumPx c d + b d * b d * s.n c,
    ll := s.ll - K, t := s.t }

/-- `Σ_d log |a_d|` -/
noncomputable def logJac (a : Fin D → ℝ) : ℝ := ∑ d, Real.log |a d|

theorem C15_lwl_shift (a b : Fin D → ℝ) (ha : ∀ d, a d ≠ 0) (p : Params C D ℝ) (hv : ∀ c d, 0 < p.variances c d)
    (x : Fin D → ℝ) (c : Fin C) :
    lwl (affP a b p) (affX a b x) c = lwl p x c - logJac a := by
  unfold lwl gNorm affP affX logJac
  simp only [sumFin_eq, Transc.log]
  have h1 : ∀ d, Real.log (a d * a d * p.variances c d) = 2 * Real.log |a d| + Real.log (p.variances c d) := by
    intro d
    rw [Real.log_mul (mul_ne_zero (ha d) (ha d)) (hv c d).ne', ← sq, ← Real.log_abs, abs_pow, Real.log_pow]
    norm_num
  have h2 : ∀ d, (a d * x d + b d - (a d * p.means c d + b d)) * (a d * x d + b d - (a d * p.means c d + b d))
      / (a d * a d * p.variances c d) = (x d - p.means c d) * (x d - p.means c d) / p.variances c d := by
    intro d
    have := ha d; have := (hv c d).ne'
    field_simp
    ring
  simp only [h1, h2, Finset.sum_add_distrib, ← Finset.mul_sum]
  ring

/-- log-likelihoods shift by `−Σ log|a|` -/
theorem C15_loglik_shift (a b : Fin D → ℝ) (ha : ∀ d, a d ≠ 0) (p : Params (C+1) D ℝ)
    (hv : ∀ c d, 0 < p.variances c d) (x : Fin D → ℝ) :
    logLik (affP a b p) (affX a b x) = logLik p x - logJac a := by
  rw [C01_shift (affP a b p) (affX a b x) (-logJac a), C01_shift p x 0]
  simp only [C15_lwl_shift a b ha p hv, sub_neg_eq_add, sub_add_cancel, sub_zero, zero_add]
  ring

/-- responsibilities are unchanged -/
theorem C15_resp_invariant (a b : Fin D → ℝ) (ha : ∀ d, a d ≠ 0) (p : Params (C+1) D ℝ)
    (hv : ∀ c d, 0 < p.variances c d) (x : Fin D → ℝ) (c : Fin (C+1)) :
    resp (affP a b p) (affX a b x) c = resp p x c := by
  unfold resp
  rw [C15_lwl_shift a b ha p hv, C15_loglik_shift a b ha p hv]
  congr 1; ring

theorem sum_affine {β : Type} (l : List β) (r x : β → ℝ) (a b : ℝ) :
    (l.map fun e => r e * (a * x e + b)).sum = a * (l.map fun e => r e * x e).sum + b * (l.map r).sum := by
  induction l with
  | nil => simp
  | cons e l ih => simp only [List.map_cons, List.sum_cons, ih]; ring
theorem sum_affine_sq {β : Type} (l : List β) (r x : β → ℝ) (a b : ℝ) :
    (l.map fun e => r e * (a * x e + b) * (a * x e + b)).sum
      = a * a * (l.map fun e => r e * x e * x e).sum + 2 * a * b * (l.map fun e => r e * x e).sum + b * b * (l.map r).sum := by
  induction l with
  | nil => simp
  | cons e l ih => simp only [List.map_cons, List.sum_cons, ih]; ring
theorem sum_shift {β : Type} (l : List β) (f : β → ℝ) (k : ℝ) :
    (l.map fun e => f e - k).sum = (l.map f).sum - l.length * k := by
  induction l with
  | nil => simp
  | cons e l ih => simp only [List.map_cons, List.sum_cons, ih, List.length_cons]; push_cast; ring

theorem sum_lin {β : Type} (l : List β) (f n : β → ℝ) (a b : ℝ) :
    (l.map fun e => a * f e + b * n e).sum = a * (l.map f).sum + b * (l.map n).sum := by
  induction l with
  | nil => simp
  | cons e l ih => simp only [List.map_cons, List.sum_cons, ih]; ring

/-- the accumulated statistics transform as `N ↦ N`, `F ↦ aF + bN`, `S ↦ a²S + 2abF + b²N` -/
theorem C15_stats_equivariant (a b : Fin D → ℝ) (ha : ∀ d, a d ≠ 0) (p : Params (C+1) D ℝ)
    (hv : ∀ c d, 0 < p.variances c d) (xs : List (Fin D → ℝ)) :
    eStep (affP a b p) (xs.map (affX a b)) = affS a b (eStep p xs) (xs.length * logJac a) := by
  have hr : ∀ x c, Transc.exp (lwl (affP a b p) (affX a b x) c - logLik (affP a b p) (affX a b x))
      = Transc.exp (lwl p x c - logLik p x) := fun x c => C15_resp_invariant a b ha p hv x c
  simp only [eStep, affS]
  congr 1
  · funext c
    simp only [lsum_eq, List.map_map, Function.comp_def, hr]
  · funext c d
    simp only [lsum_eq, List.map_map, Function.comp_def, hr, affX]
    exact sum_affine xs (fun x => Transc.exp (lwl p x c - logLik p x)) (fun x => x d) (a d) (b d)
  · funext c d
    simp only [lsum_eq, List.map_map, Function.comp_def, hr, affX]
    exact sum_affine_sq xs (fun x => Transc.exp (lwl p x c - logLik p x)) (fun x => x d) (a d) (b d)
  · simp only [lsum_eq, List.map_map, Function.comp_def, C15_loglik_shift a b ha p hv]
    exact sum_shift xs (logLik p) (logJac a)
  · simp

/-- **ML M-step equivariance** (`cfg'` is `cfg` with the floors transformed with the features; the count
threshold is positive, as in the code where it defaults to machine epsilon): new means `a μ' + b`, new
variances `a² v'`, unchanged weights — **whether or not a component is starved**: a component below the
count threshold keeps its mean and variance (repair D25; `C15_ml_starved_old_refuted` shows that the
pinned commit's update, which divided the partial sum by the threshold, is not shift-equivariant) -/
theorem C15_ml_equivariant (a b : Fin D → ℝ) (cfg cfg' : MlCfg C D ℝ) (p : Params C D ℝ)
    (st : Stats C D ℝ) (t K : ℝ) (hthr : 0 < cfg.countThr)
    (h1 : cfg'.updMeans = cfg.updMeans) (h2 : cfg'.updVars = cfg.updVars) (h3 : cfg'.updWeights = cfg.updWeights)
    (h4 : cfg'.countThr = cfg.countThr) (h5 : ∀ c d, cfg'.varFloor c d = a d * a d * cfg.varFloor c d) :
    mlMStep cfg' (affP a b p) (affS a b st K) t = affP a b (mlMStep cfg p st t) := by
  have hmeans : ∀ c d, mlMeans cfg' (affP a b p) (affS a b st K) c d = a d * mlMeans cfg p st c d + b d := by
    intro c d
    simp only [mlMeans, h1, h4, affS, affP]
    by_cases hm : cfg.updMeans = true
    · simp only [hm, if_true]
      by_cases hc : st.n c < cfg.countThr
      · simp only [if_pos hc]
      · have hge : cfg.countThr ≤ st.n c := not_lt.mp hc
        have hne : st.n c ≠ 0 := (lt_of_lt_of_le hthr hge).ne'
        simp only [if_neg hc, max_eq_left hge]
        field_simp
    · simp only [hm]
      rfl
  have hraw : ∀ c d, ¬ st.n c < cfg.countThr →
      mlRawVar cfg' (affP a b p) (affS a b st K) c d = a d * a d * mlRawVar cfg p st c d := by
    intro c d hc
    have hge : cfg.countThr ≤ st.n c := not_lt.mp hc
    have hne : st.n c ≠ 0 := (lt_of_lt_of_le hthr hge).ne'
    unfold mlRawVar
    rw [hmeans]
    simp only [affS, h4, max_eq_left hge]
    field_simp
    ring
  unfold mlMStep
  simp only [h2, h3, h4, affS]
  simp only [affP]
  congr 1
  · funext c d; exact hmeans c d
  · by_cases huv : cfg.updVars = true
    · funext c d
      simp only [huv, if_true, h5]
      by_cases hc : st.n c < cfg.countThr
      · rw [if_pos hc, if_pos hc, ← mul_max_of_nonneg _ _ (mul_self_nonneg (a d))]
      · have := hraw c d hc
        simp only [affS, affP] at this
        rw [if_neg hc, if_neg hc, this, ← mul_max_of_nonneg _ _ (mul_self_nonneg (a d))]
    · simp only [huv]
      rfl

/-- the pinned commit's means update (`sum_px / max(n, thr)` also for a starved component) is **not**
shift-equivariant: one feature, a component with no data (`n = 0`, `sum_px = 0`) at mean 3, threshold
1, shift `b = 10`: it lands on the origin in both coordinate systems instead of on `13` (defect D25) -/
theorem C15_ml_starved_old_refuted :
    ∃ (cfg : MlCfg 1 1 ℝ) (p : Params 1 1 ℝ) (st : Stats 1 1 ℝ) (a b : Fin 1 → ℝ) (K : ℝ), (∀ d, a d ≠ 0) ∧
      mlMeansOld cfg (affP a b p) (affS a b st K) 0 0 ≠ a 0 * mlMeansOld cfg p st 0 0 + b 0 := by
  refine ⟨⟨true, false, false, 1, fun _ _ => 0⟩, ⟨fun _ => 1, fun _ _ => 3, fun _ _ => 1⟩,
    ⟨fun _ => 0, fun _ _ => 0, fun _ _ => 0, 0, 0⟩, fun _ => 1, fun _ => 10, 0, fun _ => one_ne_zero, ?_⟩
  simp [mlMeansOld, affP, affS]

/-- an ML M-step leaves every variance positive when the floors are (or the variances are frozen) -/
theorem mlMStep_var_pos (cfg : MlCfg C D ℝ) (p : Params C D ℝ) (st : Stats C D ℝ) (t : ℝ)
    (hfl : ∀ c d, 0 < cfg.varFloor c d) (hv : ∀ c d, 0 < p.variances c d) (c : Fin C) (d : Fin D) :
    0 < (mlMStep cfg p st t).variances c d := by
  unfold mlMStep
  by_cases h : cfg.updVars = true
  · simp only [h, if_true]
    exact lt_of_lt_of_le (hfl c d) (le_max_left _ _)
  · simp only [h]
    exact hv c d

/-- **ML training is equivariant for any number of iterations**: `k` EM iterations from the transformed
start on the transformed data (floors transformed like variances) give the transformed model — starved
components included (they keep their parameters, D25) -/
theorem C15_ml_training_equivariant (a b : Fin D → ℝ) (ha : ∀ d, a d ≠ 0) (cfg cfg' : MlCfg (C+1) D ℝ)
    (h1 : cfg'.updMeans = cfg.updMeans) (h2 : cfg'.updVars = cfg.updVars) (h3 : cfg'.updWeights = cfg.updWeights)
    (h4 : cfg'.countThr = cfg.countThr) (h5 : ∀ c d, cfg'.varFloor c d = a d * a d * cfg.varFloor c d)
    (hfl : ∀ c d, 0 < cfg.varFloor c d) (p0 : Params (C+1) D ℝ) (hv0 : ∀ c d, 0 < p0.variances c d)
    (xs : List (Fin D → ℝ)) (c0 c0' : ℝ) (k : ℕ) (hthr : 0 < cfg.countThr) :
    (traj (gmmMlIter cfg' (xs.map (affX a b))) (affP a b p0) c0' k).1 = affP a b (traj (gmmMlIter cfg xs) p0 c0 k).1 := by
  suffices H : (traj (gmmMlIter cfg' (xs.map (affX a b))) (affP a b p0) c0' k).1 = affP a b (traj (gmmMlIter cfg xs) p0 c0 k).1
      ∧ ∀ c d, 0 < (traj (gmmMlIter cfg xs) p0 c0 k).1.variances c d from H.1
  induction k with
  | zero => exact ⟨rfl, hv0⟩
  | succ k ih =>
    obtain ⟨e, hv⟩ := ih
    set pk := (traj (gmmMlIter cfg xs) p0 c0 k).1 with hpk
    constructor
    · simp only [traj, gmmMlIter, e, ← hpk]
      rw [C15_stats_equivariant a b ha pk hv xs]
      exact C15_ml_equivariant a b cfg cfg' pk (eStep pk xs) _ _ hthr h1 h2 h3 h4 h5
    · intro c d
      simp only [traj, gmmMlIter, ← hpk]
      exact mlMStep_var_pos cfg pk _ _ hfl hv c d

/-- along such a run the reported criterion (average log-likelihood of the entering parameters) is the
original one shifted by the constant `Σ_d log|a_d|` — the quantity finding D24 is about -/
theorem C15_ml_criterion_shift (a b : Fin D → ℝ) (ha : ∀ d, a d ≠ 0) (cfg' : MlCfg (C+1) D ℝ) (p : Params (C+1) D ℝ)
    (hv : ∀ c d, 0 < p.variances c d) (xs : List (Fin D → ℝ)) (hne : xs ≠ []) (cfg : MlCfg (C+1) D ℝ) :
    (gmmMlIter cfg' (xs.map (affX a b)) (affP a b p)).2 = (gmmMlIter cfg xs p).2 - logJac a := by
  have hlen : (xs.length : ℝ) ≠ 0 := by
    have := List.length_pos_of_ne_nil hne
    positivity
  unfold gmmMlIter
  rw [C15_stats_equivariant a b ha p hv xs]
  have hof : ∀ n : ℕ, (Transc.ofNat n : ℝ) = n := fun _ => rfl
  simp only [affS, eStep, hof]
  field_simp

/-- **MAP (Spec) equivariance of means and variances** for a component with evidence -/
theorem C15_map_equivariant_spec (a b : Fin D → ℝ) (cfg : MapCfg C D ℝ) (ubm p : Params C D ℝ) (st : Stats C D ℝ) (K : ℝ)
    (hm : cfg.updMeans = true) (c : Fin C) (d : Fin D) (hn : cfg.countThr ≤ st.n c) (hpos : 0 < st.n c) :
    mapMeans cfg (affP a b ubm) (affP a b p) (affS a b st K) c d = a d * mapMeans cfg ubm p st c d + b d ∧
    mapRawVarG (fun m => m * m) cfg (affP a b ubm) (affP a b p) (affS a b st K) c d
      = a d * a d * mapRawVarG (fun m => m * m) cfg ubm p st c d := by
  have hal : mapAlpha cfg (affS a b st K) c = mapAlpha cfg st c := by simp [mapAlpha, affS]
  have hmean : mapMeans cfg (affP a b ubm) (affP a b p) (affS a b st K) c d = a d * mapMeans cfg ubm p st c d + b d := by
    have hn' : ¬ (affS a b st K).n c < cfg.countThr := by simpa [affS] using not_lt.mpr hn
    simp only [mapMeans, hm, if_true, hn', not_lt.mpr hn, if_false, hal]
    simp only [affS, affP]
    have := hpos.ne'
    field_simp
    ring
  refine ⟨hmean, ?_⟩
  have hn' : ¬ (affS a b st K).n c < cfg.countThr := by simpa [affS] using not_lt.mpr hn
  simp only [mapRawVarG, hn', not_lt.mpr hn, if_false, hmean, hal]
  have hmexp : mapMeans cfg ubm p st c d
      = mapAlpha cfg st c * (st.sumPx c d / st.n c) + (1 - mapAlpha cfg st c) * ubm.means c d := by
    simp [mapMeans, hm, not_lt.mpr hn]
  rw [hmexp]
  simp only [affS, affP]
  have := hpos.ne'
  field_simp
  ring

/-- **MAP M-step with the variances not adapted (the usual means / weights adaptation) is equivariant**,
for every component, with or without evidence (`sq` is irrelevant: the variance blend is not used) -/
theorem C15_map_mstep_equivariant (sq : ℝ → ℝ) (a b : Fin D → ℝ) (cfg : MapCfg C D ℝ) (ubm p : Params C D ℝ) (st : Stats C D ℝ)
    (t K : ℝ) (huv : cfg.updVars = false) (hthr : 0 < cfg.countThr) :
    mapMStepG sq cfg (affP a b ubm) (affP a b p) (affS a b st K) t = affP a b (mapMStepG sq cfg ubm p st t) := by
  have hal : ∀ c, mapAlpha cfg (affS a b st K) c = mapAlpha cfg st c := fun c => by simp [mapAlpha, affS]
  have hn : (affS a b st K).n = st.n := rfl
  have hpx : ∀ c d, (affS a b st K).sumPx c d = a d * st.sumPx c d + b d * st.n c := fun _ _ => rfl
  have hw : (affP a b ubm).weights = ubm.weights := rfl
  have hpw : (affP a b p).weights = p.weights := rfl
  have hum : ∀ c d, (affP a b ubm).means c d = a d * ubm.means c d + b d := fun _ _ => rfl
  have hpm : ∀ c d, (affP a b p).means c d = a d * p.means c d + b d := fun _ _ => rfl
  have hW : mapWeights cfg (affP a b ubm) (affP a b p) (affS a b st K) t = mapWeights cfg ubm p st t := by
    have hR : mapRawWeight cfg (affP a b ubm) (affS a b st K) t = mapRawWeight cfg ubm st t := by
      funext c; simp only [mapRawWeight, hal, hn, hw]
    simp only [mapWeights, hR, hpw]
  have hM : ∀ c d, mapMeans cfg (affP a b ubm) (affP a b p) (affS a b st K) c d = a d * mapMeans cfg ubm p st c d + b d := by
    intro c d
    simp only [mapMeans, hal, hn, hpx, hum]
    by_cases hm : cfg.updMeans = true
    · simp only [hm, if_true]
      by_cases hc : st.n c < cfg.countThr
      · simp only [if_pos hc]
      · have hge : cfg.countThr ≤ st.n c := not_lt.mp hc
        have hne : st.n c ≠ 0 := (lt_of_lt_of_le hthr hge).ne'
        simp only [if_neg hc]
        field_simp
        ring
    · simp only [hm]
      exact hpm c d
  unfold mapMStepG
  rw [hW]
  simp only [huv, Bool.false_eq_true, if_false]
  simp only [affP, Params.mk.injEq, true_and, and_true]
  funext c d
  exact hM c d

/-- **MAP training (means / weights adaptation) is equivariant for any number of iterations** -/
theorem C15_map_training_equivariant (sq : ℝ → ℝ) (a b : Fin D → ℝ) (ha : ∀ d, a d ≠ 0) (cfg : MapCfg (C+1) D ℝ)
    (ubm p0 : Params (C+1) D ℝ) (huv : cfg.updVars = false) (hthr : 0 < cfg.countThr) (hv0 : ∀ c d, 0 < p0.variances c d)
    (xs : List (Fin D → ℝ)) (c0 c0' : ℝ) (k : ℕ) :
    (traj (gmmMapIter sq cfg (affP a b ubm) (xs.map (affX a b))) (affP a b p0) c0' k).1
      = affP a b (traj (gmmMapIter sq cfg ubm xs) p0 c0 k).1 := by
  suffices H : (traj (gmmMapIter sq cfg (affP a b ubm) (xs.map (affX a b))) (affP a b p0) c0' k).1
        = affP a b (traj (gmmMapIter sq cfg ubm xs) p0 c0 k).1
      ∧ (traj (gmmMapIter sq cfg ubm xs) p0 c0 k).1.variances = p0.variances from H.1
  induction k with
  | zero => exact ⟨rfl, rfl⟩
  | succ k ih =>
    obtain ⟨e, hvar⟩ := ih
    set pk := (traj (gmmMapIter sq cfg ubm xs) p0 c0 k).1 with hpk
    have hv : ∀ c d, 0 < pk.variances c d := fun c d => by rw [hvar]; exact hv0 c d
    constructor
    · simp only [traj, gmmMapIter, e, ← hpk]
      rw [C15_stats_equivariant a b ha pk hv xs]
      exact C15_map_mstep_equivariant sq a b cfg ubm pk (eStep pk xs) _ _ huv hthr
    · simp only [traj, gmmMapIter, ← hpk, mapMStepG, huv, Bool.false_eq_true, if_false]
      exact hvar

/-- the pinned commit's variance blend is **not** equivariant (same root cause as C05's finding):
witness `a = 2`, `b = 0` on the D3 data -/
theorem C15_map_var_code_not_equivariant :
    let cfg : MapCfg 1 1 ℝ := ⟨true, true, false, true, 4, 1/2, 0, fun _ _ => 0⟩
    let ubm : Params 1 1 ℝ := ⟨fun _ => 1, fun _ _ => 2, fun _ _ => 1⟩
    let st : Stats 1 1 ℝ := ⟨fun _ => 4, fun _ _ => 8, fun _ _ => 20, 0, 4⟩
    let a : Fin 1 → ℝ := fun _ => 2
    let b : Fin 1 → ℝ := fun _ => 0
    mapRawVarG (fun m => m) cfg (affP a b ubm) (affP a b ubm) (affS a b st 0) 0 0
      ≠ a 0 * a 0 * mapRawVarG (fun m => m) cfg ubm ubm st 0 0 := by
  simp only [mapRawVarG, mapMeans, mapAlpha, affP, affS]
  norm_num

/-- **linear scores are invariant** (UBM, model means, statistics and channel offsets transformed) -/
theorem C15_linear_score_invariant (a b : Fin D → ℝ) (ha : ∀ d, a d ≠ 0) (um uv model : Fin C → Fin D → ℝ)
    (hv : ∀ c d, uv c d ≠ 0) (st : LStat C D ℝ) (off : Fin C → Fin D → ℝ) (norm : Bool) (eps : ℝ) :
    linearScore (fun c d => a d * um c d + b d) (fun c d => a d * a d * uv c d) (fun c d => a d * model c d + b d)
        ⟨st.n, fun c d => a d * st.sumPx c d + b d * st.n c, st.t⟩ (fun c d => a d * off c d) norm eps
      = linearScore um uv model st off norm eps := by
  unfold linearScore
  simp only [sumFin_eq]
  refine Finset.sum_congr rfl fun c _ => Finset.sum_congr rfl fun d _ => ?_
  have := ha d; have := hv c d
  split_ifs <;> field_simp <;> ring

/-- transformed ISV/JFA model and statistics -/
def affM {rU rV : ℕ} (a b : Fin D → ℝ) (M : FA.Model C D rU rV ℝ) : FA.Model C D rU rV ℝ :=
  ⟨fun c d => a d * M.m c d + b d, fun c d => a d * a d * M.s c d, fun c d r => a d * M.U c d r,
   fun c d r => a d * M.V c d r, fun c d => a d * M.Dd c d⟩
def affSt (a b : Fin D → ℝ) (s : FA.St C D ℝ) : FA.St C D ℝ :=
  ⟨s.n, fun c d => a d * s.f c d + b d * s.n c, s.t⟩

/-- **channel factors are invariant**: the posterior mean `x̂` of a probe is unchanged when features,
UBM and the subspace rows are transformed -/
theorem C15_latent_invariant {rU rV : ℕ} (a b : Fin D → ℝ) (ha : ∀ d, a d ≠ 0) (M : FA.Model C D rU rV ℝ)
    (hs : ∀ c d, M.s c d ≠ 0) (sts : List (FA.St C D ℝ)) :
    FA.estimateX (affM a b M) (sts.map (affSt a b)) = FA.estimateX M sts := by
  set M' := affM a b M with hM'
  set sts' := sts.map (affSt a b) with hsts'
  have hn : FA.nAcc sts' = FA.nAcc sts := by
    funext c; simp [FA.nAcc, hsts', affSt, List.map_map, Function.comp_def]
  have hf : ∀ c d, FA.fAcc sts' c d = a d * FA.fAcc sts c d + b d * FA.nAcc sts c := by
    intro c d
    simp only [FA.fAcc, FA.nAcc, hsts', affSt, lsum_eq, List.map_map, Function.comp_def]
    exact sum_lin sts (fun s => s.f c d) (fun s => s.n c) (a d) (b d)
  have hprod : FA.prodN M' M'.U (FA.nAcc sts) = FA.prodN M M.U (FA.nAcc sts) := by
    funext r r'
    simp only [FA.prodN, sumFin_eq, hM', affM]
    refine Finset.sum_congr rfl fun c _ => ?_
    congr 1
    refine Finset.sum_congr rfl fun d _ => ?_
    have := ha d; have := hs c d
    field_simp
  have hproj : FA.projT M' M'.U (fun c d => FA.fAcc sts' c d - M'.m c d * FA.nAcc sts c)
      = FA.projT M M.U (fun c d => FA.fAcc sts c d - M.m c d * FA.nAcc sts c) := by
    funext r
    simp only [FA.projT, sumFin_eq, hf]
    simp only [hM', affM]
    refine Finset.sum_congr rfl fun c _ => Finset.sum_congr rfl fun d _ => ?_
    have := ha d; have := hs c d
    field_simp
    ring
  unfold FA.estimateX FA.idPlusInv
  simp only [hn, hprod, hproj]

/-- **k-means**: under a uniform scale `s ≠ 0` and a shift `t`, squared distances scale by `s²`, so the
assignment of every sample is unchanged -/
theorem C15_kmeans_scale_shift {K : ℕ} (s : ℝ) (hs : s ≠ 0) (t : Fin D → ℝ) (cent : Fin (K+1) → Fin D → ℝ) (x : Fin D → ℝ) :
    (∀ k, sqDist (fun d => s * x d + t d) (fun d => s * cent k d + t d) = s * s * sqDist x (cent k)) ∧
    assign (fun k d => s * cent k d + t d) (fun d => s * x d + t d) = assign cent x := by
  have hd : ∀ k, sqDist (fun d => s * x d + t d) (fun d => s * cent k d + t d) = s * s * sqDist x (cent k) := by
    intro k
    simp only [sqDist_eq, Finset.mul_sum]
    exact Finset.sum_congr rfl fun d _ => by ring
  refine ⟨hd, ?_⟩
  unfold assign argminFin
  have hpos : 0 < s * s := mul_self_pos.mpr hs
  simp only [hd]
  congr 1
  funext best i
  simp only [mul_lt_mul_iff_right₀ hpos]

/-- **k-means, rotations**: an orthogonal map preserves all squared distances -/
theorem C15_kmeans_rotation (Q : Matrix (Fin D) (Fin D) ℝ) (hQ : Qᵀ * Q = 1) (x c : Fin D → ℝ) :
    sqDist (Q.mulVec x) (Q.mulVec c) = sqDist x c := by
  simp only [sqDist_eq]
  have h : ∀ v : Fin D → ℝ, ∑ j, (Q.mulVec v) j * (Q.mulVec v) j = ∑ j, v j * v j := by
    intro v
    have : (Q.mulVec v) ⬝ᵥ (Q.mulVec v) = v ⬝ᵥ v := by
      rw [Matrix.dotProduct_mulVec, Matrix.vecMul_mulVec, hQ, Matrix.vecMul_one]
    simpa [dotProduct] using this
  have hsub : ∀ j, (Q.mulVec x) j - (Q.mulVec c) j = (Q.mulVec (x - c)) j := by
    intro j; rw [Matrix.mulVec_sub]; rfl
  simp only [hsub, h]
  simp [Pi.sub_apply]

/-- **a whole k-means fit follows a uniform scaling with a shift**: from the transformed initial
centroids on the transformed data (any chunking, any threshold, any iteration limit) `fit` performs the
same number of iterations and returns the transformed centroids; empty clusters keep their (transformed)
centroid, the relative stopping test does not see the factor `s²` of the criterion -/
theorem C15_kmeans_fit_scale_shift {K : ℕ} (s : ℝ) (hs : s ≠ 0) (t : Fin D → ℝ) (thr : Option ℝ) (fuel : ℕ) (c0 : ℝ)
    (cent0 : Fin (K+1) → Fin D → ℝ) (blocks : List (List (Fin D → ℝ))) :
    kFit thr fuel (s * s * c0) (fun k d => s * cent0 k d + t d) (blocks.map fun b => b.map fun x d => s * x d + t d)
      = ((fun k d => s * (kFit thr fuel c0 cent0 blocks).1 k d + t d), (kFit thr fuel c0 cent0 blocks).2) :=
  kFit_sim (KSim.scaleShift s hs t) thr fuel c0 cent0 blocks

/-- **… and any rotation / reflection** -/
theorem C15_kmeans_fit_rotation {K : ℕ} (Q : Matrix (Fin D) (Fin D) ℝ) (hQ : Qᵀ * Q = 1) (thr : Option ℝ) (fuel : ℕ) (c0 : ℝ)
    (cent0 : Fin (K+1) → Fin D → ℝ) (blocks : List (List (Fin D → ℝ))) :
    kFit thr fuel c0 (fun k => Q.mulVec (cent0 k)) (blocks.map fun b => b.map Q.mulVec)
      = ((fun k => Q.mulVec ((kFit thr fuel c0 cent0 blocks).1 k)), (kFit thr fuel c0 cent0 blocks).2) := by
  have h := kFit_sim (KSim.rotation Q hQ) thr fuel c0 cent0 blocks
  simpa [KSim.rotation] using h

/-- one iteration, for the record: centroids mapped, criterion times `s²` -/
theorem C15_kmeans_iter_scale_shift {K : ℕ} (s : ℝ) (hs : s ≠ 0) (t : Fin D → ℝ)
    (cent : Fin (K+1) → Fin D → ℝ) (blocks : List (List (Fin D → ℝ))) :
    kIter (blocks.map fun b => b.map fun x d => s * x d + t d) (fun k d => s * cent k d + t d)
      = ((fun k d => s * (kIter blocks cent).1 k d + t d), s * s * (kIter blocks cent).2) :=
  (KSim.scaleShift s hs t).kIter_sim blocks cent

/-! ### ISV / JFA enrolment and i-vectors under a per-feature rescaling and shift -/

section EnrolAffine
variable {rU rV : ℕ}

theorem prodN_aff {r : ℕ} (a b : Fin D → ℝ) (ha : ∀ d, a d ≠ 0) (M : FA.Model C D rU rV ℝ) (hs : ∀ c d, M.s c d ≠ 0)
    (L : Fin C → Fin D → Fin r → ℝ) (n : Fin C → ℝ) :
    FA.prodN (affM a b M) (fun c d k => a d * L c d k) n = FA.prodN M L n := by
  funext k k'
  simp only [FA.prodN, sumFin_eq, affM]
  refine Finset.sum_congr rfl fun c _ => ?_
  congr 1
  refine Finset.sum_congr rfl fun d _ => ?_
  have := ha d; have := hs c d
  field_simp

theorem projT_aff {r : ℕ} (a b : Fin D → ℝ) (ha : ∀ d, a d ≠ 0) (M : FA.Model C D rU rV ℝ) (hs : ∀ c d, M.s c d ≠ 0)
    (L : Fin C → Fin D → Fin r → ℝ) (g : Fin C → Fin D → ℝ) :
    FA.projT (affM a b M) (fun c d k => a d * L c d k) (fun c d => a d * g c d) = FA.projT M L g := by
  funext k
  simp only [FA.projT, sumFin_eq, affM]
  refine Finset.sum_congr rfl fun c _ => Finset.sum_congr rfl fun d _ => ?_
  have := ha d; have := hs c d
  field_simp

theorem apply_aff {r : ℕ} (a : Fin D → ℝ) (L : Fin C → Fin D → Fin r → ℝ) (x : Fin r → ℝ) (c : Fin C) (d : Fin D) :
    FA.apply (fun c d k => a d * L c d k) x c d = a d * FA.apply L x c d := by
  simp only [FA.apply, sumFin_eq, Finset.mul_sum]
  exact Finset.sum_congr rfl fun k _ => by ring

theorem nAcc_aff (a b : Fin D → ℝ) (sts : List (FA.St C D ℝ)) : FA.nAcc (sts.map (affSt a b)) = FA.nAcc sts := by
  funext c; simp [FA.nAcc, affSt, List.map_map, Function.comp_def]

theorem fAcc_aff (a b : Fin D → ℝ) (sts : List (FA.St C D ℝ)) (c : Fin C) (d : Fin D) :
    FA.fAcc (sts.map (affSt a b)) c d = a d * FA.fAcc sts c d + b d * FA.nAcc sts c := by
  simp only [FA.fAcc, FA.nAcc, affSt, lsum_eq, List.map_map, Function.comp_def]
  exact sum_lin sts (fun s => s.f c d) (fun s => s.n c) (a d) (b d)

theorem uxTerm_aff (a b : Fin D → ℝ) (M : FA.Model C D rU rV ℝ) (sts : List (FA.St C D ℝ)) (xs : List (Fin rU → ℝ))
    (c : Fin C) (d : Fin D) :
    FA.uxTerm (affM a b M) (sts.map (affSt a b)) xs c d = a d * FA.uxTerm M sts xs c d := by
  simp only [FA.uxTerm, lsum_eq, List.zip_map_left, List.map_map, Function.comp_def]
  have hU : (affM a b M).U = fun c d k => a d * M.U c d k := rfl
  simp only [hU, apply_aff, affSt, Prod.map]
  rw [← List.sum_map_mul_left]
  congr 1
  apply List.map_congr_left
  intro p _
  simp only [id]; ring

/-- the channel-factor update of a session is invariant -/
theorem latentX_aff (a b : Fin D → ℝ) (ha : ∀ d, a d ≠ 0) (M : FA.Model C D rU rV ℝ) (hs : ∀ c d, M.s c d ≠ 0)
    (st : FA.St C D ℝ) (y : Fin rV → ℝ) (z : Fin C → Fin D → ℝ) :
    FA.latentX (affM a b M) (affSt a b st) y z = FA.latentX M st y z := by
  have hU : (affM a b M).U = fun c d k => a d * M.U c d k := rfl
  have hV : (affM a b M).V = fun c d k => a d * M.V c d k := rfl
  have hg : (fun c d => (affSt a b st).f c d - (affSt a b st).n c * ((affM a b M).m c d + (affM a b M).Dd c d * z c d)
        - (affSt a b st).n c * FA.apply (affM a b M).V y c d)
      = fun c d => a d * (st.f c d - st.n c * (M.m c d + M.Dd c d * z c d) - st.n c * FA.apply M.V y c d) := by
    funext c d
    rw [hV, apply_aff]
    simp only [affSt, affM]; ring
  simp only [FA.latentX, FA.idPlusInv, hg]
  rw [hU, prodN_aff a b ha M hs, projT_aff a b ha M hs]
  rfl

/-- the speaker-factor update is invariant -/
theorem updateY_aff (a b : Fin D → ℝ) (ha : ∀ d, a d ≠ 0) (M : FA.Model C D rU rV ℝ) (hs : ∀ c d, M.s c d ≠ 0)
    (sts : List (FA.St C D ℝ)) (xs : List (Fin rU → ℝ)) (z : Fin C → Fin D → ℝ) :
    FA.updateY (affM a b M) (sts.map (affSt a b)) xs z = FA.updateY M sts xs z := by
  have hV : (affM a b M).V = fun c d k => a d * M.V c d k := rfl
  have hg : (fun c d => FA.fAcc (sts.map (affSt a b)) c d
        - FA.nAcc sts c * ((affM a b M).m c d + 1 * ((affM a b M).Dd c d * z c d))
        - FA.uxTerm (affM a b M) (sts.map (affSt a b)) xs c d)
      = fun c d => a d * (FA.fAcc sts c d - FA.nAcc sts c * (M.m c d + 1 * (M.Dd c d * z c d)) - FA.uxTerm M sts xs c d) := by
    funext c d
    rw [fAcc_aff, uxTerm_aff]
    simp only [affM]; ring
  simp only [FA.updateY, FA.updateYG, FA.idPlusInv, nAcc_aff]
  rw [hg, hV, prodN_aff a b ha M hs, projT_aff a b ha M hs]

/-- the residual-offset update is invariant -/
theorem updateZ_aff (a b : Fin D → ℝ) (ha : ∀ d, a d ≠ 0) (M : FA.Model C D rU rV ℝ) (hs : ∀ c d, M.s c d ≠ 0)
    (sts : List (FA.St C D ℝ)) (xs : List (Fin rU → ℝ)) (y : Fin rV → ℝ) :
    FA.updateZ (affM a b M) (sts.map (affSt a b)) xs y = FA.updateZ M sts xs y := by
  funext c d
  have hV : (affM a b M).V = fun c d k => a d * M.V c d k := rfl
  simp only [FA.updateZ]
  rw [fAcc_aff, nAcc_aff, uxTerm_aff, hV, apply_aff]
  simp only [affM]
  have := ha d; have := hs c d
  by_cases hden : 1 + M.Dd c d / M.s c d * M.Dd c d * FA.nAcc sts c = 0
  · have h' : 1 + a d * M.Dd c d / (a d * a d * M.s c d) * (a d * M.Dd c d) * FA.nAcc sts c = 0 := by
      rw [← hden]; field_simp
    simp [hden, h']
  · have h' : 1 + a d * M.Dd c d / (a d * a d * M.s c d) * (a d * M.Dd c d) * FA.nAcc sts c
        = 1 + M.Dd c d / M.s c d * M.Dd c d * FA.nAcc sts c := by field_simp
    rw [h']
    field_simp
    ring

/-- **ISV / JFA enrolment is invariant**: after any number of iterations the latent factors
`(y, x_1 … x_H, z)` of the transformed problem (features `a ⊙ x + b`, UBM means / variances, `U`, `V`,
`D` transformed accordingly) are those of the original one -/
theorem C15_enroll_invariant (a b : Fin D → ℝ) (ha : ∀ d, a d ≠ 0) (M : FA.Model C D rU rV ℝ) (hs : ∀ c d, M.s c d ≠ 0)
    (sts : List (FA.St C D ℝ)) (k : ℕ) :
    FA.enroll (affM a b M) (sts.map (affSt a b)) k = FA.enroll M sts k := by
  induction k with
  | zero => simp [FA.enroll]
  | succ k ih =>
    simp only [FA.enroll, FA.sweep, ih]
    have hy := updateY_aff a b ha M hs sts (FA.enroll M sts k).xs (FA.enroll M sts k).z
    rw [hy]
    have hx : ((sts.map (affSt a b)).map fun s => FA.latentX (affM a b M) s (FA.updateY M sts (FA.enroll M sts k).xs (FA.enroll M sts k).z) (FA.enroll M sts k).z)
        = sts.map fun s => FA.latentX M s (FA.updateY M sts (FA.enroll M sts k).xs (FA.enroll M sts k).z) (FA.enroll M sts k).z := by
      rw [List.map_map]
      apply List.map_congr_left
      intro s _
      exact latentX_aff a b ha M hs s _ _
    rw [hx, updateZ_aff a b ha M hs]
end EnrolAffine

/-- **i-vectors are invariant**: with `T` rows and `σ` transformed like the features, the posterior
mean of the total-variability factor of a statistic is unchanged -/
theorem C15_ivector_invariant {R : ℕ} (a b : Fin D → ℝ) (ha : ∀ d, a d ≠ 0) (m : IV.Machine C D R ℝ) (hs : ∀ c d, m.sigma c d ≠ 0)
    (st : IV.GStat C D ℝ) (s' : Fin C → Fin D → ℝ) :
    IV.project ⟨fun c d => a d * m.ubmMeans c d + b d, fun c d t => a d * m.T c d t, fun c d => a d * a d * m.sigma c d⟩
        ⟨st.n, fun c d => a d * st.f c d + b d * st.n c, s'⟩
      = IV.project m st := by
  have hP : IV.precision (⟨fun c d => a d * m.ubmMeans c d + b d, fun c d t => a d * m.T c d t, fun c d => a d * a d * m.sigma c d⟩ : IV.Machine C D R ℝ) st.n
      = IV.precision m st.n := by
    funext t u
    simp only [IV.precision, sumFin_eq]
    congr 1
    refine Finset.sum_congr rfl fun c _ => ?_
    congr 1
    refine Finset.sum_congr rfl fun d _ => ?_
    have := ha d; have := hs c d
    field_simp
  have hR : IV.rhs (⟨fun c d => a d * m.ubmMeans c d + b d, fun c d t => a d * m.T c d t, fun c d => a d * a d * m.sigma c d⟩ : IV.Machine C D R ℝ)
      ⟨st.n, fun c d => a d * st.f c d + b d * st.n c, s'⟩ = IV.rhs m st := by
    funext t
    simp only [IV.rhs, sumFin_eq]
    refine Finset.sum_congr rfl fun c _ => Finset.sum_congr rfl fun d _ => ?_
    have := ha d; have := hs c d
    field_simp
    ring
  simp only [IV.project, hP, hR]

/-! ### ISV / JFA *training* follows the features -/

section TrainAffine
open BobEM.FA
variable {rU rV : ℕ}

theorem materialize_eq (M : Model C D rU rV ℝ) : materialize M = M := by
  cases M
  simp only [materialize, Model.mk.injEq, true_and]
  refine ⟨?_, ?_, ?_⟩
  · funext c d a; simp
  · funext c d a; simp
  · funext c d; simp

theorem iter_congr {β : Type} (f g : β → β) (h : ∀ x, f x = g x) (k : ℕ) (x : β) : iter f k x = iter g k x := by
  induction k generalizing x with
  | zero => rfl
  | succ k ih => simp only [iter, h, ih]

/-- commuting a map through an iteration -/
theorem iter_comm {β : Type} (f g : β → β) (φ : β → β) (h : ∀ x, f (φ x) = φ (g x)) (k : ℕ) (x : β) :
    iter f k (φ x) = φ (iter g k x) := by
  induction k generalizing x with
  | zero => rfl
  | succ k ih => simp only [iter, h, ih]

def affCl (a b : Fin D → ℝ) (cl : List (List (St C D ℝ))) : List (List (St C D ℝ)) := cl.map fun sts => sts.map (affSt a b)

/-- accumulators whose `a2` rows are scaled like the features -/
def accScale {r : ℕ} (a : Fin D → ℝ) (x : Acc C D r ℝ) : Acc C D r ℝ := ⟨x.a1, fun c d k => a d * x.a2 c d k⟩

theorem Acc_sum_scale {r : ℕ} (a : Fin D → ℝ) (l : List (Acc C D r ℝ)) : Acc.sum (l.map (accScale a)) = accScale a (Acc.sum l) := by
  have e1 : ∀ c k k', (Acc.sum (l.map (accScale a))).a1 c k k' = (accScale a (Acc.sum l)).a1 c k k' := by
    intro c k k'
    simp only [accSum_a1, accScale, List.map_map, Function.comp_def]
  have e2 : ∀ c d k, (Acc.sum (l.map (accScale a))).a2 c d k = (accScale a (Acc.sum l)).a2 c d k := by
    intro c d k
    simp only [accSum_a2, accScale, List.map_map, Function.comp_def, List.sum_map_mul_left]
  cases h1 : Acc.sum (l.map (accScale a)); cases h2 : accScale a (Acc.sum l)
  simp only [Acc.mk.injEq]
  rw [h1] at e1 e2; rw [h2] at e1 e2
  exact ⟨funext fun c => funext fun k => funext fun k' => e1 c k k', funext fun c => funext fun d => funext fun k => e2 c d k⟩

theorem solveLoading_scale {r : ℕ} (a : Fin D → ℝ) (x : Acc C D r ℝ) :
    solveLoading (accScale a x) = fun c d k => a d * solveLoading x c d k := by
  funext c d k
  simp only [solveLoading, accScale, sumFin_eq, Finset.mul_sum]
  exact Finset.sum_congr rfl fun j _ => by ring

theorem zerosX_len_map (a b : Fin D → ℝ) (sts : List (St C D ℝ)) : zerosX (rU := rU) (sts.map (affSt a b)).length = zerosX sts.length := by
  simp

theorem fnY_aff (a b : Fin D → ℝ) (M : Model C D rU rV ℝ) (sts : List (St C D ℝ)) (xs : List (Fin rU → ℝ)) (z : Fin C → Fin D → ℝ)
    (c : Fin C) (d : Fin D) :
    fnY (affM a b M) (sts.map (affSt a b)) xs z c d = a d * fnY M sts xs z c d := by
  simp only [fnY]
  rw [fAcc_aff, nAcc_aff, uxTerm_aff]
  simp only [affM]; ring

theorem eStepV_aff (a b : Fin D → ℝ) (ha : ∀ d, a d ≠ 0) (M : Model C D rU rV ℝ) (hs : ∀ c d, M.s c d ≠ 0) (sts : List (St C D ℝ)) :
    eStepV (affM a b M) (sts.map (affSt a b)) = accScale a (eStepV M sts) := by
  have hV : (affM a b M).V = fun c d k => a d * M.V c d k := rfl
  simp only [eStepV, accScale, List.length_map, updateY_aff a b ha M hs, nAcc_aff, FA.idPlusInv]
  rw [hV, prodN_aff a b ha M hs]
  simp only [fnY_aff]
  congr 1
  funext c d k; ring

theorem stepV_aff (a b : Fin D → ℝ) (ha : ∀ d, a d ≠ 0) (M : Model C D rU rV ℝ) (hs : ∀ c d, M.s c d ≠ 0) (cl : List (List (St C D ℝ))) :
    stepV (affM a b M) (affCl a b cl) = affM a b (stepV M cl) := by
  have : (affCl a b cl).map (eStepV (affM a b M)) = (cl.map (eStepV M)).map (accScale a) := by
    simp only [affCl, List.map_map, Function.comp_def, eStepV_aff a b ha M hs]
  simp only [stepV, this, Acc_sum_scale, solveLoading_scale]
  rfl

theorem finalizeV_aff (a b : Fin D → ℝ) (ha : ∀ d, a d ≠ 0) (M : Model C D rU rV ℝ) (hs : ∀ c d, M.s c d ≠ 0) (cl : List (List (St C D ℝ))) :
    finalizeV (affM a b M) (affCl a b cl) = finalizeV M cl := by
  simp only [finalizeV, affCl, List.map_map, Function.comp_def, List.length_map, updateY_aff a b ha M hs]

theorem fnX_aff (a b : Fin D → ℝ) (M : Model C D rU rV ℝ) (st : St C D ℝ) (y : Fin rV → ℝ) (z : Fin C → Fin D → ℝ) (c : Fin C) (d : Fin D) :
    fnX (affM a b M) (affSt a b st) y z c d = a d * fnX M st y z c d := by
  have hV : (affM a b M).V = fun c d k => a d * M.V c d k := rfl
  simp only [fnX]
  rw [hV, apply_aff]
  simp only [affSt, affM]; ring

theorem sessAccU_aff (a b : Fin D → ℝ) (ha : ∀ d, a d ≠ 0) (M : Model C D rU rV ℝ) (hs : ∀ c d, M.s c d ≠ 0) (st : St C D ℝ)
    (y : Fin rV → ℝ) (z : Fin C → Fin D → ℝ) :
    sessAccU (affM a b M) (affSt a b st) y z = accScale a (sessAccU M st y z) := by
  have hU : (affM a b M).U = fun c d k => a d * M.U c d k := rfl
  have hn : (affSt a b st).n = st.n := rfl
  simp only [sessAccU, accScale, latentX_aff a b ha M hs, FA.idPlusInv, hn]
  rw [hU, prodN_aff a b ha M hs]
  simp only [fnX_aff]
  congr 1
  funext c d k; ring

theorem eStepU_aff (a b : Fin D → ℝ) (ha : ∀ d, a d ≠ 0) (M : Model C D rU rV ℝ) (hs : ∀ c d, M.s c d ≠ 0) (sts : List (St C D ℝ))
    (y : Fin rV → ℝ) :
    eStepU (affM a b M) (sts.map (affSt a b)) y = accScale a (eStepU M sts y) := by
  simp only [eStepU, List.map_map, Function.comp_def, sessAccU_aff a b ha M hs]
  rw [← Acc_sum_scale, List.map_map]
  rfl

theorem stepU_aff (a b : Fin D → ℝ) (ha : ∀ d, a d ≠ 0) (M : Model C D rU rV ℝ) (hs : ∀ c d, M.s c d ≠ 0) (cl : List (List (St C D ℝ)))
    (ys : List (Fin rV → ℝ)) :
    stepU (affM a b M) (affCl a b cl) ys = affM a b (stepU M cl ys) := by
  have : ((affCl a b cl).zip ys).map (fun p => eStepU (affM a b M) p.1 p.2) = ((cl.zip ys).map fun p => eStepU M p.1 p.2).map (accScale a) := by
    simp only [affCl, List.zip_map_left, List.map_map, Function.comp_def, Prod.map, id, eStepU_aff a b ha M hs]
  simp only [stepU]
  rw [show ((affCl a b cl).zip ys).map (fun x => match x with | (sts, y) => eStepU (affM a b M) sts y)
      = ((affCl a b cl).zip ys).map (fun p => eStepU (affM a b M) p.1 p.2) from rfl, this,
    show ((cl.zip ys).map fun x => match x with | (sts, y) => eStepU M sts y) = (cl.zip ys).map (fun p => eStepU M p.1 p.2) from rfl,
    Acc_sum_scale, solveLoading_scale]
  rfl

theorem finalizeU_aff (a b : Fin D → ℝ) (ha : ∀ d, a d ≠ 0) (M : Model C D rU rV ℝ) (hs : ∀ c d, M.s c d ≠ 0) (cl : List (List (St C D ℝ)))
    (ys : List (Fin rV → ℝ)) :
    finalizeU (affM a b M) (affCl a b cl) ys = finalizeU M cl ys := by
  simp only [finalizeU, affCl, List.zip_map_left, List.map_map, Function.comp_def, Prod.map, id, latentX_aff a b ha M hs]

theorem fnZ_aff (a b : Fin D → ℝ) (M : Model C D rU rV ℝ) (sts : List (St C D ℝ)) (xs : List (Fin rU → ℝ)) (y : Fin rV → ℝ)
    (c : Fin C) (d : Fin D) :
    fnZ (affM a b M) (sts.map (affSt a b)) xs y c d = a d * fnZ M sts xs y c d := by
  have hV : (affM a b M).V = fun c d k => a d * M.V c d k := rfl
  simp only [fnZ]
  rw [fAcc_aff, nAcc_aff, uxTerm_aff, hV, apply_aff]
  simp only [affM]; ring

/-- accumulators of `D`: `a1` unchanged, `a2` scaled -/
theorem eStepD_aff (a b : Fin D → ℝ) (ha : ∀ d, a d ≠ 0) (M : Model C D rU rV ℝ) (hs : ∀ c d, M.s c d ≠ 0) (sts : List (St C D ℝ))
    (xs : List (Fin rU → ℝ)) (y : Fin rV → ℝ) :
    eStepD (affM a b M) (sts.map (affSt a b)) xs y
      = ⟨(eStepD M sts xs y).a1, fun c d => a d * (eStepD M sts xs y).a2 c d⟩ := by
  simp only [eStepD, updateZ_aff a b ha M hs, nAcc_aff, fnZ_aff]
  congr 1
  · funext c d
    simp only [affM]
    have := ha d; have := hs c d
    congr 2
    field_simp
  · funext c d; ring

theorem stepD_aff (a b : Fin D → ℝ) (ha : ∀ d, a d ≠ 0) (M : Model C D rU rV ℝ) (hs : ∀ c d, M.s c d ≠ 0) (cl : List (List (St C D ℝ)))
    (xss : List (List (Fin rU → ℝ))) (ys : List (Fin rV → ℝ)) :
    stepD (affM a b M) (affCl a b cl) xss ys = affM a b (stepD M cl xss ys) := by
  have hmap : (((affCl a b cl).zip xss).zip ys).map (fun q => eStepD (affM a b M) q.1.1 q.1.2 q.2)
      = (((cl.zip xss).zip ys).map fun q => eStepD M q.1.1 q.1.2 q.2).map
          (fun x : AccD C D ℝ => (⟨x.a1, fun c d => a d * x.a2 c d⟩ : AccD C D ℝ)) := by
    simp only [affCl, List.zip_map_left, List.map_map, Function.comp_def, Prod.map, id, eStepD_aff a b ha M hs]
  have hsum : ∀ l : List (AccD C D ℝ), AccD.sum (l.map fun x => (⟨x.a1, fun c d => a d * x.a2 c d⟩ : AccD C D ℝ))
      = ⟨(AccD.sum l).a1, fun c d => a d * (AccD.sum l).a2 c d⟩ := by
    intro l
    have e1 : ∀ c d, (AccD.sum (l.map fun x => (⟨x.a1, fun c d => a d * x.a2 c d⟩ : AccD C D ℝ))).a1 c d = (AccD.sum l).a1 c d := by
      intro c d; simp only [accDSum_a1, List.map_map, Function.comp_def]
    have e2 : ∀ c d, (AccD.sum (l.map fun x => (⟨x.a1, fun c d => a d * x.a2 c d⟩ : AccD C D ℝ))).a2 c d = a d * (AccD.sum l).a2 c d := by
      intro c d; simp only [accDSum_a2, List.map_map, Function.comp_def, List.sum_map_mul_left]
    cases h : AccD.sum (l.map fun x => (⟨x.a1, fun c d => a d * x.a2 c d⟩ : AccD C D ℝ))
    rw [h] at e1 e2
    simp only [AccD.mk.injEq]
    exact ⟨funext fun c => funext fun d => e1 c d, funext fun c => funext fun d => e2 c d⟩
  simp only [stepD]
  rw [show (((affCl a b cl).zip xss).zip ys).map (fun x => match x with | ((sts, xs), y) => eStepD (affM a b M) sts xs y)
      = (((affCl a b cl).zip xss).zip ys).map (fun q => eStepD (affM a b M) q.1.1 q.1.2 q.2) from rfl, hmap, hsum,
    show (((cl.zip xss).zip ys).map fun x => match x with | ((sts, xs), y) => eStepD M sts xs y)
      = ((cl.zip xss).zip ys).map (fun q => eStepD M q.1.1 q.1.2 q.2) from rfl]
  simp only [affM, Model.mk.injEq, true_and]
  funext c d; ring

theorem affM_s_ne (a b : Fin D → ℝ) (M : Model C D rU rV ℝ) : (affM a b M).s = fun c d => a d * a d * M.s c d := rfl

/-- the variances of the model are not touched by any training step -/
theorem stepV_s (M : Model C D rU rV ℝ) (cl) : (stepV M cl).s = M.s := rfl
theorem stepU_s (M : Model C D rU rV ℝ) (cl ys) : (stepU M cl ys).s = M.s := rfl
theorem stepD_s (M : Model C D rU rV ℝ) (cl xss ys) : (stepD M cl xss ys).s = M.s := rfl

theorem iter_s {f : Model C D rU rV ℝ → Model C D rU rV ℝ} (hf : ∀ M, (f M).s = M.s) (k : ℕ) (M : Model C D rU rV ℝ) :
    (iter f k M).s = M.s := by
  induction k generalizing M with
  | zero => rfl
  | succ k ih => simp only [iter, ih, hf]

theorem iter_aff (a b : Fin D → ℝ) (f g : Model C D rU rV ℝ → Model C D rU rV ℝ) (s0 : Fin C → Fin D → ℝ)
    (hstep : ∀ M : Model C D rU rV ℝ, M.s = s0 → f (affM a b M) = affM a b (g M)) (hpres : ∀ M, (g M).s = M.s)
    (n : ℕ) (M : Model C D rU rV ℝ) (hM : M.s = s0) : iter f n (affM a b M) = affM a b (iter g n M) := by
  induction n generalizing M with
  | zero => rfl
  | succ n ih =>
    simp only [iter]
    rw [hstep M hM]
    exact ih _ (by rw [hpres, hM])

/-- `jfaFit` without the materialisation steps (they are the identity on values) -/
theorem jfaFit_spec (M0 : Model C D rU rV ℝ) (cl : List (List (St C D ℝ))) (k : ℕ) :
    jfaFit M0 cl k =
      (let M1 := iter (fun M => stepV M cl) k M0
       let ys := finalizeV M1 cl
       let M2 := iter (fun M => stepU M cl ys) k M1
       let xss := finalizeU M2 cl ys
       iter (fun M => stepD M cl xss ys) k M2) := by
  have hv : ∀ {n : ℕ} (f : Fin n → ℝ), (let v := Vector.ofFn f; fun i : Fin n => v[i]) = f := by
    intro n f; funext i; simp
  simp only [jfaFit, materialize_eq, hv, List.map_id']

/-- **JFA training is equivariant**: training on the transformed features from the transformed
initial model gives the transformed model (UBM means / variances and the rows of `U`, `V`, `D` follow
the features), for all three phases and any number of iterations -/
theorem C15_jfa_training_equivariant (a b : Fin D → ℝ) (ha : ∀ d, a d ≠ 0) (M0 : Model C D rU rV ℝ) (hs : ∀ c d, M0.s c d ≠ 0)
    (cl : List (List (St C D ℝ))) (k : ℕ) :
    jfaFit (affM a b M0) (affCl a b cl) k = affM a b (jfaFit M0 cl k) := by
  rw [jfaFit_spec, jfaFit_spec]
  simp only
  -- V phase
  rw [iter_aff a b _ (fun M => stepV M cl) M0.s (fun M hM => stepV_aff a b ha M (by rw [hM]; exact hs) cl) (fun M => stepV_s M cl) k M0 rfl]
  set M1 := iter (fun M => stepV M cl) k M0 with hM1
  have hs1 : M1.s = M0.s := iter_s (fun M => stepV_s M cl) k M0
  have hs1' : ∀ c d, M1.s c d ≠ 0 := by rw [hs1]; exact hs
  rw [finalizeV_aff a b ha M1 hs1']
  set ys := finalizeV M1 cl
  rw [iter_aff a b _ (fun M => stepU M cl ys) M0.s (fun M hM => stepU_aff a b ha M (by rw [hM]; exact hs) cl ys) (fun M => stepU_s M cl ys) k M1 hs1]
  set M2 := iter (fun M => stepU M cl ys) k M1 with hM2
  have hs2 : M2.s = M0.s := by rw [iter_s (fun M => stepU_s M cl ys) k M1, hs1]
  have hs2' : ∀ c d, M2.s c d ≠ 0 := by rw [hs2]; exact hs
  rw [finalizeU_aff a b ha M2 hs2']
  set xss := finalizeU M2 cl ys
  exact iter_aff a b _ (fun M => stepD M cl xss ys) M0.s (fun M hM => stepD_aff a b ha M (by rw [hM]; exact hs) cl xss ys) (fun M => stepD_s M cl xss ys) k M2 hs2

theorem eStepIsv_aff (a b : Fin D → ℝ) (ha : ∀ d, a d ≠ 0) (M : Model C D rU rV ℝ) (hs : ∀ c d, M.s c d ≠ 0) (sts : List (St C D ℝ)) :
    eStepIsv (affM a b M) (sts.map (affSt a b)) = accScale a (eStepIsv M sts) := by
  have hU : (affM a b M).U = fun c d k => a d * M.U c d k := rfl
  have hxs : ((sts.map (affSt a b)).map fun st => latentX (affM a b M) st (fun _ => 0) zeroZ) = sts.map fun st => latentX M st (fun _ => 0) zeroZ := by
    rw [List.map_map]
    exact List.map_congr_left fun st _ => latentX_aff a b ha M hs st _ _
  simp only [eStepIsv, hxs, updateZ_aff a b ha M hs]
  rw [← Acc_sum_scale, List.zip_map_left, List.map_map, List.map_map]
  congr 1
  apply List.map_congr_left
  intro p _
  simp only [Function.comp_def, Prod.map, id, accScale, FA.idPlusInv]
  have hn : (affSt a b p.1).n = p.1.n := rfl
  rw [hn, hU, prodN_aff a b ha M hs]
  simp only [fnX_aff]
  congr 1
  funext c d k; ring

theorem stepIsv_aff (a b : Fin D → ℝ) (ha : ∀ d, a d ≠ 0) (M : Model C D rU rV ℝ) (hs : ∀ c d, M.s c d ≠ 0) (cl : List (List (St C D ℝ))) :
    stepIsv (affM a b M) (affCl a b cl) = affM a b (stepIsv M cl) := by
  have : (affCl a b cl).map (eStepIsv (affM a b M)) = (cl.map (eStepIsv M)).map (accScale a) := by
    simp only [affCl, List.map_map, Function.comp_def, eStepIsv_aff a b ha M hs]
  simp only [stepIsv, this, Acc_sum_scale, solveLoading_scale]
  rfl

/-- **ISV training is equivariant** -/
theorem C15_isv_training_equivariant (a b : Fin D → ℝ) (ha : ∀ d, a d ≠ 0) (M0 : Model C D rU rV ℝ) (hs : ∀ c d, M0.s c d ≠ 0)
    (cl : List (List (St C D ℝ))) (k : ℕ) :
    isvFit (affM a b M0) (affCl a b cl) k = affM a b (isvFit M0 cl k) := by
  simp only [isvFit, materialize_eq]
  exact iter_aff a b _ (fun M => stepIsv M cl) M0.s (fun M hM => stepIsv_aff a b ha M (by rw [hM]; exact hs) cl) (fun M => rfl) k M0 rfl
end TrainAffine

/-! ### the stopping tests under a change of units (finding D24)

A change of units `x ↦ a x + b` shifts every log-likelihood, hence the average log-likelihood that
`GMMMachine.fit` reports, by the constant `K = Σ_d log|a_d|` (`C15_loglik_shift`).  `fit` stops on
`|prev − cur| / |prev| ≤ thr`: the numerator is unit-free, the denominator is not.  The k-means
criterion scales by `s²`, which cancels. -/
section StopRule

/-- the absolute change of the criterion is unit-free -/
theorem C15_abs_change_unit_free (prev cur K : ℝ) : (prev - K) - (cur - K) = prev - cur := by ring

/-- **the GMM stopping test depends on the units** (relative change of a quantity defined up to an
additive constant): with threshold `0.01`, criterion `-2 → -1.9` does not stop, the same run observed in
units that shift the log-likelihood by `18` (e.g. three features in units 400 times smaller) does. -/
theorem C15_gmm_stop_rule_depends_on_units :
    ∃ thr prev cur K : ℝ, convStop (some thr) prev cur = false ∧ convStop (some thr) (prev - K) (cur - K) = true := by
  refine ⟨0.01, -2, -1.9, 18, ?_, ?_⟩
  · simp only [convStop, relChange, absv, decide_eq_false_iff_not, not_le]
    norm_num
  · simp only [convStop, relChange, absv, decide_eq_true_eq]
    norm_num

/-- **what stands between `GMMMachine.fit` and unit-independence is the stopping test alone** (D24): with
*any* stopping test that does not see a common shift of its two arguments — e.g. the absolute change
`|prev − cur| ≤ thr` — the whole fit (number of iterations included) is equivariant: same iteration count,
transformed model.  The relative test of the code is not such a test
(`C15_gmm_stop_rule_depends_on_units`). -/
theorem C15_ml_fit_equivariant_of_shift_invariant_stop (a b : Fin D → ℝ) (ha : ∀ d, a d ≠ 0) (cfg cfg' : MlCfg (C+1) D ℝ)
    (h1 : cfg'.updMeans = cfg.updMeans) (h2 : cfg'.updVars = cfg.updVars) (h3 : cfg'.updWeights = cfg.updWeights)
    (h4 : cfg'.countThr = cfg.countThr) (h5 : ∀ c d, cfg'.varFloor c d = a d * a d * cfg.varFloor c d)
    (hfl : ∀ c d, 0 < cfg.varFloor c d) (hthr : 0 < cfg.countThr) (p0 : Params (C+1) D ℝ) (hv0 : ∀ c d, 0 < p0.variances c d)
    (xs : List (Fin D → ℝ)) (hne : xs ≠ []) (stop : ℝ → ℝ → Bool)
    (hstop : ∀ K p c : ℝ, stop (p - K) (c - K) = stop p c) (fuel : ℕ) (c0 : ℝ) :
    emLoop (gmmMlIter cfg' (xs.map (affX a b))) stop fuel 0 (c0 - logJac a) (affP a b p0)
      = (affP a b (emLoop (gmmMlIter cfg xs) stop fuel 0 c0 p0).1, (emLoop (gmmMlIter cfg xs) stop fuel 0 c0 p0).2) := by
  refine emLoop_sim_inv (gmmMlIter cfg xs) (gmmMlIter cfg' (xs.map (affX a b))) stop stop (affP a b) (fun c => c - logJac a)
    (fun p => ∀ c d, 0 < p.variances c d) ?_ ?_ (fun p c => hstop (logJac a) p c) fuel 0 c0 p0 hv0
  · intro p hv c d
    simp only [gmmMlIter]
    exact mlMStep_var_pos cfg p _ _ hfl hv c d
  · intro p hv
    apply Prod.ext
    · simp only [gmmMlIter]
      rw [C15_stats_equivariant a b ha p hv xs]
      exact C15_ml_equivariant a b cfg cfg' p (eStep p xs) _ _ hthr h1 h2 h3 h4 h5
    · exact C15_ml_criterion_shift a b ha cfg' p hv xs hne cfg

/-- the absolute-change test is shift-invariant (so the theorem above applies to it) -/
theorem C15_abs_stop_shift_invariant (thr K p c : ℝ) :
    decide (absv ((p - K) - (c - K)) ≤ thr) = decide (absv (p - c) ≤ thr) := by
  rw [C15_abs_change_unit_free]

/-- **the k-means stopping test is unit-free**: a similarity with scale `s ≠ 0` multiplies every
distortion by `s²` (`C15_kmeans_scale_shift`), and the relative change does not see it -/
theorem C15_kmeans_stop_rule_unit_free (s : ℝ) (hs : s ≠ 0) (thr : Option ℝ) (prev cur : ℝ) :
    convStop thr (s * s * prev) (s * s * cur) = convStop thr prev cur := by
  have hss : s * s ≠ 0 := mul_ne_zero hs hs
  have : (s * s * prev - s * s * cur) / (s * s * prev) = (prev - cur) / prev := by
    rw [← mul_sub, mul_div_mul_left _ _ hss]
  cases thr with
  | none => rfl
  | some t =>
    have e : relChange (s * s * prev) (s * s * cur) = relChange prev cur := by unfold relChange; rw [this]
    unfold convStop
    rw [e]
end StopRule

/-! ### i-vector training (fixed covariances) follows the features -/
section IVAffine
open BobEM.IV
variable {R : ℕ}

def affIV (a b : Fin D → ℝ) (m : IV.Machine C D R ℝ) : IV.Machine C D R ℝ :=
  ⟨fun c d => a d * m.ubmMeans c d + b d, fun c d t => a d * m.T c d t, fun c d => a d * a d * m.sigma c d⟩
def affG (a b : Fin D → ℝ) (st : IV.GStat C D ℝ) : IV.GStat C D ℝ :=
  ⟨st.n, fun c d => a d * st.f c d + b d * st.n c, fun c d => a d * a d * st.s c d + 2 * a d * b d * st.f c d + b d * b d * st.n c⟩

theorem iv_materialize_eq (m : IV.Machine C D R ℝ) : IV.materialize m = m := by
  cases m
  simp only [IV.materialize, IV.Machine.mk.injEq, true_and]
  exact ⟨by funext c d t; simp, by funext c d; simp⟩

theorem iv_precision_aff (a b : Fin D → ℝ) (ha : ∀ d, a d ≠ 0) (m : IV.Machine C D R ℝ) (hs : ∀ c d, m.sigma c d ≠ 0) (n : Fin C → ℝ) :
    IV.precision (affIV a b m) n = IV.precision m n := by
  funext t u
  simp only [IV.precision, sumFin_eq, affIV]
  congr 1
  refine Finset.sum_congr rfl fun c _ => ?_
  congr 1
  refine Finset.sum_congr rfl fun d _ => ?_
  have := ha d; have := hs c d
  field_simp

theorem iv_rhs_aff (a b : Fin D → ℝ) (ha : ∀ d, a d ≠ 0) (m : IV.Machine C D R ℝ) (hs : ∀ c d, m.sigma c d ≠ 0) (st : IV.GStat C D ℝ) :
    IV.rhs (affIV a b m) (affG a b st) = IV.rhs m st := by
  funext t
  simp only [IV.rhs, sumFin_eq, affIV, affG]
  refine Finset.sum_congr rfl fun c _ => Finset.sum_congr rfl fun d _ => ?_
  have := ha d; have := hs c d
  field_simp
  ring

theorem iv_contrib_aff (a b : Fin D → ℝ) (ha : ∀ d, a d ≠ 0) (m : IV.Machine C D R ℝ) (hs : ∀ c d, m.sigma c d ≠ 0) (st : IV.GStat C D ℝ) :
    (IV.contrib (affIV a b m) (affG a b st)).nsw2 = (IV.contrib m st).nsw2
      ∧ (IV.contrib (affIV a b m) (affG a b st)).fsw = fun c d t => a d * (IV.contrib m st).fsw c d t := by
  have hn : (affG a b st).n = st.n := rfl
  constructor
  · simp only [IV.contrib, hn, iv_precision_aff a b ha m hs, iv_rhs_aff a b ha m hs]
  · funext c d t
    simp only [IV.contrib, hn, iv_precision_aff a b ha m hs, iv_rhs_aff a b ha m hs]
    simp only [affIV, affG]; ring

theorem iv_eStep_aff (a b : Fin D → ℝ) (ha : ∀ d, a d ≠ 0) (m : IV.Machine C D R ℝ) (hs : ∀ c d, m.sigma c d ≠ 0) (l : List (IV.GStat C D ℝ)) :
    (IV.eStep (affIV a b m) (l.map (affG a b))).nsw2 = (IV.eStep m l).nsw2
      ∧ (IV.eStep (affIV a b m) (l.map (affG a b))).fsw = fun c d t => a d * (IV.eStep m l).fsw c d t := by
  constructor
  · funext c t u
    rw [eStep_nsw2, eStep_nsw2, List.map_map]
    congr 1
    apply List.map_congr_left
    intro st _
    simp only [Function.comp_def, (iv_contrib_aff a b ha m hs st).1]
  · funext c d t
    rw [eStep_fsw, eStep_fsw, List.map_map, ← List.sum_map_mul_left]
    congr 1
    apply List.map_congr_left
    intro st _
    simp only [Function.comp_def, (iv_contrib_aff a b ha m hs st).2]

/-- **one i-vector M-step with fixed covariances is equivariant** (`T` rows follow the features) -/
theorem iv_mStep_aff (a b : Fin D → ℝ) (m : IV.Machine C D R ℝ) (st st' : IV.Stats C D R ℝ) (floor : ℝ)
    (h1 : st'.nsw2 = st.nsw2) (h2 : st'.fsw = fun c d t => a d * st.fsw c d t) :
    IV.mStep (affIV a b m) st' false floor = affIV a b (IV.mStep m st false floor) := by
  simp only [IV.mStep, h1, h2, affIV, IV.Machine.mk.injEq, true_and, Bool.false_eq_true, if_false, and_true]
  funext c d t
  split_ifs
  · simp only [sumFin_eq, Finset.mul_sum]
    exact Finset.sum_congr rfl fun u _ => by ring
  · simp

theorem iv_fit_sigma (m0 : IV.Machine C D R ℝ) (parts : List (List (IV.GStat C D ℝ))) (floor : ℝ) (k : ℕ) :
    (IV.fit m0 parts false floor k).sigma = m0.sigma := by
  induction k with
  | zero => simp [IV.fit, iv_materialize_eq]
  | succ k ih => simp only [IV.fit, IV.iterate, iv_materialize_eq, IV.mStep, Bool.false_eq_true, if_false, ih]

/-- **i-vector training with fixed covariances is equivariant**: training on the transformed statistics
from the transformed machine gives the transformed machine, for any partitioning and number of iterations -/
theorem C15_ivector_training_equivariant (a b : Fin D → ℝ) (ha : ∀ d, a d ≠ 0) (m0 : IV.Machine C D R ℝ) (hs : ∀ c d, m0.sigma c d ≠ 0)
    (parts : List (List (IV.GStat C D ℝ))) (floor : ℝ) (k : ℕ) :
    IV.fit (affIV a b m0) (parts.map fun l => l.map (affG a b)) false floor k = affIV a b (IV.fit m0 parts false floor k) := by
  induction k with
  | zero => simp [IV.fit, iv_materialize_eq]
  | succ k ih =>
    simp only [IV.fit, IV.iterate, iv_materialize_eq, ih]
    set m := IV.fit m0 parts false floor k with hm
    have hsm : ∀ c d, m.sigma c d ≠ 0 := by rw [hm, iv_fit_sigma]; exact hs
    rw [eStep_partition, eStep_partition]
    have hflat : (parts.map fun l => l.map (affG a b)).flatten = parts.flatten.map (affG a b) := by
      rw [List.map_flatten]
    rw [hflat]
    obtain ⟨e1, e2⟩ := iv_eStep_aff a b ha m hsm parts.flatten
    exact iv_mStep_aff a b m _ _ floor e1 e2

theorem eStep_snorm' (m : IV.Machine C D R ℝ) (l : List (IV.GStat C D ℝ)) (c : Fin C) (d : Fin D) :
    (IV.eStep m l).snorm c d = (l.map fun st => (IV.contrib m st).snorm c d).sum := by
  induction l with
  | nil => simp [IV.eStep, IV.Stats.zero]
  | cons x l ih => rw [eStep_cons]; simp [IV.Stats.add, ih]

theorem iv_contrib_snorm_aff (a b : Fin D → ℝ) (m : IV.Machine C D R ℝ) (st : IV.GStat C D ℝ) (c : Fin C) (d : Fin D) :
    (IV.contrib (affIV a b m) (affG a b st)).snorm c d = a d * a d * (IV.contrib m st).snorm c d := by
  simp only [IV.contrib, affIV, affG]; ring

theorem iv_eStep_snorm_aff (a b : Fin D → ℝ) (m : IV.Machine C D R ℝ) (l : List (IV.GStat C D ℝ)) (c : Fin C) (d : Fin D) :
    (IV.eStep (affIV a b m) (l.map (affG a b))).snorm c d = a d * a d * (IV.eStep m l).snorm c d := by
  rw [eStep_snorm', eStep_snorm', List.map_map, ← List.sum_map_mul_left]
  congr 1
  apply List.map_congr_left
  intro st _
  simp only [Function.comp_def, iv_contrib_snorm_aff]

/-- **one i-vector M-step with covariance update is equivariant while the floor is inactive** on both
sides (the scalar `variance_floor` is not a scale-free quantity: where it clamps, equivariance under a
per-feature rescaling cannot hold) -/
theorem C15_ivector_mstep_sigma_equivariant (a b : Fin D → ℝ) (m : IV.Machine C D R ℝ) (st st' : IV.Stats C D R ℝ) (floor : ℝ)
    (h1 : st'.nsw2 = st.nsw2) (h2 : st'.fsw = fun c d t => a d * st.fsw c d t)
    (h3 : st'.snorm = fun c d => a d * a d * st.snorm c d) (h4 : st'.nij = st.nij)
    (hin : ∀ c d, ¬ ((if Transc.isZero (st.nij c) then m.sigma c d
        else (st.snorm c d - sumFin R fun t => st.fsw c d t *
          (if IV.anyNonzero (st.nsw2 c) then sumFin R fun u => LinAlg.inv R (fun x y => st.nsw2 c y x) t u * st.fsw c d u else 0)) / st.nij c) < floor))
    (hin' : ∀ c d, ¬ (a d * a d * (if Transc.isZero (st.nij c) then m.sigma c d
        else (st.snorm c d - sumFin R fun t => st.fsw c d t *
          (if IV.anyNonzero (st.nsw2 c) then sumFin R fun u => LinAlg.inv R (fun x y => st.nsw2 c y x) t u * st.fsw c d u else 0)) / st.nij c) < floor)) :
    IV.mStep (affIV a b m) st' true floor = affIV a b (IV.mStep m st true floor) := by
  simp only [IV.mStep, h1, h2, h3, h4, affIV, IV.Machine.mk.injEq, true_and, if_true]
  constructor
  · funext c d t
    split_ifs
    · simp only [sumFin_eq, Finset.mul_sum]
      exact Finset.sum_congr rfl fun u _ => by ring
    · simp
  · funext c d
    have e : (if Transc.isZero (st.nij c) then a d * a d * m.sigma c d
        else (a d * a d * st.snorm c d - sumFin R fun t => a d * st.fsw c d t *
          (if IV.anyNonzero (st.nsw2 c) then sumFin R fun u => LinAlg.inv R (fun x y => st.nsw2 c y x) t u * (a d * st.fsw c d u) else 0)) / st.nij c)
        = a d * a d * (if Transc.isZero (st.nij c) then m.sigma c d
        else (st.snorm c d - sumFin R fun t => st.fsw c d t *
          (if IV.anyNonzero (st.nsw2 c) then sumFin R fun u => LinAlg.inv R (fun x y => st.nsw2 c y x) t u * st.fsw c d u else 0)) / st.nij c) := by
      split_ifs with hz hnz
      · rfl
      · simp only [sumFin_eq]
        have hsum : (∑ t, a d * st.fsw c d t * ∑ u, LinAlg.inv R (fun x y => st.nsw2 c y x) t u * (a d * st.fsw c d u))
            = a d * a d * ∑ t, st.fsw c d t * ∑ u, LinAlg.inv R (fun x y => st.nsw2 c y x) t u * st.fsw c d u := by
          rw [Finset.mul_sum]
          refine Finset.sum_congr rfl fun t _ => ?_
          rw [Finset.mul_sum, Finset.mul_sum, Finset.mul_sum]
          refine Finset.sum_congr rfl fun u _ => ?_
          ring
        rw [hsum]
        ring
      · simp only [sumFin_eq, mul_zero, Finset.sum_const_zero, sub_zero]
        ring
    rw [e, if_neg (hin' c d), if_neg (hin c d)]

/-! #### covariance update with the floor transformed alongside (uniform scales: the floor is one scalar) -/

theorem iv_eStep_nij_aff (a b : Fin D → ℝ) (m : IV.Machine C D R ℝ) (l : List (IV.GStat C D ℝ)) :
    (IV.eStep (affIV a b m) (l.map (affG a b))).nij = (IV.eStep m l).nij := by
  funext c
  rw [eStep_nij, eStep_nij, List.map_map]
  rfl

/-- the unclamped covariance estimate scales like the squared features -/
theorem iv_raw_aff (a : Fin D → ℝ) (sig : Fin C → Fin D → ℝ) (st : IV.Stats C D R ℝ) (c : Fin C) (d : Fin D) :
    (if Transc.isZero (st.nij c) then a d * a d * sig c d
        else (a d * a d * st.snorm c d - sumFin R fun t => a d * st.fsw c d t *
          (if IV.anyNonzero (st.nsw2 c) then sumFin R fun u => LinAlg.inv R (fun x y => st.nsw2 c y x) t u * (a d * st.fsw c d u) else 0)) / st.nij c)
      = a d * a d * (if Transc.isZero (st.nij c) then sig c d
        else (st.snorm c d - sumFin R fun t => st.fsw c d t *
          (if IV.anyNonzero (st.nsw2 c) then sumFin R fun u => LinAlg.inv R (fun x y => st.nsw2 c y x) t u * st.fsw c d u else 0)) / st.nij c) := by
  split_ifs with hz hnz
  · rfl
  · simp only [sumFin_eq]
    have hsum : (∑ t, a d * st.fsw c d t * ∑ u, LinAlg.inv R (fun x y => st.nsw2 c y x) t u * (a d * st.fsw c d u))
        = a d * a d * ∑ t, st.fsw c d t * ∑ u, LinAlg.inv R (fun x y => st.nsw2 c y x) t u * st.fsw c d u := by
      rw [Finset.mul_sum]
      refine Finset.sum_congr rfl fun t _ => ?_
      rw [Finset.mul_sum, Finset.mul_sum, Finset.mul_sum]
      refine Finset.sum_congr rfl fun u _ => ?_
      ring
    rw [hsum]
    ring
  · simp only [sumFin_eq, mul_zero, Finset.sum_const_zero, sub_zero]
    ring

/-- **one M-step with covariance update, floor active or not**, under a uniform scale `s` and any shift:
with the floor taken to `s² · floor` the new machine is the transformed one -/
theorem iv_mStep_sigma_uniform (s : ℝ) (hs0 : s ≠ 0) (b : Fin D → ℝ) (m : IV.Machine C D R ℝ) (st st' : IV.Stats C D R ℝ) (floor : ℝ)
    (h1 : st'.nsw2 = st.nsw2) (h2 : st'.fsw = fun c d t => s * st.fsw c d t)
    (h3 : st'.snorm = fun c d => s * s * st.snorm c d) (h4 : st'.nij = st.nij) :
    IV.mStep (affIV (fun _ => s) b m) st' true (s * s * floor) = affIV (fun _ => s) b (IV.mStep m st true floor) := by
  have hss : 0 < s * s := mul_self_pos.mpr hs0
  simp only [IV.mStep, h1, h2, h3, h4, affIV, IV.Machine.mk.injEq, true_and, if_true]
  constructor
  · funext c d t
    split_ifs
    · simp only [sumFin_eq, Finset.mul_sum]
      exact Finset.sum_congr rfl fun u _ => by ring
    · simp
  · funext c d
    rw [iv_raw_aff (fun _ => s) m.sigma st c d]
    by_cases h : (if Transc.isZero (st.nij c) then m.sigma c d
        else (st.snorm c d - sumFin R fun t => st.fsw c d t *
          (if IV.anyNonzero (st.nsw2 c) then sumFin R fun u => LinAlg.inv R (fun x y => st.nsw2 c y x) t u * st.fsw c d u else 0)) / st.nij c) < floor
    · rw [if_pos h, if_pos (mul_lt_mul_of_pos_left h hss)]
    · rw [if_neg h, if_neg (fun h' => h (lt_of_mul_lt_mul_left h' hss.le))]

/-- after an M-step with covariance update and a positive floor every covariance entry is positive -/
theorem iv_mStep_sigma_pos (m : IV.Machine C D R ℝ) (st : IV.Stats C D R ℝ) (floor : ℝ) (hfl : 0 < floor) (c : Fin C) (d : Fin D) :
    0 < (IV.mStep m st true floor).sigma c d := by
  have key : ∀ raw : ℝ, 0 < (if raw < floor then floor else raw) := fun raw => by
    split_ifs with h
    · exact hfl
    · exact lt_of_lt_of_le hfl (not_lt.mp h)
  simp only [IV.mStep, if_true]
  exact key _

theorem iv_fit_sigma_ne (m0 : IV.Machine C D R ℝ) (hs : ∀ c d, m0.sigma c d ≠ 0) (parts : List (List (IV.GStat C D ℝ)))
    (floor : ℝ) (hfl : 0 < floor) (k : ℕ) (c : Fin C) (d : Fin D) : (IV.fit m0 parts true floor k).sigma c d ≠ 0 := by
  cases k with
  | zero => simpa [IV.fit, iv_materialize_eq] using hs c d
  | succ k =>
    simp only [IV.fit, IV.iterate, iv_materialize_eq]
    exact (iv_mStep_sigma_pos _ _ floor hfl c d).ne'

/-- **i-vector training with covariance update is equivariant** under any uniform scale `s ≠ 0` and any
shift `b`, the scalar `variance_floor` being transformed like a variance (`s² · floor`): for every
partitioning of the statistics and every number of iterations, whether or not the floor clamps on the way -/
theorem C15_ivector_training_sigma_equivariant (s : ℝ) (hs0 : s ≠ 0) (b : Fin D → ℝ) (m0 : IV.Machine C D R ℝ)
    (hs : ∀ c d, m0.sigma c d ≠ 0) (parts : List (List (IV.GStat C D ℝ))) (floor : ℝ) (hfl : 0 < floor) (k : ℕ) :
    IV.fit (affIV (fun _ => s) b m0) (parts.map fun l => l.map (affG (fun _ => s) b)) true (s * s * floor) k
      = affIV (fun _ => s) b (IV.fit m0 parts true floor k) := by
  induction k with
  | zero => simp [IV.fit, iv_materialize_eq]
  | succ k ih =>
    simp only [IV.fit, IV.iterate, iv_materialize_eq, ih]
    set m := IV.fit m0 parts true floor k with hm
    have hsm : ∀ c d, m.sigma c d ≠ 0 := fun c d => by rw [hm]; exact iv_fit_sigma_ne m0 hs parts floor hfl k c d
    rw [eStep_partition, eStep_partition]
    have hflat : (parts.map fun l => l.map (affG (fun _ => s) b)).flatten = parts.flatten.map (affG (fun _ => s) b) := by
      rw [List.map_flatten]
    rw [hflat]
    obtain ⟨e1, e2⟩ := iv_eStep_aff (fun _ => s) b (fun _ => hs0) m hsm parts.flatten
    exact iv_mStep_sigma_uniform s hs0 b m _ _ floor e1 e2
      (by funext c d; exact iv_eStep_snorm_aff (fun _ => s) b m parts.flatten c d) (iv_eStep_nij_aff (fun _ => s) b m parts.flatten)
end IVAffine

/-! ### Unit conversion of a machine's public history (parameters and floors given in any order) -/
section SetterHistory
variable {C D : ℕ}

/-- one public mutation of a `GMMMachine`, expressed in the new units: means `a μ + b`, variances and
floors `a² ·` -/
def affOp (a b : Fin D → ℝ) : GOp C D ℝ → GOp C D ℝ
  | .setWeights w => .setWeights w
  | .setMeans m => .setMeans (fun c d => a d * m c d + b d)
  | .setVariances v => .setVariances (fun c d => a d * a d * v c d)
  | .setThresholds t => .setThresholds (fun c d => a d * a d * t c d)
  | .mStep as => .mStep as
  | .clone => .clone

/-- assignments and copies (everything but a training step, which `C15_ml_equivariant` /
`C15_map_mstep_equivariant` cover) -/
def BobEM.GOp.isAssignment : GOp C D ℝ → Prop
  | .mStep _ => False
  | _ => True

/-- the visible state of `s'` is that of `s` in the new units -/
structure AffState (a b : Fin D → ℝ) (s s' : GState C D ℝ) : Prop where
  w : s'.weights = s.weights
  m : s'.means = s.means.map (fun m c d => a d * m c d + b d)
  v : s'.variances = s.variances.map (fun v c d => a d * a d * v c d)
  t : s'.thresholds = fun c d => a d * a d * s.thresholds c d

theorem affState_step (a b : Fin D → ℝ) (s s' : GState C D ℝ) (h : AffState a b s s') (op : GOp C D ℝ)
    (hop : op.isAssignment) : AffState a b (s.step op) (s'.step (affOp a b op)) := by
  have hmax : ∀ (t v : ℝ) (d : Fin D), max (a d * a d * t) (a d * a d * v) = a d * a d * max t v := fun t v d =>
    (mul_max_of_nonneg t v (mul_self_nonneg (a d))).symm
  obtain ⟨hw, hm, hv, ht⟩ := h
  cases op with
  | setWeights w => exact ⟨rfl, hm, hv, ht⟩
  | setMeans m => exact ⟨hw, by simp [GState.step, affOp, GState.setMeans], hv, ht⟩
  | setVariances v =>
    refine ⟨hw, hm, ?_, ht⟩
    simp only [GState.step, affOp, GState.setVariances, Option.map_some, Option.some.injEq, ht]
    funext c d; exact hmax _ _ d
  | setThresholds t =>
    cases hsv : s.variances with
    | none =>
      have hsv' : s'.variances = none := by rw [hv, hsv]; rfl
      refine ⟨?_, ?_, ?_, ?_⟩ <;> simp only [GState.step, affOp, GState.setThresholds, hsv, hsv']
      · exact hw
      · exact hm
      · rfl
    | some v0 =>
      have hsv' : s'.variances = some (fun c d => a d * a d * v0 c d) := by rw [hv, hsv]; rfl
      refine ⟨?_, ?_, ?_, ?_⟩ <;> simp only [GState.step, affOp, GState.setThresholds, GState.setVariances, hsv, hsv']
      · exact hw
      · exact hm
      · simp only [Option.map_some, Option.some.injEq]
        funext c d; rw [hmax, hmax]
  | mStep as => exact absurd hop (by simp [GOp.isAssignment])
  | clone => exact ⟨hw, hm, hv, ht⟩

/-- **Floors follow the features, whatever the order of the assignments**: run any history of public
assignments (weights, means, variances, floors, copies — in any order, any number of times) in the
original units and the converted history in the new units; the resulting machines have the same
weights, means `a μ + b`, and **clamped** variances and floors `a² ·` — for every `a` (no sign or
non-zero condition is needed here) and every per-Gaussian, per-feature floor array -/
theorem C15_assignment_history_equivariant (a b : Fin D → ℝ) (s s' : GState C D ℝ) (h : AffState a b s s')
    (ops : List (GOp C D ℝ)) (hops : ∀ op ∈ ops, op.isAssignment) :
    AffState a b (s.run ops) (s'.run (ops.map (affOp a b))) := by
  induction ops generalizing s s' with
  | nil => simpa [GState.run] using h
  | cons op ops ih =>
    simp only [GState.run, List.map_cons, List.foldl_cons]
    exact ih _ _ (affState_step a b s s' h op (hops op (by simp))) (fun o ho => hops o (by simp [ho]))

/-- a fresh machine with scalar floor `f`, and a fresh machine whose floors are then set to `a² f` per
feature, are related: the starting point of `C15_assignment_history_equivariant` is reachable -/
theorem C15_fresh_machines_related (a b : Fin D → ℝ) (w : Fin C → ℝ) (f f' : ℝ) :
    AffState a b (GState.init w f) ((GState.init (D := D) w f').setThresholds (fun _ d => a d * a d * f)) :=
  ⟨rfl, rfl, rfl, rfl⟩

end SetterHistory

/-- non-vacuity of `C15_assignment_history_equivariant`: variances given first, then a per-feature floor
that clamps one of them (in centimetres vs metres on the second feature) -/
example :
    let a : Fin 2 → ℝ := ![1, 100]
    let ops : List (GOp 1 2 ℝ) := [.setMeans (fun _ _ => 0), .setVariances (fun _ d => ![4, 1] d), .setThresholds (fun _ _ => 2)]
    ((GState.init (fun _ => 1) 0).run ops).variances.map (fun v => (v 0 0, v 0 1)) = some (4, 2)
      ∧ ((((GState.init (D := 2) (fun _ => 1) 0).setThresholds (fun _ d => a d * a d * 0)).run (ops.map (affOp a ![0, 0]))).variances.map
          (fun v => (v 0 0, v 0 1))) = some (4, 20000) := by
  simp only [GState.run, GState.init, List.foldl_cons, List.foldl_nil, List.map_cons, List.map_nil, GState.step, affOp, GState.setMeans, GState.setVariances,
    GState.setThresholds, Option.map_some]
  norm_num [Matrix.cons_val_zero, Matrix.cons_val_one]
