import BobEM.Props.C01
import BobEM.Props.C05
import BobEM.Props.C08
import BobEM.Props.C11
import BobEM.Lemmas.KMeansDescent

/-!
# C15 — Training is equivariant, scoring invariant, under affine feature rescaling/shift

The feature map is `x_d ↦ a_d x_d + b_d` with `a_d ≠ 0`; parameters are transformed accordingly:
means `a μ + b`, variances and floors `a² v`, statistics `F ↦ a F + b N`, `S ↦ a² S + 2ab F + b² N`,
subspace rows and offsets `a ·`.
-/

open Finset BobEM Matrix

variable {C D : ℕ}

/-- transformed sample / parameters / statistics -/
def affX (a b : Fin D → ℝ) (x : Fin D → ℝ) : Fin D → ℝ := fun d => a d * x d + b d
def affP (a b : Fin D → ℝ) (p : Params C D ℝ) : Params C D ℝ :=
  { weights := p.weights, means := fun c d => a d * p.means c d + b d, variances := fun c d => a d * a d * p.variances c d }
def affS (a b : Fin D → ℝ) (s : Stats C D ℝ) (K : ℝ) : Stats C D ℝ :=
  { n := s.n, sumPx := fun c d => a d * s.sumPx c d + b d * s.n c,
    sumPxx := fun c d => a d * a d * s.sumPxx c d + 2 * a d * b d * s.sumPx c d + b d * b d * s.n c,
    ll := s.ll - K, t := s.t }

/-- `Σ_d log |a_d|` -/
noncomputable def logJac (a : Fin D → ℝ) : ℝ := ∑ d, Real.log |a d|

theorem C15_lwl_shift (a b : Fin D → ℝ) (ha : ∀ d, a d ≠ 0) (p : Params C D ℝ) (hv : ∀ c d, 0 < p.variances c d)
    (x : Fin D → ℝ) (c : Fin C) :
    lwl (affP a b p) (affX a b x) c = lwl p x c - logJac a := by
  unfold lwl gNorm affP affX logJac
  simp only [sumFin_eq, Transc.log]
  have h1 : ∀ d, Real.log (a d * a d * p.variances c d) = 2 * Real.log |a d| + Real.log (p.variances c d) := by
    intro d
    rw [Real.log_mul (mul_ne_zero (ha d) (ha d)) (hv c d).ne', ← sq, ← Real.log_abs, abs_pow, Real.log_pow]
    norm_num
  have h2 : ∀ d, (a d * x d + b d - (a d * p.means c d + b d)) * (a d * x d + b d - (a d * p.means c d + b d))
      / (a d * a d * p.variances c d) = (x d - p.means c d) * (x d - p.means c d) / p.variances c d := by
    intro d
    have := ha d; have := (hv c d).ne'
    field_simp
    ring
  simp only [h1, h2, Finset.sum_add_distrib, ← Finset.mul_sum]
  ring

/-- log-likelihoods shift by `−Σ log|a|` -/
theorem C15_loglik_shift (a b : Fin D → ℝ) (ha : ∀ d, a d ≠ 0) (p : Params (C+1) D ℝ)
    (hv : ∀ c d, 0 < p.variances c d) (x : Fin D → ℝ) :
    logLik (affP a b p) (affX a b x) = logLik p x - logJac a := by
  rw [C01_shift (affP a b p) (affX a b x) (-logJac a), C01_shift p x 0]
  simp only [C15_lwl_shift a b ha p hv, sub_neg_eq_add, sub_add_cancel, sub_zero, zero_add]
  ring

/-- responsibilities are unchanged -/
theorem C15_resp_invariant (a b : Fin D → ℝ) (ha : ∀ d, a d ≠ 0) (p : Params (C+1) D ℝ)
    (hv : ∀ c d, 0 < p.variances c d) (x : Fin D → ℝ) (c : Fin (C+1)) :
    resp (affP a b p) (affX a b x) c = resp p x c := by
  unfold resp
  rw [C15_lwl_shift a b ha p hv, C15_loglik_shift a b ha p hv]
  congr 1; ring

theorem sum_affine {β : Type} (l : List β) (r x : β → ℝ) (a b : ℝ) :
    (l.map fun e => r e * (a * x e + b)).sum = a * (l.map fun e => r e * x e).sum + b * (l.map r).sum := by
  induction l with
  | nil => simp
  | cons e l ih => simp only [List.map_cons, List.sum_cons, ih]; ring
theorem sum_affine_sq {β : Type} (l : List β) (r x : β → ℝ) (a b : ℝ) :
    (l.map fun e => r e * (a * x e + b) * (a * x e + b)).sum
      = a * a * (l.map fun e => r e * x e * x e).sum + 2 * a * b * (l.map fun e => r e * x e).sum + b * b * (l.map r).sum := by
  induction l with
  | nil => simp
  | cons e l ih => simp only [List.map_cons, List.sum_cons, ih]; ring
theorem sum_shift {β : Type} (l : List β) (f : β → ℝ) (k : ℝ) :
    (l.map fun e => f e - k).sum = (l.map f).sum - l.length * k := by
  induction l with
  | nil => simp
  | cons e l ih => simp only [List.map_cons, List.sum_cons, ih, List.length_cons]; push_cast; ring

theorem sum_lin {β : Type} (l : List β) (f n : β → ℝ) (a b : ℝ) :
    (l.map fun e => a * f e + b * n e).sum = a * (l.map f).sum + b * (l.map n).sum := by
  induction l with
  | nil => simp
  | cons e l ih => simp only [List.map_cons, List.sum_cons, ih]; ring

/-- the accumulated statistics transform as `N ↦ N`, `F ↦ aF + bN`, `S ↦ a²S + 2abF + b²N` -/
theorem C15_stats_equivariant (a b : Fin D → ℝ) (ha : ∀ d, a d ≠ 0) (p : Params (C+1) D ℝ)
    (hv : ∀ c d, 0 < p.variances c d) (xs : List (Fin D → ℝ)) :
    eStep (affP a b p) (xs.map (affX a b)) = affS a b (eStep p xs) (xs.length * logJac a) := by
  have hr : ∀ x c, Transc.exp (lwl (affP a b p) (affX a b x) c - logLik (affP a b p) (affX a b x))
      = Transc.exp (lwl p x c - logLik p x) := fun x c => C15_resp_invariant a b ha p hv x c
  simp only [eStep, affS]
  congr 1
  · funext c
    simp only [lsum_eq, List.map_map, Function.comp_def, hr]
  · funext c d
    simp only [lsum_eq, List.map_map, Function.comp_def, hr, affX]
    exact sum_affine xs (fun x => Transc.exp (lwl p x c - logLik p x)) (fun x => x d) (a d) (b d)
  · funext c d
    simp only [lsum_eq, List.map_map, Function.comp_def, hr, affX]
    exact sum_affine_sq xs (fun x => Transc.exp (lwl p x c - logLik p x)) (fun x => x d) (a d) (b d)
  · simp only [lsum_eq, List.map_map, Function.comp_def, C15_loglik_shift a b ha p hv]
    exact sum_shift xs (logLik p) (logJac a)
  · simp

/-- **ML M-step equivariance** (no count floor active; `cfg'` is `cfg` with the floors transformed with
the features): new means `a μ' + b`, new variances `a² v'`, unchanged weights -/
theorem C15_ml_equivariant (a b : Fin D → ℝ) (cfg cfg' : MlCfg C D ℝ) (p : Params C D ℝ)
    (st : Stats C D ℝ) (t K : ℝ) (hcount : ∀ c, cfg.countThr ≤ st.n c) (hpos : ∀ c, 0 < st.n c)
    (h1 : cfg'.updMeans = cfg.updMeans) (h2 : cfg'.updVars = cfg.updVars) (h3 : cfg'.updWeights = cfg.updWeights)
    (h4 : cfg'.countThr = cfg.countThr) (h5 : ∀ c d, cfg'.varFloor c d = a d * a d * cfg.varFloor c d) :
    mlMStep cfg' (affP a b p) (affS a b st K) t = affP a b (mlMStep cfg p st t) := by
  have htn : ∀ c, max (st.n c) cfg.countThr = st.n c := fun c => max_eq_left (hcount c)
  have hmeans : ∀ c d, mlMeans cfg' (affP a b p) (affS a b st K) c d = a d * mlMeans cfg p st c d + b d := by
    intro c d
    simp only [mlMeans, h1, h4, affS, affP, htn]
    split_ifs
    · have := (hpos c).ne'; field_simp
    · rfl
  have hraw : ∀ c d, mlRawVar cfg' (affP a b p) (affS a b st K) c d = a d * a d * mlRawVar cfg p st c d := by
    intro c d
    unfold mlRawVar
    rw [hmeans]
    simp only [affS, h4, htn]
    have := (hpos c).ne'
    field_simp
    ring
  unfold mlMStep
  simp only [h2, h3, h4, affS, htn]
  simp only [affP]
  congr 1
  · funext c d; exact hmeans c d
  · by_cases huv : cfg.updVars = true
    · funext c d
      simp only [huv, if_true, h5]
      have := hraw c d
      simp only [affS, affP] at this
      rw [this, ← mul_max_of_nonneg _ _ (mul_self_nonneg (a d))]
    · simp only [huv]
      rfl

/-- **MAP (Spec) equivariance of means and variances** for a component with evidence -/
theorem C15_map_equivariant_spec (a b : Fin D → ℝ) (cfg : MapCfg C D ℝ) (ubm p : Params C D ℝ) (st : Stats C D ℝ) (K : ℝ)
    (hm : cfg.updMeans = true) (c : Fin C) (d : Fin D) (hn : cfg.countThr ≤ st.n c) (hpos : 0 < st.n c) :
    mapMeans cfg (affP a b ubm) (affP a b p) (affS a b st K) c d = a d * mapMeans cfg ubm p st c d + b d ∧
    mapRawVarG (fun m => m * m) cfg (affP a b ubm) (affP a b p) (affS a b st K) c d
      = a d * a d * mapRawVarG (fun m => m * m) cfg ubm p st c d := by
  have hal : mapAlpha cfg (affS a b st K) c = mapAlpha cfg st c := by simp [mapAlpha, affS]
  have hmean : mapMeans cfg (affP a b ubm) (affP a b p) (affS a b st K) c d = a d * mapMeans cfg ubm p st c d + b d := by
    have hn' : ¬ (affS a b st K).n c < cfg.countThr := by simpa [affS] using not_lt.mpr hn
    simp only [mapMeans, hm, if_true, hn', not_lt.mpr hn, if_false, hal]
    simp only [affS, affP]
    have := hpos.ne'
    field_simp
    ring
  refine ⟨hmean, ?_⟩
  have hn' : ¬ (affS a b st K).n c < cfg.countThr := by simpa [affS] using not_lt.mpr hn
  simp only [mapRawVarG, hn', not_lt.mpr hn, if_false, hmean, hal]
  have hmexp : mapMeans cfg ubm p st c d
      = mapAlpha cfg st c * (st.sumPx c d / st.n c) + (1 - mapAlpha cfg st c) * ubm.means c d := by
    simp [mapMeans, hm, not_lt.mpr hn]
  rw [hmexp]
  simp only [affS, affP]
  have := hpos.ne'
  field_simp
  ring

/-- the pinned commit's variance blend is **not** equivariant (same root cause as C05's finding):
witness `a = 2`, `b = 0` on the D3 data -/
theorem C15_map_var_code_not_equivariant :
    let cfg : MapCfg 1 1 ℝ := ⟨true, true, false, true, 4, 1/2, 0, fun _ _ => 0⟩
    let ubm : Params 1 1 ℝ := ⟨fun _ => 1, fun _ _ => 2, fun _ _ => 1⟩
    let st : Stats 1 1 ℝ := ⟨fun _ => 4, fun _ _ => 8, fun _ _ => 20, 0, 4⟩
    let a : Fin 1 → ℝ := fun _ => 2
    let b : Fin 1 → ℝ := fun _ => 0
    mapRawVarG (fun m => m) cfg (affP a b ubm) (affP a b ubm) (affS a b st 0) 0 0
      ≠ a 0 * a 0 * mapRawVarG (fun m => m) cfg ubm ubm st 0 0 := by
  simp only [mapRawVarG, mapMeans, mapAlpha, affP, affS]
  norm_num

/-- **linear scores are invariant** (UBM, model means, statistics and channel offsets transformed) -/
theorem C15_linear_score_invariant (a b : Fin D → ℝ) (ha : ∀ d, a d ≠ 0) (um uv model : Fin C → Fin D → ℝ)
    (hv : ∀ c d, uv c d ≠ 0) (st : LStat C D ℝ) (off : Fin C → Fin D → ℝ) (norm : Bool) (eps : ℝ) :
    linearScore (fun c d => a d * um c d + b d) (fun c d => a d * a d * uv c d) (fun c d => a d * model c d + b d)
        ⟨st.n, fun c d => a d * st.sumPx c d + b d * st.n c, st.t⟩ (fun c d => a d * off c d) norm eps
      = linearScore um uv model st off norm eps := by
  unfold linearScore
  simp only [sumFin_eq]
  refine Finset.sum_congr rfl fun c _ => Finset.sum_congr rfl fun d _ => ?_
  have := ha d; have := hv c d
  split_ifs <;> field_simp <;> ring

/-- transformed ISV/JFA model and statistics -/
def affM {rU rV : ℕ} (a b : Fin D → ℝ) (M : FA.Model C D rU rV ℝ) : FA.Model C D rU rV ℝ :=
  ⟨fun c d => a d * M.m c d + b d, fun c d => a d * a d * M.s c d, fun c d r => a d * M.U c d r,
   fun c d r => a d * M.V c d r, fun c d => a d * M.Dd c d⟩
def affSt (a b : Fin D → ℝ) (s : FA.St C D ℝ) : FA.St C D ℝ :=
  ⟨s.n, fun c d => a d * s.f c d + b d * s.n c, s.t⟩

/-- **channel factors are invariant**: the posterior mean `x̂` of a probe is unchanged when features,
UBM and the subspace rows are transformed -/
theorem C15_latent_invariant {rU rV : ℕ} (a b : Fin D → ℝ) (ha : ∀ d, a d ≠ 0) (M : FA.Model C D rU rV ℝ)
    (hs : ∀ c d, M.s c d ≠ 0) (sts : List (FA.St C D ℝ)) :
    FA.estimateX (affM a b M) (sts.map (affSt a b)) = FA.estimateX M sts := by
  set M' := affM a b M with hM'
  set sts' := sts.map (affSt a b) with hsts'
  have hn : FA.nAcc sts' = FA.nAcc sts := by
    funext c; simp [FA.nAcc, hsts', affSt, List.map_map, Function.comp_def]
  have hf : ∀ c d, FA.fAcc sts' c d = a d * FA.fAcc sts c d + b d * FA.nAcc sts c := by
    intro c d
    simp only [FA.fAcc, FA.nAcc, hsts', affSt, lsum_eq, List.map_map, Function.comp_def]
    exact sum_lin sts (fun s => s.f c d) (fun s => s.n c) (a d) (b d)
  have hprod : FA.prodN M' M'.U (FA.nAcc sts) = FA.prodN M M.U (FA.nAcc sts) := by
    funext r r'
    simp only [FA.prodN, sumFin_eq, hM', affM]
    refine Finset.sum_congr rfl fun c _ => ?_
    congr 1
    refine Finset.sum_congr rfl fun d _ => ?_
    have := ha d; have := hs c d
    field_simp
  have hproj : FA.projT M' M'.U (fun c d => FA.fAcc sts' c d - M'.m c d * FA.nAcc sts c)
      = FA.projT M M.U (fun c d => FA.fAcc sts c d - M.m c d * FA.nAcc sts c) := by
    funext r
    simp only [FA.projT, sumFin_eq, hf]
    simp only [hM', affM]
    refine Finset.sum_congr rfl fun c _ => Finset.sum_congr rfl fun d _ => ?_
    have := ha d; have := hs c d
    field_simp
    ring
  unfold FA.estimateX FA.idPlusInv
  simp only [hn, hprod, hproj]

/-- **k-means**: under a uniform scale `s ≠ 0` and a shift `t`, squared distances scale by `s²`, so the
assignment of every sample is unchanged -/
theorem C15_kmeans_scale_shift {K : ℕ} (s : ℝ) (hs : s ≠ 0) (t : Fin D → ℝ) (cent : Fin (K+1) → Fin D → ℝ) (x : Fin D → ℝ) :
    (∀ k, sqDist (fun d => s * x d + t d) (fun d => s * cent k d + t d) = s * s * sqDist x (cent k)) ∧
    assign (fun k d => s * cent k d + t d) (fun d => s * x d + t d) = assign cent x := by
  have hd : ∀ k, sqDist (fun d => s * x d + t d) (fun d => s * cent k d + t d) = s * s * sqDist x (cent k) := by
    intro k
    simp only [sqDist_eq, Finset.mul_sum]
    exact Finset.sum_congr rfl fun d _ => by ring
  refine ⟨hd, ?_⟩
  unfold assign argminFin
  have hpos : 0 < s * s := mul_self_pos.mpr hs
  simp only [hd]
  congr 1
  funext best i
  simp only [mul_lt_mul_iff_right₀ hpos]

/-- **k-means, rotations**: an orthogonal map preserves all squared distances -/
theorem C15_kmeans_rotation (Q : Matrix (Fin D) (Fin D) ℝ) (hQ : Qᵀ * Q = 1) (x c : Fin D → ℝ) :
    sqDist (Q.mulVec x) (Q.mulVec c) = sqDist x c := by
  simp only [sqDist_eq]
  have h : ∀ v : Fin D → ℝ, ∑ j, (Q.mulVec v) j * (Q.mulVec v) j = ∑ j, v j * v j := by
    intro v
    have : (Q.mulVec v) ⬝ᵥ (Q.mulVec v) = v ⬝ᵥ v := by
      rw [Matrix.dotProduct_mulVec, Matrix.vecMul_mulVec, hQ, Matrix.vecMul_one]
    simpa [dotProduct] using this
  have hsub : ∀ j, (Q.mulVec x) j - (Q.mulVec c) j = (Q.mulVec (x - c)) j := by
    intro j; rw [Matrix.mulVec_sub]; rfl
  simp only [hsub, h]
  simp [Pi.sub_apply]
