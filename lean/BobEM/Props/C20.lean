import BobEM.Lemmas.KMeansDescent

/-!
# C20 — K-means assigns to the nearest centroid; cluster-derived GMM init is exact

Model: `BobEM.sqDist` / `sqDistDask`, `distances`, `assign`, `predict`, `vAccum`, `vReduce`,
`varsWeights`, `gmmInitFromKMeans` (`kmeans.py: get_centroids_distance, get_closest_centroid_index,
accumulate_indices_means_vars, reduce_indices_means_vars`; `gmm.py: initialize_gaussians`).
-/

open Finset BobEM

variable {K D : ℕ}

/-- reported distances are the squared Euclidean distances: non-negative, the NumPy (`cdist`) and
Dask (per-centroid) forms coincide, one row per centroid and one column per sample -/
theorem C20_dist (cent : Fin (K+1) → Fin D → ℝ) (xs : List (Fin D → ℝ)) (k : Fin (K+1)) :
    (distances cent xs k).length = xs.length ∧
    (∀ i (h : i < xs.length), (distances cent xs k)[i]'(by simpa [distances] using h)
        = ∑ j, (xs[i] j - cent k j) * (xs[i] j - cent k j)) ∧
    (∀ x : Fin D → ℝ, 0 ≤ sqDist x (cent k)) ∧ (∀ x : Fin D → ℝ, sqDistDask x (cent k) = sqDist x (cent k)) := by
  refine ⟨by simp [distances], fun i h => ?_, fun x => sqDist_nonneg x _, fun x => sqDistDask_eq x _⟩
  simp [distances, sqDist_eq]

/-- the predicted label is the index of a nearest centroid — the first one (`np.argmin`) -/
theorem C20_argmin_nearest (cent : Fin (K+1) → Fin D → ℝ) (x : Fin D → ℝ) :
    (∀ k, sqDist x (cent (assign cent x)) ≤ sqDist x (cent k)) ∧
    (∀ k, k < assign cent x → sqDist x (cent (assign cent x)) < sqDist x (cent k)) :=
  ⟨fun k => assign_le cent x k, fun k hk => argminFin_first K (fun k => sqDist x (cent k)) k hk⟩

/-- a single sample and the same sample inside a batch get the same label -/
theorem C20_single_eq_batch (cent : Fin (K+1) → Fin D → ℝ) (xs : List (Fin D → ℝ)) (i : ℕ) (h : i < xs.length) :
    (predict cent xs)[i]'(by simpa [predict] using h) = (predict cent [xs[i]])[0]'(by simp [predict]) := by
  simp [predict]

theorem vAccum_append (cent : Fin (K+1) → Fin D → ℝ) (xs ys : List (Fin D → ℝ)) :
    vAccum cent (xs ++ ys) = (vAccum cent xs).add (vAccum cent ys) := by
  unfold vAccum VStats.add
  simp only [lsum_eq, List.map_append, List.sum_append, List.countP_append]

/-- the accumulated statistics of any list of row blocks are those of the whole array -/
theorem C20_chunking_independent (cent : Fin (K+1) → Fin D → ℝ) (blocks : List (List (Fin D → ℝ))) :
    varsWeights cent blocks = varsWeights cent [blocks.flatten] := by
  have hz : ∀ s : VStats (K+1) D ℝ, VStats.zero.add s = s := by intro s; simp [VStats.add, VStats.zero]
  have hz' : ∀ s : VStats (K+1) D ℝ, s.add VStats.zero = s := by intro s; simp [VStats.add, VStats.zero]
  have hassoc : ∀ a b c : VStats (K+1) D ℝ, (a.add b).add c = a.add (b.add c) := by
    intro a b c; simp [VStats.add, add_assoc]
  have hnil : vAccum cent ([] : List (Fin D → ℝ)) = VStats.zero := by simp [vAccum, VStats.zero, lsum_eq]
  have gen : ∀ (acc : VStats (K+1) D ℝ) (bl : List (List (Fin D → ℝ))),
      (bl.map (vAccum cent)).foldl VStats.add acc = acc.add (vAccum cent bl.flatten) := by
    intro acc bl
    induction bl generalizing acc with
    | nil => simp [hnil, hz']
    | cons b bl ih =>
      simp only [List.map_cons, List.foldl_cons, List.flatten_cons]
      rw [ih, vAccum_append, hassoc]
  unfold varsWeights
  rw [gen, gen]; simp

/-- the weights are the fractions of samples assigned to each cluster and sum to one -/
theorem C20_weights (cent : Fin (K+1) → Fin D → ℝ) (xs : List (Fin D → ℝ)) (hne : xs ≠ []) :
    (∀ k, (varsWeights cent [xs]).2 k = ((xs.countP fun x => assign cent x = k : ℕ) : ℝ) / xs.length) ∧
    ∑ k, (varsWeights cent [xs]).2 k = 1 := by
  have htot : ∑ k : Fin (K+1), ((xs.countP fun x => assign cent x = k : ℕ) : ℝ) = xs.length := by
    have h := sum_by_cluster xs (assign cent) (fun _ _ => (1:ℝ))
    simp only [sum_indicator_eq_countP] at h
    rw [← h]; simp
  have hw : ∀ k, (varsWeights cent [xs]).2 k = ((xs.countP fun x => assign cent x = k : ℕ) : ℝ) / xs.length := by
    intro k
    simp only [varsWeights, vReduce, vAccum, VStats.add, VStats.zero, List.map_cons, List.map_nil,
      List.foldl_cons, List.foldl_nil, zero_add, sumFin_eq, Transc.ofNat, htot]
  refine ⟨hw, ?_⟩
  simp only [hw, ← Finset.sum_div, htot]
  have : (xs.length : ℝ) ≠ 0 := by
    have := List.length_pos_of_ne_nil hne
    positivity
  exact div_self this

/-- the variances are the biased sample variances `(1/m) Σ (x − x̄)²` of the assigned samples (hence
non-negative), whatever the centroids' position relative to the data (shift invariance of the
accumulated form) -/
theorem C20_variances (cent : Fin (K+1) → Fin D → ℝ) (xs : List (Fin D → ℝ)) (k : Fin (K+1)) (j : Fin D)
    (hne : (xs.countP fun x => assign cent x = k) ≠ 0) :
    let w := fun x : Fin D → ℝ => if assign cent x = k then (1:ℝ) else 0
    let m : ℝ := ((xs.countP fun x => assign cent x = k : ℕ) : ℝ)
    let xbar := (xs.map fun x => w x * x j).sum / m
    (varsWeights cent [xs]).1 k j = (xs.map fun x => w x * ((x j - xbar) * (x j - xbar))).sum / m ∧
    0 ≤ (varsWeights cent [xs]).1 k j := by
  intro w m xbar
  have hW : (xs.map w).sum = m := sum_indicator_eq_countP xs _
  have hm : m ≠ 0 := by simpa [m] using hne
  have hmpos : 0 < m := by
    have : 0 < (xs.countP fun x => assign cent x = k) := Nat.pos_of_ne_zero hne
    simpa [m] using this
  have h1 : (xs.map fun x => if assign cent x = k then x j - cent k j else 0)
      = xs.map fun x => w x * (x j - cent k j) := by
    apply List.map_congr_left; intro x _; simp only [w]; split_ifs <;> simp
  have h2 : (xs.map fun x => if assign cent x = k then (x j - cent k j) * (x j - cent k j) else 0)
      = xs.map fun x => w x * ((x j - cent k j) * (x j - cent k j)) := by
    apply List.map_congr_left; intro x _; simp only [w]; split_ifs <;> simp
  have key := var_shift_invariant xs w (fun x => x j) (cent k j) (by rw [hW]; exact hm)
  rw [hW] at key
  have heq : (varsWeights cent [xs]).1 k j
      = (xs.map fun x => w x * ((x j - xbar) * (x j - xbar))).sum / m := by
    simp only [varsWeights, vReduce, vAccum, VStats.add, VStats.zero, List.map_cons, List.map_nil,
      List.foldl_cons, List.foldl_nil, zero_add, hne, if_false, lsum_eq, Transc.ofNat, h1, h2]
    exact key
  refine ⟨heq, ?_⟩
  rw [heq]
  apply div_nonneg _ hmpos.le
  apply List.sum_nonneg
  intro y hy
  obtain ⟨x, _, rfl⟩ := List.mem_map.mp hy
  apply mul_nonneg _ (mul_self_nonneg _)
  simp only [w]; split_ifs <;> norm_num

/-- a GMM initialised from k-means starts from exactly these centroids and weights, and from these
variances clamped at its floors -/
theorem C20_gmm_init_exact (cent : Fin (K+1) → Fin D → ℝ) (blocks : List (List (Fin D → ℝ)))
    (floor : Fin (K+1) → Fin D → ℝ) :
    (gmmInitFromKMeans cent blocks floor).means = cent ∧
    (gmmInitFromKMeans cent blocks floor).weights = (varsWeights cent blocks).2 ∧
    (∀ k j, (gmmInitFromKMeans cent blocks floor).variances k j = max (floor k j) ((varsWeights cent blocks).1 k j)) ∧
    (∀ k j, floor k j ≤ (gmmInitFromKMeans cent blocks floor).variances k j) :=
  ⟨rfl, rfl, fun _ _ => rfl, fun _ _ => le_max_left _ _⟩
