import BobEM.Lemmas.FATrainIdent

/-!
# C09 — Each JFA training phase is exact EM: its marginal likelihood never decreases

Model: `BobEM.FA.eStepV / stepV / finalizeV / eStepU / stepU / finalizeU / eStepD / stepD / jfaFit`
(`factor_analysis.py: JFAMachine.e_step_v, m_step_v, finalize_v, e_step_u, m_step_u, finalize_u,
e_step_d, m_step_d, fit`).  Each phase is identified with the abstract linear-Gaussian EM step
(`Lemmas/LinGauss.lean`, proved for any latent dimension); the phase objective is the marginal
likelihood of the training statistics with the latent factors of that phase integrated out and the
other subspaces and their point estimates held fixed, as the code holds them.
-/

open Matrix Finset BobEM BobEM.FA

variable {C D rU rV : ℕ}

/-- shapes are preserved by construction: the subspaces stay (components × features) × rank and
`D` stays one value per supervector entry (typing of `Model`), and an iteration touches only the
matrix of its phase -/
theorem C09_shapes (M : Model C D rU rV ℝ) (classes : List (List (St C D ℝ))) (ys : List (Fin rV → ℝ))
    (xss : List (List (Fin rU → ℝ))) :
    ((stepV M classes).U = M.U ∧ (stepV M classes).Dd = M.Dd) ∧
    ((stepU M classes ys).V = M.V ∧ (stepU M classes ys).Dd = M.Dd) ∧
    ((stepD M classes xss ys).U = M.U ∧ (stepD M classes xss ys).V = M.V) :=
  ⟨⟨rfl, rfl⟩, ⟨rfl, rfl⟩, ⟨rfl, rfl⟩⟩

/-- the V iteration of the code is exactly the abstract EM step on rows = supervector entries,
items = classes -/
theorem C09_V_step_is_em (M : Model C D rU rV ℝ) (classes : List (List (St C D ℝ)))
    (hn : ∀ sts ∈ classes, ∀ c, 0 ≤ nAcc sts c) (hs : ∀ c d, 0 < M.s c d)
    (hA1 : ∀ k, (accA1 (NV classes) (FV M classes) (sigmaOf M) (rowsOf M.V) k).PosDef) :
    rowsOf (stepV M classes).V = emStep (NV classes) (FV M classes) (sigmaOf M) (rowsOf M.V) :=
  stepV_eq_emStep M classes hn hs hA1

/-- the U iteration of the code is exactly the abstract EM step on items = sessions -/
theorem C09_U_step_is_em (M : Model C D rU rV ℝ) (classes : List (List (St C D ℝ))) (ys : List (Fin rV → ℝ))
    (hA1 : ∀ k, (accA1 (NU (sessionsOf classes ys)) (FU M (sessionsOf classes ys)) (sigmaOf M) (rowsOf M.U) k).PosDef) :
    rowsOf (stepU M classes ys).U
      = emStep (NU (sessionsOf classes ys)) (FU M (sessionsOf classes ys)) (sigmaOf M) (rowsOf M.U) :=
  stepU_eq_emStep M classes ys hA1

/-- **V phase**: for every UBM with positive variances, all training statistics with non-negative
(fractional) counts in which every component is observed by some class, every rank and every current
`V`: the marginal likelihood does not decrease -/
theorem C09_V_phase_monotone (M : Model C D rU rV ℝ) (classes : List (List (St C D ℝ)))
    (hn : ∀ sts ∈ classes, ∀ c, 0 ≤ nAcc sts c) (hs : ∀ c d, 0 < M.s c d)
    (hpos : ∀ c, ∃ i : Fin classes.length, 0 < nAcc classes[i] c) :
    margV M classes M.V ≤ margV M classes (stepV M classes).V :=
  V_phase_monotone M classes hn hs hpos

/-- **U phase** (speaker factors fixed at the values `finalize_v` returned) -/
theorem C09_U_phase_monotone (M : Model C D rU rV ℝ) (classes : List (List (St C D ℝ))) (ys : List (Fin rV → ℝ))
    (hn : ∀ q ∈ sessionsOf classes ys, ∀ c, 0 ≤ q.1.n c) (hs : ∀ c d, 0 < M.s c d)
    (hpos : ∀ c, ∃ i : Fin (sessionsOf classes ys).length, 0 < (sessionsOf classes ys)[i].1.n c) :
    margU M (sessionsOf classes ys) M.U ≤ margU M (sessionsOf classes ys) (stepU M classes ys).U :=
  U_phase_monotone M classes ys hn hs hpos

/-- **D phase** (speaker and channel factors fixed): one independent one-dimensional problem per
supervector entry -/
theorem C09_D_phase_monotone (M : Model C D rU rV ℝ) (classes : List (List (St C D ℝ)))
    (xss : List (List (Fin rU → ℝ))) (ys : List (Fin rV → ℝ)) (hs : ∀ c d, 0 < M.s c d)
    (hn : ∀ q ∈ (classes.zip xss).zip ys, ∀ c, 0 ≤ nAcc q.1.1 c)
    (hpos : ∀ c, ∃ i : Fin ((classes.zip xss).zip ys).length, 0 < nAcc ((classes.zip xss).zip ys)[i].1.1 c) :
    margD M ((classes.zip xss).zip ys) M.Dd ≤ margD M ((classes.zip xss).zip ys) (stepD M classes xss ys).Dd := by
  rw [stepD_eq_items]
  exact D_phase_monotone M _ hs hn hpos

/-- non-vacuity: one component, one feature, two classes with positive counts meet the hypotheses -/
example : ∃ (M : Model 1 1 1 1 ℝ) (classes : List (List (St 1 1 ℝ))),
    (∀ sts ∈ classes, ∀ c, 0 ≤ nAcc sts c) ∧ (∀ c d, 0 < M.s c d) ∧ (∀ c, ∃ i : Fin classes.length, 0 < nAcc classes[i] c) := by
  refine ⟨⟨fun _ _ => 0, fun _ _ => 1, fun _ _ _ => 1, fun _ _ _ => 1, fun _ _ => 1⟩,
    [[⟨fun _ => 2, fun _ _ => 1, 2⟩], [⟨fun _ => 3, fun _ _ => -1, 3⟩]], ?_, by intro c d; norm_num, ?_⟩
  · intro sts hsts c
    simp only [List.mem_cons, List.not_mem_nil, or_false] at hsts
    rcases hsts with rfl | rfl <;> simp [nAcc, lsum_eq]
  · intro c; exact ⟨⟨0, by simp⟩, by simp [nAcc, lsum_eq]⟩
