import BobEM.Lemmas.GmmStats
import BobEM.Lemmas.KMeansDescent
import BobEM.Props.C17

/-!
# C13 — Trained models are valid: finite, weights on the simplex, variances above floors

Over the reals "finite" has no content; what *is* provable, and what makes the float statement true,
is that every division and logarithm in the model is taken at an argument in range, and that the
simplex / floor invariants hold.  Model: `mlMStep`, `mapMStepG`, `GState` setters, `kMStep`,
`vReduce` (`gmm.py`, `kmeans.py`).
-/

open Finset BobEM

variable {C D K : ℕ}

/-- ML weights are non-negative and sum to one up to the documented count floor:
`1 ≤ Σ w' ≤ 1 + C·thr/T`; with no floor active they sum to exactly one -/
theorem C13_ml_weights (cfg : MlCfg C D ℝ) (p : Params C D ℝ) (st : Stats C D ℝ) (t : ℝ)
    (hw : cfg.updWeights = true) (hn : ∀ c, 0 ≤ st.n c) (hsum : ∑ c, st.n c = t) (ht : 0 < t) (hthr : 0 ≤ cfg.countThr) :
    (∀ c, 0 ≤ (mlMStep cfg p st t).weights c) ∧
    1 ≤ ∑ c, (mlMStep cfg p st t).weights c ∧
    ∑ c, (mlMStep cfg p st t).weights c ≤ 1 + C * cfg.countThr / t ∧
    ((∀ c, cfg.countThr ≤ st.n c) → ∑ c, (mlMStep cfg p st t).weights c = 1) := by
  have hwt : ∀ c, (mlMStep cfg p st t).weights c = max (st.n c) cfg.countThr / t := by
    intro c; simp [mlMStep, hw]
  simp only [hwt, ← Finset.sum_div]
  refine ⟨fun c => div_nonneg (le_trans (hn c) (le_max_left _ _)) ht.le, ?_, ?_, ?_⟩
  · rw [le_div_iff₀ ht, one_mul, ← hsum]
    exact Finset.sum_le_sum fun c _ => le_max_left _ _
  · rw [div_le_iff₀ ht]
    have : ∑ c : Fin C, max (st.n c) cfg.countThr ≤ ∑ c : Fin C, (st.n c + cfg.countThr) :=
      Finset.sum_le_sum fun c _ => max_le (by linarith) (by linarith [hn c])
    rw [Finset.sum_add_distrib, hsum] at this
    simp only [Finset.sum_const, Finset.card_univ, Fintype.card_fin, nsmul_eq_mul] at this
    have h2 : (1 + C * cfg.countThr / t) * t = t + C * cfg.countThr := by field_simp
    linarith
  · intro hfl
    have : ∀ c, max (st.n c) cfg.countThr = st.n c := fun c => max_eq_left (hfl c)
    simp only [this, hsum]; exact div_self ht.ne'

/-- every division in the ML M-step has a positive denominator, and the new weights are positive
(so their logarithm is defined), as soon as the count floor is positive -/
theorem C13_ml_division_sites (cfg : MlCfg C D ℝ) (p : Params C D ℝ) (st : Stats C D ℝ) (t : ℝ)
    (hw : cfg.updWeights = true) (ht : 0 < t) (hthr : 0 < cfg.countThr) (c : Fin C) :
    0 < max (st.n c) cfg.countThr ∧ 0 < (mlMStep cfg p st t).weights c := by
  have h : 0 < max (st.n c) cfg.countThr := lt_of_lt_of_le hthr (le_max_right _ _)
  exact ⟨h, by simp only [mlMStep, hw, if_true]; exact div_pos h ht⟩

/-- variances after an ML or MAP M-step are at or above their floors, hence positive for positive
floors (so `log` of a variance and division by it are defined) -/
theorem C13_variances_ge_floor (cfg : MlCfg C D ℝ) (p : Params C D ℝ) (st : Stats C D ℝ) (t : ℝ)
    (hp : ∀ c d, cfg.varFloor c d ≤ p.variances c d) (hf : ∀ c d, 0 < cfg.varFloor c d) (c : Fin C) (d : Fin D) :
    cfg.varFloor c d ≤ (mlMStep cfg p st t).variances c d ∧ 0 < (mlMStep cfg p st t).variances c d := by
  have h : cfg.varFloor c d ≤ (mlMStep cfg p st t).variances c d := by
    simp only [mlMStep]; split_ifs
    · exact le_max_left _ _
    · exact hp c d
  exact ⟨h, lt_of_lt_of_le (hf c d) h⟩

theorem C13_map_variances_ge_floor (sq : ℝ → ℝ) (cfg : MapCfg C D ℝ) (ubm p : Params C D ℝ) (st : Stats C D ℝ) (t : ℝ)
    (hp : ∀ c d, cfg.varFloor c d ≤ p.variances c d) (hf : ∀ c d, 0 < cfg.varFloor c d) (c : Fin C) (d : Fin D) :
    cfg.varFloor c d ≤ (mapMStepG sq cfg ubm p st t).variances c d ∧ 0 < (mapMStepG sq cfg ubm p st t).variances c d := by
  have h : cfg.varFloor c d ≤ (mapMStepG sq cfg ubm p st t).variances c d := by
    simp only [mapMStepG]; split_ifs
    · exact le_max_left _ _
    · exact hp c d
  exact ⟨h, lt_of_lt_of_le (hf c d) h⟩

/-- MAP division sites: `n + r > 0`, the evidence branch divides by `n ≥ thr > 0`, and the
normaliser `γ` of the weights is positive -/
theorem C13_map_division_sites (cfg : MapCfg C D ℝ) (ubm : Params C D ℝ) (st : Stats C D ℝ) (t : ℝ)
    (hn : ∀ c, 0 ≤ st.n c) (hr : 0 < cfg.relevance) (ht : 0 < t) (hw0 : ∀ c, 0 < ubm.weights c)
    (ha : ∀ c, 0 ≤ mapAlpha cfg st c ∧ mapAlpha cfg st c < 1) (hC : 0 < C) :
    (∀ c, 0 < st.n c + cfg.relevance) ∧ 0 < ∑ c, mapRawWeight cfg ubm st t c := by
  refine ⟨fun c => by linarith [hn c], ?_⟩
  haveI : Nonempty (Fin C) := ⟨⟨0, hC⟩⟩
  apply Finset.sum_pos _ Finset.univ_nonempty
  intro c _
  have h1 : 0 ≤ mapAlpha cfg st c * (st.n c / t) := mul_nonneg (ha c).1 (div_nonneg (hn c) ht.le)
  have h2 : 0 < (1 - mapAlpha cfg st c) * ubm.weights c := mul_pos (by linarith [(ha c).2]) (hw0 c)
  simp only [mapRawWeight]; linarith

/-- the responsibilities' denominator (the mixture density) is positive: `log_likelihood` is the log
of a positive number whenever weights and variances are positive -/
theorem C13_mixture_positive (p : Params (C+1) D ℝ) (x : Fin D → ℝ) : 0 < ∑ c, Real.exp (lwl p x c) :=
  Finset.sum_pos (fun c _ => Real.exp_pos _) Finset.univ_nonempty

/-- **k-means (D2 rule)**: a cluster that attracts no sample keeps its centroid; every other
centroid is a quotient with a positive denominator -/
theorem C13_kmeans_empty_cluster_keeps_centroid (cent : Fin K → Fin D → ℝ) (st : KStats K D ℝ) (n : ℕ) (k : Fin K) (j : Fin D) :
    (st.n k = 0 → (kMStep cent st n).1 k j = cent k j) ∧
    (st.n k ≠ 0 → (kMStep cent st n).1 k j = st.sums k j / (st.n k : ℝ) ∧ (0:ℝ) < (st.n k : ℝ)) := by
  refine ⟨fun h => by simp [kMStep, h], fun h => ⟨by simp [kMStep, h, Transc.ofNat], ?_⟩⟩
  exact_mod_cast Nat.pos_of_ne_zero h

/-- the variance/weight reduction never divides by a zero count -/
theorem C13_kmeans_safe_count (st : VStats K D ℝ) (k : Fin K) :
    (0:ℝ) < (if st.cnt k = 0 then (1:ℝ) else ((st.cnt k : ℕ) : ℝ)) := by
  split_ifs with h
  · norm_num
  · exact_mod_cast Nat.pos_of_ne_zero h

/-- in every reachable machine state variances respect the floors (re-export of C17's invariant) -/
theorem C13_state_variances_ge_floor (w : Fin C → ℝ) (thr : ℝ) (ops : List (GOp C D ℝ)) (v : Fin C → Fin D → ℝ)
    (hv : ((GState.init (D := D) w thr).run ops).variances = some v) (c : Fin C) (d : Fin D) :
    ((GState.init (D := D) w thr).run ops).thresholds c d ≤ v c d :=
  C17_variances_ge_floors w thr ops v hv c d

/-- D26 (known finding, DESIGN §9.3), the real-number side: a sample's responsibilities sum to one, so
normalising them per sample — the repair that was not made because it moves pinned reference values
at rounding level — is the identity. That the code counts a sample beyond ~2^53 component spacings
once per tied component is a floating-point effect (`log k` lost in the rounding of a log-likelihood
of order 1e40) which no theorem over ℝ can show; the check shows it on the code. -/
theorem C13_resp_normalisation_is_identity (p : Params (C+1) D ℝ) (x : Fin D → ℝ) (c : Fin (C+1)) :
    resp p x c / ∑ c', resp p x c' = resp p x c := by
  rw [resp_sum_one, div_one]

/-- and the E-step's counts add up to the number of samples (what `Σ_c n_c = t` means for the weights
of one ML iteration: they sum to one) -/
theorem C13_counts_sum_to_samples (p : Params (C+1) D ℝ) (xs : List (Fin D → ℝ)) :
    ∑ c, (xs.map fun x => resp p x c).sum = xs.length := by
  induction xs with
  | nil => simp
  | cons x xs ih =>
    simp only [List.map_cons, List.sum_cons, Finset.sum_add_distrib, ih, resp_sum_one, List.length_cons]
    push_cast; ring

/-- the unit variances that `fit` supplies to a machine whose means were set by hand go through the
clamping setter like any other assignment: with floors above 1 (data in large units) the machine
trains with `max(floor, 1)`, never with a variance below its floor -/
theorem C13_supplied_unit_variances_clamped {C D : ℕ} (s : GState C D ℝ) :
    (s.setVariances fun _ _ => 1).variances = some (fun c d => max (s.thresholds c d) 1) ∧
    ∀ v, (s.setVariances fun _ _ => 1).variances = some v → ∀ c d, s.thresholds c d ≤ v c d := by
  refine ⟨rfl, ?_⟩
  intro v hv c d
  simp only [GState.setVariances, Option.some.injEq] at hv
  rw [← hv]
  exact le_max_left _ _
