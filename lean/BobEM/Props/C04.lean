import BobEM.Model.Sched
import BobEM.Lemmas.Sched
import BobEM.Lemmas.Iso
import BobEM.Lemmas.SumDag
import BobEM.Props.C02
import BobEM.Props.C06

/-!
# C04 — Array training is independent of chunking, task order and worker isolation

Model: per-block iterations `gmmMlIterBlocks`, `gmmMapIterBlocks`, `kIter` (one E-step task per row
block, `reduce(iadd)`, one M-step), `BobEM.Sched` (recorded task graphs with observed effects).
-/

open BobEM BobEM.Sched

variable {C D K : ℕ}

theorem reduceIadd_eq (l : List (Stats C D ℝ)) : reduceIadd l = l.foldl Stats.add Stats.zero := by
  cases l with
  | nil => rfl
  | cons s rest =>
    have hz : Stats.zero.add s = s := by simp [Stats.add, Stats.zero]
    simp [reduceIadd, hz]

/-- **Chunking (GMM, ML)**: an iteration over any list of row blocks is the in-memory iteration on
the concatenation; hence whole trainings agree in every iterate, the reported criterion and the
number of iterations -/
theorem C04_gmm_ml_chunking_independent (cfg : MlCfg (C+1) D ℝ) (thr : Option ℝ) (fuel : ℕ)
    (p0 : Params (C+1) D ℝ) (blocks : List (List (Fin D → ℝ))) :
    gmmMlIterBlocks cfg blocks = gmmMlIter cfg blocks.flatten ∧
    gmmMlFitBlocks cfg thr fuel p0 blocks = gmmMlFit cfg thr fuel p0 blocks.flatten := by
  have h : gmmMlIterBlocks cfg blocks = gmmMlIter cfg blocks.flatten := by
    funext p
    simp only [gmmMlIterBlocks, gmmMlIter, reduceIadd_eq, ← C02_any_partition]
  exact ⟨h, by unfold gmmMlFitBlocks gmmMlFit; rw [h]⟩

/-- **Chunking (GMM, MAP)** -/
theorem C04_gmm_map_chunking_independent (sq : ℝ → ℝ) (cfg : MapCfg (C+1) D ℝ) (ubm : Params (C+1) D ℝ)
    (blocks : List (List (Fin D → ℝ))) :
    gmmMapIterBlocks sq cfg ubm blocks = gmmMapIter sq cfg ubm blocks.flatten := by
  funext p
  simp only [gmmMapIterBlocks, gmmMapIter, reduceIadd_eq, ← C02_any_partition]

/-- **Chunking (k-means)**: same centroids, same reported criterion, same number of iterations -/
theorem C04_kmeans_chunking_independent (thr : Option ℝ) (fuel : ℕ) (c0 : ℝ) (cent0 : Fin (K+1) → Fin D → ℝ)
    (blocks : List (List (Fin D → ℝ))) :
    kFit thr fuel c0 cent0 blocks = kFit thr fuel c0 cent0 [blocks.flatten] := by
  have h : kIter (K := K) blocks = kIter [blocks.flatten] := by
    funext cent; exact C06_chunking_independent cent blocks
  unfold kFit; rw [h]

/-! ### task order -/
variable {Val : Type}

theorem disjoint_sound {a b : List ℕ} (h : disjoint a b = true) : Disjoint {l | l ∈ a} {l | l ∈ b} := by
  rw [Set.disjoint_left]
  intro x hx hxb
  simp only [disjoint, List.all_eq_true] at h
  have := h x hx
  simp only [Set.mem_ofPred_eq] at hxb
  simp [hxb] at this

/-- semantic execution of a recorded graph: task `i` of the graph runs its read/write function,
other ids do nothing -/
noncomputable def runOf (g : List TaskEff) (sem : ℕ → RWTask ℕ Val) (i : ℕ) (s : ℕ → Val) : ℕ → Val :=
  if g.any (fun t => t.id == i) then (sem i).run s else s

/-- **Order independence**: if the recorded graph passes the model's discipline check, then any two
executions that respect the dependency closure (whatever order the scheduler picks among ready
tasks) produce the same store — results and shared objects alike -/
theorem C04_order_independent (g : List TaskEff) (sem : ℕ → RWTask ℕ Val)
    (hsem : ∀ t ∈ g, (sem t.id).reads = {l | l ∈ t.reads} ∧ (sem t.id).writes = {l | l ∈ t.writes})
    (hd : disciplined g = true)
    (l1 l2 : List ℕ) (hp : l1.Perm l2) (hnd : l1.Nodup)
    (h1 : l1.Pairwise fun a b => ¬ reach g g.length b a = true)
    (h2 : l2.Pairwise fun a b => ¬ reach g g.length b a = true) (s : ℕ → Val) :
    exec (runOf g sem) l1 s = exec (runOf g sem) l2 s := by
  apply linear_extensions_agree (runOf g sem) (fun i j => reach g g.length i j = true) ?_ l1 l2 hp hnd h1 h2
  intro i j hij hnij hnji s
  unfold runOf
  by_cases hi : g.any (fun t => t.id == i) = true
  · by_cases hj : g.any (fun t => t.id == j) = true
    · simp only [hi, hj, if_true]
      obtain ⟨t, ht, hti⟩ := List.any_eq_true.mp hi
      obtain ⟨u, hu, huj⟩ := List.any_eq_true.mp hj
      have hti' : t.id = i := by simpa using hti
      have huj' : u.id = j := by simpa using huj
      simp only [disciplined, List.all_eq_true] at hd
      have hpair := hd t ht u hu
      have hne : (t.id == u.id) = false := by
        rw [hti', huj']; simpa using hij
      have hord : ordered g t.id u.id = false := by
        simp only [ordered, hti', huj']
        have a1 : reach g g.length i j = false := by simpa using hnij
        have a2 : reach g g.length j i = false := by simpa using hnji
        simp [a1, a2]
      simp only [hne, hord, Bool.false_or] at hpair
      simp only [pairOk, Bool.and_eq_true] at hpair
      obtain ⟨⟨hww, hwr⟩, hrw⟩ := hpair
      obtain ⟨hrt, hwt⟩ := hsem t ht
      obtain ⟨hru, hwu⟩ := hsem u hu
      rw [hti'] at hrt hwt
      rw [huj'] at hru hwu
      apply bernstein_commute
      · rw [hwt, hwu]; exact disjoint_sound hww
      · rw [hwt, hru]; exact disjoint_sound hwr
      · rw [hwu, hrt]; exact disjoint_sound hrw
    · simp [hi, hj]
  · simp [hi]

/-- **Worker isolation**: tasks that write no shared object, followed by one writer all of whose
shared writes the caller copies back from the writer's (non-shared) result, leave the caller in the
same state whether the tasks ran on the shared objects or on private copies taken at submission -/
theorem C04_isolation_independent {Loc : Type} (Sh F : Set Loc) (ret : Loc → Loc) (s0 : Loc → Val)
    (rs : List (RWTask Loc Val)) (w : RWTask Loc Val)
    (hr : ∀ t ∈ rs, Disjoint t.writes Sh)
    (hF : ∀ l, l ∈ w.writes → l ∈ Sh → l ∈ F)
    (hFw : ∀ l ∈ F, l ∈ w.writes ∧ l ∈ Sh ∧ ret l ∈ w.writes ∧ ret l ∉ Sh) :
    copyBack F ret (w.runIso Sh s0 (rs.foldl (fun s t => t.runIso Sh s0 s) s0))
      = copyBack F ret (w.run (rs.foldl (fun s t => t.run s) s0)) :=
  isolated_eq_shared Sh F ret s0 rs w hr hF hFw

/-- the model's isolation check delivers the first two hypotheses of the theorem above -/
theorem isolationOk_sound (g : List TaskEff) (final : ℕ) (shared copyBack : List ℕ)
    (h : isolationOk g final shared copyBack = true) :
    (∀ t ∈ g, t.id ≠ final → Disjoint {l | l ∈ t.writes} {l | l ∈ shared}) ∧
    (∀ t ∈ g, t.id = final → ∀ l ∈ t.writes, l ∈ shared → l ∈ copyBack) := by
  simp only [isolationOk, List.all_eq_true] at h
  constructor
  · intro t ht hne
    have := h t ht
    have hf : (t.id == final) = false := by simpa using hne
    simp only [hf] at this
    exact disjoint_sound (by simpa using this)
  · intro t ht he l hl hs
    have := h t ht
    have hf : (t.id == final) = true := by simpa using he
    simp only [hf, if_true, List.all_eq_true] at this
    have := this l hl
    simpa [hs] using this

/-- non-vacuity: three readers of location 0 with private results 1–3, one reducer writing 0 and its
result 4 — the shape of every training iteration — passes the discipline check -/
example : disciplined [⟨1, [], [0], [1]⟩, ⟨2, [], [0], [2]⟩, ⟨3, [], [0], [3]⟩, ⟨4, [1, 2, 3], [0, 1, 2, 3], [0, 1, 4]⟩] = true := by
  decide
/-- and a graph in which a reader also writes the shared location is rejected -/
example : firstConflict [⟨1, [], [0], [0, 1]⟩, ⟨2, [], [0], [2]⟩, ⟨4, [1, 2], [0, 1, 2], [0, 4]⟩] = some (1, 2) := by
  decide

/-- **every block's statistics enter each M-step exactly once** — for any shape of the reduction
between the per-block E-step tasks (`workers`) and the M-step (`final`): a recorded graph that is in
dependency order and passes the executable `exactlyOnce` check delivers exactly `Σ_w (result of w)`,
each worker once, none dropped, none twice, provided every task in between adds up its dependencies
(`M` is any commutative monoid: the statistics with their `+`) -/
theorem C04_blocks_exactly_once {M : Type} [AddCommMonoid M] (g : List TaskEff) (final : ℕ) (workers : List ℕ)
    (result : ℕ → M) (ht : topoOrdered g = true) (he : exactlyOnce g final workers = true) (fuel : ℕ)
    (hf : g.length < fuel) :
    dagVal (depsOf g) (fun x => workers.contains x) result fuel final = ∑ w ∈ workers.toFinset, result w :=
  exactlyOnce_sound g final workers result ht he fuel hf

/-- non-vacuity: three E-step tasks handed to the M-step as one list (the GMM / k-means shape), and a
pairwise tree over three E-step tasks with the unpaired one carried over (the i-vector shape), pass -/
example : topoOrdered [⟨1, [], [0], [1]⟩, ⟨2, [], [0], [2]⟩, ⟨3, [], [0], [3]⟩, ⟨4, [1, 2, 3], [0, 1, 2, 3], [0, 1, 4]⟩] = true
    ∧ exactlyOnce [⟨1, [], [0], [1]⟩, ⟨2, [], [0], [2]⟩, ⟨3, [], [0], [3]⟩, ⟨4, [1, 2, 3], [0, 1, 2, 3], [0, 1, 4]⟩] 4 [1, 2, 3] = true := by
  decide
example : exactlyOnce [⟨1, [], [], [1]⟩, ⟨2, [], [], [2]⟩, ⟨3, [], [], [3]⟩, ⟨4, [1, 2], [1, 2], [4]⟩, ⟨5, [4, 3], [4, 3], [5]⟩, ⟨6, [5], [5], [6]⟩] 6 [1, 2, 3] = true := by
  decide
/-- a reduction that forms groups over `range(0, length - 1, 2)` drops the last of three workers; a
reduction that pairs a worker with itself counts it twice: both are rejected, with the count -/
example : firstMiscount [⟨1, [], [], [1]⟩, ⟨2, [], [], [2]⟩, ⟨3, [], [], [3]⟩, ⟨4, [1, 2], [1, 2], [4]⟩, ⟨6, [4], [4], [6]⟩] 6 [1, 2, 3] = some (3, 0) := by
  decide
example : firstMiscount [⟨1, [], [], [1]⟩, ⟨2, [], [], [2]⟩, ⟨4, [1, 2], [1, 2], [4]⟩, ⟨5, [4, 2], [4, 2], [5]⟩, ⟨6, [5], [5], [6]⟩] 6 [1, 2] = some (2, 2) := by
  decide

/-- zero-row blocks change nothing in GMM training either: every iteration, and the whole fit with its
criterion and iteration count, is the same with the empty blocks removed (each block contributes its
rows to `t`, an empty block contributes none) -/
theorem C04_zero_row_blocks_irrelevant {C D : ℕ} (cfg : MlCfg (C+1) D ℝ) (thr : Option ℝ) (fuel : ℕ)
    (p0 : Params (C+1) D ℝ) (blocks : List (List (Fin D → ℝ))) :
    gmmMlFitBlocks cfg thr fuel p0 blocks = gmmMlFitBlocks cfg thr fuel p0 (blocks.filter fun b => !b.isEmpty) := by
  rw [(C04_gmm_ml_chunking_independent cfg thr fuel p0 blocks).2,
    (C04_gmm_ml_chunking_independent cfg thr fuel p0 (blocks.filter _)).2, flatten_filter_nonempty]
