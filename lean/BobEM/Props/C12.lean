import BobEM.Model.Regroup
import BobEM.Lemmas.Tree
import BobEM.Props.C04
import BobEM.Props.C09
import BobEM.Props.C10

/-!
# C12 — Training from statistics is independent of bag partitioning and scheduling

Model: `BobEM.Regroup.prepare` (`_prepare_dask_input`), `BobEM.treeReduce` (the pairwise reduction of
`IVectorMachine.fit`), the per-class / per-partition E-steps of C09 / C10, `BobEM.Sched` for task
order and isolation.
-/

open BobEM BobEM.Regroup

/-- the inner loop over a concatenation is the loop over the first part followed by the loop over
the second, with the running index advanced -/
theorem innerLoop_append {σ : Type} (a b : List σ) (y : List ℕ) (i : ℕ) (acc : List (List σ)) :
    innerLoop (a ++ b) y i acc = innerLoop b y (i + a.length) (innerLoop a y i acc) := by
  induction a generalizing i acc with
  | nil => simp [innerLoop]
  | cons x a ih =>
    simp only [List.cons_append, innerLoop, List.length_cons]
    rw [ih]; congr 1; omega

theorem outerLoop_eq_inner {σ : Type} (blocks : List (List σ)) (y : List ℕ) (i : ℕ) (acc : List (List σ)) :
    outerLoop blocks y i acc = innerLoop blocks.flatten y i acc := by
  induction blocks generalizing i acc with
  | nil => simp [outerLoop, innerLoop]
  | cons b bs ih =>
    simp only [outerLoop, List.flatten_cons, innerLoop_append, ih]

/-- **Regrouping**: for any partition of the bag into consecutive blocks (any number, any lengths —
single-element and empty partitions included — mixing classes freely) and any label sequence, the
per-class lists are those of the un-partitioned list: they do not depend on the partitioning -/
theorem C12_regroup {σ : Type} (partitions : List (List σ)) (y : List ℕ) (K : ℕ) :
    prepare partitions y K = prepare [partitions.flatten] y K := by
  simp only [prepare, outerLoop_eq_inner, List.flatten_cons, List.flatten_nil, List.append_nil]

/-- consequently the whole JFA / ISV training on the regrouped bag does not depend on the partitioning -/
theorem C12_fa_partition_independent {C D rU rV : ℕ} (M : FA.Model C D rU rV ℝ)
    (partitions : List (List (FA.St C D ℝ))) (y : List ℕ) (K k : ℕ) :
    FA.jfaFit M (prepare partitions y K) k = FA.jfaFit M (prepare [partitions.flatten] y K) k ∧
    FA.isvFit M (prepare partitions y K) k = FA.isvFit M (prepare [partitions.flatten] y K) k := by
  rw [C12_regroup]; exact ⟨rfl, rfl⟩

/-! ### pairwise reduction -/

noncomputable instance {C D R : ℕ} : Add (IV.Stats C D R ℝ) := ⟨IV.Stats.add⟩
noncomputable instance {C D R : ℕ} : Zero (IV.Stats C D R ℝ) := ⟨IV.Stats.zero⟩
theorem stats_add_comm {C D R : ℕ} (a b : IV.Stats C D R ℝ) : a.add b = b.add a := by
  simp [IV.Stats.add, add_comm]
noncomputable instance {C D R : ℕ} : AddCommMonoid (IV.Stats C D R ℝ) where
  add_assoc a b c := stats_add_assoc a b c
  zero_add a := stats_zero_add a
  add_zero a := stats_add_zero a
  add_comm a b := stats_add_comm a b
  nsmul := nsmulRec

/-- **Tree reduction**: the pairwise reduction (element `i` with element `⌊n/2⌋ + i`, the odd last one
carried over) of any non-empty list ends with the single total: every partition's contribution
enters exactly once, for every number of partitions (both parities at every level) -/
theorem C12_tree_reduce {M : Type} [AddCommMonoid M] (l : List M) (hne : l ≠ []) :
    treeReduce (· + ·) l.length l = [l.sum] :=
  treeReduce_eq_sum l.length l hne (by omega)

theorem list_sum_eq_foldl {C D R : ℕ} (l : List (IV.Stats C D R ℝ)) : l.sum = l.foldl IV.Stats.add IV.Stats.zero := by
  rw [List.sum_eq_foldl]; rfl

/-- one i-vector training iteration from a bag: per-partition E-steps, pairwise reduction, M-step —
equals the iteration on the in-memory list, for every partitioning -/
theorem C12_ivector_partition_independent {C D R : ℕ} (m : IV.Machine C D R ℝ)
    (parts : List (List (IV.GStat C D ℝ))) (hne : parts ≠ []) :
    treeReduce (· + ·) parts.length (parts.map (IV.eStep m)) = [IV.eStep m parts.flatten] := by
  have h := C12_tree_reduce (parts.map (IV.eStep m)) (by simpa using hne)
  rw [List.length_map] at h
  rw [h, list_sum_eq_foldl, eStep_partition]

/-- order and isolation: the generic determinacy theorems of C04 apply to the bag graphs as well
(the recorded graphs are run through the same discipline check) -/
theorem C12_order_and_isolation {Val : Type} (g : List Sched.TaskEff) (sem : ℕ → RWTask ℕ Val)
    (hsem : ∀ t ∈ g, (sem t.id).reads = {l | l ∈ t.reads} ∧ (sem t.id).writes = {l | l ∈ t.writes})
    (hd : Sched.disciplined g = true)
    (l1 l2 : List ℕ) (hp : l1.Perm l2) (hnd : l1.Nodup)
    (h1 : l1.Pairwise fun a b => ¬ Sched.reach g g.length b a = true)
    (h2 : l2.Pairwise fun a b => ¬ Sched.reach g g.length b a = true) (s : ℕ → Val) :
    exec (runOf g sem) l1 s = exec (runOf g sem) l2 s :=
  C04_order_independent g sem hsem hd l1 l2 hp hnd h1 h2 s

/-- non-vacuity: five labelled items in partitions of sizes 2, 0, 1, 2 with unsorted labels -/
example : prepare [["a", "b"], [], ["c"], ["d", "e"]] [1, 0, 1, 1, 0] 2 = [["b", "e"], ["a", "c", "d"]] := by decide

/-- **every partition's contribution enters each M-step exactly once**, whatever the shape of the
reduction (pairwise as in `IVectorMachine.fit`, wider, uneven): the statement of
`C04_blocks_exactly_once` for the recorded bag graphs, whose E-step tasks are the `workers` -/
theorem C12_exactly_once {M : Type} [AddCommMonoid M] (g : List Sched.TaskEff) (final : ℕ) (workers : List ℕ)
    (result : ℕ → M) (ht : Sched.topoOrdered g = true) (he : Sched.exactlyOnce g final workers = true) (fuel : ℕ)
    (hf : g.length < fuel) :
    dagVal (Sched.depsOf g) (fun x => workers.contains x) result fuel final = ∑ w ∈ workers.toFinset, result w :=
  exactlyOnce_sound g final workers result ht he fuel hf

/-- a worker without a path to the M-step is absent from what the M-step receives: replacing its
statistics by anything else changes nothing (how a dropped partition shows) -/
theorem C12_dropped_partition_ignored {M : Type} [AddCommMonoid M] (g : List Sched.TaskEff) (final : ℕ) (workers : List ℕ)
    (result result' : ℕ → M) (w0 : ℕ) (h0 : Sched.pathCount g workers w0 final = 0)
    (hsame : ∀ w, w ≠ w0 → result w = result' w) :
    dagVal (Sched.depsOf g) (fun x => workers.contains x) result (g.length + 1) final
      = dagVal (Sched.depsOf g) (fun x => workers.contains x) result' (g.length + 1) final :=
  dagVal_dropped_worker_ignored _ _ result result' workers.toFinset (by intro t; simp) _ final w0 h0 hsame

/-- **how many levels the pairwise reduction needs**: after `k` levels `⌈n / 2^k⌉` partial sums are left
and their total is still the total, so a single statistic is left exactly when `n ≤ 2^k`. The code's
`while len(stats) > 1` runs until then; a depth fixed in advance must be at least `⌈log2 n⌉` -/
theorem C12_tree_levels_needed {M : Type} [AddCommMonoid M] (l : List M) (hne : l ≠ []) (k : ℕ) :
    ((treeReduce (· + ·) k l).length = 1 ↔ l.length ≤ 2 ^ k) ∧ (treeReduce (· + ·) k l).sum = l.sum :=
  ⟨treeReduce_single_iff k l hne, (treeReduce_levels k l hne).2⟩

/-- five partitions need three levels: after two (`round (log2 5)`) two partial sums are left, and
"the first of them" lacks the fifth partition -/
example : (treeReduce (· + ·) 2 [1, 2, 3, 4, 5] : List ℕ) = [10, 5] ∧ (treeReduce (· + ·) 3 [1, 2, 3, 4, 5] : List ℕ) = [15] := by
  decide
