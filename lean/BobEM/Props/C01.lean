import BobEM.Lemmas.GmmDensity
import BobEM.Lemmas.Integral
import BobEM.Lemmas.GmmEM

/-!
# C01 — GMM log-likelihood is the log of a normalised diagonal-Gaussian mixture density

Model: `BobEM.lwl`, `BobEM.logaddexp`, `BobEM.logaddexpReduce`, `BobEM.logLik`
(`gmm.py: log_weighted_likelihood, logaddexp_reduce, log_likelihood`).
All statements are for every number of components `C+1`, every dimension `D`, all parameters with
positive weights and variances, all samples.
-/

open Finset BobEM ProbabilityTheory MeasureTheory
open scoped NNReal

variable {C D : ℕ}

/-- the reported value is `log Σ_c w_c Π_d N(x_d; μ_cd, v_cd)` with Mathlib's normal density -/
theorem C01_loglik_is_log_mixture (p : Params (C+1) D ℝ) (x : Fin D → ℝ)
    (v : Fin (C+1) → Fin D → ℝ≥0) (hvne : ∀ c d, v c d ≠ 0) (hv : ∀ c d, p.variances c d = v c d)
    (hw : ∀ c, 0 < p.weights c) :
    logLik p x = Real.log (∑ c, p.weights c * ∏ d, gaussianPDFReal (p.means c d) (v c d) (x d)) :=
  C01_loglik_eq_log_mixture p x v hvne hv hw

/-- the per-component weighted log-likelihoods log-sum-exp to the log-likelihood -/
theorem C01_lwl_lse (p : Params (C+1) D ℝ) (x : Fin D → ℝ) :
    Real.log (∑ c, Real.exp (lwl p x c)) = logLik p x := by
  rw [logLik, logaddexpReduce_eq]

/-- the implied density `exp (logLik p ·)` integrates to one over `ℝ^D` when the weights sum to one -/
theorem C01_density_integral_one (p : Params (C+1) D ℝ)
    (v : Fin (C+1) → Fin D → ℝ≥0) (hvne : ∀ c d, v c d ≠ 0) (hv : ∀ c d, p.variances c d = v c d)
    (hw : ∀ c, 0 < p.weights c) (hsum : ∑ c, p.weights c = 1) :
    ∫ x : Fin D → ℝ, Real.exp (logLik p x) = 1 := by
  have h : ∀ x : Fin D → ℝ, Real.exp (logLik p x)
      = ∑ c, p.weights c * ∏ d, gaussianPDFReal (p.means c d) (v c d) (x d) := by
    intro x
    rw [C01_loglik_eq_log_mixture p x v hvne hv hw, Real.exp_log]
    apply Finset.sum_pos _ Finset.univ_nonempty
    intro c _
    exact mul_pos (hw c) (Finset.prod_pos fun d _ => gaussianPDFReal_pos _ _ _ (hvne c d))
  simp only [h]
  exact mixture_integral_one p.weights p.means v hvne hsum

/-- a batch is evaluated row by row, and evaluating row blocks and concatenating is evaluating the
concatenation (the model of the NumPy batch and of the row-chunked Dask path) -/
theorem C01_chunked_eq_batch (p : Params (C+1) D ℝ) (blocks : List (List (Fin D → ℝ))) :
    (blocks.map fun b => b.map (logLik p)).flatten = blocks.flatten.map (logLik p) := by
  rw [List.map_flatten]

theorem C01_batch_eq_single (p : Params (C+1) D ℝ) (xs : List (Fin D → ℝ)) (i : Fin xs.length) :
    (xs.map (logLik p))[i.1]'(by simp) = logLik p xs[i.1] := by
  simp

/-- the real-number fact behind "finite in the tails": for every shift `m` the value is
`m + log Σ exp (a_c − m)` (so the computation can be anchored at the maximum), and it lies between
the largest component term and that plus `log (C+1)`. -/
theorem C01_shift (p : Params (C+1) D ℝ) (x : Fin D → ℝ) (m : ℝ) :
    logLik p x = m + Real.log (∑ c, Real.exp (lwl p x c - m)) := by
  rw [logLik, logaddexpReduce_eq]
  have : ∑ c, Real.exp (lwl p x c) = Real.exp m * ∑ c, Real.exp (lwl p x c - m) := by
    rw [Finset.mul_sum]; refine Finset.sum_congr rfl fun c _ => ?_
    rw [← Real.exp_add]; ring_nf
  rw [this, Real.log_mul (Real.exp_pos _).ne' (Finset.sum_pos (fun c _ => Real.exp_pos _) Finset.univ_nonempty).ne',
    Real.log_exp]

theorem C01_tail_bounds (p : Params (C+1) D ℝ) (x : Fin D → ℝ) (c : Fin (C+1)) :
    lwl p x c ≤ logLik p x ∧
      ((∀ k, lwl p x k ≤ lwl p x c) → logLik p x ≤ lwl p x c + Real.log ((C : ℝ) + 1)) := by
  rw [logLik, logaddexpReduce_eq]
  have hpos : 0 < ∑ k, Real.exp (lwl p x k) := Finset.sum_pos (fun k _ => Real.exp_pos _) Finset.univ_nonempty
  constructor
  · rw [← Real.log_exp (lwl p x c)]
    apply Real.log_le_log (Real.exp_pos _)
    exact Finset.single_le_sum (f := fun k => Real.exp (lwl p x k)) (fun k _ => (Real.exp_pos _).le) (Finset.mem_univ c)
  · intro hmax
    have : ∑ k, Real.exp (lwl p x k) ≤ ((C : ℝ) + 1) * Real.exp (lwl p x c) := by
      calc ∑ k, Real.exp (lwl p x k) ≤ ∑ _k : Fin (C+1), Real.exp (lwl p x c) :=
            Finset.sum_le_sum fun k _ => Real.exp_le_exp.mpr (hmax k)
        _ = ((C : ℝ) + 1) * Real.exp (lwl p x c) := by simp
    calc Real.log (∑ k, Real.exp (lwl p x k)) ≤ Real.log (((C : ℝ) + 1) * Real.exp (lwl p x c)) :=
          Real.log_le_log hpos this
      _ = lwl p x c + Real.log ((C : ℝ) + 1) := by
          rw [Real.log_mul (by positivity) (Real.exp_pos _).ne', Real.log_exp]; ring

/-- non-vacuity: a concrete two-component, one-feature machine meets the hypotheses -/
example : ∃ (p : Params 2 1 ℝ) (v : Fin 2 → Fin 1 → ℝ≥0), (∀ c d, v c d ≠ 0) ∧ (∀ c d, p.variances c d = v c d)
    ∧ (∀ c, 0 < p.weights c) ∧ ∑ c, p.weights c = 1 :=
  ⟨{ weights := fun _ => 1/2, means := fun c _ => c, variances := fun _ _ => 2 }, fun _ _ => 2,
    by intro c d; norm_num, by intro c d; norm_num, by intro c; norm_num, by norm_num [Fin.sum_univ_two]⟩

/-- **tied components both count**: two different components always contribute both of their terms — in
particular, when they are exactly tied at the maximum (a duplicated component, a sample on the
symmetry plane of a mirror pair) the log-likelihood is at least the common term plus `log 2`; a
log-sum-exp that counts "the maximum" once is not the mixture density -/
theorem C01_tied_components_both_count (p : Params (C+1) D ℝ) (x : Fin D → ℝ) (c₁ c₂ : Fin (C+1)) (hne : c₁ ≠ c₂) :
    Real.log (Real.exp (lwl p x c₁) + Real.exp (lwl p x c₂)) ≤ logLik p x ∧
      (lwl p x c₁ = lwl p x c₂ → lwl p x c₁ + Real.log 2 ≤ logLik p x) := by
  rw [logLik, logaddexpReduce_eq]
  have hpair : Real.exp (lwl p x c₁) + Real.exp (lwl p x c₂) ≤ ∑ k, Real.exp (lwl p x k) := by
    have := Finset.sum_le_sum_of_subset_of_nonneg (s := {c₁, c₂}) (t := Finset.univ) (f := fun k => Real.exp (lwl p x k))
      (Finset.subset_univ _) (fun k _ _ => (Real.exp_pos _).le)
    rwa [Finset.sum_pair hne] at this
  have hpos : 0 < Real.exp (lwl p x c₁) + Real.exp (lwl p x c₂) := add_pos (Real.exp_pos _) (Real.exp_pos _)
  refine ⟨Real.log_le_log hpos hpair, fun heq => ?_⟩
  have h2 : lwl p x c₁ + Real.log 2 = Real.log (Real.exp (lwl p x c₁) + Real.exp (lwl p x c₂)) := by
    rw [← heq, ← two_mul, Real.log_mul (by norm_num) (Real.exp_pos _).ne', Real.log_exp]; ring
  rw [h2]
  exact Real.log_le_log hpos hpair

/-- the same mixture with its components numbered differently -/
def BobEM.Params.relabel {C D : ℕ} (p : Params C D ℝ) (σ : Equiv.Perm (Fin C)) : Params C D ℝ :=
  { weights := fun c => p.weights (σ c), means := fun c => p.means (σ c), variances := fun c => p.variances (σ c) }

/-- the numbering of the components is immaterial: relabelling weights, means and variances together
leaves every sample's log-likelihood unchanged (no component — the first one of the `logaddexp`
reduction in particular — is treated differently), and the statistics of the relabelled machine are
the relabelled statistics -/
theorem C01_component_order_irrelevant (p : Params (C+1) D ℝ) (σ : Equiv.Perm (Fin (C+1))) (x : Fin D → ℝ)
    (xs : List (Fin D → ℝ)) :
    logLik (p.relabel σ) x = logLik p x ∧
    (∀ c, resp (p.relabel σ) x c = resp p x (σ c)) ∧
    (eStep (p.relabel σ) xs).ll = (eStep p xs).ll ∧
    (∀ c, (eStep (p.relabel σ) xs).n c = (eStep p xs).n (σ c)) ∧
    (∀ c d, (eStep (p.relabel σ) xs).sumPx c d = (eStep p xs).sumPx (σ c) d) ∧
    (∀ c d, (eStep (p.relabel σ) xs).sumPxx c d = (eStep p xs).sumPxx (σ c) d) := by
  have hl : ∀ y c, lwl (p.relabel σ) y c = lwl p y (σ c) := fun _ _ => rfl
  have hL : ∀ y, logLik (p.relabel σ) y = logLik p y := by
    intro y
    rw [logLik_eq, logLik_eq]
    simp only [hl]
    rw [Equiv.sum_comp σ fun c => Real.exp (lwl p y c)]
  have hr : ∀ y c, resp (p.relabel σ) y c = resp p y (σ c) := by
    intro y c; simp only [resp, hl, hL]
  refine ⟨hL x, hr x, ?_, fun c => ?_, fun c d => ?_, fun c d => ?_⟩ <;>
    simp only [eStep, hl, hL, funext hL]
