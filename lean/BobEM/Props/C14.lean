import BobEM.Model.Linear
import BobEM.Lemmas.RealLinAlg
import Mathlib.Tactic

/-!
# C14 — WCCN/whitening map covariance to identity; WCCN depends only on the partition

Model: `BobEM.Lin.whitenFit / wccnFit / project` (`whitening.py`, `wccn.py`).  The Cholesky routine
is a parameter; the theorems assume exactly its contract on the matrix it is given
(`L * Lᵀ = A`), and `LinAlg.inv` is Mathlib's inverse.
-/

open Matrix Finset BobEM BobEM.Lin

variable {N D : ℕ}

/-- the algebraic core: if `W Wᵀ = S⁻¹` and `S` is invertible then `Wᵀ S W = 1` -/
theorem whiten_core (S W : Matrix (Fin D) (Fin D) ℝ) (hS : IsUnit S.det) (hW : W * Wᵀ = S⁻¹) :
    Wᵀ * S * W = 1 := by
  have h1 : W * (Wᵀ * S) = 1 := by rw [← Matrix.mul_assoc, hW, Matrix.nonsing_inv_mul _ hS]
  have h2 := mul_eq_one_comm.mp h1
  exact h2

/-- centred data -/
noncomputable def centred (X : Fin N → Fin D → ℝ) : Matrix (Fin N) (Fin D) ℝ := of fun n d => X n d - colMean X d

theorem colMean_eq (X : Fin N → Fin D → ℝ) (d : Fin D) : colMean X d = (∑ n, X n d) / (N : ℝ) := by
  simp [colMean, sumFin_eq, Transc.ofNat]

theorem cov_eq (X : Fin N → Fin D → ℝ) :
    (of (covMat X) : Matrix (Fin D) (Fin D) ℝ) = (1 / ((N : ℝ) - 1)) • ((centred X)ᵀ * centred X) := by
  ext a b
  rw [Matrix.smul_apply, Matrix.mul_apply, smul_eq_mul]
  simp only [covMat, sumFin_eq, Transc.ofNat, of_apply, transpose_apply, centred]
  rw [div_eq_inv_mul, one_div]

theorem centred_colsum (X : Fin N → Fin D → ℝ) (hN : N ≠ 0) (d : Fin D) : ∑ n, centred X n d = 0 := by
  have hN' : (N : ℝ) ≠ 0 := by exact_mod_cast hN
  simp only [centred, of_apply, Finset.sum_sub_distrib, Finset.sum_const, Finset.card_univ, Fintype.card_fin,
    nsmul_eq_mul, colMean_eq]
  field_simp; ring

/-- covariance of data whose columns already sum to zero -/
theorem cov_of_zero_mean (Z : Matrix (Fin N) (Fin D) ℝ) (hz : ∀ d, ∑ n, Z n d = 0) :
    (of (covMat (fun n d => Z n d)) : Matrix (Fin D) (Fin D) ℝ) = (1 / ((N : ℝ) - 1)) • (Zᵀ * Z) := by
  have hm : ∀ d, colMean (fun n d => Z n d) d = 0 := by intro d; rw [colMean_eq, hz]; simp
  ext a b
  rw [Matrix.smul_apply, Matrix.mul_apply, smul_eq_mul]
  simp only [covMat, sumFin_eq, Transc.ofNat, of_apply, transpose_apply, hm, sub_zero]
  rw [div_eq_inv_mul, one_div]

theorem project_eq (p : Proj D ℝ) (X : Fin N → Fin D → ℝ) :
    (of fun n b => project p (X n) b : Matrix (Fin N) (Fin D) ℝ)
      = (of fun n a => X n a - p.subtract a : Matrix (Fin N) (Fin D) ℝ) * (of p.weights : Matrix (Fin D) (Fin D) ℝ) := by
  ext n b; simp [project, sumFin_eq, mul_apply]

/-- **Whitening**: after fitting on full-rank data the transformed training data have zero mean and
identity sample covariance -/
theorem C14_whitening_identity (chol : (n : ℕ) → (Fin n → Fin n → ℝ) → Fin n → Fin n → ℝ)
    (X : Fin N → Fin D → ℝ) (hN : N ≠ 0)
    (hfull : IsUnit (of (covMat X) : Matrix (Fin D) (Fin D) ℝ).det)
    (hchol : (of (chol D (LinAlg.inv D (covMat X))) : Matrix (Fin D) (Fin D) ℝ)
        * (of (chol D (LinAlg.inv D (covMat X))) : Matrix (Fin D) (Fin D) ℝ)ᵀ = of (LinAlg.inv D (covMat X))) :
    let Y := fun n => project (whitenFit chol X) (X n)
    (∀ d, colMean Y d = 0) ∧ (of (covMat Y) : Matrix (Fin D) (Fin D) ℝ) = 1 := by
  intro Y
  set W : Matrix (Fin D) (Fin D) ℝ := of (chol D (LinAlg.inv D (covMat X))) with hWdef
  have hY : (of fun n b => Y n b : Matrix (Fin N) (Fin D) ℝ) = centred X * W := by
    have := project_eq (whitenFit chol X) X
    simpa [whitenFit, centred, Y] using this
  have hsum : ∀ d, ∑ n, (centred X * W) n d = 0 := by
    intro d
    simp only [mul_apply]
    rw [Finset.sum_comm]
    simp only [← Finset.sum_mul, centred_colsum X hN, zero_mul, Finset.sum_const_zero]
  have hYfun : (fun n d => (centred X * W) n d) = Y := by
    funext n d; have := congrFun (congrFun hY n) d; simpa using this.symm
  refine ⟨fun d => ?_, ?_⟩
  · rw [colMean_eq, ← hYfun, hsum]; simp
  · rw [← hYfun, cov_of_zero_mean _ hsum, Matrix.transpose_mul, Matrix.mul_assoc, ← Matrix.mul_assoc _ (centred X) W,
      ← Matrix.mul_smul, ← Matrix.smul_mul, ← cov_eq, ← Matrix.mul_assoc]
    apply whiten_core _ _ hfull
    rw [hchol]; rfl

/-! ### WCCN -/

theorem classScatter_eq (X : Fin N → Fin D → ℝ) (y : Fin N → ℤ) (l : ℤ) :
    (of (classScatter X y l) : Matrix (Fin D) (Fin D) ℝ)
      = (of fun n a => X n a - classMean X y l a : Matrix (Fin N) (Fin D) ℝ)ᵀ
          * (Matrix.diagonal fun n => if y n = l then (1:ℝ) else 0)
          * (of fun n a => X n a - classMean X y l a : Matrix (Fin N) (Fin D) ℝ) := by
  ext a b
  rw [Matrix.mul_apply]
  simp only [classScatter, sumFin_eq, of_apply, Matrix.mul_diagonal, transpose_apply]
  refine Finset.sum_congr rfl fun n _ => ?_
  split_ifs <;> ring

theorem classMean_project (W : Fin D → Fin D → ℝ) (X : Fin N → Fin D → ℝ) (y : Fin N → ℤ) (l : ℤ) (b : Fin D) :
    classMean (fun n => project ⟨W, fun _ => 0⟩ (X n)) y l b = ∑ a, classMean X y l a * W a b := by
  simp only [classMean, project, sumFin_eq, sub_zero, Transc.ofNat, div_mul_eq_mul_div]
  rw [← Finset.sum_div]
  congr 1
  have : ∀ n, (if y n = l then ∑ a, X n a * W a b else 0) = ∑ a, (if y n = l then X n a else 0) * W a b := by
    intro n; split_ifs <;> simp
  simp only [this]
  rw [Finset.sum_comm]
  refine Finset.sum_congr rfl fun a _ => ?_
  rw [Finset.sum_mul]

theorem classScatter_project (W : Fin D → Fin D → ℝ) (X : Fin N → Fin D → ℝ) (y : Fin N → ℤ) (l : ℤ) :
    (of (classScatter (fun n => project ⟨W, fun _ => 0⟩ (X n)) y l) : Matrix (Fin D) (Fin D) ℝ)
      = (of W : Matrix (Fin D) (Fin D) ℝ)ᵀ * of (classScatter X y l) * of W := by
  rw [classScatter_eq, classScatter_eq]
  have hZ : (of fun n b => project ⟨W, fun _ => 0⟩ (X n) b - classMean (fun n => project ⟨W, fun _ => 0⟩ (X n)) y l b
      : Matrix (Fin N) (Fin D) ℝ)
      = (of fun n a => X n a - classMean X y l a : Matrix (Fin N) (Fin D) ℝ) * of W := by
    ext n b
    simp only [of_apply, classMean_project, mul_apply, project, sumFin_eq, sub_zero, ← Finset.sum_sub_distrib]
    refine Finset.sum_congr rfl fun a _ => by ring
  rw [hZ, Matrix.transpose_mul]
  simp only [Matrix.mul_assoc]

theorem scaledScatter_eq (Z : Fin N → Fin D → ℝ) (y : Fin N → ℤ) (classes : List ℤ) :
    (of (scaledScatter Z y classes) : Matrix (Fin D) (Fin D) ℝ)
      = (1 / (classes.length : ℝ)) • (classes.map fun l => (of (classScatter Z y l) : Matrix (Fin D) (Fin D) ℝ)).sum := by
  ext a b
  rw [Matrix.smul_apply, smul_eq_mul]
  simp only [scaledScatter, withinScatter, lsum_eq, Transc.ofNat, of_apply]
  congr 1
  induction classes with
  | nil => simp
  | cons l ls ih => simp only [List.map_cons, List.sum_cons, Matrix.add_apply, of_apply, ih]

theorem scatter_sum_project (W : Fin D → Fin D → ℝ) (X : Fin N → Fin D → ℝ) (y : Fin N → ℤ) (classes : List ℤ) :
    (classes.map fun l => (of (classScatter (fun n => project ⟨W, fun _ => 0⟩ (X n)) y l) : Matrix (Fin D) (Fin D) ℝ)).sum
      = (of W : Matrix (Fin D) (Fin D) ℝ)ᵀ * (classes.map fun l => (of (classScatter X y l) : Matrix (Fin D) (Fin D) ℝ)).sum * of W := by
  induction classes with
  | nil => simp
  | cons l ls ih =>
    rw [List.map_cons, List.sum_cons, List.map_cons, List.sum_cons, ih, classScatter_project, Matrix.mul_add, Matrix.add_mul]

/-- **WCCN**: the within-class scatter of the transformed training data divided by the number of
classes is the identity -/
theorem C14_wccn_identity (chol : (n : ℕ) → (Fin n → Fin n → ℝ) → Fin n → Fin n → ℝ)
    (X : Fin N → Fin D → ℝ) (y : Fin N → ℤ) (classes : List ℤ)
    (hfull : IsUnit (of (scaledScatter X y classes) : Matrix (Fin D) (Fin D) ℝ).det)
    (hchol : (of (chol D (LinAlg.inv D (scaledScatter X y classes))) : Matrix (Fin D) (Fin D) ℝ)
        * (of (chol D (LinAlg.inv D (scaledScatter X y classes))) : Matrix (Fin D) (Fin D) ℝ)ᵀ
          = of (LinAlg.inv D (scaledScatter X y classes))) :
    (of (scaledScatter (fun n => project (wccnFit chol X y classes) (X n)) y classes) : Matrix (Fin D) (Fin D) ℝ) = 1 := by
  set Wf := chol D (LinAlg.inv D (scaledScatter X y classes)) with hWf
  have hfit : wccnFit chol X y classes = ⟨Wf, fun _ => 0⟩ := rfl
  rw [hfit]
  rw [scaledScatter_eq, scatter_sum_project, ← Matrix.smul_mul, ← Matrix.mul_smul, ← scaledScatter_eq]
  apply whiten_core _ _ hfull
  rw [hchol]; rfl

/-- the projection inherits "lower-triangular with positive diagonal" from the Cholesky contract -/
theorem C14_lower_pos_diag (chol : (n : ℕ) → (Fin n → Fin n → ℝ) → Fin n → Fin n → ℝ)
    (X : Fin N → Fin D → ℝ) (y : Fin N → ℤ) (classes : List ℤ)
    (hlow : ∀ A : Fin D → Fin D → ℝ, (∀ i j, i < j → chol D A i j = 0) ∧ ∀ i, 0 < chol D A i i) :
    (∀ i j, i < j → (wccnFit chol X y classes).weights i j = 0) ∧ (∀ i, 0 < (wccnFit chol X y classes).weights i i) ∧
    (∀ i j, i < j → (whitenFit chol X).weights i j = 0) ∧ (∀ i, 0 < (whitenFit chol X).weights i i) :=
  ⟨(hlow _).1, (hlow _).2, (hlow _).1, (hlow _).2⟩

/-- **Label invariance**: the WCCN projection depends only on which samples share a class — any
injective renaming of the labels and any enumeration order of the label set give the same fit -/
theorem C14_wccn_label_invariance (chol : (n : ℕ) → (Fin n → Fin n → ℝ) → Fin n → Fin n → ℝ)
    (X : Fin N → Fin D → ℝ) (y : Fin N → ℤ) (classes classes' : List ℤ) (f : ℤ → ℤ) (hf : Function.Injective f)
    (hperm : classes'.Perm (classes.map f)) :
    wccnFit chol X (fun n => f (y n)) classes' = wccnFit chol X y classes := by
  have hcount : ∀ l, classCount (fun n => f (y n)) (f l) = classCount y l := by
    intro l; simp only [classCount, hf.eq_iff]
  have hmean : ∀ l, classMean X (fun n => f (y n)) (f l) = classMean X y l := by
    intro l; funext d; simp only [classMean, hcount, hf.eq_iff]
  have hsc : ∀ l, classScatter X (fun n => f (y n)) (f l) = classScatter X y l := by
    intro l; funext a b; simp only [classScatter, hmean, hf.eq_iff]
  have hS : scaledScatter X (fun n => f (y n)) classes' = scaledScatter X y classes := by
    funext a b
    simp only [scaledScatter, withinScatter, lsum_eq]
    rw [hperm.length_eq, (hperm.map _).sum_eq]
    simp [List.map_map, Function.comp_def, hsc]
  simp only [wccnFit, hS]


/-- the executed (materialised) fits compute the specification's projections -/
theorem C14_exec_eq_spec (chol : (n : ℕ) → (Fin n → Fin n → ℝ) → Fin n → Fin n → ℝ) (X : Fin N → Fin D → ℝ)
    (y : Fin N → ℤ) (classes : List ℤ) :
    (whitenFitV chol X).toProj = whitenFit chol X ∧ (wccnFitV chol X y classes).toProj = wccnFit chol X y classes := by
  constructor
  · simp only [whitenFitV, ProjV.toProj, whitenFit, Proj.mk.injEq]
    refine ⟨?_, ?_⟩
    · funext a b
      simp only [Fin.getElem_fin, Vector.getElem_ofFn]
      rfl
    · funext a
      simp only [Fin.getElem_fin, Vector.getElem_ofFn]
  · simp only [wccnFitV, ProjV.toProj, wccnFit, Proj.mk.injEq]
    refine ⟨?_, ?_⟩
    · funext a b
      simp only [Fin.getElem_fin, Vector.getElem_ofFn]
    · funext a
      simp only [Fin.getElem_fin, Vector.getElem_ofFn]
