import BobEM.Lemmas.IVectorIdent

/-!
# C10 — I-vectors are posterior means; i-vector EM never decreases the likelihood

Model: `BobEM.IV.precision / rhs / project / contrib / eStep / mStep / fit`
(`ivector.py: compute_id_tt_sigma_inv_t, compute_tt_sigma_inv_fnorm, IVectorMachine.project, e_step,
m_step, fit`).
-/

open Matrix Finset BobEM BobEM.IV

variable {C D R : ℕ}

/-- the i-vector is the unique solution of `(I + Σ_c N_c T_cᵀ Σ_c⁻¹ T_c) w = Σ_c T_cᵀ Σ_c⁻¹ (F_c − N_c m_c)` -/
theorem C10_project_solves_system (m : Machine C D R ℝ) (st : GStat C D ℝ)
    (hn : ∀ c, 0 ≤ st.n c) (hs : ∀ c d, 0 < m.sigma c d) :
    (Matrix.of (precision m st.n) : Matrix (Fin R) (Fin R) ℝ) *ᵥ project m st = rhs m st ∧
    ∀ w, (Matrix.of (precision m st.n) : Matrix (Fin R) (Fin R) ℝ) *ᵥ w = rhs m st → w = project m st := by
  have hP := precision_posDef m st.n hn hs
  have hproj : project m st = (Matrix.of (precision m st.n))⁻¹ *ᵥ rhs m st := by
    funext a; simp only [project, LinAlg.inv, FA.mulVec, sumFin_eq, Matrix.mulVec, dotProduct]
  refine ⟨by rw [hproj]; exact posDef_mul_inv_mulVec hP _, fun w hw => ?_⟩
  have hu : IsUnit (Matrix.of (precision m st.n) : Matrix (Fin R) (Fin R) ℝ).det :=
    (Matrix.isUnit_iff_isUnit_det _).mp hP.isUnit
  rw [hproj, ← hw, Matrix.mulVec_mulVec, Matrix.nonsing_inv_mul _ hu, Matrix.one_mulVec]

/-- it is the mode (= mean) of the Gaussian posterior of the total-variability factor -/
theorem C10_project_is_posterior_mode (m : Machine C D R ℝ) (st : GStat C D ℝ)
    (hn : ∀ c, 0 ≤ st.n c) (hs : ∀ c d, 0 < m.sigma c d) (w : Fin R → ℝ) :
    let P : Matrix (Fin R) (Fin R) ℝ := Matrix.of (precision m st.n)
    rhs m st ⬝ᵥ w - (1/2) * (w ⬝ᵥ (P *ᵥ w)) ≤ rhs m st ⬝ᵥ project m st - (1/2) * (project m st ⬝ᵥ (P *ᵥ project m st)) := by
  intro P
  have hP : P.PosDef := precision_posDef m st.n hn hs
  have hproj : project m st = P⁻¹ *ᵥ rhs m st := by
    funext a; simp only [project, LinAlg.inv, FA.mulVec, sumFin_eq, Matrix.mulVec, dotProduct, P]
  rw [hproj, quad_max_eq hP]
  exact quad_max hP _ w

/-- statistics with no frames give the zero vector -/
theorem C10_zero_stats_zero (m : Machine C D R ℝ) (st : GStat C D ℝ)
    (hn : ∀ c, st.n c = 0) (hf : ∀ c d, st.f c d = 0) : project m st = fun _ => 0 := by
  have hr : rhs m st = fun _ => 0 := by funext t; simp [rhs, hn, hf, sumFin_eq]
  funext a
  simp [project, hr, FA.mulVec, sumFin_eq]

/-- after every M-step with `update_sigma` the covariances are at or above the floor — for components
with data and for components that were never observed (which keep their previous value, D8 rule) -/
theorem C10_sigma_floor (m : Machine C D R ℝ) (st : IV.Stats C D R ℝ) (floor : ℝ) (c : Fin C) (d : Fin D) :
    floor ≤ (mStep m st true floor).sigma c d ∧
    (st.nij c = 0 → floor ≤ m.sigma c d → (mStep m st true floor).sigma c d = m.sigma c d) := by
  have key : ∀ raw : ℝ, floor ≤ (if raw < floor then floor else raw) := fun raw => by
    split_ifs with h
    · exact le_refl _
    · exact not_lt.mp h
  constructor
  · simp only [mStep, if_true]
    exact key _
  · intro h0 hfl
    simp only [mStep, if_true, Transc.isZero, h0, decide_true]
    simp [not_lt.mpr hfl]

/-- E-step accumulators are additive over any split of the training statistics … -/
theorem C10_estep_additive (m : Machine C D R ℝ) (xs ys : List (GStat C D ℝ)) :
    IV.eStep m (xs ++ ys) = (IV.eStep m xs).add (IV.eStep m ys) := eStep_append m xs ys

/-- … so one iteration on any partitioning of the statistics is the iteration on the whole list -/
theorem C10_partition_independent (m : Machine C D R ℝ) (parts : List (List (GStat C D ℝ))) (upd : Bool) (floor : ℝ) :
    iterate parts upd floor m = iterate [parts.flatten] upd floor m := by
  unfold iterate
  rw [eStep_partition, eStep_partition]; simp

/-- **EM, fixed covariances**: the marginal likelihood of the training statistics never decreases -/
theorem C10_em_monotone_fixed_sigma (m : Machine C D R ℝ) (sts : List (GStat C D ℝ)) (floor : ℝ)
    (hn : ∀ st ∈ sts, ∀ c, 0 ≤ st.n c) (hs : ∀ c d, 0 < m.sigma c d)
    (hpos : ∀ c, ∃ i : Fin sts.length, 0 < sts[i].n c) :
    margI m sts m.T ≤ margI m sts (mStep m (IV.eStep m sts) false floor).T :=
  iv_em_monotone_fixed_sigma m sts floor hn hs hpos

/-- **EM with `update_sigma`**: the full marginal likelihood (covariance terms included) never
decreases, provided the incoming covariances respect the floor (true from the second iteration on by
`C10_sigma_floor`, and at the first whenever the UBM variances do) -/
theorem C10_em_monotone_update_sigma (m : Machine C D R ℝ) (sts : List (GStat C D ℝ)) (floor : ℝ) (hfl : 0 < floor)
    (hn : ∀ st ∈ sts, ∀ c, 0 ≤ st.n c) (hs : ∀ c d, floor ≤ m.sigma c d)
    (hpos : ∀ c, ∃ i : Fin sts.length, 0 < sts[i].n c) :
    margIS m sts m.T m.sigma
      ≤ margIS m sts (mStep m (IV.eStep m sts) true floor).T (mStep m (IV.eStep m sts) true floor).sigma :=
  iv_em_monotone_update_sigma m sts floor hfl hn hs hpos

/-- non-vacuity: one component, one feature, rank one, two statistics with positive counts -/
example : ∃ (m : Machine 1 1 1 ℝ) (sts : List (GStat 1 1 ℝ)) (floor : ℝ), 0 < floor ∧ (∀ st ∈ sts, ∀ c, 0 ≤ st.n c) ∧
    (∀ c d, floor ≤ m.sigma c d) ∧ (∀ c, ∃ i : Fin sts.length, 0 < sts[i].n c) := by
  refine ⟨⟨fun _ _ => 0, fun _ _ _ => 1, fun _ _ => 1⟩, [⟨fun _ => 2, fun _ _ => 1, fun _ _ => 3⟩, ⟨fun _ => 1, fun _ _ => -1, fun _ _ => 2⟩],
    1/2, by norm_num, ?_, by intro c d; norm_num, fun c => ⟨⟨0, by simp⟩, by simp⟩⟩
  intro st hst c
  simp only [List.mem_cons, List.not_mem_nil, or_false] at hst
  rcases hst with rfl | rfl <;> norm_num

/-- statistics that sit exactly at the UBM means (`F_c = N_c m_c` for every component, whatever the
counts) carry no evidence about the latent variable: the i-vector is the prior mean, zero. The
zero-frame case is the instance `N = 0, F = 0`. -/
theorem C10_centred_stats_zero (m : Machine C D R ℝ) (st : GStat C D ℝ)
    (hf : ∀ c d, st.f c d = st.n c * m.ubmMeans c d) : project m st = fun _ => 0 := by
  have hr : rhs m st = fun _ => 0 := by funext t; simp [rhs, hf, sumFin_eq]
  funext a
  simp [project, hr, FA.mulVec, sumFin_eq]

/-- for fixed counts the i-vector is a linear function of the centred first-order statistics
`F_c − N_c m_c`: the precision depends on the counts only, the right-hand side is linear -/
theorem C10_project_linear_in_centred_f (m : Machine C D R ℝ) (st st₁ st₂ : GStat C D ℝ) (a b : ℝ)
    (hn₁ : st₁.n = st.n) (hn₂ : st₂.n = st.n)
    (hf : ∀ c d, st.f c d - st.n c * m.ubmMeans c d
        = a * (st₁.f c d - st₁.n c * m.ubmMeans c d) + b * (st₂.f c d - st₂.n c * m.ubmMeans c d)) :
    project m st = fun t => a * project m st₁ t + b * project m st₂ t := by
  have hr : ∀ u, rhs m st u = a * rhs m st₁ u + b * rhs m st₂ u := by
    intro u
    simp only [rhs, sumFin_eq, hf, Finset.mul_sum, ← Finset.sum_add_distrib]
    refine Finset.sum_congr rfl fun c _ => Finset.sum_congr rfl fun d _ => ?_
    ring
  funext t
  simp only [project, FA.mulVec, sumFin_eq, hn₁, hn₂, hr, Finset.mul_sum, ← Finset.sum_add_distrib]
  refine Finset.sum_congr rfl fun u _ => ?_
  ring
