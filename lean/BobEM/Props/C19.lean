import BobEM.Model.Own
import Mathlib.Tactic

/-!
# C19 — Training and scoring never modify or alias caller-owned data

Model: `BobEM.Own` — effect summaries of calls on a heap of array cells.  The theorems are about
any sequence of calls that obeys the (decidable) discipline `Effect.ok`; that the real entry points
obey it is what the correspondence observes (bitwise snapshots before/after, `np.shares_memory`).
-/

open BobEM.Own

/-- all calls of a sequence obey the discipline, starting from world `w` -/
def AllOk : World → List Effect → Prop
  | _, [] => True
  | w, e :: es => e.ok w = true ∧ AllOk (w.step e) es

theorem firstViolation_none_iff (w : World) (es : List Effect) (i : ℕ) :
    firstViolation w es i = none ↔ AllOk w es := by
  induction es generalizing w i with
  | nil => simp [firstViolation, AllOk]
  | cons e es ih =>
    simp only [firstViolation, AllOk]
    by_cases h : e.ok w = true
    · simp [h, ih]
    · simp [h]

/-- **Frame**: along any disciplined call sequence, every caller-owned cell that was not explicitly
handed over keeps its contents bit for bit -/
theorem C19_frame {V : Type} (w : World) (calls : List (Effect × (ℕ → V))) (h : ℕ → V)
    (hok : AllOk w (calls.map (·.1))) (c : ℕ) (hc : c ∈ w.caller)
    (hnot : ∀ e ∈ calls.map (·.1), c ∉ e.handedOver) :
    run h calls c = h c := by
  induction calls generalizing w h with
  | nil => rfl
  | cons ec rest ih =>
    obtain ⟨e, new⟩ := ec
    simp only [List.map_cons, AllOk] at hok
    have hcaller : (w.step e).caller = w.caller := rfl
    have hrest := ih (w.step e) (applyEffect h e new) hok.2 (by rw [hcaller]; exact hc)
      (fun e' he' => hnot e' (by simp [he']))
    simp only [run]
    rw [hrest]
    have hnw : e.writes.contains c = false := by
      by_contra hw
      simp only [Bool.not_eq_false] at hw
      have h1 := hok.1
      simp only [Effect.ok, Bool.and_eq_true, List.all_eq_true] at h1
      have := h1.1 c (by simpa using hw)
      have hho : c ∉ e.handedOver := hnot e (by simp)
      have this' : c ∉ w.caller ∨ c ∈ e.handedOver := by simpa using this
      rcases this' with h2 | h2
      · exact h2 hc
      · exact hho h2
    have hnw' : c ∉ e.writes := by simpa using hnw
    simp [applyEffect, hnw']

/-- **No aliasing**: along any disciplined call sequence, no cell held by an estimator (attribute or
returned result) is a caller-owned cell -/
theorem C19_no_alias (w : World) (es : List Effect) (hok : AllOk w es)
    (h0 : ∀ c ∈ w.est, c ∉ w.caller) :
    ∀ c ∈ (es.foldl World.step w).est, c ∉ w.caller := by
  induction es generalizing w with
  | nil => simpa using h0
  | cons e es ih =>
    simp only [AllOk] at hok
    simp only [List.foldl_cons]
    have hcaller : (w.step e).caller = w.caller := rfl
    have := ih (w.step e) hok.2 (by
      intro c hc
      simp only [World.step, List.mem_append] at hc
      rw [hcaller]
      rcases hc with hc | hc
      · have h1 := hok.1
        simp only [Effect.ok, Bool.and_eq_true, List.all_eq_true] at h1
        have := h1.2 c hc
        simpa using this
      · exact h0 c hc)
    rwa [hcaller] at this

/-- **Reuse**: a result that is a function of caller-owned inputs is reproduced by a later identical
call, because those inputs are unchanged -/
theorem C19_reuse {V R : Type} (w : World) (calls : List (Effect × (ℕ → V))) (h : ℕ → V)
    (hok : AllOk w (calls.map (·.1))) (hnot : ∀ e ∈ calls.map (·.1), ∀ c ∈ w.caller, c ∉ e.handedOver)
    (inputs : List ℕ) (hin : ∀ c ∈ inputs, c ∈ w.caller) (f : List V → R) :
    f (inputs.map (run h calls)) = f (inputs.map h) := by
  congr 1
  apply List.map_congr_left
  intro c hc
  exact C19_frame w calls h hok c (hin c hc) (fun e he => hnot e he c (hin c hc))

/-- non-vacuity: a call that writes only its own fresh cell 7 and keeps it, caller owns 1 and 2 -/
example : AllOk ⟨[1, 2], []⟩ [⟨[7], [7], []⟩, ⟨[7], [7, 8], []⟩] :=
  (firstViolation_none_iff _ _ 0).mp (by decide)
/-- and the checker rejects a call that keeps the caller's cell 2 (the `max_iter = 0` aliasing, D15) -/
example : firstViolation ⟨[1, 2], []⟩ [⟨[], [7], []⟩, ⟨[], [2], []⟩] 0 = some 1 := by decide
