import BobEM.Lemmas.Real
import BobEM.Lemmas.MapEM
import BobEM.Model.GmmState
import Mathlib.Tactic
import Mathlib.Topology.Algebra.Order.Field
import Mathlib.Analysis.SpecificLimits.Basic

/-!
# C05 — MAP adaptation interpolates between the prior model and the data by relevance

Model: `BobEM.mapAlpha`, `mapWeights`, `mapMeans`, `mapRawVarG`, `mapMStepSpec`, `mapMStepCode`
(`gmm.py: map_gmm_m_step`).  `…Spec` is Reynolds eq. 11–13, i.e. what the property states;
`…Code` mirrors the pinned commit, whose variance blend uses `ubm.variances + ubm.means` (defect
D3, recorded as a known finding because the pinned tests fix the resulting numbers).
-/

open Finset BobEM Filter Topology

variable {C D : ℕ}

/-- adapted mean = `a·E_c[x] + (1−a)·prior mean` whenever the component has evidence -/
theorem C05_mean_blend (cfg : MapCfg C D ℝ) (ubm p : Params C D ℝ) (st : Stats C D ℝ)
    (hm : cfg.updMeans = true) (c : Fin C) (d : Fin D) (hn : cfg.countThr ≤ st.n c) :
    mapMeans cfg ubm p st c d
      = mapAlpha cfg st c * (st.sumPx c d / st.n c) + (1 - mapAlpha cfg st c) * ubm.means c d := by
  simp [mapMeans, hm, not_lt.mpr hn]

/-- the coefficient is `n_c/(n_c+r)` (Reynolds) or the fixed configured ratio -/
theorem C05_alpha (cfg : MapCfg C D ℝ) (st : Stats C D ℝ) (c : Fin C) :
    mapAlpha cfg st c = if cfg.reynolds then st.n c / (st.n c + cfg.relevance) else cfg.alphaFixed := rfl

theorem C05_alpha_mem (cfg : MapCfg C D ℝ) (st : Stats C D ℝ) (c : Fin C)
    (hr : cfg.reynolds = true) (hn : 0 ≤ st.n c) (hrel : 0 < cfg.relevance) :
    0 ≤ mapAlpha cfg st c ∧ mapAlpha cfg st c < 1 := by
  simp only [mapAlpha, hr, if_true]
  have : 0 < st.n c + cfg.relevance := by linarith
  exact ⟨div_nonneg hn this.le, (div_lt_one this).mpr (by linarith)⟩

/-- adapted weights are the same blend, renormalised: they are non-negative and sum to one -/
theorem C05_weight_blend_normalised (cfg : MapCfg C D ℝ) (ubm p : Params C D ℝ) (st : Stats C D ℝ) (t : ℝ)
    (hw : cfg.updWeights = true)
    (ha : ∀ c, 0 ≤ mapAlpha cfg st c ∧ mapAlpha cfg st c ≤ 1) (hn : ∀ c, 0 ≤ st.n c) (ht : 0 < t)
    (hw0 : ∀ c, 0 ≤ ubm.weights c) (hpos : 0 < ∑ c, mapRawWeight cfg ubm st t c) :
    (∀ c, mapWeights cfg ubm p st t c
        = (mapAlpha cfg st c * (st.n c / t) + (1 - mapAlpha cfg st c) * ubm.weights c)
          / ∑ k, (mapAlpha cfg st k * (st.n k / t) + (1 - mapAlpha cfg st k) * ubm.weights k)) ∧
    (∀ c, 0 ≤ mapWeights cfg ubm p st t c) ∧ ∑ c, mapWeights cfg ubm p st t c = 1 := by
  have hraw : ∀ c, 0 ≤ mapRawWeight cfg ubm st t c := fun c =>
    add_nonneg (mul_nonneg (ha c).1 (div_nonneg (hn c) ht.le)) (mul_nonneg (by linarith [(ha c).2]) (hw0 c))
  refine ⟨fun c => ?_, fun c => ?_, ?_⟩
  · simp [mapWeights, hw, sumFin_eq, mapRawWeight]
  · simp only [mapWeights, hw, if_true, sumFin_eq]; exact div_nonneg (hraw c) hpos.le
  · simp only [mapWeights, hw, if_true, sumFin_eq]
    rw [← Finset.sum_div, div_self hpos.ne']

/-- **Spec** variance blend: `a·E_c[x²] + (1−a)(prior var + prior mean²) − (new mean)²` -/
theorem C05_var_blend_spec (cfg : MapCfg C D ℝ) (ubm p : Params C D ℝ) (st : Stats C D ℝ)
    (c : Fin C) (d : Fin D) (hn : cfg.countThr ≤ st.n c) :
    mapRawVarG (fun m => m * m) cfg ubm p st c d
      = mapAlpha cfg st c * (st.sumPxx c d / st.n c)
        + (1 - mapAlpha cfg st c) * (ubm.variances c d + ubm.means c d * ubm.means c d)
        - mapMeans cfg ubm p st c d * mapMeans cfg ubm p st c d := by
  simp only [mapRawVarG, not_lt.mpr hn, if_false]; ring

/-- …which is a genuine variance: non-negative whenever the data moments are consistent
(`E[x²] ≥ E[x]²`), the prior variance is non-negative and `0 ≤ a ≤ 1` -/
theorem C05_var_blend_spec_nonneg (cfg : MapCfg C D ℝ) (ubm p : Params C D ℝ) (st : Stats C D ℝ)
    (hm : cfg.updMeans = true) (c : Fin C) (d : Fin D) (hn : cfg.countThr ≤ st.n c)
    (ha : 0 ≤ mapAlpha cfg st c ∧ mapAlpha cfg st c ≤ 1) (hv0 : 0 ≤ ubm.variances c d)
    (hmom : (st.sumPx c d / st.n c) * (st.sumPx c d / st.n c) ≤ st.sumPxx c d / st.n c) :
    0 ≤ mapRawVarG (fun m => m * m) cfg ubm p st c d := by
  rw [C05_var_blend_spec cfg ubm p st c d hn, C05_mean_blend cfg ubm p st hm c d hn]
  set a := mapAlpha cfg st c
  set m := st.sumPx c d / st.n c
  set s := st.sumPxx c d / st.n c
  set μ := ubm.means c d
  set v := ubm.variances c d
  have hid : a * s + (1 - a) * (v + μ * μ) - (a * m + (1 - a) * μ) * (a * m + (1 - a) * μ)
      = a * (s - m * m) + (1 - a) * v + a * (1 - a) * ((m - μ) * (m - μ)) := by ring
  rw [hid]
  have h1 : 0 ≤ a * (s - m * m) := mul_nonneg ha.1 (by linarith)
  have h2 : 0 ≤ (1 - a) * v := mul_nonneg (by linarith [ha.2]) hv0
  have h3 : 0 ≤ a * (1 - a) * ((m - μ) * (m - μ)) :=
    mul_nonneg (mul_nonneg ha.1 (by linarith [ha.2])) (mul_self_nonneg _)
  linarith

/-- **Code vs Spec (partial):** the pinned commit's variance differs from the stated blend by
exactly `(1−a)(μ0² − μ0)` on components with evidence and by `μ0² − μ0` on components without -/
theorem C05_var_code_partial (cfg : MapCfg C D ℝ) (ubm p : Params C D ℝ) (st : Stats C D ℝ)
    (c : Fin C) (d : Fin D) :
    mapRawVarG (fun m => m) cfg ubm p st c d
      = mapRawVarG (fun m => m * m) cfg ubm p st c d
        - (if st.n c < cfg.countThr then 1 else 1 - mapAlpha cfg st c)
            * (ubm.means c d * ubm.means c d - ubm.means c d) := by
  unfold mapRawVarG
  split_ifs <;> ring

theorem C05_var_code_eq_spec_iff (cfg : MapCfg C D ℝ) (ubm p : Params C D ℝ) (st : Stats C D ℝ)
    (c : Fin C) (d : Fin D) (hn : cfg.countThr ≤ st.n c) :
    mapRawVarG (fun m => m) cfg ubm p st c d = mapRawVarG (fun m => m * m) cfg ubm p st c d
      ↔ (mapAlpha cfg st c = 1 ∨ ubm.means c d = 0 ∨ ubm.means c d = 1) := by
  rw [C05_var_code_partial]
  simp only [not_lt.mpr hn, if_false]
  constructor
  · intro h
    have h0 : (1 - mapAlpha cfg st c) * (ubm.means c d * (ubm.means c d - 1)) = 0 := by linarith
    rcases mul_eq_zero.mp h0 with h1 | h1
    · left; linarith
    · rcases mul_eq_zero.mp h1 with h2 | h2
      · right; left; exact h2
      · right; right; linarith
  · rintro (h | h | h) <;> simp [h]

/-- **Refutation of the code's formula** (the D3 witness: prior mean 2, prior variance 1, n = r = 4,
E[x] = 2, E[x²] = 5): the property's blend gives variance 1, the pinned commit gives 0. -/
theorem C05_var_code_refuted :
    let cfg : MapCfg 1 1 ℝ := ⟨true, true, false, true, 4, 1/2, 0, fun _ _ => 0⟩
    let ubm : Params 1 1 ℝ := ⟨fun _ => 1, fun _ _ => 2, fun _ _ => 1⟩
    let st : Stats 1 1 ℝ := ⟨fun _ => 4, fun _ _ => 8, fun _ _ => 20, 0, 4⟩
    mapRawVarG (fun m => m * m) cfg ubm ubm st 0 0 = 1 ∧ mapRawVarG (fun m => m) cfg ubm ubm st 0 0 = 0 := by
  simp only [mapRawVarG, mapMeans, mapAlpha]
  norm_num

/-- a component without evidence keeps the prior's mean and (Spec) variance -/
theorem C05_no_evidence (cfg : MapCfg C D ℝ) (ubm p : Params C D ℝ) (st : Stats C D ℝ)
    (hm : cfg.updMeans = true) (c : Fin C) (d : Fin D) (hn : st.n c < cfg.countThr) :
    mapMeans cfg ubm p st c d = ubm.means c d ∧
    mapRawVarG (fun m => m * m) cfg ubm p st c d = ubm.variances c d := by
  have h1 : mapMeans cfg ubm p st c d = ubm.means c d := by simp [mapMeans, hm, hn]
  refine ⟨h1, ?_⟩
  simp only [mapRawVarG, hn, if_true, h1]; ring

/-- relevance → ∞: the adapted mean tends to the prior mean -/
theorem C05_limit_prior (n m μ0 : ℝ) :
    Tendsto (fun r : ℝ => n / (n + r) * m + (1 - n / (n + r)) * μ0) atTop (𝓝 μ0) := by
  have h : Tendsto (fun r : ℝ => n / (n + r)) atTop (𝓝 0) :=
    Tendsto.div_atTop tendsto_const_nhds (tendsto_atTop_add_const_left _ _ tendsto_id)
  have := (h.mul_const m).add (((tendsto_const_nhds (x := (1:ℝ))).sub h).mul_const μ0)
  simpa using this

/-- relevance → 0⁺: for a component with evidence the adapted mean tends to the data mean -/
theorem C05_limit_data (n m μ0 : ℝ) (hn : 0 < n) :
    Tendsto (fun r : ℝ => n / (n + r) * m + (1 - n / (n + r)) * μ0) (𝓝[>] 0) (𝓝 m) := by
  have hc : Tendsto (fun r : ℝ => n / (n + r)) (𝓝 0) (𝓝 (n / (n + 0))) :=
    Tendsto.div tendsto_const_nhds (tendsto_const_nhds.add tendsto_id) (by simpa using hn.ne')
  have h : Tendsto (fun r : ℝ => n / (n + r)) (𝓝[>] 0) (𝓝 1) := by
    have : n / (n + 0) = 1 := by rw [add_zero, div_self hn.ne']
    rw [this] at hc
    exact hc.mono_left nhdsWithin_le_nhds
  have := (h.mul_const m).add (((tendsto_const_nhds (x := (1:ℝ))).sub h).mul_const μ0)
  simpa using this

/-- non-vacuity: the guards of the blend theorems are met by the D3 witness configuration -/
example : ∃ (cfg : MapCfg 1 1 ℝ) (st : Stats 1 1 ℝ), cfg.updMeans = true ∧ cfg.countThr ≤ st.n 0 ∧
    (0 ≤ mapAlpha cfg st 0 ∧ mapAlpha cfg st 0 ≤ 1) :=
  ⟨⟨true, true, false, true, 4, 1/2, 0, fun _ _ => 0⟩, ⟨fun _ => 4, fun _ _ => 8, fun _ _ => 20, 0, 4⟩,
    rfl, by norm_num, by simp only [mapAlpha]; norm_num⟩


/-! ### the penalised likelihood never decreases (means-only relevance adaptation) -/

/-- the objective of MAP adaptation of the means with relevance factor `r`: total log-likelihood of
the adaptation data plus the log of the prior `N(prior mean, σ/r)` on every component mean (up to a constant) -/
noncomputable def C05_objective (r : ℝ) (ubm p : Params (C+1) D ℝ) (xs : List (Fin D → ℝ)) : ℝ :=
  lsum (xs.map (logLik p)) - mapPenalty r ubm p

/-- **one MAP iteration never decreases the relevance-penalised likelihood** (means-only adaptation,
Reynolds coefficient, no component below the count threshold).  Holds for the Spec and for the Code
variant of the M-step alike (they differ only in the variance blend, which is off here). -/
theorem C05_map_means_monotone (cfg : MapCfg (C+1) D ℝ) (ubm p : Params (C+1) D ℝ) (xs : List (Fin D → ℝ)) (hne : xs ≠ [])
    (hm : cfg.updMeans = true) (hv' : cfg.updVars = false) (hw' : cfg.updWeights = false) (hre : cfg.reynolds = true)
    (hr : 0 ≤ cfg.relevance) (hv : ∀ c d, 0 < p.variances c d)
    (hcount : ∀ c, cfg.countThr ≤ (eStep p xs).n c) :
    C05_objective cfg.relevance ubm p xs
        ≤ C05_objective cfg.relevance ubm (mapMStepSpec cfg ubm p (eStep p xs) (xs.length : ℝ)) xs
    ∧ C05_objective cfg.relevance ubm p xs
        ≤ C05_objective cfg.relevance ubm (mapMStepCode cfg ubm p (eStep p xs) (xs.length : ℝ)) xs :=
  ⟨map_means_monotone cfg ubm p xs hne _ hm hv' hw' hre hr hv hcount,
   map_means_monotone cfg ubm p xs hne _ hm hv' hw' hre hr hv hcount⟩

/-- any number of iterations: the penalised likelihood along the iterates is non-decreasing as long
as no component falls below the count threshold -/
theorem C05_map_means_monotone_iter (cfg : MapCfg (C+1) D ℝ) (ubm p : Params (C+1) D ℝ) (xs : List (Fin D → ℝ)) (hne : xs ≠ [])
    (hm : cfg.updMeans = true) (hv' : cfg.updVars = false) (hw' : cfg.updWeights = false) (hre : cfg.reynolds = true)
    (hr : 0 ≤ cfg.relevance) (hv : ∀ c d, 0 < p.variances c d)
    (hcount : ∀ k c, cfg.countThr ≤ (eStep ((fun q => mapMStepSpec cfg ubm q (eStep q xs) (xs.length : ℝ))^[k] p) xs).n c)
    (k : ℕ) :
    C05_objective cfg.relevance ubm p xs
      ≤ C05_objective cfg.relevance ubm ((fun q => mapMStepSpec cfg ubm q (eStep q xs) (xs.length : ℝ))^[k] p) xs := by
  set step := fun q => mapMStepSpec cfg ubm q (eStep q xs) (xs.length : ℝ) with hstep
  have hvar : ∀ j, (step^[j] p).variances = p.variances := by
    intro j
    induction j with
    | zero => rfl
    | succ j ih =>
      rw [Function.iterate_succ_apply']
      have hone : ∀ q : Params (C+1) D ℝ, (step q).variances = q.variances := by
        intro q; simp only [hstep, mapMStepSpec, mapMStepG, hv']; rfl
      rw [hone, ih]
  induction k with
  | zero => exact le_refl _
  | succ k ih =>
    rw [Function.iterate_succ_apply']
    have hvk : ∀ c d, 0 < (step^[k] p).variances c d := by rw [hvar k]; exact hv
    exact le_trans ih (C05_map_means_monotone cfg ubm (step^[k] p) xs hne hm hv' hw' hre hr hvk (hcount k)).1

/-- non-vacuity: a one-component configuration meeting every hypothesis of the monotonicity theorem -/
example : ∃ (cfg : MapCfg 1 1 ℝ) (p : Params 1 1 ℝ), cfg.updMeans = true ∧ cfg.updVars = false ∧ cfg.updWeights = false ∧
    cfg.reynolds = true ∧ 0 ≤ cfg.relevance ∧ (∀ c d, 0 < p.variances c d) :=
  ⟨⟨true, false, false, true, 4, 1/2, 0, fun _ _ => 0⟩, ⟨fun _ => 1, fun _ _ => 0, fun _ _ => 1⟩,
    rfl, rfl, rfl, rfl, by norm_num, by intro c d; norm_num⟩

/-! ### a MAP machine starts from its prior (defect D23) -/

/-- with the floors copied first, a MAP machine constructed from a prior whose variances respect the
prior's floors starts with exactly the prior's variances, whatever `mean_var_update_threshold` is -/
theorem C05_map_machine_starts_from_prior (t0 : ℝ) (uw : Fin C → ℝ) (um uv ut : Fin C → Fin D → ℝ)
    (hcoh : ∀ c d, ut c d ≤ uv c d) :
    (GState.mapInit true t0 uw um uv ut).variances = some uv ∧ (GState.mapInit true t0 uw um uv ut).means = some um
      ∧ (GState.mapInit true t0 uw um uv ut).weights = uw ∧ (GState.mapInit true t0 uw um uv ut).thresholds = ut := by
  simp only [GState.mapInit, if_true, GState.init, GState.setThresholds, GState.setMeans, GState.setVariances, GState.setWeights]
  simp only [and_true, Option.some.injEq]
  funext c d
  exact max_eq_right (hcoh c d)

/-- the pinned commit's order clamps the prior's variances at the count threshold: refuted by a witness -/
theorem C05_map_init_old_order_refuted :
    ∃ (t0 : ℝ) (uw : Fin 1 → ℝ) (um uv ut : Fin 1 → Fin 1 → ℝ), (∀ c d, ut c d ≤ uv c d) ∧
      (GState.mapInit false t0 uw um uv ut).variances ≠ some uv :=
  ⟨1, fun _ => 1, fun _ _ => 0, fun _ _ => 1/4, fun _ _ => 0, by intro c d; norm_num, by
    simp only [GState.mapInit, GState.init, GState.setThresholds, GState.setMeans, GState.setVariances, GState.setWeights]
    intro h
    have := congrFun (congrFun (Option.some.inj h) 0) 0
    norm_num at this⟩

/-- renumbering of the components, for the mixture, the statistics and the per-component floors -/
def BobEM.Params.relabelM {C D : ℕ} (p : Params C D ℝ) (σ : Equiv.Perm (Fin C)) : Params C D ℝ :=
  { weights := fun c => p.weights (σ c), means := fun c => p.means (σ c), variances := fun c => p.variances (σ c) }
def BobEM.Stats.relabelM {C D : ℕ} (st : Stats C D ℝ) (σ : Equiv.Perm (Fin C)) : Stats C D ℝ :=
  { n := fun c => st.n (σ c), sumPx := fun c => st.sumPx (σ c), sumPxx := fun c => st.sumPxx (σ c), ll := st.ll, t := st.t }
def BobEM.MapCfg.relabelM {C D : ℕ} (cfg : MapCfg C D ℝ) (σ : Equiv.Perm (Fin C)) : MapCfg C D ℝ :=
  { cfg with varFloor := fun c => cfg.varFloor (σ c) }

/-- MAP adaptation does not depend on how the components are numbered: the M-step on relabelled prior,
model, statistics and floors is the relabelled M-step — every switch combination, Reynolds or fixed
alpha, with or without evidence, Spec and Code form of the variance alike (the weight normaliser is a
sum over all components, hence invariant) -/
theorem C05_mstep_relabel_equivariant (sq : ℝ → ℝ) (cfg : MapCfg C D ℝ) (ubm p : Params C D ℝ) (st : Stats C D ℝ)
    (t : ℝ) (σ : Equiv.Perm (Fin C)) :
    mapMStepG sq (cfg.relabelM σ) (ubm.relabelM σ) (p.relabelM σ) (st.relabelM σ) t
      = (mapMStepG sq cfg ubm p st t).relabelM σ := by
  have hsum : sumFin C (mapRawWeight (cfg.relabelM σ) (ubm.relabelM σ) (st.relabelM σ) t)
      = sumFin C (mapRawWeight cfg ubm st t) := by
    rw [sumFin_eq, sumFin_eq]
    exact Equiv.sum_comp σ (mapRawWeight cfg ubm st t)
  have hw : mapWeights (cfg.relabelM σ) (ubm.relabelM σ) (p.relabelM σ) (st.relabelM σ) t
      = fun c => mapWeights cfg ubm p st t (σ c) := by
    unfold mapWeights
    rw [hsum]
    by_cases h : cfg.updWeights = true
    · simp only [MapCfg.relabelM, h, if_true]; rfl
    · simp only [MapCfg.relabelM, h]; rfl
  have hm : mapMeans (cfg.relabelM σ) (ubm.relabelM σ) (p.relabelM σ) (st.relabelM σ)
      = fun c => mapMeans cfg ubm p st (σ c) := by
    unfold mapMeans
    by_cases h : cfg.updMeans = true
    · simp only [MapCfg.relabelM, h, if_true]; rfl
    · simp only [MapCfg.relabelM, h]; rfl
  have hv : ∀ c d, mapRawVarG sq (cfg.relabelM σ) (ubm.relabelM σ) (p.relabelM σ) (st.relabelM σ) c d
      = mapRawVarG sq cfg ubm p st (σ c) d := by
    intro c d
    unfold mapRawVarG
    rw [hm]; rfl
  unfold mapMStepG
  rw [hw, hm]
  have hfl : (cfg.relabelM σ).varFloor = fun c => cfg.varFloor (σ c) := rfl
  have hu : (cfg.relabelM σ).updVars = cfg.updVars := rfl
  simp only [hv, hfl, hu]
  by_cases h : cfg.updVars = true
  · simp only [h, if_true]; rfl
  · simp only [h]; rfl
