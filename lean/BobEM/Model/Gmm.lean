import BobEM.Model.Basic
import BobEM.Model.Loop

namespace BobEM
section
variable {α : Type} [Add α] [Mul α] [Sub α] [Div α] [Neg α] [OfNat α 0] [OfNat α 1] [OfNat α 2]
  [Max α] [LT α] [DecidableLT α] [Transc α]


/-- np.logaddexp -/
def logaddexp (a b : α) : α := max a b + Transc.log (1 + Transc.exp (-(absv (a - b))))
/-- np.logaddexp.reduce over axis 0 (non-empty) -/
def logaddexpReduce (C : Nat) (a : Fin (C+1) → α) : α :=
  Fin.foldl C (fun acc i => logaddexp acc (a i.succ)) (a 0)

structure Params (C D : Nat) (α : Type) where
  weights : Fin C → α
  means : Fin C → Fin D → α
  variances : Fin C → Fin D → α

variable {C D : Nat}

def gNorm (p : Params C D α) (c : Fin C) : α :=
  sumFin D (fun _ => Transc.log (2 * Transc.pi)) + sumFin D (fun d => Transc.log (p.variances c d))

/-- gmm.py log_weighted_likelihood, one sample -/
def lwl (p : Params C D α) (x : Fin D → α) (c : Fin C) : α :=
  Transc.log (p.weights c) +
    (-(1 / 2 : α)) * (gNorm p c + sumFin D (fun d => (x d - p.means c d) * (x d - p.means c d) / p.variances c d))

def logLik (p : Params (C+1) D α) (x : Fin D → α) : α := logaddexpReduce C (lwl p x)

structure Stats (C D : Nat) (α : Type) where
  n : Fin C → α
  sumPx : Fin C → Fin D → α
  sumPxx : Fin C → Fin D → α
  ll : α
  t : Nat

def eStep (p : Params (C+1) D α) (xs : List (Fin D → α)) : Stats (C+1) D α :=
  let r := fun (x : Fin D → α) (c : Fin (C+1)) => Transc.exp (lwl p x c - logLik p x)
  { n := fun c => lsum (xs.map fun x => r x c)
    sumPx := fun c d => lsum (xs.map fun x => r x c * x d)
    sumPxx := fun c d => lsum (xs.map fun x => r x c * x d * x d)
    ll := lsum (xs.map (logLik p))
    t := xs.length }

/-- GMMStats.__add__ / __iadd__ (equal declared shapes) -/
def Stats.add (a b : Stats C D α) : Stats C D α :=
  { n := fun c => a.n c + b.n c
    sumPx := fun c d => a.sumPx c d + b.sumPx c d
    sumPxx := fun c d => a.sumPxx c d + b.sumPxx c d
    ll := a.ll + b.ll
    t := a.t + b.t }
/-- a freshly constructed GMMStats -/
def Stats.zero : Stats C D α :=
  { n := fun _ => 0, sumPx := fun _ _ => 0, sumPxx := fun _ _ => 0, ll := 0, t := 0 }
end
end BobEM

namespace BobEM
section
variable {α : Type} [Add α] [Mul α] [Sub α] [Div α] [Neg α] [OfNat α 0] [OfNat α 1] [OfNat α 2]
  [Max α] [LT α] [DecidableLT α] [Transc α] {C D : Nat}

structure MlCfg (C D : Nat) (α : Type) where
  updMeans : Bool
  updVars : Bool
  updWeights : Bool
  countThr : α
  varFloor : Fin C → Fin D → α

/-- a component whose count is below the count threshold keeps its mean (D25: the pinned commit divided
its partial sum by the threshold, which pulls the mean towards the origin) -/
def mlMeans (cfg : MlCfg C D α) (p : Params C D α) (st : Stats C D α) : Fin C → Fin D → α :=
  let tn : Fin C → α := fun c => max (st.n c) cfg.countThr
  if cfg.updMeans then fun c d => if st.n c < cfg.countThr then p.means c d else st.sumPx c d / tn c else p.means
/-- the means update of the pinned commit, kept for the refutation (`C15_ml_starved_old_refuted`) -/
def mlMeansOld (cfg : MlCfg C D α) (p : Params C D α) (st : Stats C D α) : Fin C → Fin D → α :=
  let tn : Fin C → α := fun c => max (st.n c) cfg.countThr
  if cfg.updMeans then fun c d => st.sumPx c d / tn c else p.means

/-- unclamped variance estimate (with the frozen-means repair) -/
def mlRawVar (cfg : MlCfg C D α) (p : Params C D α) (st : Stats C D α) (c : Fin C) (d : Fin D) : α :=
  let tn : Fin C → α := fun c => max (st.n c) cfg.countThr
  let mlm := st.sumPx c d / tn c
  st.sumPxx c d / tn c - mlm * mlm + (mlm - mlMeans cfg p st c d) * (mlm - mlMeans cfg p st c d)

/-- the variance estimate of the pinned commit (`sum_pxx/n − means²` with the machine's *current*
means): correct only when the means were just updated — defect D4, kept for the refutation -/
def mlRawVarOld (cfg : MlCfg C D α) (p : Params C D α) (st : Stats C D α) (c : Fin C) (d : Fin D) : α :=
  let tn : Fin C → α := fun c => max (st.n c) cfg.countThr
  st.sumPxx c d / tn c - mlMeans cfg p st c d * mlMeans cfg p st c d

/-- gmm.py ml_gmm_m_step (with the frozen-means repair and the no-data repair: a component below the
count threshold keeps its mean and variance), `t` = number of samples -/
def mlMStep (cfg : MlCfg C D α) (p : Params C D α) (st : Stats C D α) (t : α) : Params C D α :=
  let tn : Fin C → α := fun c => max (st.n c) cfg.countThr
  { weights := if cfg.updWeights then fun c => tn c / t else p.weights
    means := mlMeans cfg p st
    variances := if cfg.updVars then fun c d =>
                   max (cfg.varFloor c d) (if st.n c < cfg.countThr then p.variances c d else mlRawVar cfg p st c d)
                 else p.variances }
end
end BobEM

namespace BobEM
section
variable {α : Type} [Add α] [Mul α] [Sub α] [Div α] [Neg α] [OfNat α 0] [OfNat α 1] [OfNat α 2]
  [Max α] [LT α] [DecidableLT α] [Transc α] {C D : Nat}

structure MapCfg (C D : Nat) (α : Type) where
  updMeans : Bool
  updVars : Bool
  updWeights : Bool
  /-- `map_relevance_factor is not None` -/
  reynolds : Bool
  relevance : α
  alphaFixed : α
  countThr : α
  varFloor : Fin C → Fin D → α

/-- the data-dependent adaptation coefficient -/
def mapAlpha (cfg : MapCfg C D α) (st : Stats C D α) (c : Fin C) : α :=
  if cfg.reynolds then st.n c / (st.n c + cfg.relevance) else cfg.alphaFixed

/-- un-normalised adapted weights (Reynolds eq. 11) -/
def mapRawWeight (cfg : MapCfg C D α) (ubm : Params C D α) (st : Stats C D α) (t : α) (c : Fin C) : α :=
  mapAlpha cfg st c * (st.n c / t) + (1 - mapAlpha cfg st c) * ubm.weights c

def mapWeights (cfg : MapCfg C D α) (ubm p : Params C D α) (st : Stats C D α) (t : α) : Fin C → α :=
  if cfg.updWeights then fun c => mapRawWeight cfg ubm st t c / sumFin C (mapRawWeight cfg ubm st t)
  else p.weights

/-- adapted means (Reynolds eq. 12) with the no-evidence guard -/
def mapMeans (cfg : MapCfg C D α) (ubm p : Params C D α) (st : Stats C D α) : Fin C → Fin D → α :=
  if cfg.updMeans then fun c d =>
    let nthr := if st.n c < cfg.countThr then cfg.countThr else st.n c
    if st.n c < cfg.countThr then ubm.means c d
    else mapAlpha cfg st c * (st.sumPx c d / nthr) + (1 - mapAlpha cfg st c) * ubm.means c d
  else p.means

/-- adapted variance before the floor.  `sq` is the function applied to the prior mean inside the
prior's second moment: `fun m => m * m` is Reynolds eq. 13 (**Spec**), `fun m => m` is what the
pinned code computes (**Code**, defect D3). -/
def mapRawVarG (sq : α → α) (cfg : MapCfg C D α) (ubm p : Params C D α) (st : Stats C D α)
    (c : Fin C) (d : Fin D) : α :=
  let m' := mapMeans cfg ubm p st c d
  let prior2 := ubm.variances c d + sq (ubm.means c d)
  if st.n c < cfg.countThr then prior2 - m' * m'
  else mapAlpha cfg st c * st.sumPxx c d / st.n c + (1 - mapAlpha cfg st c) * prior2 - m' * m'

def mapMStepG (sq : α → α) (cfg : MapCfg C D α) (ubm p : Params C D α) (st : Stats C D α) (t : α) :
    Params C D α :=
  { weights := mapWeights cfg ubm p st t
    means := mapMeans cfg ubm p st
    variances := if cfg.updVars then fun c d => max (cfg.varFloor c d) (mapRawVarG sq cfg ubm p st c d)
                 else p.variances }

/-- gmm.py map_gmm_m_step as the property demands it (Reynolds et al. eq. 11–13) -/
def mapMStepSpec (cfg : MapCfg C D α) (ubm p : Params C D α) (st : Stats C D α) (t : α) : Params C D α :=
  mapMStepG (fun m => m * m) cfg ubm p st t
/-- gmm.py map_gmm_m_step as the pinned commit computes it (`ubm.variances + ubm.means`) -/
def mapMStepCode (cfg : MapCfg C D α) (ubm p : Params C D α) (st : Stats C D α) (t : α) : Params C D α :=
  mapMStepG (fun m => m) cfg ubm p st t
end
end BobEM

namespace BobEM
/-- A `GMMStats` object as Python sees it: *declared* shape plus untyped arrays.  `__add__`/`__iadd__`
refuse operands whose declared shapes differ. -/
structure RawStats (α : Type) where
  nG : Nat
  nF : Nat
  ll : α
  t : Nat
  n : Array α
  px : Array (Array α)
  pxx : Array (Array α)

def RawStats.add? {α : Type} [Add α] (a b : RawStats α) : Option (RawStats α) :=
  if a.nG ≠ b.nG ∨ a.nF ≠ b.nF then none
  else some { nG := a.nG, nF := a.nF, ll := a.ll + b.ll, t := a.t + b.t
              n := Array.zipWith (· + ·) a.n b.n
              px := Array.zipWith (Array.zipWith (· + ·)) a.px b.px
              pxx := Array.zipWith (Array.zipWith (· + ·)) a.pxx b.pxx }
end BobEM

namespace BobEM
section
variable {α : Type} [Add α] [Mul α] [Sub α] [Div α] [Neg α] [OfNat α 0] [OfNat α 1] [OfNat α 2]
  [Max α] [LT α] [DecidableLT α] [LE α] [DecidableLE α] [Transc α] {C D : Nat}

/-- one iteration of `GMMMachine.fit` (ML): E-step, M-step, and the reported criterion = average
log-likelihood of the parameters *entering* the iteration -/
def gmmMlIter (cfg : MlCfg (C+1) D α) (xs : List (Fin D → α)) (p : Params (C+1) D α) : Params (C+1) D α × α :=
  let st := eStep p xs
  (mlMStep cfg p st (Transc.ofNat st.t), st.ll / Transc.ofNat st.t)

/-- `GMMMachine.fit` (ML, parameters already initialised): `fuel` is `max_fitting_steps` (or any
bound when it is `None`), the criterion before the first iteration is `0` as in the code.
Returns the final parameters and the number of iterations performed. -/
def gmmMlFit (cfg : MlCfg (C+1) D α) (thr : Option α) (fuel : Nat) (p0 : Params (C+1) D α)
    (xs : List (Fin D → α)) : Params (C+1) D α × Nat :=
  emLoop (gmmMlIter cfg xs) (convStop thr) fuel 0 0 p0

/-- the loop replayed on a *recorded* criterion sequence `L₁ L₂ …` (state = number of iterations
done): what the correspondence runs on the implementation's observed trajectory -/
def stopIndex (thr : Option α) (fuel : Nat) (crit : Array α) : Nat :=
  (emLoop (fun (i : Nat) => (i + 1, crit.getD i 0)) (convStop thr) fuel 0 0 0).2
end
end BobEM

namespace BobEM
section
variable {α : Type} [Add α] [Mul α] [Sub α] [Div α] [Neg α] [OfNat α 0] [OfNat α 1] [OfNat α 2]
  [Max α] [LT α] [DecidableLT α] [LE α] [DecidableLE α] [Transc α] {C D : Nat}

/-- `functools.reduce(operator.iadd, statistics)`: the first element accumulates the others -/
def reduceIadd : List (Stats C D α) → Stats C D α
  | [] => Stats.zero
  | s :: rest => rest.foldl Stats.add s

/-- one iteration of `GMMMachine.fit` on a Dask array: one `e_step` task per row block, then one
`m_step` task that reduces the statistics and updates the machine -/
def gmmMlIterBlocks (cfg : MlCfg (C+1) D α) (blocks : List (List (Fin D → α))) (p : Params (C+1) D α) :
    Params (C+1) D α × α :=
  let st := reduceIadd (blocks.map (eStep p))
  (mlMStep cfg p st (Transc.ofNat st.t), st.ll / Transc.ofNat st.t)
def gmmMlFitBlocks (cfg : MlCfg (C+1) D α) (thr : Option α) (fuel : Nat) (p0 : Params (C+1) D α)
    (blocks : List (List (Fin D → α))) : Params (C+1) D α × Nat :=
  emLoop (gmmMlIterBlocks cfg blocks) (convStop thr) fuel 0 0 p0

/-- MAP training: in-memory and per-block iterations (`sq` selects the Spec / Code variance blend) -/
def gmmMapIter (sq : α → α) (cfg : MapCfg (C+1) D α) (ubm : Params (C+1) D α) (xs : List (Fin D → α))
    (p : Params (C+1) D α) : Params (C+1) D α × α :=
  let st := eStep p xs
  (mapMStepG sq cfg ubm p st (Transc.ofNat st.t), st.ll / Transc.ofNat st.t)
def gmmMapIterBlocks (sq : α → α) (cfg : MapCfg (C+1) D α) (ubm : Params (C+1) D α)
    (blocks : List (List (Fin D → α))) (p : Params (C+1) D α) : Params (C+1) D α × α :=
  let st := reduceIadd (blocks.map (eStep p))
  (mapMStepG sq cfg ubm p st (Transc.ofNat st.t), st.ll / Transc.ofNat st.t)
end
end BobEM
