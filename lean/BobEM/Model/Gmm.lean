import BobEM.Model.Basic

namespace BobEM
section
variable {α : Type} [Add α] [Mul α] [Sub α] [Div α] [Neg α] [OfNat α 0] [OfNat α 1] [OfNat α 2]
  [Max α] [LT α] [DecidableLT α] [Transc α]


def absv (a : α) : α := if a < 0 then -a else a
/-- np.logaddexp -/
def logaddexp (a b : α) : α := max a b + Transc.log (1 + Transc.exp (-(absv (a - b))))
/-- np.logaddexp.reduce over axis 0 (non-empty) -/
def logaddexpReduce (C : Nat) (a : Fin (C+1) → α) : α :=
  Fin.foldl C (fun acc i => logaddexp acc (a i.succ)) (a 0)

structure Params (C D : Nat) (α : Type) where
  weights : Fin C → α
  means : Fin C → Fin D → α
  variances : Fin C → Fin D → α

variable {C D : Nat}

def gNorm (p : Params C D α) (c : Fin C) : α :=
  sumFin D (fun _ => Transc.log (2 * Transc.pi)) + sumFin D (fun d => Transc.log (p.variances c d))

/-- gmm.py log_weighted_likelihood, one sample -/
def lwl (p : Params C D α) (x : Fin D → α) (c : Fin C) : α :=
  Transc.log (p.weights c) +
    (-(1 / 2 : α)) * (gNorm p c + sumFin D (fun d => (x d - p.means c d) * (x d - p.means c d) / p.variances c d))

def logLik (p : Params (C+1) D α) (x : Fin D → α) : α := logaddexpReduce C (lwl p x)

structure Stats (C D : Nat) (α : Type) where
  n : Fin C → α
  sumPx : Fin C → Fin D → α
  sumPxx : Fin C → Fin D → α
  ll : α

def eStep (p : Params (C+1) D α) (xs : List (Fin D → α)) : Stats (C+1) D α :=
  let r := fun (x : Fin D → α) (c : Fin (C+1)) => Transc.exp (lwl p x c - logLik p x)
  { n := fun c => lsum (xs.map fun x => r x c)
    sumPx := fun c d => lsum (xs.map fun x => r x c * x d)
    sumPxx := fun c d => lsum (xs.map fun x => r x c * x d * x d)
    ll := lsum (xs.map (logLik p)) }
end
end BobEM

namespace BobEM
section
variable {α : Type} [Add α] [Mul α] [Sub α] [Div α] [Neg α] [OfNat α 0] [OfNat α 1] [OfNat α 2]
  [Max α] [LT α] [DecidableLT α] [Transc α] {C D : Nat}

structure MlCfg (C D : Nat) (α : Type) where
  updMeans : Bool
  updVars : Bool
  updWeights : Bool
  countThr : α
  varFloor : Fin C → Fin D → α

def mlMeans (cfg : MlCfg C D α) (p : Params C D α) (st : Stats C D α) : Fin C → Fin D → α :=
  let tn : Fin C → α := fun c => max (st.n c) cfg.countThr
  if cfg.updMeans then fun c d => st.sumPx c d / tn c else p.means

/-- unclamped variance estimate (with the frozen-means repair) -/
def mlRawVar (cfg : MlCfg C D α) (p : Params C D α) (st : Stats C D α) (c : Fin C) (d : Fin D) : α :=
  let tn : Fin C → α := fun c => max (st.n c) cfg.countThr
  let mlm := st.sumPx c d / tn c
  st.sumPxx c d / tn c - mlm * mlm + (mlm - mlMeans cfg p st c d) * (mlm - mlMeans cfg p st c d)

/-- gmm.py ml_gmm_m_step (with the frozen-means repair), `t` = number of samples -/
def mlMStep (cfg : MlCfg C D α) (p : Params C D α) (st : Stats C D α) (t : α) : Params C D α :=
  let tn : Fin C → α := fun c => max (st.n c) cfg.countThr
  { weights := if cfg.updWeights then fun c => tn c / t else p.weights
    means := mlMeans cfg p st
    variances := if cfg.updVars then fun c d => max (cfg.varFloor c d) (mlRawVar cfg p st c d)
                 else p.variances }
end
end BobEM
