-- ivector.py pairwise reduction model (import-free part)
namespace BobEM
/-- one level of `while len(stats) > 1`: stats[i] + stats[len//2 + i] for i < len//2, and the last
element carried over when the length is odd -/
def treeLevel {σ : Type} (add : σ → σ → σ) (l : List σ) : List σ :=
  let h := l.length / 2
  List.zipWith add (l.take h) (l.drop h) ++ l.drop (2 * h)

def treeReduce {σ : Type} (add : σ → σ → σ) : Nat → List σ → List σ
  | 0, l => l
  | fuel+1, l => if l.length > 1 then treeReduce add fuel (treeLevel add l) else l
end BobEM
