import BobEM.Model.Basic
/-!
HDF5 persistence of `GMMMachine` and `GMMStats` (C18), S-layer model.

An HDF5 file is a finite map from dataset names to typed values; what h5py does to Python values is
part of the contract: a Python `str` is stored and comes back as `bytes`; `None` cannot be stored
(an absent dataset means "not set"); arrays and scalars come back with the values written.
The model follows `gmm.py: GMMMachine.save / from_hdf5 / load` and `GMMStats.save / from_hdf5 / load`
(with the repairs D5, D5b, D21 — see DESIGN.md §4).
-/
namespace BobEM.H5

/-- variance floors as the user may set them: scalar, per feature, or full -/
inductive Thr (C D : Nat) (α : Type) where
  | scalar (x : α)
  | row (r : Fin D → α)
  | full (m : Fin C → Fin D → α)

/-- NumPy broadcasting of the floors against a (C, D) array -/
def Thr.bc {C D : Nat} {α : Type} : Thr C D α → Fin C → Fin D → α
  | .scalar x => fun _ _ => x
  | .row r => fun _ d => r d
  | .full m => m

inductive Val (C D : Nat) (α : Type) where
  | int (n : Nat)
  | float (x : α)
  | bool (b : Bool)
  /-- what a Python `str` becomes in the file (and what reading it returns) -/
  | bytes (s : String)
  | vecC (v : Fin C → α)
  | matCD (m : Fin C → Fin D → α)
  | thr (t : Thr C D α)

abbrev File (C D : Nat) (α : Type) := List (String × Val C D α)

def File.get? {C D : Nat} {α : Type} (f : File C D α) (k : String) : Option (Val C D α) :=
  (f.find? fun e => e.1 == k).map (·.2)

structure Machine (C D : Nat) (α : Type) where
  trainer : String
  convThr : Option α
  maxSteps : Option Nat
  weights : Fin C → α
  means : Fin C → Fin D → α
  variances : Fin C → Fin D → α
  thresholds : Thr C D α
  updMeans : Bool
  updVars : Bool
  updWeights : Bool
  /-- identity of the prior machine held by a MAP machine (only its presence matters here) -/
  ubm : Option Nat

inductive Err where
  | needsUbm
  | missing (k : String)
  | badType (k : String)
  deriving DecidableEq, Repr

section
variable {C D : Nat} {α : Type}

/-- `GMMMachine.save` -/
def save (m : Machine C D α) : File C D α :=
  [("n_gaussians", .int C), ("trainer", .bytes m.trainer)]
  ++ (match m.convThr with | some t => [("convergence_threshold", .float t)] | none => [])
  ++ (match m.maxSteps with | some k => [("max_fitting_steps", .int k)] | none => [])
  ++ [("weights", .vecC m.weights), ("update_means", .bool m.updMeans), ("update_variances", .bool m.updVars),
      ("update_weights", .bool m.updWeights), ("gaussians/means", .matCD m.means),
      ("gaussians/variances", .matCD m.variances), ("gaussians/variance_thresholds", .thr m.thresholds)]

def getBytes (f : File C D α) (k : String) : Except Err String :=
  match f.get? k with | some (.bytes s) => .ok s | some _ => .error (.badType k) | none => .error (.missing k)
def getBool (f : File C D α) (k : String) : Except Err Bool :=
  match f.get? k with | some (.bool b) => .ok b | some _ => .error (.badType k) | none => .error (.missing k)
def getVec (f : File C D α) (k : String) : Except Err (Fin C → α) :=
  match f.get? k with | some (.vecC v) => .ok v | some _ => .error (.badType k) | none => .error (.missing k)
def getMat (f : File C D α) (k : String) : Except Err (Fin C → Fin D → α) :=
  match f.get? k with | some (.matCD v) => .ok v | some _ => .error (.badType k) | none => .error (.missing k)
def getThr (f : File C D α) (k : String) : Except Err (Thr C D α) :=
  match f.get? k with | some (.thr v) => .ok v | some _ => .error (.badType k) | none => .error (.missing k)
def getOptFloat (f : File C D α) (k : String) : Except Err (Option α) :=
  match f.get? k with | some (.float x) => .ok (some x) | some _ => .error (.badType k) | none => .ok none
def getOptInt (f : File C D α) (k : String) : Except Err (Option Nat) :=
  match f.get? k with | some (.int x) => .ok (some x) | some _ => .error (.badType k) | none => .ok none

/-- `GMMMachine.from_hdf5(file, ubm)` for a current-format file.  The constructor normalises an
unknown trainer to `"ml"`; a MAP file needs a UBM; floors are installed before the variances, so
the variance setter clamps against the *stored* floors. -/
def fromFile [Max α] (f : File C D α) (ubm : Option Nat) : Except Err (Machine C D α) :=
  match getBytes f "trainer" with
  | .error e => .error e
  | .ok tr =>
    if tr == "map" && ubm.isNone then .error .needsUbm else
    match getOptFloat f "convergence_threshold", getOptInt f "max_fitting_steps", getVec f "weights",
        getBool f "update_means", getBool f "update_variances", getBool f "update_weights",
        getMat f "gaussians/means", getMat f "gaussians/variances", getThr f "gaussians/variance_thresholds" with
    | .ok conv, .ok ms, .ok w, .ok um, .ok uv, .ok uw, .ok m, .ok v, .ok t =>
      .ok { trainer := if tr == "ml" || tr == "map" then tr else "ml", convThr := conv, maxSteps := ms,
            weights := w, means := m, variances := fun c d => max (t.bc c d) (v c d), thresholds := t,
            updMeans := um, updVars := uv, updWeights := uw, ubm := ubm }
    | _, _, _, _, _, _, _, _, _ => .error (.missing "dataset")

/-- `GMMMachine.load`: every attribute of the receiver is replaced; its own UBM is the one offered -/
def load [Max α] {C' D' : Nat} (self : Machine C' D' α) (f : File C D α) : Except Err (Machine C D α) :=
  fromFile f self.ubm

/-! ### statistics -/
structure StatsRec (C D : Nat) (α : Type) where
  ll : α
  t : Nat
  n : Fin C → α
  px : Fin C → Fin D → α
  pxx : Fin C → Fin D → α

def saveStats (s : StatsRec C D α) : File C D α :=
  [("n_gaussians", .int C), ("n_features", .int D), ("log_likelihood", .float s.ll), ("T", .int s.t),
   ("n", .vecC s.n), ("sumPx", .matCD s.px), ("sumPxx", .matCD s.pxx)]

def statsFromFile (f : File C D α) : Except Err (StatsRec C D α) :=
  match f.get? "log_likelihood", f.get? "T", getVec f "n", getMat f "sumPx", getMat f "sumPxx" with
  | some (.float ll), some (.int t), .ok n, .ok px, .ok pxx => .ok { ll := ll, t := t, n := n, px := px, pxx := pxx }
  | _, _, _, _, _ => .error (.missing "dataset")

/-- `GMMStats.load` into an object of any shape: the receiver is resized and overwritten -/
def loadStats {C' D' : Nat} (_self : StatsRec C' D' α) (f : File C D α) : Except Err (StatsRec C D α) :=
  statsFromFile f

/-! ### legacy machine files (`m_n_gaussians`, `m_weights`, `m_gaussians<i>/…`) -/
structure Legacy (C D : Nat) (α : Type) where
  weights : Fin C → α
  mean : Fin C → Fin D → α
  variance : Fin C → Fin D → α
  varThr : Fin C → Fin D → α

def legacyEncode (m : Machine C D α) : Legacy C D α :=
  { weights := m.weights, mean := m.means, variance := m.variances, varThr := m.thresholds.bc }

/-- legacy reader: default constructor settings, parameters from the per-Gaussian groups -/
def fromLegacy [Max α] (l : Legacy C D α) (ubm : Option Nat) (defThr : α) (defSteps : Nat) : Machine C D α :=
  { trainer := "ml", convThr := some defThr, maxSteps := some defSteps, weights := l.weights, means := l.mean,
    variances := fun c d => max (l.varThr c d) (l.variance c d), thresholds := .full l.varThr,
    updMeans := true, updVars := false, updWeights := false, ubm := ubm }
end
end BobEM.H5
