import BobEM.Model.Basic
/-!
`whitening.py` and `wccn.py`.  Data are an `N × D` array (`Fin N → Fin D → α`), labels are Python
ints.  The Cholesky routine (`scipy.linalg.cholesky(lower=True)` / `dask.array.linalg.cholesky`)
is an explicit parameter `chol`; the inverse is `LinAlg.inv`.  With `numerical_module` = NumPy or
Dask the same formulas are evaluated, so the model has a single definition for both.
-/
namespace BobEM.Lin
open BobEM (sumFin lsum)
section
variable {α : Type} [Add α] [Mul α] [Sub α] [Div α] [OfNat α 0] [OfNat α 1] [Transc α] [LinAlg α]
variable {N D : Nat}

/-- `mean(X, axis=0)` -/
def colMean (X : Fin N → Fin D → α) : Fin D → α := fun d => sumFin N (fun n => X n d) / Transc.ofNat N
/-- `np.cov(X.T)`: unbiased sample covariance -/
def covMat (X : Fin N → Fin D → α) : Fin D → Fin D → α := fun a b =>
  sumFin N (fun n => (X n a - colMean X a) * (X n b - colMean X b)) / (Transc.ofNat N - 1)

structure Proj (D : Nat) (α : Type) where
  weights : Fin D → Fin D → α
  subtract : Fin D → α

/-- `Whitening.fit` -/
def whitenFit (chol : (n : Nat) → (Fin n → Fin n → α) → Fin n → Fin n → α) (X : Fin N → Fin D → α) : Proj D α :=
  { weights := chol D (LinAlg.inv D (covMat X)), subtract := colMean X }
/-- `transform` of one row: `(x − subtract) @ weights` -/
def project (p : Proj D α) (x : Fin D → α) : Fin D → α := fun b => sumFin D fun a => (x a - p.subtract a) * p.weights a b

/-- number of samples carrying label `l` -/
def classCount (y : Fin N → Int) (l : Int) : Nat := (List.finRange N).countP fun n => y n = l
/-- mean of the samples carrying label `l` -/
def classMean (X : Fin N → Fin D → α) (y : Fin N → Int) (l : Int) : Fin D → α := fun d =>
  sumFin N (fun n => if y n = l then X n d else 0) / Transc.ofNat (classCount y l)
/-- scatter of class `l` about its own mean -/
def classScatter (X : Fin N → Fin D → α) (y : Fin N → Int) (l : Int) : Fin D → Fin D → α := fun a b =>
  sumFin N fun n => if y n = l then (X n a - classMean X y l a) * (X n b - classMean X y l b) else 0
/-- within-class scatter: sum over the label set in its enumeration order (`set(y)`), each class
about the mean stored at the *same position* (the pinned commit looked the mean up by label value:
defect D6) -/
def withinScatter (X : Fin N → Fin D → α) (y : Fin N → Int) (classes : List Int) : Fin D → Fin D → α := fun a b =>
  lsum (classes.map fun l => classScatter X y l a b)
/-- `(1 / n_classes) * Sw` -/
def scaledScatter (X : Fin N → Fin D → α) (y : Fin N → Int) (classes : List Int) : Fin D → Fin D → α := fun a b =>
  (1 / Transc.ofNat classes.length) * withinScatter X y classes a b
/-- `WCCN.fit` -/
def wccnFit (chol : (n : Nat) → (Fin n → Fin n → α) → Fin n → Fin n → α) (X : Fin N → Fin D → α)
    (y : Fin N → Int) (classes : List Int) : Proj D α :=
  { weights := chol D (LinAlg.inv D (scaledScatter X y classes)), subtract := fun _ => 0 }

/-! #### Exec form: every intermediate array is evaluated once (an ndarray), as NumPy / Dask do -/
structure ProjV (D : Nat) (α : Type) where
  weights : Vector (Vector α D) D
  subtract : Vector α D
def ProjV.toProj (p : ProjV D α) : Proj D α := { weights := fun a b => p.weights[a][b], subtract := fun a => p.subtract[a] }
def whitenFitV (chol : (n : Nat) → (Fin n → Fin n → α) → Fin n → Fin n → α) (X : Fin N → Fin D → α) : ProjV D α :=
  let mean : Vector α D := Vector.ofFn (colMean X)
  let cov : Vector (Vector α D) D := Vector.ofFn fun a => Vector.ofFn fun b =>
    sumFin N (fun n => (X n a - mean[a]) * (X n b - mean[b])) / (Transc.ofNat N - 1)
  let inv : Vector (Vector α D) D := Vector.ofFn fun a => Vector.ofFn fun b => LinAlg.inv D (fun i j => cov[i][j]) a b
  { weights := Vector.ofFn fun a => Vector.ofFn fun b => chol D (fun i j => inv[i][j]) a b, subtract := mean }
def wccnFitV (chol : (n : Nat) → (Fin n → Fin n → α) → Fin n → Fin n → α) (X : Fin N → Fin D → α)
    (y : Fin N → Int) (classes : List Int) : ProjV D α :=
  let sw : Vector (Vector α D) D := Vector.ofFn fun a => Vector.ofFn fun b => scaledScatter X y classes a b
  let inv : Vector (Vector α D) D := Vector.ofFn fun a => Vector.ofFn fun b => LinAlg.inv D (fun i j => sw[i][j]) a b
  { weights := Vector.ofFn fun a => Vector.ofFn fun b => chol D (fun i j => inv[i][j]) a b, subtract := Vector.ofFn fun _ => 0 }
end
end BobEM.Lin
