import BobEM.Model.Basic
import BobEM.Model.Loop
/-! k-means (`kmeans.py`): distances, assignment, E-step, M-step, fit loop, cluster variances and
weights, and the GMM initialisation derived from them.  Import-free and polymorphic in the scalar. -/
namespace BobEM
section
variable {α : Type} [Add α] [Mul α] [Sub α] [Div α] [Neg α] [OfNat α 0] [OfNat α 1] [LT α] [DecidableLT α]
  [LE α] [DecidableLE α] [Max α] [Transc α]

/-- np.argmin over axis 0: first index of a minimum -/
def argminFin (K : Nat) (d : Fin (K+1) → α) : Fin (K+1) :=
  Fin.foldl K (fun best i => if d i.succ < d best then i.succ else best) 0

/-- squared Euclidean distance (`cdist(..., 'sqeuclidean')`) -/
def sqDist {D : Nat} (x c : Fin D → α) : α := sumFin D fun j => (x j - c j) * (x j - c j)
/-- the per-centroid Dask form `np.sum((means[i] - x) ** 2, axis=-1)` -/
def sqDistDask {D : Nat} (x c : Fin D → α) : α := sumFin D fun j => (c j - x j) * (c j - x j)

variable {K D : Nat}
/-- `get_centroids_distance`: one row per centroid, one column per sample -/
def distances (cent : Fin (K+1) → Fin D → α) (xs : List (Fin D → α)) : Fin (K+1) → List α :=
  fun k => xs.map fun x => sqDist x (cent k)
/-- `get_closest_centroid_index` for one sample -/
def assign (cent : Fin (K+1) → Fin D → α) (x : Fin D → α) : Fin (K+1) :=
  argminFin K (fun k => sqDist x (cent k))
/-- `predict` -/
def predict (cent : Fin (K+1) → Fin D → α) (xs : List (Fin D → α)) : List (Fin (K+1)) := xs.map (assign cent)

/-- kmeans.e_step on one block: counts (`np.bincount`), per-cluster sums, and the **sum** of the
minimum distances (the pinned commit returned their per-block *mean*: defect D1) -/
structure KStats (K D : Nat) (α : Type) where
  n : Fin K → Nat
  sums : Fin K → Fin D → α
  dist : α

def kEStep (cent : Fin (K+1) → Fin D → α) (xs : List (Fin D → α)) : KStats (K+1) D α :=
  { n := fun k => xs.countP fun x => assign cent x = k
    sums := fun k j => lsum (xs.map fun x => if assign cent x = k then x j else 0)
    dist := lsum (xs.map fun x => sqDist x (cent (assign cent x))) }

def KStats.add (a b : KStats K D α) : KStats K D α :=
  { n := fun k => a.n k + b.n k, sums := fun k j => a.sums k j + b.sums k j, dist := a.dist + b.dist }
def KStats.zero : KStats K D α := { n := fun _ => 0, sums := fun _ _ => 0, dist := 0 }

/-- kmeans.m_step: centroid = sum / count; a cluster that attracted no sample keeps its centroid
(the pinned commit divided 0/0: defect D2); criterion = distance sum / number of samples -/
def kMStep (cent : Fin K → Fin D → α) (st : KStats K D α) (nSamples : Nat) : (Fin K → Fin D → α) × α :=
  (fun k j => if st.n k = 0 then cent k j else st.sums k j / Transc.ofNat (st.n k),
   st.dist / Transc.ofNat nSamples)

/-- one iteration of `KMeansMachine.fit` on row blocks (one block = NumPy input) -/
def kIter (blocks : List (List (Fin D → α))) (cent : Fin (K+1) → Fin D → α) : (Fin (K+1) → Fin D → α) × α :=
  kMStep cent ((blocks.map (kEStep cent)).foldl KStats.add KStats.zero) blocks.flatten.length

/-- `KMeansMachine.fit` after initialisation: returns the centroids and the number of iterations;
the reported `average_min_distance` is the criterion of the last iteration -/
def kFit (thr : Option α) (fuel : Nat) (c0 : α) (cent0 : Fin (K+1) → Fin D → α)
    (blocks : List (List (Fin D → α))) : (Fin (K+1) → Fin D → α) × Nat :=
  emLoop (kIter blocks) (convStop thr) fuel 0 c0 cent0

/-- the pinned commit's criterion: per-block *means* summed, divided by the total count (D1) -/
def kCritOld (cent : Fin (K+1) → Fin D → α) (blocks : List (List (Fin D → α))) : α :=
  lsum (blocks.map fun b => (kEStep cent b).dist / Transc.ofNat b.length) / Transc.ofNat blocks.flatten.length

/-- `accumulate_indices_means_vars` on one block: assignments, and per cluster the sums of the
deviations from the assigned centroid and of their squares (the pinned commit accumulated raw
`x` and `x²`, which cancels catastrophically far from the origin: defect D20) -/
structure VStats (K D : Nat) (α : Type) where
  cnt : Fin K → Nat
  msum : Fin K → Fin D → α
  vsum : Fin K → Fin D → α

def vAccum (cent : Fin (K+1) → Fin D → α) (xs : List (Fin D → α)) : VStats (K+1) D α :=
  { cnt := fun k => xs.countP fun x => assign cent x = k
    msum := fun k j => lsum (xs.map fun x => if assign cent x = k then x j - cent k j else 0)
    vsum := fun k j => lsum (xs.map fun x => if assign cent x = k then (x j - cent k j) * (x j - cent k j) else 0) }
def VStats.add (a b : VStats K D α) : VStats K D α :=
  { cnt := fun k => a.cnt k + b.cnt k, msum := fun k j => a.msum k j + b.msum k j, vsum := fun k j => a.vsum k j + b.vsum k j }
def VStats.zero : VStats K D α := { cnt := fun _ => 0, msum := fun _ _ => 0, vsum := fun _ _ => 0 }

/-- `reduce_indices_means_vars`: weights = assigned fractions, variances = E[dev²] − E[dev]² -/
def vReduce (st : VStats K D α) : (Fin K → Fin D → α) × (Fin K → α) :=
  let total := sumFin K fun k => (Transc.ofNat (st.cnt k) : α)
  let safe := fun k => if st.cnt k = 0 then (1 : α) else Transc.ofNat (st.cnt k)
  (fun k j => st.vsum k j / safe k - (st.msum k j / safe k) * (st.msum k j / safe k),
   fun k => Transc.ofNat (st.cnt k) / total)

/-- `get_variances_and_weights_for_each_cluster` on row blocks -/
def varsWeights (cent : Fin (K+1) → Fin D → α) (blocks : List (List (Fin D → α))) :
    (Fin (K+1) → Fin D → α) × (Fin (K+1) → α) :=
  vReduce ((blocks.map (vAccum cent)).foldl VStats.add VStats.zero)

/-- `GMMMachine.initialize_gaussians` (ML): means = centroids, variances = cluster variances
clamped at the machine's floors by the setter, weights = cluster weights -/
structure GmmInit (K D : Nat) (α : Type) where
  weights : Fin K → α
  means : Fin K → Fin D → α
  variances : Fin K → Fin D → α
def gmmInitFromKMeans (cent : Fin (K+1) → Fin D → α) (blocks : List (List (Fin D → α)))
    (floor : Fin (K+1) → Fin D → α) : GmmInit (K+1) D α :=
  let vw := varsWeights cent blocks
  { weights := vw.2, means := cent, variances := fun k j => max (floor k j) (vw.1 k j) }
end
end BobEM
