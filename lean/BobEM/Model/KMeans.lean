import BobEM.Model.Basic
-- k-means kernel probe (import-free)
namespace BobEM
section
variable {α : Type} [Add α] [Mul α] [Sub α] [Div α] [OfNat α 0] [OfNat α 1] [LT α] [DecidableLT α]


/-- np.argmin over axis 0: first index of a minimum -/
def argminFin (K : Nat) (d : Fin (K+1) → α) : Fin (K+1) :=
  Fin.foldl K (fun best i => if d i.succ < d best then i.succ else best) 0

def sqDist {D : Nat} (x c : Fin D → α) : α := sumFin D fun j => (x j - c j) * (x j - c j)

/-- kmeans.e_step on one block: counts, sums, sum of min distances (D1 repair) -/
structure KStats (K D : Nat) (α : Type) where
  n : Fin K → α
  sums : Fin K → Fin D → α
  dist : α

def kEStep {K D : Nat} (cent : Fin (K+1) → Fin D → α) (xs : List (Fin D → α)) : KStats (K+1) D α :=
  let a := fun x => argminFin K (fun k => sqDist x (cent k))
  { n := fun k => lsum (xs.map fun x => if a x = k then 1 else 0)
    sums := fun k j => lsum (xs.map fun x => if a x = k then x j else 0)
    dist := lsum (xs.map fun x => sqDist x (cent (a x))) }
end
end BobEM
