/-!
Random-number plumbing (C16): which generator each trainer draws from.  NumPy's global generator is
tracked symbolically (last seed, numbers drawn since); a trainer either reseeds the global generator
with its integer `random_state` and draws from it (`FactorAnalysisBase.create_UVD`), or builds a
local generator from `random_state` (`KMeansMachine`, hence `GMMMachine`'s initialisation), or draws
from the global generator as it finds it (`IVectorMachine`, which has no `random_state`).
What a fit returns is a function of its *provenance*: (estimator, configuration, data, the generator
state its draws start from).
-/
namespace BobEM.Rng

/-- symbolic state of the global generator; `seed = none`: never seeded in this process -/
structure G where
  seed : Option Nat
  drawn : Nat
  deriving DecidableEq, Repr

inductive Source where
  /-- `np.random.seed(random_state)` then global draws (ISV, JFA) -/
  | reseedGlobal
  /-- `RandomState(random_state)` / `check_random_state`: a private generator (k-means, GMM) -/
  | localGen
  /-- global draws without seeding (i-vector) -/
  | globalAsIs
  /-- no randomness at all (WCCN, whitening, explicit initial parameters) -/
  | none
  deriving DecidableEq, Repr

structure Fit where
  est : Nat
  cfg : Nat
  data : Nat
  randomState : Option Nat
  source : Source
  draws : Nat
  deriving DecidableEq, Repr

inductive Op where
  | globalSeed (s : Nat)
  | globalDraw (n : Nat)
  | fit (f : Fit)
  deriving DecidableEq, Repr

/-- what determines the result of a fit -/
structure Key where
  est : Nat
  cfg : Nat
  data : Nat
  /-- generator state the draws start from (`none` for deterministic trainers) -/
  gen : Option G
  deriving DecidableEq, Repr

/-- provenance of a fit started in global state `g`, and the global state it leaves behind -/
def runFit (g : G) (f : Fit) : Key × G :=
  match f.source, f.randomState with
  | .reseedGlobal, some s => (⟨f.est, f.cfg, f.data, some ⟨some s, 0⟩⟩, ⟨some s, f.draws⟩)
  | .reseedGlobal, none => (⟨f.est, f.cfg, f.data, some g⟩, ⟨g.seed, g.drawn + f.draws⟩)
  | .localGen, some s => (⟨f.est, f.cfg, f.data, some ⟨some s, 0⟩⟩, g)
  | .localGen, none => (⟨f.est, f.cfg, f.data, some g⟩, ⟨g.seed, g.drawn + f.draws⟩)
  | .globalAsIs, _ => (⟨f.est, f.cfg, f.data, some g⟩, ⟨g.seed, g.drawn + f.draws⟩)
  | .none, _ => (⟨f.est, f.cfg, f.data, none⟩, g)

def step (g : G) : Op → G
  | .globalSeed s => ⟨some s, 0⟩
  | .globalDraw n => ⟨g.seed, g.drawn + n⟩
  | .fit f => (runFit g f).2

/-- provenance keys of every fit of a history, in order -/
def keys (g : G) : List Op → List (Option Key)
  | [] => []
  | op :: rest =>
    (match op with | .fit f => some (runFit g f).1 | _ => none) :: keys (step g op) rest
end BobEM.Rng
