-- ISV/JFA enrolment + scoring kernel probe (import-free, polymorphic)
import BobEM.Model.Basic
open BobEM (sumFin lsum)

namespace BobEM.FA
/-- Tabulate a function once (semantically the identity; operationally a cache). Without it a
`Fin n → α` closure is re-evaluated at every access and iterative models take exponential time. -/
def tab {n : Nat} {β : Type} (f : Fin n → β) : Fin n → β :=
  let a := Array.ofFn f
  fun i => a[i.val]'(by simp [a])
def tab2 {n m : Nat} {β : Type} (f : Fin n → Fin m → β) : Fin n → Fin m → β :=
  tab (fun i => tab (f i))
section
variable {α : Type} [Add α] [Mul α] [Sub α] [Div α] [Neg α] [OfNat α 0] [OfNat α 1] [LT α] [DecidableLT α] [LinAlg α]

structure Model (C D rU rV : Nat) (α : Type) where
  m : Fin C → Fin D → α        -- ubm means
  s : Fin C → Fin D → α        -- ubm variances
  U : Fin C → Fin D → Fin rU → α
  V : Fin C → Fin D → Fin rV → α
  Dd : Fin C → Fin D → α
structure St (C D : Nat) (α : Type) where   -- the part of GMMStats used here
  n : Fin C → α
  f : Fin C → Fin D → α
  t : α

variable {C D rU rV : Nat}
def eye (r : Nat) : Fin r → Fin r → α := fun a b => if a = b then 1 else 0
/-- Σ_c n_c · L_cᵀ Σ_c⁻¹ L_c for a loading L -/
def prodN {r : Nat} (M : Model C D rU rV α) (L : Fin C → Fin D → Fin r → α) (n : Fin C → α) : Fin r → Fin r → α :=
  fun a b => sumFin C fun c => n c * sumFin D fun d => L c d a * L c d b / M.s c d
def idPlusInv {r : Nat} (M : Model C D rU rV α) (L : Fin C → Fin D → Fin r → α) (n : Fin C → α) : Fin r → Fin r → α :=
  LinAlg.inv r fun a b => eye r a b + prodN M L n a b
def apply {r : Nat} (L : Fin C → Fin D → Fin r → α) (x : Fin r → α) : Fin C → Fin D → α :=
  fun c d => sumFin r fun a => L c d a * x a
def mulVec {r : Nat} (P : Fin r → Fin r → α) (v : Fin r → α) : Fin r → α := fun a => sumFin r fun b => P a b * v b
def vecMul {r : Nat} (v : Fin r → α) (P : Fin r → Fin r → α) : Fin r → α := fun b => sumFin r fun a => v a * P a b
/-- Lᵀ Σ⁻¹ g -/
def projT {r : Nat} (M : Model C D rU rV α) (L : Fin C → Fin D → Fin r → α) (g : Fin C → Fin D → α) : Fin r → α :=
  fun a => sumFin C fun c => sumFin D fun d => L c d a / M.s c d * g c d

/-- _compute_fn_x_ih + compute_latent_x for one session -/
def latentX (M : Model C D rU rV α) (st : St C D α) (y : Fin rV → α) (z : Fin C → Fin D → α) : Fin rU → α :=
  let fn := fun c d => st.f c d - st.n c * (M.m c d + M.Dd c d * z c d) - st.n c * apply M.V y c d
  mulVec (idPlusInv M M.U st.n) (projT M M.U fn)

def nAcc (sts : List (St C D α)) : Fin C → α := fun c => lsum (sts.map fun s => s.n c)
def fAcc (sts : List (St C D α)) : Fin C → Fin D → α := fun c d => lsum (sts.map fun s => s.f c d)
/-- Σ_h N_h U x_h -/
def uxTerm (M : Model C D rU rV α) (sts : List (St C D α)) (xs : List (Fin rU → α)) : Fin C → Fin D → α :=
  fun c d => lsum ((sts.zip xs).map fun (s, x) => s.n c * apply M.U x c d)

/-- update_z (one class) -/
def updateZ (M : Model C D rU rV α) (sts : List (St C D α)) (xs : List (Fin rU → α)) (y : Fin rV → α) : Fin C → Fin D → α :=
  fun c d =>
    let na := nAcc sts c
    let fn := fAcc sts c d - na * (M.m c d + apply M.V y c d) - uxTerm M sts xs c d
    (1 / (1 + M.Dd c d / M.s c d * M.Dd c d * na)) * (M.Dd c d / M.s c d) * fn

/-- update_y (one class), with the D7 sign repair -/
def updateY (M : Model C D rU rV α) (sts : List (St C D α)) (xs : List (Fin rU → α)) (z : Fin C → Fin D → α) : Fin rV → α :=
  let na := nAcc sts
  let fn := fun c d => fAcc sts c d - na c * (M.m c d + M.Dd c d * z c d) - uxTerm M sts xs c d
  vecMul (projT M M.V fn) (idPlusInv M M.V na)

/-- np.ndarray ↔ `Vector`: values carried from one iteration to the next are materialised -/
def fn1 {n : Nat} (v : Vector α n) : Fin n → α := fun i => v[i]
def fn2 {n m : Nat} (v : Vector (Vector α m) n) : Fin n → Fin m → α := fun i j => v[i][j]

def jfaEnrollV (M : Model C D rU rV α) (sts : List (St C D α)) :
    Nat → Vector α rV × List (Vector α rU) × Vector (Vector α D) C
  | 0 => (Vector.ofFn fun _ => 0, sts.map fun _ => Vector.ofFn fun _ => 0, Vector.ofFn fun _ => Vector.ofFn fun _ => 0)
  | k+1 =>
    let (_, xs, z) := jfaEnrollV M sts k
    let y' : Vector α rV := Vector.ofFn (updateY M sts (xs.map fn1) (fn2 z))
    let xs' : List (Vector α rU) := sts.map fun s => Vector.ofFn (latentX M s (fn1 y') (fn2 z))
    let z' : Vector (Vector α D) C :=
      Vector.ofFn fun c => Vector.ofFn fun d => updateZ M sts (xs'.map fn1) (fn1 y') c d
    (y', xs', z')

def jfaEnroll (M : Model C D rU rV α) (sts : List (St C D α)) (k : Nat) :
    (Fin rV → α) × List (Fin rU → α) × (Fin C → Fin D → α) :=
  let r := jfaEnrollV M sts k
  (fn1 r.1, r.2.1.map fn1, fn2 r.2.2)

/-- estimate_x on the pooled probe -/
def estimateX (M : Model C D rU rV α) (sts : List (St C D α)) : Fin rU → α :=
  let n := nAcc sts
  let fn := fun c d => fAcc sts c d - M.m c d * n c
  mulVec (idPlusInv M M.U n) (projT M M.U fn)

/-- JFAMachine.score: linear scoring of m+Vy+Dz against the pooled probe with offset U x̂, frame-normalised -/
def jfaScore (M : Model C D rU rV α) (y : Fin rV → α) (z : Fin C → Fin D → α) (sts : List (St C D α)) : α :=
  let x := tab (estimateX M sts)
  let n := tab (nAcc sts); let f := tab2 (fAcc sts); let t := lsum (sts.map (·.t))
  sumFin C fun c => sumFin D fun d =>
    ((M.m c d + apply M.V y c d + M.Dd c d * z c d) - M.m c d) / M.s c d *
      ((f c d - n c * (M.m c d + apply M.U x c d)) / t)
end
end BobEM.FA
