import BobEM.Model.Basic
import BobEM.Model.LinearScoring
/-!
ISV / JFA enrolment and scoring kernel (`factor_analysis.py`: `_compute_fn_x_ih`,
`_compute_id_plus_u_prod_ih`, `compute_latent_x`, `update_z`, `update_y`, `estimate_x`,
`estimate_ux`, `ISVMachine.enroll/score/transform`, `JFAMachine.enroll/score`).

Supervectors are indexed by (component, feature).  ISV is the case `rV = 0` (no speaker factors:
every sum over `Fin 0` is empty, as `V = 0`, `latent_y = None` in the code).
-/
open BobEM (sumFin lsum)

namespace BobEM.FA
section
variable {α : Type} [Add α] [Mul α] [Sub α] [Div α] [Neg α] [OfNat α 0] [OfNat α 1] [LT α] [DecidableLT α]
  [LE α] [DecidableLE α] [LinAlg α]

structure Model (C D rU rV : Nat) (α : Type) where
  m : Fin C → Fin D → α        -- ubm means
  s : Fin C → Fin D → α        -- ubm variances
  U : Fin C → Fin D → Fin rU → α
  V : Fin C → Fin D → Fin rV → α
  Dd : Fin C → Fin D → α
/-- the part of `GMMStats` used here -/
structure St (C D : Nat) (α : Type) where
  n : Fin C → α
  f : Fin C → Fin D → α
  t : α

variable {C D rU rV : Nat}
def eye (r : Nat) : Fin r → Fin r → α := fun a b => if a = b then 1 else 0
/-- Σ_c n_c · L_cᵀ Σ_c⁻¹ L_c for a loading L (`UProd`/`VProd` weighted by the counts) -/
def prodN {r : Nat} (M : Model C D rU rV α) (L : Fin C → Fin D → Fin r → α) (n : Fin C → α) : Fin r → Fin r → α :=
  fun a b => sumFin C fun c => n c * sumFin D fun d => L c d a * L c d b / M.s c d
/-- `np.linalg.inv(I + Σ_c n_c L_cᵀ Σ_c⁻¹ L_c)` -/
def idPlusInv {r : Nat} (M : Model C D rU rV α) (L : Fin C → Fin D → Fin r → α) (n : Fin C → α) : Fin r → Fin r → α :=
  LinAlg.inv r fun a b => eye r a b + prodN M L n a b
/-- `L @ x` as a (C, D) supervector -/
def apply {r : Nat} (L : Fin C → Fin D → Fin r → α) (x : Fin r → α) : Fin C → Fin D → α :=
  fun c d => sumFin r fun a => L c d a * x a
def mulVec {r : Nat} (P : Fin r → Fin r → α) (v : Fin r → α) : Fin r → α := fun a => sumFin r fun b => P a b * v b
def vecMul {r : Nat} (v : Fin r → α) (P : Fin r → Fin r → α) : Fin r → α := fun b => sumFin r fun a => v a * P a b
/-- Lᵀ Σ⁻¹ g -/
def projT {r : Nat} (M : Model C D rU rV α) (L : Fin C → Fin D → Fin r → α) (g : Fin C → Fin D → α) : Fin r → α :=
  fun a => sumFin C fun c => sumFin D fun d => L c d a / M.s c d * g c d

/-- `_compute_fn_x_ih` + `compute_latent_x` for one session -/
def latentX (M : Model C D rU rV α) (st : St C D α) (y : Fin rV → α) (z : Fin C → Fin D → α) : Fin rU → α :=
  let fn := fun c d => st.f c d - st.n c * (M.m c d + M.Dd c d * z c d) - st.n c * apply M.V y c d
  mulVec (idPlusInv M M.U st.n) (projT M M.U fn)

def nAcc (sts : List (St C D α)) : Fin C → α := fun c => lsum (sts.map fun s => s.n c)
def fAcc (sts : List (St C D α)) : Fin C → Fin D → α := fun c d => lsum (sts.map fun s => s.f c d)
/-- Σ_h N_h U x_h -/
def uxTerm (M : Model C D rU rV α) (sts : List (St C D α)) (xs : List (Fin rU → α)) : Fin C → Fin D → α :=
  fun c d => lsum ((sts.zip xs).map fun (s, x) => s.n c * apply M.U x c d)

/-- `update_z` (one class) -/
def updateZ (M : Model C D rU rV α) (sts : List (St C D α)) (xs : List (Fin rU → α)) (y : Fin rV → α) : Fin C → Fin D → α :=
  fun c d =>
    let na := nAcc sts c
    let fn := fAcc sts c d - na * (M.m c d + apply M.V y c d) - uxTerm M sts xs c d
    (1 / (1 + M.Dd c d / M.s c d * M.Dd c d * na)) * (M.Dd c d / M.s c d) * fn

/-- `update_y` (one class): conditions on `m + D z` (the pinned commit had `m − D z`: defect D7).
`sgn` is the sign applied to `D z` (`1` = property, `-1` = pinned commit). -/
def updateYG (sgn : α) (M : Model C D rU rV α) (sts : List (St C D α)) (xs : List (Fin rU → α)) (z : Fin C → Fin D → α) : Fin rV → α :=
  let na := nAcc sts
  let fn := fun c d => fAcc sts c d - na c * (M.m c d + sgn * (M.Dd c d * z c d)) - uxTerm M sts xs c d
  vecMul (projT M M.V fn) (idPlusInv M M.V na)
def updateY (M : Model C D rU rV α) (sts : List (St C D α)) (xs : List (Fin rU → α)) (z : Fin C → Fin D → α) : Fin rV → α :=
  updateYG 1 M sts xs z

/-- latent state of an enrolment: speaker factors, one channel factor per session, residual offset -/
structure Lat (C D rU rV : Nat) (α : Type) where
  y : Fin rV → α
  xs : List (Fin rU → α)
  z : Fin C → Fin D → α

def Lat.zero (nSessions : Nat) : Lat C D rU rV α :=
  { y := fun _ => 0, xs := List.replicate nSessions fun _ => 0, z := fun _ _ => 0 }

/-- one enrolment iteration: `y`, then every `x_h`, then `z` (for ISV, `rV = 0`, the first is void) -/
def sweep (M : Model C D rU rV α) (sts : List (St C D α)) (l : Lat C D rU rV α) : Lat C D rU rV α :=
  let y' := updateY M sts l.xs l.z
  let xs' := sts.map fun s => latentX M s y' l.z
  { y := y', xs := xs', z := updateZ M sts xs' y' }

/-- `JFAMachine.enroll` / `ISVMachine.enroll` with `enroll_iterations = k` (Spec form) -/
def enroll (M : Model C D rU rV α) (sts : List (St C D α)) : Nat → Lat C D rU rV α
  | 0 => Lat.zero sts.length
  | k+1 => sweep M sts (enroll M sts k)

/-! #### Exec form: the latent arrays are ndarrays, i.e. `Vector`s evaluated once per update -/
structure LatV (C D rU rV : Nat) (α : Type) where
  y : Vector α rV
  xs : List (Vector α rU)
  z : Vector (Vector α D) C
def LatV.ofV (l : LatV C D rU rV α) : Lat C D rU rV α :=
  { y := fun i => l.y[i], xs := l.xs.map fun v => fun i => v[i], z := fun c d => l.z[c][d] }
def Lat.toV (l : Lat C D rU rV α) : LatV C D rU rV α :=
  { y := Vector.ofFn l.y, xs := l.xs.map Vector.ofFn, z := Vector.ofFn fun c => Vector.ofFn (l.z c) }
def sweepV (M : Model C D rU rV α) (sts : List (St C D α)) (l : LatV C D rU rV α) : LatV C D rU rV α :=
  let y' : Vector α rV := Vector.ofFn (updateY M sts l.ofV.xs l.ofV.z)
  let xs' : List (Vector α rU) := sts.map fun s => Vector.ofFn (latentX M s (fun i => y'[i]) l.ofV.z)
  { y := y', xs := xs',
    z := Vector.ofFn fun c => Vector.ofFn fun d => updateZ M sts (xs'.map fun v => fun i => v[i]) (fun i => y'[i]) c d }
def enrollV (M : Model C D rU rV α) (sts : List (St C D α)) : Nat → LatV C D rU rV α
  | 0 => (Lat.zero sts.length).toV
  | k+1 => sweepV M sts (enrollV M sts k)

/-! #### scoring -/
/-- `estimate_x` on the pooled probe -/
def estimateX (M : Model C D rU rV α) (sts : List (St C D α)) : Fin rU → α :=
  let n := nAcc sts
  let fn := fun c d => fAcc sts c d - M.m c d * n c
  mulVec (idPlusInv M M.U n) (projT M M.U fn)
/-- `estimate_ux` -/
def estimateUx (M : Model C D rU rV α) (sts : List (St C D α)) : Fin C → Fin D → α := apply M.U (estimateX M sts)

def St.add (a b : St C D α) : St C D α := { n := fun c => a.n c + b.n c, f := fun c d => a.f c d + b.f c d, t := a.t + b.t }
/-- `sum(data[1:], start=data[0])` (a single statistic is used as it is) -/
def pooled : List (St C D α) → St C D α
  | [] => { n := fun _ => 0, f := fun _ _ => 0, t := 0 }
  | s :: rest => rest.foldl St.add s
/-- the client mean `m + V y + D z` -/
def clientMean (M : Model C D rU rV α) (y : Fin rV → α) (z : Fin C → Fin D → α) : Fin C → Fin D → α :=
  fun c d => apply M.V y c d + M.Dd c d * z c d + M.m c d

/-- `JFAMachine.score` / `ISVMachine.score`: frame-normalised linear score of the client mean
against the pooled probe with the UBM means shifted by the probe's own channel offset `U x̂` -/
def score (M : Model C D rU rV α) (y : Fin rV → α) (z : Fin C → Fin D → α) (sts : List (St C D α)) (eps : α) : α :=
  let p := pooled sts
  linearScore M.m M.s (clientMean M y z) { n := p.n, sumPx := p.f, t := p.t } (estimateUx M sts) true eps

/-! #### array-level entry points: `acc` stands for `ubm.acc_stats` -/
def scoreUsingArray {β : Type} (acc : β → St C D α) (M : Model C D rU rV α) (y : Fin rV → α) (z : Fin C → Fin D → α)
    (datas : List β) (eps : α) : α := score M y z (datas.map acc) eps
def enrollUsingArray {β : Type} (acc : β → St C D α) (M : Model C D rU rV α) (X : β) (k : Nat) : Lat C D rU rV α :=
  enroll M [acc X] k
/-- `ISVMachine.transform` (the pinned commit passed the bare statistic: defect D13) -/
def transform {β : Type} (acc : β → St C D α) (M : Model C D rU rV α) (X : β) : Fin C → Fin D → α :=
  estimateUx M [acc X]
end
end BobEM.FA

namespace BobEM.FA
section
variable {α : Type} [Add α] [Mul α] [Sub α] [Div α] [Neg α] [OfNat α 0] [OfNat α 1] [OfNat α 2] {C D rU rV : Nat}

/-- offset of session `h` from the UBM mean: `V y + U x_h + D z` -/
def offset (M : Model C D rU rV α) (y : Fin rV → α) (x : Fin rU → α) (z : Fin C → Fin D → α) : Fin C → Fin D → α :=
  fun c d => apply M.V y c d + apply M.U x c d + M.Dd c d * z c d

/-- data term of one session: `Σ_cd [ (F − N m) o − ½ N o² ] / σ` (the frames' Gaussian exponent
up to a constant, in terms of the session's statistics) -/
def sessionTerm (M : Model C D rU rV α) (st : St C D α) (o : Fin C → Fin D → α) : α :=
  sumFin C fun c => sumFin D fun d =>
    ((st.f c d - st.n c * M.m c d) * o c d - (1 / 2 : α) * (st.n c * (o c d * o c d))) / M.s c d

/-- joint log-posterior of the enrolment data and the latent factors (up to an additive constant)
under `mean = m + V y + U x_h + D z`, standard-normal priors, UBM covariances -/
def logPost (M : Model C D rU rV α) (sts : List (St C D α)) (l : Lat C D rU rV α) : α :=
  -((1 / 2 : α) * sumFin rV fun a => l.y a * l.y a)
  - (1 / 2 : α) * lsum (l.xs.map fun x => sumFin rU fun a => x a * x a)
  - (1 / 2 : α) * (sumFin C fun c => sumFin D fun d => l.z c d * l.z c d)
  + lsum ((sts.zip l.xs).map fun (st, x) => sessionTerm M st (offset M l.y x l.z))
end
end BobEM.FA
