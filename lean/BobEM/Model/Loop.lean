import BobEM.Model.Basic
-- generic EM loop of gmm.py / kmeans.py `fit` (import-free)
namespace BobEM
/-- `stop prev cur` is the test `thr is not None and abs((prev-cur)/prev) <= thr`.
`fuel` is `max_fitting_steps` (or any bound when it is None). Returns the final state and the
number of iterations performed. -/
def emLoop {S α : Type} (stepf : S → S × α) (stop : α → α → Bool) :
    (fuel : Nat) → (step : Nat) → (prev : α) → S → S × Nat
  | 0, step, _, s => (s, step)
  | fuel+1, step, prev, s =>
    let r := stepf s
    if step + 1 > 1 && stop prev r.2 then (r.1, step + 1)
    else emLoop stepf stop fuel (step + 1) r.2 r.1

/-- state and reported criterion after k iterations -/
def traj {S α : Type} (stepf : S → S × α) (s0 : S) (c0 : α) : Nat → S × α
  | 0 => (s0, c0)
  | k+1 => stepf (traj stepf s0 c0 k).1

section
variable {α : Type} [Sub α] [Div α] [Neg α] [OfNat α 0] [LT α] [DecidableLT α] [LE α] [DecidableLE α]
/-- `abs` -/
def absv (a : α) : α := if a < 0 then -a else a
/-- `abs((prev - cur) / prev)` -/
def relChange (prev cur : α) : α := absv ((prev - cur) / prev)
/-- `convergence_threshold is not None and convergence_value <= convergence_threshold` -/
def convStop (thr : Option α) (prev cur : α) : Bool :=
  match thr with
  | none => false
  | some t => decide (relChange prev cur ≤ t)
end
end BobEM
