import BobEM.Model.Gmm
/-!
`GMMMachine` as a state machine (C17): the visible parameters plus the caches the code keeps
(`_log_weights`, `_g_norms`) and the variance floors.  Every public mutation goes through the
property setters exactly as in `gmm.py`; likelihoods are computed **from the caches**, as the code does.
-/
namespace BobEM
section
variable {α : Type} [Add α] [Mul α] [Sub α] [Div α] [Neg α] [OfNat α 0] [OfNat α 1] [OfNat α 2]
  [Max α] [LT α] [DecidableLT α] [Transc α] {C D : Nat}

structure GState (C D : Nat) (α : Type) where
  weights : Fin C → α
  logWeights : Fin C → α
  means : Option (Fin C → Fin D → α)
  variances : Option (Fin C → Fin D → α)
  /-- `variance_thresholds`, broadcast to (C, D) -/
  thresholds : Fin C → Fin D → α
  gNorms : Option (Fin C → α)

/-- `n_log_2pi + np.log(variances).sum(axis=-1)` -/
def gNormOf (v : Fin C → Fin D → α) (c : Fin C) : α :=
  sumFin D (fun _ => Transc.log (2 * Transc.pi)) + sumFin D (fun d => Transc.log (v c d))

/-- `weights.setter` -/
def GState.setWeights (s : GState C D α) (w : Fin C → α) : GState C D α :=
  { s with weights := w, logWeights := fun c => Transc.log (w c) }
/-- `means.setter` -/
def GState.setMeans (s : GState C D α) (m : Fin C → Fin D → α) : GState C D α :=
  { s with means := some m }
/-- `variances.setter`: clamp at the current floors, recompute `g_norms` -/
def GState.setVariances (s : GState C D α) (v : Fin C → Fin D → α) : GState C D α :=
  let v' := fun c d => max (s.thresholds c d) (v c d)
  { s with variances := some v', gNorms := some (gNormOf v') }
/-- `variance_thresholds.setter`: store, and re-clamp existing variances through the setter -/
def GState.setThresholds (s : GState C D α) (t : Fin C → Fin D → α) : GState C D α :=
  let s' := { s with thresholds := t }
  match s.variances with
  | none => s'
  | some v => s'.setVariances (fun c d => max (t c d) (v c d))

/-- a freshly constructed machine: uniform (or given) weights, nothing else set, scalar floor -/
def GState.init (w : Fin C → α) (thr : α) : GState C D α :=
  { weights := w, logWeights := fun c => Transc.log (w c), means := none, variances := none,
    thresholds := fun _ _ => thr, gNorms := none }

/-- what an M-step assigns (in the order weights, means, variances), as a function of the visible state -/
structure Assign (C D : Nat) (α : Type) where
  weights : Option (Fin C → α)
  /-- the means assignment may depend on the current means (a component without enough data keeps its
  mean, D25) -/
  means : Option ((Fin C → Fin D → α) → Fin C → Fin D → α)
  /-- the variance assignment may depend on the means just assigned and on the current variances -/
  variances : Option ((Fin C → Fin D → α) → (Fin C → Fin D → α) → Fin C → Fin D → α)

inductive GOp (C D : Nat) (α : Type) where
  | setWeights (w : Fin C → α)
  | setMeans (m : Fin C → Fin D → α)
  | setVariances (v : Fin C → Fin D → α)
  | setThresholds (t : Fin C → Fin D → α)
  /-- `ml_gmm_m_step` / `map_gmm_m_step`: attribute assignments through the setters -/
  | mStep (a : Assign C D α)
  /-- `copy.deepcopy`, `pickle` round trip, HDF5 save + load into the same kind of object: the
  refinement claim is that these are the identity on the state -/
  | clone

def GState.assignW (s : GState C D α) : Option (Fin C → α) → GState C D α
  | some w => s.setWeights w
  | none => s
/-- (an M-step is reached with means and variances set — its statistics come from an E-step; for
totality an unset array reads as zeros) -/
def GState.assignM (s : GState C D α) : Option ((Fin C → Fin D → α) → Fin C → Fin D → α) → GState C D α
  | some f => s.setMeans (f (match s.means with | some m => m | none => fun _ _ => 0))
  | none => s
def GState.assignV (s : GState C D α) (f : Option ((Fin C → Fin D → α) → (Fin C → Fin D → α) → Fin C → Fin D → α)) : GState C D α :=
  match f, s.means with
  | some f, some m => s.setVariances (f m (match s.variances with | some v => v | none => fun _ _ => 0))
  | _, _ => s

def GState.step (s : GState C D α) : GOp C D α → GState C D α
  | .setWeights w => s.setWeights w
  | .setMeans m => s.setMeans m
  | .setVariances v => s.setVariances v
  | .setThresholds t => s.setThresholds t
  | .mStep a => ((s.assignW a.weights).assignM a.means).assignV a.variances
  | .clone => s

def GState.run (s : GState C D α) (ops : List (GOp C D α)) : GState C D α := ops.foldl GState.step s

/-- `log_weighted_likelihood` as the code computes it: from `_log_weights` and `g_norms` -/
def lwlCached (lw : Fin C → α) (gn : Fin C → α) (m v : Fin C → Fin D → α) (x : Fin D → α) (c : Fin C) : α :=
  lw c + (-(1 / 2 : α)) * (gn c + sumFin D (fun d => (x d - m c d) * (x d - m c d) / v c d))

/-- `log_likelihood` of a sample from the caches; `none` = "means/variances were never set" -/
def GState.logLik? (s : GState (C+1) D α) (x : Fin D → α) : Option α :=
  match s.means, s.variances with
  | some m, some v =>
    let gn := match s.gNorms with | some g => g | none => gNormOf v
    some (logaddexpReduce C (lwlCached s.logWeights gn m v x))
  | _, _ => none

/-- the visible parameters, when complete -/
def GState.params? (s : GState C D α) : Option (Params C D α) :=
  match s.means, s.variances with
  | some m, some v => some { weights := s.weights, means := m, variances := v }
  | _, _ => none

/-! ### Exec form: what Python holds as ndarrays is a `Vector` (evaluated once per operation) -/
structure GStateV (C D : Nat) (α : Type) where
  weights : Vector α C
  logWeights : Vector α C
  means : Option (Vector (Vector α D) C)
  variances : Option (Vector (Vector α D) C)
  thresholds : Vector (Vector α D) C
  gNorms : Option (Vector α C)

def vec1 {n : Nat} (f : Fin n → α) : Vector α n := Vector.ofFn f
def vec2 {n m : Nat} (f : Fin n → Fin m → α) : Vector (Vector α m) n := Vector.ofFn fun i => Vector.ofFn (f i)
def fun1 {n : Nat} (v : Vector α n) : Fin n → α := fun i => v[i]
def fun2 {n m : Nat} (v : Vector (Vector α m) n) : Fin n → Fin m → α := fun i j => v[i][j]

def GState.toV (s : GState C D α) : GStateV C D α :=
  { weights := vec1 s.weights, logWeights := vec1 s.logWeights, means := s.means.map vec2,
    variances := s.variances.map vec2, thresholds := vec2 s.thresholds, gNorms := s.gNorms.map vec1 }
def GStateV.ofV (s : GStateV C D α) : GState C D α :=
  { weights := fun1 s.weights, logWeights := fun1 s.logWeights, means := s.means.map fun2,
    variances := s.variances.map fun2, thresholds := fun2 s.thresholds, gNorms := s.gNorms.map fun1 }

/-- one operation on materialised state -/
def GStateV.step (s : GStateV C D α) (op : GOp C D α) : GStateV C D α := (s.ofV.step op).toV
def GStateV.run (s : GStateV C D α) (ops : List (GOp C D α)) : GStateV C D α := ops.foldl GStateV.step s
end
end BobEM

namespace BobEM
section
variable {α : Type} [Add α] [Mul α] [Sub α] [Div α] [Neg α] [OfNat α 0] [OfNat α 1] [OfNat α 2]
  [Max α] [LT α] [DecidableLT α] [Transc α] {C D : Nat}
/-- `GMMMachine(trainer="map", ubm=…, mean_var_update_threshold=t0)`: the machine starts with the scalar
floor `t0` and copies the prior's parameters through the setters.  `floorsFirst = true` is the order
of the repaired constructor (floors, means, variances, weights); `false` the pinned commit's order
(means, variances, floors, weights: defect D23). -/
def GState.mapInit (floorsFirst : Bool) (t0 : α) (uw : Fin C → α) (um uv ut : Fin C → Fin D → α) : GState C D α :=
  let s0 : GState C D α := GState.init uw t0
  if floorsFirst then (((s0.setThresholds ut).setMeans um).setVariances uv).setWeights uw
  else (((s0.setMeans um).setVariances uv).setThresholds ut).setWeights uw
end
end BobEM
