/-!
`FactorAnalysisBase._prepare_dask_input` (C12): a Dask bag of statistics, chunked arbitrarily into
partitions, is regrouped into one list of statistics per class.  The code walks the partitions in
order, and the elements of each partition in order, with a running global index `i`; element `i`
goes to the list of class `y[i]`.
-/
namespace BobEM.Regroup

/-- `X[class_id].append(stat)` -/
def appendAt {σ : Type} (acc : List (List σ)) (k : Nat) (x : σ) : List (List σ) :=
  acc.set k (acc.getD k [] ++ [x])

/-- the inner `for delayed_stat in delayed_stats_list` loop -/
def innerLoop {σ : Type} : List σ → List Nat → Nat → List (List σ) → List (List σ)
  | [], _, _, acc => acc
  | x :: xs, y, i, acc => innerLoop xs y (i + 1) (appendAt acc (y.getD i 0) x)

/-- the outer `for length_, delayed_stats_list in zip(lengths, delayeds)` loop -/
def outerLoop {σ : Type} : List (List σ) → List Nat → Nat → List (List σ) → List (List σ)
  | [], _, _, acc => acc
  | b :: bs, y, i, acc => outerLoop bs y (i + b.length) (innerLoop b y i acc)

/-- per-class lists for `K` classes -/
def prepare {σ : Type} (partitions : List (List σ)) (y : List Nat) (K : Nat) : List (List σ) :=
  outerLoop partitions y 0 (List.replicate K [])

/-- the derived label lists `[y[y == class_id] for class_id in range(n_classes)]` -/
def labelLists (y : List Nat) (K : Nat) : List (List Nat) :=
  (List.range K).map fun k => y.filter (· == k)
end BobEM.Regroup
