/-
  BobEM.Model.Basic — scalar interface of the polymorphic model (import-free).

  Every model definition is written once over a scalar type `α` with core
  arithmetic classes plus `Transc` (transcendental functions) and `LinAlg`
  (external LAPACK-style routines).  Theorems instantiate `α := ℝ`
  (`BobEM/Lemmas/Real.lean`), the driver instantiates `α := Float`.
-/
class Transc (α : Type) where
  exp : α → α
  log : α → α
  sqrt : α → α
  pi : α
  /-- `float(n)` for a Python int -/
  ofNat : Nat → α
  /-- `x == 0` (used by guards such as `A[c].any()`, `nij > 0`) -/
  isZero : α → Bool

instance : Transc Float := ⟨Float.exp, Float.log, Float.sqrt, 3.141592653589793, Float.ofNat, fun x => x == 0⟩

/-- External linear-algebra routine `np.linalg.inv` / `scipy.linalg.inv` (the Cholesky factor used by
WCCN/whitening is an explicit parameter of those models, see `Model/Linear.lean`). -/
class LinAlg (α : Type) where
  inv : (n : Nat) → (Fin n → Fin n → α) → (Fin n → Fin n → α)

namespace BobEM
section
variable {α : Type} [Add α] [OfNat α 0]
/-- `np.sum` over a fixed axis of length `n` (left-to-right) -/
def sumFin (n : Nat) (f : Fin n → α) : α := Fin.foldl n (fun acc i => acc + f i) 0
/-- sum over the sample / chunk axis -/
def lsum (l : List α) : α := l.foldl (· + ·) 0
end
end BobEM
