import BobEM.Model.FA
/-!
ISV / JFA training (`factor_analysis.py`: `compute_accumulators_V/U/D`, `JFAMachine.e_step_v/m_step_v/
finalize_v/e_step_u/m_step_u/finalize_u/e_step_d/m_step_d/fit`, `ISVMachine.e_step/m_step/fit`).

Training data are per-class lists of session statistics (`classes : List (List (St C D α))`, class id =
position).  One E-step task per class returns accumulators `A1`, `A2`; the M-step adds them over the
classes (`reduce_iadd`) and solves for the loading matrix component by component.
-/
open BobEM (sumFin lsum)

namespace BobEM.FA
section
variable {α : Type} [Add α] [Mul α] [Sub α] [Div α] [Neg α] [OfNat α 0] [OfNat α 1] [LT α] [DecidableLT α]
  [LE α] [DecidableLE α] [LinAlg α]
variable {C D rU rV : Nat}

/-- accumulators of a subspace of rank `r`: `A1` (C, r, r) and `A2` (C, D, r) -/
structure Acc (C D r : Nat) (α : Type) where
  a1 : Fin C → Fin r → Fin r → α
  a2 : Fin C → Fin D → Fin r → α
def Acc.add {r : Nat} (x y : Acc C D r α) : Acc C D r α :=
  { a1 := fun c a b => x.a1 c a b + y.a1 c a b, a2 := fun c d a => x.a2 c d a + y.a2 c d a }
def Acc.zero {r : Nat} : Acc C D r α := { a1 := fun _ _ _ => 0, a2 := fun _ _ _ => 0 }
/-- `reduce_iadd` over the per-class outputs -/
def Acc.sum {r : Nat} : List (Acc C D r α) → Acc C D r α
  | [] => Acc.zero
  | x :: rest => rest.foldl Acc.add x

/-- `A2_c @ inv(A1_c)` for every component (`update_U`, `m_step_v`) -/
def solveLoading {r : Nat} (acc : Acc C D r α) : Fin C → Fin D → Fin r → α :=
  fun c d a => sumFin r fun b => acc.a2 c d b * LinAlg.inv r (acc.a1 c) b a

def zerosX (n : Nat) : List (Fin rU → α) := List.replicate n fun _ => 0
def zeroZ : Fin C → Fin D → α := fun _ _ => 0

/-- `_compute_fn_y_i` -/
def fnY (M : Model C D rU rV α) (sts : List (St C D α)) (xs : List (Fin rU → α)) (z : Fin C → Fin D → α) : Fin C → Fin D → α :=
  fun c d => fAcc sts c d - nAcc sts c * (M.m c d + 1 * (M.Dd c d * z c d)) - uxTerm M sts xs c d
/-- `_compute_fn_x_ih` -/
def fnX (M : Model C D rU rV α) (st : St C D α) (y : Fin rV → α) (z : Fin C → Fin D → α) : Fin C → Fin D → α :=
  fun c d => st.f c d - st.n c * (M.m c d + M.Dd c d * z c d) - st.n c * apply M.V y c d
/-- `_compute_fn_z_i` -/
def fnZ (M : Model C D rU rV α) (sts : List (St C D α)) (xs : List (Fin rU → α)) (y : Fin rV → α) : Fin C → Fin D → α :=
  fun c d => fAcc sts c d - nAcc sts c * (M.m c d + apply M.V y c d) - uxTerm M sts xs c d

/-- `e_step_v` for one class: `y` from zero `x`, `z`; accumulators of `compute_accumulators_V` -/
def eStepV (M : Model C D rU rV α) (sts : List (St C D α)) : Acc C D rV α :=
  let xs := zerosX (rU := rU) sts.length
  let y := updateY M sts xs zeroZ
  let pinv := idPlusInv M M.V (nAcc sts)
  { a1 := fun c a b => nAcc sts c * (pinv a b + y a * y b)
    a2 := fun c d a => fnY M sts xs zeroZ c d * y a }
/-- one V iteration: E-step per class, reduce, M-step -/
def stepV (M : Model C D rU rV α) (classes : List (List (St C D α))) : Model C D rU rV α :=
  { M with V := solveLoading (Acc.sum (classes.map (eStepV M))) }
/-- `finalize_v` -/
def finalizeV (M : Model C D rU rV α) (classes : List (List (St C D α))) : List (Fin rV → α) :=
  classes.map fun sts => updateY M sts (zerosX (rU := rU) sts.length) zeroZ

/-- contribution of one session to the U accumulators, given the class's speaker factor `y` and offset `z` -/
def sessAccU (M : Model C D rU rV α) (st : St C D α) (y : Fin rV → α) (z : Fin C → Fin D → α) : Acc C D rU α :=
  let x := latentX M st y zeroZ
  let pinv := idPlusInv M M.U st.n
  { a1 := fun c a b => st.n c * (pinv a b + x a * x b)
    a2 := fun c d a => fnX M st y z c d * x a }
/-- `e_step_u` for one class with its (fixed) speaker factor: `x_h` from `y`, zero `z`;
accumulators of `compute_accumulators_U` -/
def eStepU (M : Model C D rU rV α) (sts : List (St C D α)) (y : Fin rV → α) : Acc C D rU α :=
  Acc.sum (sts.map fun st => sessAccU M st y zeroZ)
def stepU (M : Model C D rU rV α) (classes : List (List (St C D α))) (ys : List (Fin rV → α)) : Model C D rU rV α :=
  { M with U := solveLoading (Acc.sum ((classes.zip ys).map fun (sts, y) => eStepU M sts y)) }
/-- `finalize_u` -/
def finalizeU (M : Model C D rU rV α) (classes : List (List (St C D α))) (ys : List (Fin rV → α)) : List (List (Fin rU → α)) :=
  (classes.zip ys).map fun (sts, y) => sts.map fun st => latentX M st y zeroZ

/-- accumulators of the diagonal `D` (both of shape (C, D)) -/
structure AccD (C D : Nat) (α : Type) where
  a1 : Fin C → Fin D → α
  a2 : Fin C → Fin D → α
def AccD.add (x y : AccD C D α) : AccD C D α := { a1 := fun c d => x.a1 c d + y.a1 c d, a2 := fun c d => x.a2 c d + y.a2 c d }
def AccD.sum : List (AccD C D α) → AccD C D α
  | [] => { a1 := fun _ _ => 0, a2 := fun _ _ => 0 }
  | x :: rest => rest.foldl AccD.add x
/-- `e_step_d` for one class: `z` from the fixed `x`, `y`; accumulators of `compute_accumulators_D` -/
def eStepD (M : Model C D rU rV α) (sts : List (St C D α)) (xs : List (Fin rU → α)) (y : Fin rV → α) : AccD C D α :=
  let z := updateZ M sts xs y
  { a1 := fun c d => (1 / (1 + M.Dd c d / M.s c d * M.Dd c d * nAcc sts c) + z c d * z c d) * nAcc sts c
    a2 := fun c d => fnZ M sts xs y c d * z c d }
def stepD (M : Model C D rU rV α) (classes : List (List (St C D α))) (xss : List (List (Fin rU → α))) (ys : List (Fin rV → α)) :
    Model C D rU rV α :=
  let acc := AccD.sum (((classes.zip xss).zip ys).map fun ((sts, xs), y) => eStepD M sts xs y)
  { M with Dd := fun c d => acc.a2 c d / acc.a1 c d }

/-- ISV `e_step` for one class: `x_h` (no `y`, zero `z`), then `z`, then the U accumulators with that `z` -/
def eStepIsv (M : Model C D rU rV α) (sts : List (St C D α)) : Acc C D rU α :=
  let y0 : Fin rV → α := fun _ => 0
  let xs := sts.map fun st => latentX M st y0 zeroZ
  let z := updateZ M sts xs y0
  Acc.sum (((sts.zip xs)).map fun (st, x) =>
    let pinv := idPlusInv M M.U st.n
    ({ a1 := fun c a b => st.n c * (pinv a b + x a * x b)
       a2 := fun c d a => fnX M st y0 z c d * x a } : Acc C D rU α))
def stepIsv (M : Model C D rU rV α) (classes : List (List (St C D α))) : Model C D rU rV α :=
  { M with U := solveLoading (Acc.sum (classes.map (eStepIsv M))) }

/-! #### materialisation (Exec form): the loading matrices are ndarrays -/
def materialize (M : Model C D rU rV α) : Model C D rU rV α :=
  let vU : Vector (Vector (Vector α rU) D) C := Vector.ofFn fun c => Vector.ofFn fun d => Vector.ofFn (M.U c d)
  let vV : Vector (Vector (Vector α rV) D) C := Vector.ofFn fun c => Vector.ofFn fun d => Vector.ofFn (M.V c d)
  let vD : Vector (Vector α D) C := Vector.ofFn fun c => Vector.ofFn (M.Dd c)
  { M with U := fun c d a => vU[c][d][a], V := fun c d a => vV[c][d][a], Dd := fun c d => vD[c][d] }

def iter {β : Type} (f : β → β) : Nat → β → β
  | 0, x => x
  | k+1, x => iter f k (f x)

/-- `JFAMachine.fit` on per-class statistics: `k` V iterations, `finalize_v`, `k` U iterations,
`finalize_u`, `k` D iterations (every iterate materialised) -/
def jfaFit (M0 : Model C D rU rV α) (classes : List (List (St C D α))) (k : Nat) : Model C D rU rV α :=
  let M1 := iter (fun M => materialize (stepV M classes)) k (materialize M0)
  let ys := (finalizeV M1 classes).map fun y => (let v := Vector.ofFn y; fun i => v[i])
  let M2 := iter (fun M => materialize (stepU M classes ys)) k M1
  let xss := (finalizeU M2 classes ys).map fun xs => xs.map fun x => (let v := Vector.ofFn x; fun i => v[i])
  iter (fun M => materialize (stepD M classes xss ys)) k M2
/-- `ISVMachine.fit` -/
def isvFit (M0 : Model C D rU rV α) (classes : List (List (St C D α))) (k : Nat) : Model C D rU rV α :=
  iter (fun M => materialize (stepIsv M classes)) k (materialize M0)
end
end BobEM.FA
