/-!
Ownership / aliasing model (C19): a heap of array cells, some owned by the caller, some by the
estimator.  Every public entry point is summarised by its *effects*: the cells it writes and the
cells it stores in the estimator or returns.  The summaries are what the correspondence observes
on the real code (bitwise snapshots, `np.shares_memory`); the discipline below is decidable and is
executed on the observations.
-/
namespace BobEM.Own

/-- observed effects of one call -/
structure Effect where
  /-- cells whose contents changed during the call -/
  writes : List Nat
  /-- cells reachable from the estimator's attributes or from the returned value after the call -/
  holds : List Nat
  /-- the call was *given* an untrained UBM to train: its cells may be written -/
  handedOver : List Nat := []

structure World where
  /-- cells owned by the caller (inputs: arrays, labels, statistics, UBM / prior machines) -/
  caller : List Nat
  /-- cells owned by estimators (their attributes and returned results) -/
  est : List Nat

/-- the discipline one call must obey: it writes no caller-owned cell (except one explicitly handed
over), and nothing it keeps or returns is a caller-owned cell -/
def Effect.ok (w : World) (e : Effect) : Bool :=
  e.writes.all (fun c => !(w.caller.contains c) || e.handedOver.contains c) &&
  e.holds.all (fun c => !(w.caller.contains c))

def World.step (w : World) (e : Effect) : World := { w with est := e.holds ++ w.est }

/-- index of the first call that breaks the discipline -/
def firstViolation (w : World) : List Effect → Nat → Option Nat
  | [], _ => none
  | e :: es, i => if e.ok w then firstViolation (w.step e) es (i + 1) else some i

/-! a heap semantics for the frame theorem -/
/-- apply a call: arbitrary new contents `new`, but only on the written cells -/
def applyEffect {V : Type} (h : Nat → V) (e : Effect) (new : Nat → V) : Nat → V :=
  fun c => if e.writes.contains c then new c else h c

def run {V : Type} (h : Nat → V) : List (Effect × (Nat → V)) → Nat → V
  | [] => h
  | (e, new) :: rest => run (applyEffect h e new) rest
end BobEM.Own
