/-!
Task graphs (C04, C12): what a Dask `compute` call executes.  A graph is a list of tasks with direct
dependencies and observed read / write sets over abstract locations (shared objects embedded in the
graph, and one result slot per task).  The checks below are decidable and are executed on the graphs
recorded from the real library; `Props/C04.lean` proves that they imply determinacy.
-/
namespace BobEM.Sched

structure TaskEff where
  id : Nat
  deps : List Nat
  reads : List Nat
  writes : List Nat
  deriving Repr

/-- `reach g fuel i j`: task `i` must run before task `j` (path of direct dependencies, length ≤ fuel) -/
def reach (g : List TaskEff) : Nat → Nat → Nat → Bool
  | 0, _, _ => false
  | fuel+1, i, j =>
    match g.find? (fun t => t.id == j) with
    | none => false
    | some t => t.deps.any fun d => d == i || reach g fuel i d

def ordered (g : List TaskEff) (i j : Nat) : Bool := reach g g.length i j || reach g g.length j i

def disjoint (a b : List Nat) : Bool := a.all fun x => !(b.contains x)

/-- Bernstein's conditions for one pair -/
def pairOk (t u : TaskEff) : Bool :=
  disjoint t.writes u.writes && disjoint t.writes u.reads && disjoint u.writes t.reads

/-- every pair of tasks not ordered by the dependency closure satisfies Bernstein's conditions -/
def disciplined (g : List TaskEff) : Bool :=
  g.all fun t => g.all fun u => t.id == u.id || ordered g t.id u.id || pairOk t u

/-- the first offending pair, for the report -/
def firstConflict (g : List TaskEff) : Option (Nat × Nat) :=
  (g.flatMap fun t => g.map fun u => (t, u)).findSome? fun (t, u) =>
    if t.id == u.id || ordered g t.id u.id || pairOk t u then none else some (t.id, u.id)

/-! ### Reduction shape: how often a worker's result enters the final task

Between the E-step tasks (`workers`) and the final task (the M-step) a training graph holds only
tasks that add up the values of their dependencies (a flat list handed to `m_step`, a pairwise or
wider tree of `__add__` tasks).  `pathCountF` counts the dependency paths from a task down to one
worker; `Lemmas/SumDag.lean` proves that the value reaching the final task is the sum over the workers
of (number of paths) × (the worker's result), whatever the shape of the reduction. -/

/-- direct dependencies of the task with id `t` (none if there is no such task) -/
def depsOf (g : List TaskEff) (t : Nat) : List Nat :=
  match g.find? (fun x => x.id == t) with
  | some x => x.deps
  | none => []

/-- number of dependency paths (of length < fuel) from task `t` down to worker `w`; a worker is a leaf -/
def pathCountF (deps : Nat → List Nat) (isW : Nat → Bool) : Nat → Nat → Nat → Nat
  | 0, _, _ => 0
  | fuel+1, w, t => if isW t then (if w == t then 1 else 0) else ((deps t).map (pathCountF deps isW fuel w)).sum

def pathCount (g : List TaskEff) (workers : List Nat) (w t : Nat) : Nat :=
  pathCountF (depsOf g) (fun x => workers.contains x) (g.length + 1) w t

/-- position of task `t` in the list (the list length if absent) -/
def posOf (g : List TaskEff) (t : Nat) : Nat := (g.findIdx? (fun x => x.id == t)).getD g.length

/-- the task list is in dependency order: every dependency of a task that is itself a task stands before it -/
def topoOrdered (g : List TaskEff) : Bool :=
  g.all fun t => t.deps.all fun d => posOf g d < posOf g t.id || !(g.any fun x => x.id == d)

/-- every worker's result reaches the final task along exactly one path -/
def exactlyOnce (g : List TaskEff) (final : Nat) (workers : List Nat) : Bool :=
  workers.all fun w => pathCount g workers w final == 1

/-- the first worker whose result does not enter exactly once, with its path count -/
def firstMiscount (g : List TaskEff) (final : Nat) (workers : List Nat) : Option (Nat × Nat) :=
  workers.findSome? fun w => let c := pathCount g workers w final; if c == 1 then none else some (w, c)

/-- shape of one training iteration: `k` E-step tasks (tasks with no dependency among the listed
ones that the final task depends on directly), and one final task depending on all of them -/
def fanIn (g : List TaskEff) (final : Nat) (workers : List Nat) : Bool :=
  match g.find? (fun t => t.id == final) with
  | none => false
  | some t => workers.all (fun w => reach g g.length w final) &&
      workers.all (fun w => workers.all fun w' => w == w' || !(ordered g w w')) &&
      (t.deps.length ≥ 1)

/-- isolation discipline: the workers write nothing that is shared (a graph literal), and every shared
location the final task writes is in the caller's copy-back set -/
def isolationOk (g : List TaskEff) (final : Nat) (shared copyBack : List Nat) : Bool :=
  g.all fun t =>
    if t.id == final then t.writes.all fun l => !(shared.contains l) || copyBack.contains l
    else disjoint t.writes shared
end BobEM.Sched
