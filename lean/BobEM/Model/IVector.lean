import BobEM.Model.FA
/-!
`ivector.py`: `compute_id_tt_sigma_inv_t`, `compute_tt_sigma_inv_fnorm`, `IVectorMachine.project`,
`e_step`, `IVectorStats.__add__`, the pairwise reduction of `fit` (see `Model/Tree.lean`), `m_step`.

A component that received no data in any training statistic keeps its previous covariance in the
`update_sigma` branch (the pinned commit divided 0/0: defect D8).
-/
open BobEM (sumFin lsum)

namespace BobEM.IV
section
variable {α : Type} [Add α] [Mul α] [Sub α] [Div α] [Neg α] [OfNat α 0] [OfNat α 1] [OfNat α 2]
  [LT α] [DecidableLT α] [Max α] [Transc α] [LinAlg α]
variable {C D R : Nat}

structure Machine (C D R : Nat) (α : Type) where
  ubmMeans : Fin C → Fin D → α
  T : Fin C → Fin D → Fin R → α
  sigma : Fin C → Fin D → α
/-- the part of `GMMStats` used: zeroth, first and second order -/
structure GStat (C D : Nat) (α : Type) where
  n : Fin C → α
  f : Fin C → Fin D → α
  s : Fin C → Fin D → α

/-- `compute_id_tt_sigma_inv_t`: `I + Σ_c N_c T_cᵀ Σ_c⁻¹ T_c` -/
def precision (m : Machine C D R α) (n : Fin C → α) : Fin R → Fin R → α := fun t u =>
  FA.eye R t u + sumFin C fun c => n c * sumFin D fun d => m.T c d t * m.T c d u / m.sigma c d
/-- `compute_tt_sigma_inv_fnorm`: `Σ_c T_cᵀ Σ_c⁻¹ (F_c − N_c m_c)` -/
def rhs (m : Machine C D R α) (st : GStat C D α) : Fin R → α := fun t =>
  sumFin C fun c => sumFin D fun d => m.T c d t / m.sigma c d * (st.f c d - st.n c * m.ubmMeans c d)
/-- `IVectorMachine.project`: `np.linalg.solve(precision, rhs)` -/
def project (m : Machine C D R α) (st : GStat C D α) : Fin R → α :=
  FA.mulVec (LinAlg.inv R (precision m st.n)) (rhs m st)

structure Stats (C D R : Nat) (α : Type) where
  nsw2 : Fin C → Fin R → Fin R → α      -- nij_sigma_wij2
  fsw : Fin C → Fin D → Fin R → α       -- fnorm_sigma_wij
  snorm : Fin C → Fin D → α             -- snormij
  nij : Fin C → α
def Stats.add (a b : Stats C D R α) : Stats C D R α :=
  { nsw2 := fun c t u => a.nsw2 c t u + b.nsw2 c t u, fsw := fun c d t => a.fsw c d t + b.fsw c d t,
    snorm := fun c d => a.snorm c d + b.snorm c d, nij := fun c => a.nij c + b.nij c }
def Stats.zero : Stats C D R α :=
  { nsw2 := fun _ _ _ => 0, fsw := fun _ _ _ => 0, snorm := fun _ _ => 0, nij := fun _ => 0 }

/-- contribution of one training statistic to the E-step accumulators -/
def contrib (m : Machine C D R α) (st : GStat C D α) : Stats C D R α :=
  let pinv := LinAlg.inv R (precision m st.n)
  let w := FA.mulVec pinv (rhs m st)
  { nsw2 := fun c t u => st.n c * (pinv t u + w t * w u)
    fsw := fun c d t => (st.f c d - st.n c * m.ubmMeans c d) * w t
    snorm := fun c d => st.s c d - 2 * st.f c d * m.ubmMeans c d + st.n c * m.ubmMeans c d * m.ubmMeans c d
    nij := st.n }
/-- `e_step` on a list (one bag partition, or the whole training list): accumulates from zero -/
def eStep (m : Machine C D R α) (data : List (GStat C D α)) : Stats C D R α :=
  data.foldl (fun acc st => acc.add (contrib m st)) Stats.zero

/-- `A[c].any()` -/
def anyNonzero (A : Fin R → Fin R → α) : Bool :=
  (List.finRange R).any fun t => (List.finRange R).any fun u => !(Transc.isZero (A t u))

/-- `m_step`: `T_c = (A_c⁻¹ B_c)ᵀ` with `A_c = nsw2_cᵀ`, `B_c = fsw_cᵀ` (zero when `A_c` is the zero
matrix); optionally `σ_c = (snorm_c − diag(fsw_c X_c)) / nij_c`, clamped at the floor -/
def mStep (m : Machine C D R α) (st : Stats C D R α) (updateSigma : Bool) (floor : α) : Machine C D R α :=
  let X : Fin C → Fin R → Fin D → α := fun c t d =>
    if anyNonzero (st.nsw2 c) then sumFin R fun u => LinAlg.inv R (fun a b => st.nsw2 c b a) t u * st.fsw c d u else 0
  { m with
    T := fun c d t => X c t d
    sigma := if updateSigma then fun c d =>
        let raw := if Transc.isZero (st.nij c) then m.sigma c d
                   else (st.snorm c d - sumFin R fun t => st.fsw c d t * X c t d) / st.nij c
        if raw < floor then floor else raw
      else m.sigma }

def materialize (m : Machine C D R α) : Machine C D R α :=
  let vT : Vector (Vector (Vector α R) D) C := Vector.ofFn fun c => Vector.ofFn fun d => Vector.ofFn (m.T c d)
  let vS : Vector (Vector α D) C := Vector.ofFn fun c => Vector.ofFn (m.sigma c)
  { m with T := fun c d t => vT[c][d][t], sigma := fun c d => vS[c][d] }

/-- one training iteration on a list of partitions: per-partition E-step, sum, M-step.
(`fit` on a list is the single partition case; on a bag the sum is taken pairwise, `Model/Tree.lean`) -/
def iterate (parts : List (List (GStat C D α))) (updateSigma : Bool) (floor : α) (m : Machine C D R α) : Machine C D R α :=
  materialize (mStep m ((parts.map (eStep m)).foldl Stats.add Stats.zero) updateSigma floor)
def fit (m0 : Machine C D R α) (parts : List (List (GStat C D α))) (updateSigma : Bool) (floor : α) : Nat → Machine C D R α
  | 0 => materialize m0
  | k+1 => iterate parts updateSigma floor (fit m0 parts updateSigma floor k)
end
end BobEM.IV
