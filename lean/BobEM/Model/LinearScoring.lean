import BobEM.Model.Gmm
/-! `linear_scoring.py`: the linear score and the normalisation of its flexible arguments. -/
namespace BobEM
section
variable {α : Type} [Add α] [Mul α] [Sub α] [Div α] [Neg α] [OfNat α 0] [LT α] [DecidableLT α]
  [LE α] [DecidableLE α] {C D : Nat}

/-- the part of `GMMStats` the scoring reads -/
structure LStat (C D : Nat) (α : Type) where
  n : Fin C → α
  sumPx : Fin C → Fin D → α
  t : α

/-- one entry of the score matrix: `Σ_c Σ_d (μ^i − μ)/v · (F − N (μ + o))`, divided by `t` when
normalising and `|t| > ε`, and `0` when normalising and `|t| ≤ ε` -/
def linearScore (um uv model : Fin C → Fin D → α) (st : LStat C D α) (off : Fin C → Fin D → α)
    (norm : Bool) (eps : α) : α :=
  sumFin C fun c => sumFin D fun d =>
    (model c d - um c d) / uv c d *
      (if norm then (if absv st.t ≤ eps then 0 else (st.sumPx c d - st.n c * (um c d + off c d)) / st.t)
       else st.sumPx c d - st.n c * (um c d + off c d))

/-- how the models may be given -/
inductive ModelsArg (C D : Nat) (α : Type) where
  | machines (l : List (Params C D α))
  | array3 (l : List (Fin C → Fin D → α))
  | array2 (m : Fin C → Fin D → α)
def ModelsArg.means : ModelsArg C D α → List (Fin C → Fin D → α)
  | .machines l => l.map (·.means)
  | .array3 l => l
  | .array2 m => [m]

/-- the UBM argument: an ML machine, or a MAP machine standing for its prior -/
inductive UbmArg (C D : Nat) (α : Type) where
  | ml (p : Params C D α)
  | map (adapted prior : Params C D α)
def UbmArg.params : UbmArg C D α → Params C D α
  | .ml p => p
  | .map _ prior => prior

inductive StatsArg (C D : Nat) (α : Type) where
  | one (s : LStat C D α)
  | many (l : List (LStat C D α))
def StatsArg.list : StatsArg C D α → List (LStat C D α)
  | .one s => [s]
  | .many l => l

/-- channel offsets: the scalar default, one (C, D) array shared by all tests, or one per test -/
inductive OffArg (C D : Nat) (α : Type) where
  | scalar (x : α)
  | shared (o : Fin C → Fin D → α)
  | perTest (l : List (Fin C → Fin D → α))
def OffArg.get (o : OffArg C D α) (j : Nat) : Fin C → Fin D → α :=
  match o with
  | .scalar x => fun _ _ => x
  | .shared o => o
  | .perTest l => l.getD j (fun _ _ => 0)

/-- `linear_scoring`: rows = models, columns = tests -/
def linearScoring (models : ModelsArg C D α) (ubm : UbmArg C D α) (tests : StatsArg C D α)
    (offs : OffArg C D α) (norm : Bool) (eps : α) : List (List α) :=
  models.means.map fun m =>
    (tests.list.zipIdx).map fun (st, j) => linearScore ubm.params.means ubm.params.variances m st (offs.get j) norm eps
end
end BobEM
