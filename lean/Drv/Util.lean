import Lean.Data.Json
import BobEM.Model.Basic
/-! JSON line protocol helpers.  Floats travel as their IEEE-754 bit patterns (naturals). -/
open Lean

namespace Drv
def nan : Float := 0.0 / 0.0
def getJ (j : Json) (k : String) : Json := (j.getObjVal? k).toOption.getD Json.null
def rdF (j : Json) : Float := match j.getNat? with | .ok n => Float.ofBits n.toUInt64 | _ => nan
def rdN (j : Json) : Nat := j.getNat?.toOption.getD 0
def rdB (j : Json) : Bool := j.getBool?.toOption.getD false
def rdS (j : Json) : String := j.getStr?.toOption.getD ""
def rdA (j : Json) : Array Json := match j.getArr? with | .ok a => a | _ => #[]
def rd1 (j : Json) : Array Float := (rdA j).map rdF
def rd2 (j : Json) : Array (Array Float) := (rdA j).map rd1
def rd3 (j : Json) : Array (Array (Array Float)) := (rdA j).map rd2
def f1 (a : Array Float) {n : Nat} : Fin n → Float := fun i => a[i.val]!
def f2 (a : Array (Array Float)) {n m : Nat} : Fin n → Fin m → Float := fun i j => a[i.val]![j.val]!
def f3 (a : Array (Array (Array Float))) {n m k : Nat} : Fin n → Fin m → Fin k → Float :=
  fun i j l => a[i.val]![j.val]![l.val]!
/-- rows of a 2-D array as a list of samples -/
def rows (a : Array (Array Float)) {d : Nat} : List (Fin d → Float) := a.toList.map fun r => f1 r

def oF (x : Float) : Json := toJson x.toBits.toNat
def o1 {n : Nat} (f : Fin n → Float) : Json := Json.arr (Array.ofFn fun i => oF (f i))
def o2 {n m : Nat} (f : Fin n → Fin m → Float) : Json := Json.arr (Array.ofFn fun i => o1 (f i))
def o3 {n m k : Nat} (f : Fin n → Fin m → Fin k → Float) : Json := Json.arr (Array.ofFn fun i => o2 (f i))
def oL (l : List Float) : Json := Json.arr (l.toArray.map oF)
def obj (l : List (String × Json)) : Json := Json.mkObj l
end Drv
