import Drv.Util
import BobEM.Model.Hdf5
open Lean BobEM.H5 Drv

namespace Drv
def rdThr (j : Json) (C D : Nat) : Thr C D Float :=
  match rdS (getJ j "kind") with
  | "scalar" => .scalar (rdF (getJ j "val"))
  | "row" => .row (f1 (rd1 (getJ j "val")))
  | _ => .full (f2 (rd2 (getJ j "val")))
def oThr {C D : Nat} : Thr C D Float → Json
  | .scalar x => obj [("kind", "scalar"), ("val", oF x)]
  | .row r => obj [("kind", "row"), ("val", o1 r)]
  | .full m => obj [("kind", "full"), ("val", o2 m)]
def rdOptNat (j : Json) : Option Nat := match j with | Json.null => none | x => some (rdN x)
def rdOptF (j : Json) : Option Float := match j with | Json.null => none | x => some (rdF x)
def oOptNat : Option Nat → Json | none => Json.null | some n => toJson n
def oOptF : Option Float → Json | none => Json.null | some x => oF x

def rdMachine (j : Json) (C D : Nat) : Machine C D Float :=
  { trainer := rdS (getJ j "trainer"), convThr := rdOptF (getJ j "conv"), maxSteps := rdOptNat (getJ j "steps"),
    weights := f1 (rd1 (getJ j "w")), means := f2 (rd2 (getJ j "m")), variances := f2 (rd2 (getJ j "v")),
    thresholds := rdThr (getJ j "thr") C D, updMeans := rdB (getJ j "um"), updVars := rdB (getJ j "uv"),
    updWeights := rdB (getJ j "uw"), ubm := rdOptNat (getJ j "ubm") }
def oMachine {C D : Nat} (m : Machine C D Float) : Json :=
  obj [("trainer", Json.str m.trainer), ("conv", oOptF m.convThr), ("steps", oOptNat m.maxSteps), ("w", o1 m.weights),
       ("m", o2 m.means), ("v", o2 m.variances), ("thr", oThr m.thresholds), ("um", toJson m.updMeans),
       ("uv", toJson m.updVars), ("uw", toJson m.updWeights), ("ubm", oOptNat m.ubm)]
def oVal {C D : Nat} : Val C D Float → Json
  | .int n => obj [("t", "int"), ("v", toJson n)]
  | .float x => obj [("t", "float"), ("v", oF x)]
  | .bool b => obj [("t", "bool"), ("v", toJson b)]
  | .bytes s => obj [("t", "bytes"), ("v", Json.str s)]
  | .vecC v => obj [("t", "vec"), ("v", o1 v)]
  | .matCD m => obj [("t", "mat"), ("v", o2 m)]
  | .thr t => obj [("t", "thr"), ("v", oThr t)]
def oErr : Err → Json
  | .needsUbm => "needs-ubm"
  | .missing k => Json.str s!"missing {k}"
  | .badType k => Json.str s!"bad-type {k}"

/-- h5_machine: the file `save` writes, and what `from_hdf5(file, ubm=offer)` returns -/
def opH5Machine (j : Json) : Json :=
  let C := rdN (getJ j "C"); let D := rdN (getJ j "D")
  let m := rdMachine j C D
  let file := save m
  let loaded : Json := match fromFile file (rdOptNat (getJ j "offer")) with
    | .ok m' => oMachine m'
    | .error e => obj [("err", oErr e)]
  obj [("file", Json.arr (file.toArray.map fun e => Json.arr #[Json.str e.1, oVal e.2])), ("loaded", loaded)]

/-- h5_stats: the file `GMMStats.save` writes and what reading it returns -/
def opH5Stats (j : Json) : Json :=
  let C := rdN (getJ j "C"); let D := rdN (getJ j "D")
  let s : StatsRec C D Float := { ll := rdF (getJ j "ll"), t := rdN (getJ j "t"), n := f1 (rd1 (getJ j "n")),
                                  px := f2 (rd2 (getJ j "px")), pxx := f2 (rd2 (getJ j "pxx")) }
  let file := saveStats s
  let loaded : Json := match statsFromFile file with
    | .ok r => obj [("ll", oF r.ll), ("t", toJson r.t), ("n", o1 r.n), ("px", o2 r.px), ("pxx", o2 r.pxx)]
    | .error e => obj [("err", oErr e)]
  obj [("file", Json.arr (file.toArray.map fun e => Json.arr #[Json.str e.1, oVal e.2])), ("loaded", loaded)]
end Drv
