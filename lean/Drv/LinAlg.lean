import BobEM.Model.Basic
/-! Float instances of the external linear-algebra routines: ordinary textbook algorithms
(Gauss–Jordan with partial pivoting, Cholesky–Banachiewicz); compared against LAPACK's results by
the correspondence. -/
namespace Drv
def gaussInv (n : Nat) (A : Fin n → Fin n → Float) : Fin n → Fin n → Float := Id.run do
  let mut M : Array (Array Float) := Array.ofFn fun i : Fin n =>
    (Array.ofFn fun j : Fin n => A i j) ++ (Array.ofFn fun j : Fin n => if i = j then 1.0 else 0.0)
  for col in [0:n] do
    let mut piv := col
    for r in [col+1:n] do
      if (M[r]!)[col]!.abs > (M[piv]!)[col]!.abs then piv := r
    let tmp := M[col]!; M := M.set! col (M[piv]!); M := M.set! piv tmp
    let p := (M[col]!)[col]!
    M := M.set! col ((M[col]!).map (· / p))
    for r in [0:n] do
      if r != col then
        let fct := (M[r]!)[col]!
        let rowc := M[col]!
        M := M.set! r ((M[r]!).mapIdx fun j v => v - fct * rowc[j]!)
  let R := M
  return fun i j => (R[i.val]!)[n + j.val]!

/-- lower-triangular `L` with `L Lᵀ = A` -/
def cholLower (n : Nat) (A : Fin n → Fin n → Float) : Fin n → Fin n → Float := Id.run do
  let mut L : Array (Array Float) := Array.replicate n (Array.replicate n 0.0)
  for i in [0:n] do
    for j in [0:i+1] do
      let mut s := 0.0
      for k in [0:j] do
        s := s + (L[i]!)[k]! * (L[j]!)[k]!
      let aij := if h : i < n ∧ j < n then A ⟨i, h.1⟩ ⟨j, h.2⟩ else 0.0
      if i == j then
        L := L.set! i ((L[i]!).set! j (Float.sqrt (aij - s)))
      else
        L := L.set! i ((L[i]!).set! j ((aij - s) / (L[j]!)[j]!))
  let R := L
  return fun i j => (R[i.val]!)[j.val]!
end Drv
instance : LinAlg Float := ⟨Drv.gaussInv⟩
