import Drv.Util
import Drv.LinAlg
import BobEM.Model.IVector
import BobEM.Model.Tree
open Lean BobEM BobEM.IV Drv

namespace Drv
def rdIVM (j : Json) (C D R : Nat) : Machine C D R Float :=
  { ubmMeans := f2 (rd2 (getJ j "m")), T := f3 (rd3 (getJ j "T")), sigma := f2 (rd2 (getJ j "sigma")) }
def rdGStat (j : Json) (C D : Nat) : GStat C D Float :=
  { n := f1 (rd1 (getJ j "n")), f := f2 (rd2 (getJ j "f")), s := f2 (rd2 (getJ j "s")) }
def oIVStats {C D R : Nat} (s : Stats C D R Float) : Json :=
  obj [("nsw2", o3 s.nsw2), ("fsw", o3 s.fsw), ("snorm", o2 s.snorm), ("nij", o1 s.nij)]

/-- iv: projection of every statistic, E-step accumulators, one M-step and `iters` training iterations
over the given partitioning of the statistics -/
def opIV (j : Json) : Json :=
  let C := rdN (getJ j "C"); let D := rdN (getJ j "D"); let R := rdN (getJ j "R")
  let m := materialize (rdIVM j C D R)
  let parts : List (List (GStat C D Float)) := (rdA (getJ j "parts")).toList.map fun p => (rdA p).toList.map fun s => rdGStat s C D
  let upd := rdB (getJ j "update_sigma"); let floor := rdF (getJ j "floor")
  let all := parts.flatten
  let st := eStep m all
  let m1 := materialize (mStep m st upd floor)
  let mk := fit m parts upd floor (rdN (getJ j "iters"))
  obj [("proj", Json.arr ((all.map fun s => o1 (project m s)).toArray)), ("stats", oIVStats st),
       ("T1", o3 m1.T), ("sigma1", o2 m1.sigma), ("Tk", o3 mk.T), ("sigmak", o2 mk.sigma)]

/-- tree_reduce: the pairwise reduction of `IVectorMachine.fit` on recorded per-partition vectors -/
def opTreeReduce (j : Json) : Json :=
  let items : List (Array Float) := (rdA (getJ j "items")).toList.map rd1
  let add := fun (a b : Array Float) => Array.zipWith (· + ·) a b
  let r := treeReduce add items.length items
  obj [("result", Json.arr (r.toArray.map fun a => Json.arr (a.map oF))),
       ("levels", toJson (Nat.log2 (items.length * 2 - 1)))]
end Drv
