import Drv.Gmm
import BobEM.Model.LinearScoring
open Lean BobEM Drv

namespace Drv
def rdLStat (j : Json) (C D : Nat) : LStat C D Float :=
  { n := f1 (rd1 (getJ j "n")), sumPx := f2 (rd2 (getJ j "px")), t := rdF (getJ j "t") }

/-- linear_scoring with its argument normalisation -/
def opLinearScoring (j : Json) : Json :=
  let C := rdN (getJ j "C"); let D := rdN (getJ j "D")
  let means : List (Fin C → Fin D → Float) := (rdA (getJ j "models")).toList.map fun m => f2 (rd2 m)
  let mkP := fun (m : Fin C → Fin D → Float) => ({ weights := fun _ => 0, means := m, variances := fun _ _ => 1 } : Params C D Float)
  let models : ModelsArg C D Float := match rdS (getJ j "models_kind") with
    | "machines" => .machines (means.map mkP)
    | "array2" => .array2 (means.headD fun _ _ => 0)
    | _ => .array3 means
  let prior : Params C D Float := { weights := fun _ => 0, means := f2 (rd2 (getJ j "um")), variances := f2 (rd2 (getJ j "uv")) }
  let ubm : UbmArg C D Float := if rdB (getJ j "ubm_is_map") then .map (mkP (f2 (rd2 (getJ j "adapted")))) prior else .ml prior
  let sts := (rdA (getJ j "tests")).toList.map fun s => rdLStat s C D
  let tests : StatsArg C D Float := if rdB (getJ j "single_stat") then .one (sts.headD ⟨fun _ => 0, fun _ _ => 0, 0⟩) else .many sts
  let offs : OffArg C D Float := match rdS (getJ j "off_kind") with
    | "scalar" => .scalar (rdF (getJ j "off"))
    | "shared" => .shared (f2 (rd2 (getJ j "off")))
    | _ => .perTest ((rdA (getJ j "off")).toList.map fun o => f2 (rd2 o))
  let r := linearScoring models ubm tests offs (rdB (getJ j "norm")) 2.220446049250313e-16
  obj [("scores", Json.arr (r.toArray.map oL))]
end Drv
