import Drv.Util
import BobEM.Model.Rng
open Lean BobEM.Rng Drv

namespace Drv
def rdSource (s : String) : Source :=
  match s with | "reseedGlobal" => .reseedGlobal | "localGen" => .localGen | "globalAsIs" => .globalAsIs | _ => .none
def rdRngOp (j : Json) : Op :=
  match rdS (getJ j "k") with
  | "seed" => .globalSeed (rdN (getJ j "s"))
  | "draw" => .globalDraw (rdN (getJ j "n"))
  | _ => .fit { est := rdN (getJ j "est"), cfg := rdN (getJ j "cfg"), data := rdN (getJ j "data"),
                randomState := (match getJ j "rs" with | Json.null => none | x => some (rdN x)),
                source := rdSource (rdS (getJ j "source")), draws := rdN (getJ j "draws") }
def oG (g : G) : Json := obj [("seed", match g.seed with | none => Json.null | some s => toJson s), ("drawn", toJson g.drawn)]
/-- rng_keys: provenance key of every fit of a history (process start: global generator unseeded) -/
def opRngKeys (j : Json) : Json :=
  let ops := (rdA (getJ j "ops")).toList.map rdRngOp
  let ks := keys ⟨none, 0⟩ ops
  obj [("keys", Json.arr (ks.toArray.map fun k => match k with
    | none => Json.null
    | some k => obj [("est", toJson k.est), ("cfg", toJson k.cfg), ("data", toJson k.data),
                     ("gen", match k.gen with | none => Json.null | some g => oG g)]))]
end Drv
