import Drv.Util
import Drv.LinAlg
import BobEM.Model.FATrain
open Lean BobEM.FA Drv

namespace Drv
def rdFAModel (j : Json) (C D rU rV : Nat) : Model C D rU rV Float :=
  { m := f2 (rd2 (getJ j "m")), s := f2 (rd2 (getJ j "s")), U := f3 (rd3 (getJ j "U")), V := f3 (rd3 (getJ j "V")),
    Dd := f2 (rd2 (getJ j "Dd")) }
def rdSt (j : Json) (C D : Nat) : St C D Float :=
  { n := f1 (rd1 (getJ j "n")), f := f2 (rd2 (getJ j "f")), t := rdF (getJ j "t") }
def rdSts (j : Json) (C D : Nat) : List (St C D Float) := (rdA j).toList.map fun s => rdSt s C D

/-- fa_enroll: `enroll_iterations` sweeps from zero; returns y, every x_h, z after the last sweep -/
def opFaEnroll (j : Json) : Json :=
  let C := rdN (getJ j "C"); let D := rdN (getJ j "D"); let rU := rdN (getJ j "rU"); let rV := rdN (getJ j "rV")
  let M := rdFAModel j C D rU rV
  let sts := rdSts (getJ j "sts") C D
  let l := (enrollV M sts (rdN (getJ j "iters"))).ofV
  obj [("y", o1 l.y), ("xs", Json.arr (l.xs.toArray.map o1)), ("z", o2 l.z), ("logpost", oF (logPost M sts l))]

/-- fa_blocks: the three block updates from given latent values -/
def opFaBlocks (j : Json) : Json :=
  let C := rdN (getJ j "C"); let D := rdN (getJ j "D"); let rU := rdN (getJ j "rU"); let rV := rdN (getJ j "rV")
  let M := rdFAModel j C D rU rV
  let sts := rdSts (getJ j "sts") C D
  let y : Fin rV → Float := f1 (rd1 (getJ j "y"))
  let z : Fin C → Fin D → Float := f2 (rd2 (getJ j "z"))
  let xs : List (Fin rU → Float) := (rdA (getJ j "xs")).toList.map fun x => f1 (rd1 x)
  obj [("y", o1 (updateY M sts xs z)), ("y_old", o1 (updateYG (-1) M sts xs z)),
       ("xs", Json.arr ((sts.map fun s => o1 (latentX M s y z)).toArray)), ("z", o2 (updateZ M sts xs y))]

/-- fa_score: x̂, U x̂ and the score of (y, z) against the probe statistics -/
def opFaScore (j : Json) : Json :=
  let C := rdN (getJ j "C"); let D := rdN (getJ j "D"); let rU := rdN (getJ j "rU"); let rV := rdN (getJ j "rV")
  let M := rdFAModel j C D rU rV
  let sts := rdSts (getJ j "sts") C D
  let y : Fin rV → Float := f1 (rd1 (getJ j "y"))
  let z : Fin C → Fin D → Float := f2 (rd2 (getJ j "z"))
  let xh : Fin rU → Float := f1 (Array.ofFn (estimateX M sts))
  let M' := M
  obj [("x", o1 xh), ("ux", o2 (apply M'.U xh)), ("score", oF (score M y z sts 2.220446049250313e-16))]
end Drv

namespace Drv
open BobEM.FA in
def rdClasses (j : Json) (C D : Nat) : List (List (St C D Float)) := (rdA j).toList.map fun c => rdSts c C D
open BobEM.FA in
def oAcc {C D r : Nat} (a : Acc C D r Float) : Json := obj [("a1", o3 a.a1), ("a2", o3 a.a2)]

/-- fa_train: accumulators of the first V / U / D / ISV E-step over all classes, and the result of
`fit` with `iters` iterations per phase -/
def opFaTrain (j : Json) : Json :=
  open BobEM.FA in
  let C := rdN (getJ j "C"); let D := rdN (getJ j "D"); let rU := rdN (getJ j "rU"); let rV := rdN (getJ j "rV")
  let M := materialize (rdFAModel j C D rU rV)
  let classes := rdClasses (getJ j "classes") C D
  let k := rdN (getJ j "iters")
  if rdB (getJ j "jfa") then
    let accV := Acc.sum (classes.map (eStepV M))
    let ys := finalizeV M classes
    let accU := Acc.sum ((classes.zip ys).map fun (sts, y) => eStepU M sts y)
    let xss := finalizeU M classes ys
    let accD := AccD.sum (((classes.zip xss).zip ys).map fun ((sts, xs), y) => eStepD M sts xs y)
    let Mf := jfaFit M classes k
    obj [("accV", oAcc accV), ("accU", oAcc accU), ("accD", obj [("a1", o2 accD.a1), ("a2", o2 accD.a2)]),
         ("ys", Json.arr (ys.toArray.map o1)), ("U", o3 Mf.U), ("V", o3 Mf.V), ("Dd", o2 Mf.Dd)]
  else
    let accU := Acc.sum (classes.map (eStepIsv M))
    let Mf := isvFit M classes k
    obj [("accU", oAcc accU), ("U", o3 Mf.U), ("V", o3 Mf.V), ("Dd", o2 Mf.Dd)]
end Drv
