import Drv.Util
import BobEM.Model.Sched
import BobEM.Model.Regroup
open Lean BobEM.Sched Drv

namespace Drv
def rdNatList (j : Json) : List Nat := (rdA j).toList.map rdN
/-- sched_check: the model's discipline / shape / isolation checks on a recorded task graph -/
def opSchedCheck (j : Json) : Json :=
  let g : List TaskEff := (rdA (getJ j "tasks")).toList.map fun t =>
    { id := rdN (getJ t "id"), deps := rdNatList (getJ t "deps"), reads := rdNatList (getJ t "reads"), writes := rdNatList (getJ t "writes") }
  let final := rdN (getJ j "final")
  let workers := rdNatList (getJ j "workers")
  let conflict : Json := match firstConflict g with | none => Json.null | some (a, b) => Json.arr #[toJson a, toJson b]
  obj [("disciplined", toJson (disciplined g)), ("conflict", conflict), ("fan_in", toJson (fanIn g final workers)),
       ("isolation_ok", toJson (isolationOk g final (rdNatList (getJ j "shared")) (rdNatList (getJ j "copyback")))),
       ("topo_ordered", toJson (topoOrdered g)), ("exactly_once", toJson (exactlyOnce g final workers)),
       ("path_counts", toJson (workers.map fun w => pathCount g workers w final))]
end Drv

namespace Drv
open BobEM.Regroup in
/-- prepare_dask_input: regrouping of a partitioned bag (items named by naturals) into per-class lists -/
def opPrepare (j : Json) : Json :=
  let parts : List (List Nat) := (rdA (getJ j "partitions")).toList.map rdNatList
  let y := rdNatList (getJ j "y")
  let K := rdN (getJ j "K")
  obj [("classes", toJson (prepare parts y K)), ("labels", toJson (labelLists y K))]
end Drv
