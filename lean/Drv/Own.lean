import Drv.Util
import BobEM.Model.Own
open Lean BobEM.Own Drv

namespace Drv
def rdNats (j : Json) : List Nat := (rdA j).toList.map rdN
/-- own_check: run the ownership discipline over observed call effects -/
def opOwnCheck (j : Json) : Json :=
  let w : World := { caller := rdNats (getJ j "caller"), est := [] }
  let es : List Effect := (rdA (getJ j "calls")).toList.map fun c =>
    { writes := rdNats (getJ c "writes"), holds := rdNats (getJ c "holds"), handedOver := rdNats (getJ c "handed") }
  let first : Json := match firstViolation w es 0 with | none => Json.null | some i => toJson i
  obj [("first", first), ("est", toJson (es.foldl World.step w).est)]
end Drv
