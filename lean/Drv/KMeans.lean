import Drv.Util
import BobEM.Model.KMeans
open Lean BobEM Drv

namespace Drv
def oKStats {K D : Nat} (s : KStats K D Float) : Json :=
  obj [("n", Json.arr (Array.ofFn fun k : Fin K => toJson (s.n k))), ("sums", o2 s.sums), ("dist", oF s.dist)]

def rdBlocks (j : Json) (D : Nat) : List (List (Fin D → Float)) := (rdA j).toList.map fun b => rows (rd2 b)

/-- kmeans_iter: per-block E-step statistics, their fold, the M-step and both criteria -/
def opKMeansIter (j : Json) : Json :=
  let K := rdN (getJ j "K"); let D := rdN (getJ j "D")
  match K with
  | 0 => obj [("err", "no-clusters")]
  | K'+1 =>
    let cent : Fin (K'+1) → Fin D → Float := f2 (rd2 (getJ j "cent"))
    let blocks := rdBlocks (getJ j "blocks") D
    let per := blocks.map (kEStep cent)
    let it := kIter blocks cent
    obj [("per", Json.arr (per.toArray.map oKStats)), ("cent", o2 it.1), ("crit", oF it.2),
         ("crit_old", oF (kCritOld cent blocks))]

/-- kmeans_dist: distance matrix (both forms) and labels -/
def opKMeansDist (j : Json) : Json :=
  let K := rdN (getJ j "K"); let D := rdN (getJ j "D")
  match K with
  | 0 => obj [("err", "no-clusters")]
  | K'+1 =>
    let cent : Fin (K'+1) → Fin D → Float := f2 (rd2 (getJ j "cent"))
    let xs : List (Fin D → Float) := rows (rd2 (getJ j "x"))
    obj [("dist", Json.arr (Array.ofFn fun k : Fin (K'+1) => oL (distances cent xs k))),
         ("dist_dask", Json.arr (Array.ofFn fun k : Fin (K'+1) => oL (xs.map fun x => sqDistDask x (cent k)))),
         ("labels", Json.arr ((predict cent xs).toArray.map fun k => toJson k.val))]

/-- kmeans_vw: cluster variances and weights over row blocks, and the GMM initialised from them -/
def opKMeansVW (j : Json) : Json :=
  let K := rdN (getJ j "K"); let D := rdN (getJ j "D")
  match K with
  | 0 => obj [("err", "no-clusters")]
  | K'+1 =>
    let cent : Fin (K'+1) → Fin D → Float := f2 (rd2 (getJ j "cent"))
    let blocks := rdBlocks (getJ j "blocks") D
    let vw := varsWeights cent blocks
    let gi := gmmInitFromKMeans cent blocks (f2 (rd2 (getJ j "floor")))
    obj [("var", o2 vw.1), ("w", o1 vw.2), ("g_w", o1 gi.weights), ("g_m", o2 gi.means), ("g_v", o2 gi.variances)]
end Drv
