import Drv.Gmm
import BobEM.Model.GmmState
open Lean BobEM Drv

namespace Drv
/-- the assignments `ml_gmm_m_step` performs, from the model's own M-step pieces -/
def mlAssign {C D : Nat} (cfg : MlCfg C D Float) (w : Fin C → Float) (st : Stats C D Float) : Assign C D Float :=
  let p0 : Params C D Float := { weights := w, means := fun _ _ => 0, variances := fun _ _ => 0 }
  { weights := if cfg.updWeights then some (mlMStep cfg p0 st (Float.ofNat st.t)).weights else none
    means := if cfg.updMeans then some fun cur => mlMeans cfg { p0 with means := cur } st else none
    variances := if cfg.updVars then
        some fun m cur c d => if st.n c < cfg.countThr then cur c d
          else mlRawVar { cfg with updMeans := false } { p0 with means := m } st c d
      else none }

/-- the assignments `map_gmm_m_step` performs (weights and means; variances only via `sq`) -/
def mapAssign {C D : Nat} (cfg : MapCfg C D Float) (ubm : Params C D Float) (w : Fin C → Float) (st : Stats C D Float) :
    Assign C D Float :=
  let p0 : Params C D Float := { weights := w, means := fun _ _ => 0, variances := fun _ _ => 0 }
  { weights := if cfg.updWeights then some (mapWeights cfg ubm p0 st (Float.ofNat st.t)) else none
    means := if cfg.updMeans then some fun _ => mapMeans cfg ubm p0 st else none
    variances := if cfg.updVars then
        some fun m _ => mapRawVarG (fun x => x * x) { cfg with updMeans := false } ubm { p0 with means := m } st
      else none }

def rdOp (j : Json) (C D : Nat) (cur : GStateV C D Float) : GOp C D Float :=
  match rdS (getJ j "k") with
  | "w" => .setWeights (f1 (rd1 (getJ j "val")))
  | "m" => .setMeans (f2 (rd2 (getJ j "val")))
  | "v" => .setVariances (f2 (rd2 (getJ j "val")))
  | "t" => .setThresholds (f2 (rd2 (getJ j "val")))
  | "ml" => .mStep (mlAssign (rdMlCfg j C D) (fun1 cur.weights) (rdStats (getJ j "st") C D))
  | "map" => .mStep (mapAssign (rdMapCfg j C D) (rdParams (getJ j "ubm") C D) (fun1 cur.weights) (rdStats (getJ j "st") C D))
  | _ => .clone

/-- gmm_ops: run an operation sequence on the state machine; after every operation report the
visible variances and the log-likelihoods of the probe samples computed from the caches -/
def opGmmOps (j : Json) : Json :=
  let C := rdN (getJ j "C"); let D := rdN (getJ j "D")
  match C with
  | 0 => obj [("err", "no-components")]
  | C'+1 =>
    let xs : List (Fin D → Float) := rows (rd2 (getJ j "x"))
    let s0 : GStateV (C'+1) D Float := (GState.init (f1 (rd1 (getJ j "w"))) (rdF (getJ j "thr"))).toV
    let (_, outs) := (rdA (getJ j "ops")).foldl (init := (s0, (#[] : Array Json))) fun (s, acc) oj =>
      let s' := s.step (rdOp oj (C'+1) D s)
      let sp := s'.ofV
      let v : Json := match sp.variances with | some v => o2 v | none => Json.null
      let ll : Json := Json.arr ((xs.map fun x => match sp.logLik? x with | some l => oF l | none => Json.null).toArray)
      (s', acc.push (obj [("v", v), ("ll", ll), ("w", o1 sp.weights)]))
    obj [("steps", Json.arr outs)]
end Drv
