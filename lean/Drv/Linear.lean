import Drv.Util
import Drv.LinAlg
import BobEM.Model.Linear
open Lean BobEM.Lin Drv

namespace Drv
def rdInts (j : Json) : Array Int := (rdA j).map fun x => x.getInt?.toOption.getD 0

def opWhiten (j : Json) : Json :=
  let N := rdN (getJ j "N"); let D := rdN (getJ j "D")
  let X : Fin N → Fin D → Float := f2 (rd2 (getJ j "x"))
  let p0 := (whitenFitV cholLower X).toProj
  let p : Proj D Float := { weights := f2 (Array.ofFn fun a : Fin D => Array.ofFn fun b : Fin D => p0.weights a b),
                            subtract := f1 (Array.ofFn fun a : Fin D => p0.subtract a) }
  obj [("weights", o2 p.weights), ("subtract", o1 p.subtract), ("y", o2 (fun n : Fin N => project p (X n)))]

def opWccn (j : Json) : Json :=
  let N := rdN (getJ j "N"); let D := rdN (getJ j "D")
  let X : Fin N → Fin D → Float := f2 (rd2 (getJ j "x"))
  let ya := rdInts (getJ j "labels")
  let y : Fin N → Int := fun n => ya[n.val]!
  let classes := (rdInts (getJ j "classes")).toList
  let p0 := (wccnFitV cholLower X y classes).toProj
  let p : Proj D Float := { weights := f2 (Array.ofFn fun a : Fin D => Array.ofFn fun b : Fin D => p0.weights a b),
                            subtract := fun _ => 0 }
  obj [("weights", o2 p.weights), ("y", o2 (fun n : Fin N => project p (X n)))]
end Drv
