import Drv.Util
import BobEM.Model.Gmm
open Lean BobEM Drv

namespace Drv
def rdParams (j : Json) (C D : Nat) : Params C D Float :=
  { weights := f1 (rd1 (getJ j "w")), means := f2 (rd2 (getJ j "m")), variances := f2 (rd2 (getJ j "v")) }
def oParams {C D : Nat} (p : Params C D Float) : List (String × Json) :=
  [("w", o1 p.weights), ("m", o2 p.means), ("v", o2 p.variances)]
def rdStats (j : Json) (C D : Nat) : Stats C D Float :=
  { n := f1 (rd1 (getJ j "n")), sumPx := f2 (rd2 (getJ j "px")), sumPxx := f2 (rd2 (getJ j "pxx")),
    ll := rdF (getJ j "ll"), t := rdN (getJ j "t") }
def oStats {C D : Nat} (s : Stats C D Float) : List (String × Json) :=
  [("n", o1 s.n), ("px", o2 s.sumPx), ("pxx", o2 s.sumPxx), ("ll", oF s.ll), ("t", toJson s.t)]

/-- gmm_ll: per-component weighted log-likelihoods and log-likelihood of every row -/
def opGmmLl (j : Json) : Json :=
  let C := rdN (getJ j "C"); let D := rdN (getJ j "D")
  match C with
  | 0 => obj [("err", "no-components")]
  | C'+1 =>
    let p : Params (C'+1) D Float := rdParams j (C'+1) D
    let xs : List (Fin D → Float) := rows (rd2 (getJ j "x"))
    obj [("lwl", Json.arr ((Array.ofFn fun c : Fin (C'+1) => oL (xs.map fun x => lwl p x c)))),
         ("ll", oL (xs.map (logLik p)))]

/-- gmm_estep on a list of row blocks: per-block statistics, their left fold with `add`, and the
statistics of the concatenation -/
def opGmmEstep (j : Json) : Json :=
  let C := rdN (getJ j "C"); let D := rdN (getJ j "D")
  match C with
  | 0 => obj [("err", "no-components")]
  | C'+1 =>
    let p : Params (C'+1) D Float := rdParams j (C'+1) D
    let blocks : List (List (Fin D → Float)) := (rdA (getJ j "blocks")).toList.map fun b => rows (rd2 b)
    let per := blocks.map (eStep p)
    let folded := per.foldl Stats.add Stats.zero
    let whole := eStep p blocks.flatten
    obj [("per", Json.arr (per.toArray.map fun s => obj (oStats s))),
         ("folded", obj (oStats folded)), ("whole", obj (oStats whole))]

def rdMlCfg (j : Json) (C D : Nat) : MlCfg C D Float :=
  { updMeans := rdB (getJ j "um"), updVars := rdB (getJ j "uv"), updWeights := rdB (getJ j "uw"),
    countThr := rdF (getJ j "thr"), varFloor := f2 (rd2 (getJ j "floor")) }

def opGmmMstepMl (j : Json) : Json :=
  let C := rdN (getJ j "C"); let D := rdN (getJ j "D")
  let p : Params C D Float := rdParams j C D
  let st : Stats C D Float := rdStats (getJ j "st") C D
  let cfg := rdMlCfg j C D
  let p' := mlMStep cfg p st (Float.ofNat st.t)
  let old : Fin C → Fin D → Float := fun c d => max (cfg.varFloor c d) (mlRawVarOld cfg p st c d)
  obj (oParams p' ++ [("v_old", o2 old)])

def rdMapCfg (j : Json) (C D : Nat) : MapCfg C D Float :=
  { updMeans := rdB (getJ j "um"), updVars := rdB (getJ j "uv"), updWeights := rdB (getJ j "uw"),
    reynolds := rdB (getJ j "reynolds"), relevance := rdF (getJ j "r"), alphaFixed := rdF (getJ j "alpha"),
    countThr := rdF (getJ j "thr"), varFloor := f2 (rd2 (getJ j "floor")) }

def opGmmMstepMap (j : Json) : Json :=
  let C := rdN (getJ j "C"); let D := rdN (getJ j "D")
  let p : Params C D Float := rdParams j C D
  let ubm : Params C D Float := rdParams (getJ j "ubm") C D
  let st : Stats C D Float := rdStats (getJ j "st") C D
  let cfg := rdMapCfg j C D
  let ps := mapMStepSpec cfg ubm p st (Float.ofNat st.t)
  let pc := mapMStepCode cfg ubm p st (Float.ofNat st.t)
  obj (oParams ps ++ [("v_code", o2 pc.variances)])
end Drv

namespace Drv
def rdRaw (j : Json) : RawStats Float :=
  { nG := rdN (getJ j "nG"), nF := rdN (getJ j "nF"), ll := rdF (getJ j "ll"), t := rdN (getJ j "t"),
    n := rd1 (getJ j "n"), px := rd2 (getJ j "px"), pxx := rd2 (getJ j "pxx") }
/-- stats_add: `a + b` / `a += b` with the declared-shape check -/
def opStatsAdd (j : Json) : Json :=
  match (rdRaw (getJ j "a")).add? (rdRaw (getJ j "b")) with
  | none => obj [("err", "shape-mismatch")]
  | some s => obj [("nG", toJson s.nG), ("nF", toJson s.nF), ("ll", oF s.ll), ("t", toJson s.t),
      ("n", Json.arr (s.n.map oF)), ("px", Json.arr (s.px.map fun r => Json.arr (r.map oF))),
      ("pxx", Json.arr (s.pxx.map fun r => Json.arr (r.map oF)))]
end Drv

namespace Drv
/-- em_stop: the EM loop's stopping rule replayed on a recorded criterion sequence -/
def opEmStop (j : Json) : Json :=
  let thr : Option Float := match getJ j "thr" with | Json.null => none | t => some (rdF t)
  let crit := rd1 (getJ j "crit")
  obj [("k", toJson (stopIndex thr (rdN (getJ j "fuel")) crit))]
end Drv
