import Drv.Util
import Drv.Gmm
import Drv.KMeans
import Drv.GmmState
import Drv.Hdf5
import Drv.LinearScoring
import Drv.Linear
import Drv.FA
import Drv.Own
import Drv.Rng
import Drv.Sched
import Drv.IVector
open Lean Drv

def dispatch (j : Json) : Json :=
  match rdS (getJ j "op") with
  | "gmm_ll" => opGmmLl j
  | "gmm_estep" => opGmmEstep j
  | "gmm_mstep_ml" => opGmmMstepMl j
  | "gmm_mstep_map" => opGmmMstepMap j
  | "stats_add" => opStatsAdd j
  | "em_stop" => opEmStop j
  | "kmeans_iter" => opKMeansIter j
  | "gmm_ops" => opGmmOps j
  | "h5_machine" => opH5Machine j
  | "h5_stats" => opH5Stats j
  | "linear_scoring" => opLinearScoring j
  | "whiten" => opWhiten j
  | "wccn" => opWccn j
  | "fa_enroll" => opFaEnroll j
  | "fa_blocks" => opFaBlocks j
  | "fa_score" => opFaScore j
  | "fa_train" => opFaTrain j
  | "own_check" => opOwnCheck j
  | "rng_keys" => opRngKeys j
  | "sched_check" => opSchedCheck j
  | "prepare_dask_input" => opPrepare j
  | "iv" => opIV j
  | "tree_reduce" => opTreeReduce j
  | "kmeans_dist" => opKMeansDist j
  | "kmeans_vw" => opKMeansVW j
  | op => obj [("err", Json.str s!"bad-op {op}")]

partial def loop (h : IO.FS.Stream) (out : IO.FS.Stream) : IO Unit := do
  let line ← h.getLine
  if line.isEmpty then return ()
  match Json.parse line with
  | .ok j => out.putStrLn (Json.compress (dispatch j))
  | .error e => out.putStrLn (Json.compress (obj [("err", Json.str s!"bad-json {e}")]))
  loop h out

def main : IO Unit := do loop (← IO.getStdin) (← IO.getStdout)
