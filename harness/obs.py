"""Observation helpers: record what a fit loop did by wrapping a module-level function from outside."""
import numpy as np

import core


_SLOTS = {}  # (module name, attr) -> {"orig": fn, "extract": fn, "seen": list}


def _call_slot(key, *a, **k):
    slot = _SLOTS[key]
    out = slot["orig"](*a, **k)
    slot["seen"].append(slot["extract"](out))
    return out


def _wrapped_gmm_m_step(*a, **k):
    return _call_slot(("bob.learn.em.gmm", "m_step"), *a, **k)


def _wrapped_kmeans_m_step(*a, **k):
    return _call_slot(("bob.learn.em.kmeans", "m_step"), *a, **k)


_WRAPPERS = {("bob.learn.em.gmm", "m_step"): _wrapped_gmm_m_step, ("bob.learn.em.kmeans", "m_step"): _wrapped_kmeans_m_step}


class Recorder:
    """Wrap `module.name` (looked up at call time by the code under test) and record `extract(result)`.
    The wrapper is a top-level function of this module, so cloudpickle ships it by reference and a task run on a
    pickled copy (isolating scheduler) still records into this process's slot."""

    def __init__(self, module, name, extract):
        self.module, self.name, self.extract = module, name, extract
        self.key = (module.__name__, name)
        self.seen = []

    def __enter__(self):
        self.orig = getattr(self.module, self.name)
        _SLOTS[self.key] = {"orig": self.orig, "extract": self.extract, "seen": self.seen}
        w = _WRAPPERS[self.key]
        w.__name__ = getattr(self.orig, "__name__", self.name)
        setattr(self.module, self.name, w)
        return self

    def __exit__(self, *a):
        setattr(self.module, self.name, self.orig)
        _SLOTS.pop(self.key, None)


def conv_values(L):
    out = []
    for j in range(1, len(L)):
        with np.errstate(all="ignore"):
            out.append(float(abs((np.float64(L[j - 1]) - np.float64(L[j])) / np.float64(L[j - 1]))))  # 0/0 = nan, x/0 = inf, as in NumPy
    return out


def py_stop_index(L, thr, cap):
    """independent statement of the stopping rule: first j>=2 with conv_j <= thr, else cap"""
    cv = conv_values(L)
    for j in range(2, cap + 1):
        if thr is not None and cv[j - 2] <= thr:
            return j
    return cap


def threshold_choices(rng, full, exact):
    conv = conv_values(full)
    choices = [None, 0.0]
    if conv:
        c = conv[int(rng.integers(0, len(conv)))]
        if np.isfinite(c) and c > 0:
            choices += [c * (1 + 1e-6), c * (1 - 1e-6)]
            if exact:
                choices += [c, float(np.nextafter(c, np.inf)), float(np.nextafter(c, -np.inf))]
    return choices
