"""Observation helpers: record what a fit loop did by wrapping a module-level function from outside."""
import numpy as np

import core


class Recorder:
    """Wrap `module.name` (looked up at call time by the code under test) and record `extract(result)`."""

    def __init__(self, module, name, extract):
        self.module, self.name, self.extract = module, name, extract
        self.seen = []

    def __enter__(self):
        self.orig = getattr(self.module, self.name)
        rec = self

        def wrapped(*a, **k):
            out = rec.orig(*a, **k)
            rec.seen.append(rec.extract(out))
            return out

        wrapped.__name__ = getattr(self.orig, "__name__", self.name)
        setattr(self.module, self.name, wrapped)
        return self

    def __exit__(self, *a):
        setattr(self.module, self.name, self.orig)


def conv_values(L):
    out = []
    for j in range(1, len(L)):
        with np.errstate(all="ignore"):
            out.append(abs((L[j - 1] - L[j]) / L[j - 1]))
    return out


def py_stop_index(L, thr, cap):
    """independent statement of the stopping rule: first j>=2 with conv_j <= thr, else cap"""
    cv = conv_values(L)
    for j in range(2, cap + 1):
        if thr is not None and cv[j - 2] <= thr:
            return j
    return cap


def threshold_choices(rng, full, exact):
    conv = conv_values(full)
    choices = [None, 0.0]
    if conv:
        c = conv[int(rng.integers(0, len(conv)))]
        if np.isfinite(c) and c > 0:
            choices += [c * (1 + 1e-6), c * (1 - 1e-6)]
            if exact:
                choices += [c, float(np.nextafter(c, np.inf)), float(np.nextafter(c, -np.inf))]
    return choices
