#!/venv/bin/python
"""check.py <Cxx> <quick|thorough>   |   check.py --replay <file>

Flow (DESIGN.md §2.3): environment -> proof obligations (lake build, axiom
audit, forbidden-token grep; thorough: leanchecker) -> corpus -> model/impl
correspondence -> failing-input search on the implementation -> verdict.
Exit 0: property held on everything explored.  Exit 1 + VIOLATION line.
Exit 2: infrastructure failure (never a verdict).
"""
import importlib
import json
import os
import sys
import time
import traceback

sys.path.insert(0, os.path.dirname(os.path.abspath(__file__)))
import core  # noqa: E402


# evidence/ and replays/ go under VERIF_OUT when set (used by seedtest.py so that runs against a changed copy of the
# repository (BOB_REPO) never touch the committed evidence); default: /verif itself
OUT = os.environ.get("VERIF_OUT", core.VERIF)


def load_known():
    p = os.path.join(core.VERIF, "known_findings.json")
    if not os.path.exists(p):
        return {"known": [], "fixed": []}
    return json.load(open(p))


def write_replay(pid, tier, seed, k, payload):
    d = os.path.join(OUT, "replays")
    os.makedirs(d, exist_ok=True)
    path = os.path.join(d, f"{pid}-{tier}-{seed}-{k}.json")
    with open(path, "w") as f:
        json.dump(core.tolist(payload), f, indent=1, default=str)
    return path


def run(pid, tier, seed):
    t0 = time.time()
    mod = importlib.import_module(f"props.{pid.lower()}")
    core.check_env()
    scale = float(os.environ.get("VERIF_SCALE", "1"))
    ctx = core.Ctx(pid, tier, seed, scale)
    # modelled source changed since the model was written?  Same oracles, larger case budget, thorough-only searches on.
    import fingerprint
    ctx.source_changed = fingerprint.changed(core.REPO, sorted(set(fingerprint.anchored_files(pid)) | {"src/bob/learn/em/utils.py"}))
    if ctx.source_changed and tier == "quick":
        ctx.scale *= float(os.environ.get("VERIF_CHANGED_SCALE", "3"))
        for f_ in ctx.source_changed:
            ctx.count("source-changed:" + os.path.basename(f_))
    known = load_known()
    import glob
    for old in glob.glob(os.path.join(OUT, "replays", f"{pid}-{tier}-{seed}-*.json")):
        os.remove(old)

    # ---- 2. proof obligations -------------------------------------------
    theorems = list(mod.THEOREMS)
    ok_build, log, build_s = core.lake_build_target(f"BobEM.Props.{pid}")
    proof_broken = []
    audit_detail = {}
    if not ok_build:
        proof_broken.append({"what": "lake build failed", "modules": core.failing_modules(log), "log": log[-1500:]})
    else:
        res, _ = core.audit(theorems, module=f"BobEM.Props.{pid}")
        for t, (ok, det) in res.items():
            audit_detail[t] = det
            if not ok:
                proof_broken.append({"what": f"theorem {t}: {det}"})
        hits = core.grep_forbidden()
        for h in hits:
            proof_broken.append({"what": "forbidden token " + h})
        if tier == "thorough" and not proof_broken:
            okc, out = core.leanchecker([f"BobEM.Props.{pid}"])
            if not okc:
                proof_broken.append({"what": "leanchecker rejected the compiled modules", "log": out})
    discharged_thm = 0 if not ok_build else sum(1 for t in theorems if audit_detail.get(t, "x").startswith("axioms") and not any(t in b["what"] for b in proof_broken))

    # ---- 3/4. corpus + correspondence -----------------------------------
    corr_bad = []
    corr_ops = list(getattr(mod, "CORR_OPS", []))
    def from_code_under_test(e):
        """an exception that escaped the per-call wrapper (a lazily evaluated result, say) but was raised while code of the package
        under test was running is an observation about that code, not a harness failure"""
        src = os.path.realpath(os.path.join(core.REPO, "src"))
        tb = e.__traceback__
        while tb is not None:
            if os.path.realpath(tb.tb_frame.f_code.co_filename).startswith(src):
                return True
            tb = tb.tb_next
        return False

    try:
        if ok_build or os.path.exists(os.path.join(core.LEAN, ".lake", "build", "bin", "driver")):
            corr_bad = mod.correspondence(ctx) or []
    except core.Infra:
        raise
    except Exception as e:  # noqa: BLE001
        if not from_code_under_test(e):
            raise
        corr_bad = [{"op": (corr_ops or ["correspondence"])[0], "input": None, "impl": f"the implementation raised {type(e).__name__}: {e} (outside a wrapped call)"}]
    bad_ops = sorted({b["op"] for b in corr_bad})

    # ---- 6. failing-input search on the implementation -------------------
    ctx.broken = bool(proof_broken or corr_bad or ctx.source_changed)
    failures = []
    # corpus first: minimised past failures and the witnesses of recorded findings
    cdir = os.path.join(core.VERIF, "corpus", pid)
    if os.path.isdir(cdir):
        for fn in sorted(os.listdir(cdir)):
            d = json.load(open(os.path.join(cdir, fn)))
            r = mod.replay(json.loads(json.dumps(d)))
            ctx.count("corpus-replayed")
            if r:
                r.setdefault("input", d.get("input"))
                r["corpus"] = fn
                failures.append(r)
    seen_sigs = {f.get("sig") for f in failures}
    try:
        found = mod.search(ctx) or []
    except core.Infra:
        raise
    except Exception as e:  # noqa: BLE001
        if not from_code_under_test(e):
            raise
        found = []
        if not corr_bad:
            corr_bad = [{"op": (corr_ops or ["search"])[0], "input": None, "impl": f"the implementation raised {type(e).__name__}: {e} during the search (outside a wrapped call)"}]
            bad_ops = sorted({b["op"] for b in corr_bad})
    failures += [f for f in found if f.get("sig") not in seen_sigs]

    # ---- 7. verdict ------------------------------------------------------
    lines = []
    viol = 0
    seen_known = set()
    k = 0
    for f in failures:
        match = next((e for e in known.get("known", []) if e["property"] == pid and e["sig"] == f.get("sig")), None)
        if match:
            if match["sig"] not in seen_known:
                seen_known.add(match["sig"])
                lines.append(f"KNOWN-FINDING: property={pid} {match['what']}")
            continue
        if viol < 5:
            path = write_replay(pid, tier, seed, k, {"property": pid, "kind": "failing-input", **f})
            lines.append(f"VIOLATION property={pid} replay={path}")
            k += 1
        viol += 1
    if viol == 0 and proof_broken:
        path = write_replay(pid, tier, seed, k, {"property": pid, "kind": "proof-obligation-broken", "broken": proof_broken,
                                                   "note": "no failing input was found on the implementation"})
        lines.append(f"VIOLATION property={pid} replay={path} no-failing-input-found")
        viol += 1
    elif viol == 0 and corr_bad:
        # a correspondence break that is entirely explained by a known finding's Code variant is not a new violation
        unexplained = [b for b in corr_bad if not b.get("known_sig") or b["known_sig"] not in {e["sig"] for e in known.get("known", []) if e["property"] == pid}]
        if unexplained:
            path = write_replay(pid, tier, seed, k, {"property": pid, "kind": "correspondence-broken", "ops": bad_ops,
                                                       "first": unexplained[0], "count": len(unexplained),
                                                       "note": "model and implementation disagree; no input violating the property itself was found"})
            lines.append(f"VIOLATION property={pid} replay={path} no-failing-input-found")
            viol += 1

    # ---- evidence --------------------------------------------------------
    obligations = len(theorems) + len(corr_ops)
    discharged = discharged_thm + sum(1 for o in corr_ops if o not in bad_ops)
    ev = {
        "property_id": pid,
        "tier": tier,
        "seed": seed,
        "level": "proof",
        "coverage": {
            "obligations": obligations,
            "discharged": discharged,
            "checker_cmd": f"cd lean && lake build BobEM.Props.{pid} driver && lake env lean <#print axioms of every theorem>" + (" && lake env leanchecker" if tier == "thorough" else ""),
            "trusted_base": ["Lean 4.33 kernel", "Mathlib definitions (Real, exp/log, Matrix, integrals)", "axioms: propext, Classical.choice, Quot.sound only (audited this run)",
                             "harness/ (generators, comparison, search oracles) as a differential test harness"] + list(getattr(mod, "TRUSTED", [])),
            "theorems": audit_detail,
            "correspondence_ops": corr_ops,
            "correspondence_broken": bad_ops,
            "evaluations": ctx.evaluations,
            "distinct_nontrivial": len(ctx.nontrivial),
            "rule": getattr(mod, "RULE", ""),
            "samples": ctx.samples[:4] or [{"note": "no scenario generated"}],
            "traces_validated_against_impl": ctx.traces,
            "distribution": ctx.hist,
            "build_s": round(build_s, 1),
        },
        "assumptions": list(getattr(mod, "ASSUMPTIONS", [])),
        "wall_s": round(time.time() - t0, 2),
        "violations": viol,
    }
    os.makedirs(os.path.join(OUT, "evidence"), exist_ok=True)
    with open(os.path.join(OUT, "evidence", f"{pid}.json"), "w") as f:
        json.dump(core.tolist(ev), f, indent=1, default=str)
    for l in lines:
        print(l)
    print(f"[{pid} {tier} seed={seed}] theorems {discharged_thm}/{len(theorems)} corr-ops {len(corr_ops) - len(bad_ops)}/{len(corr_ops)} "
          f"cases {ctx.evaluations} (distinct non-trivial {len(ctx.nontrivial)}) failures {len(failures)} violations {viol} {time.time() - t0:.1f}s")
    return 1 if viol else 0


def replay(path):
    d = json.load(open(path))
    pid = d["property"]
    core.check_env()
    mod = importlib.import_module(f"props.{pid.lower()}")
    if d.get("kind") != "failing-input":
        print(f"{path}: {d.get('kind')} — nothing to execute; re-run the check: {json.dumps(d.get('broken') or d.get('first'))[:600]}")
        return 0
    r = mod.replay(d)
    if r:
        print(f"VIOLATION property={pid} replay={path}")
        print(json.dumps(core.tolist(r), default=str)[:1500])
        return 1
    print(f"{path}: input no longer fails")
    return 0


def hard_limit(tier):
    """last line of defence against a check that hangs (a call of the code under test that neither returns nor lets the
    per-call watchdog through): dump every thread's stack and leave with the infrastructure status 2 - never 0, never 1"""
    import faulthandler
    import threading
    import time

    limit = float(os.environ.get("VERIF_CHECK_TIMEOUT", "2400" if tier == "quick" else "21600"))

    def watch():
        time.sleep(limit)
        print(f"INFRA: check still running after {limit:.0f}s", file=sys.stderr)
        faulthandler.dump_traceback(file=sys.stderr, all_threads=True)
        os._exit(2)

    threading.Thread(target=watch, daemon=True).start()


def main():
    try:
        if sys.argv[1] == "--replay":
            sys.exit(replay(sys.argv[2]))
        pid, tier = sys.argv[1], sys.argv[2] if len(sys.argv) > 2 else os.environ.get("VERIF_TIER", "quick")
        seed = int(os.environ.get("VERIF_SEED", "0"))
        hard_limit(tier)
        sys.exit(run(pid, tier, seed))
    except core.Infra as e:
        print(f"INFRA: {e}", file=sys.stderr)
        sys.exit(2)
    except SystemExit:
        raise
    except Exception:
        traceback.print_exc()
        print("INFRA: harness error", file=sys.stderr)
        sys.exit(2)
    finally:
        core.cleanup()


if __name__ == "__main__":
    main()
