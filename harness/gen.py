"""Input generators shared by the property modules (all randomness from ctx.rng)."""
import itertools

import numpy as np

import core

EPS = float(np.finfo(float).eps)


def dims(ctx, cmax_q=4, dmax_q=5, nmax_q=40, cmax_t=6, dmax_t=8, nmax_t=200, cmin=1):
    r = ctx.rng
    if ctx.tier == "quick":
        return int(r.integers(cmin, cmax_q + 1)), int(r.integers(1, dmax_q + 1)), int(r.integers(1, nmax_q + 1))
    return int(r.integers(cmin, cmax_t + 1)), int(r.integers(1, dmax_t + 1)), int(r.integers(1, nmax_t + 1))


def feature_scales(rng, D):
    return np.array([10.0 ** rng.choice([-3, 0, 0, 0, 3]) for _ in range(D)])


def gmm_params(rng, C, D, scales=None):
    if scales is None:
        scales = feature_scales(rng, D)
    w = rng.dirichlet(np.full(C, 2.0))
    w = np.maximum(w, 1e-3)
    w = w / w.sum()
    m = rng.normal(0, 3, size=(C, D)) * scales
    v = np.exp(rng.uniform(np.log(0.05), np.log(20), size=(C, D))) * scales**2
    return w, m, v, scales


def mk_gmm(w, m, v, thr=None, order="thr_first", **kw):
    """Build a machine through one of the public construction routes (`order`):
    thr_first  floors, then weights/means/variances (what from_hdf5 does);
    thr_last   weights/means/variances, then the floors (the floors clamp what is already stored);
    ubm_copy   a MAP machine constructed from a UBM built thr_first (the constructor copies means, variances, floors, weights);
    restage    variances set to something else first, floors raised in two steps, then the final variances;
    hdf5_ubm   saved, then loaded with from_hdf5(path, ubm=<a machine with other parameters>)."""
    from bob.learn.em import GMMMachine

    w, m, v = (np.array(a, dtype=float) for a in (w, m, v))
    t = None if thr is None else (np.array(thr, dtype=float) if np.ndim(thr) else float(thr))
    if order == "ubm_copy":
        return GMMMachine(len(w), trainer="map", ubm=mk_gmm(w, m, v, thr=thr), **kw)
    if order == "hdf5_ubm":
        # written to a file and read back next to a prior with other parameters (from_hdf5(..., ubm=...) first builds the machine
        # from the prior, then restores the stored fields): what counts are the stored parameters
        import os

        os.makedirs(core.WORK, exist_ok=True)
        path = os.path.join(core.WORK, "mk_gmm.h5")
        if os.path.exists(path):
            os.remove(path)
        mk_gmm(w, m, v, thr=thr, **kw).save(path)
        other = mk_gmm(w[::-1].copy(), m + 1.0, v * 3.0 + 0.1)
        return GMMMachine.from_hdf5(path, ubm=other)
    g = GMMMachine(len(w), **kw)
    if order == "thr_last":
        g.weights, g.means, g.variances = w, m, v
        if t is not None:
            g.variance_thresholds = t
        return g
    if order == "restage":
        g.weights, g.means = w[::-1].copy(), m + 1.0
        g.variances = v * 3.0
        if t is not None:
            g.variance_thresholds = t * 0.5
            g.variance_thresholds = t
        g.weights, g.means, g.variances = w, m, v
        return g
    if t is not None:
        g.variance_thresholds = t
    g.weights, g.means, g.variances = w, m, v
    return g


def sample_data(rng, w, m, v, N, tail=None):
    """N rows drawn from the mixture; `tail`=k puts rows k sigma away from every mean."""
    C, D = m.shape
    comp = rng.choice(C, size=N, p=w / w.sum())
    x = m[comp] + rng.normal(size=(N, D)) * np.sqrt(v[comp])
    if tail is not None:
        far = m.max(axis=0) + tail * np.sqrt(v.max(axis=0))
        sign = rng.choice([-1.0, 1.0], size=(N, D))
        far_lo = m.min(axis=0) - tail * np.sqrt(v.max(axis=0))
        x = np.where(sign > 0, far, far_lo) * (1 + 0.01 * rng.random((N, D)))
    return x


def maybe_int(rng, x, p=0.12, floats=True):
    """with probability p (and only if the data are spread over several units) hand the samples over in another legal array
    dtype — integers of several widths (rounded values) or narrower floats; the
    returned array is what both the implementation and (as float64 values) the model see"""
    x = np.asarray(x)
    if rng.random() < p and x.size and float(np.min(np.std(x, axis=0))) > 2.0:
        # narrower floats only where the code promotes to float64 before it reduces (k-means sums float32 data in float32:
        # a 1e-7 relative difference that is NumPy's semantics, not a defect)
        kind = ["int64", "int32", "int16", "uint8", "float32", "float16"][int(rng.integers(0, 6 if floats else 4))]
        if kind.startswith("float"):
            return x.astype(kind)
        xi = np.rint(x)  # values are never moved: a width that cannot hold them falls back to int64
        info = np.iinfo(kind)
        if xi.min() >= info.min and xi.max() <= info.max:
            return xi.astype(kind)
        return xi.astype(np.int64)
    return x


def compositions(n):
    """All 2^(n-1) compositions of n rows into consecutive non-empty blocks."""
    out = []
    for mask in range(1 << (n - 1)):
        sizes, cur = [], 1
        for i in range(n - 1):
            if mask >> i & 1:
                sizes.append(cur)
                cur = 1
            else:
                cur += 1
        sizes.append(cur)
        out.append(tuple(sizes))
    return out


def random_composition(rng, n):
    if n <= 1:
        return (n,)
    k = int(rng.integers(1, min(n, 6) + 1))
    cuts = sorted(rng.choice(np.arange(1, n), size=k - 1, replace=False).tolist())
    edges = [0] + cuts + [n]
    return tuple(edges[i + 1] - edges[i] for i in range(len(edges) - 1))


def with_empty_blocks(rng, sizes, p=0.15):
    """with probability p, the same row chunking with one or two zero-row blocks in it (what filtering or concatenating Dask arrays
    leaves behind): a legal chunking that holds the same rows"""
    sizes = list(sizes)
    if rng.random() < p:
        for _ in range(int(rng.integers(1, 3))):
            sizes.insert(int(rng.integers(0, len(sizes) + 1)), 0)
    return tuple(sizes)


def split(x, sizes):
    out, i = [], 0
    for s in sizes:
        out.append(x[i : i + s])
        i += s
    return out


def params_line(w, m, v):
    return {"w": core.enc(w), "m": core.enc(m), "v": core.enc(v)}


def stats_line(s):
    return {"n": core.enc(s.n), "px": core.enc(s.sum_px), "pxx": core.enc(s.sum_pxx), "ll": core.bits(s.log_likelihood), "t": int(s.t)}


def stats_dec(d):
    return {"n": core.dec(d["n"]), "px": core.dec(d["px"]), "pxx": core.dec(d["pxx"]), "ll": core.dec(d["ll"]), "t": d["t"]}


def stats_impl(s):
    return {"n": np.asarray(s.n, dtype=float), "px": np.asarray(s.sum_px, dtype=float), "pxx": np.asarray(s.sum_pxx, dtype=float),
            "ll": float(s.log_likelihood), "t": int(s.t)}


def stats_close(a, b, rtol=1e-8, atol=1e-10):
    return a["t"] == b["t"] and all(core.close(a[k], b[k], rtol, atol) for k in ("n", "px", "pxx", "ll"))


def mk_stats(C, D, n, px, pxx, t, ll=0.0):
    from bob.learn.em import GMMStats

    s = GMMStats(C, D)
    s.n = np.array(n, dtype=float)
    s.sum_px = np.array(px, dtype=float)
    s.sum_pxx = np.array(pxx, dtype=float)
    s.t = int(t)
    s.log_likelihood = float(ll)
    return s
