#!/usr/bin/env python3
"""Source fingerprints of the modelled package.

The Lean model was written against one state of src/bob/learn/em/*.py.  `fingerprints.json` (committed) records, per file, a hash of
its abstract syntax tree at that state (comments and formatting do not count).  A check whose anchored files differ from the recording
still runs exactly the same oracles — a changed file is not a violation of anything — but it spends a larger case budget and enables
the searches that are otherwise reserved for the thorough tier: a change to modelled code is when a subtle disagreement is most likely.

usage: fingerprint.py            print which files differ from the recording (for /repo or $BOB_REPO)
       fingerprint.py --update   re-record (do this only on a tree on which all checks pass; run it with the
                                 interpreter the checks use: /venv/bin/python)"""
import ast
import glob
import hashlib
import json
import os
import sys

HERE = os.path.dirname(os.path.abspath(__file__))
FILE = os.path.join(HERE, "fingerprints.json")


def compute(repo):
    out = {}
    for p in sorted(glob.glob(os.path.join(repo, "src", "bob", "learn", "em", "*.py"))):
        rel = os.path.relpath(p, repo)
        try:
            tree = ast.parse(open(p).read())
            out[rel] = hashlib.sha256(ast.dump(tree, include_attributes=False).encode()).hexdigest()[:20]
        except SyntaxError:
            out[rel] = "does-not-parse"
    return out


PY = f"{sys.version_info[0]}.{sys.version_info[1]}"


def changed(repo, files=None):
    """files (relative paths) whose AST differs from the recording; None = all recorded files.
    `ast.dump` is only comparable within one Python minor version: under another interpreter nothing is reported."""
    if not os.path.exists(FILE):
        return []
    data = json.load(open(FILE))
    if data.get("python") != PY:
        return []
    rec = data["files"]
    cur = compute(repo)
    names = files if files is not None else sorted(set(rec) | set(cur))
    return [f for f in names if rec.get(f) != cur.get(f)]


def anchored_files(pid):
    for line in open(os.path.join(os.path.dirname(HERE), "properties.jsonl")):
        d = json.loads(line)
        if d["id"] == pid:
            return [f for f in d["anchors"]["files"] if f.endswith(".py")]
    return []


if __name__ == "__main__":
    repo = os.environ.get("BOB_REPO", "/repo")
    if "--update" in sys.argv:
        json.dump({"python": PY, "files": compute(repo)}, open(FILE, "w"), indent=1, sort_keys=True)
        print("recorded", FILE)
    else:
        print(changed(repo))
