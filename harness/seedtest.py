#!/usr/bin/env python3
"""Confirm a seeded change and run the registered checks against it.

usage: seedtest.py <name> <property> <dir-with-mutation.diff-demo.py-NOTES.md> [--no-suite] [--checks C01,C02|all]

1. scratch worktree of /repo HEAD under /tmp: demo on the clean tree (must exit 0), apply the patch, demo (must exit != 0),
   pinned test suite with the patch (must give the 46 baseline passes and only the 5 baseline failures);
2. second scratch worktree with the patch: run the quick checks against it (BOB_REPO=<worktree>, VERIF_OUT=<scratch>), remove it;
3. write /verif/seeded/<name>/{patch.diff, demo.py, NOTES.md, meta.json}.
"""
import json
import os
import shutil
import subprocess
import sys
import time

V = os.path.dirname(os.path.dirname(os.path.abspath(__file__)))
BASE_FAIL = {"tests/test_gmm.py::test_gmm_kmeans_parallel_init", "tests/test_gmm.py::test_gmm_kmeans_plusplus_init", "tests/test_kmeans.py::test_kmeans_fit",
             "tests/test_kmeans.py::test_kmeans_fit_init_pp", "tests/test_kmeans.py::test_kmeans_parameters"}


def sh(cmd, **kw):
    return subprocess.run(cmd, shell=True, capture_output=True, text=True, **kw)


def main():
    name, prop, src = sys.argv[1], sys.argv[2], sys.argv[3]
    no_suite = "--no-suite" in sys.argv
    checks = "all"
    for a in sys.argv[4:]:
        if a.startswith("--checks"):
            checks = a.split("=", 1)[1]
    patch = os.path.join(src, "mutation.diff")
    wt = f"/tmp/wt/eval-{name}"
    sh(f"git -C /repo worktree remove --force {wt}")
    assert sh(f"git -C /repo worktree add {wt} HEAD").returncode == 0
    meta = {"name": name, "property": prop, "ran": []}
    try:
        env = dict(os.environ, PYTHONPATH=f"{wt}/src")
        demo = os.path.join(src, "demo.py")
        text = open(demo).read().replace(os.path.dirname(demo), wt)
        open(os.path.join(wt, "demo.py"), "w").write(text)
        r0 = sh(f"/venv/bin/python {wt}/demo.py", env=env, cwd=wt, timeout=900)
        meta["demo_clean_exit"] = r0.returncode
        ap = sh(f"git -C {wt} apply {patch}")
        meta["patch_applies"] = ap.returncode == 0
        r1 = sh(f"/venv/bin/python {wt}/demo.py", env=env, cwd=wt, timeout=900)
        meta["demo_mutant_exit"] = r1.returncode
        meta["demo_mutant_tail"] = (r1.stdout + r1.stderr)[-400:]
        meta["ran"] += [f"PYTHONPATH=<wt>/src python demo.py (clean): exit {r0.returncode}", f"same with patch: exit {r1.returncode}"]
        if not no_suite:
            t = time.time()
            rs = sh("/venv/bin/python -m pytest -q -p no:cacheprovider --timeout=900 -rf 2>&1 | grep -E '^FAILED|passed|failed'", env=env, cwd=wt, timeout=3000)
            failed = {l.split()[1] for l in rs.stdout.splitlines() if l.startswith("FAILED")}
            meta["suite_failed"] = sorted(failed)
            meta["suite_ok"] = failed == BASE_FAIL
            meta["suite_summary"] = rs.stdout.strip().splitlines()[-1] if rs.stdout.strip() else ""
            meta["ran"].append(f"pinned suite with patch: {meta['suite_summary']} ({time.time() - t:.0f}s)")
    finally:
        sh(f"git -C /repo worktree remove --force {wt}")
    # checks against a scratch worktree with the patch (BOB_REPO), evidence / replays redirected (VERIF_OUT): /repo is not touched
    man = json.load(open(os.path.join(V, "MANIFEST.json")))
    ids = [c["property_id"] for c in man["checks"]] if checks == "all" else checks.split(",")
    mwt = f"/tmp/wt/mut-{name}"
    out = f"/tmp/wt/out-{name}"
    sh(f"git -C /repo worktree remove --force {mwt}")
    assert sh(f"git -C /repo worktree add {mwt} HEAD").returncode == 0
    assert sh(f"git -C {mwt} apply {patch}").returncode == 0
    results = {}
    try:
        from concurrent.futures import ThreadPoolExecutor

        def run(i):
            c = next(c for c in man["checks"] if c["property_id"] == i)
            p = sh(c["quick_cmd"], cwd=V, timeout=3000, env=dict(os.environ, VERIF_SEED=os.environ.get("VERIF_SEED", "0"), BOB_REPO=mwt, VERIF_OUT=out))
            lines = [l for l in (p.stdout + p.stderr).splitlines() if "VIOLATION" in l or "KNOWN" in l or "INFRA" in l]
            first = None
            for l in lines:
                if "VIOLATION" in l and "replay=" in l:
                    rp = l.split("replay=")[1].split()[0]
                    try:
                        d = json.load(open(rp))
                        first = {"kind": d.get("kind"), "sig": d.get("sig"), "what": str(d.get("what") or d.get("ops") or d.get("broken"))[:300], "suffix": "no-failing-input-found" in l}
                    except Exception:
                        pass
                    break
            return i, {"exit": p.returncode, "violations": sum("VIOLATION" in l for l in lines), "first": first}

        with ThreadPoolExecutor(int(os.environ.get("JOBS", "6"))) as ex:
            for i, r in ex.map(run, ids):
                results[i] = r
    finally:
        sh(f"git -C /repo worktree remove --force {mwt}")
        shutil.rmtree(out, ignore_errors=True)
    meta["checks"] = results
    meta["caught_by"] = sorted(i for i, r in results.items() if r["exit"] == 1)
    meta["caught_by_target"] = results.get(prop, {}).get("exit") == 1
    out = os.path.join(V, "seeded", name)
    os.makedirs(out, exist_ok=True)
    shutil.copy(patch, os.path.join(out, "patch.diff"))
    shutil.copy(os.path.join(src, "demo.py"), os.path.join(out, "demo.py"))
    if os.path.exists(os.path.join(src, "NOTES.md")):
        meta["needs"] = open(os.path.join(src, "NOTES.md")).read()[:3000]
    json.dump(meta, open(os.path.join(out, "meta.json"), "w"), indent=1)
    print(json.dumps({k: meta[k] for k in ("name", "property", "demo_clean_exit", "demo_mutant_exit", "suite_ok" if "suite_ok" in meta else "name", "caught_by")}, indent=None))
    for i in meta["caught_by"]:
        print("  ", i, results[i]["first"])


if __name__ == "__main__":
    main()
