"""C13 — Trained models are valid: finite, weights on the simplex, variances above floors."""
import itertools

import numpy as np

import core
import gen

THEOREMS = [
    "C13_ml_weights",
    "C13_ml_division_sites",
    "C13_variances_ge_floor",
    "C13_map_variances_ge_floor",
    "C13_map_division_sites",
    "C13_mixture_positive",
    "C13_kmeans_empty_cluster_keeps_centroid",
    "C13_kmeans_safe_count",
    "C13_state_variances_ge_floor",
    "C13_resp_normalisation_is_identity",
    "C13_counts_sum_to_samples",
    "C13_supplied_unit_variances_clamped",
]
CORR_OPS = ["kmeans_iter:degenerate", "kmeans_vw:degenerate", "gmm_mstep_ml:degenerate"]
RULE = ("degenerate training sets: duplicated rows, a constant column, fewer distinct points than components, a far outlier, a "
        "component / cluster that captures nothing; trainers k-means, GMM ML (8 switch combinations), GMM MAP, k-means-initialised GMM, "
        "i-vector; distinct = hash of (kind, data, trainer, switches); non-trivial = every case (all are degenerate by construction)")
TRUSTED = ["'finite' is a float notion: the theorems show every denominator / log argument of the model is in range; NaN/inf freedom itself "
           "is established only on the sampled runs (always-on search)"]
ASSUMPTIONS = ["zero-weight components (an empty k-means cluster handed to the GMM) rely on IEEE log 0 = -inf; excluded from the real-number theorems"]
KINDS = ["dup", "const", "few", "outlier", "empty", "manyconst", "bigscale"]
SWITCHES = list(itertools.product([False, True], repeat=3))


def degenerate(ctx, i):
    r = ctx.rng
    kind = KINDS[i % len(KINDS)]
    K = int(r.integers(2, 4))
    D = int(r.integers(1, 4))
    N = int(r.integers(2 * K + 2, 24))
    if kind == "manyconst":
        D = int(r.integers(24, 48))  # many features, most of them constant: their variances sit at the floor, the product of a Gaussian's
    elif kind == "bigscale":         # variances is far outside the double range (each of them is fine) - likewise for un-normalised features
        D = int(r.integers(50, 100))
    centers = r.normal(0, 3, (K, D))
    x = centers[r.integers(0, K, N)] + 0.5 * r.normal(size=(N, D))
    cent = centers + 0.1 * r.normal(size=(K, D))
    if kind == "dup":
        x = x[r.integers(0, 3, N)]
    elif kind == "const":
        x[:, int(r.integers(0, D))] = float(r.normal())
    elif kind == "few":
        pts = x[: max(1, K - 1)]
        x = pts[r.integers(0, len(pts), N)]
    elif kind == "outlier":
        x[0] = x[0] + 1e6
    elif kind == "empty":
        cent[int(r.integers(0, K))] = centers.mean(0) + 1e3
    elif kind == "manyconst":
        x[:, 2:] = r.normal(size=D - 2)
        cent[:, 2:] = x[0, 2:]
    elif kind == "bigscale":
        sc_ = float(10.0 ** r.choice([-4.0, 4.0]))
        x, cent = x * sc_, cent * sc_
    return dict(kind=kind, K=K, D=D, x=x, cent=cent, sizes=gen.random_composition(r, N))


def narrow_scenario(r):
    """finite training data in a narrower float type: half-precision features of ordinary size (a few hundred rows around 300: their
    sum, and every square, is beyond the largest float16), or single-precision features with one far but finite outlier (its
    square is beyond the largest float32).  The statistics of such data are ordinary double-precision numbers."""
    K, D = 2, int(r.integers(1, 3))
    if r.random() < 0.5:
        N = int(r.integers(500, 700))
        centers = np.array([[280.0] * D, [330.0] * D])
        x = (centers[r.integers(0, K, N)] + 8.0 * r.normal(size=(N, D))).astype(np.float16)
        cent = centers + r.normal(size=(K, D))
        kind = "float16"
    else:
        N = int(r.integers(12, 30))
        centers = r.normal(0, 3, (K, D))
        x = (centers[r.integers(0, K, N)] + 0.5 * r.normal(size=(N, D))).astype(np.float32)
        x[0] = np.float32(10.0 ** r.uniform(19.5, 25))
        cent = centers + 0.1 * r.normal(size=(K, D))
        kind = "float32-outlier"
    return dict(kind=kind, K=K, D=D, x=x, x_dtype=str(x.dtype), cent=cent, sizes=gen.random_composition(r, N))


def finite_tree(obj):
    if isinstance(obj, dict):
        return all(finite_tree(v) for v in obj.values())
    return bool(np.all(np.isfinite(np.asarray(obj, dtype=float))))


def correspondence(ctx):
    from bob.learn.em import KMeansMachine
    from bob.learn.em import gmm as gmod

    bad = []
    scs = [degenerate(ctx, i) for i in range(ctx.budget(40, 400))]
    it = core.drive([{"op": "kmeans_iter", "K": sc["K"], "D": sc["D"], "cent": core.enc(sc["cent"]), "blocks": [core.enc(b) for b in gen.split(sc["x"], sc["sizes"])]} for sc in scs])
    vw = core.drive([{"op": "kmeans_vw", "K": sc["K"], "D": sc["D"], "cent": core.enc(sc["cent"]), "blocks": [core.enc(b) for b in gen.split(sc["x"], sc["sizes"])],
                      "floor": core.enc(np.full((sc["K"], sc["D"]), gen.EPS))} for sc in scs])
    for sc, o, v in zip(scs, it, vw):
        import scipy.spatial.distance as sd

        d = np.sort(sd.cdist(sc["cent"], sc["x"], "sqeuclidean"), axis=0)
        if d.shape[0] > 1 and np.any(d[1] - d[0] <= 1e-9 * (1 + d[1])):
            ctx.count("discarded:tie")
            continue
        ctx.count("kind:" + sc["kind"])
        counts = np.sum([np.array(p["n"]) for p in o["per"]], axis=0)
        ctx.count("empty-cluster" if np.any(counts == 0) else "all-clusters-populated")
        ctx.case([sc["kind"], core.tolist(sc["x"]), core.tolist(sc["cent"])], nontrivial=True, sample={"kind": sc["kind"], "K": sc["K"], "D": sc["D"], "rows": len(sc["x"]), "counts": counts})
        inp = {k: sc[k] for k in ("kind", "K", "D", "x", "cent", "sizes")}
        m = KMeansMachine(sc["K"], init_method=np.array(sc["cent"]), max_iter=1, convergence_threshold=None)
        r = core.impl(lambda: m.fit(sc["x"]))
        if isinstance(r, core.ImplError) or not (core.close(core.dec(o["cent"]), np.asarray(m.centroids_, dtype=float), 1e-8, 1e-9) and core.close(core.dec(o["crit"]), float(m.average_min_distance), 1e-8, 1e-9)):
            bad.append({"op": "kmeans_iter:degenerate", "input": inp, "model": {"cent": core.dec(o["cent"]), "crit": core.dec(o["crit"])},
                        "impl": repr(r) if isinstance(r, core.ImplError) else {"cent": np.asarray(m.centroids_), "crit": float(m.average_min_distance)}})
        m2 = KMeansMachine(sc["K"])
        m2.centroids_ = np.array(sc["cent"])
        r = core.impl(lambda: m2.get_variances_and_weights_for_each_cluster(sc["x"]))
        scale2 = 1 + float(np.var(sc["x"]))
        if isinstance(r, core.ImplError) or not (core.close(core.dec(v["var"]), np.asarray(r[0], dtype=float), 1e-6, 1e-9 * scale2) and core.close(core.dec(v["w"]), np.asarray(r[1], dtype=float), 1e-12, 0)):
            bad.append({"op": "kmeans_vw:degenerate", "input": inp, "model": {"var": core.dec(v["var"]), "w": core.dec(v["w"])}, "impl": repr(r) if isinstance(r, core.ImplError) else [np.asarray(r[0]), np.asarray(r[1])]})
    # ML M-step on starved / degenerate statistics
    from props.c03 import mstep_line, params_close, params_of

    lines, meta = [], []
    for i in range(ctx.budget(24, 240)):
        sc = degenerate(ctx, i)
        C, D = sc["K"], sc["D"]
        um, uv, uw = SWITCHES[i % 8]
        s3 = dict(C=C, D=D, w=np.full(C, 1 / C), m=sc["cent"], v=np.ones((C, D)), x=sc["x"], um=um, uv=uv, uw=uw, thr=gen.EPS, floor=gen.EPS)
        g = gen.mk_gmm(s3["w"], s3["m"], s3["v"], thr=s3["floor"], update_means=um, update_variances=uv, update_weights=uw, mean_var_update_threshold=s3["thr"])
        st = g.acc_stats(sc["x"])
        lines.append(mstep_line(s3, st, s3["floor"]))
        res = core.impl(lambda: params_of(gmod.m_step([st], g)[0]))
        meta.append((sc, s3, st, res))
    for (sc, s3, st, res), o in zip(meta, core.drive(lines)):
        ctx.count("mstep:" + sc["kind"])
        ctx.case(["m", sc["kind"], core.tolist(sc["x"]), s3["um"], s3["uv"], s3["uw"]], nontrivial=True)
        model = {k: core.dec(o[k]) for k in ("w", "m", "v")}
        if isinstance(res, core.ImplError) or not params_close(model, res, 1e-7):
            bad.append({"op": "gmm_mstep_ml:degenerate", "input": {**{k: sc[k] for k in ("kind", "x", "cent")}, "switches": [s3["um"], s3["uv"], s3["uw"]], "stats": gen.stats_impl(st)},
                        "model": model, "impl": repr(res) if isinstance(res, core.ImplError) else res})
    return bad


KNOWN_SIG = "far-outlier-responsibilities-sum-to-the-number-of-tied-components"


def check_gmm(g, x, what, thr_count=None, start=None):
    """`start`: the machine training started from; if its own statistics of the data already count a sample more than once (D26:
    a sample further than ~2^53 component spacings from every Gaussian), weights off the simplex are that known finding"""
    w, m, v = np.asarray(g.weights, float), np.asarray(g.means, float), np.asarray(g.variances, float)
    if not (np.all(np.isfinite(w)) and np.all(np.isfinite(m)) and np.all(np.isfinite(v))):
        return {"sig": "non-finite-gmm-parameters", "what": f"{what}: weights {w.tolist()} means {m.tolist()} variances {v.tolist()}"}
    if np.any(w < 0):
        return {"sig": "negative-gmm-weight", "what": f"{what}: {w.tolist()}"}
    slack = 0 if thr_count is None else len(w) * thr_count / max(1, len(x))
    known = None
    if not (1 - 1e-9 <= w.sum() <= 1 + slack + 1e-9):
        n0 = core.impl(lambda: float(np.sum(np.asarray(start.acc_stats(x).n, float)))) if start is not None else None
        if isinstance(n0, float) and n0 - len(x) > 0.5 and abs(n0 - round(n0)) < 1e-6:
            known = {"sig": KNOWN_SIG, "what": f"{what}: weights sum to {w.sum()}; the E-step of the starting model counts {n0} samples in {len(x)} rows: a row whose distance to every "
                     "Gaussian exceeds ~2^53 component spacings has the same log-likelihood under several components, log(number of tied terms) is lost in the rounding of "
                     "its total log-likelihood, and exp(lwl - ll) = 1 for each of them"}
        else:
            return {"sig": "gmm-weights-off-simplex", "what": f"{what}: sum = {w.sum()} (allowed up to 1 + {slack})"}
    thr = np.broadcast_to(np.asarray(g.variance_thresholds, float), v.shape)
    if np.any(v < thr) or np.any(v <= 0):
        return {"sig": "gmm-variance-below-floor", "what": f"{what}: {v.tolist()} floors {thr.tolist()}"}
    ll = core.impl(lambda: np.asarray(g.log_likelihood(x), float))
    if isinstance(ll, core.ImplError) or not np.all(np.isfinite(ll)):
        return {"sig": "non-finite-log-likelihood", "what": f"{what}: {ll!r}"}
    import dask.array as da
    x_ = np.asarray(x, float)
    lld = core.impl(lambda: np.asarray(g.log_likelihood(da.from_array(x_, chunks=(max(1, len(x_) // 2), x_.shape[1]))), float))
    if isinstance(lld, core.ImplError) or not np.all(np.isfinite(lld)):
        return {"sig": "non-finite-log-likelihood", "what": f"{what}, scored from a Dask array: {lld!r} (NumPy: {ll.tolist()})"}
    return known


def oracle(sc, trainer, switches=(True, True, True), steps=3, dask=False, floors_late=None, alpha_arr=None):
    import dask.array as da
    from bob.learn.em import GMMMachine, KMeansMachine

    x = np.asarray(sc["x"]).astype(sc.get("x_dtype", "float64"))  # training sees the array in the dtype it was handed over in
    cent = np.asarray(sc["cent"], float)
    K, D = cent.shape
    xin = da.from_array(x, chunks=(tuple(sc["sizes"]), D)) if dask else x
    um, uv, uw = switches
    if trainer == "kmeans":
        m = KMeansMachine(K, init_method=np.array(cent), max_iter=steps, convergence_threshold=None)
        r = core.impl(lambda: m.fit(xin))
        if isinstance(r, core.ImplError):
            return {"sig": "kmeans-fit-raises", "what": repr(r)}
        c = np.asarray(m.centroids_, float)
        if not np.all(np.isfinite(c)) or not np.isfinite(m.average_min_distance):
            return {"sig": "non-finite-kmeans-centroids", "what": f"{sc['kind']}: after {steps} iteration(s) centroids {c.tolist()} criterion {m.average_min_distance}"}
        vw = core.impl(lambda: m.get_variances_and_weights_for_each_cluster(xin))
        if isinstance(vw, core.ImplError) or not (np.all(np.isfinite(np.asarray(vw[0], float))) and np.all(np.isfinite(np.asarray(vw[1], float)))):
            return {"sig": "non-finite-cluster-variances-or-weights", "what": f"{sc['kind']}: {vw!r}"}
        return None
    if trainer == "gmm_from_kmeans":
        kmt = KMeansMachine(K, init_method=np.array(cent), max_iter=2, convergence_threshold=None)
        g = GMMMachine(K, k_means_trainer=kmt, max_fitting_steps=steps, convergence_threshold=None, update_means=um, update_variances=uv, update_weights=uw)
        r = core.impl(lambda: g.fit(xin))
        if isinstance(r, core.ImplError):
            return {"sig": "gmm-fit-raises", "what": repr(r)}
        return check_gmm(g, x, f"k-means-initialised GMM on '{sc['kind']}' data, switches {switches}", gen.EPS)
    ubm = gen.mk_gmm(np.full(K, 1 / K), cent, np.ones((K, D)))
    if trainer == "ml" and sc.get("means_only_floor") is not None:
        # floors first (data in large units: a floor above 1), then the means, the variances never: `fit` supplies unit variances,
        # which are below those floors
        g = GMMMachine(K, max_fitting_steps=steps, convergence_threshold=None, update_means=um, update_variances=uv, update_weights=uw)
        g.variance_thresholds = float(sc["means_only_floor"]) if D == 1 else np.array([float(sc["means_only_floor"])] + [0.5] * (D - 1))
        g.means = np.array(cent, dtype=float)
    elif trainer == "ml":
        g = gen.mk_gmm(np.full(K, 1 / K), cent, np.ones((K, D)), max_fitting_steps=steps, convergence_threshold=None, update_means=um, update_variances=uv, update_weights=uw)
    else:
        extra = {}
        if alpha_arr is not None:  # fixed adaptation ratios, one per Gaussian (unequal), instead of the relevance factor
            extra = dict(map_relevance_factor=None, map_alpha=np.random.default_rng(int(alpha_arr)).uniform(0.05, 0.95, K))
        g = GMMMachine(K, trainer="map", ubm=ubm, max_fitting_steps=steps, convergence_threshold=None, update_means=um, update_variances=uv, update_weights=uw, **extra)
    if floors_late is not None and sc.get("means_only_floor") is None:
        # the floors are raised on a machine that already has its variances: above some entries, below others
        rr = np.random.default_rng(int(floors_late))
        v0 = np.asarray(g.variances, float)
        g.variance_thresholds = v0 * rr.choice([0.25, 4.0], size=v0.shape)
    r = core.impl(lambda: g.fit(xin))
    if isinstance(r, core.ImplError):
        return {"sig": "gmm-fit-raises", "what": f"{trainer}: {r!r}"}
    return check_gmm(g, x, f"GMM {trainer} on '{sc['kind']}' data, switches {switches}, {steps} steps" + ("" if floors_late is None else ", floors raised after the variances were set"),
                     gen.EPS if trainer == "ml" else None, start=ubm)


def ivector_oracle(ctx, i):
    try:
        from props import c10
    except Exception:  # c10 not built yet
        return None
    return c10.validity_oracle(ctx, i) if hasattr(c10, "validity_oracle") else None


def search(ctx):
    fails, seen = [], set()
    trainers = ["kmeans", "ml", "map", "gmm_from_kmeans"]
    for i in range(ctx.budget(60, 600)):
        sc = degenerate(ctx, i)
        trainer = trainers[(i // len(KINDS)) % len(trainers)]
        if ctx.rng.random() < 0.1:
            sc = narrow_scenario(ctx.rng)
            trainer = ["ml", "map"][i % 2]  # (k-means sums the data in the data's own type: NumPy's semantics, C06 / C20)
        sw = SWITCHES[1 + int(ctx.rng.integers(0, 7))]
        dask = bool(ctx.rng.random() < 0.33)
        ctx.count(f"search:{trainer}:{sc['kind']}")
        ctx.case(["s", trainer, sc["kind"], core.tolist(sc["x"]), sw, dask], nontrivial=True)
        steps = 1 + int(ctx.rng.integers(0, 3))
        if trainer == "ml" and ctx.rng.random() < 0.2:
            sc["means_only_floor"] = float(ctx.rng.choice([4.0, 25.0, 0.5]))
        late = int(ctx.rng.integers(0, 10**6)) if trainer in ("ml", "map") and ctx.rng.random() < 0.4 else None
        alpha_arr = int(ctx.rng.integers(0, 10**6)) if trainer == "map" and ctx.rng.random() < 0.4 else None
        f = oracle(sc, trainer, sw, steps=steps, dask=dask, floors_late=late, alpha_arr=alpha_arr)
        if f and f["sig"] not in seen:
            seen.add(f["sig"])
            f["input"] = {**{k: sc[k] for k in ("kind", "K", "D", "x", "x_dtype", "cent", "sizes", "means_only_floor") if k in sc}, "trainer": trainer, "switches": list(sw), "steps": steps, "dask": dask, "floors_late": late, "alpha_arr": alpha_arr}
            fails.append(f)
    for i in range(ctx.budget(6, 60)):
        f = ivector_oracle(ctx, i)
        ctx.count("search:ivector")
        ctx.case(["iv", i], nontrivial=True)
        if f and f["sig"] not in seen:
            seen.add(f["sig"])
            fails.append(f)
    return fails


def replay(d):
    sc = d["input"]
    if sc.get("trainer") == "ivector":
        from props import c10

        return c10.replay_validity(sc)
    return oracle(sc, sc["trainer"], tuple(sc["switches"]), sc["steps"], sc["dask"], sc.get("floors_late"), sc.get("alpha_arr"))
