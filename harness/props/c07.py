"""C07 — ISV and JFA enrolment climbs to the joint posterior mode of the latent factors."""
import numpy as np

import core
import fagen
import gen

THEOREMS = []  # filled in below once the Lean file exists (kept in sync by hand)
THEOREMS = [
    "C07_y_solves_normal_equations",
    "C07_x_solves_normal_equations",
    "C07_z_closed_form",
    "C07_block_is_argmax_y",
    "C07_block_is_argmax_x",
    "C07_block_is_argmax_z",
    "C07_enroll_monotone",
    "C07_enroll_monotone_le",
    "C07_mode_exists_unique",
    "C07_fixed_point_is_mode",
    "C07_mode_is_fixed_point",
    "C07_posterior_converges",
    "C07_enroll_converges_to_mode",
    "C07_enroll_tendsto_mode",
    "C07_exec_eq_spec",
]
CORR_OPS = ["fa_blocks:update_y", "fa_blocks:compute_latent_x", "fa_blocks:update_z", "fa_enroll:isv", "fa_enroll:jfa", "fa_enroll:logpost"]
RULE = ("UBM x (U, V, D with D of order one) x 1-5 enrolment statistics (fractional and zero counts) x enroll_iterations 1..6, ISV and "
        "JFA; distinct = hash of inputs; non-trivial = >= 2 sessions or >= 2 iterations")
ASSUMPTIONS = ["per-session channel factors are not returned by enroll(); they are recomputed with the public compute_latent_x from the "
               "(y, z) of consecutive iteration counts"]


def blocks_impl(mach, sc, sts, y, xs, z):
    """the three public block updates for one class, from given latent values"""
    C, D = sc["C"], sc["D"]
    lab = [0] * len(sts)
    n_acc = mach._sum_n_statistics(sts, y=lab, n_classes=1)
    f_acc = mach._sum_f_statistics(sts, y=lab, n_classes=1)
    latent_x = [np.array(xs, dtype=float).T.reshape(sc["rU"], len(sts))]
    latent_z = np.array(z, dtype=float).reshape(1, C * D)
    out = {}
    if sc["jfa"]:
        ly = np.zeros((1, sc["rV"]))
        out["y"] = np.asarray(mach.update_y(X=sts, y=lab, n_classes=1, VProd=mach._compute_vprod(), latent_x=latent_x, latent_y=ly, latent_z=latent_z,
                                            n_acc=n_acc, f_acc=f_acc))[0]
    lx = mach.compute_latent_x(X=sts, y=lab, n_classes=1, UProd=mach._compute_uprod(), latent_y=np.array(y, dtype=float).reshape(1, -1) if sc["jfa"] else None,
                               latent_z=latent_z)
    out["xs"] = np.asarray(lx[0]).T
    lz = mach.update_z(X=sts, y=lab, latent_x=latent_x, latent_y=np.array(y, dtype=float).reshape(1, -1) if sc["jfa"] else None, latent_z=np.zeros((1, C * D)),
                       n_acc=n_acc, f_acc=f_acc)
    out["z"] = np.asarray(lz)[0]
    return out


def enroll_impl(sc, sts, k):
    mach = fagen.mk_machine(sc, enroll_iterations=k)
    r = mach.enroll(sts)
    if sc["jfa"]:
        return np.asarray(r[0], dtype=float), np.asarray(r[1], dtype=float)
    return np.zeros(0), np.asarray(r, dtype=float).reshape(-1)


def xs_after(sc, sts, k):
    """x_h of iteration k: computed from y_k and z_{k-1}"""
    mach = fagen.mk_machine(sc)
    yk, _ = enroll_impl(sc, sts, k)
    zprev = enroll_impl(sc, sts, k - 1)[1] if k > 1 else np.zeros(sc["C"] * sc["D"])
    lx = mach.compute_latent_x(X=sts, y=[0] * len(sts), n_classes=1, UProd=mach._compute_uprod(), latent_y=yk.reshape(1, -1) if sc["jfa"] else None,
                               latent_z=zprev.reshape(1, -1))
    return np.asarray(lx[0]).T


def log_post(sc, y, xs, z):
    m, v = np.asarray(sc["m"]).reshape(-1), np.asarray(sc["v"]).reshape(-1)
    U, V, Dd = np.asarray(sc["U"]), np.asarray(sc["V"]), np.asarray(sc["Dd"])
    val = -0.5 * float(y @ y) - 0.5 * float(np.sum(np.asarray(xs) ** 2)) - 0.5 * float(z @ z)
    for st, x in zip(sc["sts"], xs):
        nv = np.repeat(st["n"], sc["D"])
        o = (V @ y if sc["rV"] else 0) + U @ x + Dd * z
        g = np.asarray(st["f"]).reshape(-1) - nv * m
        val += float(np.sum((g * o - 0.5 * nv * o * o) / v))
    return val


def joint_mode(sc):
    m, v = np.asarray(sc["m"]).reshape(-1), np.asarray(sc["v"]).reshape(-1)
    U, V, Dd = np.asarray(sc["U"]), np.asarray(sc["V"]), np.asarray(sc["Dd"])
    H, rU, rV, CD = len(sc["sts"]), sc["rU"], sc["rV"], sc["C"] * sc["D"]
    dim = rV + H * rU + CD
    P, b = np.eye(dim), np.zeros(dim)
    for h, st in enumerate(sc["sts"]):
        A = np.zeros((CD, dim))
        A[:, :rV] = V
        A[:, rV + h * rU: rV + (h + 1) * rU] = U
        A[:, rV + H * rU:] = np.diag(Dd)
        nv = np.repeat(st["n"], sc["D"])
        P += A.T @ (A * (nv / v)[:, None])
        b += A.T @ ((np.asarray(st["f"]).reshape(-1) - nv * m) / v)
    th = np.linalg.solve(P, b)
    return th[:rV], th[rV: rV + H * rU].reshape(H, rU), th[rV + H * rU:]


def correspondence(ctx):
    bad = []
    r = ctx.rng
    # block updates
    scs = [fagen.fa_scenario(r, ctx.tier, jfa=bool(i % 2)) for i in range(ctx.budget(30, 300))]
    lat = [(r.normal(size=sc["rV"]), r.normal(size=(len(sc["sts"]), sc["rU"])), r.normal(size=sc["C"] * sc["D"])) for sc in scs]
    lines = [{"op": "fa_blocks", **fagen.model_fields(sc), "sts": [fagen.st_line(s) for s in sc["sts"]], "y": core.enc(y), "xs": [core.enc(x) for x in xs],
              "z": core.enc(z.reshape(sc["C"], sc["D"]))} for sc, (y, xs, z) in zip(scs, lat)]
    for sc, (y, xs, z), o in zip(scs, lat, core.drive(lines)):
        mach = fagen.mk_machine(sc)
        sts = [fagen.mk_stats(sc, s) for s in sc["sts"]]
        ctx.count("blocks:" + ("jfa" if sc["jfa"] else "isv"))
        ctx.case(["b", core.tolist(sc["U"]), core.tolist(y), core.tolist(z)], nontrivial=len(sts) >= 2, sample={"C": sc["C"], "D": sc["D"], "rU": sc["rU"], "rV": sc["rV"], "sessions": len(sts)})
        inp = {**{k: sc[k] for k in ("C", "D", "rU", "rV", "jfa", "w", "m", "v", "U", "V", "Dd", "route", "np_ints", "layout", "int_subspaces", "ubm_layout", "ubm_int_means", "ubm_mvt", "sts")}, "y": y, "xs": xs, "z": z}
        res = core.impl(lambda: blocks_impl(mach, sc, sts, y, xs, z))
        if isinstance(res, core.ImplError):
            bad.append({"op": "fa_blocks:update_z", "input": inp, "impl": repr(res)})
            continue
        if sc["jfa"] and not core.close(fagen.dec1(o["y"], sc["rV"]), res["y"], 1e-8, 1e-10):
            bad.append({"op": "fa_blocks:update_y", "input": inp, "model": fagen.dec1(o["y"], sc["rV"]), "model_with_pinned_sign": fagen.dec1(o["y_old"], sc["rV"]), "impl": res["y"]})
        mxs = np.array([fagen.dec1(x, sc["rU"]) for x in o["xs"]])
        if not core.close(mxs, res["xs"], 1e-8, 1e-10):
            bad.append({"op": "fa_blocks:compute_latent_x", "input": inp, "model": mxs, "impl": res["xs"]})
        if not core.close(core.dec(o["z"]).reshape(-1), res["z"], 1e-8, 1e-10):
            bad.append({"op": "fa_blocks:update_z", "input": inp, "model": core.dec(o["z"]).reshape(-1), "impl": res["z"]})
    # whole enrolments
    scs = [fagen.fa_scenario(r, ctx.tier, jfa=bool(i % 2)) for i in range(ctx.budget(30, 300))]
    iters = [int(r.integers(1, 7)) for _ in scs]
    for j in range(min(len(scs), ctx.budget(4, 12))):
        iters[j] = int(r.integers(300, 900))  # "k iterations" means k iterations, also long after the steps have become small
    lines = [{"op": "fa_enroll", **fagen.model_fields(sc), "sts": [fagen.st_line(s) for s in sc["sts"]], "iters": k} for sc, k in zip(scs, iters)]
    for sc, k, o in zip(scs, iters, core.drive(lines)):
        sts = [fagen.mk_stats(sc, s) for s in sc["sts"]]
        tag = "fa_enroll:jfa" if sc["jfa"] else "fa_enroll:isv"
        ctx.count(f"{tag}:iters={k}")
        ctx.case(["e", core.tolist(sc["U"]), core.tolist([s["f"] for s in sc["sts"]]), k], nontrivial=len(sts) >= 2 or k >= 2,
                 sample={"machine": "jfa" if sc["jfa"] else "isv", "sessions": len(sts), "iterations": k, "logpost_model": core.dec(o["logpost"])})
        inp = {**{kk: sc[kk] for kk in ("C", "D", "rU", "rV", "jfa", "w", "m", "v", "U", "V", "Dd", "route", "np_ints", "layout", "int_subspaces", "ubm_layout", "ubm_int_means", "ubm_mvt", "sts")}, "iterations": k}
        res = core.impl(lambda: enroll_impl(sc, sts, k))
        my, mz = fagen.dec1(o["y"], sc["rV"]), core.dec(o["z"]).reshape(-1)
        if isinstance(res, core.ImplError) or not (core.close(my, res[0], 1e-7, 1e-9) and core.close(mz, res[1], 1e-7, 1e-9)):
            bad.append({"op": tag, "input": inp, "model": {"y": my, "z": mz}, "impl": repr(res) if isinstance(res, core.ImplError) else {"y": res[0], "z": res[1]}})
            continue
        xs = core.impl(lambda: xs_after(sc, sts, k))
        if not isinstance(xs, core.ImplError):
            lp = log_post(sc, res[0], xs, res[1])
            if not core.close(core.dec(o["logpost"]), lp, 1e-7, 1e-8):
                bad.append({"op": "fa_enroll:logpost", "input": inp, "model": core.dec(o["logpost"]), "impl": lp})
    return bad


def oracle(sc, kmax=6, converge=True):
    """the joint log-posterior never decreases with the number of enrolment iterations, and the iterates approach the joint mode"""
    sts = [fagen.mk_stats(sc, s) for s in sc["sts"]]
    prev = None
    vals = []
    for k in range(1, kmax + 1):
        res = core.impl(lambda: enroll_impl(sc, sts, k))
        if isinstance(res, core.ImplError):
            return {"sig": "enroll-raises", "what": repr(res)}
        xs = xs_after(sc, sts, k)
        lp = log_post(sc, res[0], xs, res[1])
        vals.append(lp)
        if prev is not None and lp < prev - 1e-9 * (1 + abs(prev)):
            return {"sig": "enrolment-decreases-posterior", "what": f"{'JFA' if sc['jfa'] else 'ISV'}: joint log-posterior after iterations 1..{k}: {vals}", "iteration": k}
        prev = lp
    ym, xm, zm = joint_mode(sc)
    top = log_post(sc, ym, xm, zm)
    if vals[-1] > top + 1e-8 * (1 + abs(top)):
        return {"sig": "posterior-above-its-maximum", "what": f"{vals[-1]} > {top}"}
    if not converge:
        return None
    # convergence to the unique mode: the objective gap keeps contracting (block ascent may be slow on coupled blocks)
    gaps = []
    for k in (40, 400, 4000):
        res = core.impl(lambda: enroll_impl(sc, sts, k))
        if isinstance(res, core.ImplError):
            return {"sig": "enroll-raises", "what": repr(res)}
        gaps.append(top - log_post(sc, res[0], xs_after(sc, sts, k), res[1]))
    small = 1e-7 * (1 + abs(top))
    # every sweep contracts the gap by a factor q < 1 (C07_enroll_converges_to_mode): as long as the gap is above rounding level,
    # 3600 more iterations must make visible progress - an enrolment that stops iterating on its own stalls instead
    if gaps[1] > 1e-11 * (1 + abs(top)) and gaps[2] >= gaps[1] * (1 - 1e-7):
        return {"sig": "enrolment-stalls-away-from-the-mode", "what": f"log-posterior gap to the joint mode after 400 and after 4000 iterations: {gaps[1]} and {gaps[2]} (no progress)"}
    if not (gaps[2] <= small or (gaps[2] <= 0.5 * gaps[1] and gaps[1] <= gaps[0] + small)):
        return {"sig": "enrolment-does-not-approach-the-mode", "what": f"log-posterior gap to the joint mode after 40/400/4000 iterations: {gaps}"}
    return None


def oracle_array(sc, seed):
    """enrolment from a feature array: one recording is one session however the array is stored (NumPy, or a Dask array in
    several row blocks) - the factors are those of enrol([statistics of the whole array])"""
    import dask.array as da

    r = np.random.default_rng(seed)
    mach = fagen.mk_machine(sc, enroll_iterations=int(r.integers(1, 5)))
    X = gen.sample_data(r, np.asarray(sc["w"]), np.asarray(sc["m"]) + 0.5, np.asarray(sc["v"]), int(r.integers(9, 30)))
    ref = core.impl(lambda: mach.enroll([mach.ubm.acc_stats(X)]))
    if isinstance(ref, core.ImplError):
        return None
    for name, xin in (("NumPy array", X), ("Dask array in three row blocks", da.from_array(X, chunks=(-(-len(X) // 3), X.shape[1])))):
        got = core.impl(lambda: mach.enroll_using_array(xin))
        a = [np.asarray(t, float) for t in (got if sc["jfa"] else [got])] if not isinstance(got, core.ImplError) else None
        b = [np.asarray(t, float) for t in (ref if sc["jfa"] else [ref])]
        if a is None or not all(core.close(p, q, 1e-9, 1e-10) for p, q in zip(a, b)):
            return {"sig": "enrolment-from-array-differs", "what": f"enroll_using_array({name}) gives {got!r}; enroll of the statistics of the same recording gives {ref!r}"}
    return None


def search(ctx):
    fails, seen = [], set()
    for i in range(ctx.budget(16, 160)):
        sc = fagen.fa_scenario(ctx.rng, ctx.tier, jfa=bool(i % 2))
        if i >= 3 and i % 4 == 3:
            sc["layout"] = "dask"  # enrolment statistics whose arrays are (uncomputed) Dask arrays
        ctx.count("search:" + ("jfa" if sc["jfa"] else "isv") + (":dask-backed-statistics" if sc.get("layout") == "dask" else ""))
        ctx.case(["s", core.tolist(sc["U"]), core.tolist([s["f"] for s in sc["sts"]])], nontrivial=True)
        # (thousands of iterations on Dask-backed statistics would take minutes: those scenarios check the first sweeps only)
        f = oracle(sc, 4 if ctx.tier == "quick" else 8, converge=(ctx.tier == "thorough" or i < 3 or ctx.broken) and sc.get("layout") != "dask")
        if not f and i % 2 == 0:
            aseed = int(ctx.rng.integers(0, 2**31))
            ctx.count("search:enrol-from-array")
            f = oracle_array(sc, aseed)
            if f:
                f["array_seed"] = aseed
        if f and f["sig"] not in seen:
            seen.add(f["sig"])
            f["input"] = {k: sc[k] for k in ("C", "D", "rU", "rV", "jfa", "w", "m", "v", "U", "V", "Dd", "route", "np_ints", "layout", "int_subspaces", "ubm_layout", "ubm_int_means", "ubm_mvt", "sts")}
            fails.append(f)
    return fails


def replay(d):
    from props.c11 import fix_sc

    sc = d["input"]
    sc.setdefault("y", [])
    sc.setdefault("z", [])
    if d.get("array_seed") is not None:
        return oracle_array(fix_sc(sc), int(d["array_seed"]))
    return oracle(fix_sc(sc))
