"""C19 — Training and scoring never modify or alias caller-owned data."""
import copy

import numpy as np

import core
import fagen
import gen

THEOREMS = ["firstViolation_none_iff", "C19_frame", "C19_no_alias", "C19_reuse"]
CORR_OPS = ["own_check:discipline", "own_check:reuse"]
RULE = ("random sequences of public calls (fit, fit_using_array, enroll, score, transform, project, acc_stats, linear_scoring, statistics "
        "+ / +=, WCCN / whitening) that reuse the same caller-owned arrays, label lists, statistics and UBM machines, NumPy and Dask; per "
        "call the observed effects (cells whose bytes changed, cells shared with what the estimator keeps or returns) are run through the "
        "model's discipline; non-trivial = sequence of >= 3 calls touching >= 2 entry points")
ASSUMPTIONS = ["references an estimator keeps by design to caller objects (ubm, k_means_trainer, init_method) are configuration, not trained "
               "parameters, and are not counted as aliasing; parameters the user assigns through setters are the user's own arrays"]
SKIP_ATTRS = {"ubm", "k_means_trainer", "init_method", "random_state", "ubm_kwargs", "map_alpha"}  # configuration kept by reference (scikit-learn style), not trained parameters


class World:
    """caller-owned objects and their cells"""

    def __init__(self):
        self.cells = []  # (name, array)

    def own(self, name, arr):
        arr = np.asarray(arr)
        self.cells.append((name, arr))
        return arr

    def own_stats(self, name, s):
        for f in ("n", "sum_px", "sum_pxx"):
            self.cells.append((f"{name}.{f}", getattr(s, f)))
        return s

    def own_gmm(self, name, g):
        for f in ("weights", "means", "variances"):
            self.cells.append((f"{name}.{f}", getattr(g, f)))
        return g

    def snapshot(self):
        return [a.tobytes() for _, a in self.cells]

    def holder_ids(self, arrays):
        """cell ids of the arrays an estimator holds / returns: a caller id when memory is shared, a fresh id otherwise"""
        out = []
        for k, a in enumerate(arrays):
            shared = [i for i, (_, c) in enumerate(self.cells) if a.size and c.size and np.shares_memory(a, c)]
            out.extend(shared if shared else [10_000 + k])
        return out


def arrays_in(obj, depth=0, skip=True):
    """every ndarray reachable from a result or from an estimator's (trained) attributes"""
    out = []
    if depth > 3 or obj is None:
        return out
    if isinstance(obj, np.ndarray):
        return [obj]
    if isinstance(obj, (list, tuple)):
        for o in obj:
            out += arrays_in(o, depth + 1)
        return out
    if hasattr(obj, "__dict__") and not isinstance(obj, type):
        for k, v in vars(obj).items():
            if skip and k in SKIP_ATTRS:
                continue
            out += arrays_in(v, depth + 1)
    return out


def build_world(ctx):
    r = ctx.rng
    C, D = int(r.integers(1, 3)), int(r.integers(1, 3))
    N = int(r.integers(8, 20))
    w, m, v, _ = gen.gmm_params(r, C, D, scales=np.ones(D))
    W = World()
    X0 = gen.sample_data(r, w, m, v, N)
    if r.random() < 0.35:  # the caller's training array in Fortran order (e.g. the transpose of a feature-major matrix): the same values
        X0 = np.asfortranarray(X0)
    X = W.own("X", X0)
    y = [int(a) for a in np.arange(N) % 2]
    W.labels = y
    W.labels_copy = list(y)
    W.labels_arr = W.own("labels_array", np.array(y, dtype=np.int64))
    ubm = W.own_gmm("ubm", gen.mk_gmm(w, m, v))
    stats = [W.own_stats(f"stats{i}", ubm.acc_stats(X[i::3])) for i in range(3)]
    cent = W.own("init_centroids", X[:C].copy() + 0.1)
    models = W.own("model_means", m[None] + r.normal(size=(2, C, D)))
    W.alpha = W.own("map_alpha", r.uniform(0.2, 0.8, C))
    W.init_w = W.own("init_weights", r.integers(1, 9, C).astype(float) * (1.0 if r.random() < 0.5 else 0.1))  # counts / tenths, not normalised
    W.C, W.D, W.X, W.ubm, W.stats, W.cent, W.models = C, D, X, ubm, stats, cent, models
    W.use_dask = bool(r.integers(0, 2))
    return W


def calls_for(W, rng):
    """name -> (thunk returning (estimator_or_None, result), handed-over cell names)"""
    import dask.array as da
    from bob.learn.em import GMMMachine, ISVMachine, IVectorMachine, JFAMachine, KMeansMachine, WCCN, Whitening, linear_scoring

    C, D, X = W.C, W.D, W.X
    def Xin():
        if not W.use_dask:
            return X
        a = da.from_array(X, chunks=(max(2, len(X) // 2), D))
        W.lazy = getattr(W, "lazy", []) + [a]  # a Dask array is a caller-owned object too: it must still compute to the same data afterwards
        return a

    def kmeans(max_iter):
        def f():
            m = KMeansMachine(C, init_method=W.cent, max_iter=max_iter, convergence_threshold=None)
            m.fit(Xin())
            return m, [m.transform(X), m.predict(X)]
        return f

    def gmm_ml():
        g = gen.mk_gmm(np.array(W.ubm.weights), np.array(W.ubm.means), np.array(W.ubm.variances), max_fitting_steps=2, update_variances=True, update_weights=True)
        g.fit(Xin())
        return g, [g.log_likelihood(X)]

    def gmm_map():
        g = GMMMachine(C, trainer="map", ubm=W.ubm, max_fitting_steps=2, update_variances=False, update_weights=True)
        g.fit(Xin())
        return g, None

    # configuration of the partial adaptation: drawn once per world (attribute of W), so that repeating the call repeats the configuration
    if not hasattr(W, "map_partial_cfg"):
        W.map_partial_cfg = (bool(rng.integers(0, 2)), bool(rng.integers(0, 2)), int(rng.integers(0, 2)))

    def gmm_map_partial():
        # adaptation that leaves some parameter families alone: what is not re-estimated must still be the machine's own copy
        um, uw, steps = W.map_partial_cfg
        g = GMMMachine(C, trainer="map", ubm=W.ubm, max_fitting_steps=steps, update_means=um, update_variances=False, update_weights=uw)
        g.fit(Xin())
        return g, [g.log_likelihood(X)]

    def gmm_map_alpha_array():
        # fixed adaptation ratios given per Gaussian as an array (the caller's), with a count threshold no component reaches
        g = GMMMachine(C, trainer="map", ubm=W.ubm, map_relevance_factor=None, map_alpha=W.alpha, max_fitting_steps=1,
                       update_weights=True, mean_var_update_threshold=2.0 * len(X))
        g.fit(Xin())
        return g, None

    def gmm_map_given_weights():
        # a MAP machine started from the caller's own weight vector (relative frequencies, not normalised), weights not adapted: the
        # array given to the constructor is the caller's (what the machine does with its own reference is its business - the
        # machine is not inspected for aliasing here - but the caller's numbers must still be there afterwards)
        g = GMMMachine(C, trainer="map", ubm=W.ubm, weights=W.init_w, max_fitting_steps=1, update_weights=False)
        g.fit(Xin())
        return None, [g.log_likelihood(X)]

    def gmm_map_unfitted():
        g = GMMMachine(C, trainer="map", ubm=W.ubm)
        return g, [g.log_likelihood(X), g.acc_stats(X)]

    def gmm_kmeans_init():
        g = GMMMachine(C, k_means_trainer=KMeansMachine(C, init_method=W.cent, max_iter=1), max_fitting_steps=1)
        g.fit(Xin())
        return g, None

    def acc():
        return None, [W.ubm.acc_stats(X), W.ubm.transform([X[:4], X[4:]])]

    def add():
        return None, [W.stats[0] + W.stats[1]]

    def iadd():
        W.stats[2] += W.stats[1]
        return None, None

    def accumulate():
        # the usual accumulation idiom: an empty container, then += of every session's statistics
        from bob.learn.em import GMMStats

        acc = GMMStats(C, D)
        for s_ in W.stats[:2]:
            acc += s_
        return None, [acc]

    def lin():
        return None, [linear_scoring(W.models, W.ubm, W.stats, 0, True), linear_scoring(W.models[0], W.ubm, W.stats[0])]

    def isv():
        mach = ISVMachine(1, ubm=W.ubm, em_iterations=1)
        mach.fit(W.stats, [0, 1, 0])
        z = mach.enroll(W.stats[:2])
        return mach, [z, mach.score(z, W.stats), mach.estimate_x(W.stats[:1])]

    def jfa():
        mach = JFAMachine(1, 1, ubm=W.ubm, em_iterations=1)
        mach.fit(W.stats, [0, 1, 0])
        mod = mach.enroll(W.stats[:2])
        return mach, [mod, mach.score(mod, W.stats)]

    def isv_array():
        mach = ISVMachine(1, ubm=W.ubm, em_iterations=1)
        mach.fit_using_array(Xin(), W.labels_arr)  # the caller's own label array (interleaved classes)
        return mach, [mach.enroll_using_array(X), mach.transform(X)]

    if not hasattr(W, "ivec_cfg"):  # drawn once per world: covariance update on / off, a floor that may lie above some UBM variance
        W.ivec_cfg = (bool(rng.integers(0, 2)), float(rng.choice([1e-10, 1e-10, 0.5, 2.0])))

    def fa_late_ubm():
        # the machine is built around a UBM that is still untrained; its owner trains (here: parameterises) it afterwards; a
        # later fit_using_array has no business re-training it
        ubm2 = GMMMachine(C)
        cls_ = [ISVMachine, JFAMachine][W.map_partial_cfg[2]]
        mach = cls_(1, ubm=ubm2, em_iterations=1) if cls_ is ISVMachine else cls_(1, 1, ubm=ubm2, em_iterations=1)
        ubm2.weights, ubm2.means, ubm2.variances = (np.array(a, dtype=float) for a in (W.ubm.weights, W.ubm.means, W.ubm.variances))
        kept = [np.array(a) for a in (ubm2.weights, ubm2.means, ubm2.variances)]
        mach.fit_using_array(Xin(), W.labels_arr)  # the caller's own label array (interleaved classes)
        now = [np.asarray(a) for a in (ubm2.weights, ubm2.means, ubm2.variances)]
        if not all(np.array_equal(a, b) for a, b in zip(kept, now)):
            W.extra = getattr(W, "extra", []) + [{"sig": "trained-ubm-modified:fa_fit_using_array_late_ubm", "what": "fit_using_array changed the parameters of a UBM its caller had already trained"}]
        return mach, None

    def ivec():
        mach = IVectorMachine(W.ubm, dim_t=1, max_iterations=2, update_sigma=W.ivec_cfg[0], variance_floor=W.ivec_cfg[1])
        mach.fit(W.stats)
        return mach, [mach.project(W.stats[0]), mach.transform(W.stats)]

    def linear():
        wc, wh = WCCN(), Whitening()
        wc.fit(Xin(), W.labels)
        wh.fit(Xin())
        return [wc, wh], [wc.transform(X), wh.transform(X)]

    out = {"kmeans_fit_0": (kmeans(0), []), "kmeans_fit_2": (kmeans(2), []), "gmm_ml_fit": (gmm_ml, []), "gmm_map_fit": (gmm_map, []),
           "gmm_map_partial_fit": (gmm_map_partial, []), "gmm_map_alpha_array_fit": (gmm_map_alpha_array, []), "gmm_map_unfitted_use": (gmm_map_unfitted, []), "gmm_map_given_weights_fit": (gmm_map_given_weights, []),
           "gmm_kmeans_init_fit": (gmm_kmeans_init, []), "acc_stats_transform": (acc, []), "stats_add": (add, []),
           "stats_iadd": (iadd, ["stats2.n", "stats2.sum_px", "stats2.sum_pxx"]), "stats_accumulate_from_empty": (accumulate, []), "fa_fit_using_array_late_ubm": (fa_late_ubm, []), "linear_scoring": (lin, []), "isv_fit_enroll_score": (isv, []),
           "jfa_fit_enroll_score": (jfa, []), "isv_array_entry_points": (isv_array, []), "ivector_fit_project": (ivec, []), "wccn_whitening": (linear, [])}
    if D < 1:
        out.pop("wccn_whitening")
    return out


def run_sequence(ctx, W, names):
    """execute the calls; returns (effects, direct_failures)"""
    calls = calls_for(W, ctx.rng)
    effects, direct = [], []
    for name in names:
        thunk, handed = calls[name]
        before = W.snapshot()
        res = core.impl(thunk)
        after = W.snapshot()
        writes = [i for i, (a, b) in enumerate(zip(before, after)) if a != b]
        handed_ids = [i for i, (n, _) in enumerate(W.cells) if n in handed]
        if isinstance(res, core.ImplError):
            direct.append({"sig": f"call-raises:{name}", "what": repr(res), "call": name})
            effects.append({"name": name, "writes": writes, "holds": [], "handed": handed_ids})
            continue
        for x in getattr(W, "extra", []):
            direct.append(dict(x, call=name))
        W.extra = []
        for a in getattr(W, "lazy", []):
            now = core.impl(lambda: np.asarray(a.compute()))
            if isinstance(now, core.ImplError) or now.shape != W.X.shape or not np.array_equal(now, W.X):
                direct.append({"sig": f"input-modified:{name}:dask-array", "what": f"{name}: the Dask array handed over no longer computes to the caller's data", "call": name})
        W.lazy = []
        est, result = res
        held = arrays_in(est) + arrays_in(result, skip=False)
        holds = W.holder_ids(held)
        effects.append({"name": name, "writes": writes, "holds": holds, "handed": handed_ids})
        if W.labels != W.labels_copy:
            direct.append({"sig": f"labels-modified:{name}", "what": "the label list was modified", "call": name})
            W.labels[:] = W.labels_copy
        for i in writes:
            if i not in handed_ids:
                direct.append({"sig": f"input-modified:{name}:{W.cells[i][0].split('.')[-1]}", "what": f"{name} changed caller-owned {W.cells[i][0]}", "call": name})
        # overwrite-after test: scribbling on every input must leave what the estimator holds unchanged
        kept = [h.tobytes() for h in held]
        saved = [c.copy() for _, c in W.cells]
        for _, c in W.cells:
            if c.flags.writeable and c.dtype.kind == "f":
                c += 1.0
        changed = [k for k, h in enumerate(held) if h.tobytes() != kept[k]]
        for (_, c), s in zip(W.cells, saved):
            if c.flags.writeable:
                c[...] = s
        if changed:
            direct.append({"sig": f"model-aliases-input:{name}", "what": f"{name}: overwriting the inputs afterwards changed {len(changed)} array(s) held by the estimator / result", "call": name})
    return effects, direct


def gen_names(ctx, W):
    names = list(calls_for(W, ctx.rng).keys())
    L = int(ctx.rng.integers(3, 7 if ctx.tier == "quick" else 12))
    return [names[int(i)] for i in ctx.rng.integers(0, len(names), L)]


def correspondence(ctx):
    bad = []
    runs = []
    for i in range(ctx.budget(10, 80)):
        W = build_world(ctx)
        names = gen_names(ctx, W)
        eff, direct = run_sequence(ctx, W, names)
        runs.append((W, names, eff, direct))
    outs = core.drive([{"op": "own_check", "caller": list(range(len(W.cells))), "calls": [{"writes": e["writes"], "holds": e["holds"], "handed": e["handed"]} for e in eff]}
                       for W, names, eff, direct in runs])
    ctx._c19_direct = []
    for (W, names, eff, direct), o in zip(runs, outs):
        ctx.traces += 1
        for n in names:
            ctx.count("call:" + n)
        ctx.count("dask" if W.use_dask else "numpy")
        ctx.case([names, W.use_dask, W.C, W.D, core.tolist(W.X)], nontrivial=len(set(names)) >= 2, sample={"calls": names, "dask": W.use_dask, "C": W.C, "D": W.D, "model_first_violation": o["first"]})
        ctx._c19_direct += [dict(d, sequence=names, dask=W.use_dask, seed_case=[W.C, W.D]) for d in direct]
        if o["first"] is not None:
            e = eff[o["first"]]
            bad.append({"op": "own_check:discipline", "input": {"sequence": names, "dask": W.use_dask, "failing_call": e["name"], "cells": [n for n, _ in W.cells]},
                        "model": o, "observed_effect": e, "known_sig": None})
    # reuse: the same call on the same inputs gives the same result after other calls ran in between
    for i in range(ctx.budget(6, 40)):
        W = build_world(ctx)
        calls = calls_for(W, ctx.rng)
        pure = [n for n in calls if n not in ("stats_iadd", "ivector_fit_project")]
        name = pure[int(ctx.rng.integers(0, len(pure)))]
        r1 = core.impl(calls[name][0])
        for other in gen_names(ctx, W):
            if other != "stats_iadd":
                core.impl(calls[other][0])
        r2 = core.impl(calls[name][0])
        ctx.count("reuse:" + name)
        ctx.case(["reuse", name, core.tolist(W.X)], nontrivial=True)
        if isinstance(r1, core.ImplError) or isinstance(r2, core.ImplError):
            continue
        a1 = arrays_in(r1[0]) + arrays_in(r1[1], skip=False)
        a2 = arrays_in(r2[0]) + arrays_in(r2[1], skip=False)
        if len(a1) != len(a2) or not all(x.shape == y.shape and core.close(x, y, 1e-12, 1e-12) for x, y in zip(a1, a2)):
            bad.append({"op": "own_check:reuse", "input": {"call": name, "dask": W.use_dask}, "what": "a repeated call with the same inputs gave a different result"})
    return bad


def search(ctx):
    fails, seen = [], set()
    for d in getattr(ctx, "_c19_direct", []):
        if d["sig"] not in seen and not d["sig"].startswith("call-raises"):
            seen.add(d["sig"])
            fails.append({"sig": d["sig"], "what": d["what"], "input": {"call": d["call"], "sequence": d["sequence"], "dask": d["dask"]}})
    # every entry point once more, each on a fresh world, NumPy and Dask
    for use_dask in (False, True):
        W = build_world(ctx)
        W.use_dask = use_dask
        for name in calls_for(W, ctx.rng):
            W2 = build_world(ctx)
            W2.use_dask = use_dask
            eff, direct = run_sequence(ctx, W2, [name])
            ctx.count("search:" + name)
            ctx.case(["s", name, use_dask, core.tolist(W2.X)], nontrivial=True)
            for d in direct:
                if d["sig"] not in seen and not d["sig"].startswith("call-raises"):
                    seen.add(d["sig"])
                    fails.append({"sig": d["sig"], "what": d["what"], "input": {"call": name, "sequence": [name], "dask": use_dask}})
    return fails


def replay(d):
    class Fake:
        tier = "quick"
        rng = np.random.default_rng(0)

    for attempt in range(5):
        W = build_world(Fake)
        W.use_dask = d["input"]["dask"]
        eff, direct = run_sequence(Fake, W, d["input"]["sequence"])
        hits = [x for x in direct if x["sig"] == d["sig"]]
        if hits:
            return hits[0]
    return None
