"""C17 — A GMM's likelihood reflects its current visible parameters, whatever its history."""
import copy
import os
import pickle

import numpy as np

import core
import gen

THEOREMS = [
    "C17_coherent_init",
    "C17_coherent_step",
    "C17_coherent_invariant",
    "C17_refines_fresh",
    "C17_variances_ge_floors",
    "C17_equals_fresh",
    "C17_exec_eq_spec",
]
CORR_OPS = ["gmm_ops:log_likelihood", "gmm_ops:variances", "gmm_ops:weights"]
RULE = ("random sequences of public mutations on one GMMMachine (ML and MAP machines): weight/mean/variance assignments, variance floors "
        "as scalar / per-feature / per-component / full arrays raised and lowered, single M-steps with random switches, deepcopy, pickle, "
        "HDF5 save+load; after every operation log_likelihood of probe rows and the variances are compared with the model state machine; "
        "non-trivial = sequence contains a floor change after variances were set and at least one M-step or clone")
ASSUMPTIONS = ["MAP M-steps inside sequences update weights/means only (the variance blend is C05's subject and has a known finding)"]


def floor_value(r, C, D, scale2):
    kind = int(r.integers(0, 4))
    base = scale2 * 10 ** r.uniform(-3, 0.7)
    if kind == 0:
        val = float(base)
    elif kind == 1:
        val = base * r.uniform(0.5, 2, D)
    elif kind == 2:
        val = base * r.uniform(0.5, 2, (C, 1))
    else:
        val = base * r.uniform(0.5, 2, (C, D))
    return kind, val


def gen_sequence(ctx, maxlen):
    r = ctx.rng
    C, D = int(r.integers(1, 4)), int(r.integers(1, 4))
    scale = float(10.0 ** r.choice([-1, 0, 0, 1]))
    if r.random() < 0.15:
        # many features in a small (or large) unit: each variance is an ordinary number, their product is not representable
        D = int(r.integers(20, 41))
        scale = float(10.0 ** r.choice([-8, 7]))
    w, m, v, _ = gen.gmm_params(r, C, D, scales=np.ones(D) * scale)
    is_map = bool(r.random() < 0.35)
    # an ML machine usually starts with means and variances assigned; sometimes only the means are (fit then supplies unit variances)
    ops = ([("m", m), ("v", v)] if r.random() < 0.7 else [("m", m)]) if not is_map else []
    if len(ops) == 1 and r.random() < 0.6:
        ops += [("t",) + floor_value(r, C, D, 10.0), ("fit0",)]  # floors around / above the unit variances fit is about to supply
    L = int(r.integers(3, maxlen + 1))
    for _ in range(L):
        k = r.choice(["w", "m", "v", "t", "t", "step", "step", "clone", "clone", "fit0"])
        if k == "fit0":
            ops.append(("fit0",))
            continue
        if k == "w":
            ops.append(("w", r.dirichlet(np.full(C, 2.0))))
        elif k == "m":
            ops.append(("m", r.normal(0, 3, (C, D)) * scale))
        elif k == "v":
            ops.append(("v", np.exp(r.uniform(np.log(0.01), np.log(20), (C, D))) * scale**2))
        elif k == "t":
            ops.append(("t",) + floor_value(r, C, D, scale**2))
        elif k == "step":
            sw = tuple(bool(b) for b in r.integers(0, 2, 3))
            ops.append(("step", sw, int(r.integers(3, 15)), float(10 ** r.uniform(-12, -1))))
        else:
            ops.append(("clone", str(r.choice(["deepcopy", "pickle", "hdf5", "hdf5_load", "ubm_inplace", "sibling_inplace"]))))
    probes = r.normal(0, 4, (3, D)) * scale
    default_w = bool(not is_map and r.random() < 0.3)
    if default_w:  # the machine is created without weights: it starts from the default (uniform) ones
        w = np.full(C, 1.0 / C)
    return dict(default_w=default_w, C=C, D=D, w0=w, ubm=(w, m, v) if is_map else None, ops=ops, probes=probes, scale=scale,
                init_thr=gen.EPS, seed=int(r.integers(0, 2**31)))


def run_impl(seq):
    """Apply the sequence to a real GMMMachine.  Returns (model_ops, observations)."""
    from bob.learn.em import GMMMachine
    from bob.learn.em import gmm as gmod

    C, D = seq["C"], seq["D"]
    rng = np.random.default_rng(seq["seed"])
    model_ops, obs_list = [], []
    if seq["ubm"] is not None:
        uw, um, uv = seq["ubm"]
        ubm = gen.mk_gmm(uw, um, uv)
        g = GMMMachine(C, trainer="map", ubm=ubm, weights=None)
        uthr = np.broadcast_to(np.asarray(ubm.variance_thresholds, dtype=float), (C, D))
        # the constructor's order since the D23 fix: floors, means, variances, weights
        init_ops = [{"k": "t", "val": core.enc(uthr)}, {"k": "m", "val": core.enc(um)}, {"k": "v", "val": core.enc(uv)}, {"k": "w", "val": core.enc(uw)}]
    else:
        ubm = None
        g = GMMMachine(C) if seq.get("default_w") else GMMMachine(C, weights=np.array(seq["w0"]))
        init_ops = []
    tmp = os.path.join(core.WORK, "c17.h5")
    os.makedirs(core.WORK, exist_ok=True)

    def observe(g):
        try:
            _ = g.means
            v = np.array(g.variances, dtype=float)
        except ValueError:
            return {"v": None, "ll": None, "w": np.array(g.weights, dtype=float)}
        ll = core.impl(lambda: np.asarray(g.log_likelihood(seq["probes"]), dtype=float))
        return {"v": v, "ll": ll, "w": np.array(g.weights, dtype=float), "thr": copy.deepcopy(g.variance_thresholds), "m": np.array(g.means, dtype=float)}

    for op in seq["ops"]:
        k = op[0]
        if k == "w":
            g.weights = np.array(op[1])
            model_ops.append({"k": "w", "val": core.enc(op[1])})
        elif k == "m":
            g.means = np.array(op[1])
            model_ops.append({"k": "m", "val": core.enc(op[1])})
        elif k == "v":
            g.variances = np.array(op[1])
            model_ops.append({"k": "v", "val": core.enc(op[1])})
        elif k == "t":
            val = op[2]
            g.variance_thresholds = copy.deepcopy(val)
            model_ops.append({"k": "t", "val": core.enc(np.broadcast_to(np.asarray(val, dtype=float), (C, D)))})
        elif k == "fit0":
            # fit with an iteration limit of 0: initialisation only - a machine with means and no variances gets unit variances
            # (through the setter, hence clamped at the current floors); nothing else may change
            try:
                _ = g.means
            except ValueError:
                model_ops.append({"k": "clone"})  # would run the k-means initialisation: not this property's business
                obs_list.append(observe(g))
                continue
            try:
                _ = g.variances
                had_v = True
            except ValueError:
                had_v = False
            keep = g.max_fitting_steps
            g.max_fitting_steps = 0
            r = core.impl(lambda: g.fit(rng.normal(0, 3, (6, D)) * seq["scale"]))
            g.max_fitting_steps = keep
            if isinstance(r, core.ImplError):
                obs_list.append({"error": "fit: " + repr(r)})
                model_ops.append({"k": "clone"})
                continue
            model_ops.append({"k": "clone"} if had_v else {"k": "v", "val": core.enc(np.ones((C, D)))})
        elif k == "step":
            (um_, uv_, uw_), n, thr = op[1], op[2], op[3]
            try:
                _ = g.means, g.variances
            except ValueError:
                model_ops.append({"k": "clone"})
                obs_list.append(observe(g))
                continue
            x = rng.normal(0, 3, (n, D)) * seq["scale"]
            st = g.acc_stats(x)
            g.update_means, g.update_variances, g.update_weights = um_, (uv_ and ubm is None), uw_
            g.mean_var_update_threshold = thr
            floor = np.broadcast_to(np.asarray(g.variance_thresholds, dtype=float), (C, D))
            r = core.impl(lambda: gmod.m_step([st], g))
            if isinstance(r, core.ImplError):
                obs_list.append({"error": repr(r)})
                model_ops.append({"k": "clone"})
                continue
            base = {"st": gen.stats_line(st), "um": um_, "uv": bool(uv_ and ubm is None), "uw": uw_, "thr": core.bits(thr), "floor": core.enc(floor)}
            if ubm is None:
                model_ops.append({"k": "ml", **base})
            else:
                model_ops.append({"k": "map", **base, "ubm": gen.params_line(g.ubm.weights, g.ubm.means, g.ubm.variances), "reynolds": g.map_relevance_factor is not None,
                                  "r": core.bits(g.map_relevance_factor or 0.0), "alpha": core.bits(g.map_alpha)})
        else:
            how = op[1]
            if how == "ubm_inplace":
                # the prior the machine was built from is re-weighted in place by its owner (public property, augmented
                # assignment): another object's business - the machine's own state is what it was
                if ubm is not None:
                    g.ubm.weights *= rng.uniform(0.5, 2.0, C)
                    g.ubm.weights /= g.ubm.weights.sum()
                else:
                    g = copy.deepcopy(g)
            elif how == "sibling_inplace":
                # another machine of the same size, created with default settings, is re-weighted in place by its owner (public
                # property, augmented assignment): no business of this machine
                sib = GMMMachine(C)
                sib.weights *= rng.uniform(0.5, 2.0, C)
                sib.weights /= sib.weights.sum()
            elif how == "deepcopy":
                g = copy.deepcopy(g)
            elif how == "pickle":
                g = pickle.loads(pickle.dumps(g))
            else:
                try:
                    _ = g.means, g.variances
                    if os.path.exists(tmp):
                        os.remove(tmp)
                    r = core.impl(lambda: g.save(tmp))
                    if not isinstance(r, core.ImplError) and how == "hdf5_load":
                        # in-place load into a machine that has other parameters and has been used (its caches are filled)
                        other = copy.deepcopy(g)
                        other.weights = np.asarray(other.weights)[::-1].copy()
                        other.means = np.asarray(other.means) * 1.5 + 0.25
                        other.variances = np.asarray(other.variances) * 2.0
                        core.impl(lambda: other.log_likelihood(np.asarray(other.means)))
                        r2 = core.impl(lambda: other.load(tmp))
                        if isinstance(r2, core.ImplError):
                            obs_list.append({"error": "load: " + repr(r2)})
                            model_ops.append({"k": "clone"})
                            continue
                        g = other
                    elif not isinstance(r, core.ImplError):
                        g2 = core.impl(lambda: GMMMachine.from_hdf5(tmp, ubm=g.ubm))
                        if isinstance(g2, core.ImplError):
                            obs_list.append({"error": "load: " + repr(g2)})
                            model_ops.append({"k": "clone"})
                            continue
                        g = g2
                except ValueError:
                    pass
            model_ops.append({"k": "clone"})
        obs_list.append(observe(g))
    return init_ops, model_ops, obs_list, g


def nontrivial(seq):
    ks = [o[0] for o in seq["ops"]]
    if "t" not in ks:
        return False
    return ("step" in ks or "clone" in ks)


def correspondence(ctx, n=None):
    bad = []
    n = n or ctx.budget(60, 600)
    maxlen = 12 if ctx.tier == "quick" else 40
    seqs = [gen_sequence(ctx, maxlen) for _ in range(n)]
    runs = [run_impl(s) for s in seqs]
    lines = []
    for s, (init_ops, mops, obs_list, g) in zip(seqs, runs):
        lines.append({"op": "gmm_ops", "C": s["C"], "D": s["D"], "w": core.enc(s["w0"] if s["ubm"] is None else np.full(s["C"], 1 / s["C"])),
                      "thr": core.bits(s["init_thr"]), "x": core.enc(s["probes"]), "ops": init_ops + mops})
    outs = core.drive(lines)
    for s, (init_ops, mops, obs_list, g), o in zip(seqs, runs, outs):
        steps = o["steps"][len(init_ops):]
        ctx.traces += 1
        for op in s["ops"]:
            ctx.count("op:" + op[0] + (":" + op[1] if op[0] == "clone" else ""))
        ctx.count("machine:" + ("map" if s["ubm"] is not None else "ml"))
        ctx.case([core.tolist(s["probes"]), [str(o)[:60] for o in s["ops"]]], nontrivial=nontrivial(s),
                 sample={"C": s["C"], "D": s["D"], "machine": "map" if s["ubm"] is not None else "ml", "ops": [o[0] if o[0] != "clone" else o[1] for o in s["ops"]]})
        for i, (ob, st) in enumerate(zip(obs_list, steps)):
            where = {"sequence": [str(x)[:200] for x in s["ops"][: i + 1]], "failing_op_index": i, "C": s["C"], "D": s["D"], "seed": s["seed"], "machine": "map" if s["ubm"] is not None else "ml"}
            if "error" in ob:
                bad.append({"op": "gmm_ops:log_likelihood", "input": where, "impl": ob["error"]})
                break
            mv = core.dec(st["v"]) if st["v"] is not None else None
            if (mv is None) != (ob["v"] is None) or (mv is not None and not core.close(mv, ob["v"], 1e-8, 1e-12)):
                bad.append({"op": "gmm_ops:variances", "input": where, "model": mv, "impl": ob["v"]})
                break
            if not core.close(core.dec(st["w"]), ob["w"], 1e-9, 1e-12):
                bad.append({"op": "gmm_ops:weights", "input": where, "model": core.dec(st["w"]), "impl": ob["w"]})
                break
            if ob["ll"] is not None:
                mll = np.array([core.unbits(b) if b is not None else np.nan for b in st["ll"]])
                if isinstance(ob["ll"], core.ImplError) or not core.close(mll, ob["ll"], 1e-8, 1e-9):
                    bad.append({"op": "gmm_ops:log_likelihood", "input": where, "model": mll, "impl": repr(ob["ll"]) if isinstance(ob["ll"], core.ImplError) else ob["ll"]})
                    break
    return bad


def oracle(seq):
    """after every operation: same likelihoods / statistics as a freshly built machine with the same visible parameters; variances >= floors"""
    init_ops, mops, obs_list, g = run_impl(seq)
    # re-run, checking after every prefix (cheap: sequences are short)
    for i in range(len(seq["ops"])):
        sub = dict(seq, ops=seq["ops"][: i + 1])
        _, _, obs_i, gi = run_impl(sub)
        ob = obs_i[-1] if obs_i else None
        if ob is None:
            continue
        if "error" in ob:
            return {"sig": "operation-raises", "what": ob["error"], "failing_op_index": i}
        if ob["v"] is None:
            continue
        thr = np.broadcast_to(np.asarray(ob["thr"], dtype=float), ob["v"].shape)
        if np.any(ob["v"] < thr):
            return {"sig": "variance-below-current-floor", "what": f"after op {i} {seq['ops'][i][0]}: variances {ob['v'].tolist()} floors {thr.tolist()}", "failing_op_index": i}
        fresh = gen.mk_gmm(ob["w"], ob["m"], ob["v"], thr=ob["thr"])
        fl = np.asarray(fresh.log_likelihood(seq["probes"]), dtype=float)
        if isinstance(ob["ll"], core.ImplError) or not core.close(ob["ll"], fl, 1e-12, 1e-12):
            return {"sig": "likelihood-differs-from-fresh-machine", "what": f"after op {i} ({seq['ops'][i][0]}): {ob['ll']!r} vs fresh {fl.tolist()}", "failing_op_index": i}
        s1 = core.impl(lambda: gen.stats_impl(gi.acc_stats(seq["probes"])))
        s2 = gen.stats_impl(fresh.acc_stats(seq["probes"]))
        if isinstance(s1, core.ImplError) or not gen.stats_close(s1, s2, 1e-12, 1e-12):
            return {"sig": "statistics-differ-from-fresh-machine", "what": f"after op {i} ({seq['ops'][i][0]})", "failing_op_index": i}
    return None


def search(ctx):
    fails, seen = [], set()
    maxlen = 8 if ctx.tier == "quick" else 25
    for i in range(ctx.budget(25, 250)):
        seq = gen_sequence(ctx, maxlen)
        ctx.count("search:fresh-machine")
        ctx.case(["s", [str(o)[:60] for o in seq["ops"]]], nontrivial=nontrivial(seq))
        f = oracle(seq)
        if f and f["sig"] not in seen:
            seen.add(f["sig"])
            f["input"] = seq
            fails.append(f)
    return fails


def replay(d):
    seq = d["input"]
    ops = []
    for o in seq["ops"]:
        o = list(o)
        if o[0] in ("w", "m", "v"):
            o[1] = np.asarray(o[1], dtype=float)
        if o[0] == "t" and isinstance(o[2], list):
            o[2] = np.asarray(o[2], dtype=float)
        if o[0] == "step":
            o[1] = tuple(o[1])
        ops.append(tuple(o))
    seq["ops"] = ops
    seq["probes"] = np.asarray(seq["probes"], dtype=float)
    seq["w0"] = np.asarray(seq["w0"], dtype=float)
    if seq["ubm"] is not None:
        seq["ubm"] = tuple(np.asarray(a, dtype=float) for a in seq["ubm"])
    return oracle(seq)
