"""C02 — GMM statistics are responsibility-weighted moments, additive over any split."""
import copy

import numpy as np

import core
import gen

THEOREMS = [
    "C02_stats_are_moments",
    "C02_resp_is_posterior",
    "C02_resp_simplex'",
    "C02_additive'",
    "C02_any_partition'",
    "C02_perm",
    "C02_any_arrangement",
    "C02_add_refuses_mismatch",
    "C02_weighted_sums_conserve",
    "C02_moments_sum_to_data",
]
CORR_OPS = ["gmm_estep:whole", "gmm_estep:per_block", "gmm_estep:fold_add", "gmm_estep:fold_iadd", "gmm_estep:fold_iadd_from_fresh", "gmm_estep:dask",
            "gmm_estep:transform", "gmm_estep:conservation", "gmm_estep:single_vector", "gmm_estep:transform_rows", "stats_add:add", "stats_add:iadd"]
RULE = ("a machine, a data set and a split of its rows into consecutive blocks (all 2^(n-1) compositions of small n, then random "
        "compositions) or an arbitrary row-to-block assignment; distinct = hash(machine, rows, split); non-trivial = >= 2 blocks and "
        ">= 2 components with responsibility mass > 1e-3")
ASSUMPTIONS = ["K-layer tolerance 1e-8 relative between model@Float and implementation; shape errors compared as an enum"]


def scenarios(ctx, n):
    r = ctx.rng
    out = []
    small = int(r.integers(2, 6 if ctx.tier == "quick" else 8))
    comps = gen.compositions(small)
    r.shuffle(comps)
    for i in range(n):
        C, D, N = gen.dims(ctx, nmax_q=16, nmax_t=60)
        if i < len(comps):
            N = small
            sizes = tuple(comps[i])
        else:
            sizes = gen.random_composition(r, N)
        w, m, v, sc = gen.gmm_params(r, C, D)
        x = gen.maybe_int(r, gen.sample_data(r, w, m, v, N), p=0.35)
        if i >= len(comps) and r.random() < 0.12:
            # features stored the way sensors deliver them: bytes (0 .. 255) or 16-bit samples — squares and sums of such values
            # do not fit their own type, the statistics are real numbers all the same; small mixtures (1 - 2 Gaussians)
            C = int(r.integers(1, 3))
            kind, centre, spread = [("uint8", 128.0, 40.0), ("int16", 0.0, 8000.0), ("int8", 0.0, 40.0), ("uint16", 30000.0, 9000.0)][int(r.integers(0, 4))]
            w = r.dirichlet(np.full(C, 3.0))
            m = centre + r.normal(size=(C, D)) * spread * 0.5
            v = spread**2 * r.uniform(0.5, 2.0, size=(C, D))
            info = np.iinfo(kind)
            x = np.clip(np.rint(gen.sample_data(r, w, m, v, N)), info.min, info.max).astype(kind)
        int_means = bool(r.random() < 0.15)
        if int_means:  # the model's means are whole numbers in an integer-typed array; the samples are what they are
            m = np.rint(m)
        perm = r.permutation(N) if i % 3 == 2 else np.arange(N)
        # the machine's count threshold is an M-step setting: statistics do not depend on it
        mvt = float(r.choice([gen.EPS, gen.EPS, 0.5, 3.0]))
        out.append(dict(C=C, D=D, w=w, m=m, v=v, x=x, x_dtype=str(x.dtype), sizes=sizes, perm=perm, mvt=mvt, int_means=int_means))
    return out


def impl_run(sc):
    import dask
    import dask.array as da

    g = gen.mk_gmm(sc["w"], sc["m"], sc["v"], thr=gen.EPS, mean_var_update_threshold=sc.get("mvt", gen.EPS))
    if sc.get("int_means"):
        g.means = np.asarray(sc["m"]).astype(np.int64)  # whole-number means typed in by hand, in an integer-typed array
    x = sc["x"]
    xp = x[sc["perm"]]
    blocks = gen.split(xp, sc["sizes"])
    o = {}
    o["whole"] = core.impl(lambda: gen.stats_impl(g.acc_stats(x)))
    o["per"] = core.impl(lambda: [gen.stats_impl(g.acc_stats(b)) for b in blocks])

    def fold_add():
        ss = [g.acc_stats(b) for b in blocks]
        acc = ss[0]
        for s in ss[1:]:
            acc = acc + s
        return gen.stats_impl(acc)

    def fold_iadd():
        import functools
        import operator

        ss = [g.acc_stats(b) for b in blocks]
        return gen.stats_impl(functools.reduce(operator.iadd, ss))

    def dask_stats():
        s = g.acc_stats(da.from_array(xp, chunks=(tuple(sc["sizes"]), x.shape[1])))
        n, px, pxx, ll = dask.compute(s.n, s.sum_px, s.sum_pxx, s.log_likelihood)
        return {"n": np.asarray(n), "px": np.asarray(px), "pxx": np.asarray(pxx), "ll": float(ll), "t": int(s.t)}

    def fold_from_fresh(kind):
        from bob.learn.em import GMMStats

        acc = GMMStats(sc["C"], sc["D"])
        if kind == "reset":
            acc += g.acc_stats(blocks[0])
            acc.reset()
        elif kind == "zero_rows":
            acc = g.acc_stats(blocks[0][:0])
        if kind == "buffer":
            # the rows are streamed through one re-used buffer (same object, same shape, other content every time)
            buf = np.zeros((1, sc["D"]), dtype=np.asarray(xp).dtype)
            for b in blocks:
                for row in np.asarray(b):
                    buf[0] = row
                    acc += g.acc_stats(buf)
            return gen.stats_impl(acc)
        for b in blocks:
            acc += g.acc_stats(b)
        return gen.stats_impl(acc)

    o["fold_fresh"] = [core.impl(fold_from_fresh, k) for k in ("fresh", "reset", "zero_rows", "buffer")]
    o["fold_add"] = core.impl(fold_add)
    o["fold_iadd"] = core.impl(fold_iadd)
    o["dask"] = core.impl(dask_stats)
    o["transform"] = core.impl(lambda: [gen.stats_impl(s) for s in g.transform(blocks)])
    # single samples given as 1-D vectors (acc_stats on a vector; transform / stats_per_sample iterate over the rows of an array)
    head = x[:3]
    o["single"] = core.impl(lambda: [gen.stats_impl(g.acc_stats(row)) for row in head])
    o["rows"] = core.impl(lambda: [gen.stats_impl(s) for s in g.transform(head)])
    return o


def correspondence(ctx):
    bad = []
    scs = scenarios(ctx, ctx.budget(50, 500))
    lines = []
    for sc in scs:
        xp = sc["x"][sc["perm"]]
        lines.append({"op": "gmm_estep", "C": sc["C"], "D": sc["D"], **gen.params_line(sc["w"], sc["m"], sc["v"]),
                      "blocks": [core.enc(b) for b in gen.split(xp, sc["sizes"])]})
    outs = core.drive(lines)
    single_lines = [{"op": "gmm_estep", "C": sc["C"], "D": sc["D"], **gen.params_line(sc["w"], sc["m"], sc["v"]),
                     "blocks": [core.enc(row[None, :]) for row in sc["x"][:3]]} for sc in scs]
    single_outs = core.drive(single_lines)
    for sc, o, so in zip(scs, outs, single_outs):
        im = impl_run(sc)
        whole = gen.stats_dec(o["whole"])
        folded = gen.stats_dec(o["folded"])
        per = [gen.stats_dec(p) for p in o["per"]]
        heavy = int(np.sum(whole["n"] > 1e-3))
        ctx.count(f"blocks={len(sc['sizes'])}")
        ctx.count("permuted" if not np.array_equal(sc["perm"], np.arange(len(sc["x"]))) else "consecutive")
        ctx.case([core.tolist(sc["m"]), core.tolist(sc["x"]), sc["sizes"], core.tolist(sc["perm"])], nontrivial=len(sc["sizes"]) >= 2 and heavy >= 2,
                 sample={"C": sc["C"], "D": sc["D"], "rows": len(sc["x"]), "split": sc["sizes"], "n_model": whole["n"], "t": whole["t"]})

        def cmp(op, a, b, rtol=1e-8):
            if isinstance(b, core.ImplError):
                bad.append({"op": op, "input": sc, "impl": repr(b)})
            elif isinstance(a, list):
                if len(a) != len(b) or not all(gen.stats_close(x, y, rtol) for x, y in zip(a, b)):
                    bad.append({"op": op, "input": sc, "model": a, "impl": b})
            elif not gen.stats_close(a, b, rtol):
                bad.append({"op": op, "input": sc, "model": a, "impl": b})

        cmp("gmm_estep:whole", whole, im["whole"])
        cmp("gmm_estep:per_block", per, im["per"])
        # C02_moments_sum_to_data on the code: over the components the first / second order statistics add up to the column sums
        # (of squares) of the data and the counts to the number of rows
        if not isinstance(im["whole"], core.ImplError):
            xf = np.asarray(sc["x"], dtype=np.float64)
            iw = im["whole"]
            scale1, scale2 = np.abs(xf).sum(axis=0) + 1e-300, (xf * xf).sum(axis=0) + 1e-300
            ok = (np.all(np.abs(np.asarray(iw["px"], dtype=np.float64).sum(axis=0) - xf.sum(axis=0)) <= 1e-8 * scale1)
                  and np.all(np.abs(np.asarray(iw["pxx"], dtype=np.float64).sum(axis=0) - (xf * xf).sum(axis=0)) <= 1e-8 * scale2)
                  and abs(float(np.sum(iw["n"])) - len(xf)) <= 1e-8 * max(1, len(xf)))
            if not ok:
                bad.append({"op": "gmm_estep:conservation", "input": sc, "impl": iw})
        cmp("gmm_estep:fold_add", folded, im["fold_add"])
        cmp("gmm_estep:fold_iadd", folded, im["fold_iadd"])
        for ff in im["fold_fresh"]:
            cmp("gmm_estep:fold_iadd_from_fresh", folded, ff)
        cmp("gmm_estep:dask", whole, im["dask"])
        cmp("gmm_estep:transform", per, im["transform"])
        rows = [gen.stats_dec(p) for p in so["per"]]
        cmp("gmm_estep:single_vector", rows, im["single"])
        cmp("gmm_estep:transform_rows", rows, im["rows"])
    # declared-shape check of + and +=
    r = ctx.rng
    lines, pairs = [], []
    for i in range(ctx.budget(40, 300)):
        Ca, Da = int(r.integers(1, 4)), int(r.integers(1, 4))
        if i % 3 == 0:
            Cb, Db = (Ca + int(r.integers(0, 2)), Da + int(r.integers(0, 2)))
        else:
            Cb, Db = Ca, Da

        def rs(C, D):
            return gen.mk_stats(C, D, r.uniform(0, 5, C), r.normal(size=(C, D)), r.uniform(0, 9, (C, D)), int(r.integers(0, 30)), float(r.normal()))

        a, b = rs(Ca, Da), rs(Cb, Db)
        pairs.append((a, b))
        enc = lambda s: {"nG": s.n_gaussians, "nF": s.n_features, **gen.stats_line(s)}
        lines.append({"op": "stats_add", "a": enc(a), "b": enc(b)})
    outs = core.drive(lines)
    for (a, b), o in zip(pairs, outs):
        mism = (a.n_gaussians, a.n_features) != (b.n_gaussians, b.n_features)
        ctx.count("add:mismatch" if mism else "add:ok")
        ctx.case(["add", a.n.tolist(), b.n.tolist(), mism], nontrivial=True)
        for op, f in (("stats_add:add", lambda: a + b), ("stats_add:iadd", lambda: copy.deepcopy(a).__iadd__(b))):
            res = core.impl(f)
            if "err" in o:
                ok = isinstance(res, core.ImplError) and res.kind == "ValueError"
            else:
                ok = (not isinstance(res, core.ImplError)) and gen.stats_close(gen.stats_dec(o), gen.stats_impl(res), 1e-12) \
                    and (res.n_gaussians, res.n_features) == (o["nG"], o["nF"])
            if not ok:
                bad.append({"op": op, "input": {"a": gen.stats_impl(a), "b": gen.stats_impl(b), "shapes": [a.shape, b.shape]}, "model": o, "impl": repr(res)})
    return bad


def oracle(sc):
    """split-and-add == whole; n >= 0, sum n == t; moments from an independent posterior."""
    from props.c01 import reference_ll

    w, m, v = (np.asarray(sc[k], dtype=float) for k in ("w", "m", "v"))
    x = np.asarray(sc["x"]).astype(sc.get("x_dtype", "float64"))  # the array the implementation is given (its dtype is part of the input)
    g = gen.mk_gmm(w, m, v, thr=gen.EPS, mean_var_update_threshold=float(sc.get("mvt", gen.EPS)))
    if sc.get("int_means"):
        g.means = np.asarray(m).astype(np.int64)
    perm = np.asarray(sc.get("perm", np.arange(len(x))), dtype=int)
    blocks = gen.split(x[perm], sc["sizes"])
    whole = core.impl(lambda: gen.stats_impl(g.acc_stats(x)))
    if isinstance(whole, core.ImplError):
        return {"sig": "acc_stats-raises", "what": repr(whole)}
    xf = x.astype(float)
    ref, comp = reference_ll(w, m, v, xf)
    resp = np.exp(comp - ref[None, :])
    exp = {"n": resp.sum(1), "px": resp @ xf, "pxx": resp @ (xf * xf), "ll": float(ref.sum()), "t": len(x)}
    if not gen.stats_close(whole, exp, 1e-8, 1e-9):
        return {"sig": "stats-not-posterior-moments", "what": f"acc_stats differs from responsibility-weighted moments: n={whole['n'].tolist()} expected {exp['n'].tolist()}"}
    if np.any(whole["n"] < 0) or abs(whole["n"].sum() - len(x)) > 1e-8 * max(1, len(x)):
        return {"sig": "responsibilities-off-simplex", "what": f"n={whole['n'].tolist()} t={len(x)}"}

    one = core.impl(lambda: gen.stats_impl(g.acc_stats(x[0])))
    if isinstance(one, core.ImplError) or one["t"] != 1 or abs(one["n"].sum() - 1) > 1e-9:
        return {"sig": "single-vector-statistics-wrong-count", "what": f"acc_stats of one sample given as a vector: {one!r}"}
    rows = core.impl(lambda: [gen.stats_impl(s) for s in g.transform(x)])
    if isinstance(rows, core.ImplError) or len(rows) != len(x) or any(r_["t"] != 1 for r_ in rows) or \
            not np.allclose(sum(r_["n"] for r_ in rows), whole["n"], rtol=1e-9, atol=1e-9):
        return {"sig": "per-sample-statistics-do-not-add-up", "what": f"transform(X) per-row statistics: t = {[r_['t'] for r_ in rows] if not isinstance(rows, core.ImplError) else rows!r}, whole t = {whole['t']}"}

    def folded(iadd):
        ss = [g.acc_stats(b) for b in blocks]
        acc = ss[0]
        for s in ss[1:]:
            if iadd:
                acc += s
            else:
                acc = acc + s
        return gen.stats_impl(acc)

    def from_fresh():
        from bob.learn.em import GMMStats

        acc = GMMStats(len(w), x.shape[1])
        for b in blocks:
            acc += g.acc_stats(b)
        return gen.stats_impl(acc)

    # adding statistics of another shape is refused - also when the other operand is empty (a fresh container, the statistics of a
    # zero-row block): `+` and `+=`, with the shape differing in the number of Gaussians or of features
    def refusal():
        from bob.learn.em import GMMStats

        C_, D_ = len(w), x.shape[1]
        out = []
        for other in (GMMStats(C_ + 1, D_), GMMStats(C_, D_ + 1), gen.mk_gmm(np.full(C_ + 1, 1 / (C_ + 1)), np.zeros((C_ + 1, D_)), np.ones((C_ + 1, D_))).acc_stats(x[:0])):
            for iadd in (False, True):
                left = g.acc_stats(blocks[0])
                try:
                    if iadd:
                        left += other
                    else:
                        left = left + other
                    out.append(f"{'+=' if iadd else '+'} of ({other.n_gaussians}, {other.n_features}) empty statistics to ({C_}, {D_}) ones was not refused")
                except ValueError:
                    pass
        return out

    rf = core.impl(refusal)
    if isinstance(rf, core.ImplError) or rf:
        return {"sig": "mismatching-shapes-not-refused", "what": repr(rf) if isinstance(rf, core.ImplError) else "; ".join(rf)}
    f = core.impl(from_fresh)
    if isinstance(f, core.ImplError) or not gen.stats_close(f, whole, 1e-9, 1e-9):
        return {"sig": "iadd-into-empty-container-differs", "what": f"+= of the blocks {sc['sizes']} into a fresh GMMStats: {f!r} vs whole {whole}"}
    def streamed():
        from bob.learn.em import GMMStats

        acc, buf = GMMStats(len(w), x.shape[1]), np.zeros((1, x.shape[1]), dtype=x.dtype)
        for row in x[perm]:
            buf[0] = row  # one re-used buffer: same object and shape, other content at every call
            acc += g.acc_stats(buf)
        return gen.stats_impl(acc)

    f = core.impl(streamed)
    if isinstance(f, core.ImplError) or not gen.stats_close(f, whole, 1e-9, 1e-9):
        return {"sig": "streaming-through-a-buffer-differs", "what": f"+= of acc_stats(buffer) row by row: {f!r} vs whole {whole}"}
    for iadd in (False, True):
        f = core.impl(folded, iadd)
        if isinstance(f, core.ImplError) or not gen.stats_close(f, whole, 1e-9, 1e-9):
            return {"sig": "split-and-add-differs", "what": f"{'+=' if iadd else '+'} over split {sc['sizes']}: {f!r} vs whole {whole}"}
    return None


def search(ctx):
    fails = []
    for sc in scenarios(ctx, ctx.budget(30, 400)):
        f = oracle(sc)
        ctx.case(["s", core.tolist(sc["x"]), sc["sizes"]], nontrivial=len(sc["sizes"]) > 1)
        if f:
            f["input"] = {k: sc[k] for k in ("w", "m", "v", "x", "x_dtype", "sizes", "perm", "mvt", "int_means") if k in sc}
            fails.append(f)
            if len(fails) >= 3:
                break
    big = big_scenario(ctx.seed + 9)  # several thousand rows in one call (internal batching must not lose rows)
    ctx.count("search:several-thousand-rows")
    ctx.case(["big", ctx.seed], nontrivial=True)
    f = oracle(big)
    if f:
        f["input"] = {"big_seed": ctx.seed + 9}
        fails.append(f)
    return fails


def big_scenario(seed):
    r = np.random.default_rng(seed)
    C, D = 2, 2
    N = int(r.integers(4097, 9000))
    w, m, v, _ = gen.gmm_params(r, C, D, scales=np.ones(D))
    x = gen.sample_data(r, w, m, v, N)
    x = x[np.argsort(x[:, 0])]  # ordered rows: the tail differs from the head
    return dict(C=C, D=D, w=w, m=m, v=v, x=x, x_dtype="float64", sizes=(N // 2, N - N // 2), perm=np.arange(N))


def replay(d):
    if "big_seed" in d["input"]:
        return oracle(big_scenario(d["input"]["big_seed"]))
    return oracle(d["input"])
