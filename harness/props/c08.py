"""C08 — Linear scoring is the exact first-order log-likelihood ratio around the UBM."""
import numpy as np

import core
import gen

THEOREMS = [
    "C08_formula",
    "C08_zero_for_ubm",
    "C08_linear_in_offset",
    "C08_additive_in_stats",
    "C08_shape",
    "C08_machine_eq_array",
    "C08_map_machine_eq_prior",
    "C08_is_derivative",
    "C08_unvisited_component_irrelevant",
    "C08_scalar_offset_is_constant_array",
    "C08_component_order_irrelevant",
]
CORR_OPS = ["linear_scoring:scores", "linear_scoring:relabel"]
RULE = ("1-4 models (as machines / 3-D array / single 2-D array) x 1-4 test statistics (incl. zero-frame ones, single statistic not in a "
        "list) x offsets (scalar 0, shared (C,D), per-test) x normalisation on/off x UBM given as ML or MAP machine; distinct = hash of "
        "inputs; non-trivial = >= 2 components and a non-zero model offset")
ASSUMPTIONS = ["K tolerance 1e-8 relative (absolute floor scaled by the largest term)"]


def scenario(ctx, i):
    r = ctx.rng
    C, D = int(r.integers(1, 4 if ctx.tier == "quick" else 6)), int(r.integers(1, 4 if ctx.tier == "quick" else 6))
    w, m, v, _ = gen.gmm_params(r, C, D, scales=np.ones(D) * 10.0 ** r.choice([-6, -1, 0, 1, 3]))  # the score is a pure number: the unit of the features is arbitrary
    nm = int(r.integers(1, 5))
    nt = int(r.integers(1, 5)) if r.random() < 0.93 else int(r.integers(129, 300))  # a long list of test items: one column each
    models = [m + r.normal(size=m.shape) * np.sqrt(v) * r.choice([0.0, 0.3, 1.0]) for _ in range(nm)]
    if r.random() < 0.15:
        # features measured from a far origin (means ~1000 standard deviations from 0) and models that MAP adaptation on little data
        # moved by a thousandth of a standard deviation: small next to the means, not next to the spread - the score is linear in it
        m = m + 1000.0 * np.sqrt(v) * r.choice([-1.0, 1.0], size=m.shape)
        models = [m + r.normal(size=m.shape) * np.sqrt(v) * 1e-3 for _ in range(nm)]
    mk = ["machines", "array3", "array2"][int(r.integers(0, 3))]  # every choice below is drawn independently (no parity ties between them)
    if mk == "array2":
        models = models[:1]
    tests = []
    for _ in range(nt):
        t = int(r.integers(0, 40)) if r.random() < 0.85 else 0
        # the frame count is a field of its own: hand-built / pruned / re-weighted statistics need not have sum(n) == t
        n = r.dirichlet(np.ones(C)) * (t if r.random() < 0.6 else float(r.uniform(0, 40)) * (r.random() < 0.9))
        tests.append(dict(n=n, px=(m + r.normal(size=m.shape) * np.sqrt(v)) * n[:, None], t=t))
    single = bool(r.random() < 0.2)
    if single:
        tests = tests[:1]
    int_first = bool(len(tests) >= 2 and r.random() < 0.3)
    if int_first:  # hard-assignment statistics first in the list: integer-valued n and sum_px in integer-typed arrays
        tests[0]["n"] = np.rint(tests[0]["n"])
        tests[0]["px"] = np.rint(tests[0]["px"])
    ok = ["scalar", "shared", "per_test"][int(r.integers(0, 3))]
    off = (0.0 if r.random() < 0.4 else float(r.normal() * 0.5 * np.sqrt(np.mean(v)))) if ok == "scalar" else (r.normal(size=(C, D)) * np.sqrt(v) * 0.2 if ok == "shared" else np.array([r.normal(size=(C, D)) * np.sqrt(v) * 0.2 for _ in tests]))
    return dict(C=C, D=D, w=w, m=m, v=v, models=models, models_kind=mk, tests=tests, single=single, off_kind=ok, off=off, norm=bool(r.integers(0, 2)), norm_form=["bool", "bool", "np_bool", "int"][int(r.integers(0, 4))], ubm_is_map=bool(r.random() < 0.3), ubm_warm_start=bool(r.random() < 0.3), int_first=int_first, ubm_reused=bool(r.random() < 0.25))


def call_impl(sc):
    from bob.learn.em import GMMMachine, linear_scoring

    ubm = gen.mk_gmm(sc["w"], sc["m"], sc["v"])
    if sc.get("ubm_reused"):
        # the same UBM object was used for scoring while it still had other means (a refit / warm start with the variances
        # left alone re-assigns the means only)
        ubm.means = np.array(sc["m"]) + 2.0
        core.impl(lambda: linear_scoring(np.array(sc["m"])[None], ubm, gen.mk_stats(sc["C"], sc["D"], np.ones(sc["C"]), np.array(sc["m"]), np.zeros((sc["C"], sc["D"])), 3), 0, False))
        ubm.means = np.array(sc["m"])
    ubm_arg = ubm
    if sc.get("ubm_warm_start") and not sc["ubm_is_map"]:
        # an ML machine that was warm-started from another one (GMMMachine(trainer="ml", ubm=init)) is a UBM in its own right
        init = gen.mk_gmm(np.array(sc["w"])[::-1].copy(), np.array(sc["m"]) - 0.7, np.array(sc["v"]) * 2.5)
        ubm_arg = GMMMachine(sc["C"], trainer="ml", ubm=init)
        ubm_arg.weights, ubm_arg.means, ubm_arg.variances = np.array(sc["w"]), np.array(sc["m"]), np.array(sc["v"])
    if sc["ubm_is_map"]:
        ubm_arg = GMMMachine(sc["C"], trainer="map", ubm=ubm)
        ubm_arg.means = np.array(sc["m"]) + 1.0  # the adapted machine's own means, variances and weights must be ignored
        ubm_arg.variances = np.array(sc["v"]) * 1.7
        ubm_arg.weights = np.array(sc["w"])[::-1].copy()
    if sc["models_kind"] == "machines":
        mm = [gen.mk_gmm(sc["w"], x, sc["v"]) for x in sc["models"]]
    elif sc["models_kind"] == "array3":
        mm = np.array(sc["models"])
    else:
        mm = np.array(sc["models"][0])
    sts = [gen.mk_stats(sc["C"], sc["D"], t["n"], t["px"], np.zeros((sc["C"], sc["D"])), t["t"]) for t in sc["tests"]]
    if sc.get("int_first"):
        sts[0].n = np.asarray(sts[0].n).astype(np.int64)
        sts[0].sum_px = np.asarray(sts[0].sum_px).astype(np.int64)
    st_arg = sts[0] if sc["single"] else sts
    off = sc["off"]
    if sc["off_kind"] == "scalar":  # one number for every entry (the default is the scalar 0): a float, a NumPy scalar or a 0-d array
        off = [float, np.float64, np.asarray][int(abs(hash(repr(float(off)))) % 3)](off)
    # the option is a flag: every truthy / falsy spelling a caller may come up with (a NumPy comparison result, 0 / 1) means the same
    flag = {"bool": bool, "np_bool": np.bool_, "int": int}[sc.get("norm_form", "bool")](sc["norm"])

    def run():
        # the same argument objects are scored twice: a pure function returns the same scores and leaves its arguments alone
        keep = mm.copy() if isinstance(mm, np.ndarray) else None
        keep_off = np.array(off, dtype=float, copy=True) if isinstance(off, np.ndarray) else None
        r1 = np.asarray(linear_scoring(mm, ubm_arg, st_arg, off, flag), dtype=float)
        r2 = np.asarray(linear_scoring(mm, ubm_arg, st_arg, off, flag), dtype=float)
        if keep is not None and not np.array_equal(mm, keep):
            raise RuntimeError("linear_scoring modified the array of model means it was given")
        if keep_off is not None and not np.array_equal(off, keep_off):
            raise RuntimeError("linear_scoring modified the channel offsets it was given")
        if r1.shape != r2.shape or not np.array_equal(r1, r2):
            raise RuntimeError(f"a second call with the same arguments gave other scores: {r1.tolist()} then {r2.tolist()}")
        return r2

    return core.impl(run)


def line(sc):
    return {"op": "linear_scoring", "C": sc["C"], "D": sc["D"], "models": [core.enc(x) for x in sc["models"]], "models_kind": sc["models_kind"],
            "um": core.enc(sc["m"]), "uv": core.enc(sc["v"]), "ubm_is_map": sc["ubm_is_map"], "adapted": core.enc(np.array(sc["m"]) + 1.0),
            "tests": [{"n": core.enc(t["n"]), "px": core.enc(t["px"]), "t": core.bits(t["t"])} for t in sc["tests"]], "single_stat": sc["single"],
            "off_kind": {"scalar": "scalar", "shared": "shared", "per_test": "perTest"}[sc["off_kind"]],
            "off": core.bits(sc["off"]) if sc["off_kind"] == "scalar" else core.enc(sc["off"]) if sc["off_kind"] == "shared" else [core.enc(o) for o in sc["off"]],
            "norm": sc["norm"]}


def scale_of(sc):
    s = 0.0
    for x in sc["models"]:
        for t in sc["tests"]:
            a = np.abs((x - sc["m"]) / sc["v"])
            b = np.abs(t["px"]) + np.abs(t["n"][:, None] * (np.abs(sc["m"]) + np.abs(np.max(np.abs(sc["off"])))))
            s = max(s, float(np.sum(a * b)))
    return s


def correspondence(ctx):
    bad = []
    scs = [scenario(ctx, i) for i in range(ctx.budget(80, 800))]
    outs = core.drive([line(sc) for sc in scs])
    for sc, o in zip(scs, outs):
        res = call_impl(sc)
        model = np.array([core.dec(row) for row in o["scores"]]).reshape(len(sc["models"]), len(sc["tests"]))
        ctx.count("models:" + sc["models_kind"])
        ctx.count("offsets:" + sc["off_kind"])
        ctx.count("norm" if sc["norm"] else "no-norm")
        ctx.count("zero-frame-stat" if any(t["t"] == 0 for t in sc["tests"]) else "all-stats-have-frames")
        ctx.case([core.tolist(sc["models"]), core.tolist(sc["tests"]), sc["off_kind"], sc["norm"], sc["ubm_is_map"]],
                 nontrivial=sc["C"] >= 2 and any(np.any(x != sc["m"]) for x in sc["models"]),
                 sample={"C": sc["C"], "D": sc["D"], "models": len(sc["models"]), "models_kind": sc["models_kind"], "tests": [t["t"] for t in sc["tests"]], "norm": sc["norm"], "scores_model": model})
        if isinstance(res, core.ImplError) or res.shape != model.shape or not core.close(model, res, 1e-8, 1e-12 * (1 + scale_of(sc))):
            bad.append({"op": "linear_scoring:scores", "input": sc, "model": model, "impl": repr(res) if isinstance(res, core.ImplError) else res})
        elif sc["C"] >= 2:
            # C08_component_order_irrelevant on the code: UBM, models, statistics and offsets with the components in reverse order
            rv = lambda a: np.asarray(a)[::-1].copy()
            off2 = sc["off"] if sc["off_kind"] == "scalar" else rv(sc["off"]) if sc["off_kind"] == "shared" else np.asarray(sc["off"])[:, ::-1].copy()
            sc2 = dict(sc, w=rv(sc["w"]), m=rv(sc["m"]), v=rv(sc["v"]), models=[rv(x) for x in sc["models"]], off=off2,
                       tests=[dict(t, n=rv(t["n"]), px=rv(t["px"])) for t in sc["tests"]])
            res2 = call_impl(sc2)
            if isinstance(res2, core.ImplError) or res2.shape != res.shape or not core.close(res, res2, 1e-8, 1e-12 * (1 + scale_of(sc))):
                bad.append({"op": "linear_scoring:relabel", "input": sc, "impl": res, "impl_reversed": repr(res2) if isinstance(res2, core.ImplError) else res2})
    return bad


def oracle(sc):
    """closed formula, zero for the UBM, linearity, additivity, entry points"""
    from bob.learn.em import linear_scoring

    res = call_impl(sc)
    if isinstance(res, core.ImplError):
        return {"sig": "linear_scoring-raises", "what": repr(res)}
    m, v = np.asarray(sc["m"]), np.asarray(sc["v"])
    nt = len(sc["tests"])
    exp = np.zeros((len(sc["models"]), nt))
    for i, x in enumerate(sc["models"]):
        for j, t in enumerate(sc["tests"]):
            o = sc["off"] if sc["off_kind"] != "per_test" else sc["off"][j]
            b = np.asarray(t["px"]) - np.asarray(t["n"])[:, None] * (m + o)
            val = float(np.sum((np.asarray(x) - m) / v * b))
            if sc["norm"]:
                val = 0.0 if abs(t["t"]) <= gen.EPS else val / t["t"]
            exp[i, j] = val
    tol = 1e-12 * (1 + scale_of(sc))
    if res.shape != exp.shape:
        return {"sig": "score-matrix-shape", "what": f"{res.shape} for {len(sc['models'])} models x {nt} tests"}
    if not core.close(res, exp, 1e-9, tol):
        return {"sig": "score-not-closed-formula", "what": f"{res.tolist()} vs {exp.tolist()}"}
    z = call_impl(dict(sc, models=[np.array(m)], models_kind="array3"))
    if isinstance(z, core.ImplError) or np.any(np.abs(z) > tol):
        return {"sig": "ubm-does-not-score-zero", "what": repr(z)}
    return None


def oracle_derivative(sc):
    """central finite differences (Richardson) of sum log_likelihood along the model direction"""
    from bob.learn.em import linear_scoring

    r = np.random.default_rng(11)
    w, m, v = np.asarray(sc["w"]), np.asarray(sc["m"]), np.asarray(sc["v"])
    ubm = gen.mk_gmm(w, m, v)
    x = gen.sample_data(r, w, m, v, 25)
    st = ubm.acc_stats(x)
    model = np.asarray(sc["models"][0])
    score = core.impl(lambda: float(np.asarray(linear_scoring(model, ubm, st, 0, False)).reshape(-1)[0]))
    if isinstance(score, core.ImplError):
        return {"sig": "linear_scoring-raises", "what": repr(score)}

    def L(eps):
        g = gen.mk_gmm(w, m + eps * (model - m), v)
        return float(np.sum(g.log_likelihood(x)))

    h = 1e-3
    d1 = (L(h) - L(-h)) / (2 * h)
    d2 = (L(h / 2) - L(-h / 2)) / h
    deriv = (4 * d2 - d1) / 3
    if abs(deriv - score) > 1e-5 * (1 + abs(score)):
        return {"sig": "score-is-not-derivative", "what": f"linear score {score}, d/d eps of the data log-likelihood at 0 = {deriv}", "x": x}
    return None


def search(ctx):
    fails, seen = [], set()
    for i in range(ctx.budget(40, 400)):
        sc = scenario(ctx, i)
        ctx.count("search:formula")
        ctx.case(["s", core.tolist(sc["models"]), core.tolist(sc["tests"])], nontrivial=True)
        f = oracle(sc) or (oracle_derivative(sc) if i % 4 == 0 else None)
        if f and f["sig"] not in seen:
            seen.add(f["sig"])
            f["oracle"] = "derivative" if f["sig"] == "score-is-not-derivative" else "formula"
            f["input"] = sc
            fails.append(f)
    return fails


def replay(d):
    sc = d["input"]
    for k in ("w", "m", "v"):
        sc[k] = np.asarray(sc[k], dtype=float)
    sc["models"] = [np.asarray(x, dtype=float) for x in sc["models"]]
    sc["tests"] = [dict(n=np.asarray(t["n"], dtype=float), px=np.asarray(t["px"], dtype=float), t=t["t"]) for t in sc["tests"]]
    if sc["off_kind"] != "scalar":
        sc["off"] = np.asarray(sc["off"], dtype=float)
    return oracle_derivative(sc) if d.get("oracle") == "derivative" else oracle(sc)
