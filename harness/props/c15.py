"""C15 — Training is equivariant, scoring invariant, under affine feature rescaling/shift."""
import numpy as np

import core
import fagen
import gen

THEOREMS = [
    "C15_lwl_shift",
    "C15_loglik_shift",
    "C15_resp_invariant",
    "C15_stats_equivariant",
    "C15_ml_equivariant",
    "C15_map_equivariant_spec",
    "C15_map_var_code_not_equivariant",
    "C15_linear_score_invariant",
    "C15_latent_invariant",
    "C15_kmeans_scale_shift",
    "C15_kmeans_rotation",
    "C15_enroll_invariant",
    "C15_ivector_invariant",
    "C15_jfa_training_equivariant",
    "C15_isv_training_equivariant",
    "C15_ivector_training_equivariant",
    "C15_ivector_mstep_sigma_equivariant",
    "C15_ivector_training_sigma_equivariant",
    "C15_kmeans_fit_scale_shift",
    "C15_kmeans_fit_rotation",
    "C15_kmeans_iter_scale_shift",
    "C15_ml_starved_old_refuted",
    "C15_map_mstep_equivariant",
    "C15_map_training_equivariant",
    "C15_ml_training_equivariant",
    "C15_ml_criterion_shift",
    "C15_abs_change_unit_free",
    "C15_gmm_stop_rule_depends_on_units",
    "C15_kmeans_stop_rule_unit_free",
    "C15_ml_fit_equivariant_of_shift_invariant_stop",
    "C15_abs_stop_shift_invariant",
    "C15_assignment_history_equivariant",
    "C15_fresh_machines_related",
]
CORR_OPS = ["gmm_ll:transformed", "gmm_estep:transformed", "gmm_ops:log_likelihood", "gmm_ops:variances", "gmm_ops:weights"]
RULE = ("pairs (original, affinely transformed) of inputs: per-feature scales in +-[1e-3, 1e3] (negative and widely different magnitudes), "
        "shifts up to 10 scales, rotations for k-means; kernels: log-likelihood, statistics, GMM ML / MAP training, linear scoring, ISV / JFA "
        "enrolment, scoring and latent factors, i-vectors, k-means; non-trivial = >= 2 features with different scales or a negative scale")
ASSUMPTIONS = ["the theorems relate two runs of functions already tied to the code by C01-C03, C05-C08, C10, C11; the correspondence re-runs "
               "the log-likelihood and E-step kernels on the transformed inputs; the metamorphic observation itself is the (always-on) search"]
KNOWN_SIG = "map-variance-not-affine-equivariant"
KNOWN_STOP_SIG = "gmm-stop-iteration-depends-on-units"


def transform(ctx, D):
    r = ctx.rng
    a = 10.0 ** r.uniform(-3, 3, D) * r.choice([-1.0, 1.0], D)
    b = r.normal(size=D) * 10 * np.abs(a)
    return a, b


def base(ctx, i):
    r = ctx.rng
    C, D = int(r.integers(1, 4)), int(r.integers(1, 4))
    w, m, v, _ = gen.gmm_params(r, C, D, scales=np.ones(D))
    X = gen.sample_data(r, w, m, v, int(r.integers(6, 25)))
    a, b = transform(ctx, D)
    return dict(C=C, D=D, w=w, m=m, v=v, X=X, a=a, b=b)


def correspondence(ctx):
    bad = []
    scs = [base(ctx, i) for i in range(ctx.budget(20, 200))]
    lines = []
    for sc in scs:
        a, b = sc["a"], sc["b"]
        lines.append({"op": "gmm_ll", "C": sc["C"], "D": sc["D"], **gen.params_line(sc["w"], a * sc["m"] + b, a * a * sc["v"]), "x": core.enc(a * sc["X"] + b)})
        lines.append({"op": "gmm_estep", "C": sc["C"], "D": sc["D"], **gen.params_line(sc["w"], a * sc["m"] + b, a * a * sc["v"]), "blocks": [core.enc(a * sc["X"] + b)]})
    outs = core.drive(lines)
    for k, sc in enumerate(scs):
        a, b = sc["a"], sc["b"]
        o1, o2 = outs[2 * k], outs[2 * k + 1]
        g = gen.mk_gmm(sc["w"], a * sc["m"] + b, a * a * sc["v"], thr=0.0)
        Xt = a * sc["X"] + b
        ctx.count("negative-scale" if np.any(a < 0) else "positive-scales")
        ctx.case([core.tolist(sc["X"]), core.tolist(a), core.tolist(b)], nontrivial=(sc["D"] >= 2 and np.ptp(np.log10(np.abs(a))) > 0.5) or np.any(a < 0),
                 sample={"C": sc["C"], "D": sc["D"], "scales": a, "shifts": b})
        ll = core.impl(lambda: np.asarray(g.log_likelihood(Xt), float))
        if isinstance(ll, core.ImplError) or not core.close(core.dec(o1["ll"]), ll, 1e-7, 1e-6):
            bad.append({"op": "gmm_ll:transformed", "input": sc, "model": core.dec(o1["ll"]), "impl": repr(ll) if isinstance(ll, core.ImplError) else ll})
        st = core.impl(lambda: gen.stats_impl(g.acc_stats(Xt)))
        ms = gen.stats_dec(o2["whole"])
        if isinstance(st, core.ImplError) or not (core.close(ms["n"], st["n"], 1e-6, 1e-7) and ms["t"] == st["t"]):
            bad.append({"op": "gmm_estep:transformed", "input": sc, "model": ms, "impl": repr(st) if isinstance(st, core.ImplError) else st})
    # the machine's setters and floors as a state machine (the model C15_assignment_history_equivariant is about): random public
    # histories on the real object against the model, as in C17
    from props import c17

    bad += c17.correspondence(ctx, n=ctx.budget(20, 150))
    return bad


# ---- metamorphic oracles on the implementation -----------------------------------------------------------------------
def rel_close(x, y, scale, tol=1e-7):
    x, y = np.asarray(x, float), np.asarray(y, float)
    return x.shape == y.shape and bool(np.all(np.isfinite(x) & np.isfinite(y))) and bool(np.all(np.abs(x - y) <= tol * (np.abs(scale) + np.abs(y)) + 1e-300))


def o_loglik(sc):
    a, b = sc["a"], sc["b"]
    g = gen.mk_gmm(sc["w"], sc["m"], sc["v"], thr=0.0)
    gt = gen.mk_gmm(sc["w"], a * sc["m"] + b, a * a * sc["v"], thr=0.0)
    l0 = np.asarray(g.log_likelihood(sc["X"]), float)
    l1 = core.impl(lambda: np.asarray(gt.log_likelihood(a * sc["X"] + b), float))
    if isinstance(l1, core.ImplError) or not core.close(l1, l0 - np.sum(np.log(np.abs(a))), 1e-8, 1e-6):
        return {"sig": "loglik-shift", "what": f"log-likelihoods {l1!r} vs original {l0.tolist()} - sum log|a| {np.sum(np.log(np.abs(a)))}"}
    # the same model converted to the new units in place (augmented assignment on the machine's own arrays)
    import copy
    g2 = copy.deepcopy(g)
    g2.means = a * np.asarray(sc["m"]) + b
    g2.variances *= a * a
    l2 = core.impl(lambda: np.asarray(g2.log_likelihood(a * sc["X"] + b), float))
    if isinstance(l2, core.ImplError) or not core.close(l2, l0 - np.sum(np.log(np.abs(a))), 1e-8, 1e-6):
        return {"sig": "loglik-shift", "what": f"model converted in place (variances *= a^2): log-likelihoods {l2!r} vs original {l0.tolist()} - sum log|a| {np.sum(np.log(np.abs(a)))}"}
    s0, s1 = g.acc_stats(sc["X"]), gt.acc_stats(a * sc["X"] + b)
    if not core.close(s0.n, s1.n, 1e-7, 1e-8):
        return {"sig": "responsibilities-not-invariant", "what": f"{np.asarray(s0.n).tolist()} vs {np.asarray(s1.n).tolist()}"}
    return None


def o_floors(sc, rng):
    """a model whose variance floor is active: a scalar floor f in the original units is the per-feature floor a^2 f in the new
    ones (as the property prescribes), whatever the order in which parameters and floors are given to the machine; the clamped
    variances are then a^2 times the original clamped ones and log-likelihoods shift by -sum log|a|"""
    a, b = sc["a"], sc["b"]
    v = np.asarray(sc["v"], float)
    f = float(np.exp(rng.uniform(np.log(np.min(v)), np.log(np.max(v)))))  # clamps some entries, not all
    fl = np.broadcast_to(a * a * f, v.shape)
    fl = fl.copy() if rng.random() < 0.5 else (a * a * f) * np.ones(v.shape[1])
    l0 = None
    for order in ("thr_first", "thr_last", "restage"):
        g = gen.mk_gmm(sc["w"], sc["m"], v, thr=f, order=order)
        gt = core.impl(lambda: gen.mk_gmm(sc["w"], a * sc["m"] + b, a * a * v, thr=fl, order=order))
        if isinstance(gt, core.ImplError):
            return {"sig": "floored-variances-not-equivariant", "what": f"floors set {order}: {gt!r}"}
        v0, v1 = np.asarray(g.variances, float), np.asarray(gt.variances, float)
        if not core.close(v1, a * a * v0, 1e-9, 0):
            return {"sig": "floored-variances-not-equivariant", "what": f"floor {f} -> a^2 * {f} per feature, set {order}: variances {v1.tolist()} vs a^2 * {v0.tolist()}"}
        l0 = np.asarray(g.log_likelihood(sc["X"]), float)
        l1 = core.impl(lambda: np.asarray(gt.log_likelihood(a * sc["X"] + b), float))
        if isinstance(l1, core.ImplError) or not core.close(l1, l0 - np.sum(np.log(np.abs(a))), 1e-8, 1e-6):
            return {"sig": "loglik-shift", "what": f"active floors set {order}: log-likelihoods {l1!r} vs original {l0.tolist()} - sum log|a| {np.sum(np.log(np.abs(a)))}"}
    return None


def o_highdim(rng):
    """many features, all in a small (or all in a large) unit: every variance is an ordinary number, the product of a Gaussian's
    variances is not; log-likelihoods still shift by -sum log|a| and one ML step still follows the features"""
    C, D = int(rng.integers(1, 3)), int(rng.integers(40, 90))
    w, m, v, _ = gen.gmm_params(rng, C, D, scales=np.ones(D))
    X = gen.sample_data(rng, w, m, v, 30)
    a = np.full(D, float(10.0 ** (rng.choice([-1.0, 1.0]) * rng.uniform(3, 5)))) * rng.choice([-1.0, 1.0], D)
    b = rng.normal(size=D) * np.abs(a)
    f = o_loglik(dict(w=w, m=m, v=v, X=X, a=a, b=b))
    if f:
        return f
    # the same scores and statistics from a Dask array of the rescaled samples
    import dask.array as da
    gt = gen.mk_gmm(w, a * m + b, a * a * v, thr=0.0)
    g0 = gen.mk_gmm(w, m, v, thr=0.0)
    Xd = da.from_array(a * X + b, chunks=(11, D))
    l1 = core.impl(lambda: np.asarray(gt.log_likelihood(Xd), float))
    l0 = np.asarray(g0.log_likelihood(X), float)
    if isinstance(l1, core.ImplError) or not core.close(l1, l0 - np.sum(np.log(np.abs(a))), 1e-8, 1e-6):
        return {"sig": "loglik-shift", "what": f"Dask array, {D} features in units of {abs(a[0]):.3g}: log-likelihoods {l1!r} vs original {l0.tolist()} - {np.sum(np.log(np.abs(a)))}"}
    n1 = core.impl(lambda: np.asarray(gt.acc_stats(Xd).n, float))
    n0 = np.asarray(g0.acc_stats(X).n, float)
    if isinstance(n1, core.ImplError) or not core.close(n1, n0, 1e-6, 1e-9):
        return {"sig": "responsibilities-not-invariant", "what": f"Dask array: occupancies {n1!r} vs {n0.tolist()}"}
    res = []
    for (mm, vv, x, fl) in ((m, v, X, 1e-12), (a * m + b, a * a * v, a * X + b, 1e-12 * a * a)):
        g = gen.mk_gmm(w, mm, vv, thr=np.broadcast_to(fl, np.shape(vv)).copy(), max_fitting_steps=1, convergence_threshold=None, update_variances=True, update_weights=True)
        r = core.impl(lambda: g.fit(x))
        if isinstance(r, core.ImplError):
            return {"sig": "training-raises:ml", "what": repr(r)}
        res.append((np.asarray(g.weights, float), np.asarray(g.means, float), np.asarray(g.variances, float)))
    (w0, m0, v0), (w1, m1, v1) = res
    if not (np.all(np.isfinite(w1)) and np.all(np.isfinite(m1)) and np.all(np.isfinite(v1))) or not core.close(w1, w0, 1e-6, 1e-8) or not rel_close(m1, a * m0 + b, np.abs(a) * np.sqrt(v0), 1e-6):
        return {"sig": "means-not-equivariant:ml", "what": f"{D} features in units of {abs(a[0]):.3g}: one ML step does not follow the features (weights {w1.tolist()} vs {w0.tolist()})"}
    return None


def o_train(sc, trainer):
    from bob.learn.em import GMMMachine

    a, b = sc["a"], sc["b"]
    X, Xt = sc["X"], a * sc["X"] + b
    res = []
    for (m, v, x, fl) in ((sc["m"], sc["v"], X, 1e-12), (a * sc["m"] + b, a * a * sc["v"], Xt, 1e-12 * a * a)):
        if trainer == "ml":
            g = gen.mk_gmm(sc["w"], m, v, thr=np.broadcast_to(fl, np.shape(v)).copy() if np.ndim(fl) else fl, max_fitting_steps=3, convergence_threshold=None, update_variances=True, update_weights=True)
        else:
            ubm = gen.mk_gmm(sc["w"], m, v, thr=np.broadcast_to(fl, np.shape(v)).copy() if np.ndim(fl) else fl)
            # with the variance update on, one iteration only: the known finding (D3) would otherwise leak into the next iteration's weights and means
            extra = {} if sc.get("map_thr") is None else {"mean_var_update_threshold": float(sc["map_thr"])}  # occupancies are unit-free: same threshold on both sides
            g = GMMMachine(sc["C"], trainer="map", ubm=ubm, max_fitting_steps=1 if sc.get("map_uv") else 2, convergence_threshold=None, update_variances=sc.get("map_uv", False), update_weights=True, **extra)
        r = core.impl(lambda: g.fit(x))
        if isinstance(r, core.ImplError):
            return {"sig": f"training-raises:{trainer}", "what": repr(r)}
        res.append((np.asarray(g.weights, float), np.asarray(g.means, float), np.asarray(g.variances, float)))
    (w0, m0, v0), (w1, m1, v1) = res
    # (a starved component is no excuse: it keeps its mean and variance in both coordinate systems — D25)
    if not core.close(w1, w0, 1e-6, 1e-8):
        return {"sig": f"weights-not-invariant:{trainer}", "what": f"{w1.tolist()} vs {w0.tolist()}"}
    if not rel_close(m1, a * m0 + b, np.abs(a) * np.sqrt(v0), 1e-6):
        return {"sig": f"means-not-equivariant:{trainer}", "what": f"{m1.tolist()} vs a*mu+b {(a * m0 + b).tolist()}"}
    # a component holding (effectively) one sample has a variance that is pure cancellation noise of E[x^2] - mean^2
    # (1e-8 of the feature's scale): such entries are compared against the feature's scale instead of against themselves
    vscale = np.maximum(a * a * v0, 1e-6 * np.max(a * a * v0, axis=0, keepdims=True))
    if not rel_close(v1, a * a * v0, vscale, 1e-5):
        sig = KNOWN_SIG if (trainer == "map") else f"variances-not-equivariant:{trainer}"
        return {"sig": sig, "what": f"{trainer}: variances {v1.tolist()} vs a^2*var {(a * a * v0).tolist()}"}
    return None


def o_stop_units(rng):
    """fit with the (default) convergence threshold active: the number of iterations, and with it the trained model, must not
    depend on the units.  It does (finding D24): the test divides the change of the average log-likelihood by the previous
    average log-likelihood, which a change of units shifts by sum log|a|."""
    import bob.learn.em.gmm as G

    C, D = int(rng.integers(2, 4)), int(rng.integers(1, 4))
    w, m, v, _ = gen.gmm_params(rng, C, D, scales=np.ones(D))
    X = rng.normal(size=(int(rng.integers(60, 300)), D)) * 2 + m.mean(0)
    a = np.ones(D) * float(10.0 ** rng.choice([-3.0, -2.0, 2.0, 3.0]))
    b = rng.normal(size=D) * np.abs(a)
    thr = [1e-5, 1e-4, 1e-3][int(rng.integers(0, 3))]
    out = []
    for (mm, vv, x) in ((m, v, X), (a * m + b, a * a * v, a * X + b)):
        g = gen.mk_gmm(w, mm, vv, thr=0.0, max_fitting_steps=200, convergence_threshold=thr, update_variances=True, update_weights=True)
        n, orig = [0], G.m_step

        def counted(*args, **kw):
            n[0] += 1
            return orig(*args, **kw)

        G.m_step = counted
        try:
            r = core.impl(lambda: g.fit(x))
        finally:
            G.m_step = orig
        if isinstance(r, core.ImplError):
            return {"sig": "training-raises:ml", "what": repr(r)}
        out.append((n[0], np.asarray(g.weights, float), np.asarray(g.means, float), np.asarray(g.variances, float)))
    (n0, w0, m0, v0), (n1, w1, m1, v1) = out
    if n0 != n1:
        return {"sig": KNOWN_STOP_SIG, "what": f"convergence_threshold={thr}: training stops after {n0} iterations in the original units and after {n1} in units scaled by {a[0]:g} "
                f"(means differ by up to {float(np.max(np.abs((m1 - b) / a - m0))):.3g} in the original units)"}
    if n0 < 200 and not (core.close(w1, w0, 1e-5, 1e-7) and rel_close(m1, a * m0 + b, np.abs(a) * np.sqrt(v0), 1e-5)):
        return {"sig": "means-not-equivariant:ml", "what": f"same number of iterations ({n0}) but the model does not follow the features"}
    return None


def o_linear_units(rng):
    """linear scores under extreme changes of units (one feature in a unit 1e-12 .. 1e12 times the others'): the UBM's variance
    floors are transformed with the features, as the property prescribes, so variances far below machine epsilon are legal"""
    from bob.learn.em import linear_scoring

    C, D = int(rng.integers(1, 4)), int(rng.integers(1, 4))
    w, m, v, _ = gen.gmm_params(rng, C, D, scales=np.ones(D))
    a = 10.0 ** rng.uniform(-12, 12, D) * rng.choice([-1.0, 1.0], D)
    b = rng.normal(size=D) * np.abs(a)
    models = [m + rng.normal(size=m.shape) * np.sqrt(v) for _ in range(int(rng.integers(1, 4)))]
    tests = []
    for _ in range(int(rng.integers(1, 4))):
        t = int(rng.integers(1, 40))
        n = rng.dirichlet(np.ones(C)) * t
        tests.append((n, (m + rng.normal(size=m.shape) * np.sqrt(v)) * n[:, None], t))
    norm = bool(rng.integers(0, 2))
    out = []
    for (aa, bb) in ((np.ones(D), np.zeros(D)), (a, b)):
        ubm = gen.mk_gmm(w, aa * m + bb, aa * aa * v, thr=0.0)
        sts = [gen.mk_stats(C, D, n, aa * f + bb * n[:, None], np.zeros((C, D)), t) for (n, f, t) in tests]
        r = core.impl(lambda: np.asarray(linear_scoring(np.array([aa * x + bb for x in models]), ubm, sts, 0, norm), float))
        if isinstance(r, core.ImplError):
            return {"sig": "linear_scoring-raises", "what": repr(r)}
        out.append(r)
    scale = float(np.max(np.abs(out[0]))) + 1.0
    if out[0].shape != out[1].shape or not core.close(out[1], out[0], 1e-6, 1e-6 * scale):
        return {"sig": "scores-not-invariant", "what": f"scales {a.tolist()}: linear scores {out[1].tolist()} vs {out[0].tolist()} in the original units"}
    return None


def o_fa(sc, ctx_rng):
    from bob.learn.em import linear_scoring

    r = ctx_rng
    fa = fagen.fa_scenario(r, "quick", jfa=True, sessions=int(r.integers(3, 6)))  # enrolment on 2 sessions, probe of 1-3 sessions
    C, D = fa["C"], fa["D"]
    a = 10.0 ** r.uniform(-2, 2, D) * r.choice([-1.0, 1.0], D)
    b = r.normal(size=D) * 5 * np.abs(a)
    av, bv = np.tile(a, C), np.tile(b, C)
    fat = dict(fa, m=a * fa["m"] + b, v=a * a * fa["v"], U=fa["U"] * av[:, None], V=fa["V"] * av[:, None], Dd=fa["Dd"] * av,
               sts=[dict(n=s["n"], f=a * s["f"] + b * s["n"][:, None], t=s["t"]) for s in fa["sts"]])
    out = []
    for f in (fa, fat):
        mach = fagen.mk_machine(f, enroll_iterations=3)
        sts = [fagen.mk_stats(f, s) for s in f["sts"]]
        res = core.impl(lambda: (mach.enroll(sts[:2]), np.asarray(mach.estimate_x(sts[2:]), float)))
        if isinstance(res, core.ImplError):
            return {"sig": "fa-raises", "what": repr(res)}
        (y, z), x = res
        score = float(mach.score((y, z), sts[2:]))
        client = np.asarray(f["m"]).reshape(-1) + np.asarray(f["V"]) @ y + np.asarray(f["Dd"]) * z
        ubm = gen.mk_gmm(f["w"], f["m"], f["v"])
        lin = np.asarray(linear_scoring(client.reshape(C, D), ubm, sts[2], 0, True), float)
        out.append((np.asarray(y, float), np.asarray(z, float), x, score, client, lin))
    (y0, z0, x0, s0, c0, l0), (y1, z1, x1, s1, c1, l1) = out
    if not (core.close(y1, y0, 1e-6, 1e-8) and core.close(z1, z0, 1e-6, 1e-8) and core.close(x1, x0, 1e-6, 1e-8)):
        return {"sig": "latent-factors-not-invariant", "what": f"y {y1.tolist()} vs {y0.tolist()}; x {x1.tolist()} vs {x0.tolist()}", "fa": fa, "a": a, "b": b}
    if not core.close(s1, s0, 1e-6, 1e-7) or not core.close(l1, l0, 1e-6, 1e-7):
        return {"sig": "scores-not-invariant", "what": f"JFA score {s1} vs {s0}; linear score {l1.tolist()} vs {l0.tolist()}", "fa": fa, "a": a, "b": b}
    if not rel_close(c1, av * c0 + bv, np.abs(av), 1e-6):
        return {"sig": "client-mean-does-not-follow-features", "what": "m + Vy + Dz of the transformed problem differs from a*(m + Vy + Dz) + b", "fa": fa, "a": a, "b": b}
    return None


def o_ivector(rng):
    from bob.learn.em import IVectorMachine

    C, D, R = 2, 2, 2
    w, m, v, _ = gen.gmm_params(rng, C, D, scales=np.ones(D))
    a = 10.0 ** rng.uniform(-2, 2, D) * rng.choice([-1.0, 1.0], D)
    b = rng.normal(size=D) * 5 * np.abs(a)
    T = rng.normal(size=(C, D, R))
    n = rng.uniform(0.5, 5, C)
    mean = m + rng.normal(size=(C, D))
    f = mean * n[:, None]
    out = []
    for (mm, vv, TT, ff) in ((m, v, T, f), (a * m + b, a * a * v, T * a[None, :, None], a * f + b * n[:, None])):
        iv = IVectorMachine(gen.mk_gmm(w, mm, vv), dim_t=R)
        iv.dim_c, iv.dim_d, iv.T, iv.sigma = C, D, TT, np.array(vv)
        out.append(np.asarray(iv.project(gen.mk_stats(C, D, n, ff, np.zeros((C, D)), 10)), float))
    if not core.close(out[0], out[1], 1e-6, 1e-8):
        return {"sig": "ivector-not-invariant", "what": f"{out[1].tolist()} vs {out[0].tolist()}"}
    # the machine that was used in the original units is itself converted to the new units (its UBM, T and sigma re-assigned through
    # the public attributes), directly or as a deep copy: it then is the machine of the new units
    import copy
    iv0 = IVectorMachine(gen.mk_gmm(w, m, v), dim_t=R)
    iv0.dim_c, iv0.dim_d, iv0.T, iv0.sigma = C, D, T, np.array(v)
    core.impl(lambda: iv0.project(gen.mk_stats(C, D, n, f, np.zeros((C, D)), 10)))
    for how, mach in (("the same machine", iv0), ("a deep copy of the machine", copy.deepcopy(iv0))):
        mach.ubm = gen.mk_gmm(w, a * m + b, a * a * v)
        mach.T, mach.sigma = T * a[None, :, None], np.array(a * a * v)
        got = core.impl(lambda: np.asarray(mach.project(gen.mk_stats(C, D, n, a * f + b * n[:, None], np.zeros((C, D)), 10)), float))
        if isinstance(got, core.ImplError) or not core.close(got, out[0], 1e-6, 1e-8):
            return {"sig": "ivector-not-invariant", "what": f"{how}, used in the original units and then converted: {got!r} vs {out[0].tolist()}"}
    return o_ivector_train(rng)


def o_ivector_train(rng):
    """EM iterations of the extractor (e_step / m_step, as fit runs them) from a transformed start on transformed statistics:
    T rows and sigma follow the features, i-vectors of probes are unchanged.  update_sigma: per-feature scales with a floor that
    never clamps (C15_ivector_mstep_sigma_equivariant) or a uniform scale with the floor transformed like a variance, clamping or
    not (C15_ivector_training_sigma_equivariant)."""
    from bob.learn.em import IVectorMachine
    import bob.learn.em.ivector as ivmod

    C, D, R = int(rng.integers(1, 3)), int(rng.integers(1, 4)), int(rng.integers(1, 3))
    w, m, v, _ = gen.gmm_params(rng, C, D, scales=np.ones(D))
    mode = ["fixed", "sigma_free", "sigma_uniform"][int(rng.integers(0, 3))]
    if mode == "sigma_uniform":
        a = np.ones(D) * float(10.0 ** rng.uniform(-2, 2) * rng.choice([-1.0, 1.0]))
    else:
        a = 10.0 ** rng.uniform(-2, 2, D) * rng.choice([-1.0, 1.0], D)
    b = rng.normal(size=D) * 5 * np.abs(a)
    T = rng.normal(size=(C, D, R))
    sts = []
    for _ in range(int(rng.integers(2, 7))):
        t = int(rng.integers(2, 30))
        x = gen.sample_data(rng, w, m + rng.normal(size=m.shape) * 0.7, v, t)
        sts.append(x)
    probe = gen.sample_data(rng, w, m, v, 12)
    floor = float(10.0 ** rng.uniform(-1.5, 0.5)) if mode == "sigma_uniform" else 1e-10 * float(np.min(a * a).clip(max=1.0))
    iters = int(rng.integers(1, 4))
    out = []
    for (mm, vv, TT, f, fl) in ((m, v, T, lambda z: z, floor), (a * m + b, a * a * v, T * a[None, :, None], lambda z: a * z + b, floor * float(a[0] ** 2) if mode == "sigma_uniform" else floor)):
        ubm = gen.mk_gmm(w, mm, vv)
        iv = IVectorMachine(ubm, dim_t=R, max_iterations=iters, update_sigma=mode != "fixed", variance_floor=fl)
        iv.dim_c, iv.dim_d, iv.T, iv.sigma = C, D, np.array(TT), np.array(vv)
        data = [ubm.acc_stats(f(x)) for x in sts]
        for _ in range(iters):
            r = core.impl(lambda: ivmod.m_step(iv, ivmod.e_step(iv, data)))
            if isinstance(r, core.ImplError):
                return {"sig": "ivector-training-raises", "what": repr(r)}
        out.append((np.asarray(iv.T, float), np.asarray(iv.sigma, float), np.asarray(iv.project(ubm.acc_stats(f(probe))), float)))
    (T0, S0, w0), (T1, S1, w1) = out
    if mode == "sigma_free" and np.min(S0) < 1e-6:
        return None  # the floor is about to clamp: per-feature equivariance is not promised there
    aa = np.abs(a)
    scaleT = np.max(np.abs(T0), axis=(0, 2))[None, :, None] * aa[None, :, None]
    if not np.all(np.isfinite(T1)) or np.any(np.abs(T1 - T0 * a[None, :, None]) > 1e-5 * (scaleT + 1e-300)):
        return {"sig": "ivector-T-does-not-follow-features", "what": f"{mode}: T of the transformed problem differs from a*T (max rel {np.max(np.abs(T1 - T0 * a[None, :, None]) / (scaleT + 1e-300)):.2e})"}
    if not rel_close(S1, a * a * S0, a * a * np.max(np.abs(S0), axis=0), 1e-5):
        return {"sig": "ivector-sigma-does-not-follow-features", "what": f"{mode}: floor {floor}: sigma {S1.tolist()} vs a^2 * {S0.tolist()}"}
    if not core.close(w1, w0, 1e-5, 1e-7):
        return {"sig": "ivector-not-invariant", "what": f"{mode}: after {iters} training iterations {w1.tolist()} vs {w0.tolist()}"}
    return None


def o_kmeans(rng):
    from bob.learn.em import KMeansMachine

    K, D, N = int(rng.integers(3, 5)), int(rng.integers(2, 4)), 60
    centers = rng.normal(0, 4, (K, D))
    X = centers[rng.integers(0, K, N)] + rng.normal(size=(N, D))
    c0 = X[:K].copy()
    Q, _ = np.linalg.qr(rng.normal(size=(D, D)))
    # change of units: moderate scale with an unrelated shift, or extreme scale (1e-6 .. 1e6) with a shift of the same order;
    # the stopping rule is exercised too (relative criterion: the iteration at which training stops may not depend on the units)
    extreme = bool(rng.integers(0, 2))
    s = float(10 ** (rng.choice([-1.0, 1.0]) * rng.uniform(3, 7) if extreme else rng.uniform(-2, 2))) * rng.choice([-1.0, 1.0])
    t = rng.normal(size=D) * 10 * (abs(s) if extreme else 1.0)
    thr = None if rng.integers(0, 3) == 0 else float(10 ** rng.uniform(-6, -2))
    c0 = X[:K].copy() if rng.integers(0, 3) == 0 else X[0] + 0.3 * rng.normal(size=(K, D))  # all in one blob: needs many iterations
    far = bool(rng.random() < 0.25)
    if far:
        # a pure translation by ~1e8 .. 1e9 spreads, with data, centroids and shift on a binary grid so that the translation itself is
        # exact in float64: assignments and centroids must not notice where the origin is
        X, c0 = np.round(X * 64) / 64, np.round(c0 * 64) / 64
        Q, s, thr = np.eye(D), 1.0, None
        t = np.round(rng.uniform(2.0**26, 2.0**30, D)) * rng.choice([-1.0, 1.0], D)
    f = lambda Z: s * Z @ Q.T + t
    pixels = bool(not far and rng.random() < 0.15)
    if pixels:
        # features stored as bytes (0 .. 255), shifted by a whole number of grey levels: still bytes, still the same clustering problem
        X = np.clip(np.rint(X * 6 + 60), 0, 120).astype(np.uint8)
        c0 = np.asarray(X[:K], dtype=float) + 0.25
        Q, s, thr = np.eye(D), 1.0, None
        t = np.full(D, float(rng.integers(50, 130)))
        f = lambda Z: (Z.astype(np.int64) + t.astype(np.int64)).astype(np.uint8) if Z.dtype == np.uint8 else Z + t
    if rng.random() < 0.3 and not far:
        c0 = c0.copy()
        c0[int(rng.integers(0, K))] = X.mean(axis=0) + 50.0 * (1 + rng.random(D))  # a centroid that attracts nothing keeps its place
    as_dask = bool(rng.random() < 0.35)
    import dask.array as da
    ms = []
    for (x, c) in ((X, c0), (f(X), f(c0))):
        xin = da.from_array(x, chunks=(tuple(gen.random_composition(rng, len(x))), x.shape[1])) if as_dask else x
        m = KMeansMachine(K, init_method=c, max_iter=5 if thr is None else 60, convergence_threshold=thr).fit(xin)
        ms.append((np.asarray(m.centroids_, float), np.asarray(m.predict(x)), float(m.average_min_distance), np.asarray(m.transform(x), float)))
    (c_a, l_a, j_a, d_a), (c_b, l_b, j_b, d_b) = ms
    if not np.array_equal(l_a, l_b):
        return {"sig": "kmeans-assignments-not-invariant", "what": "labels differ under a similarity transform"}
    if far and not core.close(c_b - t, c_a, 0, 16 * gen.EPS * float(np.max(np.abs(t)))):  # a centroid near t is resolved to eps * |t|
        return {"sig": "kmeans-centroids-not-equivariant", "what": f"translation by {t.tolist()} (exact in float64): centroids {(c_b - t).tolist()} vs {c_a.tolist()}"}
    if not core.close(c_b, f(c_a), 1e-7, 1e-7 * (abs(s) + np.max(np.abs(t)))):
        return {"sig": "kmeans-centroids-not-equivariant", "what": f"scale {s}, threshold {thr}: {c_b.tolist()} vs {f(c_a).tolist()}"}
    jt = 1e-7 if not far else 1e-4  # far from the origin the centroids themselves are only resolved to eps * |t|
    if not (core.close(j_b, s * s * j_a, jt, 0) and core.close(d_b, s * s * d_a, 10 * jt, 1e-9 * s * s + (1e-5 if far else 0.0))):
        return {"sig": "kmeans-distances-not-scaled", "what": f"criterion {j_b} vs s^2 * {j_a}"}
    return None


def search(ctx):
    fails, seen = [], set()

    def add(f, inp):
        if f and f["sig"] not in seen:
            seen.add(f["sig"])
            f["input"] = inp
            fails.append(f)

    for i in range(ctx.budget(24, 240)):
        sc = base(ctx, i)
        kind = ["loglik", "ml", "map", "map_var", "fa", "ivector", "kmeans"][i % 7]
        ctx.count("search:" + kind)
        ctx.case(["s", kind, core.tolist(sc["X"]), core.tolist(sc["a"])], nontrivial=True)
        seed = int(ctx.rng.integers(0, 2**31))
        if kind == "loglik":
            add(o_loglik(sc), {"kind": kind, **sc})
            add(o_highdim(np.random.default_rng(seed)), {"kind": "highdim", "seed": seed})
            for sub in range(4):
                add(o_floors(sc, np.random.default_rng(seed + sub)), {"kind": "floors", "seed": seed + sub, **sc})
        elif kind in ("ml", "map"):
            if sc["C"] >= 2 and ctx.rng.random() < 0.35:
                # one component far from all data: it gets no responsibility and must stay where it is (in both systems)
                sc["m"] = np.array(sc["m"], dtype=float)
                sc["m"][int(ctx.rng.integers(0, sc["C"]))] += 300.0 * ctx.rng.choice([-1.0, 1.0], sc["D"])
            if kind == "map":
                sc["map_thr"] = [None, 1.0, 0.3, 3.0][int(ctx.rng.integers(0, 4))]  # components with less than that many frames keep the prior
                if sc["C"] >= 2 and ctx.rng.random() < 0.5:
                    # a threshold just above the smallest occupancy: that component has some evidence, but too little to be adapted
                    n_ = np.asarray(gen.mk_gmm(sc["w"], sc["m"], sc["v"]).acc_stats(sc["X"]).n, dtype=float)
                    if n_.min() > 1e-6:
                        sc["map_thr"] = float(1.5 * n_.min())
            add(o_train(sc, kind), {"kind": kind, **sc})
        elif kind == "map_var":
            sc["map_uv"] = True
            add(o_train(sc, "map"), {"kind": kind, **sc})
        elif kind == "fa":
            add(o_fa(sc, np.random.default_rng(seed)), {"kind": kind, "seed": seed})
        elif kind == "ivector":
            add(o_ivector(np.random.default_rng(seed)), {"kind": kind, "seed": seed})
            add(o_stop_units(np.random.default_rng(seed)), {"kind": "stop_units", "seed": seed})
            for sub in range(6):
                add(o_linear_units(np.random.default_rng(seed + sub)), {"kind": "linear_units", "seed": seed + sub})
        else:
            for sub in range(12):  # cheap: many (scale, threshold, init) draws per slot
                ctx.count("search:kmeans-draw")
                add(o_kmeans(np.random.default_rng(seed + sub)), {"kind": kind, "seed": seed + sub})
    return fails


def replay(d):
    sc = d["input"]
    kind = sc["kind"]
    if kind == "highdim":
        return o_highdim(np.random.default_rng(sc["seed"]))
    if kind == "linear_units":
        return o_linear_units(np.random.default_rng(sc["seed"]))
    if kind == "stop_units":
        return o_stop_units(np.random.default_rng(sc["seed"]))
    if kind in ("fa", "ivector", "kmeans"):
        rng = np.random.default_rng(sc["seed"])
        return o_fa({}, rng) if kind == "fa" else o_ivector(rng) if kind == "ivector" else o_kmeans(rng)
    for k in ("w", "m", "v", "X", "a", "b"):
        sc[k] = np.asarray(sc[k], dtype=float)
    if kind == "loglik":
        return o_loglik(sc)
    if kind == "floors":
        return o_floors(sc, np.random.default_rng(sc["seed"]))
    return o_train(sc, "map" if kind.startswith("map") else "ml")
