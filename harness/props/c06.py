"""C06 — K-means training descends the true distortion and stops by its stated rule."""
import numpy as np

import core
import gen
import obs

THEOREMS = [
    "C06_dist_is_sum_of_min",
    "C06_lloyd_descent",
    "C06_centroid_is_mean",
    "C06_estep_additive",
    "C06_chunking_independent",
    "C06_criterion_is_distortion",
    "C06_old_criterion_single_block",
    "C06_stop_rule",
    "C06_counts_partition",
    "C06_sums_partition",
    "C06_zero_row_blocks_irrelevant",
]
CORR_OPS = ["kmeans_iter:e_step", "kmeans_iter:fit1_numpy", "kmeans_iter:fit1_dask", "kmeans_iter:from_initialize", "em_stop:kmeans_numpy", "em_stop:kmeans_dask", "em_stop:kmeans_refit"]
RULE = ("data x initial centroids (explicit arrays, or what the real initialize produced for seeded 'random' / 'k-means||') x row "
        "chunkings; near-tie assignments (relative margin < 1e-6) and scenarios with an empty cluster are discarded and counted; "
        "non-trivial = >= 2 clusters and >= 2 distinct assignments")
ASSUMPTIONS = ["dask_ml k_init is not modelled: initial centroids are an input of the model", "trajectory observed by wrapping kmeans.m_step from the harness"]


def scenario(ctx, i):
    r = ctx.rng
    K = int(r.integers(1, 4 if ctx.tier == "quick" else 6))
    D = int(r.integers(1, 4 if ctx.tier == "quick" else 6))
    N = int(r.integers(max(2 * K, 3), 30 if ctx.tier == "quick" else 120))
    centers = r.normal(0, 4, size=(K, D))
    x = gen.maybe_int(r, centers[r.integers(0, K, N)] + r.normal(size=(N, D)), floats=False)
    if x.dtype.kind == "f":  # data far from the origin (un-centred features): the distortion is about spreads, not about |x|
        x = x + float(r.choice([0.0, 0.0, 0.0, 1e3, 1e6, 1e7])) * r.choice([-1.0, 1.0], size=D)
    unit = 1.0
    if x.dtype.kind == "f" and r.random() < 0.25:
        unit = float(10.0 ** r.choice([-12.0, -9.0, -6.0, 4.0]))  # the unit of the data is arbitrary (squared distances of 1e-24 are ordinary numbers)
        x = x * unit
    cent = x[r.choice(N, K, replace=False)] + 0.1 * unit * r.normal(size=(K, D))
    if unit == 1.0 and r.random() < 0.25:  # initial centroids handed over as an integer-typed array (legal: any array-like of shape (K, D))
        ci = np.rint(cent).astype(np.int64)
        if len({tuple(row) for row in ci.tolist()}) == K:
            cent = ci
    if r.random() < 0.1:
        # samples on a small integer lattice and initial centroids on lattice points: samples exactly equidistant from two centroids
        # are ordinary there; any one of the nearest centroids may take such a sample, but exactly one does
        D = int(r.integers(1, 3))
        side = int(r.integers(3, 6))
        pts = np.array(np.meshgrid(*[np.arange(side)] * D)).reshape(D, -1).T.astype(float)
        x = pts[r.permutation(len(pts))]
        N = len(x)
        K = min(int(r.integers(2, 4)), N - 1)
        cent = x[r.choice(N, K, replace=False)].copy()
    return dict(K=K, D=D, x=x, cent=cent, sizes=gen.with_empty_blocks(r, gen.random_composition(r, N)), late=[None, None, "set_params", "setattr"][int(r.integers(0, 4))])


def margin_ok(x, cent):
    import scipy.spatial.distance as sd

    d = np.sort(sd.cdist(cent, x, "sqeuclidean"), axis=0)
    if d.shape[0] < 2:
        return True
    return bool(np.all(d[1] - d[0] > 1e-6 * (1 + d[1])))


def fit(sc, x_in, max_iter, thr, init=None):
    from bob.learn.em import KMeansMachine
    from bob.learn.em import kmeans as kmod

    late = sc.get("late")
    if late:
        # configured after construction: the limits in force are those of the machine when fit is called
        m = KMeansMachine(sc["K"], init_method=np.array(sc["cent"]) if init is None else init, max_iter=(max_iter or 3) + 4, convergence_threshold=0.3,
                          random_state=sc.get("seed", 0))
        if late == "set_params":
            m.set_params(max_iter=max_iter, convergence_threshold=thr)
        else:
            m.max_iter, m.convergence_threshold = max_iter, thr
    else:
        m = KMeansMachine(sc["K"], init_method=np.array(sc["cent"]) if init is None else init, max_iter=max_iter, convergence_threshold=thr,
                          random_state=sc.get("seed", 0))
    with obs.Recorder(kmod, "m_step", lambda out: float(out[1])) as rec:
        res = core.impl(lambda: m.fit(x_in))
    if isinstance(res, core.ImplError):
        return res, None, None
    return rec.seen, np.array(m.centroids_, dtype=float), float(m.average_min_distance)


def dask_of(sc):
    import dask.array as da

    return da.from_array(sc["x"], chunks=(tuple(sc["sizes"]), sc["x"].shape[1]))


def iter_line(sc, cent=None, blocks=None):
    cent = sc["cent"] if cent is None else cent
    blocks = gen.split(sc["x"], sc["sizes"]) if blocks is None else blocks
    return {"op": "kmeans_iter", "K": sc["K"], "D": sc["D"], "cent": core.enc(cent), "blocks": [core.enc(b) for b in blocks]}


def correspondence(ctx):
    from bob.learn.em import KMeansMachine
    from bob.learn.em import kmeans as kmod

    bad = []
    n = ctx.budget(40, 400)
    scs = []
    for i in range(n * 3):
        if len(scs) >= n:
            break
        sc = scenario(ctx, i)
        if not margin_ok(sc["x"], sc["cent"]):
            ctx.count("discarded:near-tie")
            continue
        scs.append(sc)
    outs = core.drive([iter_line(sc) for sc in scs])
    for sc, o in zip(scs, outs):
        blocks = gen.split(sc["x"], sc["sizes"])
        counts = np.sum([np.array(p["n"]) for p in o["per"]], axis=0)
        if np.any(counts == 0):
            ctx.count("discarded:empty-cluster")
            continue
        ctx.count(f"K={sc['K']}")
        ctx.count(f"blocks={len(blocks)}")
        ctx.case([core.tolist(sc["x"]), core.tolist(sc["cent"]), sc["sizes"]], nontrivial=sc["K"] >= 2 and np.sum(counts > 0) >= 2,
                 sample={"K": sc["K"], "D": sc["D"], "rows": len(sc["x"]), "chunks": sc["sizes"], "counts": counts, "criterion_model": core.dec(o["crit"])})
        inp = {k: sc[k] for k in ("K", "D", "x", "cent", "sizes", "late") if k in sc}
        # e_step per block
        for b, p in zip(blocks, o["per"]):
            r = core.impl(lambda: kmod.e_step(b, means=sc["cent"]))
            ok = (not isinstance(r, core.ImplError)) and np.array_equal(np.asarray(r[0]), np.array(p["n"])) and core.close(np.asarray(r[1], dtype=float), core.dec(p["sums"])) \
                and core.close(float(r[2]), core.dec(p["dist"]))
            if not ok:
                bad.append({"op": "kmeans_iter:e_step", "input": {**inp, "block": b}, "model": {"n": p["n"], "sums": core.dec(p["sums"]), "dist_sum": core.dec(p["dist"])},
                            "impl": repr(r) if isinstance(r, core.ImplError) else [np.asarray(r[0]), np.asarray(r[1]), float(r[2])]})
                break
        # one iteration of fit, NumPy and Dask
        for op, xin in (("kmeans_iter:fit1_numpy", sc["x"]), ("kmeans_iter:fit1_dask", dask_of(sc))):
            crit, cent, amd = fit(sc, xin, 1, None)
            if isinstance(crit, core.ImplError) or not (core.close(cent, core.dec(o["cent"])) and core.close(amd, core.dec(o["crit"]))):
                bad.append({"op": op, "input": inp, "model": {"cent": core.dec(o["cent"]), "criterion": core.dec(o["crit"]), "criterion_pre_D1": core.dec(o["crit_old"])},
                            "impl": repr(crit) if isinstance(crit, core.ImplError) else {"cent": cent, "criterion": amd}})
    # from the centroids the real initialisation produced
    lines, meta = [], []
    for i in range(ctx.budget(6, 40)):
        sc = scenario(ctx, i)
        sc["seed"] = int(ctx.rng.integers(0, 1000))
        method = ["random", "k-means||"][i % 2]
        m0 = KMeansMachine(sc["K"], init_method=method, random_state=sc["seed"], max_iter=1, convergence_threshold=None)
        r = core.impl(lambda: m0.initialize(sc["x"]))
        if isinstance(r, core.ImplError):
            bad.append({"op": "kmeans_iter:from_initialize", "input": sc, "impl": repr(r)})
            continue
        c0 = np.array(m0.centroids_, dtype=float)
        if not margin_ok(sc["x"], c0):
            ctx.count("discarded:near-tie")
            continue
        crit, cent, amd = fit(sc, sc["x"], 1, None, init=method)
        lines.append(iter_line(sc, cent=c0, blocks=[sc["x"]]))
        meta.append((sc, method, c0, crit, cent, amd))
    for (sc, method, c0, crit, cent, amd), o in zip(meta, core.drive(lines)):
        counts = np.sum([np.array(p["n"]) for p in o["per"]], axis=0)
        if np.any(counts == 0):
            ctx.count("discarded:empty-cluster")
            continue
        ctx.count("init:" + method)
        ctx.case(["init", method, sc["seed"], core.tolist(sc["x"])], nontrivial=sc["K"] >= 2)
        if isinstance(crit, core.ImplError) or not (core.close(cent, core.dec(o["cent"])) and core.close(amd, core.dec(o["crit"]))):
            bad.append({"op": "kmeans_iter:from_initialize", "input": {**{k: sc[k] for k in ("K", "D", "x", "seed")}, "method": method, "init_centroids": c0},
                        "model": {"cent": core.dec(o["cent"]), "criterion": core.dec(o["crit"])}, "impl": repr(crit) if isinstance(crit, core.ImplError) else {"cent": cent, "criterion": amd}})
    # stopping rule on recorded trajectories
    for use_dask in (False, True):
        tag = "em_stop:kmeans_dask" if use_dask else "em_stop:kmeans_numpy"
        lines, meta = [], []
        for i in range(ctx.budget(8 if use_dask else 20, 60 if use_dask else 200)):
            sc = scenario(ctx, i)
            cap = int(ctx.rng.integers(3, 8))
            xin = dask_of(sc) if use_dask else sc["x"]
            full, _, _ = fit(sc, xin, cap, None)
            if isinstance(full, core.ImplError) or len(full) != cap:
                bad.append({"op": tag, "input": sc, "impl": repr(full), "what": "threshold None did not run max_iter iterations"})
                continue
            ch = obs.threshold_choices(ctx.rng, full, exact=True)
            thr = ch[i % len(ch)]
            crit, _, amd = fit(sc, xin, cap, thr)
            lines.append({"op": "em_stop", "thr": None if thr is None else core.bits(thr), "fuel": cap, "crit": core.enc(np.array(full))})
            meta.append((sc, cap, thr, full, crit, amd))
        for (sc, cap, thr, full, crit, amd), o in zip(meta, core.drive(lines)):
            ctx.traces += 1
            ctx.count(f"{tag}:thr=" + ("none" if thr is None else "zero" if thr == 0 else "exact" if thr in obs.conv_values(full) else "other"))
            ctx.case([tag, core.tolist(sc["x"]), core.tolist(sc["cent"]), cap, thr], nontrivial=True, sample={"op": tag, "cap": cap, "thr": thr, "criteria": full, "model_k": o.get("k")})
            if isinstance(crit, core.ImplError) or o.get("k") != len(crit) or crit != full[: len(crit)] or amd != crit[-1]:
                bad.append({"op": tag, "input": {**{k: sc[k] for k in ("K", "D", "x", "cent", "sizes", "late") if k in sc}, "cap": cap, "thr": thr}, "model": o,
                            "impl": repr(crit) if isinstance(crit, core.ImplError) else {"iterations": len(crit), "criteria": crit, "no_threshold": full, "average_min_distance": amd}})
    # the same machine object fitted again: the loop must not remember anything from the previous fit
    from bob.learn.em import kmeans as kmod2

    lines, meta = [], []
    for i in range(ctx.budget(16, 120)):
        scA, scB = scenario(ctx, i), scenario(ctx, i + 1)
        K, D = scA["K"], scA["D"]
        r = ctx.rng
        xB = scA["x"] * float(r.choice([1.0, 0.7, 1.3])) + (r.normal(size=D) if i % 2 else 0.0)
        centB = xB[r.choice(len(xB), K, replace=False)] + 0.05 * r.normal(size=(K, D))
        cap = int(r.integers(3, 8))
        thr = float(r.choice([0.5, 0.2, 0.05, 1e-3]))
        m = KMeansMachine(K, init_method=np.array(scA["cent"]), max_iter=cap, convergence_threshold=thr)
        core.impl(lambda: m.fit(scA["x"]))
        m.init_method = np.array(centB)
        with obs.Recorder(kmod2, "m_step", lambda out: float(out[1])) as rec:
            r1 = core.impl(lambda: m.fit(xB))
        refit = (list(rec.seen), np.array(m.centroids_, dtype=float)) if not isinstance(r1, core.ImplError) else r1
        scB2 = dict(K=K, D=D, x=xB, cent=centB, sizes=(len(xB),))
        full, _, _ = fit(scB2, xB, cap, None)
        lines.append({"op": "em_stop", "thr": core.bits(thr), "fuel": cap, "crit": core.enc(np.array(full if not isinstance(full, core.ImplError) else [0.0]))})
        meta.append((scA, xB, centB, cap, thr, full, refit))
    for (scA, xB, centB, cap, thr, full, refit), o in zip(meta, core.drive(lines)):
        ctx.traces += 1
        ctx.count("em_stop:kmeans_refit")
        ctx.case(["refit", core.tolist(xB), core.tolist(centB), cap, thr], nontrivial=True, sample={"op": "refit", "cap": cap, "thr": thr, "criteria_B": full, "model_k": o.get("k")})
        if isinstance(full, core.ImplError) or isinstance(refit, core.ImplError) or o.get("k") != len(refit[0]) or refit[0] != full[: len(refit[0])]:
            bad.append({"op": "em_stop:kmeans_refit", "input": {"K": scA["K"], "D": scA["D"], "xA": scA["x"], "centA": scA["cent"], "xB": xB, "centB": centB, "cap": cap, "thr": thr},
                        "model": o, "impl": repr(refit) if isinstance(refit, core.ImplError) else {"iterations_on_refit": len(refit[0]), "criteria_on_refit": refit[0], "criteria_fresh_no_threshold": full}})
    return bad


def distortion(x, cent):
    from bob.learn.em import KMeansMachine

    m = KMeansMachine(len(cent))
    m.centroids_ = np.array(cent, dtype=float)
    return float(np.asarray(m.transform(x)).min(axis=0).mean())


def oracle(sc, steps=4, use_dask=False):
    """descent of the true distortion; centroid = mean of nearest samples; criterion = distortion of the entering centroids"""
    import scipy.spatial.distance as sd

    x = np.asarray(sc["x"], dtype=float)
    sc = dict(sc, x=x, cent=np.asarray(sc["cent"]))  # the initial centroids keep the dtype they were given with
    xin = dask_of(sc) if use_dask else x
    prev_c = np.asarray(sc["cent"], dtype=float)
    prevJ = distortion(x, prev_c)
    for k in range(1, steps + 1):
        crit, cent, amd = fit(sc, xin, k, None)
        if isinstance(crit, core.ImplError):
            return {"sig": "fit-raises", "what": repr(crit)}
        dm = sd.cdist(prev_c, x, "sqeuclidean")
        lab = np.argmin(dm, axis=0)
        tied = (dm == dm.min(axis=0)).sum(axis=0) > 1  # exactly equidistant from two centroids (lattice data)
        if np.any(tied) and len(set(lab[~tied].tolist())) == len(prev_c) and np.all(np.isfinite(cent)) \
                and (len(prev_c) < 2 or margin_ok(x[~tied], prev_c)) and int(tied.sum()) <= 10:
            # every tied sample goes to exactly one of its nearest centroids: some resolution must give the returned centroids
            import itertools

            opts = [np.flatnonzero(dm[:, j] == dm[:, j].min()) for j in np.flatnonzero(tied)]
            ok = False
            for choice in itertools.product(*opts):
                l2 = lab.copy()
                l2[np.flatnonzero(tied)] = choice
                if core.close(cent, np.array([x[l2 == c].mean(axis=0) for c in range(len(prev_c))]), 1e-9, 1e-9):
                    ok = True
                    break
            if not ok:
                return {"sig": "centroid-is-not-cluster-mean", "what": f"iteration {k}, {int(tied.sum())} samples exactly equidistant from two centroids: {cent.tolist()} is "
                        f"not the set of cluster means for any assignment of the tied samples to one of their nearest centroids (entering centroids {prev_c.tolist()})"}
            J = distortion(x, cent)
            if J > prevJ * (1 + 1e-9) + 1e-12:
                return {"sig": "distortion-increased", "what": f"iteration {k} (with exact ties): {prevJ} -> {J}"}
            prev_c, prevJ = cent, J
            continue
        if len(set(lab.tolist())) < len(prev_c) or not margin_ok(x, prev_c):
            return None  # empty cluster / near tie: outside the property's guard
        if not np.all(np.isfinite(cent)):
            return {"sig": "non-finite-centroids", "what": f"after {k} iterations: {cent.tolist()}"}
        if abs(amd - prevJ) > 1e-9 * max(1, abs(prevJ)):
            return {"sig": "criterion-is-not-distortion", "what": f"{'dask ' + str(sc['sizes']) if use_dask else 'numpy'}: after {k} iteration(s) average_min_distance={amd}, "
                    f"mean squared distance to the nearest entering centroid={prevJ} (N={len(x)})"}
        means = np.array([x[lab == c].mean(axis=0) for c in range(len(prev_c))])
        if not core.close(cent, means, 1e-9, 1e-9):
            return {"sig": "centroid-is-not-cluster-mean", "what": f"iteration {k}: {cent.tolist()} vs {means.tolist()}"}
        J = distortion(x, cent)
        if J > prevJ * (1 + 1e-9) + 1e-12:
            return {"sig": "distortion-increased", "what": f"iteration {k}: {prevJ} -> {J}"}
        prev_c, prevJ = cent, J
    return None


def oracle_stop(sc, cap, thr, use_dask):
    xin = dask_of(sc) if use_dask else sc["x"]
    full, _, _ = fit(sc, xin, cap, None)
    if isinstance(full, core.ImplError) or len(full) != cap:
        return {"sig": "no-threshold-run-wrong-length", "what": repr(full)}
    crit, _, _ = fit(sc, xin, cap, thr)
    exp = obs.py_stop_index(full, thr, cap)
    if isinstance(crit, core.ImplError) or len(crit) != exp:
        return {"sig": "stops-at-wrong-iteration", "what": f"cap {cap} threshold {thr!r}: {crit!r}, rule says {exp} iterations; relative changes {obs.conv_values(full)}"}
    return None


def oracle_refit(scA, xB, centB, cap, thr):
    """a machine fitted before must train on new data exactly like a fresh one"""
    from bob.learn.em import KMeansMachine
    from bob.learn.em import kmeans as kmod

    m = KMeansMachine(scA["K"], init_method=np.array(scA["cent"]), max_iter=cap, convergence_threshold=thr)
    core.impl(lambda: m.fit(np.asarray(scA["x"], float)))
    m.init_method = np.array(centB, dtype=float)
    with obs.Recorder(kmod, "m_step", lambda out: float(out[1])) as rec:
        r = core.impl(lambda: m.fit(np.asarray(xB, float)))
    if isinstance(r, core.ImplError):
        return {"sig": "refit-raises", "what": repr(r)}
    crit, cent, _ = fit(dict(K=scA["K"], D=scA["D"], cent=np.asarray(centB, float)), np.asarray(xB, float), cap, thr)
    if isinstance(crit, core.ImplError) or list(rec.seen) != crit or not np.array_equal(np.asarray(m.centroids_, float), cent):
        return {"sig": "refit-differs-from-fresh-machine", "what": f"second fit of the same object: {len(rec.seen)} iterations, criteria {list(rec.seen)}; fresh machine: {crit!r} (cap {cap}, threshold {thr})"}
    return None


def big_scenario(seed):
    r = np.random.default_rng(seed)
    K, D = 3, 2
    N = int(r.integers(4097, 9000))
    centers = r.normal(0, 6, size=(K, D))
    lab = np.sort(r.integers(0, K, N))  # ordered data: the tail differs from the head
    x = centers[lab] + r.normal(size=(N, D))
    return dict(K=K, D=D, x=x, cent=centers + 0.5 * r.normal(size=(K, D)), sizes=(N // 2, N - N // 2), late=None)


def search(ctx):
    fails, seen = [], set()
    for i in range(ctx.budget(12, 120)):
        scA = scenario(ctx, i)
        r = ctx.rng
        xB = scA["x"] * float(r.choice([1.0, 0.7, 1.3]))
        centB = xB[r.choice(len(xB), scA["K"], replace=False)] + 0.05 * r.normal(size=(scA["K"], scA["D"]))
        cap, thr = int(r.integers(3, 8)), float(r.choice([0.5, 0.2, 0.05]))
        ctx.count("search:refit")
        ctx.case(["refit", core.tolist(xB), cap, thr], nontrivial=True)
        f = oracle_refit(scA, xB, centB, cap, thr)
        if f and f["sig"] not in seen:
            seen.add(f["sig"])
            f["input"] = {"scA": {k: scA[k] for k in ("K", "D", "x", "cent")}, "xB": xB, "centB": centB, "cap": cap, "conv_thr": thr}
            f["oracle"] = "refit"
            fails.append(f)
    for i in range(ctx.budget(30, 300)):
        sc = scenario(ctx, i)
        use_dask = i % 2 == 1
        ctx.count("search:descent:" + ("dask" if use_dask else "numpy"))
        ctx.case(["s", core.tolist(sc["x"]), core.tolist(sc["cent"]), use_dask], nontrivial=True)
        f = oracle(sc, use_dask=use_dask)
        if f and f["sig"] not in seen:
            seen.add(f["sig"])
            f["input"] = {**{k: sc[k] for k in ("K", "D", "x", "cent", "sizes", "late") if k in sc}, "dask": use_dask}
            f["oracle"] = "descent"
            fails.append(f)
    # one in-memory data set of several thousand ordered rows (internal batching must not lose rows)
    big = big_scenario(ctx.seed + 3)
    ctx.count("search:descent:several-thousand-rows")
    ctx.case(["big", ctx.seed], nontrivial=True)
    f = oracle(big, steps=2)
    if f and f["sig"] not in seen:
        seen.add(f["sig"])
        f["input"] = {"big_seed": ctx.seed + 3}
        f["oracle"] = "descent"
        fails.append(f)
    if ctx.tier == "thorough" or ctx.broken:
        for i in range(ctx.budget(10, 80)):
            sc = scenario(ctx, i)
            cap = int(ctx.rng.integers(3, 8))
            use_dask = i % 2 == 1
            full, _, _ = fit(sc, dask_of(sc) if use_dask else sc["x"], cap, None)
            if isinstance(full, core.ImplError):
                continue
            ch = obs.threshold_choices(ctx.rng, full, exact=True)
            thr = ch[i % len(ch)]
            f = oracle_stop(sc, cap, thr, use_dask)
            ctx.count("search:stop")
            if f and f["sig"] not in seen:
                seen.add(f["sig"])
                f["input"] = {**{k: sc[k] for k in ("K", "D", "x", "cent", "sizes", "late") if k in sc}, "dask": use_dask, "cap": cap, "conv_thr": thr}
                f["oracle"] = "stop"
                fails.append(f)
    return fails


def replay(d):
    sc = d["input"]
    if "big_seed" in sc:
        return oracle(big_scenario(sc["big_seed"]), steps=2)
    if d.get("oracle") != "refit":
        sc["x"] = np.asarray(sc["x"], dtype=float)
        sc["cent"] = np.asarray(sc["cent"], dtype=float)
    if d.get("oracle") == "refit":
        a = sc["scA"]
        return oracle_refit(dict(K=a["K"], D=a["D"], x=np.asarray(a["x"], float), cent=np.asarray(a["cent"], float)), np.asarray(sc["xB"], float), np.asarray(sc["centB"], float), sc["cap"], sc["conv_thr"])
    if d.get("oracle") == "stop":
        return oracle_stop(sc, sc["cap"], sc["conv_thr"], sc["dask"])
    return oracle(sc, use_dask=sc.get("dask", False))
