"""C04 — Array training is independent of chunking, task order and worker isolation."""
import re

import numpy as np

import core
import gen
import obs
import sched

THEOREMS = [
    "C04_gmm_ml_chunking_independent",
    "C04_gmm_map_chunking_independent",
    "C04_kmeans_chunking_independent",
    "C04_order_independent",
    "C04_isolation_independent",
    "isolationOk_sound",
    "C04_blocks_exactly_once",
    "C04_zero_row_blocks_irrelevant",
]
CORR_OPS = ["sched_check:shape", "sched_check:discipline", "sched_check:isolation", "train:dask_eq_numpy"]
RULE = ("trainers k-means / GMM ML / GMM MAP / ISV and JFA fit_using_array / WCCN / whitening on a Dask array x row chunkings (every "
        "composition of n <= 6 rows, uneven and single-row chunks, random compositions; for k-means and GMM also feature-axis chunks) x "
        "executors (synchronous, seeded random topological orders, cloudpickle-isolated tasks); the recorded task graphs with observed "
        "write sets are run through the model's discipline; distinct = hash(trainer, data, chunks, executor); non-trivial = >= 2 blocks")
ASSUMPTIONS = ["the atomic unit is a Dask task: thread interleavings inside a task are not modelled", "copy-back completeness is decided by the "
               "isolated differential run (object-field granularity of the recorded effects cannot name the copied attributes)"]
WORKER = re.compile(r"^(e_step|accumulate_indices)")
TRAINERS = ["kmeans", "gmm_ml", "gmm_map", "isv", "jfa", "wccn", "whitening"]


def scenario(ctx, i, trainer=None):
    r = ctx.rng
    trainer = trainer or TRAINERS[i % len(TRAINERS)]
    C, D = 2, int(r.integers(2, 4))
    n_small = int(r.integers(3, 7))
    N = n_small if (r.random() < 0.35 and trainer in ("kmeans", "gmm_ml", "gmm_map")) else int(r.integers(8, 20))
    wide = bool(trainer in ("kmeans", "gmm_ml", "gmm_map") and r.random() < 0.15)
    if wide:  # fewer samples than features, the feature axis cut into several blocks
        D = int(r.integers(5, 9))
        N = int(r.integers(2, D))
    if trainer in ("isv", "jfa", "wccn", "whitening"):
        N = max(N, 4 * D + 4)
    w, m, v, _ = gen.gmm_params(r, C, D, scales=np.ones(D))
    X = gen.sample_data(r, w, m, v, N)
    if trainer in ("wccn", "whitening") and r.random() < 0.4:
        # features measured from a far origin (a temperature in kelvin, a timestamp): both transforms are translation invariant
        # and are computed from centred rows, so the in-memory result stays accurate - and the Dask result has to match it
        X = X + float(10.0 ** r.integers(4, 7)) * r.choice([-1.0, 1.0], size=D)
    if trainer == "kmeans" and r.random() < 0.3:
        m = m.copy()
        m[int(r.integers(0, C))] += 1e3  # an initial centroid that attracts nothing: its cluster stays empty, it keeps its place
    y = np.arange(N) % 2
    if N <= 6:
        comps = gen.compositions(N)
        rows = comps[int(r.integers(0, len(comps)))]
    else:
        rows = gen.random_composition(r, N)
    if trainer in ("kmeans", "gmm_ml", "gmm_map"):
        rows = gen.with_empty_blocks(r, rows)
    cols = (D,)
    if trainer in ("kmeans", "gmm_ml", "gmm_map") and (wide or r.random() < 0.25) and D >= 2:
        cols = gen.random_composition(r, D)
        if wide and len(cols) < 2:
            cols = (D // 2, D - D // 2)
    return dict(trainer=trainer, C=C, D=D, w=w, m=m, v=v, X=X, y=y, rows=rows, cols=cols, steps=int(r.integers(1, 4)), thr=None if r.random() < 0.5 else 1e-3)


def train(sc, X_in):
    """returns dict(params=[...], crit=float|None, iters=int|None)"""
    from bob.learn.em import GMMMachine, ISVMachine, JFAMachine, KMeansMachine, WCCN, Whitening
    from bob.learn.em import gmm as gmod
    from bob.learn.em import kmeans as kmod

    t = sc["trainer"]
    if t == "kmeans":
        mach = KMeansMachine(sc["C"], init_method=np.array(sc["m"]), max_iter=sc["steps"] + 1, convergence_threshold=sc["thr"])
        with obs.Recorder(kmod, "m_step", lambda o: float(o[1])) as rec:
            mach.fit(X_in)
        vw = mach.get_variances_and_weights_for_each_cluster(X_in)
        return dict(params=[mach.centroids_, vw[0], vw[1]], crit=float(mach.average_min_distance), iters=len(rec.seen))
    if t in ("gmm_ml", "gmm_map"):
        if t == "gmm_ml":
            g = gen.mk_gmm(sc["w"], sc["m"], sc["v"], max_fitting_steps=sc["steps"] + 1, convergence_threshold=sc["thr"], update_variances=True, update_weights=True)
        else:
            ubm = gen.mk_gmm(sc["w"], sc["m"], sc["v"])
            g = GMMMachine(sc["C"], trainer="map", ubm=ubm, max_fitting_steps=sc["steps"] + 1, convergence_threshold=sc["thr"], update_weights=True)
        with obs.Recorder(gmod, "m_step", lambda o: float(o[1])) as rec:
            g.fit(X_in)
        return dict(params=[g.weights, g.means, g.variances], crit=rec.seen[-1] if rec.seen else None, iters=len(rec.seen))
    ubm = gen.mk_gmm(sc["w"], sc["m"], sc["v"])
    if t == "isv":
        mach = ISVMachine(1, ubm=ubm, em_iterations=sc["steps"], random_state=1)
        mach.fit_using_array(X_in, sc["y"])
        return dict(params=[mach.U, mach.D], crit=None, iters=None)
    if t == "jfa":
        mach = JFAMachine(1, 1, ubm=ubm, em_iterations=sc["steps"], random_state=1)
        mach.fit_using_array(X_in, sc["y"])
        return dict(params=[mach.U, mach.V, mach.D], crit=None, iters=None)
    if t == "wccn":
        return dict(params=[WCCN().fit(X_in, [int(a) for a in sc["y"]]).weights], crit=None, iters=None)
    wh = Whitening().fit(X_in)
    return dict(params=[wh.weights, wh.input_subtract], crit=None, iters=None)


def as_dask(sc):
    import dask.array as da

    return da.from_array(sc["X"], chunks=(tuple(sc["rows"]), tuple(sc["cols"])))


def same(a, b, tol=1e-9):
    if _same(a, b, tol):
        return True
    # A cluster with (effectively) one sample has a variance that is pure cancellation noise (E[x^2] - mean^2 of order
    # 1e-8 x^2): any two summation orders then differ by ~1e-8 relative in that entry and, through log var, by ~1e-9 in the
    # criterion.  Such runs are compared at 1e-6 instead (still far below what a wrong result produces).
    tiny = any(np.size(x) and np.min(np.abs(np.asarray(x, float))) < 1e-6 * np.max(np.abs(np.asarray(x, float))) for x in a["params"])
    return tiny and _same(a, b, 1e-6)


def _same(a, b, tol):
    if a["iters"] != b["iters"]:
        return False
    if (a["crit"] is None) != (b["crit"] is None) or (a["crit"] is not None and not core.close(a["crit"], b["crit"], tol, 1e-12)):
        return False
    return len(a["params"]) == len(b["params"]) and all(core.close(np.asarray(x, float), np.asarray(y, float), tol, 1e-10) for x, y in zip(a["params"], b["params"]))


def run_with(sc, scheduler):
    import dask

    with dask.config.set(scheduler=scheduler):
        return core.impl(lambda: train(sc, as_dask(sc)))


def graph_lines(rec, n_blocks):
    """model input for every recorded training-iteration graph"""
    lines, meta = [], []
    for g in rec.graphs:
        ids = {t["key"]: i for i, t in enumerate(g["tasks"])}
        workers = [ids[t["key"]] for t in g["tasks"] if WORKER.match(t["func"])]
        if not workers:
            continue
        out = [ids[k] for k in g["out"] if k in ids]
        final = out[0] if out else len(g["tasks"]) - 1
        tasks = [{"id": ids[t["key"]], "deps": [ids[d] for d in t["deps"]], "reads": t["reads"], "writes": t["writes"]} for t in g["tasks"]]
        fin_writes = next(t["writes"] for t in tasks if t["id"] == final)
        lines.append({"op": "sched_check", "tasks": tasks, "final": final, "workers": workers, "shared": g["shared"], "copyback": [l for l in fin_writes if l in g["shared"]]})
        meta.append({"workers": len(workers), "tasks": len(tasks), "funcs": sorted({t["func"] for t in g["tasks"]}), "n_blocks": n_blocks})
    return lines, meta


def correspondence(ctx):
    import dask

    bad = []
    n = ctx.budget(21, 140)
    for i in range(n):
        sc = scenario(ctx, i)
        ref = core.impl(lambda: train(sc, sc["X"]))
        ctx.count("trainer:" + sc["trainer"])
        ctx.count(f"row-blocks={len(sc['rows'])}")
        ctx.count("feature-chunks" if len(sc["cols"]) > 1 else "single-feature-block")
        inp = {k: sc[k] for k in ("trainer", "C", "D", "w", "m", "v", "X", "y", "rows", "cols", "steps", "thr")}
        ctx.case([sc["trainer"], core.tolist(sc["X"]), sc["rows"], sc["cols"], sc["steps"], sc["thr"]], nontrivial=len(sc["rows"]) >= 2,
                 sample={"trainer": sc["trainer"], "rows": sc["rows"], "cols": sc["cols"], "steps": sc["steps"], "thr": sc["thr"]})
        if isinstance(ref, core.ImplError):
            bad.append({"op": "train:dask_eq_numpy", "input": inp, "impl": "numpy run: " + repr(ref)})
            continue
        rec = sched.RecordingScheduler()
        got = run_with(sc, rec)
        if isinstance(got, core.ImplError) or not same(ref, got):
            bad.append({"op": "train:dask_eq_numpy", "input": {**inp, "executor": "recording (sorted topological order)"}, "model": "equal to the in-memory run",
                        "impl": repr(got) if isinstance(got, core.ImplError) else {"numpy": ref, "dask": got}})
            continue
        n_blocks = len(sc["rows"]) if sc["trainer"] not in ("isv", "jfa") else 2
        lines, meta = graph_lines(rec, n_blocks)
        ctx.traces += len(lines)
        for m_, o in zip(meta, core.drive(lines)):
            ctx.count("graphs-checked")
            # shape: one worker task per row block, each entering the final task along exactly one path (C04_blocks_exactly_once)
            if not o["fan_in"] or (sc["trainer"] in ("kmeans", "gmm_ml", "gmm_map") and (m_["workers"] != m_["n_blocks"] or not o["exactly_once"] or not o["topo_ordered"])):
                bad.append({"op": "sched_check:shape", "input": inp, "graph": m_, "model": o})
            if not o["disciplined"]:
                bad.append({"op": "sched_check:discipline", "input": inp, "graph": m_, "model": o})
            if not o["isolation_ok"]:
                bad.append({"op": "sched_check:isolation", "input": inp, "graph": m_, "model": o})
    return bad


def oracle(sc, seeds, exhaustive=False):
    """differential NumPy vs Dask over executors"""
    ref = core.impl(lambda: train(sc, sc["X"]))
    if isinstance(ref, core.ImplError):
        return {"sig": f"numpy-training-raises:{sc['trainer']}", "what": repr(ref)}
    runs = [("synchronous", "synchronous")]
    for s in seeds:
        runs.append((f"random-order seed {s}", sched.OrderScheduler(s, False)))
        runs.append((f"random-order seed {s}, isolated", sched.OrderScheduler(s, True)))
    for name, sc_ in runs:
        got = run_with(sc, sc_)
        kind = "feature-chunks" if len(sc["cols"]) > 1 else "row-chunks"
        if isinstance(got, core.ImplError):
            return {"sig": f"dask-training-raises:{sc['trainer']}:{kind}", "what": f"{sc['trainer']} on chunks rows={sc['rows']} cols={sc['cols']} under {name}: {got!r}", "executor": name}
        if not same(ref, got):
            which = "iterations" if ref["iters"] != got["iters"] else "criterion" if ref["crit"] is not None and not core.close(ref["crit"], got["crit"], 1e-9, 1e-12) else "model"
            return {"sig": f"dask-differs-from-numpy:{sc['trainer']}:{which}:{'isolated' if 'isolated' in name else 'shared'}",
                    "what": f"{sc['trainer']} rows={sc['rows']} cols={sc['cols']} under {name}: {which} differs (numpy iters {ref['iters']} crit {ref['crit']}; dask iters {got['iters']} crit {got['crit']})",
                    "executor": name}
    return None


def search(ctx):
    fails, seen = [], set()
    for i in range(ctx.budget(14, 140)):
        sc = scenario(ctx, i + 3)
        ctx.count("search:" + sc["trainer"])
        ctx.case(["s", sc["trainer"], core.tolist(sc["X"]), sc["rows"], sc["cols"]], nontrivial=len(sc["rows"]) >= 2)
        f = oracle(sc, seeds=[int(ctx.rng.integers(0, 10**6))] if ctx.tier == "quick" else [int(s) for s in ctx.rng.integers(0, 10**6, 4)])
        if f and f["sig"] not in seen:
            seen.add(f["sig"])
            f["input"] = {k: sc[k] for k in ("trainer", "C", "D", "w", "m", "v", "X", "y", "rows", "cols", "steps", "thr")}
            fails.append(f)
    return fails


def replay(d):
    sc = d["input"]
    for k in ("w", "m", "v", "X"):
        sc[k] = np.asarray(sc[k], dtype=float)
    sc["y"] = np.asarray(sc["y"], dtype=int)
    return oracle(sc, seeds=[0, 1, 2])
