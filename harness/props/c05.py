"""C05 — MAP adaptation interpolates between the prior model and the data by relevance."""
import itertools

import numpy as np

import core
import gen

THEOREMS = [
    "C05_mean_blend",
    "C05_alpha",
    "C05_alpha_mem",
    "C05_weight_blend_normalised",
    "C05_var_blend_spec",
    "C05_var_blend_spec_nonneg",
    "C05_var_code_partial",
    "C05_var_code_eq_spec_iff",
    "C05_var_code_refuted",
    "C05_no_evidence",
    "C05_limit_prior",
    "C05_limit_data",
    "C05_map_means_monotone",
    "C05_map_means_monotone_iter",
    "C05_map_machine_starts_from_prior",
    "C05_map_init_old_order_refuted",
    "C05_mstep_relabel_equivariant",
]
CORR_OPS = ["gmm_mstep_map:weights", "gmm_mstep_map:means", "gmm_mstep_map:variances", "gmm_mstep_map:relabel", "gmm_mstep_map:fit2"]
RULE = ("prior model x adaptation statistics (real data or synthetic, with starved components n_c = 0 and 0 < n_c < thr) x relevance "
        "log-uniform [1e-6,1e6] or fixed ratio in [0,1] incl. 0 and 1 x 8 switch combinations; distinct = hash of inputs; non-trivial = "
        ">= 2 components and at least one switch on")
ASSUMPTIONS = ["dual-variant acceptance for the variance output: the implementation may match mapMStepSpec (property) or mapMStepCode "
               "(pinned defect D3, known finding); matching neither is a correspondence break"]
KNOWN_SIG = "map-variance-prior-second-moment-uses-mean-not-mean-squared"
SWITCHES = list(itertools.product([False, True], repeat=3))


def scenario(ctx, i):
    r = ctx.rng
    C, D, N = gen.dims(ctx, cmax_q=3, dmax_q=3, nmax_q=30, cmax_t=5, dmax_t=5, nmax_t=100)
    w, m, v, sc = gen.gmm_params(r, C, D, scales=np.ones(D) * 10.0 ** r.choice([-1, 0, 0, 1]))
    um, uv, uw = SWITCHES[i % 8]
    reyn = i % 5 != 4
    int_prior = bool(r.random() < (0.5 if not reyn else 0.15))
    if int_prior:  # a prior typed in by hand: integer-valued means in an integer-typed array
        m = np.rint(m)
    rel = float(10 ** r.uniform(-6, 6)) if i % 3 else float(10 ** r.uniform(-1, 1.5))
    alpha = float(r.choice([0.0, 1.0, r.random()]))
    thr = gen.EPS if r.random() < 0.4 else float(10 ** r.uniform(-2, 0))  # drawn, not derived from i: no parity clash with the other choices
    x = gen.sample_data(r, w, m + r.normal(size=m.shape) * np.sqrt(v), v * 0.5, N)
    synth = i % 3 == 1
    st = None
    if synth:
        nn = r.uniform(0, 4, C) * (r.random(C) > 0.3)
        if r.random() < 0.5:  # a component with some evidence, but less than the update threshold
            nn[int(r.integers(0, C))] = thr * float(r.uniform(0.1, 0.9))
        mean = m + r.normal(size=(C, D)) * np.sqrt(v)
        var = v * r.uniform(0.2, 2, (C, D))
        st = dict(n=nn, px=mean * nn[:, None], pxx=(var + mean**2) * nn[:, None], t=int(max(1, round(nn.sum()))), ll=-1.0)
    cur = None
    if i % 2:
        cur = dict(w=r.dirichlet(np.full(C, 3.0)), m=m + 0.3 * r.normal(size=m.shape) * np.sqrt(v), v=v * r.uniform(0.5, 2, v.shape))
    return dict(C=C, D=D, w=w, m=m, v=v, x=x, um=um, uv=uv, uw=uw, reynolds=reyn, r=rel, alpha=alpha, thr=thr, st=st, cur=cur, floor=gen.EPS, int_prior=int_prior,
                late=[None, None, "set_params", "setattr"][int(r.integers(0, 4))],
                sw_kind=["py", "py", "np", "int"][int(r.integers(0, 4))], direct=bool(r.random() < 0.25))


def mk_map(sc, **kw):
    from bob.learn.em import GMMMachine

    ubm = gen.mk_gmm(sc["w"], sc["m"], sc["v"], thr=sc["floor"])
    if sc.get("int_prior"):
        ubm.means = np.rint(np.asarray(sc["m"])).astype(np.int64)
    # a switch is a truth value: Python bools, NumPy bools (what from_hdf5 restores, what a comparison of NumPy values gives), 0 / 1
    sw = {"py": bool, "np": np.bool_, "int": int}[sc.get("sw_kind", "py")]
    opts = dict(update_means=sw(sc["um"]), update_variances=sw(sc["uv"]), update_weights=sw(sc["uw"]),
                map_relevance_factor=sc["r"] if sc["reynolds"] else None, map_alpha=sc["alpha"])
    if sc.get("late"):
        # configured after construction (set_params / attribute assignment): what counts is the configuration at fit time
        other = dict(update_means=not sc["um"], update_variances=not sc["uv"], update_weights=not sc["uw"],
                     map_relevance_factor=None if sc["reynolds"] else 3.0 * sc["r"] + 1.0, map_alpha=1.0 - 0.5 * sc["alpha"])
        g = GMMMachine(sc["C"], trainer="map", ubm=ubm, mean_var_update_threshold=sc["thr"], **other, **kw)
        if sc["late"] == "set_params":
            g.set_params(**opts)
        else:
            for k_, v_ in opts.items():
                setattr(g, k_, v_)
    else:
        g = GMMMachine(sc["C"], trainer="map", ubm=ubm, mean_var_update_threshold=sc["thr"], **opts, **kw)
    if sc.get("cur") is not None:
        g.weights = np.array(sc["cur"]["w"], dtype=float)
        g.means = np.array(sc["cur"]["m"], dtype=float)
        g.variances = np.array(sc["cur"]["v"], dtype=float)
    return ubm, g


def get_stats(sc, g):
    if sc["st"] is not None:
        s = sc["st"]
        return gen.mk_stats(sc["C"], sc["D"], s["n"], s["px"], s["pxx"], s["t"], s["ll"])
    return g.acc_stats(np.asarray(sc["x"], dtype=float))


def line_for(sc, cur, st):
    return {"op": "gmm_mstep_map", "C": sc["C"], "D": sc["D"], **gen.params_line(cur["w"], cur["m"], cur["v"]),
            "ubm": gen.params_line(sc["w"], sc["m"], np.maximum(sc["v"], sc["floor"])), "st": gen.stats_line(st),
            "um": sc["um"], "uv": sc["uv"], "uw": sc["uw"], "reynolds": sc["reynolds"], "r": core.bits(sc["r"]), "alpha": core.bits(sc["alpha"]),
            "thr": core.bits(sc["thr"]), "floor": core.enc(np.full((sc["C"], sc["D"]), sc["floor"]))}


def pget(g):
    return {"w": np.array(g.weights, dtype=float), "m": np.array(g.means, dtype=float), "v": np.array(g.variances, dtype=float)}


def vclose(a, b):
    return core.close(a, b, 1e-8, 1e-9 * (1 + float(np.max(np.abs(b)))))


def correspondence(ctx):
    from bob.learn.em import gmm as gmod

    bad = []
    n = ctx.budget(64, 640)
    lines, meta = [], []
    for i in range(n):
        sc = scenario(ctx, i)
        ubm, g = mk_map(sc, max_fitting_steps=1, convergence_threshold=None)
        cur = pget(g)
        st = get_stats(sc, g)
        lines.append(line_for(sc, cur, st))
        res = core.impl(lambda: pget(gmod.m_step([st], g)[0]))
        if not isinstance(res, core.ImplError):
            # C05_mstep_relabel_equivariant on the code: prior, current model and statistics with the components in reverse order
            def reversed_run():
                rv = lambda a: np.asarray(a)[::-1].copy()
                sc2 = dict(sc, w=rv(sc["w"]), m=rv(sc["m"]), v=rv(sc["v"]), cur={k: rv(cur[k]) for k in ("w", "m", "v")})
                _, g2 = mk_map(sc2, max_fitting_steps=1, convergence_threshold=None)
                st2 = gen.mk_stats(sc["C"], sc["D"], rv(st.n), rv(st.sum_px), rv(st.sum_pxx), int(st.t), float(st.log_likelihood))
                return {k: v_[::-1] for k, v_ in pget(gmod.m_step([st2], g2)[0]).items()}
            res2 = core.impl(reversed_run)
            if isinstance(res2, core.ImplError) or not all(vclose(res2[k], res[k]) for k in ("w", "m", "v")):
                bad.append({"op": "gmm_mstep_map:relabel", "input": {**{k: sc[k] for k in ("w", "m", "v", "um", "uv", "uw", "reynolds", "r", "alpha", "thr", "cur", "late", "int_prior", "sw_kind", "direct") if k in sc}, "stats": gen.stats_impl(st)},
                            "impl": res, "impl_reversed": repr(res2) if isinstance(res2, core.ImplError) else res2})
        meta.append((sc, st, res))
    outs = core.drive(lines)
    for (sc, st, res), o in zip(meta, outs):
        sw = f"um={int(sc['um'])},uv={int(sc['uv'])},uw={int(sc['uw'])}"
        ctx.count("switches:" + sw)
        ctx.count("alpha:reynolds" if sc["reynolds"] else "alpha:fixed")
        starved = bool(np.any(np.asarray(st.n) < sc["thr"]))
        ctx.count("starved-component" if starved else "all-components-have-evidence")
        ctx.case([core.tolist(sc["m"]), core.tolist(st.n), sw, sc["r"], sc["alpha"], sc["reynolds"]], nontrivial=sc["C"] >= 2 and (sc["um"] or sc["uv"] or sc["uw"]),
                 sample={"C": sc["C"], "D": sc["D"], "switches": sw, "relevance": sc["r"] if sc["reynolds"] else None, "alpha": sc["alpha"], "n": st.n})
        inp = {**{k: sc[k] for k in ("w", "m", "v", "um", "uv", "uw", "reynolds", "r", "alpha", "thr", "cur", "late", "int_prior", "sw_kind", "direct") if k in sc}, "stats": gen.stats_impl(st)}
        if isinstance(res, core.ImplError):
            bad.append({"op": "gmm_mstep_map:means", "input": inp, "impl": repr(res)})
            continue
        if not vclose(core.dec(o["w"]), res["w"]):
            bad.append({"op": "gmm_mstep_map:weights", "input": inp, "model": core.dec(o["w"]), "impl": res["w"]})
        if not vclose(core.dec(o["m"]), res["m"]):
            bad.append({"op": "gmm_mstep_map:means", "input": inp, "model": core.dec(o["m"]), "impl": res["m"]})
        vs, vc = core.dec(o["v"]), core.dec(o["v_code"])
        if vclose(vs, res["v"]):
            ctx.count("variance:matches-Spec")
        elif vclose(vc, res["v"]):
            ctx.count("variance:matches-Code(D3)")
        else:
            bad.append({"op": "gmm_mstep_map:variances", "input": inp, "model_spec": vs, "model_code": vc, "impl": res["v"]})
    # two iterations of fit, chained through the model one M-step at a time (means/weights only so the variants coincide)
    lines1, meta = [], []
    for i in range(ctx.budget(12, 120)):
        sc = scenario(ctx, 2 * i)  # real data
        sc["uv"] = False
        sc["cur"] = None
        sc["st"] = None
        ubm, g = mk_map(sc, max_fitting_steps=2, convergence_threshold=None)
        cur = pget(g)
        st = get_stats(sc, g)
        xfit = np.asarray(sc["x"])
        if len(meta) % 2 == 1 and len(xfit) >= 4:  # every other two-iteration fit trains from a Dask array (three row blocks)
            import dask.array as da
            xfit = da.from_array(xfit, chunks=(max(1, len(xfit) // 3), xfit.shape[1]))
        res = core.impl(lambda: pget(g.fit(xfit)))
        lines1.append(line_for(sc, cur, st))
        meta.append((sc, res))
    outs1 = core.drive(lines1)
    lines2 = []
    for (sc, res), o in zip(meta, outs1):
        mid = {k: core.dec(o[k]) for k in ("w", "m", "v")}
        gm = gen.mk_gmm(mid["w"], mid["m"], mid["v"], thr=0.0)
        st = gm.acc_stats(np.asarray(sc["x"]))
        lines2.append(line_for(sc, mid, st))
    outs2 = core.drive(lines2)
    for (sc, res), o in zip(meta, outs2):
        ctx.count("fit2")
        ctx.case(["fit2", core.tolist(sc["x"]), sc["r"]], nontrivial=True)
        fin = {k: core.dec(o[k]) for k in ("w", "m", "v")}
        if isinstance(res, core.ImplError) or not all(core.close(fin[k], res[k], 1e-7, 1e-9) for k in fin):
            bad.append({"op": "gmm_mstep_map:fit2", "input": {k: sc[k] for k in ("w", "m", "v", "x", "um", "uw", "reynolds", "r", "alpha", "thr")},
                        "model": fin, "impl": repr(res) if isinstance(res, core.ImplError) else res})
    return bad


def oracle(sc):
    """blend formulas (Reynolds eq. 11-13) computed independently in NumPy"""
    from bob.learn.em import gmm as gmod

    ubm, g = mk_map(sc, max_fitting_steps=1, convergence_threshold=None)
    st = get_stats(sc, g)
    cur = pget(g)
    n, px, pxx, t = np.asarray(st.n, float), np.asarray(st.sum_px, float), np.asarray(st.sum_pxx, float), float(st.t)
    if sc.get("direct"):
        # the public update function called directly, each coefficient given the way its own parameters say (a fixed ratio:
        # `reynolds_adaptation=False, alpha=...`, the relevance factor left alone; Reynolds: the factor, alpha left alone)
        kw_ = dict(update_means=sc["um"], update_variances=sc["uv"], update_weights=sc["uw"], mean_var_update_threshold=sc["thr"])
        kw_.update(dict(reynolds_adaptation=True, relevance_factor=sc["r"]) if sc["reynolds"] else dict(reynolds_adaptation=False, alpha=sc["alpha"]))
        res = core.impl(lambda: (gmod.map_gmm_m_step(g, st, **kw_), pget(g))[1])
    else:
        res = core.impl(lambda: pget(gmod.m_step([st], g)[0]))
    if isinstance(res, core.ImplError):
        return {"sig": "map-m-step-raises", "what": repr(res)}
    w0, m0, v0 = np.asarray(ubm.weights), np.asarray(ubm.means), np.asarray(ubm.variances)
    with np.errstate(all="ignore"):
        a = n / (n + sc["r"]) if sc["reynolds"] else np.full(len(n), sc["alpha"])
        has = n >= sc["thr"]
        if sc["uw"]:
            raw = a * n / t + (1 - a) * w0
            if not vclose(raw / raw.sum(), res["w"]):
                return {"sig": "map-weights-not-renormalised-blend", "what": f"weights {res['w'].tolist()} expected {(raw / raw.sum()).tolist()}"}
            if abs(res["w"].sum() - 1) > 1e-9:
                return {"sig": "map-weights-do-not-sum-to-one", "what": f"sum = {res['w'].sum()}"}
        elif not np.array_equal(res["w"], cur["w"]):
            return {"sig": "map-weights-changed-with-update_weights-off", "what": ""}
        mexp = cur["m"]
        if sc["um"]:
            mexp = np.where(has[:, None], a[:, None] * (px / np.where(has, n, 1)[:, None]) + (1 - a[:, None]) * m0, m0)
            if not vclose(mexp, res["m"]):
                return {"sig": "map-means-not-relevance-blend", "what": f"means {res['m'].tolist()} expected {mexp.tolist()} (alpha {a.tolist()})"}
        elif not np.array_equal(res["m"], cur["m"]):
            return {"sig": "map-means-changed-with-update_means-off", "what": ""}
        if sc["uv"]:
            def vexp(prior2):
                raw = np.where(has[:, None], a[:, None] * pxx / np.where(has, n, 1)[:, None] + (1 - a[:, None]) * prior2 - mexp**2, prior2 - mexp**2)
                return np.maximum(raw, sc["floor"])

            spec, code = vexp(v0 + m0**2), vexp(v0 + m0)
            if not vclose(spec, res["v"]):
                if vclose(code, res["v"]):
                    return {"sig": KNOWN_SIG, "what": f"adapted variances {res['v'].tolist()} = blend with (prior var + prior mean), property demands (prior var + prior mean^2): {spec.tolist()}"}
                return {"sig": "map-variances-not-second-moment-blend", "what": f"variances {res['v'].tolist()} expected {spec.tolist()}"}
        elif not np.array_equal(res["v"], cur["v"]):
            return {"sig": "map-variances-changed-with-update_variances-off", "what": ""}
    return None


def oracle_limits(sc):
    """relevance -> inf gives the prior; relevance -> 0 gives the data estimate for components with evidence"""
    from bob.learn.em import gmm as gmod

    out = None
    for rel, name in ((1e13, "prior"), (1e-13, "data")):
        s = dict(sc, reynolds=True, r=rel, um=True, uw=True, uv=False, cur=None)
        ubm, g = mk_map(s, max_fitting_steps=1, convergence_threshold=None)
        st = get_stats(s, g)
        n = np.asarray(st.n, float)
        res = core.impl(lambda: pget(gmod.m_step([st], g)[0]))
        if isinstance(res, core.ImplError):
            return {"sig": "map-m-step-raises", "what": repr(res)}
        if name == "prior":
            ok = core.close(res["m"], np.asarray(ubm.means), 1e-6, 1e-9) and core.close(res["w"], np.asarray(ubm.weights), 1e-6, 1e-9)
            if ok and not np.array_equal(res["v"], np.asarray(ubm.variances)):
                return {"sig": "map-limit-prior-variances", "what": f"relevance {rel}, variances not adapted (mean_var_update_threshold {s['thr']}): the machine's variances "
                        f"{res['v'].tolist()} are not the prior's {np.asarray(ubm.variances).tolist()}"}
        else:
            has = n >= max(s["thr"], 1e-3)
            with np.errstate(all="ignore"):
                dm = np.asarray(st.sum_px) / n[:, None]
            ok = core.close(res["m"][has], dm[has], 1e-6, 1e-9)
        if not ok:
            out = {"sig": f"map-limit-{name}", "what": f"relevance {rel}: means {res['m'].tolist()}"}
    return out


def oracle_penalised(sc, iters=5):
    """means-only relevance adaptation: sum_i log p(x_i) - (r/2) sum_cd (mu - mu0)^2 / var never decreases along EM"""
    from props.c01 import reference_ll
    from bob.learn.em import gmm as gmod

    s = dict(sc, reynolds=True, um=True, uv=False, uw=False, st=None, thr=min(sc["thr"], 1e-12))
    ubm, g = mk_map(s, max_fitting_steps=1, convergence_threshold=None)
    x = np.asarray(s["x"], dtype=float)
    m0 = np.asarray(ubm.means, float)

    def J():
        w, m, v = (np.asarray(a, float) for a in (g.weights, g.means, g.variances))
        return float(reference_ll(w, m, v, x)[0].sum() - 0.5 * s["r"] * np.sum((m - m0) ** 2 / v))

    traj = [J()]
    for _ in range(iters):
        r = core.impl(lambda: gmod.m_step([g.acc_stats(x)], g))
        if isinstance(r, core.ImplError):
            return {"sig": "map-m-step-raises", "what": repr(r)}
        traj.append(J())
    for a, b in zip(traj, traj[1:]):
        if not np.isfinite(b) or b < a - 1e-9 * (1 + abs(a)):
            return {"sig": "map-penalised-likelihood-decreases", "what": f"relevance {s['r']}: penalised likelihood along means-only MAP EM: {traj}"}
    return None


def search(ctx):
    fails = []
    seen = set()
    for i in range(ctx.budget(12, 120)):
        sc = scenario(ctx, i)
        ctx.count("search:penalised")
        ctx.case(["p", core.tolist(sc["m"]), sc["r"]], nontrivial=True)
        f = oracle_penalised(sc)
        if f and f["sig"] not in seen:
            seen.add(f["sig"])
            f["input"] = {k: sc[k] for k in ("C", "D", "w", "m", "v", "x", "um", "uv", "uw", "reynolds", "r", "alpha", "thr", "st", "cur", "floor", "late", "int_prior", "sw_kind", "direct") if k in sc}
            f["oracle"] = "penalised"
            fails.append(f)
    for i in range(ctx.budget(64, 640)):
        sc = scenario(ctx, i)
        ctx.count("search:blend")
        ctx.case(["s", core.tolist(sc["m"]), sc["r"], i % 8], nontrivial=True)
        f = oracle(sc) or (oracle_limits(sc) if i % 4 == 0 else None)
        if f and f["sig"] not in seen:
            seen.add(f["sig"])
            f["input"] = {k: sc[k] for k in ("C", "D", "w", "m", "v", "x", "um", "uv", "uw", "reynolds", "r", "alpha", "thr", "st", "cur", "floor", "late", "int_prior", "sw_kind", "direct") if k in sc}
            f["oracle"] = "limits" if f["sig"].startswith("map-limit") else "blend"
            fails.append(f)
    return fails


def replay(d):
    sc = d["input"]
    for k in ("w", "m", "v", "x"):
        sc[k] = np.asarray(sc[k], dtype=float)
    for grp in ("st", "cur"):
        if sc.get(grp):
            sc[grp] = {k: (np.asarray(v, dtype=float) if isinstance(v, list) else v) for k, v in sc[grp].items()}
    if d.get("oracle") == "penalised":
        return oracle_penalised(sc)
    return oracle_limits(sc) if d.get("oracle") == "limits" else oracle(sc)
