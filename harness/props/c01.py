"""C01 — GMM log-likelihood is the log of a normalised diagonal-Gaussian mixture density."""
import numpy as np

import core
import gen

THEOREMS = [
    "C01_loglik_is_log_mixture",
    "C01_lwl_lse",
    "C01_density_integral_one",
    "C01_chunked_eq_batch",
    "C01_batch_eq_single",
    "C01_shift",
    "C01_tail_bounds",
    "C01_tied_components_both_count",
    "C01_component_order_irrelevant",
]
CORR_OPS = ["gmm_ll:lwl", "gmm_ll:ll", "gmm_ll:single", "gmm_ll:dask", "gmm_ll:acc_stats", "gmm_ll:relabel"]
RULE = ("machines with C components x D features (mixed feature scales 1e-3/1/1e3, some variances below their floor), "
        "rows from the bulk and 10..5000 sigma from every mean; distinct = hash of (C,D,params,rows); "
        "non-trivial = at least 2 components or a tail row")
TRUSTED = ["float clause (finite in the tails) is checked on the implementation only: the theorem C01_tail_bounds is over the reals"]
ASSUMPTIONS = ["K-layer tolerance |a-b| <= 1e-10 + 1e-8 max(|a|,|b|) between model@Float and implementation"]


def scenario(ctx, i):
    r = ctx.rng
    C, D, N = gen.dims(ctx, nmax_q=12, nmax_t=40)
    kind = ["bulk", "tail", "mixed", "floor", "bulk", "highdim", "separated", "tinyweight", "underflow_edge", "tie", "tinyunit"][int(r.integers(0, 11))]
    if kind == "highdim":
        # many features with a common scale far from 1: the log-normaliser sum_d log(2 pi var_d) is of order +-1e3,
        # its exponential is far outside the double range (the density is fine: only its log is ever needed)
        C, D, N = int(r.integers(1, 4)), int(r.choice([64, 200, 400])), int(r.integers(1, 4))
        w, m, v, sc = gen.gmm_params(r, C, D, scales=np.full(D, 10.0 ** r.uniform(-3, 3)))
    elif kind == "tinyunit":
        # features in a small unit (1e-5 .. 1e-7 of the usual one): variances of 1e-10 .. 1e-14 are ordinary numbers there, and
        # the machine gets them after it held other ones (construction route `restage`)
        w, m, v, sc = gen.gmm_params(r, C, D, scales=np.full(D, 10.0 ** r.uniform(-7, -5)))
    else:
        w, m, v, sc = gen.gmm_params(r, C, D)
    if kind == "separated" and C >= 2:
        # component means 1e4 .. 1e8 standard deviations apart (each sample is in the bulk of one component)
        m = m + np.sqrt(v) * (10.0 ** r.uniform(4, 8)) * r.choice([-1.0, 1.0], size=(C, 1)) * np.arange(C)[:, None]
    if kind == "tie":
        # two components that are exactly tied for (some of) the samples: a duplicated component, or a mirror pair with samples on
        # the symmetry plane — the mixture density there is 2 x the common term, not 1 x
        C = max(C, 2)
        w, m, v, sc = gen.gmm_params(r, C, D)
        w = np.array(w, dtype=float)
        w[0] = w[1] = 0.5 * (w[0] + w[1])
        v[1] = v[0]
        m[1] = m[0]
        if r.random() < 0.5:
            m[0, 0], m[1, 0] = -abs(m[0, 0]) - 0.5, abs(m[0, 0]) + 0.5
    tiny = None
    if kind == "tinyweight" and C >= 2:
        # a positive weight far below machine epsilon (ML training gives a component without data the weight eps / n_samples):
        # its log is finite and counts; the other components are moved away so that it dominates near its own mean
        tiny = int(r.integers(0, C))
        w = np.array(w, dtype=float)
        w[tiny] = 10.0 ** (-float(r.uniform(17, 300)))
        m = m + np.sqrt(v) * 60.0 * (np.arange(C)[:, None] - tiny)
    int_means = bool(kind == "bulk" and r.random() < 0.3)
    if int_means:  # means typed in by hand: integer-valued, in an integer-typed array (the samples stay real-valued)
        m = np.rint(m)
    thr = None
    if kind == "floor":
        thr = float(np.exp(r.uniform(np.log(0.05), np.log(2)))) * (sc**2)
        thr = np.broadcast_to(thr, (C, D)).copy()
    tail = float(10 ** r.uniform(1, 3.7)) if kind in ("tail", "mixed") else None
    x = gen.sample_data(r, w, m, v, N, tail=tail)
    if kind == "mixed":  # bulk and far-tail rows in one batch (and, under Dask, possibly in one chunk)
        keep = r.random(N) < 0.5
        keep[0], keep[-1] = True, False
        x = np.where(keep[:, None], gen.sample_data(r, w, m, v, N), x)
    if kind == "underflow_edge":
        # every row has a total log-likelihood of -712 .. -744: exp() of it is a subnormal double (not yet 0), which a log-sum-exp
        # without a shift turns into a wrong - but finite - value
        c = int(r.integers(0, C))
        gn = D * np.log(2 * np.pi) + np.sum(np.log(v[c]))
        for k_ in range(N):
            L = float(r.uniform(712, 744))
            z = r.normal(size=D)
            z = z / np.linalg.norm(z) * np.sqrt(max(2 * (L + np.log(w[c]) - 0.5 * gn), 1.0))
            x[k_] = m[c] + np.sqrt(v[c]) * z
    if kind == "tie" and m[0, 0] != m[1, 0]:
        x[::2, 0] = 0.0
    if tiny is not None:
        x[: max(1, N // 2)] = m[tiny] + np.sqrt(v[tiny]) * r.normal(size=(max(1, N // 2), D))
    if kind == "bulk":
        x = gen.maybe_int(r, x, p=0.25)  # other legal dtypes of the sample array (the model sees the same values)
    order = ["thr_first", "thr_last", "restage", "ubm_copy", "hdf5_ubm"][int(r.integers(0, 5))] if kind == "floor" else ["thr_first", "restage", "ubm_copy", "hdf5_ubm"][int(r.integers(0, 4))]
    if kind == "tinyunit":
        order, thr = "restage", 0.0
    return dict(kind=kind, C=C, D=D, w=w, m=m, v=v, thr=thr, x=x, tail=tail, order=order, int_means=int_means)


def impl_all(sc):
    import dask.array as da

    g = gen.mk_gmm(sc["w"], sc["m"], sc["v"], thr=sc["thr"], order=sc.get("order", "thr_first"))
    if sc.get("int_means"):
        g.means = np.rint(np.asarray(sc["m"])).astype(np.int64)
    x = sc["x"]
    out = {"veff": np.array(g.variances)}
    if sc["thr"] is not None and not np.array_equal(out["veff"], np.maximum(sc["v"], sc["thr"])):
        out["veff"] = np.maximum(sc["v"], sc["thr"])  # the floors are part of the input: the model scores max(v, floor)
    out["lwl"] = core.impl(lambda: np.asarray(g.log_weighted_likelihood(x)))
    out["ll"] = core.impl(lambda: np.asarray(g.log_likelihood(x)))
    out["single"] = core.impl(lambda: np.array([np.asarray(g.log_likelihood(row)).reshape(-1)[0] for row in x]))
    sizes = sc["sizes"]
    out["dask"] = core.impl(lambda: np.asarray(g.log_likelihood(da.from_array(x, chunks=(sizes, x.shape[1]))).compute() if True else None))
    out["acc"] = core.impl(lambda: float(g.acc_stats(x).log_likelihood))

    # C01_component_order_irrelevant on the code: the same mixture with its components numbered in reverse order
    def relabelled():
        idx = np.arange(len(sc["w"]))[::-1]
        thr = sc["thr"]
        if thr is not None and np.ndim(thr) == 2 and np.shape(thr)[0] == len(idx):
            thr = np.asarray(thr)[idx]
        g2 = gen.mk_gmm(np.asarray(sc["w"])[idx], np.asarray(sc["m"])[idx], np.asarray(sc["v"])[idx], thr=thr, order=sc.get("order", "thr_first"))
        if sc.get("int_means"):
            g2.means = np.rint(np.asarray(sc["m"])[idx]).astype(np.int64)
        st, st2 = g.acc_stats(x), g2.acc_stats(x)
        return {"ll": np.asarray(g2.log_likelihood(x)), "lwl": np.asarray(g2.log_weighted_likelihood(x))[idx],  # idx is its own inverse
                "n": (np.asarray(st.n, float), np.asarray(st2.n, float)[idx]), "px": (np.asarray(st.sum_px, float), np.asarray(st2.sum_px, float)[idx])}

    out["relabel"] = core.impl(relabelled)
    return out


def correspondence(ctx):
    n = ctx.budget(60, 600)
    scs, lines = [], []
    for i in range(n):
        sc = scenario(ctx, i)
        sc["sizes"] = gen.random_composition(ctx.rng, len(sc["x"]))
        scs.append(sc)
    impls = [impl_all(sc) for sc in scs]
    for sc, im in zip(scs, impls):
        lines.append({"op": "gmm_ll", "C": sc["C"], "D": sc["D"], **gen.params_line(sc["w"], sc["m"], im["veff"]), "x": core.enc(sc["x"])})
    outs = core.drive(lines)
    bad = []
    for sc, im, o in zip(scs, impls, outs):
        ctx.count("kind:" + sc["kind"])
        ctx.count("build:" + sc["order"])
        ctx.count(f"C={sc['C']}")
        ctx.case([sc["C"], sc["D"], core.tolist(sc["m"]), core.tolist(sc["x"])], nontrivial=sc["C"] >= 2 or sc["kind"] in ("tail", "mixed"),
                 sample={"C": sc["C"], "D": sc["D"], "kind": sc["kind"], "rows": len(sc["x"]), "chunks": sc["sizes"], "x0": sc["x"][0], "ll0_model": core.dec(o["ll"])[0] if "ll" in o else None})
        if "err" in o:
            bad.append({"op": "gmm_ll:ll", "input": sc, "model": o, "impl": None})
            continue
        mlwl, mll = core.dec(o["lwl"]), core.dec(o["ll"])
        cmp = [("gmm_ll:lwl", mlwl, im["lwl"]), ("gmm_ll:ll", mll, im["ll"]), ("gmm_ll:single", mll, im["single"]),
               ("gmm_ll:dask", mll, im["dask"]), ("gmm_ll:acc_stats", float(np.sum(mll)), im["acc"])]
        rl = im["relabel"]
        if isinstance(rl, core.ImplError) or isinstance(im["ll"], core.ImplError) or isinstance(im["lwl"], core.ImplError) \
                or not (core.close(im["ll"], rl["ll"]) and core.close(im["lwl"], rl["lwl"]) and core.close(rl["n"][0], rl["n"][1], 1e-7, 1e-9)
                        and core.close(rl["px"][0], rl["px"][1], 1e-7, 1e-9 * (1 + float(np.max(np.abs(rl["px"][0])))))):
            if not (isinstance(im["ll"], core.ImplError) or isinstance(im["lwl"], core.ImplError)):
                bad.append({"op": "gmm_ll:relabel", "input": {k: sc[k] for k in ("C", "D", "w", "m", "v", "thr", "x", "sizes", "order", "int_means") if k in sc},
                            "impl": repr(rl) if isinstance(rl, core.ImplError) else {"ll": im["ll"], "relabelled": rl}})
        for op, a, b in cmp:
            if isinstance(b, core.ImplError) or not core.close(a, b):
                bad.append({"op": op, "input": {k: sc[k] for k in ("C", "D", "w", "m", "v", "thr", "x", "sizes", "order", "int_means") if k in sc},
                            "model": a, "impl": repr(b) if isinstance(b, core.ImplError) else b,
                            "maxdiff": None if isinstance(b, core.ImplError) else core.maxdiff(a, b)})
    return bad


def reference_ll(w, m, v, x):
    from scipy.special import logsumexp
    from scipy.stats import norm

    x = np.atleast_2d(x)
    comp = np.array([np.log(w[c]) + norm.logpdf(x, loc=m[c], scale=np.sqrt(v[c])).sum(axis=1) for c in range(len(w))])
    return logsumexp(comp, axis=0), comp


def oracle(sc):
    """Independent check of the property on the implementation. Returns a failure dict or None."""
    import dask.array as da

    g = gen.mk_gmm(sc["w"], sc["m"], sc["v"], thr=sc.get("thr"), order=sc.get("order", "thr_first"))
    if sc.get("int_means"):
        g.means = np.rint(np.asarray(sc["m"])).astype(np.int64)
    x = np.asarray(sc["x"], dtype=float)
    veff = np.maximum(np.asarray(sc["v"]), sc["thr"]) if sc.get("thr") is not None else np.asarray(sc["v"])
    ref, comp = reference_ll(np.asarray(sc["w"]), np.asarray(sc["m"]), veff, x)
    ll = core.impl(lambda: np.asarray(g.log_likelihood(x)))
    if isinstance(ll, core.ImplError):
        return {"sig": "log_likelihood-raises", "what": repr(ll)}
    if not np.all(np.isfinite(ll)):
        return {"sig": "log_likelihood-not-finite", "what": f"log_likelihood returned {ll.tolist()} for finite rows"}
    if not core.close(ll, ref, rtol=1e-9, atol=1e-9):
        return {"sig": "log_likelihood-not-log-mixture", "what": f"log_likelihood {ll.tolist()} vs log sum_c w_c N(x; mu_c, var_c) {ref.tolist()}"}
    lwl = core.impl(lambda: np.asarray(g.log_weighted_likelihood(x)))
    if isinstance(lwl, core.ImplError) or not core.close(lwl, comp, rtol=1e-9, atol=1e-9):
        return {"sig": "lwl-not-weighted-gaussian", "what": "per-component weighted log-likelihoods differ from log w_c + log N"}
    sizes = sc.get("sizes") or (len(x),)
    dk = core.impl(lambda: np.asarray(g.log_likelihood(da.from_array(x, chunks=(tuple(sizes), x.shape[1]))).compute()))
    if isinstance(dk, core.ImplError) or not core.close(dk, ll, rtol=1e-12, atol=1e-12):
        return {"sig": "dask-differs-from-numpy", "what": f"chunks {sizes}: {dk!r} vs {ll.tolist()}"}
    for k, row in enumerate(x):
        s = core.impl(lambda: np.asarray(g.log_likelihood(row)).reshape(-1))
        if isinstance(s, core.ImplError) or s.shape != (1,) or not core.close(s[0], ll[k], rtol=1e-12, atol=1e-12):
            return {"sig": "single-differs-from-batch", "what": f"row {k}: {s!r} vs {ll[k]}"}
    return None


def oracle_trained(sc, rng):
    """machines as training leaves them (ML / MAP steps with every update switch on, NumPy and Dask input): whatever their
    visible weights, means and variances are, the reported log-likelihood is the log mixture density of exactly those"""
    import dask.array as da
    from bob.learn.em import GMMMachine

    x = np.asarray(sc["x"], dtype=float)
    if len(x) < 4:
        return None
    for trainer in ("ml", "map"):
        for use_dask in (False, True):
            base = gen.mk_gmm(sc["w"], sc["m"], sc["v"])
            kw = dict(max_fitting_steps=int(rng.integers(1, 3)), convergence_threshold=None, update_means=True, update_variances=(trainer == "ml"), update_weights=True)
            g = gen.mk_gmm(sc["w"], sc["m"], sc["v"], **kw) if trainer == "ml" else GMMMachine(sc["C"], trainer="map", ubm=base, map_relevance_factor=float(rng.uniform(0.5, 8)), **kw)
            xin = da.from_array(x, chunks=(max(1, len(x) // 2), x.shape[1])) if use_dask else x
            r = core.impl(lambda: g.fit(xin))
            if isinstance(r, core.ImplError):
                continue
            w, m, v = (np.asarray(a, dtype=float) for a in (g.weights, g.means, g.variances))
            if not (np.all(np.isfinite(w)) and np.all(np.isfinite(m)) and np.all(v > 0) and np.all(w > 0)):
                continue  # C13's business
            ref, _ = reference_ll(w, m, v, x)
            ll = core.impl(lambda: np.asarray(g.log_likelihood(x)))
            if isinstance(ll, core.ImplError) or not core.close(ll, ref, 1e-9, 1e-9):
                return {"sig": "trained-machine-likelihood-not-log-mixture", "what": f"after {trainer.upper()} training on {'Dask' if use_dask else 'NumPy'} input: log_likelihood "
                        f"{np.asarray(ll).tolist() if not isinstance(ll, core.ImplError) else ll!r} vs the log mixture density of its visible parameters {ref.tolist()} (weights {w.tolist()})"}
    return None


def quadrature(sc):
    """exp(log_likelihood) integrates to one (D<=2, midpoint rule on a box of +-9 sigma)."""
    w, m, v = np.asarray(sc["w"]), np.asarray(sc["m"]), np.asarray(sc["v"])
    D = m.shape[1]
    g = gen.mk_gmm(w, m, v)
    lo = (m - 9 * np.sqrt(v)).min(axis=0)
    hi = (m + 9 * np.sqrt(v)).max(axis=0)
    npts = 4001 if D == 1 else 401
    axes = [np.linspace(lo[d], hi[d], npts) for d in range(D)]
    mids = [(a[1:] + a[:-1]) / 2 for a in axes]
    cell = np.prod([(a[1] - a[0]) for a in axes])
    grid = np.stack(np.meshgrid(*mids, indexing="ij"), axis=-1).reshape(-1, D)
    val = core.impl(lambda: float(np.exp(np.asarray(g.log_likelihood(grid))).sum() * cell))
    if isinstance(val, core.ImplError) or abs(val - 1) > 2e-3:
        return {"sig": "density-not-normalised", "what": f"integral of exp(log_likelihood) over the box = {val!r}"}
    return None


def search(ctx):
    fails = []
    n = ctx.budget(40, 400)
    for i in range(n):
        sc = scenario(ctx, i + 1)
        sc["sizes"] = gen.random_composition(ctx.rng, len(sc["x"]))
        ctx.count("search:" + sc["kind"])
        f = oracle(sc)
        ctx.case(["s", sc["C"], sc["D"], core.tolist(sc["x"])], nontrivial=True)
        if not f and sc["kind"] == "bulk" and i % 2 == 0:
            ctx.count("search:trained-machine")
            f = oracle_trained(sc, np.random.default_rng(i))
            if f:
                f["oracle"] = "trained"
                f["trained_seed"] = i
        if f:
            f["input"] = {k: sc[k] for k in ("C", "w", "m", "v", "thr", "x", "sizes", "order", "int_means") if k in sc}
            f.setdefault("oracle", "oracle")
            fails.append(f)
            if len(fails) >= 3:
                break
    nq = ctx.budget(3, 20)
    for i in range(nq):
        D = 1 + i % 2
        C = int(ctx.rng.integers(1, 4))
        w, m, v, _ = gen.gmm_params(ctx.rng, C, D, scales=np.ones(D))
        w = w / w.sum()
        sc = {"w": w, "m": m, "v": v}
        ctx.count("search:quadrature")
        f = quadrature(sc)
        ctx.case(["q", core.tolist(m), core.tolist(v)], nontrivial=True)
        if f:
            f["input"] = sc
            f["oracle"] = "quadrature"
            fails.append(f)
            break
    return fails


def replay(d):
    sc = {k: (np.asarray(v) if isinstance(v, list) and k != "sizes" else v) for k, v in d["input"].items()}
    if d.get("oracle") == "trained":
        return oracle_trained(sc, np.random.default_rng(int(d.get("trained_seed", 0))))
    return quadrature(sc) if d.get("oracle") == "quadrature" else oracle(sc)
