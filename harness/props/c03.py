"""C03 — GMM ML training never decreases the likelihood and stops by its stated rule."""
import itertools

import numpy as np

import core
import gen

THEOREMS = [
    "C03_ml_em_monotone'",
    "C03_fit_iter_monotone",
    "C03_old_variance_formula",
    "C03_old_eq_new_when_means_updated",
    "C03_stop_rule",
    "C03_no_threshold",
    "C03_stopIndex_spec",
    "C03_mstep_matches_moments",
    "C03_iteration_relabel_equivariant",
]
CORR_OPS = ["gmm_mstep_ml:fit1", "gmm_mstep_ml:m_step", "gmm_mstep_ml:moments", "gmm_mstep_ml:relabel", "em_stop:numpy", "em_stop:dask", "em_stop:refit"]
RULE = ("K: (machine, data or synthetic statistics, 8 switch combinations, count/variance floors sometimes active) -> one M-step; "
        "O: recorded criterion trajectories of real fits (NumPy and Dask) x thresholds (None, 0, exactly an observed relative change "
        "and its two float neighbours, values 1e-6 away) x iteration caps; distinct = hash of inputs; non-trivial = >= 2 components "
        "and at least one switch on (K) / trajectory of >= 3 iterations (O)")
ASSUMPTIONS = ["criterion trajectory of a fit is observed by wrapping the module-level m_step from outside (no source hook); "
               "if that records nothing the trajectory is reconstructed from K-step runs"]
SWITCHES = list(itertools.product([False, True], repeat=3))


def train_scenario(ctx, i):
    r = ctx.rng
    C, D, N = gen.dims(ctx, cmax_q=3, dmax_q=3, nmax_q=40, cmax_t=4, dmax_t=4, nmax_t=120)
    N = max(N, 4 * C + 2)
    other_dtype = bool(r.random() < 0.3)  # other legal dtypes of the training array (same values for the model); needs data spread over several units
    w, m, v, sc = gen.gmm_params(r, C, D, scales=np.ones(D) * (100.0 if other_dtype else 10.0 ** r.choice([-2, 0, 0, 2])))
    x = gen.sample_data(r, w, m, v, N)
    if other_dtype:
        x = gen.maybe_int(r, x, p=1.0)
    # start away from the generating parameters so that EM has work to do
    w0 = r.dirichlet(np.full(C, 5.0))
    m0 = m + r.normal(size=m.shape) * np.sqrt(v) * 0.7
    v0 = v * np.exp(r.uniform(-0.7, 0.7, size=v.shape))
    um, uv, uw = SWITCHES[i % 8]
    return dict(C=C, D=D, w=w0, m=m0, v=v0, x=x, x_dtype=str(np.asarray(x).dtype), um=um, uv=uv, uw=uw, thr=gen.EPS, floor=gen.EPS, was_map=bool(r.random() < 0.15), inplace_var=int(r.integers(0, 10**6)) if r.random() < 0.25 else None,
                sw_kind=["py", "py", "np", "int"][int(r.integers(0, 4))])


def mk(sc, **kw):
    # a switch is a truth value: Python bools, NumPy bools (what from_hdf5 restores), 0 / 1
    sw = {"py": bool, "np": np.bool_, "int": int}[sc.get("sw_kind", "py")]
    sc = dict(sc, um=sw(sc["um"]), uv=sw(sc["uv"]), uw=sw(sc["uw"]))
    if sc.get("was_map"):
        # the object was created as a MAP machine (around some prior) and re-configured for ML training afterwards, parameter by
        # parameter: `trainer` is a public parameter, what counts is its value when fit is called
        from bob.learn.em import GMMMachine

        prior = gen.mk_gmm(np.asarray(sc["w"])[::-1].copy(), np.asarray(sc["m"]) + 1.0, np.asarray(sc["v"]) * 2.0)
        g = GMMMachine(len(sc["w"]), trainer="map", ubm=prior, update_means=sc["um"], update_variances=sc["uv"], update_weights=sc["uw"],
                       mean_var_update_threshold=sc["thr"], **kw)
        g.set_params(trainer="ml")
        g.variance_thresholds = sc.get("floor", gen.EPS)
        g.weights, g.means, g.variances = (np.array(sc[k], dtype=float) for k in ("w", "m", "v"))
        return g
    g = gen.mk_gmm(sc["w"], sc["m"], sc["v"], thr=sc.get("floor", gen.EPS), update_means=sc["um"], update_variances=sc["uv"],
                   update_weights=sc["uw"], mean_var_update_threshold=sc["thr"], **kw)
    if sc.get("inplace_var") is not None:
        # the starting variances are reached by augmented assignment on the property (`machine.variances *= factors`, one factor per
        # Gaussian): the machine's variances are what the property shows afterwards
        f_ = np.random.default_rng(int(sc["inplace_var"])).choice([0.25, 0.5, 2.0, 4.0], size=(len(np.asarray(sc["w"])), 1))
        g.variances = np.asarray(sc["v"], dtype=float) / f_
        g.variances *= f_
    return g


def params_of(g):
    return {"w": np.array(g.weights, dtype=float), "m": np.array(g.means, dtype=float), "v": np.array(g.variances, dtype=float)}


def mstep_line(sc, st, floor):
    return {"op": "gmm_mstep_ml", "C": sc["C"], "D": sc["D"], **gen.params_line(sc["w"], sc["m"], sc["v"]), "st": gen.stats_line(st),
            "um": sc["um"], "uv": sc["uv"], "uw": sc["uw"], "thr": core.bits(sc["thr"]), "floor": core.enc(np.broadcast_to(floor, (sc["C"], sc["D"])))}


def params_close(a, b, rtol=1e-8):
    return all(core.close(a[k], b[k], rtol, 1e-10 * (1 + np.max(np.abs(b[k])))) for k in ("w", "m", "v"))


def corr_mstep(ctx, bad):
    from bob.learn.em import gmm as gmod

    n = ctx.budget(48, 480)
    lines, meta, relabel_bad = [], [], []
    for i in range(n):
        sc = train_scenario(ctx, i)
        g0 = mk(sc, max_fitting_steps=1, convergence_threshold=None)
        sc["v"] = np.array(g0.variances)
        st = g0.acc_stats(sc["x"])
        mode = "fit1"
        if i % 3 == 2:
            # synthetic statistics: starved components (count floor active) and variance floors active
            mode = "m_step"
            sc["thr"] = float(10 ** ctx.rng.uniform(-3, 0))
            sc["floor"] = float(10 ** ctx.rng.uniform(-2, 0.5))
            g0 = mk(sc, max_fitting_steps=1, convergence_threshold=None)
            sc["v"] = np.array(g0.variances)
            nn = ctx.rng.uniform(0, 3, sc["C"]) * (ctx.rng.random(sc["C"]) > 0.3)
            mean = ctx.rng.normal(size=(sc["C"], sc["D"]))
            var = ctx.rng.uniform(0.01, 2, (sc["C"], sc["D"]))
            st = gen.mk_stats(sc["C"], sc["D"], nn, mean * nn[:, None], (var + mean**2) * nn[:, None], int(ctx.rng.integers(1, 20)), -3.0)
        lines.append(mstep_line(sc, st, sc["floor"]))
        if mode == "fit1":
            res = core.impl(lambda: params_of(g0.fit(sc["x"])))
        else:
            res = core.impl(lambda: params_of(gmod.m_step([st], g0)[0]))
        if mode == "fit1" and not isinstance(res, core.ImplError):
            # C03_iteration_relabel_equivariant on the code: the same iteration started from the components in reverse order
            sc2 = dict(sc, w=np.asarray(sc["w"])[::-1].copy(), m=np.asarray(sc["m"])[::-1].copy(), v=np.asarray(sc["v"])[::-1].copy())
            g2 = mk(sc2, max_fitting_steps=1, convergence_threshold=None)
            res2 = core.impl(lambda: params_of(g2.fit(sc["x"])))
            ctx.count("relabel:fit1")
            if isinstance(res2, core.ImplError) or not params_close({k: np.asarray(res2[k])[::-1] for k in ("w", "m", "v")}, res, 1e-7):
                relabel_bad.append({"op": "gmm_mstep_ml:relabel", "input": {k: sc[k] for k in ("w", "m", "v", "x", "um", "uv", "uw", "thr", "floor")},
                                    "impl": res, "impl_reversed_start": repr(res2) if isinstance(res2, core.ImplError) else res2})
        meta.append((sc, mode, res, st))
    outs = core.drive(lines)
    bad.extend(relabel_bad)
    for (sc, mode, res, st), o in zip(meta, outs):
        model = {k: core.dec(o[k]) for k in ("w", "m", "v")}
        sw = f"um={int(sc['um'])},uv={int(sc['uv'])},uw={int(sc['uw'])}"
        ctx.count("switches:" + sw)
        ctx.count("mode:" + mode)
        if mode == "m_step":
            ctx.count("count-floor-active" if np.any(np.asarray(st.n) < sc["thr"]) else "count-floor-inactive")
        ctx.case(["k", core.tolist(sc["m"]), core.tolist(sc["x"]), sw, mode, core.tolist(st.n)], nontrivial=sc["C"] >= 2 and (sc["um"] or sc["uv"] or sc["uw"]),
                 sample={"C": sc["C"], "D": sc["D"], "switches": sw, "mode": mode, "n": st.n, "model_means": model["m"]})
        if isinstance(res, core.ImplError) or not params_close(model, res):
            d = {"op": "gmm_mstep_ml:" + mode, "input": {**{k: sc[k] for k in ("w", "m", "v", "x", "um", "uv", "uw", "thr", "floor")}, "stats": gen.stats_impl(st)},
                 "model": model, "impl": repr(res) if isinstance(res, core.ImplError) else res}
            if not isinstance(res, core.ImplError):
                old = {"w": model["w"], "m": model["m"], "v": core.dec(o["v_old"]) if sc["uv"] else model["v"]}
                d["matches_pre_D4_formula"] = params_close(old, res)
            bad.append(d)
        # C03_mstep_matches_moments on the code: one real iteration with weights and means updated and no count floor active leaves a
        # mixture whose mean is the sample mean; with the variances updated and no floor clamping, whose second moment is the sample's
        if mode == "fit1" and sc["um"] and sc["uw"] and not isinstance(res, core.ImplError) and np.all(np.asarray(st.n) >= sc["thr"]):
            xf = np.asarray(sc["x"], dtype=np.float64)
            rw, rm, rv = (np.asarray(res[k], dtype=np.float64) for k in ("w", "m", "v"))
            ctx.count("moments:first")
            ok = np.all(np.abs(rw @ rm - xf.mean(axis=0)) <= 1e-8 * (np.abs(xf).mean(axis=0) + 1e-300))
            if ok and sc["uv"] and np.all(rv > np.asarray(sc["floor"]) * (1 + 1e-9)):
                ctx.count("moments:second")
                ok = np.all(np.abs(rw @ (rv + rm * rm) - (xf * xf).mean(axis=0)) <= 1e-8 * ((xf * xf).mean(axis=0) + 1e-300))
            if not ok:
                bad.append({"op": "gmm_mstep_ml:moments", "input": {**{k: sc[k] for k in ("w", "m", "v", "x", "um", "uv", "uw", "thr", "floor")}, "stats": gen.stats_impl(st)},
                            "impl": res})


class Recorder:
    """Observe a fit from outside: wrap the module-level m_step (looked up at call time by fit)."""

    def __init__(self):
        from bob.learn.em import gmm as gmod

        self.gmod = gmod
        self.crit = []

    def __enter__(self):
        self.orig = self.gmod.m_step
        rec = self

        def wrapped(statistics, machine):
            out = rec.orig(statistics, machine)
            rec.crit.append(float(out[1]))
            return out

        self.gmod.m_step = wrapped
        return self

    def __exit__(self, *a):
        self.gmod.m_step = self.orig


def run_fit(sc, x, max_steps, thr):
    g = mk(sc, max_fitting_steps=max_steps, convergence_threshold=thr)
    with Recorder() as rec:
        res = core.impl(lambda: g.fit(x))
    if isinstance(res, core.ImplError):
        return res, None
    return rec.crit, params_of(g)


def conv_values(L):
    out = []
    for j in range(1, len(L)):
        with np.errstate(all="ignore"):
            out.append(float(abs((np.float64(L[j - 1]) - np.float64(L[j])) / np.float64(L[j - 1]))))
    return out


def py_stop_index(L, thr, cap):
    """independent statement of the rule: first j>=2 with conv_j <= thr, else cap"""
    for j in range(2, cap + 1):
        if thr is not None and conv_values(L)[j - 2] <= thr:
            return j
    return cap


def stop_scenarios(ctx, n, use_dask):
    import dask.array as da

    out = []
    for i in range(n):
        sc = train_scenario(ctx, int(ctx.rng.integers(0, 8)))
        if not (sc["um"] or sc["uv"] or sc["uw"]):
            sc["um"] = True
        cap = int(ctx.rng.integers(3, 9)) if i % 5 else int(ctx.rng.integers(0, 3))  # incl. the boundary limits 0, 1, 2
        if ctx.rng.random() < 0.35 and np.asarray(sc["x"]).dtype.kind == "f":
            # units in which the average log-likelihood is near 0 (densities around 1: features with a spread of a few tenths): the
            # relative change divides by a number below 1 there
            x64 = np.asarray(sc["x"], dtype=float)
            L0 = avg_ll({k: np.asarray(sc[k], dtype=float) for k in ("w", "m", "v")}, x64)
            if np.isfinite(L0):
                s_ = float(np.exp((L0 - ctx.rng.uniform(-0.8, 0.3)) / x64.shape[1]))
                sc["x"] = (x64 * s_).astype(np.asarray(sc["x"]).dtype)
                sc["m"], sc["v"] = np.asarray(sc["m"], dtype=float) * s_, np.asarray(sc["v"], dtype=float) * s_ * s_
        x = sc["x"]
        xin = da.from_array(x, chunks=(gen.random_composition(ctx.rng, len(x)), x.shape[1])) if use_dask else x
        full, _ = run_fit(sc, xin, cap, None)
        if isinstance(full, core.ImplError) or len(full) != cap:
            out.append((sc, xin, cap, None, full, "no-threshold run"))
            continue
        conv = conv_values(full)
        choices = [None, 0.0]
        c = conv[int(ctx.rng.integers(0, len(conv)))] if conv else float("nan")
        if not conv:
            choices += [1e-3, 0.5]
        if np.isfinite(c):
            choices += [c * (1 + 1e-6), c * (1 - 1e-6)]
            if not use_dask:
                choices += [c, float(np.nextafter(c, np.inf)), float(np.nextafter(c, -np.inf))]
        thr = choices[i % len(choices)]
        out.append((sc, xin, cap, thr, full, None))
    return out


def corr_stop(ctx, bad, use_dask):
    tag = "em_stop:dask" if use_dask else "em_stop:numpy"
    scs = stop_scenarios(ctx, ctx.budget(10 if use_dask else 24, 80 if use_dask else 300), use_dask)
    lines, meta = [], []
    for sc, xin, cap, thr, full, err in scs:
        if err:
            bad.append({"op": tag, "input": {k: sc[k] for k in ("w", "m", "v", "x", "um", "uv", "uw")}, "impl": repr(full), "what": err})
            continue
        crit, _ = run_fit(sc, xin, cap, thr)
        f0 = criterion_value_check(sc, sc["x"], xin, full)
        if f0:
            bad.append({"op": tag, "input": {**{k: sc[k] for k in ("w", "m", "v", "x", "um", "uv", "uw")}, "cap": cap, "thr": thr}, "what": f0["what"]})
        lines.append({"op": "em_stop", "thr": None if thr is None else core.bits(thr), "fuel": cap, "crit": core.enc(np.array(full))})
        meta.append((sc, cap, thr, full, crit))
    outs = core.drive(lines)
    for (sc, cap, thr, full, crit), o in zip(meta, outs):
        ctx.traces += 1
        kind = "none" if thr is None else ("zero" if thr == 0 else ("exact-boundary" if thr in conv_values(full) else "other"))
        ctx.count(f"{tag}:thr={kind}")
        ctx.case([tag, core.tolist(sc["x"]), cap, thr], nontrivial=cap >= 3, sample={"op": tag, "cap": cap, "thr": thr, "criteria": full, "model_k": o.get("k")})
        if isinstance(crit, core.ImplError):
            bad.append({"op": tag, "input": sc, "impl": repr(crit)})
            continue
        k_impl = len(crit)
        prefix_ok = crit == full[:k_impl]
        if o.get("k") != k_impl or not prefix_ok:
            bad.append({"op": tag, "input": {**{k: sc[k] for k in ("w", "m", "v", "x", "um", "uv", "uw")}, "cap": cap, "thr": thr},
                        "model": o, "impl": {"iterations": k_impl, "criteria": crit, "criteria_no_threshold": full}})


def refit_pair(ctx, i):
    """fit a machine on A, then fit the *same object* on B; a fresh machine started from the same parameters is the reference"""
    scA = train_scenario(ctx, int(ctx.rng.integers(0, 8)))
    if not (scA["um"] or scA["uv"] or scA["uw"]):
        scA["um"] = True
    cap = int(ctx.rng.integers(3, 8))
    thr = float(ctx.rng.choice([0.5, 0.1, 1e-2, 1e-4]))
    xB = scA["x"] * float(ctx.rng.choice([1.0, 0.5, 2.0])) + (0.3 if i % 2 else 0.0)
    g = mk(scA, max_fitting_steps=cap, convergence_threshold=thr)
    r0 = core.impl(lambda: g.fit(scA["x"]))
    start = params_of(g) if not isinstance(r0, core.ImplError) else None
    with Recorder() as rec:
        r1 = core.impl(lambda: g.fit(xB))
    refit = r1 if isinstance(r1, core.ImplError) else (list(rec.crit), params_of(g))
    return scA, xB, cap, thr, start, refit


def corr_refit(ctx, bad):
    lines, meta = [], []
    for i in range(ctx.budget(12, 100)):
        scA, xB, cap, thr, start, refit = refit_pair(ctx, i)
        if start is None:
            continue
        scB = dict(scA, **start)
        full, _ = run_fit(scB, xB, cap, None)
        lines.append({"op": "em_stop", "thr": core.bits(thr), "fuel": cap, "crit": core.enc(np.array(full if not isinstance(full, core.ImplError) else [0.0]))})
        meta.append((scA, xB, cap, thr, full, refit))
    for (scA, xB, cap, thr, full, refit), o in zip(meta, core.drive(lines)):
        ctx.traces += 1
        ctx.count("em_stop:refit")
        ctx.case(["refit", core.tolist(xB), cap, thr], nontrivial=True, sample={"op": "refit", "cap": cap, "thr": thr, "criteria_B": full, "model_k": o.get("k")})
        if isinstance(full, core.ImplError) or isinstance(refit, core.ImplError) or o.get("k") != len(refit[0]) or refit[0] != full[: len(refit[0])]:
            bad.append({"op": "em_stop:refit", "input": {**{k: scA[k] for k in ("w", "m", "v", "x", "um", "uv", "uw")}, "xB": xB, "cap": cap, "thr": thr}, "model": o,
                        "impl": repr(refit) if isinstance(refit, core.ImplError) else {"iterations_on_refit": len(refit[0]), "criteria_on_refit": refit[0], "criteria_fresh_no_threshold": full}})


def correspondence(ctx):
    bad = []
    corr_mstep(ctx, bad)
    corr_stop(ctx, bad, False)
    corr_stop(ctx, bad, True)
    corr_refit(ctx, bad)
    return bad


# ---------------------------------------------------------------------------
def avg_ll(sc_params, x):
    g = gen.mk_gmm(sc_params["w"], sc_params["m"], sc_params["v"], thr=0.0)
    return float(np.mean(np.asarray(g.log_likelihood(x))))


def oracle_monotone(sc, steps=4):
    """trajectory monotonicity while counts and variances stay off their floors; with sc["chunks"] training runs on a Dask
    array with those row chunks (the likelihood is always evaluated on the whole data set, independently)"""
    import dask.array as da

    x = np.asarray(sc["x"], dtype=float)
    xraw = np.asarray(sc["x"]).astype(sc.get("x_dtype", "float64"))  # training sees the array in the dtype it was handed over in
    xin = da.from_array(xraw, chunks=(tuple(sc["chunks"]), x.shape[1])) if sc.get("chunks") else xraw
    how = f" (Dask, row chunks {tuple(sc['chunks'])})" if sc.get("chunks") else ""
    cur = {k: np.asarray(sc[k], dtype=float) for k in ("w", "m", "v")}
    for it in range(steps):
        s = dict(sc)
        s.update(cur)
        g = mk(s, max_fitting_steps=1, convergence_threshold=None)
        st = g.acc_stats(x)
        if np.any(np.asarray(st.n) <= 10 * sc["thr"]):
            return None
        before = avg_ll(params_of(g), x)
        res = core.impl(lambda: params_of(g.fit(xin)))
        if isinstance(res, core.ImplError):
            return {"sig": "fit-raises", "what": repr(res)}
        if xraw.dtype != np.float64 and it == 0:
            # the same values handed over as float64 must give the same EM step (the step is a function of the values)
            ref = core.impl(lambda: params_of(mk(s, max_fitting_steps=1, convergence_threshold=None).fit(x)))
            if not isinstance(ref, core.ImplError) and not all(core.close(res[k], ref[k], 1e-6, 1e-9 * float(np.max(np.abs(ref[k])))) for k in ref):
                return {"sig": "em-step-depends-on-array-dtype", "what": f"one EM step on {xraw.dtype} data{how}: variances {np.asarray(res['v']).tolist()} vs {np.asarray(ref['v']).tolist()} on the same values as float64"}
        if not all(np.all(np.isfinite(res[k])) for k in res) or np.any(res["v"] <= 10 * sc.get("floor", gen.EPS)):
            return None  # a floor is active (or C13's business)
        after = avg_ll(res, x)
        if after < before - 1e-9 * max(1.0, abs(before)):
            return {"sig": "ml-iteration-decreases-likelihood", "what": f"iteration {it + 1}{how} with switches um={sc['um']} uv={sc['uv']} uw={sc['uw']}: average log-likelihood {before} -> {after}",
                    "iteration": it + 1}
        cur = res
    return None


def criterion_value_check(sc, x, xin, full):
    """the quantity the stopping rule is applied to is the average log-likelihood of *all* samples under the parameters
    entering the iteration (first two iterations, evaluated independently of the training code)"""
    if not full:
        return None
    x = np.asarray(x, dtype=float)
    exp0 = avg_ll({k: np.asarray(sc[k], dtype=float) for k in ("w", "m", "v")}, x)
    if not core.close(full[0], exp0, 1e-9, 1e-12):
        return {"sig": "criterion-is-not-average-log-likelihood", "what": f"criterion reported by iteration 1: {full[0]}; average log-likelihood of the {len(x)} samples under the initial parameters: {exp0}"}
    if len(full) >= 2:
        _, p1 = run_fit(sc, xin, 1, None)
        if p1 is not None:
            exp1 = avg_ll(p1, x)
            if np.isfinite(exp1) and not core.close(full[1], exp1, 1e-8, 1e-11):
                return {"sig": "criterion-is-not-average-log-likelihood", "what": f"criterion reported by iteration 2: {full[1]}; average log-likelihood under the parameters after one iteration: {exp1}"}
    return None


def oracle_stop(sc, cap, thr, use_dask=False, sizes=None):
    import dask.array as da

    x = np.asarray(sc["x"], dtype=float)
    xraw = np.asarray(sc["x"]).astype(sc.get("x_dtype", "float64"))
    xin = da.from_array(xraw, chunks=(tuple(sizes), x.shape[1])) if use_dask else xraw
    full, _ = run_fit(sc, xin, cap, None)
    if isinstance(full, core.ImplError):
        return {"sig": "fit-does-not-terminate" if full.kind == "DoesNotTerminate" else "fit-raises", "what": f"max_fitting_steps={cap}, no threshold: {full!r}"}
    if len(full) != cap:
        return {"sig": "no-threshold-run-wrong-length", "what": f"max_fitting_steps={cap}, threshold None: {len(full)} iterations"}
    f0 = criterion_value_check(sc, x, xin, full)
    if f0:
        return f0
    crit, _ = run_fit(sc, xin, cap, thr)
    if isinstance(crit, core.ImplError):
        return {"sig": "fit-raises", "what": repr(crit)}
    exp = py_stop_index(full, thr, cap)
    if len(crit) != exp:
        return {"sig": "stops-at-wrong-iteration", "what": f"cap {cap}, threshold {thr!r}: stopped after {len(crit)} iterations, rule says {exp}; relative changes {conv_values(full)}"}
    return None


def oracle_isolated(sc, sizes, cap, seed):
    """a Dask fit whose tasks run without shared memory (every task's inputs and result are pickled, as under the multiprocessing
    or distributed schedulers) performs the same `cap` EM iterations as the in-memory fit of the same rows, and the machine it
    returns is coherent: its own log-likelihood of the data is the one of its parameters"""
    import dask
    import dask.array as da

    import sched

    x = np.asarray(sc["x"], dtype=float)
    ref = core.impl(lambda: params_of(mk(sc, max_fitting_steps=cap, convergence_threshold=None).fit(x)))
    if isinstance(ref, core.ImplError) or not all(np.all(np.isfinite(ref[k])) for k in ref):
        return None
    xin = da.from_array(x, chunks=(tuple(sizes), x.shape[1]))
    g = mk(sc, max_fitting_steps=cap, convergence_threshold=None)

    def run():
        with dask.config.set(scheduler=sched.OrderScheduler(seed, True)):
            return g.fit(xin)

    res = core.impl(run)
    how = f"{cap} iterations on a Dask array (row chunks {tuple(sizes)}) under an executor without shared memory, switches um={sc['um']} uv={sc['uv']} uw={sc['uw']}"
    if isinstance(res, core.ImplError):
        return {"sig": "fit-raises", "what": f"{how}: {res!r}"}
    got = params_of(g)
    for k in ref:
        if not core.close(got[k], ref[k], 1e-6, 1e-9 * float(np.max(np.abs(ref[k])))):
            return {"sig": "isolated-dask-fit-is-not-the-em-iterations", "what": f"{how}: {k} {np.asarray(got[k]).tolist()} vs in-memory {np.asarray(ref[k]).tolist()}"}
    own = core.impl(lambda: float(np.mean(np.asarray(g.log_likelihood(x)))))
    exp = avg_ll(got, x)
    if isinstance(own, core.ImplError) or (np.isfinite(exp) and not core.close(own, exp, 1e-9, 1e-12)):
        return {"sig": "fitted-machine-incoherent", "what": f"{how}: the machine's average log-likelihood of the data is {own!r}, the one of its parameters {exp}"}
    return None


def search(ctx):
    fails = []
    for i in range(ctx.budget(32, 320)):
        sc = train_scenario(ctx, i)
        sc["chunks"] = [int(c) for c in gen.random_composition(ctx.rng, len(sc["x"]))] if ctx.rng.random() < 0.5 else None
        ctx.count("search:monotone" + (f":dask:{len(sc['chunks'])}-chunks" if sc["chunks"] else ":numpy"))
        ctx.case(["mono", core.tolist(sc["x"]), i % 8, sc["chunks"]], nontrivial=True)
        f = oracle_monotone(sc)
        if f:
            f["input"] = {k: sc[k] for k in ("w", "m", "v", "x", "x_dtype", "um", "uv", "uw", "thr", "floor", "chunks", "was_map", "sw_kind", "inplace_var") if k in sc}
            f["oracle"] = "monotone"
            fails.append(f)
            break
    for i in range(ctx.budget(8, 80)):
        scA, xB, cap, thr, start, refit = refit_pair(ctx, i)
        ctx.count("search:refit")
        ctx.case(["refit-s", core.tolist(xB), cap, thr], nontrivial=True)
        if start is None or isinstance(refit, core.ImplError):
            continue
        crit, par = run_fit(dict(scA, **start), xB, cap, thr)
        if isinstance(crit, core.ImplError) or crit != refit[0] or not all(np.array_equal(par[k], refit[1][k]) for k in par):
            fails.append({"sig": "refit-differs-from-fresh-machine", "oracle": "refit", "what": f"second fit of the same GMMMachine: {len(refit[0])} iterations {refit[0]}; fresh machine from the same parameters: {crit!r} (cap {cap}, threshold {thr})",
                          "input": {**{k: scA[k] for k in ("w", "m", "v", "x", "um", "uv", "uw", "thr", "floor")}, "xB": xB, "cap": cap, "conv_thr": thr}})
            break
    for i in range(ctx.budget(6, 40)):
        sc = train_scenario(ctx, i)
        sc.pop("x_dtype", None)
        sizes = [int(c) for c in gen.random_composition(ctx.rng, len(sc["x"]))]
        cap, seed = int(ctx.rng.integers(2, 5)), int(ctx.rng.integers(0, 10**6))
        ctx.count("search:isolated-dask")
        ctx.case(["iso", core.tolist(sc["x"]), sizes, cap], nontrivial=True)
        f = oracle_isolated(sc, sizes, cap, seed)
        if f:
            f["input"] = {**{k: sc[k] for k in ("w", "m", "v", "x", "um", "uv", "uw", "thr", "floor", "was_map", "sw_kind", "inplace_var") if k in sc}, "sizes": sizes, "cap": cap, "seed": seed}
            f["oracle"] = "isolated"
            fails.append(f)
            break
    if ctx.tier == "thorough" or ctx.broken:
        for use_dask in (False, True):
            for sc, xin, cap, thr, full, err in stop_scenarios(ctx, ctx.budget(8, 60), use_dask):
                sizes = [int(c) for c in xin.chunks[0]] if use_dask else None
                f = oracle_stop(sc, cap, thr, use_dask, sizes)
                ctx.count("search:stop")
                ctx.case(["stop", core.tolist(sc["x"]), cap, thr, use_dask], nontrivial=True)
                if f:
                    f["input"] = {**{k: sc[k] for k in ("w", "m", "v", "x", "x_dtype", "um", "uv", "uw", "thr", "floor", "was_map", "sw_kind", "inplace_var") if k in sc}, "cap": cap, "conv_thr": thr, "dask": use_dask, "sizes": sizes}
                    f["oracle"] = "stop"
                    fails.append(f)
                    break
    return fails


def replay(d):
    sc = d["input"]
    if d.get("oracle") == "refit":
        for k in ("w", "m", "v", "x", "xB"):
            sc[k] = np.asarray(sc[k], dtype=float)
        g = mk(sc, max_fitting_steps=sc["cap"], convergence_threshold=sc["conv_thr"])
        g.fit(sc["x"])
        start = params_of(g)
        with Recorder() as rec:
            g.fit(sc["xB"])
        crit, par = run_fit(dict(sc, **start), sc["xB"], sc["cap"], sc["conv_thr"])
        if crit != list(rec.crit):
            return {"sig": "refit-differs-from-fresh-machine", "what": f"{list(rec.crit)} vs {crit}"}
        return None
    if d.get("oracle") == "isolated":
        return oracle_isolated(sc, sc["sizes"], sc["cap"], sc["seed"])
    if d.get("oracle") == "stop":
        return oracle_stop(sc, sc["cap"], sc["conv_thr"], sc["dask"], sc["sizes"])
    return oracle_monotone(sc)
