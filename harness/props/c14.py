"""C14 — WCCN/whitening map covariance to identity; WCCN depends only on the partition."""
import numpy as np

import core
import gen

THEOREMS = [
    "whiten_core",
    "C14_whitening_identity",
    "C14_wccn_identity",
    "C14_lower_pos_diag",
    "C14_wccn_label_invariance",
    "C14_exec_eq_spec",
]
CORR_OPS = ["whiten:fit_numpy", "whiten:fit_dask", "whiten:transform", "wccn:fit_numpy", "wccn:fit_dask", "wccn:transform", "lapack:chol_contract"]
RULE = ("full-rank data sets (N >= 3 D, condition number <= 1e3) x labelings (0..K-1, shifted, negative, non-contiguous, unsorted), "
        "NumPy and Dask; distinct = hash of (X, y); non-trivial = D >= 2 and (for WCCN) >= 2 classes")
TRUSTED = ["scipy/dask Cholesky and inverse are parameters with a contract (L lower, positive diagonal, L L^T = A; exact inverse); "
           "the contract is checked on the LAPACK outputs each run"]
ASSUMPTIONS = ["K tolerance 1e-7 relative on projections (conditioned generators)"]


def data(ctx, i):
    r = ctx.rng
    D = int(r.integers(1, 4 if ctx.tier == "quick" else 7))
    K = int(r.integers(1, 5))
    per = int(r.integers(max(2, D + 1), 3 * D + 4))
    N = K * per
    A = r.normal(size=(D, D)) + 2 * np.eye(D)
    centers = r.normal(0, 3, size=(K, D))
    lab = np.repeat(np.arange(K), per)
    if K >= 2 and r.random() < 0.3:
        # unequal classes, the last one a single sample (its scatter is zero but it still counts as a class); the others keep the
        # within-class scatter full rank
        lab[lab == K - 1] = 0
        lab[-1] = K - 1
    X = centers[lab] + r.normal(size=(N, D)) @ A
    # features far from the origin (|mean| / std up to 1e6): the identities may not depend on where the origin is
    offset = float(r.choice([0.0, 0.0, 1e3, 1e5, 1e6])) * r.choice([-1.0, 1.0], size=D)
    X = X + offset
    unit = float(r.choice([1.0, 1.0, 1.0, 1e-4, 1e-2, 1e3]))  # the unit of the features is arbitrary: both identities are unit-free
    if unit != 1.0:
        X = X * unit
    elif float(np.max(np.abs(offset))) == 0.0:
        X = gen.maybe_int(r, X * 4.0, p=0.2, floats=False)  # integer-typed feature arrays (kept full rank by the spread)
    perm = r.permutation(N)
    X, lab = X[perm], lab[perm]
    kind = ["zero_based", "shifted", "negative", "noncontiguous", "unsorted", "large_ids"][i % 6]
    if kind == "zero_based":
        names = np.arange(K)
    elif kind == "shifted":
        names = np.arange(K) + int(r.integers(1, 50))
    elif kind == "negative":
        names = -np.arange(1, K + 1) * int(r.integers(1, 9))
    elif kind == "large_ids":  # subject ids: large, consecutive or nearly so (distinct integers, however close in relative terms)
        names = int(r.choice([100000, 2000000, 10**9, -(10**7)])) + np.sort(r.choice(np.arange(0, 12), K, replace=False))
    elif kind == "noncontiguous":
        names = np.sort(r.choice(np.arange(0, 200), K, replace=False))
    else:
        names = r.permutation(np.arange(K) * 3 + 1)
    y = names[lab]
    return dict(N=N, D=D, K=K, X=X, y=[int(v) for v in y], kind=kind, sizes=gen.random_composition(r, N), offset=float(np.max(np.abs(offset))))


def as_dask(sc):
    import dask.array as da

    return da.from_array(sc["X"], chunks=(tuple(sc["sizes"]), sc["D"]))


def tol_for(W):
    return 1e-7 * (1 + float(np.max(np.abs(W))))


def correspondence(ctx):
    import scipy.linalg as sl
    from bob.learn.em import WCCN, Whitening

    bad = []
    scs = [data(ctx, i) for i in range(ctx.budget(40, 400))]
    wl = core.drive([{"op": "whiten", "N": sc["N"], "D": sc["D"], "x": core.enc(sc["X"])} for sc in scs])
    cl = core.drive([{"op": "wccn", "N": sc["N"], "D": sc["D"], "x": core.enc(sc["X"]), "labels": sc["y"], "classes": [int(v) for v in set(sc["y"])]} for sc in scs])
    for sc, ow, oc in zip(scs, wl, cl):
        ctx.count("labels:" + sc["kind"])
        ctx.count(f"D={sc['D']}")
        ctx.case([core.tolist(sc["X"]), sc["y"]], nontrivial=sc["D"] >= 2 and sc["K"] >= 2,
                 sample={"N": sc["N"], "D": sc["D"], "classes": sorted(set(sc["y"])), "label_kind": sc["kind"], "chunks": sc["sizes"]})
        inp = {k: sc[k] for k in ("N", "D", "X", "y", "kind", "sizes")}
        mW, mS, mY = core.dec(ow["weights"]), core.dec(ow["subtract"]), core.dec(ow["y"])
        for op, xin in (("whiten:fit_numpy", sc["X"]), ("whiten:fit_dask", as_dask(sc))):
            w = Whitening()
            r = core.impl(lambda: w.fit(xin))
            if isinstance(r, core.ImplError):
                bad.append({"op": op, "input": inp, "impl": repr(r)})
                continue
            W, S = np.asarray(w.weights, dtype=float), np.asarray(w.input_subtract, dtype=float)
            if not (core.close(mW, W, 1e-7, tol_for(mW)) and core.close(mS, S, 1e-9, 1e-12)):
                bad.append({"op": op, "input": inp, "model": {"weights": mW, "subtract": mS}, "impl": {"weights": W, "subtract": S}})
            elif op == "whiten:fit_numpy":
                Y = core.impl(lambda: np.asarray(w.transform(sc["X"]), dtype=float))
                if isinstance(Y, core.ImplError) or not core.close(mY, Y, 1e-6, 1e-6 * (1 + float(np.max(np.abs(mY))))):
                    bad.append({"op": "whiten:transform", "input": inp, "model": mY, "impl": repr(Y) if isinstance(Y, core.ImplError) else Y})
        cW, cY = core.dec(oc["weights"]), core.dec(oc["y"])
        for op, xin in (("wccn:fit_numpy", sc["X"]), ("wccn:fit_dask", as_dask(sc))):
            w = WCCN()
            r = core.impl(lambda: w.fit(xin, sc["y"]))
            if isinstance(r, core.ImplError):
                bad.append({"op": op, "input": inp, "impl": repr(r)})
                continue
            W = core.impl(lambda: np.asarray(w.weights, dtype=float))  # lazily evaluated for Dask input: may still raise here
            if isinstance(W, core.ImplError):
                bad.append({"op": op, "input": inp, "impl": repr(W)})
                continue
            if not core.close(cW, W, 1e-7, tol_for(cW)):
                bad.append({"op": op, "input": inp, "model": cW, "impl": W})
            elif op == "wccn:fit_numpy":
                Y = core.impl(lambda: np.asarray(w.transform(sc["X"]), dtype=float))
                if isinstance(Y, core.ImplError) or not core.close(cY, Y, 1e-6, 1e-6 * (1 + float(np.max(np.abs(cY))))):
                    bad.append({"op": "wccn:transform", "input": inp, "model": cY, "impl": repr(Y) if isinstance(Y, core.ImplError) else Y})
        # the contract assumed of the external routines, on this input
        A = sl.inv(np.cov(sc["X"].T).reshape(sc["D"], sc["D"]))
        L = sl.cholesky(A, lower=True)
        ok = np.allclose(L @ L.T, A, rtol=1e-9, atol=1e-12) and np.all(np.triu(L, 1) == 0) and np.all(np.diag(L) > 0) \
            and np.allclose(A @ np.cov(sc["X"].T).reshape(sc["D"], sc["D"]), np.eye(sc["D"]), atol=1e-8)
        if not ok:
            bad.append({"op": "lapack:chol_contract", "input": inp})
    return bad


def oracle(sc):
    """the two identities, triangularity, and relabelling invariance, on the implementation"""
    from bob.learn.em import WCCN, Whitening

    X = np.asarray(sc["X"], dtype=float)
    y = list(sc["y"])
    D = X.shape[1]
    for name, xin in (("numpy", X), ("dask", as_dask(dict(sc, X=X)))):
        pinv = bool(sc.get("pinv", False))  # on full-rank data the pseudo-inverse option must not change anything
        w = Whitening(pinv=pinv)
        r = core.impl(lambda: w.fit(xin))
        if isinstance(r, core.ImplError):
            if pinv and name == "dask" and r.kind in ("AttributeError", "NotImplementedError", "TypeError"):
                continue  # Dask has no pinv: the option is only available for NumPy input
            return {"sig": "whitening-fit-raises", "what": f"{name}: {r!r}"}
        W = np.asarray(w.weights, dtype=float)
        Y = np.asarray(w.transform(X), dtype=float)
        if not (np.allclose(Y.mean(0), 0, atol=1e-8 * (1 + np.abs(Y).max())) and np.allclose(np.cov(Y.T).reshape(D, D), np.eye(D), atol=1e-6)):
            return {"sig": "whitened-covariance-not-identity", "what": f"{name}: cov = {np.cov(Y.T).tolist()}"}
        if np.any(np.abs(np.triu(W, 1)) > 0) or np.any(np.diag(W) <= 0):
            return {"sig": "projection-not-lower-triangular-positive", "what": f"whitening {name}"}
        c = WCCN(pinv=pinv)
        r = core.impl(lambda: c.fit(xin, y))
        if isinstance(r, core.ImplError):
            if pinv and name == "dask" and r.kind in ("AttributeError", "NotImplementedError", "TypeError"):
                continue
            return {"sig": "wccn-fit-raises", "what": f"{name}, labels {sorted(set(y))}: {r!r}"}
        Wc = np.asarray(c.weights, dtype=float)
        Yc = np.array(c.transform(X), dtype=float)
        ya = np.array(y)
        Sw = np.zeros((D, D))
        for l in set(y):
            Z = Yc[ya == l] - Yc[ya == l].mean(0)
            Sw += Z.T @ Z
        if not np.allclose(Sw / len(set(y)), np.eye(D), atol=1e-6):
            return {"sig": "wccn-within-class-scatter-not-identity", "what": f"{name}, labels {sorted(set(y))}: Sw/K = {(Sw / len(set(y))).tolist()}"}
        if np.any(np.abs(np.triu(Wc, 1)) > 0) or np.any(np.diag(Wc) <= 0):
            return {"sig": "projection-not-lower-triangular-positive", "what": f"wccn {name}"}
        # an estimator object that was fitted on other data before must give what a fresh one gives
        decoy = np.random.default_rng(7).normal(size=(2 * D + 6, D)) @ (np.eye(D) * 3.0) + 5.0
        dlab = [int(k % 2) + 100 for k in range(len(decoy))]
        w3, c3 = Whitening(pinv=pinv), WCCN(pinv=pinv)
        core.impl(lambda: (w3.fit(decoy), np.asarray(w3.transform(decoy))))  # fitted *and used* on other data
        core.impl(lambda: (c3.fit(decoy, dlab), np.asarray(c3.transform(decoy))))
        r3 = core.impl(lambda: (w3.fit(xin), c3.fit(xin, y), np.asarray(w3.transform(X), dtype=float), np.asarray(c3.transform(X), dtype=float)))
        if isinstance(r3, core.ImplError) or not (np.array_equal(np.asarray(w3.weights), W) and np.array_equal(np.asarray(c3.weights), Wc)
                                                  and np.array_equal(np.asarray(w3.input_subtract), np.asarray(w.input_subtract))
                                                  and core.close(r3[2], Y, 1e-10, 1e-10 * (1 + float(np.max(np.abs(Y)))))
                                                  and core.close(r3[3], Yc, 1e-10, 1e-10 * (1 + float(np.max(np.abs(Yc)))))):
            return {"sig": "refit-differs-from-fresh-estimator", "what": f"{name}: a Whitening / WCCN object fitted on other data first gives a different projection: {r3!r}"}
        # the same label list object, re-filled in place with another assignment of the same class ids (a caller that re-uses its
        # buffers), then fitted again: the projection is the one of the *new* partition
        y_buf = list(y)
        c4 = WCCN(pinv=pinv)
        r4a = core.impl(lambda: c4.fit(xin, y_buf))
        rot = y_buf[1:] + y_buf[:1]
        if not isinstance(r4a, core.ImplError) and rot != y_buf and all(rot.count(l) >= 2 for l in set(rot)):
            y_buf[:] = rot
            r4 = core.impl(lambda: c4.fit(xin, y_buf))
            ref4 = core.impl(lambda: np.asarray(WCCN(pinv=pinv).fit(xin, list(rot)).weights, dtype=float))
            Y4 = core.impl(lambda: np.array(c4.transform(X), dtype=float))
            ok4 = not isinstance(r4, core.ImplError) and not isinstance(Y4, core.ImplError)
            if ok4:
                ra = np.array(rot)
                Sw4 = np.zeros((D, D))
                for l in set(rot):
                    Z = Y4[ra == l] - Y4[ra == l].mean(0)
                    Sw4 += Z.T @ Z
                ok4 = np.allclose(Sw4 / len(set(rot)), np.eye(D), atol=1e-6)
            if not ok4:
                return {"sig": "wccn-within-class-scatter-not-identity", "what": f"{name}: second fit with the same label list object re-filled in place (labels rotated by one sample): "
                        f"Sw/K of the transformed data is not the identity ({r4!r})"}
        if name == "numpy":
            # rename the classes 0..K-1 in order of first appearance: same partition
            first = {}
            for v in y:
                first.setdefault(v, len(first))
            c2 = WCCN()
            r2 = core.impl(lambda: c2.fit(X, [first[v] for v in y]))
            if isinstance(r2, core.ImplError) or not np.allclose(np.asarray(c2.weights), Wc, rtol=1e-8, atol=1e-10):
                return {"sig": "wccn-depends-on-label-values", "what": f"labels {sorted(set(y))} vs 0..K-1: {r2!r}"}
    return None


def search(ctx):
    fails, seen = [], set()
    for i in range(ctx.budget(20, 200)):
        sc = data(ctx, i)
        sc["pinv"] = bool(ctx.rng.random() < 0.3)
        ctx.count("search:" + sc["kind"] + (":pinv" if sc["pinv"] else ""))
        ctx.case(["s", core.tolist(sc["X"]), sc["y"]], nontrivial=True)
        f = oracle(sc)
        if f and f["sig"] not in seen:
            seen.add(f["sig"])
            f["input"] = {k: sc[k] for k in ("N", "D", "X", "y", "kind", "sizes", "pinv")}
            fails.append(f)
    return fails


def replay(d):
    return oracle(d["input"])
