"""C12 — Training from statistics is independent of bag partitioning and scheduling."""
import re

import numpy as np

import core
import fagen
import gen
import sched

THEOREMS = [
    "innerLoop_append",
    "C12_regroup",
    "C12_fa_partition_independent",
    "C12_tree_reduce",
    "C12_ivector_partition_independent",
    "C12_order_and_isolation",
    "C12_exactly_once",
    "C12_dropped_partition_ignored",
    "C12_tree_levels_needed",
]
CORR_OPS = ["prepare_dask_input:classes", "tree_reduce:sum", "sched_check:bag_graphs", "sched_check:exactly_once", "train:bag_eq_list"]
RULE = ("ISV / JFA / i-vector training from a Dask bag of statistics vs the in-memory list, for every number of partitions 1..N (odd and "
        "even: both branches of the pairwise reduction), unsorted labels, partitions mixing classes, and executors (synchronous, seeded random "
        "topological orders, cloudpickle-isolated); the regrouping and the pairwise reduction are also run in the model on the recorded "
        "partition layout / per-partition accumulators; non-trivial = >= 2 partitions")
ASSUMPTIONS = ["the atomic unit is a Dask task", "bag partition layout is read from the bag itself (map_partitions(len))"]
WORKER = re.compile(r"^(e_step|_sum_)")


def scenario(ctx, i, kind=None):
    r = ctx.rng
    kind = kind or ["isv", "jfa", "ivector"][i % 3]
    sc = fagen.fa_scenario(r, ctx.tier, jfa=(kind == "jfa"), sessions=1)
    K = int(r.integers(2, 5))
    n = int(r.integers(K + 1, 11))
    many = None
    if r.random() < 0.25:  # a longer bag cut into many partitions (5 .. 40, exactly: n is a multiple of the partition count)
        many = int(r.integers(5, 41))
        n = many * int(r.integers(1, 3))
    labels = np.concatenate([np.arange(K), r.integers(0, K, n - K)])
    labels = labels[r.permutation(n)]
    sts = [fagen.rand_stat(r, sc["C"], sc["D"], sc["m"], sc["v"]) for _ in range(n)]
    for k, s in enumerate(sts):
        s["n"] = np.maximum(s["n"], 0.05)
        s["s"] = (np.asarray(sc["v"]) + (np.asarray(s["f"]) / s["n"][:, None]) ** 2) * s["n"][:, None]
        if k > 0 and sc["C"] >= 2 and r.random() < 0.4:  # a statistic in which one component saw nothing (hard / pruned posteriors)
            c0 = int(r.integers(0, sc["C"]))
            s["n"][c0] = 0.0
            s["f"][c0] = 0.0
            s["s"][c0] = 0.0
    first = [int(a) for a in labels[r.permutation(n)]] if kind != "ivector" and r.random() < 0.3 else None
    sc.update(first_labels=first, kind=kind, labels=[int(a) for a in labels], K=K, stats=sts, nparts=many or int(r.integers(1, n + 1)), many=bool(many), iters=int(r.integers(1, 3)), R=int(r.integers(1, 3)), seed=int(r.integers(0, 10**6)))
    return sc


def mk_stat(sc, k):
    s = sc["stats"][k]
    g = gen.mk_stats(sc["C"], sc["D"], s["n"], s["f"], s.get("s", np.zeros((sc["C"], sc["D"]))), 100 + k)  # t doubles as an identity tag
    return g


def train(sc, as_bag, scheduler=None):
    import dask
    import dask.bag as db
    from bob.learn.em import IVectorMachine

    X = [mk_stat(sc, k) for k in range(len(sc["stats"]))]
    Xin = db.from_sequence(X, npartitions=sc["nparts"]) if as_bag else X
    ctxm = dask.config.set(scheduler=scheduler) if scheduler is not None else dask.config.set({})
    with ctxm:
        if sc["kind"] == "ivector":
            ubm = gen.mk_gmm(sc["w"], sc["m"], sc["v"])
            np.random.seed(sc["seed"])
            iv = IVectorMachine(ubm, dim_t=sc["R"], max_iterations=sc["iters"], update_sigma=True, variance_floor=1e-8)
            iv.fit(Xin)
            return [np.asarray(iv.T, float), np.asarray(iv.sigma, float)]
        mach = fagen.mk_machine(sc, em_iterations=sc["iters"])
        if sc.get("first_labels") is not None:
            # the same machine was trained before, on the same bag / list object, with the sessions labelled differently
            mach.fit(Xin, np.array(sc["first_labels"]))
        mach.fit(Xin, np.array(sc["labels"]))
        return [np.asarray(mach.U, float), np.asarray(mach.D, float)] + ([np.asarray(mach.V, float)] if sc["jfa"] else [])


def same(a, b, tol=1e-8):
    return len(a) == len(b) and all(core.close(x, y, tol, 1e-9 * (1 + float(np.max(np.abs(y))))) for x, y in zip(a, b))


def correspondence(ctx):
    import dask
    import dask.bag as db
    from bob.learn.em import ivector as ivmod

    bad = []
    # (1) regrouping: the real _prepare_dask_input vs the model on the real partition layout
    lines, meta = [], []
    for i in range(ctx.budget(16, 120)):
        sc = scenario(ctx, i, kind=["isv", "jfa"][i % 2])
        X = [mk_stat(sc, k) for k in range(len(sc["stats"]))]
        bag = db.from_sequence(X, npartitions=sc["nparts"])
        lens = [int(a) for a in bag.map_partitions(len).compute()]
        mach = fagen.mk_machine(sc)
        r = core.impl(lambda: mach._prepare_dask_input(bag, np.array(sc["labels"])))
        parts, k0 = [], 0
        for L in lens:
            parts.append(list(range(k0, k0 + L)))
            k0 += L
        lines.append({"op": "prepare_dask_input", "partitions": parts, "y": sc["labels"], "K": sc["K"]})
        meta.append((sc, lens, r))
    for (sc, lens, r), o in zip(meta, core.drive(lines)):
        ctx.count(f"prepare:partitions={len(lens)}")
        ctx.case(["prep", lens, sc["labels"]], nontrivial=len(lens) >= 2, sample={"partition_lengths": lens, "labels": sc["labels"], "model_classes": o["classes"]})
        if isinstance(r, core.ImplError):
            bad.append({"op": "prepare_dask_input:classes", "input": {"lens": lens, "labels": sc["labels"]}, "impl": repr(r)})
            continue
        Xc, yc = r
        got = [[int(s.t) - 100 for s in dask.compute(x)[0]] for x in Xc]
        gl = [[int(v) for v in y_] for y_ in yc]
        if got != o["classes"] or gl != o["labels"]:
            bad.append({"op": "prepare_dask_input:classes", "input": {"lens": lens, "labels": sc["labels"]}, "model": o, "impl": {"classes": got, "labels": gl}})
    # (2) pairwise reduction on recorded per-partition accumulators
    lines, meta = [], []
    for i in range(ctx.budget(10, 80)):
        sc = scenario(ctx, i, kind="ivector")
        from props.c10 import mk_machine as mk_iv

        ivsc = dict(sc, T=ctx.rng.normal(size=(sc["C"], sc["D"], sc["R"])), sigma=np.asarray(sc["v"]), update_sigma=True, floor=1e-8)
        iv = mk_iv(ivsc)
        X = [mk_stat(sc, k) for k in range(len(sc["stats"]))]
        sizes = gen.random_composition(ctx.rng, len(X))
        parts = gen.split(X, sizes)

        def flat(st):
            return np.concatenate([np.ravel(st.nij_sigma_wij2), np.ravel(st.fnorm_sigma_wij), np.ravel(st.snormij), np.ravel(st.nij)])

        per = [flat(ivmod.e_step(iv, p)) for p in parts]
        whole = flat(ivmod.e_step(iv, X))
        lines.append({"op": "tree_reduce", "items": [core.enc(p) for p in per]})
        meta.append((sizes, whole))
    for (sizes, whole), o in zip(meta, core.drive(lines)):
        ctx.count(f"tree:partitions={len(sizes)}:{'odd' if len(sizes) % 2 else 'even'}")
        ctx.case(["tree", sizes, core.tolist(whole[:4])], nontrivial=len(sizes) >= 2)
        res = [core.dec(x) for x in o["result"]]
        if len(res) != 1 or not core.close(res[0], whole, 1e-9, 1e-9 * (1 + float(np.max(np.abs(whole))))):
            bad.append({"op": "tree_reduce:sum", "input": {"sizes": sizes}, "model": res, "impl": whole})
    # (3) recorded bag graphs through the discipline, and bag == list
    for i in range(ctx.budget(9, 60)):
        sc = scenario(ctx, i)
        ctx.count("train:" + sc["kind"])
        ctx.case(["t", sc["kind"], sc["labels"], sc["nparts"], core.tolist(sc["stats"][0]["f"])], nontrivial=sc["nparts"] >= 2,
                 sample={"kind": sc["kind"], "n": len(sc["stats"]), "nparts": sc["nparts"], "labels": sc["labels"], "iters": sc["iters"]})
        inp = {k: sc[k] for k in ("kind", "C", "D", "rU", "rV", "jfa", "w", "m", "v", "U", "V", "Dd", "stats", "labels", "first_labels", "K", "nparts", "iters", "R", "seed")}
        ref = core.impl(lambda: train(sc, False))
        rec = sched.RecordingScheduler()
        got = core.impl(lambda: train(sc, True, rec))
        if isinstance(ref, core.ImplError) or isinstance(got, core.ImplError) or not same(got, ref):
            bad.append({"op": "train:bag_eq_list", "input": inp, "impl": {"list": repr(ref) if isinstance(ref, core.ImplError) else ref, "bag": repr(got) if isinstance(got, core.ImplError) else got}})
            continue
        lines, metas = [], []
        for g in rec.graphs:
            ids = {t["key"]: j for j, t in enumerate(g["tasks"])}
            workers = [ids[t["key"]] for t in g["tasks"] if WORKER.match(t["func"])]
            if not workers:
                continue
            out = [ids[k] for k in g["out"] if k in ids]
            final = out[0] if out else len(g["tasks"]) - 1
            tasks = [{"id": ids[t["key"]], "deps": [ids[d] for d in t["deps"]], "reads": t["reads"], "writes": t["writes"]} for t in g["tasks"]]
            fin_w = next(t["writes"] for t in tasks if t["id"] == final)
            lines.append({"op": "sched_check", "tasks": tasks, "final": final, "workers": workers, "shared": g["shared"], "copyback": [l for l in fin_w if l in g["shared"]]})
            metas.append({"workers": len(workers), "tasks": len(tasks), "funcs": sorted({t["func"] for t in g["tasks"]})})
        ctx.traces += len(lines)
        for m_, o in zip(metas, core.drive(lines)):
            ctx.count("graphs-checked")
            if not (o["disciplined"] and o["isolation_ok"]):
                bad.append({"op": "sched_check:bag_graphs", "input": inp, "graph": m_, "model": o})
        # reduction shape: every partition's task enters the final task along exactly one path (C12_exactly_once)
        for g in rec.graphs:
            l2, m2 = sched.exactly_once_lines(g, WORKER)
            if not l2:
                continue
            ctx.count("graphs-checked:exactly-once")
            v = sched.exactly_once_verdict(m2, core.drive(l2))
            if v:
                bad.append({"op": "sched_check:exactly_once", "input": inp, "graph": v})
                break
    # (4) the reduction shape for every partition count 1 .. 24 (thorough: .. 80) of an i-vector bag
    base = scenario(ctx, 2, kind="ivector")
    top = 24 if ctx.tier == "quick" else 80
    pool = [fagen.rand_stat(ctx.rng, base["C"], base["D"], base["m"], base["v"]) for _ in range(top)]
    for s_ in pool:
        s_["n"] = np.maximum(s_["n"], 0.05)
        s_["s"] = (np.asarray(base["v"]) + (np.asarray(s_["f"]) / s_["n"][:, None]) ** 2) * s_["n"][:, None]
    for p_ in range(1, top + 1):
        sc = dict(base, stats=pool[:p_], labels=[0] * p_, nparts=p_, iters=1, many=True)
        rec = sched.RecordingScheduler()
        got = core.impl(lambda: train(sc, True, rec))
        ctx.count("exactly-once:partition-counts")
        ctx.case(["eo", p_], nontrivial=p_ >= 2)
        if isinstance(got, core.ImplError):
            bad.append({"op": "train:bag_eq_list", "input": {"kind": "ivector", "nparts": p_}, "impl": repr(got)})
            break
        for g in rec.graphs:
            l2, m2 = sched.exactly_once_lines(g, WORKER)
            v = sched.exactly_once_verdict(m2, core.drive(l2), {"e_step": p_}) if l2 else None
            if v:
                bad.append({"op": "sched_check:exactly_once", "input": {"kind": "ivector", "nparts": p_, "statistics": p_}, "graph": v})
                break
        if bad and bad[-1]["op"] == "sched_check:exactly_once":
            break
    return bad


def oracle(sc, seeds, processes=None):
    ref = core.impl(lambda: train(sc, False))
    if isinstance(ref, core.ImplError):
        return {"sig": f"list-training-raises:{sc['kind']}", "what": repr(ref)}
    runs = [("synchronous", "synchronous")]
    if processes if processes is not None else len(seeds) > 1:  # a pool of spawned workers per compute: seconds each, so only a few scenarios use it
        runs.append(("processes (real worker isolation)", "processes"))
    for s in seeds:
        runs += [(f"random-order seed {s}", sched.OrderScheduler(s, False)), (f"random-order seed {s}, isolated", sched.OrderScheduler(s, True))]
    for name, sch in runs:
        got = core.impl(lambda: train(sc, True, sch), _slow=10.0 if sch == "processes" else 1.0)
        if isinstance(got, core.ImplError):
            return {"sig": f"bag-training-raises:{sc['kind']}", "what": f"{sc['kind']} from a bag of {len(sc['stats'])} statistics in {sc['nparts']} partitions under {name}: {got!r}", "executor": name}
        if not same(got, ref):
            return {"sig": f"bag-differs-from-list:{sc['kind']}:{'isolated' if 'isolated' in name else 'shared'}",
                    "what": f"{sc['kind']}: {len(sc['stats'])} statistics, labels {sc['labels']}, {sc['nparts']} partitions under {name}: model differs from the in-memory training", "executor": name}
    return None


def sweep(ctx, fails, seen):
    """every partition count 1 .. 40 (thorough: .. 140, so that the later levels of a reduction tree also see every width):
    the i-vector fit of a bag of p one-statistic partitions against the fit of the same list"""
    base = scenario(ctx, 2, kind="ivector")
    r = ctx.rng
    top = 40 if ctx.tier == "quick" else 140
    pool = [fagen.rand_stat(r, base["C"], base["D"], base["m"], base["v"]) for _ in range(top)]
    for s in pool:
        s["n"] = np.maximum(s["n"], 0.05)
        s["s"] = (np.asarray(base["v"]) + (np.asarray(s["f"]) / s["n"][:, None]) ** 2) * s["n"][:, None]
    for p_ in range(1, top + 1):
        sc = dict(base, stats=pool[:p_], labels=[0] * p_, nparts=p_, iters=1, many=True)
        ctx.count("search:sweep-partition-counts")
        ctx.case(["sweep", p_], nontrivial=p_ >= 2)
        f = oracle(sc, [], processes=False)
        if f and f["sig"] not in seen:
            seen.add(f["sig"])
            f["input"] = {k: sc[k] for k in ("kind", "C", "D", "rU", "rV", "jfa", "w", "m", "v", "U", "V", "Dd", "stats", "labels", "first_labels", "K", "nparts", "iters", "R", "seed")}
            fails.append(f)


def search(ctx):
    fails, seen = [], set()
    sweep(ctx, fails, seen)
    for i in range(ctx.budget(12, 120)):
        sc = scenario(ctx, i + 1)
        if i % 2 and not sc.get("many"):
            sc["nparts"] = 1 + (i // 2) % len(sc["stats"])  # sweep the partition counts, odd and even
        ctx.count(f"search:{sc['kind']}:nparts={sc['nparts']}")
        ctx.case(["s", sc["kind"], sc["labels"], sc["nparts"]], nontrivial=sc["nparts"] >= 2)
        f = oracle(sc, [int(ctx.rng.integers(0, 10**6))] if ctx.tier == "quick" else [int(s) for s in ctx.rng.integers(0, 10**6, 3)],
                   processes=(ctx.tier != "quick" and i < 6))
        if ctx.tier != "quick" and i < 6:
            ctx.count("search:processes-executor")
        if f and f["sig"] not in seen:
            seen.add(f["sig"])
            f["input"] = {k: sc[k] for k in ("kind", "C", "D", "rU", "rV", "jfa", "w", "m", "v", "U", "V", "Dd", "stats", "labels", "first_labels", "K", "nparts", "iters", "R", "seed")}
            fails.append(f)
    return fails


def replay(d):
    sc = d["input"]
    for k in ("w", "m", "v", "U", "V", "Dd"):
        sc[k] = np.asarray(sc[k], dtype=float)
    sc["U"] = sc["U"].reshape(sc["C"] * sc["D"], sc["rU"])
    sc["V"] = sc["V"].reshape(sc["C"] * sc["D"], sc["rV"])
    sc["stats"] = [{k: (np.asarray(v, float) if isinstance(v, list) else v) for k, v in s.items()} for s in sc["stats"]]
    sc["sts"] = sc["stats"][:1]
    return oracle(sc, [0, 1])
