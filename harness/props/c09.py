"""C09 — Each JFA training phase is exact EM: its marginal likelihood never decreases."""
import numpy as np

import core
import fagen
import gen

THEOREMS = []  # set at the bottom (kept next to the Lean file's theorem list)
CORR_OPS = ["fa_train:acc_V", "fa_train:acc_U", "fa_train:acc_D", "fa_train:finalize_v", "fa_train:jfa_fit", "fa_train:isv_acc_U", "fa_train:isv_fit"]
RULE = ("UBM x labelled training statistics (2-4 classes, 1-4 sessions per class, fractional counts) x ranks 1-2 x initial U, V, D x 1-3 "
        "EM iterations per phase; distinct = hash of inputs; non-trivial = >= 2 classes with >= 2 sessions in some class")
ASSUMPTIONS = ["np.linalg.inv / solve are parameters (contract: exact inverse); Float instance: Gauss-Jordan with partial pivoting"]


def scenario(ctx, i, jfa=True):
    r = ctx.rng
    sc = fagen.fa_scenario(r, ctx.tier, jfa=jfa, sessions=1)
    K = int(r.integers(2, 5))
    sc["classes"] = [[fagen.rand_stat(r, sc["C"], sc["D"], sc["m"], sc["v"]) for _ in range(int(r.integers(1, 5)))] for _ in range(K)]
    counts = ["fractional", "integer", "shared"][int(r.integers(0, 3))]
    sc["counts"] = counts
    shared = None
    for cls in sc["classes"]:
        for s in cls:
            mean = s["f"] / np.maximum(s["n"], 1e-300)[:, None]
            if counts == "integer":  # hard-assignment counts of short utterances: many sessions share a count vector
                s["n"] = r.multinomial(int(r.integers(2, 6)), np.ones(sc["C"]) / sc["C"]).astype(float) + 1.0
            elif counts == "shared":  # equal-length sessions with identical zeroth-order statistics
                if shared is None or r.random() < 0.3:
                    shared = np.maximum(s["n"], 0.05)
                s["n"] = shared.copy()
            s["n"] = np.maximum(s["n"], 0.05)  # every component gets some mass over the training set
            s["f"] = np.where(np.isfinite(mean), mean, 0.0) * s["n"][:, None]
    if sc["C"] >= 2 and len(sc["classes"]) >= 2 and r.random() < 0.3:
        # sparse statistics: one class never visits one of the Gaussians (count exactly 0 there, positive elsewhere and in the
        # other classes, so the component still has mass over the training set)
        k, c = int(r.integers(0, len(sc["classes"]))), int(r.integers(0, sc["C"]))
        for s in sc["classes"][k]:
            s["n"] = np.array(s["n"], dtype=float)
            s["f"] = np.array(s["f"], dtype=float)
            s["n"][c] = 0.0
            s["f"][c] = 0.0
    sc["iters"] = int(r.integers(1, 4))
    sc["interleave"] = int(r.integers(0, 10**6)) if r.random() < 0.5 else None
    sc["int_counts"] = bool(counts == "integer" and r.random() < 0.6)
    sc["int_subspaces"] = bool(r.random() < 0.25)
    if sc["int_subspaces"]:
        sc["U"] = np.rint(np.asarray(sc["U"]) * 2.0)
        sc["V"] = np.rint(np.asarray(sc["V"]) * 2.0)
        sc["U"][0] = np.where(sc["U"][0] == 0, 1.0, sc["U"][0])  # keep the loading matrices away from the all-zero matrix
        if sc["V"].size:
            sc["V"][0] = np.where(sc["V"][0] == 0, 1.0, sc["V"][0])
    return sc


def flat(sc):
    """the training list and its labels; with sc["interleave"] the sessions of the classes are merged in a random order that
    keeps each class's own sessions in their relative order (labels need not arrive grouped by class)"""
    X, y = [], []
    for k, cls in enumerate(sc["classes"]):
        for s in cls:
            X.append(fagen.mk_stats(sc, s))
            y.append(k)
    if sc.get("interleave") is not None:
        rr = np.random.default_rng(int(sc["interleave"]))
        heads = [0] * len(sc["classes"])
        offs = np.concatenate([[0], np.cumsum([len(c) for c in sc["classes"]])])
        order = []
        remaining = [k for k, c in enumerate(sc["classes"]) for _ in c]
        rr.shuffle(remaining)
        for k in remaining:
            order.append(int(offs[k]) + heads[k])
            heads[k] += 1
        X, y = [X[i] for i in order], [y[i] for i in order]
    return X, y


def line(sc):
    return {"op": "fa_train", **fagen.model_fields(sc), "jfa": sc["jfa"], "iters": sc["iters"],
            "classes": [[fagen.st_line(s) for s in cls] for cls in sc["classes"]]}


def impl_first_steps(sc):
    mach = fagen.mk_machine(sc, em_iterations=sc["iters"])
    X, y = flat(sc)
    K = len(sc["classes"])
    nspc = [len(c) for c in sc["classes"]]
    n_acc, f_acc = mach.initialize(X, y, K)
    out = {}
    if sc["jfa"]:
        a1, a2 = mach.e_step_v(X=X, y=y, n_samples_per_class=nspc, n_acc=n_acc, f_acc=f_acc)
        out["accV"] = (np.asarray(a1), np.asarray(a2))
        ys = mach.finalize_v(X=X, y=y, n_samples_per_class=nspc, n_acc=n_acc, f_acc=f_acc)
        out["ys"] = np.asarray(ys)
        a1, a2 = mach.e_step_u(X=X, y=y, n_samples_per_class=nspc, latent_y=ys)
        out["accU"] = (np.asarray(a1), np.asarray(a2))
        xs = mach.finalize_u(X=X, y=y, n_samples_per_class=nspc, latent_y=ys)
        a1, a2 = mach.e_step_d(X=X, y=y, n_samples_per_class=nspc, latent_x=xs, latent_y=ys, n_acc=n_acc, f_acc=f_acc)
        out["accD"] = (np.asarray(a1), np.asarray(a2))
    else:
        a1, a2 = mach.e_step(X=X, y=y, n_samples_per_class=nspc, n_acc=n_acc, f_acc=f_acc)
        out["accU"] = (np.asarray(a1), np.asarray(a2))
    m2 = fagen.mk_machine(sc, em_iterations=sc["iters"])
    m2.fit(X, y)
    out["fit"] = (np.asarray(m2.U), np.asarray(m2.V) if sc["jfa"] else None, np.asarray(m2.D))
    return out


def acc_close(o, pair, C, D, r):
    a1 = core.dec(o["a1"]).reshape(C, r, r)
    a2 = core.dec(o["a2"]).reshape(C * D, r)
    s1, s2 = 1 + float(np.max(np.abs(pair[0]))), 1 + float(np.max(np.abs(pair[1])))
    return core.close(a1, pair[0], 1e-7, 1e-9 * s1) and core.close(a2, pair[1], 1e-7, 1e-9 * s2)


def correspondence(ctx):
    bad = []
    scs = [scenario(ctx, i, jfa=(i % 3 != 2)) for i in range(ctx.budget(24, 240))]
    outs = core.drive([line(sc) for sc in scs])
    for sc, o in zip(scs, outs):
        C, D, rU, rV = sc["C"], sc["D"], sc["rU"], sc["rV"]
        ctx.count("jfa" if sc["jfa"] else "isv")
        ctx.count(f"classes={len(sc['classes'])}")
        ctx.case([core.tolist(sc["U"]), core.tolist([[s["f"] for s in c] for c in sc["classes"]]), sc["iters"]],
                 nontrivial=len(sc["classes"]) >= 2 and max(len(c) for c in sc["classes"]) >= 2,
                 sample={"machine": "jfa" if sc["jfa"] else "isv", "C": C, "D": D, "rU": rU, "rV": rV, "sessions_per_class": [len(c) for c in sc["classes"]], "iters": sc["iters"]})
        inp = {k: sc[k] for k in ("C", "D", "rU", "rV", "jfa", "w", "m", "v", "U", "V", "Dd", "classes", "iters", "interleave", "int_subspaces", "int_counts", "layout") if k in sc}
        im = core.impl(lambda: impl_first_steps(sc))
        if isinstance(im, core.ImplError):
            bad.append({"op": "fa_train:jfa_fit" if sc["jfa"] else "fa_train:isv_fit", "input": inp, "impl": repr(im)})
            continue
        if sc["jfa"]:
            if not acc_close(o["accV"], im["accV"], C, D, rV):
                bad.append({"op": "fa_train:acc_V", "input": inp, "model": o["accV"], "impl": im["accV"]})
            mys = np.array([fagen.dec1(y, rV) for y in o["ys"]])
            if not core.close(mys, im["ys"], 1e-7, 1e-9):
                bad.append({"op": "fa_train:finalize_v", "input": inp, "model": mys, "impl": im["ys"]})
            if not acc_close(o["accU"], im["accU"], C, D, rU):
                bad.append({"op": "fa_train:acc_U", "input": inp, "model": o["accU"], "impl": im["accU"]})
            d1, d2 = core.dec(o["accD"]["a1"]).reshape(-1), core.dec(o["accD"]["a2"]).reshape(-1)
            if not (core.close(d1, im["accD"][0], 1e-7, 1e-9) and core.close(d2, im["accD"][1], 1e-7, 1e-9 * (1 + np.max(np.abs(im["accD"][1]))))):
                bad.append({"op": "fa_train:acc_D", "input": inp, "model": [d1, d2], "impl": im["accD"]})
        elif not acc_close(o["accU"], im["accU"], C, D, rU):
            bad.append({"op": "fa_train:isv_acc_U", "input": inp, "model": o["accU"], "impl": im["accU"]})
        mU, mV, mD = core.dec(o["U"]).reshape(C * D, rU), core.dec(o["V"]).reshape(C * D, rV), core.dec(o["Dd"]).reshape(-1)
        U, V, Dd = im["fit"]
        ok = core.close(mU, U, 1e-6, 1e-8 * (1 + np.max(np.abs(U)))) and core.close(mD, Dd, 1e-6, 1e-8) and (V is None or core.close(mV, V, 1e-6, 1e-8 * (1 + np.max(np.abs(V)))))
        if not ok:
            bad.append({"op": "fa_train:jfa_fit" if sc["jfa"] else "fa_train:isv_fit", "input": inp, "model": {"U": mU, "V": mV, "D": mD}, "impl": {"U": U, "V": V, "D": Dd}})
    return bad


# --- marginal likelihoods of the three phases (up to constants), independent NumPy evaluation -------------------------
def marg_item(L, nv, g, v):
    """0.5 b'P^-1 b - 0.5 log det P for loading L (CD x r), counts nv (CD), centred first-order stats g (CD)"""
    P = np.eye(L.shape[1]) + L.T @ (L * (nv / v)[:, None])
    b = L.T @ (g / v)
    return 0.5 * float(b @ np.linalg.solve(P, b)) - 0.5 * float(np.linalg.slogdet(P)[1])


def marg_V(sc, V):
    m, v = np.asarray(sc["m"]).reshape(-1), np.asarray(sc["v"]).reshape(-1)
    tot = 0.0
    for cls in sc["classes"]:
        N = sum(np.asarray(s["n"]) for s in cls)
        F = sum(np.asarray(s["f"]) for s in cls).reshape(-1)
        nv = np.repeat(N, sc["D"])
        tot += marg_item(V, nv, F - nv * m, v)
    return tot


def marg_U(sc, U, V, ys):
    m, v = np.asarray(sc["m"]).reshape(-1), np.asarray(sc["v"]).reshape(-1)
    tot = 0.0
    for cls, y in zip(sc["classes"], ys):
        for s in cls:
            nv = np.repeat(np.asarray(s["n"]), sc["D"])
            tot += marg_item(U, nv, np.asarray(s["f"]).reshape(-1) - nv * (m + V @ y), v)
    return tot


def marg_D(sc, Dd, U, V, ys, xss):
    m, v = np.asarray(sc["m"]).reshape(-1), np.asarray(sc["v"]).reshape(-1)
    tot = 0.0
    for cls, y, xs in zip(sc["classes"], ys, xss):
        N = sum(np.asarray(s["n"]) for s in cls)
        F = sum(np.asarray(s["f"]) for s in cls).reshape(-1)
        nv = np.repeat(N, sc["D"])
        g = F - nv * (m + V @ y)
        for s, x in zip(cls, np.asarray(xs).T):
            g = g - np.repeat(np.asarray(s["n"]), sc["D"]) * (U @ x)
        a = Dd * Dd * nv / v
        b = Dd * g / v
        tot += float(np.sum(0.5 * b * b / (1 + a) - 0.5 * np.log1p(a)))
    return tot


def oracle(sc, iters=4, per_class=False, passes=1):
    """drive the three phases with the public per-phase steps; each phase's marginal likelihood must not decrease.
    per_class=True calls every E-step once per class with that class's statistics and hands the list of outputs to the
    M-step — the way `fit` drives the steps for Dask input (one task per class)."""
    mach = fagen.mk_machine(sc, em_iterations=1)
    X, y = flat(sc)
    K = len(sc["classes"])
    nspc = [len(c) for c in sc["classes"]]
    groups = [([x for x, lab in zip(X, y) if lab == k], [k] * nspc[k]) for k in range(K)] if per_class else [(X, y)]

    def e(fn, **kw):
        return [fn(X=Xc, y=yc, n_samples_per_class=nspc, **kw) for Xc, yc in groups]

    tag = " (one E-step call per class)" if per_class else ""
    try:
        n_acc, f_acc = mach.initialize(X, y, K)
        for rep in range(passes):  # passes=2: training is continued on the same machine (V, U, D phases once more)
            again = " (second pass on the same machine)" if rep else ""
            traj = [marg_V(sc, np.asarray(mach.V))]
            for _ in range(iters):
                mach.m_step_v(e(mach.e_step_v, n_acc=n_acc, f_acc=f_acc))
                traj.append(marg_V(sc, np.asarray(mach.V)))
            bad = [j for j in range(1, len(traj)) if traj[j] < traj[j - 1] - 1e-8 * (1 + abs(traj[j - 1]))]
            if bad or not np.all(np.isfinite(traj)):
                return {"sig": "V-phase-marginal-likelihood-decreases", "what": f"marginal likelihood along the V phase{tag}{again}: {traj}"}
            ys = np.asarray(mach.finalize_v(X=X, y=y, n_samples_per_class=nspc, n_acc=n_acc, f_acc=f_acc))
            V = np.asarray(mach.V)
            traj = [marg_U(sc, np.asarray(mach.U), V, ys)]
            for _ in range(iters):
                mach.m_step_u(e(mach.e_step_u, latent_y=ys))
                traj.append(marg_U(sc, np.asarray(mach.U), V, ys))
            bad = [j for j in range(1, len(traj)) if traj[j] < traj[j - 1] - 1e-8 * (1 + abs(traj[j - 1]))]
            if bad or not np.all(np.isfinite(traj)):
                return {"sig": "U-phase-marginal-likelihood-decreases", "what": f"marginal likelihood along the U phase{tag}{again}: {traj}"}
            xss = mach.finalize_u(X=X, y=y, n_samples_per_class=nspc, latent_y=ys)
            U = np.asarray(mach.U)
            traj = [marg_D(sc, np.asarray(mach.D), U, V, ys, xss)]
            for _ in range(iters):
                mach.m_step_d(e(mach.e_step_d, latent_x=xss, latent_y=ys, n_acc=n_acc, f_acc=f_acc))
                traj.append(marg_D(sc, np.asarray(mach.D), U, V, ys, xss))
            bad = [j for j in range(1, len(traj)) if traj[j] < traj[j - 1] - 1e-8 * (1 + abs(traj[j - 1]))]
            if bad or not np.all(np.isfinite(traj)):
                return {"sig": "D-phase-marginal-likelihood-decreases", "what": f"marginal likelihood along the D phase{tag}{again}: {traj}"}
        CD = sc["C"] * sc["D"]
        if np.asarray(mach.U).shape != (CD, sc["rU"]) or np.asarray(mach.V).shape != (CD, sc["rV"]) or np.asarray(mach.D).shape != (CD,):
            return {"sig": "subspace-shapes", "what": f"U {np.asarray(mach.U).shape} V {np.asarray(mach.V).shape} D {np.asarray(mach.D).shape}"}
    except Exception as e:  # noqa: BLE001
        return {"sig": "jfa-phase-step-raises", "what": repr(e)[:300]}
    return None


def search(ctx):
    fails, seen = [], set()
    for i in range(ctx.budget(12, 120)):
        sc = scenario(ctx, i, jfa=True)
        ctx.count("search:phases")
        ctx.count("search:counts:" + sc["counts"])
        ctx.case(["s", core.tolist(sc["U"]), core.tolist([[s["f"] for s in c] for c in sc["classes"]])], nontrivial=True)
        per_class = bool(i % 2)
        ctx.count("search:per-class-calls" if per_class else "search:single-call")
        passes = 2 if i % 3 == 2 else 1
        ctx.count(f"search:passes={passes}")
        f = oracle(sc, (2 if passes == 2 else 3) if ctx.tier == "quick" else 6, per_class, passes)
        if f and f["sig"] not in seen:
            seen.add(f["sig"])
            f["input"] = {**{k: sc[k] for k in ("C", "D", "rU", "rV", "jfa", "w", "m", "v", "U", "V", "Dd", "classes", "iters", "interleave", "int_subspaces", "int_counts", "layout") if k in sc}, "per_class": per_class, "passes": passes}
            fails.append(f)
    return fails


def replay(d):
    sc = d["input"]
    for k in ("w", "m", "v", "U", "V", "Dd"):
        sc[k] = np.asarray(sc[k], dtype=float)
    sc["U"] = sc["U"].reshape(sc["C"] * sc["D"], sc["rU"])
    sc["V"] = sc["V"].reshape(sc["C"] * sc["D"], sc["rV"])
    sc["classes"] = [[dict(n=np.asarray(s["n"], float), f=np.asarray(s["f"], float), t=s["t"]) for s in c] for c in sc["classes"]]
    sc["sts"] = sc["classes"][0]
    return oracle(sc, per_class=bool(sc.get("per_class", False)), passes=int(sc.get("passes", 1)))


THEOREMS = ["C09_shapes", "C09_D_phase_monotone", "C09_V_step_is_em", "C09_U_step_is_em", "C09_V_phase_monotone", "C09_U_phase_monotone"]
