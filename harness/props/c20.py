"""C20 — K-means assigns to the nearest centroid; cluster-derived GMM init is exact."""
import numpy as np

import core
import gen

THEOREMS = [
    "C20_dist",
    "C20_argmin_nearest",
    "C20_single_eq_batch",
    "C20_chunking_independent",
    "C20_weights",
    "C20_variances",
    "C20_gmm_init_exact",
]
CORR_OPS = ["kmeans_dist:transform_numpy", "kmeans_dist:transform_dask", "kmeans_dist:transform_single", "kmeans_dist:predict_numpy",
            "kmeans_dist:predict_dask", "kmeans_dist:predict_single", "kmeans_vw:numpy", "kmeans_vw:dask", "kmeans_vw:gmm_init"]
RULE = ("centroid sets x data sets (offsets 0, 1e3, 1e6 times the spread) x row chunkings; near-tie samples (relative margin < 1e-6) "
        "and scenarios with an empty cluster are discarded and counted; non-trivial = >= 2 clusters")
TRUSTED = ["large-offset cancellation is a float clause: checked on the implementation only (theorem C20_variances is over the reals and "
           "shows the accumulated form does not depend on the offset)"]
ASSUMPTIONS = ["ties excluded, as in the property"]


def scenario(ctx, i):
    r = ctx.rng
    K = int(r.integers(1, 4 if ctx.tier == "quick" else 6))
    D = int(r.integers(1, 4 if ctx.tier == "quick" else 6))
    N = int(r.integers(max(3 * K, 4), 30 if ctx.tier == "quick" else 100))
    spread = float(10.0 ** r.choice([-6, -4, -2, 0, 0, 1, 3]))  # the unit of the data is arbitrary: variances of 1e-12 or 1e6 are ordinary
    offset = spread * float(r.choice([0, 0, 1e3, 1e6]))
    centers = r.normal(0, 4, size=(K, D)) * spread
    if r.random() < 0.2:  # clusters far from each other relative to their spread (1e6 .. 1e8): each one has ordinary variances
        centers = centers * float(10.0 ** r.uniform(6, 8))
    lab = np.concatenate([np.arange(K), r.integers(0, K, N - K)])
    x = centers[lab] + r.normal(size=(N, D)) * spread + offset
    cent = centers + 0.2 * r.normal(size=(K, D)) * spread + offset
    x = gen.maybe_int(r, x, p=0.2, floats=False)  # integer-typed data arrays are legal input
    if K >= 2 and r.random() < 0.2:  # a centroid that attracts no sample (its weight is 0; the others are still the assigned fractions)
        cent[int(r.integers(0, K))] += 1e3 * spread
    return dict(K=K, D=D, x=x, x_dtype=str(x.dtype), cent=cent, sizes=gen.random_composition(r, N), spread=spread, offset=offset)


def km(cent):
    from bob.learn.em import KMeansMachine

    # every other call re-uses the previous machine object — already used for transform / predict with other centroids — and
    # gives it its new centroids the way users do (assignment to `centroids_` or to `means`): the property is about the current ones
    global _PREV
    _PREV["n"] += 1
    m = _PREV["m"] if (_PREV["m"] is not None and _PREV["n"] % 2 == 0) else KMeansMachine(len(cent))
    m.n_clusters = len(cent)
    if _PREV["n"] % 4 < 2:
        m.centroids_ = np.array(cent, dtype=float)
    else:
        m.means = np.array(cent, dtype=float)
    _PREV["m"] = m
    return m


_PREV = {"m": None, "n": 0}


def dask_of(sc):
    import dask.array as da

    return da.from_array(sc["x"], chunks=(tuple(sc["sizes"]), sc["x"].shape[1]))


def brute(x, cent):
    d = ((cent[:, None, :] - x[None, :, :]) ** 2).sum(-1)
    return d


def margins_ok(d):
    if d.shape[0] < 2:
        return np.ones(d.shape[1], dtype=bool)
    s = np.sort(d, axis=0)
    return s[1] - s[0] > 1e-6 * (1e-300 + s[1])


def correspondence(ctx):
    from bob.learn.em import GMMMachine, KMeansMachine

    bad = []
    n = ctx.budget(50, 500)
    scs = [scenario(ctx, i) for i in range(n)]
    outs = core.drive([{"op": "kmeans_dist", "K": sc["K"], "D": sc["D"], "cent": core.enc(sc["cent"]), "x": core.enc(sc["x"])} for sc in scs])
    vws = core.drive([{"op": "kmeans_vw", "K": sc["K"], "D": sc["D"], "cent": core.enc(sc["cent"]), "blocks": [core.enc(b) for b in gen.split(sc["x"], sc["sizes"])],
                       "floor": core.enc(np.full((sc["K"], sc["D"]), gen.EPS))} for sc in scs])
    for sc, o, vw in zip(scs, outs, vws):
        m = km(sc["cent"])
        x = sc["x"]
        md = core.dec(o["dist"])
        mdd = core.dec(o["dist_dask"])
        ml = np.array(o["labels"])
        keep = margins_ok(md)
        ctx.count("near-tie-samples-discarded", int(np.sum(~keep)))
        ctx.count(f"offset={sc['offset'] / sc['spread']:g}x")
        ctx.case([core.tolist(x), core.tolist(sc["cent"]), sc["sizes"]], nontrivial=sc["K"] >= 2,
                 sample={"K": sc["K"], "D": sc["D"], "rows": len(x), "offset": sc["offset"], "spread": sc["spread"], "labels_model": ml[:8]})
        inp = {k: sc[k] for k in ("K", "D", "x", "x_dtype", "cent", "sizes")}
        # distance tolerance relative to the largest distance in the problem (cdist and the direct form round differently)
        atol = 1e-9 * float(np.max(md)) if md.size else 0

        def dcmp(op, a, b):
            if isinstance(b, core.ImplError) or not core.close(a, np.asarray(b, dtype=float), 1e-8, atol):
                bad.append({"op": op, "input": inp, "model": a, "impl": repr(b) if isinstance(b, core.ImplError) else np.asarray(b)})

        dcmp("kmeans_dist:transform_numpy", md, core.impl(lambda: np.asarray(m.transform(x))))
        dcmp("kmeans_dist:transform_dask", mdd, core.impl(lambda: np.asarray(m.transform(dask_of(sc)).compute())))
        dcmp("kmeans_dist:transform_single", md[:, :1], core.impl(lambda: np.asarray(m.transform(x[0]))))

        def lcmp(op, a, b, mask):
            if isinstance(b, core.ImplError) or np.asarray(b).shape != a.shape or not np.array_equal(np.asarray(b)[mask], a[mask]):
                bad.append({"op": op, "input": inp, "model": a, "impl": repr(b) if isinstance(b, core.ImplError) else np.asarray(b)})

        lcmp("kmeans_dist:predict_numpy", ml, core.impl(lambda: np.asarray(m.predict(x))), keep)
        lcmp("kmeans_dist:predict_dask", ml, core.impl(lambda: np.asarray(m.predict(dask_of(sc)).compute())), keep)
        lcmp("kmeans_dist:predict_single", ml[:1], core.impl(lambda: np.asarray(m.predict(x[0])).reshape(-1)), keep[:1])
        # variances and weights
        counts = np.bincount(ml, minlength=sc["K"])
        if not np.all(keep):
            ctx.count("vw-discarded:tie")
            continue
        full = counts > 0
        ctx.count("vw:with-empty-cluster" if not np.all(full) else "vw:all-clusters-populated")
        mv, mw = core.dec(vw["var"]), core.dec(vw["w"])
        # rounding error of the variances is relative to the squared deviations from the assigned centroid (integer-valued data
        # can have deviations far above the nominal spread, and exact variances of 0)
        vtol = 1e-7 * sc["spread"] ** 2 + 1e-12 * float(np.max((np.asarray(x, dtype=float) - np.asarray(sc["cent"], dtype=float)[ml]) ** 2))
        for op, xin in (("kmeans_vw:numpy", x), ("kmeans_vw:dask", dask_of(sc))):
            r = core.impl(lambda: m.get_variances_and_weights_for_each_cluster(xin))
            # an empty cluster has no variance to speak of: its row is not compared; every weight is
            if isinstance(r, core.ImplError) or not (core.close(mv[full], np.asarray(r[0], dtype=float)[full], 1e-7, vtol) and core.close(mw, np.asarray(r[1], dtype=float), 1e-12, 0)):
                bad.append({"op": op, "input": inp, "model": {"var": mv, "w": mw}, "impl": repr(r) if isinstance(r, core.ImplError) else [np.asarray(r[0]), np.asarray(r[1])]})
    # GMM initialised from a real k-means run: starts from exactly the k-means centroids / weights / clamped variances
    lines, meta = [], []
    for i in range(ctx.budget(8, 60)):
        sc = scenario(ctx, i)
        sc["offset"] = 0.0
        floor = float(sc["spread"] ** 2 * 10 ** ctx.rng.uniform(-3, 0.5))
        kmt = KMeansMachine(sc["K"], init_method=np.array(sc["cent"]), max_iter=int(ctx.rng.integers(1, 4)), convergence_threshold=None)
        g = GMMMachine(sc["K"], k_means_trainer=kmt, max_fitting_steps=0, convergence_threshold=None, mean_var_update_threshold=floor)
        r = core.impl(lambda: g.fit(sc["x"]))
        if isinstance(r, core.ImplError):
            bad.append({"op": "kmeans_vw:gmm_init", "input": sc, "impl": repr(r)})
            continue
        c = np.array(kmt.centroids_, dtype=float)
        lines.append({"op": "kmeans_vw", "K": sc["K"], "D": sc["D"], "cent": core.enc(c), "blocks": [core.enc(sc["x"])], "floor": core.enc(np.full((sc["K"], sc["D"]), floor))})
        meta.append((sc, floor, c, g))
    for (sc, floor, c, g), o in zip(meta, core.drive(lines)):
        lab = np.argmin(brute(sc["x"], c), axis=0)
        if len(set(lab.tolist())) < sc["K"] or not np.all(margins_ok(brute(sc["x"], c))):
            ctx.count("vw-discarded:empty-cluster-or-tie")
            continue
        ctx.count("gmm_init")
        ctx.case(["gi", core.tolist(sc["x"]), core.tolist(c), floor], nontrivial=sc["K"] >= 2)
        ok = np.array_equal(np.asarray(g.means), c) and core.close(core.dec(o["g_w"]), np.asarray(g.weights), 1e-12, 0) \
            and core.close(core.dec(o["g_v"]), np.asarray(g.variances), 1e-7, 1e-7 * sc["spread"] ** 2 + 1e-12 * float(np.max((np.asarray(sc["x"], dtype=float) - c[lab]) ** 2)))
        if not ok:
            bad.append({"op": "kmeans_vw:gmm_init", "input": {**{k: sc[k] for k in ("K", "D", "x", "cent")}, "floor": floor, "kmeans_centroids": c},
                        "model": {"w": core.dec(o["g_w"]), "v": core.dec(o["g_v"])}, "impl": {"w": np.asarray(g.weights), "m": np.asarray(g.means), "v": np.asarray(g.variances)}})
    return bad


def oracle(sc):
    """brute-force distances / nearest labels / assigned fractions / biased variances (tolerance relative to the spread)"""
    xin_ = np.asarray(sc["x"]).astype(sc.get("x_dtype", "float64"))  # the array as the implementation gets it
    x = xin_.astype(float)
    cent = np.asarray(sc["cent"], dtype=float)
    sc = dict(sc, x=xin_, cent=cent)
    m = km(cent)
    if sc.get("fitted_iters"):
        # a machine that was *trained* (a few iterations, not to convergence) and is then asked about its training data: what counts
        # are its current centroids
        from bob.learn.em import KMeansMachine

        m = KMeansMachine(len(cent), init_method=np.array(cent, dtype=float), max_iter=int(sc["fitted_iters"]), convergence_threshold=None)
        r_ = core.impl(lambda: m.fit(xin_))
        if isinstance(r_, core.ImplError) or not np.all(np.isfinite(np.asarray(m.centroids_, dtype=float))):
            return None
        cent = np.asarray(m.centroids_, dtype=float)
        sc = dict(sc, cent=cent)
    ref = brute(x, cent)
    keep = margins_ok(ref)
    d = core.impl(lambda: np.asarray(m.transform(xin_)))
    if isinstance(d, core.ImplError) or d.shape != ref.shape:
        return {"sig": "transform-shape-or-raise", "what": repr(d)}
    if np.any(d < 0) or not core.close(d, ref, 1e-8, 1e-9 * float(ref.max())):
        return {"sig": "distances-not-squared-euclidean", "what": f"max deviation {np.max(np.abs(d - ref))}"}
    for name, f in (("dask", lambda: np.asarray(m.transform(dask_of(sc)).compute())), ("single", lambda: np.hstack([np.asarray(m.transform(row)).reshape(len(cent), 1) for row in xin_]))):
        dd = core.impl(f)
        if isinstance(dd, core.ImplError) or dd.shape != ref.shape:
            return {"sig": "transform-shape-or-raise", "what": f"{name}: {dd!r}"}
        if np.any(dd < 0) or not core.close(dd, ref, 1e-8, 1e-9 * float(ref.max())):
            return {"sig": "distances-not-squared-euclidean", "what": f"{name}: max deviation {np.max(np.abs(dd - ref))} (largest distance {float(ref.max())})"}
    lab_ref = np.argmin(ref, axis=0)
    for name, f in (("numpy", lambda: np.asarray(m.predict(xin_))), ("dask", lambda: np.asarray(m.predict(dask_of(sc)).compute())),
                    ("single", lambda: np.array([int(np.asarray(m.predict(row)).reshape(-1)[0]) for row in xin_]))):
        lab = core.impl(f)
        if isinstance(lab, core.ImplError) or lab.shape != lab_ref.shape or not np.array_equal(lab[keep], lab_ref[keep]):
            return {"sig": "label-not-nearest-centroid", "what": f"{name}: {lab!r} vs {lab_ref.tolist()}"}
    if not np.all(keep):
        return None
    counts = np.bincount(lab_ref, minlength=len(cent))
    full = counts > 0
    vref = np.array([x[lab_ref == k].var(axis=0) if full[k] else np.zeros(x.shape[1]) for k in range(len(cent))])
    spread2 = float(np.max(vref)) if np.max(vref) > 0 else 1.0
    # the variance is computed from deviations to the machine's centroid: its rounding error is relative to the largest such
    # squared deviation (which exceeds the cluster variance when the centroid is not the cluster mean, e.g. repeated points)
    dev2 = float(np.max((x - np.asarray(cent, dtype=float)[lab_ref]) ** 2))
    for name, xin in (("numpy", xin_), ("dask", dask_of(sc))):
        r = core.impl(lambda: m.get_variances_and_weights_for_each_cluster(xin))
        if isinstance(r, core.ImplError):
            return {"sig": "variances-and-weights-raise", "what": repr(r)}
        v, w = np.asarray(r[0], dtype=float), np.asarray(r[1], dtype=float)
        if not core.close(w, counts / counts.sum(), 1e-12, 0) or abs(w.sum() - 1) > 1e-12:
            return {"sig": "weights-not-assigned-fractions", "what": f"{name}: {w.tolist()} vs {(counts / counts.sum()).tolist()}"}
        v, vref_ = v[full], vref[full]
        if np.any(v < -1e-9 * spread2 - 1e-12 * dev2) or not np.all(np.abs(v - vref_) <= 1e-6 * spread2 + 1e-12 * dev2):
            return {"sig": "variances-not-cluster-variances", "what": f"{name}: offset {sc.get('offset')} max |var - biased sample variance| = {np.max(np.abs(v - vref_))} "
                    f"(largest cluster variance {spread2}); min var {v.min()}"}
    return None


def search(ctx):
    fails, seen = [], set()
    for i in range(ctx.budget(40, 400)):
        sc = scenario(ctx, i)
        if i % 4 == 3:  # large offsets where cancellation matters
            shift = sc["spread"] * float(10 ** ctx.rng.uniform(6, 8))
            sc["x"] = sc["x"] - sc["offset"] + shift
            sc["cent"] = sc["cent"] - sc["offset"] + shift
            sc["offset"] = shift
            sc["x_dtype"] = str(np.asarray(sc["x"]).dtype)
        ctx.count(f"search:offset~1e{int(np.log10(max(sc['offset'] / sc['spread'], 1)))}")
        ctx.case(["s", core.tolist(sc["x"]), core.tolist(sc["cent"])], nontrivial=True)
        if i % 5 == 2:
            sc["fitted_iters"] = int(ctx.rng.integers(1, 3))
            xs_ = np.asarray(sc["x"], dtype=float)
            sc["cent"] = xs_[ctx.rng.choice(len(xs_), sc["K"], replace=False)] + 1e-3 * sc["spread"]  # a poor start: assignments still move
        f = oracle(sc)
        if f and f["sig"] not in seen:
            seen.add(f["sig"])
            f["input"] = {k: sc[k] for k in ("K", "D", "x", "cent", "sizes", "offset", "spread", "fitted_iters") if k in sc}
            fails.append(f)
    # one data set of several thousand rows (in-memory arrays of that size are ordinary; internal batching must not lose rows)
    big = big_scenario(ctx.seed + 5)
    ctx.count("search:several-thousand-rows")
    ctx.case(["big", ctx.seed], nontrivial=True)
    f = oracle(big)
    if f and f["sig"] not in seen:
        f["input"] = {"big_seed": ctx.seed + 5}
        fails.append(f)
    # a GMM initialised by a k-means trainer starts from exactly that trainer's centroids (data in every legal dtype)
    from bob.learn.em import GMMMachine, KMeansMachine
    for i in range(ctx.budget(10, 60)):
        sc = scenario(ctx, i)
        if i % 2 and np.asarray(sc["x"]).dtype.kind == "f":
            sc["x"] = np.rint(np.asarray(sc["x"]) / sc["spread"] * 3).astype(["int64", "int32", "int16"][i % 3])
            sc["cent"] = np.asarray(sc["cent"]) / sc["spread"] * 3
        steps = int(ctx.rng.integers(1, 4))
        kmt = KMeansMachine(sc["K"], init_method=np.array(sc["cent"], dtype=float), max_iter=steps, convergence_threshold=None)
        g = GMMMachine(sc["K"], k_means_trainer=kmt, max_fitting_steps=0, convergence_threshold=None)
        ref = KMeansMachine(sc["K"], init_method=np.array(sc["cent"], dtype=float), max_iter=steps, convergence_threshold=None)
        r = core.impl(lambda: (g.fit(sc["x"]), ref.fit(sc["x"])))
        ctx.count("search:gmm-from-kmeans")
        ctx.case(["gi-s", core.tolist(sc["x"]), steps], nontrivial=True)
        if isinstance(r, core.ImplError) or not np.all(np.isfinite(np.asarray(ref.centroids_, float))):
            continue
        vw = core.impl(lambda: ref.get_variances_and_weights_for_each_cluster(sc["x"]))
        if not isinstance(vw, core.ImplError) and not np.array_equal(np.asarray(g.weights, dtype=float), np.asarray(vw[1], dtype=float)) and "gmm-init-not-kmeans-weights" not in seen:
            # ... and from exactly its cluster weights (a centroid that attracted nothing has weight 0; they sum to one)
            seen.add("gmm-init-not-kmeans-weights")
            fails.append({"sig": "gmm-init-not-kmeans-weights", "what": f"{steps} k-means iteration(s): GMM weights {np.asarray(g.weights).tolist()} vs k-means cluster weights {np.asarray(vw[1]).tolist()}",
                          "input": {"gmm_init": True, "K": sc["K"], "x": sc["x"], "x_dtype": str(np.asarray(sc["x"]).dtype), "cent": sc["cent"], "steps": steps}})
        if not np.array_equal(np.asarray(g.means, dtype=float), np.asarray(ref.centroids_, dtype=float)) and "gmm-init-not-kmeans-centroids" not in seen:
            seen.add("gmm-init-not-kmeans-centroids")
            fails.append({"sig": "gmm-init-not-kmeans-centroids", "what": f"{np.asarray(sc['x']).dtype} data, {steps} k-means iteration(s): GMM means {np.asarray(g.means).tolist()} vs k-means centroids {np.asarray(ref.centroids_).tolist()}",
                          "input": {"gmm_init": True, "K": sc["K"], "x": sc["x"], "x_dtype": str(np.asarray(sc["x"]).dtype), "cent": sc["cent"], "steps": steps}})
    # a machine with several hundred centroids (a large codebook / UBM initialisation) asked about a few rows
    many = many_scenario(ctx.seed + 9)
    ctx.count("search:several-hundred-centroids")
    ctx.case(["many", ctx.seed], nontrivial=True)
    f = oracle(many)
    if f and f["sig"] not in seen:
        f["input"] = {"many_seed": ctx.seed + 9}
        fails.append(f)
    return fails


def many_scenario(seed):
    r = np.random.default_rng(seed)
    K, D = int(r.integers(257, 700)), 2
    N = int(r.integers(10, 120))
    centers = r.normal(0, 40, size=(K, D))
    lab = r.integers(0, K, N)
    x = centers[lab] + 0.01 * r.normal(size=(N, D))
    return dict(K=K, D=D, x=x, x_dtype=str(x.dtype), cent=centers, sizes=gen.random_composition(r, N), spread=0.01, offset=0.0)


def big_scenario(seed):
    r = np.random.default_rng(seed)
    K, D = 3, 2
    N = int(r.integers(4097, 9000))
    centers = r.normal(0, 4, size=(K, D))
    lab = np.sort(r.integers(0, K, N))  # ordered data: the tail differs from the head
    x = centers[lab] + r.normal(size=(N, D))
    return dict(K=K, D=D, x=x, x_dtype=str(x.dtype), cent=centers + 0.2 * r.normal(size=(K, D)), sizes=(N // 3, N // 3, N - 2 * (N // 3)), spread=1.0, offset=0.0)


def replay(d):
    if d["input"].get("gmm_init"):
        from bob.learn.em import GMMMachine, KMeansMachine
        i = d["input"]
        x = np.asarray(i["x"]).astype(i["x_dtype"])
        kmt = KMeansMachine(i["K"], init_method=np.array(i["cent"], dtype=float), max_iter=i["steps"], convergence_threshold=None)
        g = GMMMachine(i["K"], k_means_trainer=kmt, max_fitting_steps=0, convergence_threshold=None).fit(x)
        ref = KMeansMachine(i["K"], init_method=np.array(i["cent"], dtype=float), max_iter=i["steps"], convergence_threshold=None).fit(x)
        if not np.array_equal(np.asarray(g.means, dtype=float), np.asarray(ref.centroids_, dtype=float)):
            return {"sig": "gmm-init-not-kmeans-centroids", "what": f"{np.asarray(g.means).tolist()} vs {np.asarray(ref.centroids_).tolist()}"}
        vw = ref.get_variances_and_weights_for_each_cluster(x)
        if not np.array_equal(np.asarray(g.weights, dtype=float), np.asarray(vw[1], dtype=float)):
            return {"sig": "gmm-init-not-kmeans-weights", "what": f"{np.asarray(g.weights).tolist()} vs {np.asarray(vw[1]).tolist()}"}
        return None
    if "many_seed" in d["input"]:
        return oracle(many_scenario(d["input"]["many_seed"]))
    if "big_seed" in d["input"]:
        return oracle(big_scenario(d["input"]["big_seed"]))
    return oracle(d["input"])
