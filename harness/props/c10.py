"""C10 — I-vectors are posterior means; i-vector EM never decreases the likelihood."""
import numpy as np

import core
import gen

THEOREMS = []  # set at the bottom
CORR_OPS = ["iv:project", "iv:project_linear", "iv:e_step", "iv:m_step", "iv:fit"]
RULE = ("UBM x T x covariances x training statistics (fractional counts, components with zero count in some or all statistics, "
        "second-order statistics small enough to drive sigma to its floor) x i-vector dimension 1-3 x update_sigma on/off x 1-3 iterations x "
        "partitionings; distinct = hash of inputs; non-trivial = >= 2 statistics and >= 2 supervector entries")
ASSUMPTIONS = ["np.linalg.inv / solve are parameters (contract: exact solve)", "the initial T of fit() comes from NumPy's global generator: the "
               "harness seeds it and hands the same T0 to the model"]


def scenario(ctx, i):
    r = ctx.rng
    C, D, R = int(r.integers(1, 4)), int(r.integers(1, 4)), int(r.integers(1, 4))
    w, m, v, _ = gen.gmm_params(r, C, D, scales=np.ones(D))
    ns = int(r.integers(2, 7))
    kind = ["plain", "zero_in_some", "zero_in_all", "floor"][i % 4]
    sts = []
    for _ in range(ns):
        t = int(r.integers(3, 30))
        n = r.dirichlet(np.ones(C)) * t * r.uniform(0.5, 1)
        mean = m + r.normal(size=(C, D)) * np.sqrt(v) * (1e-3 if kind == "floor" and i % 8 == 3 else 1.0)
        var = v * r.uniform(0.3, 1.5, (C, D)) * (1e-6 if kind == "floor" else 1.0)
        sts.append(dict(n=n, f=mean * n[:, None], s=(var + mean**2) * n[:, None], t=t))
    if r.random() < 0.3:  # equal-length segments / hard counts: consecutive statistics share their count vector
        for s_ in sts[1:]:
            if r.random() < 0.7:
                mean_ = s_["f"] / np.maximum(s_["n"], 1e-300)[:, None]
                var_ = s_["s"] / np.maximum(s_["n"], 1e-300)[:, None] - mean_**2
                s_["n"] = sts[0]["n"].copy()
                s_["f"] = mean_ * s_["n"][:, None]
                s_["s"] = (var_ + mean_**2) * s_["n"][:, None]
    if r.random() < 0.25:  # statistics filled in by hand: the frame counter stays at its default 0, counts and sums are set
        sts[int(r.integers(0, len(sts)))]["t"] = 0
    if kind == "zero_in_some" and C > 1:
        sts[0]["n"][0] = 0.0
        sts[0]["f"][0] = 0.0
        sts[0]["s"][0] = 0.0
    if kind == "zero_in_all" and C > 1:
        for s in sts:
            s["n"][0] = 0.0
            s["f"][0] = 0.0
            s["s"][0] = 0.0
    T = r.normal(size=(C, D, R))
    sigma = v * r.uniform(0.5, 2, (C, D))
    floor = float(10 ** r.uniform(-10, -2)) if kind != "floor" else 1e-3
    if kind == "zero_in_all" and C > 1 and r.random() < 0.6:
        sigma[0] = floor * r.uniform(0.05, 0.9, D)  # a never-observed component that starts below the floor (fit() starts from the unfloored UBM variances)
    int_params = bool(kind not in ("floor", "zero_in_all") and r.random() < 0.2)
    if int_params:  # integer-valued T and sigma, handed over as integer-typed arrays (a configuration typed in by hand)
        T = np.rint(T * 2.0)
        T[0] = np.where(T[0] == 0, 1.0, T[0])
        sigma = np.rint(sigma * 2.0) + 1.0
    parts = gen.random_composition(r, ns)
    return dict(int_params=int_params, route=["fresh", "fresh", "reused", "reused_sigma", "reused_T", "pickled", "deepcopied"][int(r.integers(0, 7))], kind=kind, C=C, D=D, R=R, w=w, m=m, v=v, T=T, sigma=sigma, sts=sts, parts=parts, update_sigma=True if kind == "floor" else bool((i // 4 + i) % 2 == 0),
                floor=floor, iters=int(r.integers(1, 4)), seed=int(r.integers(0, 10**6)))


def mk_stats(sc, s):
    return gen.mk_stats(sc["C"], sc["D"], s["n"], s["f"], s["s"], s["t"])


def mk_machine(sc, iters=1):
    from bob.learn.em import IVectorMachine

    ubm = gen.mk_gmm(sc["w"], sc["m"], sc["v"])
    route = sc.get("route", "fresh")
    # a machine that is used first is also configured late: it is created (and used) with another floor, the configured one is set
    # afterwards through the public attribute / set_params - the floor that counts is the one in force when a step runs
    late_floor = route == "reused"
    iv = IVectorMachine(ubm, dim_t=sc["R"], max_iterations=iters, update_sigma=sc["update_sigma"], variance_floor=sc["floor"] * 1e-3 if late_floor else sc["floor"])
    iv.dim_c, iv.dim_d = sc["C"], sc["D"]
    if route != "fresh":
        # the machine is used with other parameters first (project, possibly one E/M step), then re-parameterised by
        # assignment — all of T and sigma, or only one of them (the other keeps its array object): the property is about
        # the machine's current T and sigma
        from bob.learn.em import ivector as ivmod

        rr = np.random.default_rng(4321)
        T0 = np.array(sc["T"], dtype=float)
        S0 = np.array(sc["sigma"], dtype=float)
        iv.T = T0 + rr.normal(size=T0.shape) if route in ("reused", "reused_T") else T0
        iv.sigma = S0 * rr.uniform(0.5, 2.0, size=S0.shape) if route in ("reused", "reused_sigma") else S0
        st = gen.mk_stats(sc["C"], sc["D"], rr.uniform(0.5, 4, sc["C"]), rr.normal(size=(sc["C"], sc["D"])), rr.uniform(1, 9, (sc["C"], sc["D"])), 9)
        core.impl(lambda: iv.project(st))
        if route == "reused":
            core.impl(lambda: ivmod.m_step(iv, ivmod.e_step(iv, [st, st])))
            core.impl(lambda: iv.project(st))
            if sc.get("seed", 0) % 2:
                iv.set_params(variance_floor=sc["floor"])
            else:
                iv.variance_floor = sc["floor"]
        if route == "reused_sigma":
            iv.sigma = S0
            return iv
        if route == "reused_T":
            iv.T = T0
            return iv
    iv.T = np.array(sc["T"], dtype=float)
    iv.sigma = np.array(sc["sigma"], dtype=float)
    if sc.get("int_params"):
        iv.T = np.array(sc["T"]).astype(np.int64)
        iv.sigma = np.array(sc["sigma"]).astype(np.int64)
    if route in ("pickled", "deepcopied"):
        # the configured machine went through a pickle round trip / a deep copy (what shipping it to a worker does): same machine
        import copy
        import pickle

        iv = pickle.loads(pickle.dumps(iv)) if route == "pickled" else copy.deepcopy(iv)
    return iv


def line(sc, T=None):
    parts = gen.split(sc["sts"], sc["parts"])
    return {"op": "iv", "C": sc["C"], "D": sc["D"], "R": sc["R"], "m": core.enc(sc["m"]), "T": core.enc(sc["T"] if T is None else T), "sigma": core.enc(sc["sigma"]),
            "parts": [[{"n": core.enc(s["n"]), "f": core.enc(s["f"]), "s": core.enc(s["s"])} for s in p] for p in parts],
            "update_sigma": sc["update_sigma"], "floor": core.bits(sc["floor"]), "iters": sc["iters"]}


def correspondence(ctx):
    from bob.learn.em import ivector as ivmod

    bad = []
    scs = [scenario(ctx, i) for i in range(ctx.budget(32, 320))]
    # T0 of fit(): the harness seeds the global generator and gives the model the same draw; sigma starts from the UBM variances
    fit_in = []
    for sc in scs:
        np.random.seed(sc["seed"])
        T0 = np.random.normal(loc=0.0, scale=1.0, size=(sc["C"], sc["D"], sc["R"]))
        fit_in.append(dict(sc, T=T0, sigma=np.maximum(sc["v"], gen.EPS)))
    outs = core.drive([line(sc) for sc in scs])
    fouts = core.drive([line(sc) for sc in fit_in])
    for sc, o, fsc, fo in zip(scs, outs, fit_in, fouts):
        C, D, R = sc["C"], sc["D"], sc["R"]
        ctx.count("kind:" + sc["kind"])
        ctx.count("update_sigma" if sc["update_sigma"] else "fixed_sigma")
        ctx.case([core.tolist(sc["T"]), core.tolist([s["f"] for s in sc["sts"]]), sc["update_sigma"], sc["floor"]], nontrivial=len(sc["sts"]) >= 2 and C * D >= 2,
                 sample={"kind": sc["kind"], "C": C, "D": D, "R": R, "statistics": len(sc["sts"]), "partitions": sc["parts"], "update_sigma": sc["update_sigma"]})
        inp = {k: sc[k] for k in ("kind", "route", "int_params", "C", "D", "R", "w", "m", "v", "T", "sigma", "sts", "parts", "update_sigma", "floor", "iters", "seed")}
        iv = mk_machine(sc)
        sts = [mk_stats(sc, s) for s in sc["sts"]]
        pr = core.impl(lambda: np.array([iv.project(s) for s in sts], dtype=float))
        mp = np.array([core.dec(p) for p in o["proj"]]).reshape(len(sts), R)
        if isinstance(pr, core.ImplError) or not core.close(mp, pr, 1e-7, 1e-9):
            bad.append({"op": "iv:project", "input": inp, "model": mp, "impl": repr(pr) if isinstance(pr, core.ImplError) else pr})
        # C10_centred_stats_zero / C10_project_linear_in_centred_f on the code: statistics sitting at the UBM means give the zero vector, and
        # for fixed counts the i-vector is linear in the centred first-order statistics
        def lin():
            um = np.asarray(iv.ubm.means, dtype=float)
            s1, s2 = sc["sts"][0], sc["sts"][-1]
            n = np.asarray(s1["n"], dtype=float)
            g1 = np.asarray(s1["f"], dtype=float) - n[:, None] * um
            g2 = (np.asarray(s2["f"], dtype=float) - np.asarray(s2["n"], dtype=float)[:, None] * um)[::-1] + 0.25
            a, b = 0.7, -1.3
            pj = lambda g: np.asarray(iv.project(mk_stats(sc, dict(s1, f=n[:, None] * um + g))), dtype=float)
            return pj(np.zeros_like(g1)), pj(g1), pj(g2), pj(a * g1 + b * g2), a, b
        lr = core.impl(lin)
        if isinstance(lr, core.ImplError):
            bad.append({"op": "iv:project_linear", "input": inp, "impl": repr(lr)})
        else:
            p0, p1, p2, p3, a, b = lr
            tol = 1e-7 * (1 + float(np.max(np.abs(p1))) + float(np.max(np.abs(p2))))
            if not (np.all(np.abs(p0) <= tol) and np.all(np.abs(p3 - (a * p1 + b * p2)) <= tol)):
                bad.append({"op": "iv:project_linear", "input": inp, "impl": {"centred": p0, "p1": p1, "p2": p2, "combined": p3, "a": a, "b": b}})
        es = core.impl(lambda: ivmod.e_step(iv, sts))
        if isinstance(es, core.ImplError):
            bad.append({"op": "iv:e_step", "input": inp, "impl": repr(es)})
            continue
        ms = o["stats"]
        def sc_(a): return 1e-9 * (1 + float(np.max(np.abs(a))))
        ok = core.close(core.dec(ms["nsw2"]).reshape(C, R, R), es.nij_sigma_wij2, 1e-7, sc_(es.nij_sigma_wij2)) and core.close(core.dec(ms["fsw"]).reshape(C, D, R), es.fnorm_sigma_wij, 1e-7, sc_(es.fnorm_sigma_wij)) \
            and core.close(core.dec(ms["snorm"]).reshape(C, D), es.snormij, 1e-7, sc_(es.snormij)) and core.close(core.dec(ms["nij"]).reshape(C), es.nij, 1e-9, 1e-12)
        if not ok:
            bad.append({"op": "iv:e_step", "input": inp, "model": ms, "impl": {"nsw2": es.nij_sigma_wij2, "fsw": es.fnorm_sigma_wij, "snorm": es.snormij, "nij": es.nij}})
            continue
        r = core.impl(lambda: ivmod.m_step(iv, es))
        mT, mS = core.dec(o["T1"]).reshape(C, D, R), core.dec(o["sigma1"]).reshape(C, D)
        if isinstance(r, core.ImplError) or not (core.close(mT, np.asarray(iv.T, float), 1e-6, sc_(mT) * 10) and core.close(mS, np.asarray(iv.sigma, float), 1e-6, sc_(mS) * 10)):
            bad.append({"op": "iv:m_step", "input": inp, "model": {"T": mT, "sigma": mS}, "impl": repr(r) if isinstance(r, core.ImplError) else {"T": np.asarray(iv.T), "sigma": np.asarray(iv.sigma)}})
        # whole fit from the seeded T0
        iv2 = mk_machine(sc, iters=sc["iters"])
        np.random.seed(sc["seed"])
        r = core.impl(lambda: iv2.fit(sts))
        kT, kS = core.dec(fo["Tk"]).reshape(C, D, R), core.dec(fo["sigmak"]).reshape(C, D)
        if isinstance(r, core.ImplError) or not (core.close(kT, np.asarray(iv2.T, float), 1e-5, sc_(kT) * 100) and core.close(kS, np.asarray(iv2.sigma, float), 1e-5, sc_(kS) * 100)):
            bad.append({"op": "iv:fit", "input": inp, "model": {"T": kT, "sigma": kS}, "impl": repr(r) if isinstance(r, core.ImplError) else {"T": np.asarray(iv2.T), "sigma": np.asarray(iv2.sigma)}})
    return bad


def marginal(sc, T, sigma):
    """full marginal log-likelihood of the training statistics (up to constants), including the sigma terms"""
    m = np.asarray(sc["m"])
    tot = 0.0
    C, D, R = T.shape
    Tm = T.reshape(C * D, R)
    sv = sigma.reshape(-1)
    Ntot = np.zeros(C)
    Stot = np.zeros((C, D))
    for s in sc["sts"]:
        nv = np.repeat(s["n"], D)
        g = (np.asarray(s["f"]) - s["n"][:, None] * m).reshape(-1)
        P = np.eye(R) + Tm.T @ (Tm * (nv / sv)[:, None])
        b = Tm.T @ (g / sv)
        tot += 0.5 * float(b @ np.linalg.solve(P, b)) - 0.5 * float(np.linalg.slogdet(P)[1])
        Ntot += s["n"]
        Stot += np.asarray(s["s"]) - 2 * np.asarray(s["f"]) * m + s["n"][:, None] * m * m
    tot += float(np.sum(-0.5 * Ntot[:, None] * np.log(sigma) - 0.5 * Stot / sigma))
    return tot


def oracle(sc, iters=4):
    from bob.learn.em import ivector as ivmod

    iv = mk_machine(sc)
    sts = [mk_stats(sc, s) for s in sc["sts"]]
    m = np.asarray(sc["m"])
    # projection = posterior mean
    for s, st in zip(sc["sts"], sts):
        w = core.impl(lambda: np.asarray(iv.project(st), float))
        if isinstance(w, core.ImplError):
            return {"sig": "project-raises", "what": repr(w)}
        Tm, sv = np.asarray(sc["T"]).reshape(-1, sc["R"]), np.asarray(sc["sigma"]).reshape(-1)
        nv = np.repeat(s["n"], sc["D"])
        P = np.eye(sc["R"]) + Tm.T @ (Tm * (nv / sv)[:, None])
        ref = np.linalg.solve(P, Tm.T @ ((np.asarray(s["f"]) - s["n"][:, None] * m).reshape(-1) / sv))
        if not core.close(w, ref, 1e-8, 1e-10):
            return {"sig": "ivector-is-not-posterior-mean", "what": f"{w.tolist()} vs {ref.tolist()}"}
    zero = gen.mk_stats(sc["C"], sc["D"], np.zeros(sc["C"]), np.zeros((sc["C"], sc["D"])), np.zeros((sc["C"], sc["D"])), 0)
    w0 = core.impl(lambda: np.asarray(iv.project(zero), float))
    if isinstance(w0, core.ImplError) or np.any(w0 != 0):
        return {"sig": "zero-statistics-do-not-give-zero-ivector", "what": repr(w0)}
    # EM trajectory
    traj = []
    seen_all = np.sum([s["n"] for s in sc["sts"]], axis=0) > 0
    for k in range(iters):
        if not (np.all(np.isfinite(iv.T)) and np.all(np.isfinite(iv.sigma))):
            return {"sig": "non-finite-ivector-parameters", "what": f"after {k} iteration(s): sigma {np.asarray(iv.sigma).tolist()}", "iteration": k}
        if sc["update_sigma"] and np.any(np.asarray(iv.sigma) < sc["floor"]) and k > 0:  # the floor is a promise about *updated* covariances
            return {"sig": "sigma-below-floor", "what": f"iteration {k}: {np.asarray(iv.sigma).tolist()} floor {sc['floor']}"}
        if np.all(np.asarray(iv.sigma) >= sc["floor"]):
            traj.append(marginal(sc, np.asarray(iv.T, float), np.asarray(iv.sigma, float)))
        else:
            traj.append(None)
        # the statistics reach the E-step as any iterable: a list, a tuple, or a one-shot generator (what a partition of a Dask bag
        # built with map_partitions(lambda part: (acc_stats(f) for f in part)) is)
        data = [lambda: sts, lambda: (s_ for s_ in sts), lambda: tuple(sts)][(k + len(sts)) % 3]()
        r = core.impl(lambda: ivmod.m_step(iv, ivmod.e_step(iv, data)))
        if isinstance(r, core.ImplError):
            return {"sig": "ivector-step-raises", "what": repr(r)}
    if not (np.all(np.isfinite(iv.T)) and np.all(np.isfinite(iv.sigma))):
        return {"sig": "non-finite-ivector-parameters", "what": f"after {iters} iteration(s): sigma {np.asarray(iv.sigma).tolist()}", "iteration": iters}
    if sc["update_sigma"] and np.any(np.asarray(iv.sigma) < sc["floor"]):
        return {"sig": "sigma-below-floor", "what": f"iteration {iters}: {np.asarray(iv.sigma).tolist()} floor {sc['floor']}"}
    if np.all(seen_all):
        vals = [t for t in traj if t is not None]
        for a, b in zip(vals, vals[1:]):
            if b < a - 1e-7 * (1 + abs(a)):
                return {"sig": "ivector-em-decreases-likelihood", "what": f"update_sigma={sc['update_sigma']}: marginal likelihood along EM: {vals}"}
    return None


def validity_oracle(ctx, i):
    """used by C13: i-vector training on statistics with a component that is never observed"""
    sc = scenario(ctx, 2 + 4 * (i % 3))
    sc["update_sigma"] = True
    f = oracle(sc, 3)
    if f and f["sig"] in ("non-finite-ivector-parameters", "sigma-below-floor", "ivector-step-raises"):
        f["input"] = {**{k: sc[k] for k in ("kind", "route", "int_params", "C", "D", "R", "w", "m", "v", "T", "sigma", "sts", "parts", "update_sigma", "floor", "iters", "seed")}, "trainer": "ivector"}
        return f
    return None


def fix(sc):
    for k in ("w", "m", "v", "T", "sigma"):
        sc[k] = np.asarray(sc[k], dtype=float)
    sc["sts"] = [dict(n=np.asarray(s["n"], float), f=np.asarray(s["f"], float), s=np.asarray(s["s"], float), t=s["t"]) for s in sc["sts"]]
    return sc


def replay_validity(sc):
    return oracle(fix(sc), 3)


def bag_oracle(sc, nparts, seed):
    """the same training from a Dask bag of the statistics, cut into `nparts` partitions, as from the list (C12's comparison, run
    here because a partition that is lost on the way makes the EM iteration fit a subset: the likelihood of the training statistics
    then goes down)"""
    from props import c12

    sts = list(sc["sts"])
    while len(sts) < nparts:
        sts = sts + list(sc["sts"])
    s12 = dict(kind="ivector", C=sc["C"], D=sc["D"], w=sc["w"], m=sc["m"], v=sc["v"], R=sc["R"], stats=sts[: max(nparts, len(sc["sts"]))], nparts=nparts, iters=2,
               seed=seed, jfa=False)
    ref = core.impl(lambda: c12.train(s12, False))
    got = core.impl(lambda: c12.train(s12, True))
    if isinstance(ref, core.ImplError):
        return None
    if isinstance(got, core.ImplError) or not c12.same(got, ref):
        return {"sig": "ivector-bag-training-differs-from-list-training", "what": f"{len(s12['stats'])} statistics in {nparts} partitions, 2 iterations: "
                f"{'raises ' + repr(got) if isinstance(got, core.ImplError) else 'T / sigma differ from those trained from the list'}"}
    return None


def search(ctx):
    fails, seen = [], set()
    for i, nparts in enumerate([5, 9, 11, 3, 17, 21][: ctx.budget(3, 6)]):
        sc = scenario(ctx, 4 * i)
        seed = int(ctx.rng.integers(0, 10**6))
        ctx.count("search:bag-partitions")
        ctx.case(["bag", nparts, core.tolist(sc["T"])], nontrivial=True)
        f = bag_oracle(sc, nparts, seed)
        if f and f["sig"] not in seen:
            seen.add(f["sig"])
            f["input"] = {**{k: sc[k] for k in ("kind", "route", "int_params", "C", "D", "R", "w", "m", "v", "T", "sigma", "sts", "parts", "update_sigma", "floor", "iters", "seed")}, "bag_nparts": nparts, "bag_seed": seed}
            fails.append(f)
    for i in range(ctx.budget(24, 240)):
        sc = scenario(ctx, i)
        ctx.count("search:" + sc["kind"])
        ctx.case(["s", core.tolist(sc["T"]), core.tolist([s["f"] for s in sc["sts"]]), sc["update_sigma"]], nontrivial=True)
        f = oracle(sc, 3 if ctx.tier == "quick" else 6)
        if f and f["sig"] not in seen:
            seen.add(f["sig"])
            f["input"] = {k: sc[k] for k in ("kind", "route", "int_params", "C", "D", "R", "w", "m", "v", "T", "sigma", "sts", "parts", "update_sigma", "floor", "iters", "seed")}
            fails.append(f)
    return fails


def replay(d):
    if "bag_nparts" in d["input"]:
        return bag_oracle(fix(d["input"]), d["input"]["bag_nparts"], d["input"]["bag_seed"])
    return oracle(fix(d["input"]))


THEOREMS = ["C10_project_solves_system", "C10_project_is_posterior_mode", "C10_zero_stats_zero", "C10_centred_stats_zero", "C10_project_linear_in_centred_f", "C10_sigma_floor", "C10_estep_additive", "C10_partition_independent",
            "C10_em_monotone_fixed_sigma", "C10_em_monotone_update_sigma"]
