"""C11 — ISV/JFA scores are channel-compensated linear scores, same via every entry point."""
import numpy as np

import core
import fagen
import gen

THEOREMS = [
    "C11_score_is_linear_score",
    "C11_x_solves_system",
    "C11_x_is_posterior_mode",
    "C11_pooling",
    "C11_entry_points",
]
CORR_OPS = ["fa_score:estimate_x", "fa_score:estimate_ux", "fa_score:score", "fa_score:score_using_array", "fa_score:isv_transform"]
RULE = ("UBM x (U, V, D) x latent client factors x probes of 1-4 statistics (fractional and zero counts) for ISV and JFA; arrays of frames "
        "for the array-level entry points; distinct = hash of inputs; non-trivial = >= 2 supervector entries and a probe with frames")
ASSUMPTIONS = ["np.linalg.inv is a parameter of the model (contract: exact inverse); the Float instance is Gauss-Jordan with partial pivoting"]


def scenario(ctx, i):
    sc = fagen.fa_scenario(ctx.rng, ctx.tier, jfa=bool(i % 2), sessions=int(ctx.rng.integers(1, 5)))
    r = ctx.rng
    sc["y"] = r.normal(size=sc["rV"])
    sc["z"] = r.normal(size=sc["C"] * sc["D"])
    return sc


def model_arg(sc):
    return (sc["y"], sc["z"]) if sc["jfa"] else sc["z"]


def correspondence(ctx):
    bad = []
    scs = [scenario(ctx, i) for i in range(ctx.budget(50, 500))]
    lines = [{"op": "fa_score", **fagen.model_fields(sc), "sts": [fagen.st_line(s) for s in sc["sts"]], "y": core.enc(sc["y"]), "z": core.enc(sc["z"].reshape(sc["C"], sc["D"]))} for sc in scs]
    outs = core.drive(lines)
    for sc, o in zip(scs, outs):
        mach = fagen.mk_machine(sc)
        sts = [fagen.mk_stats(sc, s) for s in sc["sts"]]
        ctx.count("jfa" if sc["jfa"] else "isv")
        ctx.count(f"probe-stats={len(sts)}")
        ctx.case([core.tolist(sc["U"]), core.tolist(sc["z"]), core.tolist([s["f"] for s in sc["sts"]])], nontrivial=sc["C"] * sc["D"] >= 2,
                 sample={"C": sc["C"], "D": sc["D"], "rU": sc["rU"], "rV": sc["rV"], "probe_stats": len(sts), "score_model": core.dec(o["score"])})
        inp = {k: sc[k] for k in ("C", "D", "rU", "rV", "jfa", "w", "m", "v", "U", "V", "Dd", "route", "np_ints", "layout", "int_subspaces", "ubm_layout", "ubm_int_means", "ubm_mvt", "sts", "y", "z")}
        x = core.impl(lambda: np.asarray(mach.estimate_x(sts), dtype=float))
        mx = fagen.dec1(o["x"], sc["rU"])
        if isinstance(x, core.ImplError) or not core.close(mx, x, 1e-8, 1e-10):
            bad.append({"op": "fa_score:estimate_x", "input": inp, "model": mx, "impl": repr(x) if isinstance(x, core.ImplError) else x})
        ux = core.impl(lambda: np.asarray(mach.estimate_ux(sts), dtype=float))
        mux = core.dec(o["ux"]).reshape(-1)
        if isinstance(ux, core.ImplError) or not core.close(mux, ux, 1e-8, 1e-10):
            bad.append({"op": "fa_score:estimate_ux", "input": inp, "model": mux, "impl": repr(ux) if isinstance(ux, core.ImplError) else ux})
        s = core.impl(lambda: float(mach.score(model_arg(sc), sts)))
        s_again = core.impl(lambda: float(mach.score(model_arg(sc), sts)))  # the model is a function of the probe: same objects, same score
        ms = core.dec(o["score"])
        if isinstance(s_again, core.ImplError) or not core.close(ms, s_again, 1e-8, 1e-9):
            bad.append({"op": "fa_score:score", "input": inp, "model": ms, "impl": repr(s_again), "what": "second call with the same probe objects"})
        if isinstance(s, core.ImplError) or not core.close(ms, s, 1e-8, 1e-9):
            bad.append({"op": "fa_score:score", "input": inp, "model": ms, "impl": repr(s) if isinstance(s, core.ImplError) else s})
    # array-level entry points: the model is fed the UBM statistics of the arrays (tied by C02)
    lines, meta = [], []
    for i in range(ctx.budget(12, 100)):
        sc = scenario(ctx, i)
        mach = fagen.mk_machine(sc)
        arrays = [gen.sample_data(ctx.rng, sc["w"], sc["m"], sc["v"], int(ctx.rng.integers(2, 12))) for _ in range(int(ctx.rng.integers(1, 4)))]
        sts = [mach.ubm.acc_stats(a) for a in arrays]
        stl = [{"n": core.enc(s.n), "f": core.enc(s.sum_px), "t": core.bits(s.t)} for s in sts]
        lines.append({"op": "fa_score", **fagen.model_fields(sc), "sts": stl, "y": core.enc(sc["y"]), "z": core.enc(sc["z"].reshape(sc["C"], sc["D"]))})
        lines.append({"op": "fa_score", **fagen.model_fields(sc), "sts": stl[:1], "y": core.enc(sc["y"]), "z": core.enc(sc["z"].reshape(sc["C"], sc["D"]))})
        meta.append((sc, mach, arrays))
    outs = core.drive(lines)
    for k, (sc, mach, arrays) in enumerate(meta):
        o_all, o_first = outs[2 * k], outs[2 * k + 1]
        ctx.count("entry-points")
        ctx.case(["arr", core.tolist(arrays[0])], nontrivial=True)
        s = core.impl(lambda: float(mach.score_using_array(model_arg(sc), arrays)))
        if isinstance(s, core.ImplError) or not core.close(core.dec(o_all["score"]), s, 1e-8, 1e-9):
            bad.append({"op": "fa_score:score_using_array", "input": {"arrays": arrays, "jfa": sc["jfa"]}, "model": core.dec(o_all["score"]), "impl": repr(s) if isinstance(s, core.ImplError) else s})
        if not sc["jfa"]:
            t = core.impl(lambda: np.asarray(mach.transform(arrays[0]), dtype=float))
            if isinstance(t, core.ImplError) or not core.close(core.dec(o_first["ux"]).reshape(-1), t, 1e-8, 1e-10):
                bad.append({"op": "fa_score:isv_transform", "input": {"array": arrays[0]}, "model": core.dec(o_first["ux"]).reshape(-1), "impl": repr(t) if isinstance(t, core.ImplError) else t})
    return bad


def oracle(sc):
    """score == frame-normalised linear_scoring of the client mean with offset U x; x solves the linear system; pooling; entry points"""
    from bob.learn.em import linear_scoring

    mach = fagen.mk_machine(sc)
    sts = [fagen.mk_stats(sc, s) for s in sc["sts"]]
    C, D = sc["C"], sc["D"]
    m, v = np.asarray(sc["m"]), np.asarray(sc["v"])
    U, V, Dd = np.asarray(sc["U"]), np.asarray(sc["V"]), np.asarray(sc["Dd"])
    N = sum(np.asarray(s["n"]) for s in sc["sts"])
    F = sum(np.asarray(s["f"]) for s in sc["sts"])
    T = sum(s["t"] for s in sc["sts"])
    Nv = np.repeat(N, D)
    P = np.eye(sc["rU"]) + U.T @ (U * (Nv / v.reshape(-1))[:, None])
    xref = np.linalg.solve(P, U.T @ ((F - N[:, None] * m).reshape(-1) / v.reshape(-1)))
    x = core.impl(lambda: np.asarray(mach.estimate_x(sts), dtype=float))
    if isinstance(x, core.ImplError):
        return {"sig": "estimate_x-raises", "what": repr(x)}
    if not core.close(x, xref, 1e-8, 1e-10):
        return {"sig": "x-is-not-posterior-mean", "what": f"estimate_x {x.tolist()} vs solution of (I + U'S^-1 N U) x = U'S^-1 (F - N m): {xref.tolist()}"}
    s = core.impl(lambda: float(mach.score((sc["y"], sc["z"]) if sc["jfa"] else sc["z"], sts)))
    if isinstance(s, core.ImplError):
        return {"sig": "score-raises", "what": repr(s)}
    client = m.reshape(-1) + Dd * sc["z"] + (V @ sc["y"] if sc["jfa"] else 0)
    pooled = gen.mk_stats(C, D, N, F, np.zeros((C, D)), T)
    ref = float(np.asarray(linear_scoring(client.reshape(C, D), mach.ubm, pooled, (U @ xref).reshape(C, D), True))[0][0])
    if not core.close(s, ref, 1e-8, 1e-9):
        return {"sig": "score-is-not-compensated-linear-score", "what": f"score {s} vs linear score of the client mean with offset U x: {ref}"}
    # ... and the closed formula itself, evaluated here: sum_cd (client - m)/v * (F - N (m + U x)) / T (0 if no frame was counted)
    ref2 = float(((client - m.reshape(-1)) / v.reshape(-1)) @ (F.reshape(-1) - Nv * (m.reshape(-1) + U @ xref)) / T) if T > 0 else 0.0
    if not np.isfinite(s) or not core.close(s, ref2, 1e-7, 1e-8 * (1 + abs(ref2))):
        return {"sig": "score-is-not-compensated-linear-score", "what": f"score {s} vs the closed formula (N = {N.tolist()}, T = {T}): {ref2}"}
    again = core.impl(lambda: float(mach.score((sc["y"], sc["z"]) if sc["jfa"] else sc["z"], sts)))
    if isinstance(again, core.ImplError) or not core.close(s, again, 1e-12, 1e-12):
        return {"sig": "score-of-the-same-probe-changes", "what": f"scoring the same list of {len(sts)} statistics twice: {s} then {again!r}"}
    # the same statistics object, changed in place (more frames accumulated with +=), is a new probe: the second score is that of its
    # current content (compared with a fresh object of equal content)
    if sts:
        marg_ = (sc["y"], sc["z"]) if sc["jfa"] else sc["z"]
        more = gen.mk_stats(C, D, np.full(C, 0.75), (m + 0.3) * 0.75, np.zeros((C, D)), 3)
        sts[0] += more
        after = core.impl(lambda: float(mach.score(marg_, sts)))
        fresh = [gen.mk_stats(C, D, np.array(s_.n, float), np.array(s_.sum_px, float), np.zeros((C, D)), int(s_.t)) for s_ in sts]
        expect = core.impl(lambda: float(mach.score(marg_, fresh)))
        if isinstance(after, core.ImplError) or isinstance(expect, core.ImplError) or not core.close(after, expect, 1e-10, 1e-12):
            return {"sig": "score-ignores-in-place-change-of-the-probe", "what": f"after `probe += more frames`: score {after!r}; the same content in fresh objects: {expect!r}"}
    s2 = core.impl(lambda: float(mach.score((sc["y"], sc["z"]) if sc["jfa"] else sc["z"], [pooled])))
    if isinstance(s2, core.ImplError) or not core.close(s, s2, 1e-9, 1e-10):
        return {"sig": "pooling-changes-score", "what": f"list of {len(sts)} statistics: {s}; their sum: {s2!r}"}
    return None


def oracle_entry(sc, arrays):
    mach = fagen.mk_machine(sc, enroll_iterations=1 + len(arrays[0]) % 4)  # the machine's own setting, 1..4: every entry point enrols with it
    marg = (sc["y"], sc["z"]) if sc["jfa"] else sc["z"]
    from bob.learn.em import gmm as gmod

    def st_(d):  # the UBM statistics of an array, by the E-step itself (not by the convenience method the entry points may share)
        return gmod.e_step(np.asarray(d), mach.ubm)

    a = core.impl(lambda: float(mach.score_using_array(marg, arrays)))
    b = core.impl(lambda: float(mach.score(marg, [st_(d) for d in arrays])))
    if isinstance(a, core.ImplError) or isinstance(b, core.ImplError) or not core.close(a, b, 1e-12, 1e-12):
        return {"sig": "score_using_array-differs", "what": f"{a!r} vs {b!r}"}
    e1 = core.impl(lambda: mach.enroll_using_array(arrays[0]))
    e2 = core.impl(lambda: mach.enroll([st_(arrays[0])]))
    if isinstance(e1, core.ImplError) or isinstance(e2, core.ImplError) or not all(core.close(np.asarray(p), np.asarray(q), 1e-12, 1e-12) for p, q in zip(np.atleast_1d(e1) if not sc["jfa"] else e1, np.atleast_1d(e2) if not sc["jfa"] else e2)):
        return {"sig": "enroll_using_array-differs", "what": f"{e1!r} vs {e2!r}"}
    if not sc["jfa"]:
        t = core.impl(lambda: np.asarray(mach.transform(arrays[0]), dtype=float))
        u = core.impl(lambda: np.asarray(mach.estimate_ux([st_(arrays[0])]), dtype=float))
        if isinstance(t, core.ImplError) or isinstance(u, core.ImplError) or not core.close(t, u, 1e-12, 1e-12):
            return {"sig": "isv-transform-is-not-channel-offset", "what": f"transform(X): {t!r}; U estimate_x([acc_stats(X)]): {u!r}"}
    # training from a raw array (every row is one session; NumPy and row-chunked Dask; labels interleaved, not grouped) agrees
    # with training from the UBM statistics of the same rows
    import dask.array as da

    rr = np.random.default_rng(len(arrays[0]))
    X = np.vstack([a_[:12] for a_ in arrays] + [gen.sample_data(rr, sc["w"], sc["m"], sc["v"], 8)])  # (a few rows of each: every row is a session here)
    y = np.array([(k * 7 + k // 3) % 3 for k in range(len(X))])
    if len(set(y.tolist())) == 3:
        def params(m):
            return [np.asarray(m.U, float), np.asarray(m.D, float)] + ([np.asarray(m.V, float)] if sc["jfa"] else [])

        ref = core.impl(lambda: params((lambda m: m.fit(m.ubm.transform(X), y))(fagen.mk_machine(dict(sc, route="fresh"), em_iterations=2))))
        for name, xin in (("numpy", X), ("dask", da.from_array(X, chunks=(tuple(gen.random_composition(rr, len(X))), X.shape[1])))):
            got = core.impl(lambda: params(fagen.mk_machine(dict(sc, route="fresh"), em_iterations=2).fit_using_array(xin, y)))
            if isinstance(ref, core.ImplError) or isinstance(got, core.ImplError):
                if not (isinstance(ref, core.ImplError) and isinstance(got, core.ImplError) and ref.kind == got.kind):
                    return {"sig": "fit_using_array-differs", "what": f"{name}: fit_using_array {got!r} vs fit on the statistics {ref!r}"}
                continue
            if not all(core.close(p, q, 1e-8, 1e-9 * (1 + float(np.max(np.abs(q))))) for p, q in zip(got, ref)):
                return {"sig": "fit_using_array-differs", "what": f"{name} array, labels {y.tolist()}: U/D/V trained from the array differ from those trained from the UBM statistics of its rows "
                        f"(max |dU| = {float(np.max(np.abs(got[0] - ref[0])))})"}
    return None


def search(ctx):
    fails, seen = [], set()
    for i in range(ctx.budget(40, 400)):
        sc = scenario(ctx, i)
        ctx.count("search:score")
        ctx.case(["s", core.tolist(sc["U"]), core.tolist(sc["z"])], nontrivial=True)
        f = oracle(sc)
        arrays = None
        if not f and i % 4 == 0:
            arrays = [gen.sample_data(ctx.rng, sc["w"], sc["m"], sc["v"], int(ctx.rng.integers(2, 12))) for _ in range(int(ctx.rng.integers(1, 4)))]
            if ctx.rng.random() < 0.2:  # one long recording (a thousand to a few thousand frames)
                arrays[0] = gen.sample_data(ctx.rng, sc["w"], sc["m"], sc["v"], int(ctx.rng.integers(1025, 2600)))
            f = oracle_entry(sc, arrays)
        if f and f["sig"] not in seen:
            seen.add(f["sig"])
            f["input"] = {**{k: sc[k] for k in ("C", "D", "rU", "rV", "jfa", "w", "m", "v", "U", "V", "Dd", "route", "np_ints", "layout", "int_subspaces", "ubm_layout", "ubm_int_means", "ubm_mvt", "sts", "y", "z")}, "arrays": arrays}
            fails.append(f)
    return fails


def fix_sc(sc):
    for k in ("w", "m", "v", "U", "V", "Dd", "y", "z"):
        sc[k] = np.asarray(sc[k], dtype=float)
    sc["U"] = sc["U"].reshape(sc["C"] * sc["D"], sc["rU"])
    sc["V"] = sc["V"].reshape(sc["C"] * sc["D"], sc["rV"])
    sc["sts"] = [dict(n=np.asarray(s["n"], dtype=float), f=np.asarray(s["f"], dtype=float), t=s["t"]) for s in sc["sts"]]
    return sc


def replay(d):
    sc = fix_sc(d["input"])
    if sc.get("arrays"):
        return oracle_entry(sc, [np.asarray(a, dtype=float) for a in sc["arrays"]])
    return oracle(sc)
