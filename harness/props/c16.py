"""C16 — A trained model is a function of the labelled sample multiset and the seed only."""
import hashlib

import numpy as np

import core
import fagen
import gen

THEOREMS = [
    "C16_history_independent",
    "C16_global_as_is_depends",
    "C16_gmm_sample_order",
    "C16_kmeans_sample_order",
    "C16_stats_sample_order",
    "C16_wccn_sample_order",
    "C16_wccn_class_renaming",
    "C16_isv_sample_order_and_renaming",
    "C16_jfa_sample_order_and_renaming",
    "C16_ivector_sample_order",
    "C16_gmm_map_sample_order",
    "C16_whitening_sample_order",
]
CORR_OPS = ["rng_keys:equal_provenance_equal_model"]
RULE = ("random histories of [np.random.seed(s) | np.random.normal(size=n) | fit(estimator, configuration, data, random_state)] in one "
        "process, estimators k-means, GMM, ISV, JFA (in-memory and Dask), WCCN, i-vector; fits whose provenance keys (computed by the "
        "model) coincide must return bit-identical models; non-trivial = history with >= 2 fits of the same seeded estimator separated by "
        "a global seeding or draw")
ASSUMPTIONS = ["dask_ml k_init (seeded data-dependent initialisation) is not modelled; its dependence on the row order is known finding D14"]
KNOWN_SIG = "seeded-kmeans-init-depends-on-row-order"

ESTS = ["kmeans", "gmm", "isv", "jfa", "isv_dask", "wccn", "ivector", "isv_lazy", "jfa_lazy", "kmeans_reuse", "gmm_shared_trainer"]
# *_reuse / *_shared_trainer: one estimator object (per configuration and seed) serves every fit of the history — what it was
# fitted on before is not part of the provenance, so the results must equal those of a fresh object
SOURCE = {"kmeans_reuse": "localGen", "gmm_shared_trainer": "localGen", "kmeans": "localGen", "gmm": "localGen", "isv": "reseedGlobal", "jfa": "reseedGlobal", "isv_dask": "reseedGlobal", "wccn": "none", "ivector": "globalAsIs",
          "isv_lazy": "reseedGlobal", "jfa_lazy": "reseedGlobal"}
# *_lazy: the machine is constructed without a trained UBM (ubm=None + ubm_kwargs) at the START of the history and fitted where the
# history says; the model treats that construction as a no-op on the generator (no draw can happen before the UBM exists), so every
# seeding / draw / other fit between construction and fit must leave the result unchanged.
LAZY = ("isv_lazy", "jfa_lazy")


def construct_lazy(est, cfg, rs, init):
    from bob.learn.em import ISVMachine, JFAMachine

    kw = dict(n_gaussians=2, max_fitting_steps=2, convergence_threshold=None, random_state=rs,
              k_means_trainer=None)
    from bob.learn.em import KMeansMachine
    kw["k_means_trainer"] = KMeansMachine(2, init_method=np.array(init, dtype=float), random_state=rs, max_iter=2)  # explicit: keeps D14 out
    if est == "isv_lazy":
        return ISVMachine(1 + cfg, em_iterations=2, random_state=rs, ubm_kwargs=kw)
    return JFAMachine(1, 1 + cfg, em_iterations=1, random_state=rs, ubm_kwargs=kw)


def fit_lazy(est, cfg, mach, data):
    mach.fit_using_array(data["X"], data["y"])
    if est == "isv_lazy":
        return digest([mach.ubm.means, mach.U, mach.D]), 4 * (1 + cfg)
    return digest([mach.ubm.means, mach.U, mach.V, mach.D]), 4 + 4 * (1 + cfg)


def datasets(seed):
    r = np.random.default_rng(seed)
    out = []
    for k in range(2):
        C, D = 2, 2
        w, m, v, _ = gen.gmm_params(r, C, D, scales=np.ones(D))
        X = gen.sample_data(r, w, m, v, 24)
        y = np.arange(24) % 3
        out.append(dict(C=C, D=D, w=w, m=m, v=v, X=X, y=y))
    # a data set of a few thousand rows without cluster structure (the result of a seeded initialisation followed by a few
    # iterations depends on the start): anything that draws from another generator than the seeded one shows here
    N = int(r.integers(3100, 3600))
    w, m, v, _ = gen.gmm_params(r, 2, 2, scales=np.ones(2))
    out.append(dict(C=2, D=2, w=w, m=m, v=v, X=r.uniform(-1, 1, size=(N, 2)), y=np.arange(N) % 3))
    # a one-Gaussian UBM: every session of equal length then has exactly the same zeroth-order statistics
    w1, m1, v1, _ = gen.gmm_params(r, 1, 2, scales=np.ones(2))
    out.append(dict(C=1, D=2, w=w1, m=m1, v=v1, X=gen.sample_data(r, w1, m1, v1, 24), y=np.arange(24) % 3))
    return out


def digest(arrs):
    h = hashlib.sha256()
    for a in arrs:
        h.update(np.ascontiguousarray(np.asarray(a, dtype=float)).tobytes())
    return h.hexdigest()[:16]


def do_fit(est, cfg, data, rs, pool=None):
    import dask.array as da
    from bob.learn.em import GMMMachine, ISVMachine, IVectorMachine, JFAMachine, KMeansMachine, WCCN

    X, y = data["X"], data["y"]
    ubm = gen.mk_gmm(data["w"], data["m"], data["v"])
    pool = {} if pool is None else pool
    if est == "kmeans_reuse":
        m = pool.setdefault(("km", cfg, rs), KMeansMachine(2 + cfg, init_method="random", random_state=rs, max_iter=8, convergence_threshold=0.3))
        m.fit(X)
        return digest([m.centroids_]), 0
    if est == "gmm_shared_trainer":
        km = pool.setdefault(("kmt", cfg, rs), KMeansMachine(2, init_method="random", random_state=rs, max_iter=8, convergence_threshold=0.3))
        g = GMMMachine(2, k_means_trainer=km, max_fitting_steps=1 + cfg, convergence_threshold=None, update_variances=True).fit(X)
        return digest([g.weights, g.means, g.variances]), 0
    if est == "kmeans":
        m = KMeansMachine(2 + cfg, init_method="random" if cfg else "k-means||", random_state=rs, max_iter=3).fit(X)
        return digest([m.centroids_]), 0
    if est == "gmm":
        g = GMMMachine(2, random_state=rs, max_fitting_steps=2 + cfg, update_variances=True).fit(X)
        return digest([g.weights, g.means, g.variances]), 0
    if est in ("isv", "isv_dask"):
        mach = ISVMachine(1 + cfg, ubm=ubm, em_iterations=2, random_state=rs)
        mach.create_UVD()  # the constructor already drew once (ubm is trained); fit_using_array draws nothing more
        Xin = da.from_array(X, chunks=(8, X.shape[1])) if est == "isv_dask" else X
        mach.fit_using_array(Xin, y)
        return digest([mach.U, mach.D]), 4 * (1 + cfg)  # every create_UVD reseeds: the generator ends (seed rs, one set of draws)
    if est == "jfa":
        mach = JFAMachine(1, 1 + cfg, ubm=ubm, em_iterations=1, random_state=rs)
        mach.create_UVD()
        mach.fit_using_array(X, y)
        return digest([mach.U, mach.V, mach.D]), 4 + 4 * (1 + cfg)
    if est == "wccn":
        w = WCCN().fit(X, list(y))
        return digest([w.weights]), 0
    if est == "ivector":
        iv = IVectorMachine(ubm, dim_t=1 + cfg, max_iterations=2)
        iv.fit(ubm.transform([X[:8], X[8:16], X[16:]]))
        return digest([iv.T, iv.sigma]), 4 * (1 + cfg)
    raise ValueError(est)


def gen_history(ctx):
    r = ctx.rng
    L = int(r.integers(4, 9 if ctx.tier == "quick" else 16))
    ops = []
    for _ in range(L):
        k = r.choice(["seed", "draw", "fit", "fit", "fit"])
        if k == "seed":
            ops.append({"k": "seed", "s": int(r.integers(0, 4))})
        elif k == "draw":
            ops.append({"k": "draw", "n": int(r.integers(1, 5))})
        else:
            prev = [o for o in ops if o["k"] == "fit"]
            if prev and r.random() < 0.6:
                ops.append(dict(prev[int(r.integers(0, len(prev)))]))
                continue
            est = ESTS[int(r.integers(0, len(ESTS)))]
            ops.append({"k": "fit", "est_name": est, "est": ESTS.index(est), "cfg": int(r.integers(0, 2)), "data": int(r.integers(0, 2)),
                        "rs": int(r.integers(0, 3)), "source": SOURCE[est], "draws": 0})
    return ops


def run_history(ops, data):
    results = []
    pool = {}
    pending = {i: core.impl(lambda: construct_lazy(op["est_name"], op["cfg"], op["rs"], data[op["data"]]["m"])) for i, op in enumerate(ops) if op["k"] == "fit" and op["est_name"] in LAZY}
    for i, op in enumerate(ops):
        if op["k"] == "fit" and op["est_name"] in LAZY:
            m = pending[i]
            r = m if isinstance(m, core.ImplError) else core.impl(lambda: fit_lazy(op["est_name"], op["cfg"], m, data[op["data"]]))
            if not isinstance(r, core.ImplError):
                op["draws"] = r[1]
                r = r[0]
            results.append(r)
            continue
        if op["k"] == "seed":
            np.random.seed(op["s"])
            results.append(None)
        elif op["k"] == "draw":
            np.random.normal(size=op["n"])
            results.append(None)
        else:
            r = core.impl(lambda: do_fit(op["est_name"], op["cfg"], data[op["data"]], op["rs"], pool))
            if isinstance(r, core.ImplError):
                results.append(r)
            else:
                op["draws"] = r[1]
                results.append(r[0])
    return results


def correspondence(ctx):
    bad = []
    data = datasets(ctx.seed)
    hist = [gen_history(ctx) for _ in range(ctx.budget(8, 60))]
    res = [run_history(h, data) for h in hist]
    outs = core.drive([{"op": "rng_keys", "ops": h} for h in hist])
    groups = {}
    for hi, (h, rs, o) in enumerate(zip(hist, res, outs)):
        ctx.traces += 1
        fits = [op for op in h if op["k"] == "fit"]
        ctx.case([[(op.get("est_name"), op.get("cfg"), op.get("data"), op.get("rs"), op.get("s"), op.get("n")) for op in h]], nontrivial=len(fits) >= 2,
                 sample={"history": [op["k"] if op["k"] != "fit" else f"fit:{op['est_name']}(cfg{op['cfg']},data{op['data']},rs={op['rs']})" for op in h]})
        for op, r, k in zip(h, rs, o["keys"]):
            if op["k"] != "fit":
                continue
            ctx.count("fit:" + op["est_name"])
            if isinstance(r, core.ImplError):
                # a fit that raises (e.g. a degenerate UBM) is not this property's business as long as it does so for every
                # history with the same provenance: the exception type takes the place of the model digest
                ctx.count("fit-raises:" + op["est_name"])
                r = "raises:" + r.kind
            # "never seeded in this history" denotes a generator state that is particular to the history (the harness runs all
            # histories in one process, each starts where the previous one stopped): such keys are comparable within a history only
            unseeded = isinstance(k, dict) and isinstance(k.get("gen"), dict) and k["gen"].get("seed") is None
            groups.setdefault(core.sha([k, hi] if unseeded else k), []).append((k, r, op, h))
    for key, items in groups.items():
        digs = {r for _, r, _, _ in items}
        if len(digs) > 1:
            k, _, op, h = items[0]
            bad.append({"op": "rng_keys:equal_provenance_equal_model", "input": {"estimator": op["est_name"], "key": k, "histories": [[(o["k"], o.get("est_name"), o.get("s"), o.get("n"), o.get("rs")) for o in hh] for _, _, _, hh in items[:3]]},
                        "model": "equal provenance", "impl": sorted(digs)})
    ctx.count("provenance-groups", len(groups))
    ctx.count("groups-with->=2-fits", sum(1 for v in groups.values() if len(v) >= 2))
    return bad


def train(est, data, X, y, rs, stats=None, between=None):
    """(name, params) of a fit used by the order / renaming oracles; `between` runs after construction and before fit"""
    import dask.array as da
    from bob.learn.em import ISVMachine, JFAMachine, KMeansMachine, WCCN

    ubm = gen.mk_gmm(data["w"], data["m"], data["v"])
    if est in ("kmeans_reuse", "gmm_shared_trainer"):
        # with `between`: the estimator object (resp. the shared k-means trainer) has already been fitted on other data
        # threshold 10: no relative change can exceed it, so a fresh object always stops after exactly two iterations
        km = KMeansMachine(2, init_method="random", random_state=rs, max_iter=8, convergence_threshold=10.0)
        if between:
            core.impl(lambda: km.fit(np.asarray(X)))  # the very data of the next fit, then other data: whatever they left behind must not matter
            core.impl(lambda: km.fit(np.asarray(X)[::-1] * 0.7 + 1.0))
            between()
        if est == "kmeans_reuse":
            km.fit(X)
            return [np.sort(np.asarray(km.centroids_), axis=0)]
        from bob.learn.em import GMMMachine
        g = GMMMachine(2, k_means_trainer=km, max_fitting_steps=1, convergence_threshold=None, update_variances=True).fit(X)
        return [np.sort(np.asarray(g.means), axis=0)]
    if est in LAZY:
        mach = construct_lazy(est, 0, rs, data["m"])
        if between:
            between()
        mach.fit_using_array(X, y)
        return [mach.ubm.means, mach.U, mach.D] + ([mach.V] if est == "jfa_lazy" else [])
    if est == "kmeans_explicit":
        m = KMeansMachine(2, init_method=np.array(data["m"]), max_iter=3, convergence_threshold=None).fit(X)
        return [m.centroids_]
    if est == "kmeans_seeded":
        m = KMeansMachine(2, init_method="k-means||", random_state=rs, max_iter=3, convergence_threshold=None).fit(X)
        return [np.sort(np.asarray(m.centroids_), axis=0)]
    if est == "kmeans_random_seeded":
        # seeded `random` initialisation of four clusters on quantised data (few distinct points, each several times): drawing the
        # same point twice is ordinary there
        Xq = np.round(np.asarray(X)[:, :2] * 0.5)[: max(12, len(X) // 2)]
        out = []
        for rs_ in range(rs, rs + 6):  # several seeds: whether two of the four starting points coincide depends on the seed
            m = KMeansMachine(4, init_method="random", random_state=rs_, max_iter=2, convergence_threshold=None).fit(Xq)
            out.append(np.sort(np.asarray(m.centroids_), axis=0))
        return out
    if est == "gmm_kmeans_seeded":  # a GMM initialised by its own (seeded) k-means trainer
        from bob.learn.em import GMMMachine
        g = GMMMachine(2, random_state=rs, max_fitting_steps=1, convergence_threshold=None,
                       k_means_trainer=KMeansMachine(2, init_method="k-means||", random_state=rs, max_iter=2, convergence_threshold=None)).fit(X)
        return [np.sort(np.asarray(g.means), axis=0)]
    if est == "gmm_explicit":
        g = gen.mk_gmm(data["w"], data["m"], data["v"], max_fitting_steps=3, convergence_threshold=None, update_variances=True, update_weights=True).fit(X)
        return [g.weights, g.means, g.variances]
    if est in ("isv", "isv_dask", "jfa", "jfa_dask"):
        jfa = est.startswith("jfa")
        cls = JFAMachine if jfa else ISVMachine
        mach = cls(1, 1, ubm=ubm, em_iterations=2, random_state=rs) if jfa else cls(1, ubm=ubm, em_iterations=2, random_state=rs)
        mach.create_UVD()
        Xin = da.from_array(X, chunks=(8, X.shape[1])) if est.endswith("_dask") else X
        mach.fit_using_array(Xin, y)
        return [mach.U, mach.D] + ([mach.V] if jfa else [])
    if est in ("isv_bag", "jfa_bag"):
        # per-sample statistics in a Dask bag whose partitions have unequal lengths (the last one is shorter)
        import dask.bag as db
        jfa = est.startswith("jfa")
        cls = JFAMachine if jfa else ISVMachine
        mach = cls(1, 1, ubm=ubm, em_iterations=2, random_state=rs) if jfa else cls(1, ubm=ubm, em_iterations=2, random_state=rs)
        sts = [ubm.acc_stats(np.asarray(X)[i:i + 1]) for i in range(len(X))]
        mach.fit(db.from_sequence(sts, npartitions=5 if len(sts) % 5 else 7), np.asarray(y))
        return [mach.U, mach.D] + ([mach.V] if jfa else [])
    if est == "ivector":
        # one statistic per row; the extractor draws its initial T from the global generator as it is (it has no random_state
        # of its own), so the caller seeds it: what is examined is the order of the training statistics
        from bob.learn.em import IVectorMachine
        sts = [ubm.acc_stats(np.asarray(X)[i:i + 1]) for i in range(len(X))]
        np.random.seed(rs)
        iv = IVectorMachine(ubm, dim_t=2, max_iterations=2, update_sigma=True)
        iv.fit(sts)
        return [iv.T, iv.sigma]
    if est == "wccn":
        return [WCCN().fit(X, [int(v) for v in y]).weights]
    if est == "whitening":
        from bob.learn.em import Whitening
        wh = Whitening().fit(X)
        return [wh.weights, wh.input_subtract]
    if est == "gmm_dask":
        nb = 3 if len(X) % 2 == 0 else 5
        Xd = da.from_array(np.asarray(X), chunks=(-(-len(X) // nb), np.asarray(X).shape[1]))
        g = gen.mk_gmm(data["w"], data["m"], data["v"], max_fitting_steps=3, convergence_threshold=None, update_variances=True, update_weights=True).fit(Xd)
        return [g.weights, g.means, g.variances]
    if est == "gmm_map":
        from bob.learn.em import GMMMachine
        g = GMMMachine(2, trainer="map", ubm=ubm, max_fitting_steps=3, convergence_threshold=None, update_weights=True).fit(X)
        return [g.weights, g.means, g.variances]
    raise ValueError(est)


def oracle(est, data, seed):
    r = np.random.default_rng(seed)
    known = None
    X, y = data["X"], data["y"]
    ids = np.arange(3)
    if est == "wccn" and r.random() < 0.6:
        # class ids are names, not positions: any integers will do (client numbers such as 9, 1, 17 - ids that share a hash slot
        # of a small set are iterated in insertion order, i.e. in the order of the samples)
        k0 = int(r.integers(0, 8))
        ids = k0 + 8 * r.permutation(3) * int(r.choice([1, 1, 4, 128]))
    y0, y = y, ids[y]
    base = core.impl(lambda: train(est, data, X, y, 3))
    if isinstance(base, core.ImplError):
        # training fails on this data set (degenerate UBM, ...): outside this property, provided it fails the same way again
        again = core.impl(lambda: train(est, data, X, y, 3))
        if not isinstance(again, core.ImplError) or again.kind != base.kind:
            return {"sig": f"depends-on-history:{est}", "what": f"{est}: first fit raised {base!r}, an identical second fit gave {again!r}"}
        if "LinAlg" not in base.kind and est not in ("kmeans_reuse", "gmm_shared_trainer", "kmeans_seeded", "gmm_kmeans_seeded", "kmeans_random_seeded"):
            # ... and in the same way for every order of the samples (a numerical breakdown may legitimately come and go with rounding)
            for _ in range(4):
                perm = r.permutation(len(X))
                p = core.impl(lambda: train(est, data, X[perm], y[perm], 3))
                if not isinstance(p, core.ImplError):
                    return {"sig": f"depends-on-sample-order:{est}", "what": f"{est}: training raises {base!r} for one order of the samples and returns a model for another", "perm": perm}
        return None
    # sample order (samples stay with their labels; ISV/JFA from arrays: frames of one class stay in their class)
    perm = r.permutation(len(X)) if est not in ("kmeans_reuse", "gmm_shared_trainer") else np.arange(len(X))  # seeded init: row order is D14's business
    p = core.impl(lambda: train(est, data, X[perm], y[perm], 3))
    if isinstance(p, core.ImplError) or not all(core.close(np.asarray(a, float), np.asarray(b, float), 1e-8, 1e-9) for a, b in zip(base, p)):
        sig = KNOWN_SIG if est in ("kmeans_seeded", "gmm_kmeans_seeded", "kmeans_random_seeded") else f"depends-on-sample-order:{est}"
        found = {"sig": sig, "what": f"{est}: training on a permutation of the rows gives a different model", "perm": perm}
        if sig != KNOWN_SIG:
            return found
        known = found  # the recorded finding (D14) is about the row order only: the history clause is still checked below
    if est == "ivector":
        return None  # no random_state of its own: the history clause does not apply (C16_global_as_is_depends)
    # class renaming by a permutation of the ids
    if est in ("isv", "isv_dask", "jfa", "jfa_dask", "wccn", "isv_bag", "jfa_bag") + LAZY:
        ren = r.permutation(3)
        q = core.impl(lambda: train(est, data, X, ids[ren[y0]], 3))
        if isinstance(q, core.ImplError) or not all(core.close(np.asarray(a, float), np.asarray(b, float), 1e-8, 1e-9) for a, b in zip(base, q)):
            return {"sig": f"depends-on-class-names:{est}", "what": f"{est}: renaming the classes by {ren.tolist()} gives a different model", "renaming": ren}
    # global generator state and earlier fits
    def activity():
        np.random.seed(int(r.integers(0, 1000)))
        np.random.normal(size=int(r.integers(1, 7)))
        core.impl(lambda: train("isv", data, X, y, 11))

    activity()
    again = core.impl(lambda: train(est, data, X, y, 3, between=activity))
    if isinstance(again, core.ImplError) or not all(np.array_equal(np.asarray(a), np.asarray(b)) for a, b in zip(base, again)):
        return {"sig": f"depends-on-history:{est}", "what": f"{est}: same data, configuration and random_state after other global-RNG activity gives a different model"}
    return known


def search(ctx):
    fails, seen = [], set()
    data = datasets(ctx.seed + 1)
    ests = ["kmeans_explicit", "kmeans_seeded", "gmm_explicit", "isv", "isv_dask", "jfa", "jfa_dask", "wccn", "isv_lazy", "jfa_lazy", "kmeans_reuse", "gmm_shared_trainer", "isv_bag", "jfa_bag", "ivector", "whitening", "gmm_map", "gmm_dask"]
    for i in range(ctx.budget(36, 240)):
        est = ests[i % len(ests)]
        ctx.count("search:" + est)
        ctx.case(["s", est, i], nontrivial=True)
        f = oracle(est, data[(i // len(ests)) % 2], ctx.seed * 1000 + i)
        if f and f["sig"] not in seen:
            seen.add(f["sig"])
            f["input"] = {"estimator": est, "dataset_seed": ctx.seed + 1, "dataset": (i // len(ests)) % 2, "oracle_seed": ctx.seed * 1000 + i}
            fails.append(f)
    for k_ in range(ctx.budget(2, 12)):
        ctx.count("search:kmeans_random_seeded")
        ctx.case(["s", "kmeans_random_seeded", k_], nontrivial=True)
        f = oracle("kmeans_random_seeded", data[k_ % 2], ctx.seed * 1000 + 500 + k_)
        if f and f["sig"] not in seen:
            seen.add(f["sig"])
            f["input"] = {"estimator": "kmeans_random_seeded", "dataset_seed": ctx.seed + 1, "dataset": k_ % 2, "oracle_seed": ctx.seed * 1000 + 500 + k_}
            fails.append(f)
    for est in ("isv", "jfa", "isv_dask"):
        ctx.count("search:" + est + ":one-gaussian-ubm")
        ctx.case(["s", est, "C=1"], nontrivial=True)
        f = oracle(est, data[3], ctx.seed * 1000 + 777)
        if f and f["sig"] not in seen:
            seen.add(f["sig"])
            f["input"] = {"estimator": est, "dataset_seed": ctx.seed + 1, "dataset": 3, "oracle_seed": ctx.seed * 1000 + 777}
            fails.append(f)
    for est in ("kmeans_seeded", "gmm_kmeans_seeded"):
        ctx.count("search:" + est + ":several-thousand-rows")
        ctx.case(["s", est, "big"], nontrivial=True)
        f = oracle(est, data[2], ctx.seed * 1000 + 999)
        if f and f["sig"] not in seen:
            seen.add(f["sig"])
            f["input"] = {"estimator": est, "dataset_seed": ctx.seed + 1, "dataset": 2, "oracle_seed": ctx.seed * 1000 + 999}
            fails.append(f)
    return fails


def replay(d):
    i = d["input"]
    return oracle(i["estimator"], datasets(i["dataset_seed"])[i["dataset"]], i["oracle_seed"])
