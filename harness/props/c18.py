"""C18 — Saving and loading a GMM or its statistics preserves them exactly."""
import os

import numpy as np

import core
import gen

THEOREMS = [
    "C18_machine_roundtrip",
    "C18_map_needs_ubm",
    "C18_resave",
    "C18_many_roundtrips",
    "C18_load_replaces_state",
    "C18_stats_roundtrip",
    "C18_stats_load_resizes",
    "C18_legacy_equiv",
]
CORR_OPS = ["h5_machine:file", "h5_machine:from_hdf5_path", "h5_machine:from_hdf5_open_file", "h5_machine:load", "h5_machine:needs_ubm",
            "h5_stats:file", "h5_stats:from_hdf5", "h5_stats:load_resize", "h5_legacy:fixture"]
RULE = ("reachable machine states (ML and MAP, scalar / per-feature / full floors, all switch combinations, max_fitting_steps and "
        "convergence_threshold set or None, variances down to 1e-20 with matching floors) and random statistics; 1-3 round trips; "
        "file contents (names, kinds, values bit-for-bit) and loaded fields compared with the model; non-trivial = every case "
        "(distinct by hash of the state)")
ASSUMPTIONS = ["h5py returns the bytes it was given (checked: file contents are read back with h5py and compared bitwise)"]


def machine_scenario(ctx, i):
    r = ctx.rng
    C, D = int(r.integers(1, 4)), int(r.integers(1, 4))
    tiny = bool(r.random() < 0.2)
    scale = 1e-9 if tiny else float(10.0 ** r.choice([-1, 0, 1]))
    w, m, v, _ = gen.gmm_params(r, C, D, scales=np.ones(D) * scale)
    kind = ["scalar", "row", "full"][int(r.integers(0, 3))]
    base = (scale**2) * 10 ** r.uniform(-3, 0)
    thr = float(base) if kind == "scalar" else base * r.uniform(0.5, 2, D) if kind == "row" else base * r.uniform(0.5, 2, (C, D))
    return dict(C=C, D=D, w=w, m=m, v=v, thr_kind=kind, thr=thr, trainer=["ml", "map"][int(r.integers(0, 2))], um=bool(r.integers(0, 2)), uv=bool(r.integers(0, 2)),
                uw=bool(r.integers(0, 2)), **dict(zip(("steps", "conv"), [(None, float(10 ** r.uniform(-8, -1))), (int(r.integers(0, 300)), None), (int(r.integers(0, 300)), float(10 ** r.uniform(-8, -1))), (None, 0.0), (int(r.integers(1, 300)), 0.0), (0, float(10 ** r.uniform(-8, -1))), (0, None)][int(r.integers(0, 7))])),  # incl. the boundary settings 0 and 0.0
                trips=1 + int(r.integers(0, 3)), offer_ubm=bool(r.random() < 0.85))


def build(sc):
    from bob.learn.em import GMMMachine

    ubm = None
    if sc["trainer"] == "map":
        r = np.random.default_rng(5)
        ubm = gen.mk_gmm(np.full(sc["C"], 1 / sc["C"]), r.normal(size=(sc["C"], sc["D"])), np.ones((sc["C"], sc["D"])))
    g = GMMMachine(sc["C"], trainer=sc["trainer"], ubm=ubm, convergence_threshold=sc["conv"], max_fitting_steps=sc["steps"],
                   update_means=sc["um"], update_variances=sc["uv"], update_weights=sc["uw"])
    g.variance_thresholds = np.array(sc["thr"]) if sc["thr_kind"] != "scalar" else sc["thr"]
    g.weights = np.array(sc["w"])
    g.means = np.array(sc["m"])
    g.variances = np.array(sc["v"])
    return g, ubm


def thr_json(kind, val):
    return {"kind": kind, "val": core.bits(val) if kind == "scalar" else core.enc(val)}


def machine_line(sc, g, offer):
    return {"op": "h5_machine", "C": sc["C"], "D": sc["D"], "trainer": sc["trainer"], "conv": None if sc["conv"] is None else core.bits(sc["conv"]),
            "steps": sc["steps"], "w": core.enc(g.weights), "m": core.enc(g.means), "v": core.enc(g.variances), "thr": thr_json(sc["thr_kind"], sc["thr"]),
            "um": sc["um"], "uv": sc["uv"], "uw": sc["uw"], "ubm": 1 if sc["trainer"] == "map" else None, "offer": 1 if offer else None}


def read_h5(path):
    import h5py

    out = {}
    with h5py.File(path, "r") as f:
        def visit(name, obj):
            if isinstance(obj, h5py.Dataset):
                out[name] = obj[()]
        f.visititems(visit)
    return out


def val_matches(mv, actual):
    """model Val (json) vs the value h5py reads back: kind and bits"""
    t, v = mv["t"], mv["v"]
    a = actual
    if t == "int":
        return np.ndim(a) == 0 and np.issubdtype(np.asarray(a).dtype, np.integer) and int(a) == v
    if t == "float":
        return np.ndim(a) == 0 and np.issubdtype(np.asarray(a).dtype, np.floating) and core.bits(a) == v
    if t == "bool":
        return np.ndim(a) == 0 and np.asarray(a).dtype == np.bool_ and bool(a) == v
    if t == "bytes":
        return isinstance(a, (bytes, np.bytes_)) and a.decode() == v
    if t in ("vec", "mat"):
        return isinstance(a, np.ndarray) and a.dtype == np.float64 and core.enc(a) == v
    if t == "thr":
        if v["kind"] == "scalar":
            return np.ndim(a) == 0 and core.bits(a) == v["val"]
        return isinstance(a, np.ndarray) and core.enc(a) == v["val"]
    return False


def fields(g):
    return {"trainer": g.trainer, "conv": g.convergence_threshold, "steps": g.max_fitting_steps, "w": np.array(g.weights), "m": np.array(g.means),
            "v": np.array(g.variances), "thr": np.array(g.variance_thresholds), "um": bool(g.update_means), "uv": bool(g.update_variances), "uw": bool(g.update_weights),
            "has_ubm": g.ubm is not None}


def loaded_matches(ml, g):
    if isinstance(g, core.ImplError):
        return False
    f = fields(g)
    ok = f["trainer"] == ml["trainer"]
    ok &= (f["conv"] is None) == (ml["conv"] is None) and (f["conv"] is None or core.bits(f["conv"]) == ml["conv"])
    ok &= (f["steps"] is None) == (ml["steps"] is None) and (f["steps"] is None or int(f["steps"]) == ml["steps"])
    ok &= core.enc(f["w"]) == ml["w"] and core.enc(f["m"]) == ml["m"] and core.enc(f["v"]) == ml["v"]
    tv = ml["thr"]
    ok &= (np.ndim(f["thr"]) == 0 and tv["kind"] == "scalar" and core.bits(f["thr"]) == tv["val"]) or (np.ndim(f["thr"]) > 0 and tv["kind"] != "scalar" and core.enc(f["thr"]) == tv["val"])
    ok &= (f["um"], f["uv"], f["uw"]) == (ml["um"], ml["uv"], ml["uw"])
    ok &= f["has_ubm"] == (ml["ubm"] is not None)
    return bool(ok)


def tmp(name):
    os.makedirs(core.WORK, exist_ok=True)
    p = os.path.join(core.WORK, name)
    if os.path.exists(p):
        os.remove(p)
    return p


def correspondence(ctx):
    import h5py
    from bob.learn.em import GMMMachine, GMMStats

    bad = []
    n = ctx.budget(60, 500)
    scs = [machine_scenario(ctx, i) for i in range(n)]
    built = [build(sc) for sc in scs]
    outs = core.drive([machine_line(sc, g, sc["offer_ubm"] and sc["trainer"] == "map") for sc, (g, ubm) in zip(scs, built)])
    for sc, (g, ubm), o in zip(scs, built, outs):
        ctx.count("trainer:" + sc["trainer"])
        ctx.count("floors:" + sc["thr_kind"])
        ctx.count("steps:" + ("None" if sc["steps"] is None else "int"))
        ctx.count("conv:" + ("None" if sc["conv"] is None else "float"))
        ctx.case([core.tolist(sc["m"]), core.tolist(sc["v"]), sc["trainer"], sc["thr_kind"], sc["steps"], sc["conv"], sc["um"], sc["uv"], sc["uw"]], nontrivial=True,
                 sample={k: sc[k] for k in ("C", "D", "trainer", "thr_kind", "steps", "conv", "um", "uv", "uw", "trips")})
        inp = {k: sc[k] for k in ("C", "D", "w", "m", "v", "thr_kind", "thr", "trainer", "um", "uv", "uw", "steps", "conv", "trips", "offer_ubm")}
        path = tmp("m.h5")
        r = core.impl(lambda: g.save(path))
        if isinstance(r, core.ImplError):
            bad.append({"op": "h5_machine:file", "input": inp, "impl": repr(r)})
            continue
        actual = read_h5(path)
        mfile = {k: v for k, v in o["file"]}
        if set(actual) != set(mfile) or not all(val_matches(mfile[k], actual[k]) for k in mfile):
            bad.append({"op": "h5_machine:file", "input": inp, "model": mfile, "impl": {k: (v.tolist() if isinstance(v, np.ndarray) else repr(v)) for k, v in actual.items()}})
        offer = ubm if (sc["offer_ubm"] or sc["trainer"] == "ml") else None
        if "err" in o["loaded"]:
            l = core.impl(lambda: GMMMachine.from_hdf5(path, ubm=offer))
            if not (isinstance(l, core.ImplError) and l.kind == "ValueError" and o["loaded"]["err"] == "needs-ubm"):
                bad.append({"op": "h5_machine:needs_ubm", "input": inp, "model": o["loaded"], "impl": repr(l) if isinstance(l, core.ImplError) else fields(l)})
            continue
        cur = g
        for trip in range(sc["trips"]):
            p2 = tmp(f"m{trip}.h5")
            cur.save(p2)
            l = core.impl(lambda: GMMMachine.from_hdf5(p2, ubm=offer))
            if not loaded_matches(o["loaded"], l):
                bad.append({"op": "h5_machine:from_hdf5_path", "input": {**inp, "trip": trip}, "model": o["loaded"], "impl": repr(l) if isinstance(l, core.ImplError) else fields(l)})
                break
            cur = l

        def open_file():
            with h5py.File(path, "r") as fh:
                return GMMMachine.from_hdf5(fh, ubm=offer)

        l = core.impl(open_file)
        if not loaded_matches(o["loaded"], l):
            bad.append({"op": "h5_machine:from_hdf5_open_file", "input": inp, "model": o["loaded"], "impl": repr(l) if isinstance(l, core.ImplError) else fields(l)})
        # load into an object of another shape (MAP: the receiver holds its own UBM)
        other = GMMMachine(sc["C"] + 1) if sc["trainer"] == "ml" else GMMMachine(sc["C"], trainer="map", ubm=ubm)
        r = core.impl(lambda: other.load(path))
        if isinstance(r, core.ImplError) or not loaded_matches(o["loaded"], other):
            bad.append({"op": "h5_machine:load", "input": inp, "model": o["loaded"], "impl": repr(r) if isinstance(r, core.ImplError) else fields(other)})
    # statistics
    r_ = ctx.rng
    lines, meta = [], []
    for i in range(ctx.budget(30, 200)):
        C, D = int(r_.integers(1, 4)), int(r_.integers(1, 4))
        s = gen.mk_stats(C, D, r_.uniform(0, 5, C), r_.normal(size=(C, D)) * 10.0 ** r_.integers(-9, 9), r_.uniform(0, 9, (C, D)), int(r_.integers(0, 10**6)), float(r_.normal() * 1e3))
        lines.append({"op": "h5_stats", "C": C, "D": D, **gen.stats_line(s)})
        meta.append(s)
    for s, o in zip(meta, core.drive(lines)):
        ctx.count("stats")
        ctx.case(["st", s.n.tolist(), s.sum_px.tolist(), s.t], nontrivial=True)
        path = tmp("s.h5")
        s.save(path)
        actual = read_h5(path)
        mfile = {k: v for k, v in o["file"]}
        if set(actual) != set(mfile) or not all(val_matches(mfile[k], actual[k]) for k in mfile):
            bad.append({"op": "h5_stats:file", "input": gen.stats_impl(s), "model": mfile, "impl": {k: repr(v) for k, v in actual.items()}})

        def same(l):
            ml = o["loaded"]
            return (not isinstance(l, core.ImplError)) and core.bits(l.log_likelihood) == ml["ll"] and int(l.t) == ml["t"] and core.enc(l.n) == ml["n"] \
                and core.enc(l.sum_px) == ml["px"] and core.enc(l.sum_pxx) == ml["pxx"] and (l.n_gaussians, l.n_features) == s.shape

        l = core.impl(lambda: GMMStats.from_hdf5(path))
        if not same(l):
            bad.append({"op": "h5_stats:from_hdf5", "input": gen.stats_impl(s), "model": o["loaded"], "impl": repr(l)})
        same_shape = GMMStats(s.n_gaussians, s.n_features)
        same_shape.n = np.arange(s.n_gaussians, dtype=np.int64) + 1  # hard counts typed in by hand: integer-typed arrays
        same_shape.sum_px = np.ones(s.shape, dtype=np.int64)
        same_shape.sum_pxx = np.ones(s.shape, dtype=np.float32)
        r = core.impl(lambda: same_shape.load(path))
        if isinstance(r, core.ImplError) or not same(same_shape):
            bad.append({"op": "h5_stats:load_resize", "input": gen.stats_impl(s), "model": o["loaded"], "impl": repr(r) if isinstance(r, core.ImplError) else gen.stats_impl(same_shape),
                        "note": "load() into an object of the same shape holding integer-typed arrays"})
        other = GMMStats(s.n_gaussians + 1, s.n_features + 2)
        r = core.impl(lambda: other.load(path))
        if isinstance(r, core.ImplError) or not same(other):
            bad.append({"op": "h5_stats:load_resize", "input": gen.stats_impl(s), "model": o["loaded"], "impl": repr(r)})
    # the repository's legacy fixture: legacy reader == current reader on the re-saved machine
    leg = os.path.join(core.REPO, "tests", "data", "gmm_ML_legacy.hdf5")
    if os.path.exists(leg):
        g1 = core.impl(lambda: GMMMachine.from_hdf5(leg))
        ctx.count("legacy-fixture")
        ctx.case(["legacy"], nontrivial=True)
        if isinstance(g1, core.ImplError):
            bad.append({"op": "h5_legacy:fixture", "input": leg, "impl": repr(g1)})
        else:
            p = tmp("leg.h5")
            g1.save(p)
            g2 = core.impl(lambda: GMMMachine.from_hdf5(p))
            ok = (not isinstance(g2, core.ImplError)) and all(core.enc(getattr(g1, a)) == core.enc(getattr(g2, a)) for a in ("weights", "means", "variances"))
            if not ok:
                bad.append({"op": "h5_legacy:fixture", "input": leg, "impl": repr(g2)})
    ctx.count("legacy-written-12-gaussians")
    ctx.case(["legacy12", ctx.seed], nontrivial=True)
    f12 = legacy_oracle(ctx.seed + 77)
    if f12:
        bad.append({"op": "h5_legacy:fixture", "input": {"file": "legacy layout, 12 Gaussians", "seed": ctx.seed + 77}, "impl": f12["what"]})
    return bad


def legacy_oracle(seed, n_g=12, n_f=3):
    """a legacy-layout file written here (one group per Gaussian; with 12 of them "m_gaussians10" sorts before "m_gaussians2"):
    the legacy reader must give the machine that the current format gives for the same parameters"""
    import h5py
    from bob.learn.em import GMMMachine

    r_ = np.random.default_rng(seed)
    w_, m_, v_, _ = gen.gmm_params(r_, n_g, n_f, scales=np.ones(n_f))
    thr_ = np.full((n_g, n_f), 1e-3)
    lp = tmp("legacy12.h5")
    with h5py.File(lp, "w") as f:
        f["m_n_gaussians"] = np.array([n_g], dtype=np.int64)
        f["m_n_inputs"] = np.array([n_f], dtype=np.int64)
        f["m_weights"] = w_
        for i in range(n_g):
            grp = f.create_group(f"m_gaussians{i}")
            grp["m_mean"], grp["m_variance"], grp["m_variance_thresholds"] = m_[i], v_[i], thr_[i]
            grp["m_n_inputs"] = np.array([n_f], dtype=np.int64)
            grp["g_norm"] = np.array([0.0])
    gl = core.impl(lambda: GMMMachine.from_hdf5(lp))
    ref = gen.mk_gmm(w_, m_, v_, thr=thr_)
    if isinstance(gl, core.ImplError):
        return {"sig": "legacy-load-raises", "what": repr(gl)}
    if not all(core.enc(getattr(gl, a)) == core.enc(getattr(ref, a)) for a in ("weights", "means", "variances")) \
            or not np.array_equal(np.asarray(gl.log_likelihood(m_)), np.asarray(ref.log_likelihood(m_))):
        return {"sig": "legacy-file-loads-to-another-model", "what": f"{n_g} Gaussians in the legacy layout: means {np.asarray(gl.means).tolist()} vs stored {m_.tolist()}"}
    return None


def oracle(sc):
    """direct statement of the property on the implementation"""
    from bob.learn.em import GMMMachine

    g, ubm = build(sc)
    path = tmp("o.h5")
    r = core.impl(lambda: g.save(path))
    if isinstance(r, core.ImplError):
        return {"sig": "save-raises", "what": f"{r!r} (max_fitting_steps={sc['steps']}, convergence_threshold={sc['conv']})"}
    if sc["trainer"] == "map":
        l0 = core.impl(lambda: GMMMachine.from_hdf5(path))
        if not (isinstance(l0, core.ImplError) and l0.kind == "ValueError"):
            return {"sig": "map-file-loads-without-ubm", "what": f"from_hdf5 of a MAP machine without ubm returned {l0!r} (trainer {getattr(l0, 'trainer', None)!r})"}
    cur = g
    x = np.random.default_rng(1).normal(size=(6, sc["D"])) * np.sqrt(np.max(sc["v"])) + np.mean(sc["m"])
    for trip in range(sc["trips"]):
        p = tmp(f"o{trip}.h5")
        cur.save(p)
        def into_used():
            # the other way to read a file: load() into an existing machine that holds other parameters and has been used
            import copy

            other = copy.deepcopy(g)
            other.weights = np.asarray(other.weights)[::-1].copy()
            other.means = np.asarray(other.means) * 1.5 + 0.25
            other.variances = np.asarray(other.variances) * 2.0
            other.log_likelihood(x)
            other.load(p)
            return other

        def into_near():
            # ... or holds almost the same Gaussians (a machine one nearly-converged step further, or a sibling started from the
            # same values) under other settings: after load() it is the file's machine, settings and last bits included
            import copy

            other = copy.deepcopy(g)
            other.means = np.asarray(other.means) * (1 + 1e-9)
            other.variances = np.asarray(other.variances) * (1 + 1e-9)
            other.update_means, other.update_variances, other.update_weights = (not bool(g.update_means)), (not bool(g.update_variances)), (not bool(g.update_weights))
            other.max_fitting_steps = 7 if g.max_fitting_steps != 7 else 9
            other.log_likelihood(x)
            other.load(p)
            return other

        for route, reader in (("from_hdf5", lambda: GMMMachine.from_hdf5(p, ubm=ubm)), ("load() into a used machine", into_used), ("load() into a machine holding almost the same Gaussians", into_near)):
            l = core.impl(reader)
            if isinstance(l, core.ImplError):
                return {"sig": "load-raises", "what": f"{route}: {l!r}"}
            a, b = fields(g), fields(l)
            for k in ("w", "m", "v", "thr"):
                if np.shape(a[k]) != np.shape(b[k]) or core.enc(a[k]) != core.enc(b[k]):
                    return {"sig": f"field-not-bit-identical:{k}", "what": f"{route}, round trip {trip + 1}: saved {np.asarray(a[k]).tolist()} loaded {np.asarray(b[k]).tolist()}"}
            for k in ("trainer", "conv", "steps", "um", "uv", "uw", "has_ubm"):
                if a[k] != b[k]:
                    return {"sig": f"setting-not-preserved:{k}", "what": f"{route}, round trip {trip + 1}: saved {a[k]!r} loaded {b[k]!r}"}
            if not (g == l):
                return {"sig": "not-equal-under-package-equality", "what": route}
            if core.enc(g.log_likelihood(x)) != core.enc(l.log_likelihood(x)):
                return {"sig": "scores-differ-after-load", "what": f"{route}: log-likelihoods of the same samples {np.asarray(l.log_likelihood(x)).tolist()} vs the saved machine's {np.asarray(g.log_likelihood(x)).tolist()}"}
        cur = l
    # continued training gives what training the original would have given
    if sc["steps"] is not None and sc["steps"] > 0:
        g.max_fitting_steps = cur.max_fitting_steps = 2
        xx = np.random.default_rng(2).normal(size=(20, sc["D"])) * np.sqrt(np.max(sc["v"])) + np.mean(sc["m"])
        r1 = core.impl(lambda: g.fit(xx))
        r2 = core.impl(lambda: cur.fit(xx))
        if isinstance(r1, core.ImplError) != isinstance(r2, core.ImplError):
            return {"sig": "continued-training-differs", "what": f"{r1!r} vs {r2!r}"}
        if not isinstance(r1, core.ImplError):
            for k in ("w", "m", "v"):
                if core.enc(fields(g)[k]) != core.enc(fields(cur)[k]):
                    return {"sig": "continued-training-differs", "what": f"field {k} after 2 more EM steps"}
    return None


def search(ctx):
    fails, seen = [], set()
    for i in range(ctx.budget(40, 400)):
        sc = machine_scenario(ctx, i)
        sc["offer_ubm"] = True
        ctx.count("search:roundtrip")
        ctx.case(["s", core.tolist(sc["m"]), sc["trainer"], sc["steps"], sc["conv"]], nontrivial=True)
        f = oracle(sc)
        if f and f["sig"] not in seen:
            seen.add(f["sig"])
            f["input"] = sc
            fails.append(f)
    f = legacy_oracle(ctx.seed + 78)
    ctx.count("search:legacy-12")
    if f:
        f["input"] = {"legacy_seed": ctx.seed + 78}
        fails.append(f)
    return fails


def replay(d):
    sc = d["input"]
    if "legacy_seed" in sc:
        return legacy_oracle(sc["legacy_seed"])
    for k in ("w", "m", "v"):
        sc[k] = np.asarray(sc[k], dtype=float)
    if sc["thr_kind"] != "scalar":
        sc["thr"] = np.asarray(sc["thr"], dtype=float)
    return oracle(sc)
