#!/usr/bin/env python3
"""Run every registered check (quick by default) in parallel and summarise.  usage: runall.py [quick|thorough] [ids...]"""
import json, os, subprocess, sys, time
from concurrent.futures import ThreadPoolExecutor
V = os.path.dirname(os.path.dirname(os.path.abspath(__file__)))
tier = sys.argv[1] if len(sys.argv) > 1 else "quick"
man = json.load(open(os.path.join(V, "MANIFEST.json")))
ids = sys.argv[2:] or [c["property_id"] for c in man["checks"]]
cmds = {c["property_id"]: c["quick_cmd" if tier == "quick" else "thorough_cmd"] for c in man["checks"]}
def run(i):
    t = time.time()
    p = subprocess.run(cmds[i], shell=True, cwd=V, capture_output=True, text=True)
    return i, p.returncode, time.time() - t, (p.stdout + p.stderr).strip().splitlines()
with ThreadPoolExecutor(int(os.environ.get("JOBS", "6"))) as ex:
    for i, rc, dt, out in ex.map(run, ids):
        print(f"{i} exit={rc} {dt:.0f}s")
        for l in out:
            if "VIOLATION" in l or "KNOWN" in l or "INFRA" in l or "Traceback" in l or "Error" in l:
                print("   ", l[:300])
